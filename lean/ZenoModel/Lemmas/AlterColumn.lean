/-
One column under alters and restarts (Model/Alter.lean, `Col.astep`): refinement to the raw-point
spec `AColSpec`.  The invariant is the one of Lemmas/Column.lean with the live window taken
relative to the highest clock ever reached (`hwm`) — a restart puts the clock back to zero, so
"live" can no longer be read off the current clock.
-/
import ZenoModel.Lemmas.ColumnSpec
import ZenoModel.Model.Alter
set_option linter.unusedSimpArgs false
set_option linter.unusedVariables false
namespace Zeno

/-- `T` is a period end on the grid that has never been expired: it ends after
    `hwm − retention` -/
def LiveH (cfg : ColCfg) (hwm T : Int) : Prop := T % cfg.res = 0 ∧ T > hwm - cfg.retention

structure AColInv (x : Ext) (cfg : ColCfg) (c : Col) (a : AColSpec) : Prop where
  now_eq : c.now = a.s.now
  now_nonneg : 0 ≤ c.now
  now_le : c.now ≤ a.hwm
  fileOk : SqOk cfg.res c.file
  memOk : SqOk cfg.res c.mem
  fileWF : SqWF cfg.e c.file
  memWF : SqWF cfg.e c.mem
  specWF : ∀ T, WF cfg.e (a.s.cells T)
  agree : ∀ T, LiveH cfg a.hwm T → 0 < T →
    cfg.e.mrg (c.file.at cfg.e cfg.res T) (c.mem.at cfg.e cfg.res T) = a.s.cells T

def AOpsPos : List AColOp → Prop
  | [] => True
  | .base op :: r => OpsPos [op] ∧ AOpsPos r
  | _ :: r => AOpsPos r

/-- a column that holds nothing at clock `n` (never written, or just added by an alter) refines
    the empty spec -/
theorem acolInv_fresh (x : Ext) (cfg : ColCfg) (hv : cfg.e.valid = true) (hp : cfg.e.noPtile = true)
    (n h : Int) (hn : 0 ≤ n) (hnh : n ≤ h) :
    AColInv x cfg { now := n } { s := { now := n, cells := fun _ => cfg.e.empty }, hwm := h } := by
  refine ⟨rfl, hn, hnh, trivial, trivial, trivial, trivial, fun _ => wf_empty _, ?_⟩
  intro T _ _
  simp [Sq.at, mrg_empty_empty hv hp]

theorem acolInv_flush (x : Ext) (cfg : ColCfg) (hv : cfg.e.valid = true) (hp : cfg.e.noPtile = true)
    (hres : 0 < cfg.res) (c : Col) (a : AColSpec) (inv : AColInv x cfg c a) (raw : Bool) :
    AColInv x cfg (c.step x cfg (.flush raw)) a := by
  obtain ⟨hnow, hnn, hle, fOk, mOk, fWF, mWF, sWF, agree⟩ := inv
  simp only [Col.step]
  split
  · exact ⟨hnow, hnn, hle, fOk, mOk, fWF, mWF, sWF, agree⟩
  · obtain ⟨gOk, gWF⟩ := merge_inv hv hp hres c.file c.mem fOk mOk fWF mWF (c.now - cfg.retention)
    obtain ⟨tOk, tWF⟩ := truncate_inv (e := cfg.e) hres _ gOk gWF (c.now - cfg.retention)
    refine ⟨hnow, hnn, hle, tOk, trivial, tWF, trivial, sWF, ?_⟩
    intro T hl hT0
    have hgt : T > c.now - cfg.retention := by have := hl.2; omega
    simp only
    rw [at_none, mrg_empty_right hv hp (sqAt_wf tWF _ _)]
    rw [truncate_live cfg.e hres _ _ T hgt]
    rw [view_at hv hp hres c.file c.mem fOk mOk fWF mWF _ T hl.1 hgt hT0]
    exact agree T hl hT0

theorem acolInv_step (x : Ext) (cfg : ColCfg) (hv : cfg.e.valid = true) (hp : cfg.e.noPtile = true)
    (hres : 0 < cfg.res) (c : Col) (a : AColSpec) (inv : AColInv x cfg c a) (op : AColOp)
    (hop : AOpsPos [op]) : AColInv x cfg (c.astep x cfg op) (a.step x cfg op) := by
  cases op with
  | alterKeep b raw =>
    cases b with
    | true => exact acolInv_flush x cfg hv hp hres c a inv raw
    | false => exact inv
  | reopen raw =>
    have h := acolInv_flush x cfg hv hp hres c a inv raw
    obtain ⟨hnow, hnn, hle, fOk, mOk, fWF, mWF, sWF, agree⟩ := h
    simp only [Col.astep, AColSpec.step]
    exact ⟨rfl, Int.le_refl 0, by dsimp only; omega, fOk, mOk, fWF, mWF, sWF, agree⟩
  | base op =>
    cases op with
    | flush raw =>
      have h := acolInv_flush x cfg hv hp hres c a inv raw
      obtain ⟨hnow, hnn, hle, fOk, mOk, fWF, mWF, sWF, agree⟩ := h
      have hn : (c.step x cfg (.flush raw)).now = c.now := by simp only [Col.step]; split <;> rfl
      simp only [Col.astep, AColSpec.step, ColSpec.step]
      refine ⟨hnow, hnn, by dsimp only; omega, fOk, mOk, fWF, mWF, sWF, ?_⟩
      intro T hl hT0
      apply agree T ⟨hl.1, ?_⟩ hT0
      have := hl.2; dsimp only at this; omega
    | late ts =>
      obtain ⟨hnow, hnn, hle, fOk, mOk, fWF, mWF, sWF, agree⟩ := inv
      simp only [Col.astep, AColSpec.step, Col.step, ColSpec.step]
      refine ⟨hnow, hnn, ?_, fOk, mOk, fWF, mWF, sWF, ?_⟩
      · dsimp only; omega
      · intro T hl hT0
        apply agree T ⟨hl.1, ?_⟩ hT0
        have := hl.2; dsimp only at this; omega
    | tick ts =>
      obtain ⟨hnow, hnn, hle, fOk, mOk, fWF, mWF, sWF, agree⟩ := inv
      simp only [Col.astep, AColSpec.step, Col.step, ColSpec.step, ← hnow]
      split
      · refine ⟨by simp [hnow], by dsimp only; omega, by dsimp only; omega, fOk, mOk, fWF, mWF, sWF, ?_⟩
        intro T hl hT0
        apply agree T ⟨hl.1, ?_⟩ hT0
        have := hl.2; dsimp only at this; omega
      · refine ⟨hnow, hnn, by dsimp only; omega, fOk, mOk, fWF, mWF, sWF, ?_⟩
        intro T hl hT0
        apply agree T ⟨hl.1, ?_⟩ hT0
        have := hl.2; dsimp only at this; omega
    | ingest ts pt =>
      have hts : 0 < ts := hop.1.1
      obtain ⟨hnow, hnn, hle, fOk, mOk, fWF, mWF, sWF, agree⟩ := inv
      simp only [Col.astep, AColSpec.step, Col.step, ColSpec.step, ← hnow]
      split
      · obtain ⟨mOk', mWF'⟩ := updateValue0_inv x hv hp hres c.mem mOk mWF ts hts pt
        refine ⟨by simp [hnow], by dsimp only; omega, by dsimp only; omega, fOk, mOk', fWF, mWF', ?_, ?_⟩
        · intro T
          simp only
          split
          · exact upd_wf x hv hp (sWF T) pt
          · exact sWF T
        · intro T hl hT0
          simp only
          rw [sem_updateValue0 x cfg.e hres c.mem mOk ts hts pt T]
          have hl' : LiveH cfg a.hwm T := ⟨hl.1, by have := hl.2; dsimp only at this; omega⟩
          split
          · rw [← agree T hl' hT0]
            exact (upd_mrg x pt hv hp (sqAt_wf fWF _ _) (sqAt_wf mWF _ _)).symm
          · exact agree T hl' hT0
      · refine ⟨hnow, hnn, by dsimp only; omega, fOk, mOk, fWF, mWF, sWF, ?_⟩
        intro T hl hT0
        apply agree T ⟨hl.1, ?_⟩ hT0
        have := hl.2; dsimp only at this; omega

theorem aopsPos_head {op : AColOp} {r : List AColOp} (h : AOpsPos (op :: r)) : AOpsPos [op] ∧ AOpsPos r := by
  cases op <;> simp_all [AOpsPos]

theorem acolInv_foldl (x : Ext) (cfg : ColCfg) (hv : cfg.e.valid = true) (hp : cfg.e.noPtile = true)
    (hres : 0 < cfg.res) (ops : List AColOp) :
    ∀ (c : Col) (a : AColSpec), AColInv x cfg c a → AOpsPos ops →
      AColInv x cfg (Col.arun x cfg c ops) (AColSpec.run x cfg a ops) := by
  induction ops with
  | nil => intro c a inv _; exact inv
  | cons op r ih =>
    intro c a inv hpos
    obtain ⟨h1, h2⟩ := aopsPos_head hpos
    exact ih _ _ (acolInv_step x cfg hv hp hres c a inv op h1) h2

/-- what a memstore-inclusive scan returns on a never-expired period is the spec's state -/
theorem aview_eq_spec (x : Ext) (cfg : ColCfg) (hv : cfg.e.valid = true) (hp : cfg.e.noPtile = true)
    (hres : 0 < cfg.res) {c : Col} {a : AColSpec} (inv : AColInv x cfg c a) (T : Int)
    (hl : LiveH cfg a.hwm T) (hT0 : 0 < T) :
    ((c.view cfg true).at cfg.e cfg.res T) = a.s.cells T := by
  simp only [Col.view, if_true]
  have hgt : T > c.now - cfg.retention := by have := hl.2; have := inv.now_le; omega
  rw [view_at hv hp hres c.file c.mem inv.fileOk inv.memOk inv.fileWF inv.memWF _ T hl.1 hgt hT0]
  exact inv.agree T hl hT0

/-! the spec does not see alters -/

theorem aspec_erase (x : Ext) (cfg : ColCfg) (ops : List AColOp) :
    ∀ a : AColSpec, AColSpec.run x cfg a ops = AColSpec.run x cfg a (eraseAlters ops) := by
  induction ops with
  | nil => intro a; rfl
  | cons op r ih =>
    intro a
    cases op with
    | alterKeep b raw => simp only [AColSpec.run, List.foldl_cons, eraseAlters, AColSpec.step]; exact ih a
    | base o => simp only [AColSpec.run, List.foldl_cons, eraseAlters]; exact ih _
    | reopen raw => simp only [AColSpec.run, List.foldl_cons, eraseAlters]; exact ih _

theorem aopsPos_erase : ∀ {ops : List AColOp}, AOpsPos ops → AOpsPos (eraseAlters ops)
  | [], _ => trivial
  | .alterKeep _ _ :: r, h => aopsPos_erase (ops := r) h
  | .base _ :: r, h => ⟨h.1, aopsPos_erase (ops := r) h.2⟩
  | .reopen _ :: r, h => aopsPos_erase (ops := r) h

theorem aopsPos_append : ∀ {p q : List AColOp}, AOpsPos p → AOpsPos q → AOpsPos (p ++ q)
  | [], _, _, hq => hq
  | .alterKeep _ _ :: r, _, hp, hq => aopsPos_append (p := r) hp hq
  | .base _ :: r, _, hp, hq => ⟨hp.1, aopsPos_append (p := r) hp.2 hq⟩
  | .reopen _ :: r, _, hp, hq => aopsPos_append (p := r) hp hq

/-- the spec's state of a period: the rows of accepted points that round up to it, accumulated
    in arrival order on top of what was there -/
theorem aspec_foldl_cells (x : Ext) (cfg : ColCfg) (T : Int) (ops : List AColOp) :
    ∀ a : AColSpec, (AColSpec.run x cfg a ops).s.cells T =
      (rowsForA cfg T a.s.now ops).foldl (cfg.e.upd x) (a.s.cells T) := by
  induction ops with
  | nil => intro a; rfl
  | cons op r ih =>
    intro a
    simp only [AColSpec.run, List.foldl_cons]
    have ih' := ih (a.step x cfg op)
    simp only [AColSpec.run] at ih'
    rw [ih']
    cases op with
    | alterKeep b raw => rfl
    | reopen raw => rfl
    | base o =>
      cases o with
      | ingest ts pt =>
        simp only [AColSpec.step, ColSpec.step, rowsForA]
        split
        · simp only
          split
          · rename_i hP
            simp [hP]
          · rename_i hP
            have : ¬ roundUp ts cfg.res = T := fun h => hP h.symm
            simp [this]
        · rfl
      | tick ts =>
        simp only [AColSpec.step, ColSpec.step, rowsForA]
        split <;> rfl
      | late ts => rfl
      | flush raw => rfl

/-! ### histories from the empty column -/

/-- the spec a column starts from -/
def spec0 (cfg : ColCfg) : AColSpec := { s := ColSpec.init cfg, hwm := 0 }

/-- highest clock a history reaches -/
def hwmOf (x : Ext) (cfg : ColCfg) (ops : List AColOp) : Int := (AColSpec.run x cfg (spec0 cfg) ops).hwm

theorem inv_run (x : Ext) (cfg : ColCfg) (hv : cfg.e.valid = true) (hp : cfg.e.noPtile = true) (hres : 0 < cfg.res)
    (ops : List AColOp) (hpos : AOpsPos ops) :
    AColInv x cfg (Col.arun x cfg {} ops) (AColSpec.run x cfg (spec0 cfg) ops) :=
  acolInv_foldl x cfg hv hp hres ops {} (spec0 cfg)
    (acolInv_fresh x cfg hv hp 0 0 (Int.le_refl 0) (Int.le_refl 0)) hpos

end Zeno
