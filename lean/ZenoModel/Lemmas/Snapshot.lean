/-
Helper lemmas for C18 (Model/Snapshot.lean): the ownership invariant `Inv`, the frame
relation `Stable` (what a scan can read is left alone), their preservation by every event,
and correctness of the deep copy.  Core Lean only.
-/
import ZenoModel.Model.Snapshot

set_option linter.unusedSimpArgs false
set_option linter.unusedVariables false

namespace Zeno.Snap

variable {C P : Type}

/-- `h'` differs from `h` on nothing the tree `nodes` can reach: the nodes' arrays and the
    buffers those arrays refer to -/
def Stable (h h' : Heap C) (nodes : List Node) : Prop :=
  ∀ n ∈ nodes, h'.arr n.arr = h.arr n.arr ∧ ∀ b, some b ∈ h.arr n.arr → h'.buf b = h.buf b

theorem Stable.refl (h : Heap C) (nodes : List Node) : Stable h h nodes :=
  fun _ _ => ⟨rfl, fun _ _ => rfl⟩

theorem Stable.trans {h1 h2 h3 : Heap C} {nodes : List Node}
    (a : Stable h1 h2 nodes) (b : Stable h2 h3 nodes) : Stable h1 h3 nodes := by
  intro n hn
  obtain ⟨a1, a2⟩ := a n hn
  obtain ⟨b1, b2⟩ := b n hn
  refine ⟨b1.trans a1, fun x hx => ?_⟩
  rw [b2 x (by rw [a1]; exact hx), a2 x hx]

theorem readArr_stable {h h' : Heap C} {a : Nat} (ha : h'.arr a = h.arr a)
    (hb : ∀ b, some b ∈ h.arr a → h'.buf b = h.buf b) : h'.readArr a = h.readArr a := by
  unfold Heap.readArr
  rw [ha]
  apply List.map_congr_left
  intro e he
  cases e with
  | none => rfl
  | some b => simp [Heap.deref, hb b he]

theorem memViewOf_stable {h h' : Heap C} {nodes : List Node} (s : Stable h h' nodes) (k : Key) :
    memViewOf h' nodes k = memViewOf h nodes k := by
  unfold memViewOf
  cases hf : nodes.find? (fun n => n.key == k) with
  | none => rfl
  | some n =>
    have hn : n ∈ nodes := List.mem_of_find?_eq_some hf
    obtain ⟨s1, s2⟩ := s n hn
    simp [readArr_stable s1 s2]

/-- The ownership invariant.  Everything a tree refers to exists (`*Arr`, `*Buf`: ids below the
    allocation counters), live `data` slices have one slot per field (`liveLen`), and what a
    scan's copy can read is disjoint from what the live tree can write (`sepArr`: the arrays,
    `sepBuf`: the sequence buffers). -/
structure Inv (cfg : Cfg C P) (st : State C) : Prop where
  liveArr : ∀ n ∈ st.live, n.arr < st.heap.na
  liveBuf : ∀ n ∈ st.live, ∀ b, some b ∈ st.heap.arr n.arr → b < st.heap.nb
  liveLen : ∀ n ∈ st.live, (st.heap.arr n.arr).length = cfg.nf
  scanArr : ∀ sc ∈ st.scans, ∀ n ∈ sc.nodes, n.arr < st.heap.na
  scanBuf : ∀ sc ∈ st.scans, ∀ n ∈ sc.nodes, ∀ b, some b ∈ st.heap.arr n.arr → b < st.heap.nb
  sepArr : ∀ sc ∈ st.scans, ∀ n ∈ sc.nodes, ∀ m ∈ st.live, n.arr ≠ m.arr
  sepBuf : ∀ sc ∈ st.scans, ∀ n ∈ sc.nodes, ∀ m ∈ st.live, ∀ b,
    some b ∈ st.heap.arr n.arr → some b ∉ st.heap.arr m.arr

theorem inv_init (cfg : Cfg C P) : Inv cfg ({} : State C) := by
  constructor <;> simp

/-- what one event guarantees: the invariant again, scans only appended, every existing scan's
    readable storage untouched -/
structure Good (cfg : Cfg C P) (st st' : State C) : Prop where
  inv : Inv cfg st'
  scans : ∃ ex, st'.scans = st.scans ++ ex
  frame : ∀ sc ∈ st.scans, Stable st.heap st'.heap sc.nodes

theorem Good.refl {cfg : Cfg C P} {st : State C} (i : Inv cfg st) : Good cfg st st :=
  ⟨i, ⟨[], by simp⟩, fun sc _ => Stable.refl _ _⟩

theorem Good.trans {cfg : Cfg C P} {s1 s2 s3 : State C} (a : Good cfg s1 s2) (b : Good cfg s2 s3) :
    Good cfg s1 s3 := by
  obtain ⟨e1, h1⟩ := a.scans
  obtain ⟨e2, h2⟩ := b.scans
  refine ⟨b.inv, ⟨e1 ++ e2, by rw [h2, h1, List.append_assoc]⟩, fun sc hsc => ?_⟩
  exact (a.frame sc hsc).trans (b.frame sc (by rw [h1]; exact List.mem_append_left _ hsc))

theorem mem_of_getD_eq_some {l : List (Option Nat)} {f b : Nat} (h : l.getD f none = some b) :
    some b ∈ l := by
  rw [List.getD_eq_getElem?_getD] at h
  cases hg : l[f]? with
  | none => simp [hg] at h
  | some e =>
    simp [hg] at h
    subst h
    exact List.mem_of_getElem? hg

theorem mem_set_cases {l : List (Option Nat)} {f : Nat} {e x : Option Nat} (h : x ∈ l.set f e) :
    x = e ∨ x ∈ l := by
  rcases List.mem_or_eq_of_mem_set h with h | h
  · exact Or.inr h
  · exact Or.inl h

/-! heap operations, field by field -/
section heapops
variable (h : Heap C)
@[simp] theorem allocBuf_nb (c : Option C) : (h.allocBuf c).1.nb = h.nb + 1 := rfl
@[simp] theorem allocBuf_na (c : Option C) : (h.allocBuf c).1.na = h.na := rfl
@[simp] theorem allocBuf_arr (c : Option C) : (h.allocBuf c).1.arr = h.arr := rfl
@[simp] theorem allocBuf_buf (c : Option C) (i : Nat) :
    (h.allocBuf c).1.buf i = if i = h.nb then c else h.buf i := rfl
@[simp] theorem allocArr_nb (l : List (Option Nat)) : (h.allocArr l).1.nb = h.nb := rfl
@[simp] theorem allocArr_na (l : List (Option Nat)) : (h.allocArr l).1.na = h.na + 1 := rfl
@[simp] theorem allocArr_buf (l : List (Option Nat)) : (h.allocArr l).1.buf = h.buf := rfl
@[simp] theorem allocArr_arr (l : List (Option Nat)) (a : Nat) :
    (h.allocArr l).1.arr a = if a = h.na then l else h.arr a := rfl
@[simp] theorem writeBuf_nb (b : Nat) (c : C) : (h.writeBuf b c).nb = h.nb := rfl
@[simp] theorem writeBuf_na (b : Nat) (c : C) : (h.writeBuf b c).na = h.na := rfl
@[simp] theorem writeBuf_arr (b : Nat) (c : C) : (h.writeBuf b c).arr = h.arr := rfl
@[simp] theorem writeBuf_buf (b : Nat) (c : C) (i : Nat) :
    (h.writeBuf b c).buf i = if i = b then some c else h.buf i := rfl
@[simp] theorem setElem_nb (a f : Nat) (e : Option Nat) : (h.setElem a f e).nb = h.nb := rfl
@[simp] theorem setElem_na (a f : Nat) (e : Option Nat) : (h.setElem a f e).na = h.na := rfl
@[simp] theorem setElem_buf (a f : Nat) (e : Option Nat) : (h.setElem a f e).buf = h.buf := rfl
@[simp] theorem setElem_arr (a f : Nat) (e : Option Nat) (x : Nat) :
    (h.setElem a f e).arr x = if x = a then (h.arr a).set f e else h.arr x := rfl
end heapops

/-- `node.doUpdate`, one field -/
theorem good_ingestField (cfg : Cfg C P) (st : State C) (i : Inv cfg st) (p : P) (f : Nat) :
    Good cfg st (ingestField cfg st p f) := by
  unfold ingestField
  dsimp only
  cases hf : st.live.find? (fun n => n.key == cfg.keyOf p) with
  | some m =>
    have hm : m ∈ st.live := List.mem_of_find?_eq_some hf
    dsimp only
    split
    · -- in place: the bytes of a buffer the live tree refers to
      rename_i b heq _
      have hb : some b ∈ st.heap.arr m.arr := mem_of_getD_eq_some heq
      refine ⟨⟨i.liveArr, i.liveBuf, i.liveLen, i.scanArr, i.scanBuf, i.sepArr, i.sepBuf⟩, ⟨[], by simp⟩, ?_⟩
      intro sc hsc n hn
      refine ⟨rfl, fun x hx => ?_⟩
      have : x ≠ b := fun e => i.sepBuf sc hsc n hn m hm x hx (e ▸ hb)
      simp [this]
    · -- re-allocated: new buffer, stored into the live node's array
      refine ⟨⟨?_, ?_, ?_, ?_, ?_, ?_, ?_⟩, ⟨[], by simp⟩, ?_⟩
      · exact i.liveArr
      · intro n hn b hb
        simp only [setElem_arr, setElem_nb, allocBuf_arr, allocBuf_nb] at hb ⊢
        split at hb
        · rcases mem_set_cases hb with h | h
          · simp at h; omega
          · have := i.liveBuf m hm b h; omega
        · have := i.liveBuf n hn b hb; omega
      · intro n hn
        simp only [setElem_arr, allocBuf_arr]
        split
        · simp [i.liveLen m hm]
        · exact i.liveLen n hn
      · exact i.scanArr
      · intro sc hsc n hn b hb
        have hne := i.sepArr sc hsc n hn m hm
        simp only [setElem_arr, setElem_nb, allocBuf_arr, allocBuf_nb, if_neg hne] at hb ⊢
        have := i.scanBuf sc hsc n hn b hb; omega
      · exact i.sepArr
      · intro sc hsc n hn m' hm' b hb
        have hne := i.sepArr sc hsc n hn m hm
        simp only [setElem_arr, allocBuf_arr, if_neg hne] at hb ⊢
        split
        · intro hc
          rcases mem_set_cases hc with h | h
          · simp at h
            have := i.scanBuf sc hsc n hn b hb; omega
          · exact i.sepBuf sc hsc n hn m hm b hb h
        · exact i.sepBuf sc hsc n hn m' hm' b hb
      · intro sc hsc n hn
        have hne := i.sepArr sc hsc n hn m hm
        refine ⟨by simp [hne], fun x hx => ?_⟩
        have := i.scanBuf sc hsc n hn x hx
        have hx' : x ≠ st.heap.nb := by omega
        simp [hx']
  | none =>
    -- new key: new node, new array, new buffer
    dsimp only
    refine ⟨⟨?_, ?_, ?_, ?_, ?_, ?_, ?_⟩, ⟨[], by simp⟩, ?_⟩
    · intro n hn
      simp only [allocArr_na, allocBuf_na]
      rcases List.mem_append.mp hn with h | h
      · have := i.liveArr n h; omega
      · simp at h; subst h; simp
    · intro n hn b hb
      simp only [allocArr_arr, allocArr_nb, allocBuf_arr, allocBuf_nb, allocBuf_na] at hb ⊢
      rcases List.mem_append.mp hn with h | h
      · have hlt := i.liveArr n h
        have hne : n.arr ≠ st.heap.na := by omega
        simp only [hne, ↓reduceIte] at hb
        have := i.liveBuf n h b hb; omega
      · simp at h; subst h
        simp at hb
        rcases mem_set_cases hb with h | h
        · simp at h; omega
        · simp at h
    · intro n hn
      simp only [allocArr_arr, allocBuf_arr, allocBuf_na]
      rcases List.mem_append.mp hn with h | h
      · have hlt := i.liveArr n h
        have hne : n.arr ≠ st.heap.na := by omega
        simp only [hne, ↓reduceIte]
        exact i.liveLen n h
      · simp at h; subst h; simp
    · intro sc hsc n hn
      simp only [allocArr_na, allocBuf_na]
      have := i.scanArr sc hsc n hn; omega
    · intro sc hsc n hn b hb
      simp only [allocArr_arr, allocArr_nb, allocBuf_arr, allocBuf_nb, allocBuf_na] at hb ⊢
      have hlt := i.scanArr sc hsc n hn
      have hne : n.arr ≠ st.heap.na := by omega
      simp only [hne, ↓reduceIte] at hb
      have := i.scanBuf sc hsc n hn b hb; omega
    · intro sc hsc n hn m' hm'
      rcases List.mem_append.mp hm' with h | h
      · exact i.sepArr sc hsc n hn m' h
      · simp at h; subst h
        have := i.scanArr sc hsc n hn
        simp; omega
    · intro sc hsc n hn m' hm' b hb
      simp only [allocArr_arr, allocBuf_arr, allocBuf_na] at hb ⊢
      have hna := i.scanArr sc hsc n hn
      have hne : n.arr ≠ st.heap.na := by omega
      simp only [hne, ↓reduceIte] at hb
      rcases List.mem_append.mp hm' with h | h
      · have hlt := i.liveArr m' h
        have hne' : m'.arr ≠ st.heap.na := by omega
        simp only [hne', ↓reduceIte]
        exact i.sepBuf sc hsc n hn m' h b hb
      · simp at h; subst h
        simp
        intro hc
        rcases mem_set_cases hc with h | h
        · simp at h
          have := i.scanBuf sc hsc n hn b hb; omega
        · simp at h
    · intro sc hsc n hn
      have hna := i.scanArr sc hsc n hn
      have hne : n.arr ≠ st.heap.na := by omega
      refine ⟨by simp [hne], fun x hx => ?_⟩
      have := i.scanBuf sc hsc n hn x hx
      have hx' : x ≠ st.heap.nb := by omega
      simp [hx']

/-- `node.doUpdate`, any list of fields in any order -/
theorem good_ingestFields (cfg : Cfg C P) (p : P) : ∀ (fs : List Nat) (st : State C), Inv cfg st →
    Good cfg st (fs.foldl (fun s f => ingestField cfg s p f) st)
  | [], st, i => Good.refl i
  | f :: fs, st, i =>
    (good_ingestField cfg st i p f).trans
      (good_ingestFields cfg p fs _ (good_ingestField cfg st i p f).inv)

theorem good_ingest (cfg : Cfg C P) (st : State C) (i : Inv cfg st) (p : P) :
    Good cfg st (ingest cfg st p) :=
  good_ingestFields cfg p _ st i

/-- `doProcessFlush`: no heap write at all; the live tree is replaced -/
theorem good_flush (cfg : Cfg C P) (st : State C) (i : Inv cfg st) (raw : Bool) :
    Good cfg st (flush cfg st raw) := by
  unfold flush
  split
  · exact Good.refl i
  · refine ⟨⟨?_, ?_, ?_, i.scanArr, i.scanBuf, ?_, ?_⟩, ⟨[], by simp⟩, fun sc _ => Stable.refl _ _⟩ <;> simp

/-! ### the deep copy -/

theorem copyElems_spec : ∀ (l : List (Option Nat)) (h : Heap C), (∀ b, some b ∈ l → b < h.nb) →
    h.nb ≤ (copyElems h l).1.nb ∧ (copyElems h l).1.na = h.na ∧ (copyElems h l).1.arr = h.arr ∧
    (∀ i, i < h.nb → (copyElems h l).1.buf i = h.buf i) ∧
    (copyElems h l).2.length = l.length ∧
    (∀ b, some b ∈ (copyElems h l).2 → h.nb ≤ b ∧ b < (copyElems h l).1.nb) ∧
    (copyElems h l).2.map (copyElems h l).1.deref = l.map h.deref
  | [], h, _ => by simp [copyElems]
  | none :: r, h, hb => by
    have ih := copyElems_spec r h (fun b hm => hb b (List.mem_cons_of_mem _ hm))
    obtain ⟨i1, i2, i3, i4, i5, i6, i7⟩ := ih
    simp only [copyElems]
    refine ⟨i1, i2, i3, i4, by simp [i5], ?_, ?_⟩
    · intro b hm
      simp at hm
      exact i6 b hm
    · simp [i7, Heap.deref]
  | some b :: r, h, hb => by
    have hbb : b < h.nb := hb b (by simp)
    have ih := copyElems_spec r (h.allocBuf (h.buf b)).1
      (fun x hm => by have := hb x (List.mem_cons_of_mem _ hm); simp; omega)
    obtain ⟨i1, i2, i3, i4, i5, i6, i7⟩ := ih
    simp only [copyElems]
    simp only [allocBuf_nb, allocBuf_na, allocBuf_arr, allocBuf_buf] at i1 i2 i3 i4 i6
    refine ⟨by omega, i2, i3, ?_, by simp [i5], ?_, ?_⟩
    · intro i hi
      rw [i4 i (by omega)]
      simp; omega
    · intro x hm
      simp at hm
      rcases hm with hm | hm
      · subst hm; omega
      · have := i6 x hm; omega
    · simp only [List.map_cons, i7]
      congr 1
      · have := i4 h.nb (by omega)
        simp [Heap.deref, this]
      · apply List.map_congr_left
        intro e he
        cases e with
        | none => rfl
        | some x =>
          have := hb x (List.mem_cons_of_mem _ he)
          have hx : x ≠ h.nb := by omega
          simp [Heap.deref, hx]

/-- what `Tree.Copy` (deep) guarantees: only allocations (old cells untouched), the copy lives
    entirely in the freshly allocated range, and reads like the original -/
theorem copyNodes_deep_spec : ∀ (ns : List Node) (h : Heap C),
    (∀ n ∈ ns, n.arr < h.na ∧ ∀ b, some b ∈ h.arr n.arr → b < h.nb) →
    h.nb ≤ (copyNodes .deep h ns).1.nb ∧ h.na ≤ (copyNodes .deep h ns).1.na ∧
    (∀ i, i < h.nb → (copyNodes .deep h ns).1.buf i = h.buf i) ∧
    (∀ a, a < h.na → (copyNodes .deep h ns).1.arr a = h.arr a) ∧
    (∀ n ∈ (copyNodes .deep h ns).2, h.na ≤ n.arr ∧ n.arr < (copyNodes .deep h ns).1.na ∧
      ∀ b, some b ∈ (copyNodes .deep h ns).1.arr n.arr → h.nb ≤ b ∧ b < (copyNodes .deep h ns).1.nb) ∧
    (∀ k, memViewOf (copyNodes .deep h ns).1 (copyNodes .deep h ns).2 k = memViewOf h ns k)
  | [], h, _ => by simp [copyNodes]
  | n :: r, h, hpre => by
    obtain ⟨hna, hnb⟩ := hpre n (by simp)
    obtain ⟨e1, e2, e3, e4, e5, e6, e7⟩ := copyElems_spec (h.arr n.arr) h hnb
    -- the heap after copying this node's data: `h1`, the copied elements: `es`
    generalize hce : copyElems h (h.arr n.arr) = ce at e1 e2 e3 e4 e5 e6 e7
    obtain ⟨h1, es⟩ := ce
    simp only at e1 e2 e3 e4 e5 e6 e7
    have hpre2 : ∀ m ∈ r, m.arr < (h1.allocArr es).1.na ∧
        ∀ b, some b ∈ (h1.allocArr es).1.arr m.arr → b < (h1.allocArr es).1.nb := by
      intro m hm
      obtain ⟨a1, a2⟩ := hpre m (List.mem_cons_of_mem _ hm)
      have hne : m.arr ≠ h1.na := by omega
      refine ⟨by simp; omega, fun b hb => ?_⟩
      simp only [allocArr_arr, hne, ↓reduceIte, e3] at hb
      have := a2 b hb
      simp; omega
    obtain ⟨j1, j2, j3, j4, j5, j6⟩ := copyNodes_deep_spec r (h1.allocArr es).1 hpre2
    have hcopy : copyNodes .deep h (n :: r) =
        ((copyNodes .deep (h1.allocArr es).1 r).1,
          { n with arr := h1.na } :: (copyNodes .deep (h1.allocArr es).1 r).2) := by
      simp [copyNodes, hce]
    rw [hcopy]
    generalize hcn : copyNodes .deep (h1.allocArr es).1 r = cn at j1 j2 j3 j4 j5 j6
    obtain ⟨h', r'⟩ := cn
    simp only [allocArr_nb, allocArr_na, allocArr_buf] at j1 j2 j3 j4 j5 j6 ⊢
    have harrNew : h'.arr h1.na = es := by
      rw [j4 h1.na (by omega)]
      simp
    refine ⟨by omega, by omega, ?_, ?_, ?_, ?_⟩
    · intro i hi
      rw [j3 i (by omega)]
      exact e4 i hi
    · intro a ha
      rw [j4 a (by omega)]
      have hne : a ≠ h1.na := by omega
      simp only [allocArr_arr, hne, ↓reduceIte, e3]
    · intro m hm
      rcases List.mem_cons.mp hm with hm | hm
      · subst hm
        refine ⟨by simp; omega, by simp; omega, fun b hb => ?_⟩
        simp only at hb
        rw [harrNew] at hb
        have := e6 b hb
        omega
      · obtain ⟨k1, k2, k3⟩ := j5 m hm
        refine ⟨by omega, k2, fun b hb => ?_⟩
        have := k3 b hb
        omega
    · intro k
      unfold memViewOf
      simp only [List.find?_cons]
      cases hk : (n.key == k) with
      | true =>
        simp only [Option.map_some]
        congr 1
        unfold Heap.readArr
        rw [harrNew, ← e7]
        apply List.map_congr_left
        intro e he
        cases e with
        | none => rfl
        | some b =>
          have := e6 b he
          simp only [Heap.deref, Option.bind_some]
          rw [j3 b (by omega)]
      | false =>
        simp only
        have := j6 k
        unfold memViewOf at this
        rw [this]
        -- reading the remaining original nodes: the new heap agrees with `h` on them
        have hst : Stable h (h1.allocArr es).1 r := by
          intro m hm
          obtain ⟨a1, a2⟩ := hpre m (List.mem_cons_of_mem _ hm)
          have hne : m.arr ≠ h1.na := by omega
          refine ⟨?_, fun b hb => ?_⟩
          · simp only [allocArr_arr, hne, ↓reduceIte, e3]
          · simp only [allocArr_buf]
            exact e4 b (a2 b hb)
        have := memViewOf_stable hst k
        unfold memViewOf at this
        exact this

/-- `rowStore.iterate` up to `scan.start` with the deep copy -/
theorem good_scanStart (cfg : Cfg C P) (st : State C) (i : Inv cfg st) :
    Good cfg st (scanStart .deep st) ∧
    (scanStart .deep st).scans = st.scans ++
      [{ nodes := (copyNodes .deep st.heap st.live).2, file := st.file }] ∧
    ∀ k, memViewOf (scanStart .deep st).heap (copyNodes .deep st.heap st.live).2 k =
      memViewOf st.heap st.live k := by
  obtain ⟨c1, c2, c3, c4, c5, c6⟩ := copyNodes_deep_spec st.live st.heap
    (fun n hn => ⟨i.liveArr n hn, i.liveBuf n hn⟩)
  unfold scanStart
  generalize hcn : copyNodes .deep st.heap st.live = cn at c1 c2 c3 c4 c5 c6
  obtain ⟨h', ns⟩ := cn
  simp only at c1 c2 c3 c4 c5 c6 ⊢
  refine ⟨⟨⟨?_, ?_, ?_, ?_, ?_, ?_, ?_⟩, ⟨_, rfl⟩, ?_⟩, trivial, c6⟩
  · intro n hn
    have := i.liveArr n hn
    simp only; omega
  · intro n hn b hb
    simp only at hb ⊢
    rw [c4 _ (i.liveArr n hn)] at hb
    have := i.liveBuf n hn b hb; omega
  · intro n hn
    simp only
    rw [c4 _ (i.liveArr n hn)]
    exact i.liveLen n hn
  · intro sc hsc n hn
    simp only at hsc ⊢
    rcases List.mem_append.mp hsc with h | h
    · have := i.scanArr sc h n hn; omega
    · simp at h; subst h
      exact (c5 n hn).2.1
  · intro sc hsc n hn b hb
    simp only at hsc hb ⊢
    rcases List.mem_append.mp hsc with h | h
    · rw [c4 _ (i.scanArr sc h n hn)] at hb
      have := i.scanBuf sc h n hn b hb; omega
    · simp at h; subst h
      exact ((c5 n hn).2.2 b hb).2
  · intro sc hsc n hn m hm
    simp only at hsc hm
    rcases List.mem_append.mp hsc with h | h
    · exact i.sepArr sc h n hn m hm
    · simp at h; subst h
      have := (c5 n hn).1
      have := i.liveArr m hm
      omega
  · intro sc hsc n hn m hm b hb
    simp only at hsc hm hb ⊢
    rw [c4 _ (i.liveArr m hm)]
    rcases List.mem_append.mp hsc with h | h
    · rw [c4 _ (i.scanArr sc h n hn)] at hb
      exact i.sepBuf sc h n hn m hm b hb
    · simp at h; subst h
      intro hc
      have := ((c5 n hn).2.2 b hb).1
      have := i.liveBuf m hm b hc
      omega
  · intro sc hsc n hn
    simp only
    refine ⟨c4 _ (i.scanArr sc hsc n hn), fun b hb => c3 b (i.scanBuf sc hsc n hn b hb)⟩

/-- every event keeps the invariant and leaves alone what existing scans can read -/
theorem good_step (cfg : Cfg C P) (st : State C) (i : Inv cfg st) (e : Ev P) :
    Good cfg st (step cfg .deep st e).1 := by
  cases e with
  | ingest p => exact good_ingest cfg st i p
  | ingestField p f => exact good_ingestField cfg st i p f
  | flush raw => exact good_flush cfg st i raw
  | scanStart => exact (good_scanStart cfg st i).1
  | deliver sid k =>
    simp only [step]
    split <;> exact Good.refl i

theorem inv_run (cfg : Cfg C P) : ∀ (es : List (Ev P)) (st : State C), Inv cfg st →
    Inv cfg (run cfg .deep st es).1
  | [], st, i => i
  | e :: es, st, i => by
    simp only [run]
    exact inv_run cfg es _ (good_step cfg st i e).inv

/-- FRAME: whatever happens after a scan has started, each of its deliveries is the row the
    scan would have read at the state in which we start looking -/
theorem run_deliveries (cfg : Cfg C P) : ∀ (es : List (Ev P)) (st : State C), Inv cfg st →
    ∀ (sid : Nat) (sc : Scan C), st.scans[sid]? = some sc →
    ∀ (k : Key) (r : Option (Row C)), (sid, k, r) ∈ (run cfg .deep st es).2 →
      r = rowOf cfg (sc.file k) (memViewOf st.heap sc.nodes k)
  | [], st, _, sid, sc, _, k, r, hm => by simp [run] at hm
  | e :: es, st, i, sid, sc, hsc, k, r, hm => by
    have g := good_step cfg st i e
    simp only [run, List.mem_append] at hm
    rcases hm with hm | hm
    · -- delivered by this very event
      cases e with
      | deliver sid' k' =>
        simp only [step] at hm
        split at hm
        · rename_i sc' hsc'
          simp at hm
          obtain ⟨rfl, rfl, rfl⟩ := hm
          rw [hsc] at hsc'
          cases hsc'
          rfl
        · rename_i hnone
          simp at hm
          obtain ⟨rfl, rfl, rfl⟩ := hm
          rw [hsc] at hnone
          cases hnone
      | ingest p => simp [step] at hm
      | ingestField p f => simp [step] at hm
      | flush raw => simp [step] at hm
      | scanStart => simp [step] at hm
    · obtain ⟨ex, hex⟩ := g.scans
      have hsc1 : (step cfg .deep st e).1.scans[sid]? = some sc := by
        rw [hex, List.getElem?_append_left (by
          have := List.getElem?_eq_some_iff.mp hsc
          exact this.1)]
        exact hsc
      have := run_deliveries cfg es _ g.inv sid sc hsc1 k r hm
      rw [this, memViewOf_stable (g.frame sc (List.mem_of_getElem? hsc)) k]

/-! ### the scan's environment (EState / estep / erun) -/

/-- the environment may change what `merge` / `wr` compute, not the shape of the table -/
def SameShape {E : Type} (cfgOf : E → Cfg C P) : Prop := ∀ e e', (cfgOf e).nf = (cfgOf e').nf

theorem inv_of_nf {cfg cfg' : Cfg C P} (h : cfg.nf = cfg'.nf) {st : State C} (i : Inv cfg st) :
    Inv cfg' st :=
  ⟨i.liveArr, i.liveBuf, fun n hn => h ▸ i.liveLen n hn, i.scanArr, i.scanBuf, i.sepArr, i.sepBuf⟩

structure EInv {E : Type} (cfgOf : E → Cfg C P) (st : EState C E) : Prop where
  inv : Inv (cfgOf st.cur) st.base
  len : st.envs.length = st.base.scans.length

structure EGood {E : Type} (cfgOf : E → Cfg C P) (st st' : EState C E) : Prop where
  inv : EInv cfgOf st'
  scans : ∃ ex, st'.base.scans = st.base.scans ++ ex
  envs : ∃ ex, st'.envs = st.envs ++ ex
  frame : ∀ sc ∈ st.base.scans, Stable st.base.heap st'.base.heap sc.nodes

theorem egood_of_good {E : Type} {cfgOf : E → Cfg C P} {st : EState C E} (i : EInv cfgOf st)
    {b : State C} (g : Good (cfgOf st.cur) st.base b) (hsc : b.scans = st.base.scans) :
    EGood cfgOf st { st with base := b } :=
  ⟨⟨g.inv, by simp [hsc, i.len]⟩, ⟨[], by simp [hsc]⟩, ⟨[], by simp⟩, g.frame⟩

theorem ingestField_scans (cfg : Cfg C P) (st : State C) (p : P) (f : Nat) :
    (ingestField cfg st p f).scans = st.scans := by
  unfold ingestField
  dsimp only
  split
  · split <;> rfl
  · rfl

theorem ingestFields_scans (cfg : Cfg C P) (p : P) : ∀ (fs : List Nat) (st : State C),
    (fs.foldl (fun s f => ingestField cfg s p f) st).scans = st.scans
  | [], _ => rfl
  | f :: fs, st => by
    simp only [List.foldl_cons]
    rw [ingestFields_scans cfg p fs, ingestField_scans]

theorem flush_scans (cfg : Cfg C P) (st : State C) (raw : Bool) : (flush cfg st raw).scans = st.scans := by
  unfold flush
  split <;> rfl

theorem egood_estep {E : Type} (cfgOf : E → Cfg C P) (hs : SameShape cfgOf) (rr : E → E → E)
    (st : EState C E) (i : EInv cfgOf st) (e : EEv P E) :
    EGood cfgOf st (estep cfgOf .deep rr st e).1 := by
  cases e with
  | setEnv e' =>
    exact ⟨⟨inv_of_nf (hs _ _) i.inv, i.len⟩, ⟨[], by simp [estep]⟩, ⟨[], by simp [estep]⟩,
      fun sc _ => Stable.refl _ _⟩
  | base ev =>
    cases ev with
    | ingest p => exact egood_of_good i (good_ingest _ _ i.inv p) (ingestFields_scans _ p _ _)
    | ingestField p f => exact egood_of_good i (good_ingestField _ _ i.inv p f) (ingestField_scans _ _ p f)
    | flush raw => exact egood_of_good i (good_flush _ _ i.inv raw) (flush_scans _ _ raw)
    | scanStart =>
      obtain ⟨g, hsc, _⟩ := good_scanStart (cfgOf st.cur) st.base i.inv
      refine ⟨⟨g.inv, ?_⟩, g.scans, ⟨_, rfl⟩, g.frame⟩
      simp only [estep, hsc, List.length_append, i.len, List.length_cons, List.length_nil]
    | deliver sid k =>
      have : (estep cfgOf .deep rr st (.base (.deliver sid k))).1 = st := by
        simp only [estep]
        split <;> rfl
      rw [this]
      exact ⟨i, ⟨[], by simp⟩, ⟨[], by simp⟩, fun sc _ => Stable.refl _ _⟩

theorem einv_erun {E : Type} (cfgOf : E → Cfg C P) (hs : SameShape cfgOf) (rr : E → E → E) :
    ∀ (es : List (EEv P E)) (st : EState C E), EInv cfgOf st → EInv cfgOf (erun cfgOf .deep rr st es).1
  | [], st, i => i
  | e :: es, st, i => by
    simp only [erun]
    exact einv_erun cfgOf hs rr es _ (egood_estep cfgOf hs rr st i e).inv

theorem einv_init {E : Type} (cfgOf : E → Cfg C P) (e0 : E) : EInv cfgOf ({ cur := e0 } : EState C E) :=
  ⟨inv_init _, rfl⟩

/-- FRAME with environment: a delivery that takes everything from the captured record is the
    row the scan would have read — under the captured environment — at the state in which we
    start looking, whatever happens to heap, file, clock, fields in between -/
theorem erun_deliveries {E : Type} (cfgOf : E → Cfg C P) (hs : SameShape cfgOf) :
    ∀ (es : List (EEv P E)) (st : EState C E), EInv cfgOf st →
    ∀ (sid : Nat) (sc : Scan C) (en : E), st.base.scans[sid]? = some sc → st.envs[sid]? = some en →
    ∀ (k : Key) (r : Option (Row C)), (sid, k, r) ∈ (erun cfgOf .deep keepCaptured st es).2 →
      r = deliverRow (cfgOf en) st.base sc k
  | [], st, _, sid, sc, en, _, _, k, r, hm => by simp [erun] at hm
  | e :: es, st, i, sid, sc, en, hsc, hen, k, r, hm => by
    have g := egood_estep cfgOf hs keepCaptured st i e
    simp only [erun, List.mem_append] at hm
    rcases hm with hm | hm
    · cases e with
      | setEnv e' => simp [estep] at hm
      | base ev =>
        cases ev with
        | deliver sid' k' =>
          simp only [estep] at hm
          split at hm
          · rename_i sc' en' hsc' hen'
            simp at hm
            obtain ⟨rfl, rfl, rfl⟩ := hm
            rw [hsc] at hsc'
            rw [hen] at hen'
            cases hsc'
            cases hen'
            rfl
          · rename_i hnot
            simp at hm
            obtain ⟨rfl, rfl, rfl⟩ := hm
            exact absurd hen (hnot sc en hsc)
        | ingest p => simp [estep] at hm
        | ingestField p f => simp [estep] at hm
        | flush raw => simp [estep] at hm
        | scanStart => simp [estep] at hm
    · obtain ⟨ex, hex⟩ := g.scans
      obtain ⟨ex', hex'⟩ := g.envs
      have hsc1 : (estep cfgOf .deep keepCaptured st e).1.base.scans[sid]? = some sc := by
        rw [hex, List.getElem?_append_left (List.getElem?_eq_some_iff.mp hsc).1]
        exact hsc
      have hen1 : (estep cfgOf .deep keepCaptured st e).1.envs[sid]? = some en := by
        rw [hex', List.getElem?_append_left (List.getElem?_eq_some_iff.mp hen).1]
        exact hen
      have := erun_deliveries cfgOf hs es _ g.inv sid sc en hsc1 hen1 k r hm
      rw [this]
      unfold deliverRow
      rw [memViewOf_stable (g.frame sc (List.mem_of_getElem? hsc)) k]

end Zeno.Snap
