/-
C11 helper lemmas, pushdown side: key projection lookups, soundness of `pushdownWalk`,
and "whole-query pushdown over a key-separated split = the local plan over the union".
-/
import ZenoModel.Lemmas.PlanList
import ZenoModel.Lemmas.Sort

namespace Zeno.PlanLemmas
open Zeno Zeno.Plan

/-! ### hypotheses about queries -/

/-- what `WalkOneToOneParams` promises: equal values of the expression force equal values of
    every param it declares one-to-one -/
def GBSound (g : GroupBy) : Prop :=
  ∀ k₁ k₂ : DKey, g.eval k₁ = g.eval k₂ → ∀ p ∈ g.oneToOne, k₁.get p = k₂.get p

/-- an expression reads the key through its params only -/
def GBLocal (g : GroupBy) : Prop :=
  ∀ k₁ k₂ : DKey, (∀ p ∈ g.allParams, k₁.get p = k₂.get p) → g.eval k₁ = g.eval k₂

/-- one SELECT: distinct GROUP BY names (the parser keys them by name), one-to-one
    declarations that hold, and no `*` next to explicit dimensions (known finding
    C11-wildcard-plus-dims-pushdown) -/
structure QWF (q : Query) : Prop where
  names : (q.by_.map (·.name)).Nodup
  sound : ∀ g ∈ q.by_, GBSound g
  noStarDims : q.byAll = true → q.by_ = []

def TreeWF : QTree → Prop
  | .table q => QWF q
  | .sub q inner => QWF q ∧ TreeWF inner

/-! ### looking a dimension up in a projected key -/

theorem lookup_filterMap_none (bs : List GroupBy) (k : DKey) (n : String)
    (h : n ∉ bs.map (·.name)) :
    List.lookup n (bs.filterMap (fun b => (b.eval k).map (fun v => (b.name, v)))) = none := by
  induction bs with
  | nil => simp
  | cons b bs ih =>
    have hb : n ≠ b.name := fun e => h (by simp [e])
    have ih' := ih (fun hm => h (by simp only [List.map_cons, List.mem_cons]; exact Or.inr hm))
    simp only [List.filterMap_cons]
    cases hv : b.eval k with
    | none => simpa using ih'
    | some v =>
      simp only [Option.map_some, List.lookup_cons]
      have : (n == b.name) = false := by simpa using hb
      simp [this, ih']

theorem lookup_filterMap_gb (bs : List GroupBy) (hn : (bs.map (·.name)).Nodup) (g : GroupBy)
    (hg : g ∈ bs) (k : DKey) :
    List.lookup g.name (bs.filterMap (fun b => (b.eval k).map (fun v => (b.name, v)))) = g.eval k := by
  induction bs with
  | nil => cases hg
  | cons b bs ih =>
    have hb : b.name ∉ bs.map (·.name) := (List.nodup_cons.mp hn).1
    have hn' := (List.nodup_cons.mp hn).2
    simp only [List.filterMap_cons]
    rcases List.mem_cons.mp hg with rfl | hg'
    · cases hv : g.eval k with
      | none => simpa using lookup_filterMap_none bs k g.name hb
      | some v => simp [List.lookup_cons]
    · have hne : g.name ≠ b.name := by
        intro e
        exact hb (e ▸ List.mem_map_of_mem hg')
      cases hv : b.eval k with
      | none => simpa using ih hn' hg'
      | some v =>
        simp only [Option.map_some, List.lookup_cons]
        have : (g.name == b.name) = false := by simpa using hne
        simp [this, ih hn' hg']

theorem sliceKey_get {q : Query} (hne : q.by_ ≠ []) (hn : (q.by_.map (·.name)).Nodup)
    {g : GroupBy} (hg : g ∈ q.by_) (k : DKey) : (sliceKey q k).get g.name = g.eval k := by
  have : q.by_.isEmpty = false := by
    cases h : q.by_ with
    | nil => exact absurd h hne
    | cons _ _ => rfl
  simp only [sliceKey, this, DKey.get]
  exact lookup_filterMap_gb q.by_ hn g hg k

theorem sliceKey_id {q : Query} (hb : q.by_ = []) (hc : q.ctab = none) (k : DKey) :
    sliceKey q k = k := by
  simp [sliceKey, hb, hc]

/-! ### soundness of the pushdown walk -/

/-- what the walk knows about the levels above: `U` maps a key of the current level to the
    key of the outermost group; equal outermost keys force equal keys (`all`) or at least
    equal values of the dimensions in `P` -/
def Inj (all : Bool) (P : List String) (U : DKey → DKey) : Prop :=
  ∀ k₁ k₂ : DKey, U k₁ = U k₂ → if all then k₁ = k₂ else ∀ n ∈ P, k₁.get n = k₂.get n

theorem mem_gbParams {all : Bool} {P : List String} {bs : List GroupBy} {n : String}
    (h : n ∈ gbParams all P bs) : ∃ g ∈ bs, (all = true ∨ g.name ∈ P) ∧ n ∈ g.oneToOne := by
  simp only [gbParams, List.mem_flatMap] at h
  obtain ⟨g, hg, hn⟩ := h
  refine ⟨g, hg, ?_⟩
  split at hn
  · rename_i hc
    refine ⟨?_, hn⟩
    rcases Bool.or_eq_true _ _ |>.mp hc with h1 | h2
    · exact Or.inl h1
    · exact Or.inr (by simpa using h2)
  · cases hn

/-- equal outermost keys force equal values of every param collected by `gbParams` -/
theorem gbParams_inj {q : Query} (hq : QWF q) {all : Bool} {P : List String} {U : DKey → DKey}
    (hU : Inj all P U) (hne : q.by_ ≠ []) (k₁ k₂ : DKey)
    (h : U (sliceKey q k₁) = U (sliceKey q k₂)) :
    ∀ n ∈ gbParams all P q.by_, k₁.get n = k₂.get n := by
  intro n hn
  obtain ⟨g, hg, hcond, hone⟩ := mem_gbParams hn
  have hget : (sliceKey q k₁).get g.name = (sliceKey q k₂).get g.name := by
    have := hU _ _ h
    rcases hcond with hall | hP
    · subst hall
      simp only [if_true] at this
      rw [this]
    · cases all with
      | true => simp only [if_true] at this; rw [this]
      | false => exact this g.name hP
  rw [sliceKey_get hne hq.names hg, sliceKey_get hne hq.names hg] at hget
  exact hq.sound g hg k₁ k₂ hget n hone

theorem pkProj_congr (pk : List String) (k₁ k₂ : DKey)
    (h : ∀ n ∈ pk, k₁.get n = k₂.get n) (hne : pk ≠ []) : pkProj pk k₁ = pkProj pk k₂ := by
  have : pk.isEmpty = false := by
    cases pk with
    | nil => exact absurd rfl hne
    | cons _ _ => rfl
  simp only [pkProj, this]
  induction pk with
  | nil => rfl
  | cons a pk ih =>
    have ha := h a (by simp)
    simp only [List.filterMap_cons, ha]
    by_cases hpk : pk = []
    · subst hpk; simp
    · have ih' := ih (fun n hn => h n (by simp [hn])) hpk (by
        cases pk with
        | nil => exact absurd rfl hpk
        | cons _ _ => rfl)
      simp only [Bool.false_eq_true, if_false] at ih'
      cases k₂.get a <;> simp [ih']

def noCtab : QTree → Prop
  | .table q => q.ctab = none
  | .sub q inner => q.ctab = none ∧ noCtab inner

theorem pushdownWalk_sound (pk : List String) :
    ∀ (t : QTree) (all : Bool) (P : List String) (U : DKey → DKey),
      TreeWF t → noCtab t → Inj all P U → pushdownWalk pk all P t = true →
      ∀ k₁ k₂ : DKey, U (chainKey t k₁) = U (chainKey t k₂) → pkProj pk k₁ = pkProj pk k₂ := by
  intro t
  induction t with
  | table q =>
    intro all P U hq hc hU hw k₁ k₂ h
    simp only [chainKey] at h
    simp only [noCtab] at hc
    simp only [pushdownWalk] at hw
    by_cases h1 : (q.byAll && all) = true
    · -- grouping by all at every level: the key is kept
      have hba : q.byAll = true := (Bool.and_eq_true _ _ |>.mp h1).1
      have hall : all = true := (Bool.and_eq_true _ _ |>.mp h1).2
      have hb := hq.noStarDims hba
      rw [sliceKey_id hb hc, sliceKey_id hb hc] at h
      have := hU _ _ h
      simp only [hall, if_true] at this
      rw [this]
    · simp only [h1, Bool.false_eq_true, if_false] at hw
      by_cases hpk : pk.isEmpty = true
      · simp [hpk] at hw
      · simp only [hpk, Bool.false_eq_true, if_false] at hw
        have hpk' : pk ≠ [] := by
          intro e; subst e; simp at hpk
        apply pkProj_congr pk k₁ k₂ _ hpk'
        intro n hn
        have hin := List.all_eq_true.mp hw n hn
        by_cases hba : q.byAll = true
        · -- wildcard below an explicit grouping: the parent's params apply
          simp only [hba, if_true] at hin
          have hb := hq.noStarDims hba
          rw [sliceKey_id hb hc, sliceKey_id hb hc] at h
          have hall : all = false := by
            cases all with
            | true => simp [hba] at h1
            | false => rfl
          have := hU _ _ h
          simp only [hall, Bool.false_eq_true, if_false] at this
          exact this n (by simpa using hin)
        · simp only [hba, Bool.false_eq_true, if_false] at hin
          have hmem : n ∈ gbParams all P q.by_ := by simpa using hin
          by_cases hne : q.by_ = []
          · simp [gbParams, hne] at hmem
          · exact gbParams_inj hq hU hne k₁ k₂ h n hmem
  | sub q inner ih =>
    intro all P U hq hc hU hw k₁ k₂ h
    simp only [chainKey] at h
    obtain ⟨hqw, hiw⟩ := hq
    obtain ⟨hcq, hci⟩ := hc
    simp only [pushdownWalk] at hw
    by_cases hba : q.byAll = true
    · simp only [hba, Bool.not_true, Bool.false_eq_true, if_false] at hw
      have hb := hqw.noStarDims hba
      refine ih all P U hiw hci hU hw k₁ k₂ ?_
      rw [sliceKey_id hb hcq, sliceKey_id hb hcq] at h
      exact h
    · have hba' : q.byAll = false := by simpa using hba
      simp only [hba', Bool.not_false, if_true] at hw
      refine ih false (gbParams all P q.by_) (fun k => U (sliceKey q k)) hiw hci ?_ hw k₁ k₂ h
      intro a b hab
      simp only [Bool.false_eq_true, if_false]
      by_cases hne : q.by_ = []
      · intro n hn; simp [gbParams, hne] at hn
      · exact gbParams_inj hqw hU hne a b hab

theorem subsClean_noCtab : ∀ (t : QTree), subsClean t = true → t.top.ctab = none → noCtab t := by
  intro t
  induction t with
  | table q => intro _ h; exact h
  | sub q inner ih =>
    intro hs h
    simp only [subsClean, Bool.and_eq_true, Bool.not_eq_true'] at hs
    refine ⟨h, ih hs.2 ?_⟩
    have := hs.1.1
    simp only [disallowedInSub, Bool.or_eq_false_iff] at this
    simpa using this.1.1.2

end Zeno.PlanLemmas
