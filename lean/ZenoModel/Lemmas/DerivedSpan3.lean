/-
Derived selected expressions, part 32 (stage 3, physical spans): after `SubMerge` (direct
sub-merger) the result physically holds every out period it held before (inside the window), and
every out period whose bucket contains a period physically present in the source.
-/
import ZenoModel.Lemmas.DerivedSpan2
set_option linter.unusedSimpArgs false
set_option linter.unusedVariables false
namespace Zeno

theorem smBody_hi_len (e : Ex) (res otherRes : Int) (result : Sq) (otherAsOf : Int) (o0 : Seq) (p : Pt) (hi : Int) :
    (smBody e res otherRes result otherAsOf o0 p hi).hi =
        (smAppend e res otherAsOf (smPrepend e res (roundUntilUp o0.hi res hi) result)).hi ∧
    (smBody e res otherRes result otherAsOf o0 p hi).cells.length =
        (smAppend e res otherAsOf (smPrepend e res (roundUntilUp o0.hi res hi) result)).cells.length := by
  unfold smBody
  exact ⟨rfl, by simp only [length_subMergeLoop]⟩

theorem covers_of_hi_len {q q' : Seq} {res T : Int} (h1 : q'.hi = q.hi) (h2 : q'.cells.length = q.cells.length)
    (hc : covers q res T) : covers q' res T := by
  unfold covers at *; rw [h1, h2]; exact hc

/-- the receiver's periods stay -/
theorem smBody_covers_recv {e : Ex} {res otherRes : Int} (hres : 0 < res) (r : Seq) (otherAsOf : Int) (o0 : Seq)
    (p : Pt) (hi T : Int) (hg : (roundUntilUp o0.hi res hi - r.hi) % res = 0) (hc : covers r res T) :
    covers (smBody e res otherRes (some r) otherAsOf o0 p hi) res T := by
  obtain ⟨h1, h2⟩ := smBody_hi_len e res otherRes (some r) otherAsOf o0 p hi
  exact covers_of_hi_len h1 h2 (smAppend_covers otherAsOf _ T hres (smPrepend_covers hres _ r T hg hc))

/-- the periods whose bucket holds a source period are present -/
theorem smBody_covers_src {e : Ex} {res otherRes : Int} (hres : 0 < res) (result : Sq) (otherAsOf : Int) (o0 : Seq)
    (p : Pt) (hi : Int) (hhi : hi ≠ 0) (hU : 0 < o0.hi) (hoa : 0 < otherAsOf) (hwr : SqWF e result)
    (hgr : ∀ r, result = some r → (hi - r.hi) % res = 0) (T t : Int) (hT : (hi - T) % res = 0)
    (h1 : T - res < t) (h2 : t ≤ o0.hi) (h3 : otherAsOf < t) (h4 : t ≤ T) :
    covers (smBody e res otherRes result otherAsOf o0 p hi) res T := by
  obtain ⟨g1, g2, g3⟩ := roundUntilUp_spec (t := o0.hi) (hi := hi) hres (by omega) hhi
  have hg : ∀ r, result = some r → (roundUntilUp o0.hi res hi - r.hi) % res = 0 := by
    intro r hr'
    have : roundUntilUp o0.hi res hi - r.hi = (hi - r.hi) - (hi - roundUntilUp o0.hi res hi) := by omega
    rw [this]; exact emod_sub_of (hgr r hr') g1
  obtain ⟨pa, pb, pc, pd⟩ := smPrepend_spec (e := e) hres (roundUntilUp o0.hi res hi) result hg hwr
  obtain ⟨e1, e2⟩ := smBody_hi_len e res otherRes result otherAsOf o0 p hi
  generalize smPrepend e res (roundUntilUp o0.hi res hi) result = r1 at *
  obtain ⟨qa, qb, qc, qd⟩ := smAppend_spec (e := e) hres otherAsOf r1 (by omega) (by omega) pd
  have hTnu : T ≤ roundUntilUp o0.hi res hi := by
    by_cases hc : T ≤ roundUntilUp o0.hi res hi
    · exact hc
    · exfalso
      have hm : (T - roundUntilUp o0.hi res hi) % res = 0 := by
        have : T - roundUntilUp o0.hi res hi = (hi - roundUntilUp o0.hi res hi) - (hi - T) := by omega
        rw [this]; exact emod_sub_of g1 hT
      have := grid_gap hres hm (by omega)
      omega
  unfold covers
  rw [e1, e2, qb]
  rw [qb] at qc
  exact ⟨by omega, by omega⟩

end Zeno
