/-
Store ↔ column projection, part 3: `Store.ingest` against the `ColOp`s that `colOpsOf`
emits for the point.
-/
import ZenoModel.Lemmas.StoreProjInv
set_option linter.unusedSimpArgs false
set_option linter.unusedVariables false
namespace Zeno

/-- the `ColOp`s `colOpsOf` emits for one point arriving at store state `st` -/
def ingestOps (x : Ext) (cfg : TableCfg) (key : Key) (st : Store) (p : RawPoint) : List ColOp :=
  let ok := (st.ingest x cfg p).2
  let clockMoved := (st.ingest x cfg p).1.now != st.now || (!(p.ts < st.now - cfg.retention) && p.whereOk)
  let here :=
    if ok then
      if reslice cfg p.dims == key then (pointRows p).map (fun vals => ColOp.ingest p.ts (mkPt p vals))
      else [ColOp.tick p.ts]
    else if clockMoved then [ColOp.tick p.ts] else [ColOp.late p.ts]
  if ok && here.isEmpty then [ColOp.tick p.ts] else here

theorem colOpsOf_ingest (x : Ext) (cfg : TableCfg) (key : Key) (st : Store) (p : RawPoint)
    (r : List StoreOp) :
    colOpsOf x cfg key st (.ingest p :: r) =
      ingestOps x cfg key st p ++ colOpsOf x cfg key (st.ingest x cfg p).1 r := rfl

theorem colOpsOf_flush (x : Ext) (cfg : TableCfg) (key : Key) (st : Store) (sorted : Bool)
    (r : List StoreOp) :
    colOpsOf x cfg key st (.flush sorted :: r) =
      if st.mem.isEmpty then colOpsOf x cfg key st r
      else ColOp.flush (!(st.flushCount % 10 == 9)) :: colOpsOf x cfg key (st.flush cfg sorted) r := rfl

def rowsFold (x : Ext) (cfg : TableCfg) (fields : List Field) (key : Key) (p : RawPoint)
    (rows : List (List (String × Rat))) (mem : List Row) : List Row :=
  rows.foldl (fun m vals => memUpdate x cfg fields m key p.ts (mkPt p vals)) mem

theorem rowsFold_struct (x : Ext) (cfg : TableCfg) (hres : 0 < cfg.res) (fields : List Field) (key : Key)
    (p : RawPoint) (hts : 0 < p.ts) (rows : List (List (String × Rat))) :
    ∀ mem, RowsOk fields.length mem → MemSome mem →
      RowsOk fields.length (rowsFold x cfg fields key p rows mem) ∧
      MemSome (rowsFold x cfg fields key p rows mem) := by
  induction rows with
  | nil => intro mem h1 h2; exact ⟨h1, h2⟩
  | cons v r ih =>
    intro mem h1 h2
    exact ih _ (memUpdate_rowsOk x cfg fields mem key p.ts _ h1)
      (memUpdate_memSome x cfg hres fields mem key p.ts hts _ h2)

theorem rowsFold_other (x : Ext) (cfg : TableCfg) (fields : List Field) (key key' : Key)
    (hne : key' ≠ key) (p : RawPoint) (i : Nat) (rows : List (List (String × Rat))) :
    ∀ mem, rowCol (rowsFold x cfg fields key' p rows mem) key i = rowCol mem key i := by
  induction rows with
  | nil => intro mem; rfl
  | cons v r ih =>
    intro mem
    show rowCol (rowsFold x cfg fields key' p r _) key i = _
    rw [ih, memUpdate_rowCol_other x cfg fields mem key key' hne]

theorem rowsFold_same (x : Ext) (cfg : TableCfg) (hret : 0 ≤ cfg.retention) (key : Key)
    (p : RawPoint) (i : Nat) (hi : i < cfg.fields.length) (rows : List (List (String × Rat))) :
    ∀ (mem : List Row) (c : Col), RowsOk cfg.fields.length mem → ¬ p.ts < c.now - cfg.retention →
      c.mem = rowCol mem key i →
      ((rows.map (fun vals => ColOp.ingest p.ts (mkPt p vals))).foldl (Col.step x (ccfgOf cfg i)) c).mem
          = rowCol (rowsFold x cfg cfg.fields key p rows mem) key i ∧
      ((rows.map (fun vals => ColOp.ingest p.ts (mkPt p vals))).foldl (Col.step x (ccfgOf cfg i)) c).file
          = c.file ∧
      ((rows.map (fun vals => ColOp.ingest p.ts (mkPt p vals))).foldl (Col.step x (ccfgOf cfg i)) c).now
          = if rows.isEmpty then c.now else max c.now p.ts := by
  induction rows with
  | nil => intro mem c _ _ hm; exact ⟨hm, rfl, rfl⟩
  | cons v r ih =>
    intro mem c hok hacc hm
    simp only [List.map_cons, List.foldl_cons]
    have hstep : Col.step x (ccfgOf cfg i) c (.ingest p.ts (mkPt p v)) =
        { c with mem := Sq.updateValue x (cfg.fields.getD i default).ex cfg.res c.mem p.ts (mkPt p v) 0,
                 now := max c.now p.ts } := by
      simp [Col.step, accepted, ccfgOf, hacc]
    rw [hstep]
    obtain ⟨h1, h2, h3⟩ := ih (memUpdate x cfg cfg.fields mem key p.ts (mkPt p v))
      { c with mem := Sq.updateValue x (cfg.fields.getD i default).ex cfg.res c.mem p.ts (mkPt p v) 0,
               now := max c.now p.ts }
      (memUpdate_rowsOk x cfg cfg.fields mem key p.ts _ hok)
      (by simp only; omega)
      (by simp only; rw [memUpdate_rowCol_same x cfg cfg.fields mem key p.ts _ hok i hi, hm])
    refine ⟨h1, h2, ?_⟩
    rw [h3]
    simp only [List.isEmpty_cons, Bool.false_eq_true, if_false]
    split <;> omega

/-- `Store.ingest` preserves the structural invariant, and the column of (key, i) moves as the
    emitted `ColOp`s say -/
theorem ingest_proj (x : Ext) (cfg : TableCfg) (wf : CfgWF cfg) (st : Store) (p : RawPoint)
    (hts : 0 < p.ts) (key : Key) (i : Nat) (hi : i < cfg.fields.length) (c : Col)
    (sinv : StoreInv cfg st) (pinv : ProjInv st key i c) :
    StoreInv cfg (st.ingest x cfg p).1 ∧
    ProjInv (st.ingest x cfg p).1 key i
      ((ingestOps x cfg key st p).foldl (Col.step x (ccfgOf cfg i)) c) := by
  obtain ⟨hmf, hff, hmo, hfo, hms⟩ := sinv
  obtain ⟨hn, hm, hf⟩ := pinv
  by_cases hold : p.ts < st.now - cfg.retention
  · have e1 : st.ingest x cfg p = (st, false) := by simp [Store.ingest, hold]
    have e2 : ingestOps x cfg key st p = [.late p.ts] := by simp [ingestOps, e1, hold]
    rw [e1, e2]
    exact ⟨⟨hmf, hff, hmo, hfo, hms⟩, ⟨hn, hm, hf⟩⟩
  by_cases hw : p.whereOk = false
  · have e1 : st.ingest x cfg p = (st, false) := by simp [Store.ingest, hold, hw]
    have e2 : ingestOps x cfg key st p = [.late p.ts] := by simp [ingestOps, e1, hold, hw]
    rw [e1, e2]
    exact ⟨⟨hmf, hff, hmo, hfo, hms⟩, ⟨hn, hm, hf⟩⟩
  have hw' : p.whereOk = true := by simpa using hw
  have hacc : ¬ p.ts < c.now - cfg.retention := by rw [hn]; exact hold
  have htick : Col.step x (ccfgOf cfg i) c (.tick p.ts) = { c with now := max c.now p.ts } := by
    simp [Col.step, accepted, ccfgOf, hacc]
  by_cases hpan : p.panics = true
  · have e1 : st.ingest x cfg p = ({ st with now := max st.now p.ts }, false) := by
      simp [Store.ingest, hold, hw', hpan]
    have e2 : ingestOps x cfg key st p = [.tick p.ts] := by simp [ingestOps, e1, hold, hw']
    rw [e1, e2]
    simp only [List.foldl_cons, List.foldl_nil, htick]
    exact ⟨⟨hmf, hff, hmo, hfo, hms⟩, ⟨by simp [hn], hm, hf⟩⟩
  have hpan' : p.panics = false := by simpa using hpan
  have e1 : st.ingest x cfg p =
      ({ st with mem := rowsFold x cfg cfg.fields (reslice cfg p.dims) p (pointRows p) st.mem,
                 now := max st.now p.ts }, true) := by
    simp [Store.ingest, hold, hw', hpan', rowsFold, hmf]
  obtain ⟨s1, s2⟩ := rowsFold_struct x cfg wf.res_pos cfg.fields (reslice cfg p.dims) p hts (pointRows p)
    st.mem hmo hms
  refine ⟨by rw [e1]; exact ⟨hmf, hff, s1, hfo, s2⟩, ?_⟩
  by_cases hk : reslice cfg p.dims = key
  · obtain ⟨r1, r2, r3⟩ := rowsFold_same x cfg wf.ret_nonneg key p i hi (pointRows p) st.mem c hmo hacc hm
    by_cases hemp : (pointRows p) = []
    · have e2 : ingestOps x cfg key st p = [.tick p.ts] := by simp [ingestOps, e1, hk, hemp]
      rw [e1, e2]
      simp only [List.foldl_cons, List.foldl_nil, htick]
      refine ⟨by simp [hn], ?_, hf⟩
      simp only [hk, hemp, rowsFold, List.foldl_nil]
      exact hm
    · have e2 : ingestOps x cfg key st p =
          (pointRows p).map (fun vals => ColOp.ingest p.ts (mkPt p vals)) := by
        simp [ingestOps, e1, hk, hemp]
      rw [e1, e2]
      refine ⟨?_, by rw [r1, hk], by rw [r2]; exact hf⟩
      rw [r3]
      have : (pointRows p).isEmpty = false := by simpa using hemp
      simp [this, hn]
  · have hk' : (reslice cfg p.dims == key) = false := by simpa using hk
    have e2 : ingestOps x cfg key st p = [.tick p.ts] := by simp [ingestOps, e1, hk']
    rw [e1, e2]
    simp only [List.foldl_cons, List.foldl_nil, htick]
    refine ⟨by simp [hn], ?_, hf⟩
    simp only
    rw [rowsFold_other x cfg cfg.fields key _ hk]
    exact hm

end Zeno
