/-
Derived selected expressions, part 23 (end to end): `e2e_cell_derived`.
-/
import ZenoModel.Lemmas.DerivedE2E2
set_option linter.unusedSimpArgs false
set_option linter.unusedVariables false
namespace Zeno

/-- a (key, period) group whose every scanned column accumulates to the empty state accumulates to
    the empty state of the derived expression -/
theorem derived_group_empty (x : Ext) {e : Ex} (hv : e.valid = true) (hp : e.noPtile = true) {subs : List Ex}
    (hres : e.resolved subs = true) (metas : List KeyMeta) (A : List AccRow) (κ : Key) (t : Int)
    (hirr : ColsIgnore x subs (specMetaOf metas κ).conds)
    (hfresh : ∀ c ∈ e.openConds subs, ∀ a ∈ A, a.pt.includes c = false)
    (hcols : ∀ (j : Nat) (cj : Ex), subs[j]? = some cj → cj.acc x (keyPeriodPts A (·.pt) κ t) = cj.empty) :
    e.acc x (keyPeriodPts A (specAdj metas) κ t) = e.empty := by
  rw [← keyPeriodPts_specAdj_key]
  have h := assemble_acc x (p := { vals := [], conds := (specMetaOf metas κ).conds }) (ps := keyPeriodPts A (·.pt) κ t)
    rfl hirr e hv hp hres (by
      intro c hc pt hpt
      unfold keyPeriodPts at hpt
      obtain ⟨a, ha, rfl⟩ := List.mem_map.mp hpt
      exact hfresh c hc a (List.mem_filter.mp ha).1)
  rw [← h, assemble_congr subs _ _ (fun i => (subs.getD i (.const 0)).empty) _ e, assemble_empties]
  intro i hi
  have hs : subs[i]? = some subs[i] := List.getElem?_eq_getElem hi
  have hgd : subs.getD i (.const 0) = subs[i] := by rw [List.getD_eq_getElem?_getD, hs]; rfl
  unfold colAccs
  rw [hgd]
  exact hcols i _ hs

/-- END-TO-END for a derived selected expression -/
theorem e2e_cell_derived (x : Ext) {cfg : TableCfg} {ops : List StoreOp} {q : Query} {metas : List KeyMeta} {pl : Plan}
    (C : DerivedCtx x cfg ops q metas pl) (i : Nat) (f : Field) (hout : q.outFields[i]? = some f)
    (df : DerivedField x cfg ops q f) (k : Key) (T : Int)
    (hT : (gUntilOf cfg (runStore x cfg ops).now pl - T) % gResOf cfg pl = 0) :
    (groupCell cfg (runStore x cfg ops).now q pl (includedFields cfg q) metas (e2eScan x cfg ops q metas) k i).at
        f.ex (gResOf cfg pl) T =
      if gAsOfOf cfg (runStore x cfg ops).now pl < T ∧ T ≤ gUntilOf cfg (runStore x cfg ops).now pl
      then f.ex.acc x (specBucketPts q (specRows q metas (acceptedRows cfg true (pointsOf ops)).1) (specAdj metas)
        (gAsOfOf cfg (runStore x cfg ops).now pl) (gUntilOf cfg (runStore x cfg ops).now pl) (gResOf cfg pl) k T)
      else f.ex.empty := by
  have H := derivedCell_of_store x C i f hout df
  have sinv := StoreProj.reachable_store_wf x cfg C.base.wf ops C.base.pos
  have hspecmem : ∀ a ∈ specRows q metas (acceptedRows cfg true (pointsOf ops)).1,
      a ∈ (acceptedRows cfg true (pointsOf ops)).1 := fun a ha => ((mem_specRows q metas _ a).mp ha).1
  by_cases hW : gAsOfOf cfg (runStore x cfg ops).now pl < T ∧ T ≤ gUntilOf cfg (runStore x cfg ops).now pl
  · rw [if_pos hW]
    rw [sem_groupRows_derived_spec_lem x H metas df.resolved k T hT hW
      ((specRows q metas (acceptedRows cfg true (pointsOf ops)).1).filter (hasRow (e2eScan x cfg ops q metas)))
      ?hper ?hkeys ?hcover ?hirr ?hfresh ?hstore]
    · refine (specBucket_drop_uncovered x df.valid df.noPtile q _ (specAdj metas) _ _ _ k T
        (hasRow (e2eScan x cfg ops q metas)) (hasRow_key _) ?_).symm
      intro a ha hwin hbad
      apply derived_group_empty x df.valid df.noPtile df.resolved metas _ a.key a.period (C.colsIgnore a.key)
        (fun c hc a' ha' => df.fresh c hc a' (hspecmem a' ha'))
      intro j cj hj
      obtain ⟨ti, hti, hin, hex⟩ := included_col cfg q j cj hj
      obtain ⟨hv, hp⟩ := C.tableOk _ (List.getElem_mem hti)
      rw [← hex]
      exact col_uncovered_empty x cfg C.base.wf ops C.base.pos q metas pl C.base.plan C.base.asOfPos _ j ti hti hv hp
        (scanView_included cfg C.base.wf.distinct _ sinv q j ti hti hin) C.base.metasCover a ha hwin hbad
    case hper =>
      intro a ha
      have ha0 := hspecmem a (List.mem_filter.mp ha).1
      rw [acceptedRows_eq] at ha0
      exact accRowsFrom_period cfg C.base.wf.res_pos true _ 0 a ha0
    case hkeys =>
      exact List.Nodup.sublist (List.Sublist.map _ (whereRows_sublist q metas _))
        (nodup_keys_of_pairwise (scanG_keys_pairwise cfg _ sinv (includedFields cfg q)))
    case hcover =>
      intro a ha _
      obtain ⟨r, hr, hk⟩ := List.any_eq_true.mp (List.mem_filter.mp ha).2
      exact ⟨r, hr, by simpa using hk⟩
    case hirr => intro r _; exact C.colsIgnore r.key
    case hfresh => intro c hc a ha; exact df.fresh c hc a (hspecmem a (List.mem_filter.mp ha).1)
    case hstore =>
      intro r hr j cj hj t ht
      obtain ⟨ti, hti, hin, hex⟩ := included_col cfg q j cj hj
      obtain ⟨hv, hp⟩ := C.tableOk _ (List.getElem_mem hti)
      rw [← hex]
      exact col_hstore x cfg C.base.wf ops C.base.pos q metas pl C.base.plan C.base.asOfPos _ j ti hti hv hp
        (scanView_included cfg C.base.wf.distinct _ sinv q j ti hti hin) r hr t ht
  · rw [if_neg hW]
    exact (groupCell_derived_inv H metas k).2 T hW

end Zeno
