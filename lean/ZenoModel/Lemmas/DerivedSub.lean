/-
Derived selected expressions, part 8 (stage 2): `Sequence.SubMerge` with an ARBITRARY sub-merger
whose closure is, state by state, "merge the image `g o` of the source state" equals `SubMerge`
with the DIRECT sub-merger of `e` on the source sequence mapped through `g`.  Everything proved
for the direct case (window, buckets, grid) then applies unchanged.
-/
import ZenoModel.Lemmas.SubMergeSemAll
set_option linter.unusedSimpArgs false
set_option linter.unusedVariables false
namespace Zeno

/-- a sequence with every period's state mapped through `g` -/
def mapSeq (g : List Cell → List Cell) (q : Seq) : Seq := ⟨q.hi, q.cells.map g⟩
def mapSq (g : List Cell → List Cell) (s : Sq) : Sq := s.map (mapSeq g)

theorem asOf_mapSq (g : List Cell → List Cell) (s : Sq) (res : Int) : (mapSq g s).asOf res = s.asOf res := by
  cases s with
  | none => rfl
  | some q => simp [mapSq, mapSeq, Sq.asOf]

theorem truncUntil_map (g : List Cell → List Cell) (q : Seq) (res h' : Int) :
    truncUntil (mapSeq g q) res h' = mapSq g (truncUntil q res h') := by
  unfold truncUntil mapSq
  simp only [mapSeq, List.length_map]
  split
  · split
    · split
      · rfl
      · simp [mapSeq, List.map_drop]
    · rfl
  · rfl

theorem truncAsOf_map (g : List Cell → List Cell) (r : Seq) (res a' : Int) :
    truncAsOf (mapSeq g r) res a' = mapSq g (truncAsOf r res a') := by
  unfold truncAsOf mapSq
  simp only [mapSeq, List.length_map]
  split
  · split
    · rfl
    · split
      · rfl
      · simp [mapSeq, List.map_take]
  · rfl

/-- `Truncate` only counts periods -/
theorem truncate_mapSq (g : List Cell → List Cell) (s : Sq) (res asOf hi : Int) :
    (mapSq g s).truncate res asOf hi = mapSq g (s.truncate res asOf hi) := by
  cases s with
  | none => rfl
  | some q =>
    show Sq.truncate (some (mapSeq g q)) res asOf hi = _
    rw [truncate_eq, truncate_eq, truncUntil_map]
    have h1 : (mapSeq g q).hi = q.hi := rfl
    rw [h1]
    cases truncUntil q res (roundUntilDown hi res q.hi) with
    | none => rfl
    | some r => exact truncAsOf_map g r res _

end Zeno
