/-
Derived selected expressions, part 14 (stage 2): the cell column of a derived selected expression
in `groupRows` = `subMergeAll` of the column sources of all member rows; hence (by the direct-case
theorem) its state at an out period = the merge of those sources over the bucket's periods.
-/
import ZenoModel.Lemmas.DerivedGroup2
set_option linter.unusedSimpArgs false
set_option linter.unusedVariables false
namespace Zeno

/-- all sources of the output column of `e` for the group `k`: member row by member row, scanned
    column by scanned column -/
def derivedSrcs (e : Ex) (subs : List Ex) (q : Query) (metas : List KeyMeta) (rows : List Row) (k : Key) : List Src :=
  (groupMembers q rows k).flatMap (fun r => rowSrcs e subs (rowPt metas r) r.cols)

/-- the side conditions for a derived selected field `f` (`i`-th of the query) -/
structure DerivedCell (cfg : TableCfg) (now : Int) (q : Query) (pl : Plan) (inFields : List Field)
    (rows : List Row) (kk : Nat) (i : Nat) (f : Field) : Prop where
  noStride : pl.strideSlice = 0
  window : SMWindow (gResOf cfg pl) cfg.res kk (gAsOfOf cfg now pl) (gUntilOf cfg now pl)
  outField : q.outFields[i]? = some f
  valid : f.ex.valid = true
  noPtile : f.ex.noPtile = true
  shiftFree : f.ex.shiftFree = true
  /-- every scan row has one stored sequence per scanned field -/
  scan : ∀ r ∈ rows, RowColsOk (inFields.map (·.ex)) cfg.res r.cols

theorem subMergeAll_append (e : Ex) (res otherRes asOf hi : Int) (a b : List Src) (c : Sq) :
    subMergeAll e res otherRes asOf hi (a ++ b) c =
      subMergeAll e res otherRes asOf hi b (subMergeAll e res otherRes asOf hi a c) := by
  unfold subMergeAll; rw [List.foldl_append]

/-- the fold over the member rows -/
theorem rowsFold_eq {e : Ex} (hv : e.valid = true) (hp : e.noPtile = true) (hs : e.shiftFree = true)
    {res otherRes : Int} {k : Nat} {asOf hi : Int} (w : SMWindow res otherRes k asOf hi) (subs : List Ex)
    (metas : List KeyMeta) (step : Sq → Row → Sq)
    (hstep : ∀ c r, RowColsOk subs otherRes r.cols → RecvGrid e res hi c → InWindow e res asOf hi c →
      step c r = subMergeAll e res otherRes asOf hi (rowSrcs e subs (rowPt metas r) r.cols) c) :
    ∀ (l : List Row) (c : Sq), (∀ r ∈ l, RowColsOk subs otherRes r.cols) →
      RecvGrid e res hi c → InWindow e res asOf hi c →
      l.foldl step c =
        subMergeAll e res otherRes asOf hi (l.flatMap (fun r => rowSrcs e subs (rowPt metas r) r.cols)) c := by
  intro l
  induction l with
  | nil => intro c _ _ _; rfl
  | cons r l ih =>
    intro c hl hg hin
    have hr := hl r (by simp)
    simp only [List.foldl_cons, List.flatMap_cons]
    rw [subMergeAll_append, hstep c r hr hg hin]
    obtain ⟨ig, iin⟩ := (sem_subMergeAll_lem hv hp (shiftFree_shiftOf hs) w _ c
      (rowSrcs_ok (rowPt metas r) hr) hg hin).1
    exact ih _ (fun r' hr' => hl r' (by simp [hr'])) ig iin

/-- STAGE 2, structural half: the cell column is the successive direct `SubMerge` of all sources -/
theorem groupCell_derived {cfg : TableCfg} {now : Int} {q : Query} {pl : Plan} {inFields : List Field}
    {rows : List Row} {kk i : Nat} {f : Field} (H : DerivedCell cfg now q pl inFields rows kk i f)
    (metas : List KeyMeta) (k : Key) :
    groupCell cfg now q pl inFields metas rows k i =
      subMergeAll f.ex (gResOf cfg pl) cfg.res (gAsOfOf cfg now pl) (gUntilOf cfg now pl)
        (derivedSrcs f.ex (inFields.map (·.ex)) q metas rows k) none := by
  unfold groupCell
  rw [groupRows_eq, colsOf_foldl _ (gSlice q) (groupUpd cfg now q pl inFields metas) k rows []]
  have h0 : colsOf (q.outFields.map (fun _ => (none : Sq))) [] k = q.outFields.map (fun _ => (none : Sq)) := rfl
  rw [h0, getD_groupUpd_foldl cfg now q pl inFields metas i f H.outField _ _ (by simp)]
  have hnone : (q.outFields.map (fun _ => (none : Sq))).getD i none = none := by
    rw [List.getD_eq_getElem?_getD, List.getElem?_map]
    cases q.outFields[i]? <;> rfl
  rw [hnone]
  unfold derivedSrcs
  apply rowsFold_eq H.valid H.noPtile H.shiftFree H.window (inFields.map (·.ex)) metas _ _ _ none
    (fun r hr => H.scan r (List.mem_filter.mp hr).1) trivial (fun _ _ => rfl)
  intro c r hr hg hin
  rw [colStep_range f inFields _ _ _ _ _ _ c r.cols (by have := hr.1; simpa using this), H.noStride]
  exact colFold_eq H.valid H.noPtile H.shiftFree H.window _ _ r.cols hr _
    (fun j hj => List.mem_range.mp hj) c hg hin

theorem derivedSrcs_ok {cfg : TableCfg} {now : Int} {q : Query} {pl : Plan} {inFields : List Field}
    {rows : List Row} {kk i : Nat} {f : Field} (H : DerivedCell cfg now q pl inFields rows kk i f)
    (metas : List KeyMeta) (k : Key) :
    ∀ op ∈ derivedSrcs f.ex (inFields.map (·.ex)) q metas rows k, SqOk cfg.res op.1 ∧ SqWF f.ex op.1 := by
  intro op hop
  unfold derivedSrcs at hop
  obtain ⟨r, hr, hop'⟩ := List.mem_flatMap.mp hop
  exact rowSrcs_ok (rowPt metas r) (H.scan r (List.mem_filter.mp hr).1) op hop'

/-- STAGE 2: the state of a derived output field at (key `k`, out period `T`) -/
theorem sem_groupRows_derived_lem {cfg : TableCfg} {now : Int} {q : Query} {pl : Plan} {inFields : List Field}
    {rows : List Row} {kk i : Nat} {f : Field} (H : DerivedCell cfg now q pl inFields rows kk i f)
    (metas : List KeyMeta) (k : Key) (T : Int) (hT : (gUntilOf cfg now pl - T) % gResOf cfg pl = 0) :
    (groupCell cfg now q pl inFields metas rows k i).at f.ex (gResOf cfg pl) T =
      if gAsOfOf cfg now pl < T ∧ T ≤ gUntilOf cfg now pl
      then mergeAllOnto f.ex cfg.res (derivedSrcs f.ex (inFields.map (·.ex)) q metas rows k)
        (bucketTimes cfg.res kk (gAsOfOf cfg now pl) (gUntilOf cfg now pl) T) f.ex.empty
      else f.ex.empty := by
  rw [groupCell_derived H metas k]
  have h := (sem_subMergeAll_lem H.valid H.noPtile (shiftFree_shiftOf H.shiftFree) H.window _ none
    (derivedSrcs_ok H metas k) trivial (fun _ _ => rfl)).2 T hT
  rw [h, at_none]

/-- the cell column lies on the out grid and holds nothing outside the window -/
theorem groupCell_derived_inv {cfg : TableCfg} {now : Int} {q : Query} {pl : Plan} {inFields : List Field}
    {rows : List Row} {kk i : Nat} {f : Field} (H : DerivedCell cfg now q pl inFields rows kk i f)
    (metas : List KeyMeta) (k : Key) :
    RecvGrid f.ex (gResOf cfg pl) (gUntilOf cfg now pl) (groupCell cfg now q pl inFields metas rows k i) ∧
    InWindow f.ex (gResOf cfg pl) (gAsOfOf cfg now pl) (gUntilOf cfg now pl)
      (groupCell cfg now q pl inFields metas rows k i) := by
  rw [groupCell_derived H metas k]
  exact (sem_subMergeAll_lem H.valid H.noPtile (shiftFree_shiftOf H.shiftFree) H.window _ none
    (derivedSrcs_ok H metas k) trivial (fun _ _ => rfl)).1

end Zeno
