/-
List plumbing of the row store's field mapping (`outIdxsFor`, `rowMapper`, `rowMerger`):
which column of a file row / memstore row ends up in which outbound column.  Core Lean only.
-/
import ZenoModel.Model.Alter
set_option linter.unusedSimpArgs false
set_option linter.unusedVariables false
namespace Zeno

/-! ### printed identity -/

theorem Field.same_iff (a b : Field) : a.same b = true ↔ a.name = b.name ∧ a.ex.norm = b.ex.norm := by
  simp [Field.same, Ex.sameStr]

theorem Field.same_refl (a : Field) : a.same a = true := (Field.same_iff a a).2 ⟨rfl, rfl⟩

theorem Field.same_symm {a b : Field} (h : a.same b = true) : b.same a = true := by
  rw [Field.same_iff] at *; exact ⟨h.1.symm, h.2.symm⟩

theorem Field.same_trans {a b c : Field} (h₁ : a.same b = true) (h₂ : b.same c = true) : a.same c = true := by
  rw [Field.same_iff] at *; exact ⟨h₁.1.trans h₂.1, h₁.2.trans h₂.2⟩

theorem Field.same_false_symm {a b : Field} (h : a.same b = false) : b.same a = false := by
  cases hb : b.same a with
  | false => rfl
  | true => rw [Field.same_symm hb] at h; exact absurd h (by decide)

/-- equal fields (name and expression) print alike -/
theorem Field.same_of_eq {a b : Field} (h : a = b) : a.same b = true := h ▸ Field.same_refl a

/-- no two fields of the list print alike -/
def IdNodup (fs : List Field) : Prop := fs.Pairwise (fun a b => a.same b = false)

/-- the same for a resolved file layout (`none` = unknown header entry) -/
def IdNodupO (ff : List (Option Field)) : Prop :=
  ff.Pairwise (fun a b => ∀ f g, a = some f → b = some g → f.same g = false)

theorem idNodupO_map_some {fs : List Field} (h : IdNodup fs) : IdNodupO (fs.map some) := by
  unfold IdNodupO
  rw [List.pairwise_map]
  exact h.imp (fun hab f g hf hg => by cases hf; cases hg; exact hab)

/-- with distinct printed identities, the first position that prints like `f` is the only one -/
theorem findIdx_same {out : List Field} (hnd : IdNodup out) {f : Field} {o : Nat} (ho : o < out.length)
    (hs : f.same out[o] = true) : out.findIdx? (fun g => f.same g) = some o := by
  rw [List.findIdx?_eq_some_iff_getElem]
  refine ⟨ho, hs, ?_⟩
  intro j hj hc
  have := (List.pairwise_iff_getElem.1 hnd) j o (by omega) ho hj
  rw [Field.same_trans (Field.same_symm hc) hs] at this
  exact absurd this (by decide)

theorem findIdx_same_unique {out : List Field} (hnd : IdNodup out) {f : Field} {o o' : Nat}
    (ho : o < out.length) (ho' : o' < out.length)
    (hs : f.same out[o] = true) (hs' : f.same out[o'] = true) : o = o' := by
  have h1 := findIdx_same hnd ho hs
  have h2 := findIdx_same hnd ho' hs'
  rw [h1] at h2; exact Option.some.inj h2

theorem outIdxsFor_getElem? (out : List Field) (inn : List (Option Field)) (i : Nat) :
    (outIdxsFor out inn)[i]? = inn[i]?.map (fun f => match f with
      | none => none
      | some f => out.findIdx? (fun o => f.same o)) := by
  unfold outIdxsFor
  rw [List.getElem?_map]
  cases inn[i]? with
  | none => rfl
  | some g => cases g <;> rfl

theorem outIdxsFor_length (out : List Field) (inn : List (Option Field)) :
    (outIdxsFor out inn).length = inn.length := by simp [outIdxsFor]

/-- `outIdxsFor` sends in-position `i` to out-position `o` iff the in-field there prints like
    `out[o]` (for an `out` list without duplicate identities) -/
theorem outIdxsFor_eq_some {out : List Field} (hnd : IdNodup out) (inn : List (Option Field)) (i o : Nat) :
    (outIdxsFor out inn).getD i none = some o ↔
      ∃ f, inn[i]? = some (some f) ∧ ∃ ho : o < out.length, f.same out[o] = true := by
  rw [List.getD_eq_getElem?_getD, outIdxsFor_getElem?]
  constructor
  · intro h
    cases hi : inn[i]? with
    | none => simp [hi] at h
    | some g =>
      cases g with
      | none => simp [hi] at h
      | some f =>
        simp only [hi, Option.map_some, Option.getD_some] at h
        rw [List.findIdx?_eq_some_iff_getElem] at h
        obtain ⟨ho, hs, _⟩ := h
        exact ⟨f, rfl, ho, hs⟩
  · rintro ⟨f, hi, ho, hs⟩
    simp only [hi, Option.map_some, Option.getD_some]
    exact findIdx_same hnd ho hs

/-! ### the two folds -/

/-- generic shape of `rowMapper` / `rowMerger` applied to all columns of a row: column `c` at
    in-position `i` updates out-position `idx i` -/
def colFold {α β : Type} (idx : Nat → Option Nat) (upd : List α → Nat → β → List α)
    (init : List α) (l : List (β × Nat)) : List α :=
  l.foldl (fun acc ci => match idx ci.2 with | some o => upd acc o ci.1 | none => acc) init

theorem foldl_pair_fst {α β : Type} (idx : Nat → Option Nat) (upd : List α → Nat → β → List α)
    (l : List (β × Nat)) : ∀ (acc : List α × Bool),
    (l.foldl (fun (acc : List α × Bool) (ci : β × Nat) => match idx ci.2 with
      | some o => (upd acc.1 o ci.1, true)
      | none => acc) acc).1 = colFold idx upd acc.1 l := by
  induction l with
  | nil => intro acc; rfl
  | cons x r ih =>
    intro acc
    simp only [List.foldl_cons, colFold]
    rw [ih]
    cases h : idx x.2 <;> simp [colFold, h]

theorem foldl_pair_snd {α β : Type} (idx : Nat → Option Nat) (upd : List α → Nat → β → List α)
    (l : List (β × Nat)) : ∀ (acc : List α × Bool),
    (l.foldl (fun (acc : List α × Bool) (ci : β × Nat) => match idx ci.2 with
      | some o => (upd acc.1 o ci.1, true)
      | none => acc) acc).2 = (acc.2 || l.any (fun ci => (idx ci.2).isSome)) := by
  induction l with
  | nil => intro acc; simp
  | cons x r ih =>
    intro acc
    simp only [List.foldl_cons, List.any_cons]
    rw [ih]
    cases h : idx x.2 <;> simp [h]

theorem colFold_length {α β : Type} (upd : List α → Nat → β → List α) (hlen : ∀ acc o c, (upd acc o c).length = acc.length) (idx : Nat → Option Nat) :
    ∀ (l : List (β × Nat)) (init : List α), (colFold idx upd init l).length = init.length := by
  intro l
  induction l with
  | nil => intro init; rfl
  | cons x r ih =>
    intro init
    simp only [colFold, List.foldl_cons]
    have ih' := ih
    simp only [colFold] at ih'
    cases h : idx x.2 with
    | none => simp only [h]; exact ih' init
    | some o => simp only [h]; rw [ih', hlen]
section
variable {α β : Type} (upd : List α → Nat → β → List α) (g : Nat → β → α → α)
  (hupd : ∀ acc o c o', (upd acc o c)[o']? = if o = o' then (acc[o']?).map (g o c) else acc[o']?)
include hupd

/-- no in-position of the row maps to `o`: out-column `o` is what it was -/
theorem colFold_miss (idx : Nat → Option Nat) (o : Nat) : ∀ (cols : List β) (k : Nat) (init : List α),
    (∀ j, j < cols.length → idx (k + j) ≠ some o) →
    (colFold idx upd init (cols.zipIdx k))[o]? = init[o]? := by
  intro cols
  induction cols with
  | nil => intro k init _; rfl
  | cons c r ih =>
    intro k init h
    simp only [List.zipIdx_cons, colFold, List.foldl_cons]
    have h0 := h 0 (by simp)
    have hr : ∀ j, j < r.length → idx (k + 1 + j) ≠ some o := by
      intro j hj
      have := h (j + 1) (by simp; omega)
      rwa [show k + (j + 1) = k + 1 + j by omega] at this
    have ih' := ih (k + 1)
    simp only [colFold] at ih'
    cases hk : idx k with
    | none => simp only [hk]; exact ih' init hr
    | some o' =>
      simp only [hk]
      rw [ih' _ hr, hupd]
      have : o' ≠ o := by
        intro e; apply h0; rw [Nat.add_zero, hk, e]
      simp [this]

/-- exactly one in-position `i` of the row maps to `o`: out-column `o` is updated once, with
    column `i` -/
theorem colFold_hit (idx : Nat → Option Nat) (o : Nat) : ∀ (cols : List β) (k : Nat) (init : List α)
    (i : Nat) (hi : i < cols.length), idx (k + i) = some o →
    (∀ j, j < cols.length → idx (k + j) = some o → j = i) →
    (colFold idx upd init (cols.zipIdx k))[o]? = (init[o]?).map (g o cols[i]) := by
  intro cols
  induction cols with
  | nil => intro k init i hi; simp at hi
  | cons c r ih =>
    intro k init i hi hio huniq
    simp only [List.zipIdx_cons, colFold, List.foldl_cons]
    cases i with
    | zero =>
      have hk : idx k = some o := by simpa using hio
      simp only [hk]
      have hr : ∀ j, j < r.length → idx (k + 1 + j) ≠ some o := by
        intro j hj e
        have := huniq (j + 1) (by simp; omega) (by rwa [show k + (j + 1) = k + 1 + j by omega])
        omega
      have := colFold_miss upd g hupd idx o r (k + 1) (upd init o c) hr
      simp only [colFold] at this
      rw [this, hupd]
      simp
    | succ i =>
      have hi' : i < r.length := by simpa using hi
      have hio' : idx (k + 1 + i) = some o := by rwa [show k + (i + 1) = k + 1 + i by omega] at hio
      have huniq' : ∀ j, j < r.length → idx (k + 1 + j) = some o → j = i := by
        intro j hj e
        have := huniq (j + 1) (by simp; omega) (by rwa [show k + (j + 1) = k + 1 + j by omega])
        omega
      have hk : idx k ≠ some o := by
        intro e
        have := huniq 0 (by simp) (by simpa using e)
        omega
      have ih' := ih (k + 1)
      simp only [colFold] at ih'
      cases hk' : idx k with
      | none =>
        simp only [hk']
        rw [ih' init i hi' hio' huniq']
        simp
      | some o' =>
        simp only [hk']
        rw [ih' _ i hi' hio' huniq', hupd]
        have : o' ≠ o := by intro e; apply hk; rw [hk', e]
        simp [this]

end

/-! ### `rowMapper` on a file row -/

theorem set_getElem? {α : Type} (acc : List α) (o : Nat) (c : α) (o' : Nat) :
    (acc.set o c)[o']? = if o = o' then (acc[o']?).map (fun _ => c) else acc[o']? := by
  rw [List.getElem?_set]
  by_cases h : o = o'
  · subst h
    by_cases hl : o < acc.length <;> simp [hl]
  · simp [h]

theorem mapFileCols_fst (out : List Field) (ff : List (Option Field)) (cols : List Sq) :
    (mapFileCols out ff cols).1 =
      colFold (fun i => (outIdxsFor out ff).getD i none) (fun acc o c => acc.set o c)
        (out.map (fun _ => none)) (cols.zipIdx) := by
  have h : mapFileCols out ff cols = (cols.zipIdx).foldl (fun (acc : List Sq × Bool) (ci : Sq × Nat) =>
      match (fun i => (outIdxsFor out ff).getD i none) ci.2 with
      | some o => ((fun (acc : List Sq) o (c : Sq) => acc.set o c) acc.1 o ci.1, true)
      | none => acc) (out.map (fun _ => none), false) := rfl
  rw [h]
  exact foldl_pair_fst (fun i => (outIdxsFor out ff).getD i none) (fun (acc : List Sq) o (c : Sq) => acc.set o c)
    (cols.zipIdx) (out.map (fun _ => none), false)

theorem mapFileCols_snd (out : List Field) (ff : List (Option Field)) (cols : List Sq) :
    (mapFileCols out ff cols).2 = (cols.zipIdx).any (fun ci => ((outIdxsFor out ff).getD ci.2 none).isSome) := by
  have h : mapFileCols out ff cols = (cols.zipIdx).foldl (fun (acc : List Sq × Bool) (ci : Sq × Nat) =>
      match (fun i => (outIdxsFor out ff).getD i none) ci.2 with
      | some o => ((fun (acc : List Sq) o (c : Sq) => acc.set o c) acc.1 o ci.1, true)
      | none => acc) (out.map (fun _ => none), false) := rfl
  rw [h]
  have := foldl_pair_snd (fun i => (outIdxsFor out ff).getD i none) (fun (acc : List Sq) o (c : Sq) => acc.set o c)
    (cols.zipIdx) (out.map (fun _ => none), false)
  rw [this]; simp

theorem mapFileCols_length (out : List Field) (ff : List (Option Field)) (cols : List Sq) :
    (mapFileCols out ff cols).1.length = out.length := by
  rw [mapFileCols_fst, colFold_length (fun (acc : List Sq) o (c : Sq) => acc.set o c) (by intros; simp)]
  simp

/-- RETAINED column of a file row: the column stored at the (unique) file position whose field
    prints like `out[o]` is handed out at position `o`, untouched -/
theorem mapFileCols_hit {out : List Field} (hout : IdNodup out) {ff : List (Option Field)} (hff : IdNodupO ff)
    (cols : List Sq) (o : Nat) (ho : o < out.length) (i : Nat) (f : Field)
    (hfi : ff[i]? = some (some f)) (hs : f.same out[o] = true) :
    (mapFileCols out ff cols).1.getD o none = cols.getD i none := by
  rw [mapFileCols_fst, List.getD_eq_getElem?_getD, List.getD_eq_getElem?_getD]
  have hupd : ∀ (acc : List Sq) o (c : Sq) o', (acc.set o c)[o']? =
      if o = o' then (acc[o']?).map ((fun _ c _ => c) o c) else acc[o']? := by
    intro acc o c o'; exact set_getElem? acc o c o'
  have hidx : (outIdxsFor out ff).getD i none = some o :=
    (outIdxsFor_eq_some hout ff i o).2 ⟨f, hfi, ho, hs⟩
  have huniq : ∀ j, (outIdxsFor out ff).getD j none = some o → j = i := by
    intro j hj
    obtain ⟨g, hgj, _, hgs⟩ := (outIdxsFor_eq_some hout ff j o).1 hj
    by_cases hji : j = i
    · exact hji
    · exfalso
      have hjl : j < ff.length := by
        cases h : ff[j]? with
        | none => rw [h] at hgj; cases hgj
        | some _ => exact (List.getElem?_eq_some_iff.1 h).1
      have hil : i < ff.length := (List.getElem?_eq_some_iff.1 hfi).1
      have hgj' : ff[j] = some g := by
        have := List.getElem?_eq_getElem hjl; rw [this] at hgj; exact Option.some.inj hgj
      have hfi' : ff[i] = some f := by
        have := List.getElem?_eq_getElem hil; rw [this] at hfi; exact Option.some.inj hfi
      have hfg : f.same g = true := Field.same_trans hs (Field.same_symm hgs)
      rcases Nat.lt_or_gt_of_ne hji with hlt | hgt
      · have := (List.pairwise_iff_getElem.1 hff) j i hjl hil hlt g f hgj' hfi'
        rw [Field.same_symm hfg] at this; exact absurd this (by decide)
      · have := (List.pairwise_iff_getElem.1 hff) i j hil hjl hgt f g hfi' hgj'
        rw [hfg] at this; exact absurd this (by decide)
  by_cases hic : i < cols.length
  · have := colFold_hit (fun (acc : List Sq) o (c : Sq) => acc.set o c) (fun _ c _ => c) hupd
      (fun i => (outIdxsFor out ff).getD i none) o cols 0 (out.map (fun _ => none)) i hic
      (by simpa using hidx) (by intro j _ hj; exact huniq j (by simpa using hj))
    rw [this]
    simp [ho, List.getElem?_eq_getElem hic]
  · have := colFold_miss (fun (acc : List Sq) o (c : Sq) => acc.set o c) (fun _ c _ => c) hupd
      (fun i => (outIdxsFor out ff).getD i none) o cols 0 (out.map (fun _ => none))
      (by intro j hj e; have := huniq j (by simpa using e); omega)
    rw [this]
    have : cols[i]? = none := by rw [List.getElem?_eq_none_iff]; omega
    simp [ho, this]

/-- ADDED column w.r.t. the file: no file position prints like `out[o]` ⇒ position `o` stays
    empty (`nil` sequence) -/
theorem mapFileCols_miss {out : List Field} (hout : IdNodup out) (ff : List (Option Field))
    (cols : List Sq) (o : Nat) (ho : o < out.length)
    (hno : ∀ (i : Nat) (f : Field), ff[i]? = some (some f) → f.same out[o] = false) :
    (mapFileCols out ff cols).1.getD o none = none := by
  rw [mapFileCols_fst, List.getD_eq_getElem?_getD]
  have hupd : ∀ (acc : List Sq) o (c : Sq) o', (acc.set o c)[o']? =
      if o = o' then (acc[o']?).map ((fun _ c _ => c) o c) else acc[o']? := by
    intro acc o c o'; exact set_getElem? acc o c o'
  have := colFold_miss (fun (acc : List Sq) o (c : Sq) => acc.set o c) (fun _ c _ => c) hupd
    (fun i => (outIdxsFor out ff).getD i none) o cols 0 (out.map (fun _ => none))
    (by
      intro j _ e
      obtain ⟨g, hgj, _, hgs⟩ := (outIdxsFor_eq_some hout ff (0 + j) o).1 e
      rw [hno _ g hgj] at hgs; exact absurd hgs (by decide))
  rw [this]
  simp [ho]

/-! ### `rowMerger` on a memstore row -/

theorem modify_getElem? {α : Type} (acc : List α) (o : Nat) (f : α → α) (o' : Nat) :
    (acc.modify o f)[o']? = if o = o' then (acc[o']?).map f else acc[o']? := by
  rw [List.getElem?_modify]
  by_cases h : o = o'
  · subst h; cases acc[o]? <;> simp
  · cases acc[o']? <;> simp [h]

theorem mergeMemCols_fst (out mf : List Field) (res tb : Int) (columns msCols : List Sq) :
    (mergeMemCols out mf res tb columns msCols).1 =
      colFold (fun i => (outIdxsFor out (mf.map some)).getD i none)
        (fun acc o c => acc.modify o (fun cur => Sq.merge (out.getD o default).ex res cur c tb))
        columns (msCols.zipIdx) := by
  have h : mergeMemCols out mf res tb columns msCols = (msCols.zipIdx).foldl (fun (acc : List Sq × Bool) (ci : Sq × Nat) =>
      match (fun i => (outIdxsFor out (mf.map some)).getD i none) ci.2 with
      | some o => ((fun (acc : List Sq) o (c : Sq) =>
          acc.modify o (fun cur => Sq.merge (out.getD o default).ex res cur c tb)) acc.1 o ci.1, true)
      | none => acc) (columns, false) := rfl
  rw [h]
  exact foldl_pair_fst (fun i => (outIdxsFor out (mf.map some)).getD i none)
    (fun (acc : List Sq) o (c : Sq) => acc.modify o (fun cur => Sq.merge (out.getD o default).ex res cur c tb))
    (msCols.zipIdx) (columns, false)

theorem mergeMemCols_snd (out mf : List Field) (res tb : Int) (columns msCols : List Sq) :
    (mergeMemCols out mf res tb columns msCols).2 =
      (msCols.zipIdx).any (fun ci => ((outIdxsFor out (mf.map some)).getD ci.2 none).isSome) := by
  have h : mergeMemCols out mf res tb columns msCols = (msCols.zipIdx).foldl (fun (acc : List Sq × Bool) (ci : Sq × Nat) =>
      match (fun i => (outIdxsFor out (mf.map some)).getD i none) ci.2 with
      | some o => ((fun (acc : List Sq) o (c : Sq) =>
          acc.modify o (fun cur => Sq.merge (out.getD o default).ex res cur c tb)) acc.1 o ci.1, true)
      | none => acc) (columns, false) := rfl
  rw [h]
  have := foldl_pair_snd (fun i => (outIdxsFor out (mf.map some)).getD i none)
    (fun (acc : List Sq) o (c : Sq) => acc.modify o (fun cur => Sq.merge (out.getD o default).ex res cur c tb))
    (msCols.zipIdx) (columns, false)
  rw [this]; simp

theorem mergeMemCols_length (out mf : List Field) (res tb : Int) (columns msCols : List Sq) :
    (mergeMemCols out mf res tb columns msCols).1.length = columns.length := by
  rw [mergeMemCols_fst, colFold_length _ (by intros; simp)]

/-- RETAINED column of a memstore row: the series at the (unique) memstore position whose field
    prints like `out[o]` is merged, with `out[o]`'s expression, into out-column `o` -/
theorem mergeMemCols_hit {out : List Field} (hout : IdNodup out) {mf : List Field} (hmf : IdNodup mf)
    (res tb : Int) (columns msCols : List Sq) (o : Nat) (ho : o < out.length) (hoc : o < columns.length)
    (i : Nat) (hi : i < mf.length) (hs : mf[i].same out[o] = true) :
    (mergeMemCols out mf res tb columns msCols).1.getD o none =
      if i < msCols.length then Sq.merge out[o].ex res (columns.getD o none) (msCols.getD i none) tb
      else columns.getD o none := by
  rw [mergeMemCols_fst, List.getD_eq_getElem?_getD]
  have hupd : ∀ (acc : List Sq) o (c : Sq) o',
      (acc.modify o (fun cur => Sq.merge (out.getD o default).ex res cur c tb))[o']? =
      if o = o' then (acc[o']?).map ((fun o c cur => Sq.merge (out.getD o default).ex res cur c tb) o c)
      else acc[o']? := by
    intro acc o c o'; exact modify_getElem? acc o _ o'
  have hfi : (mf.map some)[i]? = some (some mf[i]) := by simp [hi]
  have hidx : (outIdxsFor out (mf.map some)).getD i none = some o :=
    (outIdxsFor_eq_some hout _ i o).2 ⟨mf[i], hfi, ho, hs⟩
  have huniq : ∀ j, (outIdxsFor out (mf.map some)).getD j none = some o → j = i := by
    intro j hj
    obtain ⟨g, hgj, _, hgs⟩ := (outIdxsFor_eq_some hout _ j o).1 hj
    by_cases hji : j = i
    · exact hji
    · exfalso
      have hjl : j < mf.length := by
        cases h : (mf.map some)[j]? with
        | none => rw [h] at hgj; cases hgj
        | some _ => have := (List.getElem?_eq_some_iff.1 h).1; simpa using this
      have hgj' : mf[j] = g := by
        simp [hjl] at hgj; exact hgj
      have hfg : mf[i].same mf[j] = true := by rw [hgj']; exact Field.same_trans hs (Field.same_symm hgs)
      rcases Nat.lt_or_gt_of_ne hji with hlt | hgt
      · have := (List.pairwise_iff_getElem.1 hmf) j i hjl hi hlt
        rw [Field.same_symm hfg] at this; exact absurd this (by decide)
      · have := (List.pairwise_iff_getElem.1 hmf) i j hi hjl hgt
        rw [hfg] at this; exact absurd this (by decide)
  have hgd : (out.getD o default).ex = out[o].ex := by
    rw [List.getD_eq_getElem?_getD, List.getElem?_eq_getElem ho]; rfl
  by_cases hic : i < msCols.length
  · have := colFold_hit _ _ hupd (fun i => (outIdxsFor out (mf.map some)).getD i none) o msCols 0 columns i hic
      (by simpa using hidx) (by intro j _ hj; exact huniq j (by simpa using hj))
    rw [this]
    rw [hgd]
    simp only [hic, if_true, List.getD_eq_getElem?_getD, List.getElem?_eq_getElem hoc,
      List.getElem?_eq_getElem hic, Option.map_some, Option.getD_some]
  · have := colFold_miss _ _ hupd (fun i => (outIdxsFor out (mf.map some)).getD i none) o msCols 0 columns
      (by intro j hj e; have := huniq j (by simpa using e); omega)
    rw [this]
    simp [hic, List.getD_eq_getElem?_getD]

/-- ADDED column w.r.t. the memstore: no memstore field prints like `out[o]` ⇒ out-column `o`
    is left as it was -/
theorem mergeMemCols_miss {out : List Field} (hout : IdNodup out) (mf : List Field)
    (res tb : Int) (columns msCols : List Sq) (o : Nat)
    (hno : ∀ g ∈ mf, g.same (out.getD o default) = false) :
    (mergeMemCols out mf res tb columns msCols).1.getD o none = columns.getD o none := by
  rw [mergeMemCols_fst, List.getD_eq_getElem?_getD, List.getD_eq_getElem?_getD]
  have hupd : ∀ (acc : List Sq) o (c : Sq) o',
      (acc.modify o (fun cur => Sq.merge (out.getD o default).ex res cur c tb))[o']? =
      if o = o' then (acc[o']?).map ((fun o c cur => Sq.merge (out.getD o default).ex res cur c tb) o c)
      else acc[o']? := by
    intro acc o c o'; exact modify_getElem? acc o _ o'
  have := colFold_miss _ _ hupd (fun i => (outIdxsFor out (mf.map some)).getD i none) o msCols 0 columns
    (by
      intro j _ e
      obtain ⟨g, hgj, ho, hgs⟩ := (outIdxsFor_eq_some hout _ (0 + j) o).1 e
      have hg : g ∈ mf := by
        have : (mf.map some)[0 + j]? = some (some g) := hgj
        rw [List.getElem?_map] at this
        cases h : mf[0 + j]? with
        | none => rw [h] at this; cases this
        | some g' =>
          rw [h] at this
          have : g' = g := by simpa using this
          subst this
          exact List.mem_of_getElem? h
      have := hno g hg
      rw [List.getD_eq_getElem?_getD, List.getElem?_eq_getElem ho] at this
      rw [show (some out[o]).getD default = out[o] from rfl] at this
      rw [this] at hgs; exact absurd hgs (by decide))
  rw [this]

end Zeno
