/-
Store ↔ column projection, part 5: column `i` of what `Store.flush` writes / `Store.iterate`
hands out for one row, as an expression over column `i` of the file row and of the memstore row.
-/
import ZenoModel.Lemmas.StoreProjFlushEq
set_option linter.unusedSimpArgs false
set_option linter.unusedVariables false
namespace Zeno

theorem fileSame_true (cfg : TableCfg) (st : Store) (h : st.fileFields = cfg.fields.map some) :
    fileSameB cfg st = true := by
  unfold fileSameB
  rw [h]
  simp only [List.length_map, beq_self_eq_true, Bool.true_and]
  generalize cfg.fields = fs
  induction fs with
  | nil => rfl
  | cons f r ih =>
    simp only [List.map_cons, List.zip_cons_cons, List.all_cons, Field.same_refl, Bool.true_and]
    exact ih

theorem getD_map_none (f : Sq → Sq) (hf : f none = none) (l : List Sq) (i : Nat) :
    (l.map f).getD i none = f (l.getD i none) := by
  simp only [List.getD_eq_getElem?_getD, List.getElem?_map]
  cases l[i]? <;> simp [hf]

theorem getD_replicate_none (fields : List Field) (i : Nat) :
    (fields.map (fun _ => (none : Sq))).getD i none = none := by
  simp only [List.getD_eq_getElem?_getD, List.getElem?_map]
  cases fields[i]? <;> simp

/-! ### `writeRow` -/

theorem writeRow_col (cfg : TableCfg) (tb : Int) (k : Key) (cols : List Sq) (i : Nat) :
    optCol (writeRow cfg tb { key := k, cols := cols }) i = Sq.truncate (cols.getD i none) cfg.res tb 0 := by
  unfold writeRow
  simp only
  rw [← getD_map_none (fun c => Sq.truncate c cfg.res tb 0) rfl]
  split
  · rfl
  · rename_i hany
    simp only [optCol]
    have hall : ∀ c ∈ cols.map (fun c => Sq.truncate c cfg.res tb 0), c = none := by
      intro c hc
      have h1 : (cols.map (fun c => Sq.truncate c cfg.res tb 0)).any (fun c => c.isSome) = false := by
        simpa using hany
      have := (List.any_eq_false.mp h1) c hc
      cases c <;> simp_all
    rw [List.getD_eq_getElem?_getD]
    cases hg : (cols.map (fun c => Sq.truncate c cfg.res tb 0))[i]? with
    | none => rfl
    | some c => exact (hall c (List.mem_of_getElem? hg)).symm ▸ rfl

theorem writeRow_len {cfg : TableCfg} {tb : Int} {r w : Row} (h : writeRow cfg tb r = some w) :
    w.cols.length = r.cols.length := by
  unfold writeRow at h
  simp only at h
  split at h
  · simp only [Option.some.injEq] at h; rw [← h]; simp
  · exact absurd h (by simp)

/-! ### the outbound columns of a file row -/

theorem optCol_find_len {n : Nat} {mem : List Row} (h : RowsOk n mem) (key : Key) {m : Row}
    (hm : mem.find? (fun r => r.key == key) = some m) : m.cols.length = n :=
  h.len m (List.mem_of_find?_eq_some hm)

theorem outCols_spec (cfg : TableCfg) (hd : FieldsDistinct cfg.fields) (st : Store)
    (hmf : st.memFields = cfg.fields) (hff : st.fileFields = cfg.fields.map some)
    (mem : List Row) (tb : Int) (r : Row) (hr : r.cols.length = cfg.fields.length)
    (hn : 0 < cfg.fields.length) :
    (outCols cfg st mem tb r).1.length = cfg.fields.length ∧
    (outCols cfg st mem tb r).2 = true ∧
    ∀ o, o < cfg.fields.length → (outCols cfg st mem tb r).1.getD o none =
      Sq.merge (cfg.fields.getD o default).ex cfg.res (r.cols.getD o none)
        (optCol (mem.find? (fun m => m.key == r.key)) o) tb := by
  obtain ⟨f1, f2, f3⟩ := mapFileCols_spec hd r.cols
  have f2' : (mapFileCols cfg.fields (cfg.fields.map some) r.cols).2 = true := by
    rw [f2]
    have : r.cols ≠ [] := by intro h; rw [h] at hr; simp at hr; omega
    simp [hn, this]
  unfold outCols
  rw [hff, hmf]
  cases hms : mem.find? (fun m => m.key == r.key) with
  | none =>
    simp only [optCol]
    refine ⟨f1, f2', ?_⟩
    intro o ho
    rw [f3 o ho, merge_none_right]
  | some m =>
    simp only [optCol]
    obtain ⟨g1, g2⟩ := mergeMemCols_spec hd cfg.res tb
      (mapFileCols cfg.fields (cfg.fields.map some) r.cols).1 m.cols (by omega)
    refine ⟨by rw [g1, f1], by rw [f2']; rfl, ?_⟩
    intro o ho
    rw [g2 o ho, f3 o ho]

/-- column `i` of what a flush writes for the file row `r` -/
theorem flushFileRow_col (cfg : TableCfg) (hd : FieldsDistinct cfg.fields) (st : Store)
    (hmf : st.memFields = cfg.fields) (hff : st.fileFields = cfg.fields.map some)
    (tb : Int) (rawOkay : Bool) (r : Row) (hr : r.cols.length = cfg.fields.length)
    (i : Nat) (hi : i < cfg.fields.length) :
    optCol (flushFileRow cfg st tb rawOkay r) i =
      if (st.mem.find? (fun m => m.key == r.key)).isNone && rawOkay then r.cols.getD i none
      else Sq.truncate (Sq.merge (cfg.fields.getD i default).ex cfg.res (r.cols.getD i none)
        (optCol (st.mem.find? (fun m => m.key == r.key)) i) tb) cfg.res tb 0 := by
  obtain ⟨o1, o2, o3⟩ := outCols_spec cfg hd st hmf hff st.mem tb r hr (by omega)
  unfold flushFileRow
  simp only [o2, if_true]
  split
  · rfl
  · rw [writeRow_col, o3 i hi]

theorem flushFileRow_len (cfg : TableCfg) (hd : FieldsDistinct cfg.fields) (st : Store)
    (hmf : st.memFields = cfg.fields) (hff : st.fileFields = cfg.fields.map some)
    (tb : Int) (rawOkay : Bool) (r w : Row) (hr : r.cols.length = cfg.fields.length)
    (hn : 0 < cfg.fields.length) (h : flushFileRow cfg st tb rawOkay r = some w) :
    w.cols.length = cfg.fields.length := by
  obtain ⟨o1, o2, o3⟩ := outCols_spec cfg hd st hmf hff st.mem tb r hr hn
  unfold flushFileRow at h
  simp only [o2, if_true] at h
  split at h
  · simp only [Option.some.injEq] at h; rw [← h]; exact hr
  · rw [writeRow_len h]; exact o1

/-- column `i` of what a flush writes for a memstore row that is not in the file -/
theorem flushMemRow_col (cfg : TableCfg) (hd : FieldsDistinct cfg.fields) (st : Store)
    (hmf : st.memFields = cfg.fields) (tb : Int) (m : Row) (i : Nat) (hi : i < cfg.fields.length) :
    optCol (flushMemRow cfg st tb m) i =
      Sq.truncate (Sq.merge (cfg.fields.getD i default).ex cfg.res none (m.cols.getD i none) tb) cfg.res tb 0 := by
  unfold flushMemRow
  rw [writeRow_col, hmf]
  obtain ⟨g1, g2⟩ := mergeMemCols_spec hd cfg.res tb (cfg.fields.map (fun _ => none)) m.cols (by simp)
  rw [g2 i hi, getD_replicate_none]

theorem flushMemRow_len (cfg : TableCfg) (hd : FieldsDistinct cfg.fields) (st : Store)
    (hmf : st.memFields = cfg.fields) (tb : Int) (m w : Row) (h : flushMemRow cfg st tb m = some w) :
    w.cols.length = cfg.fields.length := by
  unfold flushMemRow at h
  rw [writeRow_len h, hmf]
  obtain ⟨g1, g2⟩ := mergeMemCols_spec hd cfg.res tb (cfg.fields.map (fun _ => none)) m.cols (by simp)
  simp only
  rw [g1]; simp

/-- column `i` of what a scan hands out for the file row `r` -/
theorem iterFileRow_col (cfg : TableCfg) (hd : FieldsDistinct cfg.fields) (st : Store)
    (hmf : st.memFields = cfg.fields) (hff : st.fileFields = cfg.fields.map some)
    (mem : List Row) (tb : Int) (r : Row) (hr : r.cols.length = cfg.fields.length)
    (i : Nat) (hi : i < cfg.fields.length) :
    optCol (iterFileRow cfg st mem tb r) i =
      Sq.merge (cfg.fields.getD i default).ex cfg.res (r.cols.getD i none)
        (optCol (mem.find? (fun m => m.key == r.key)) i) tb := by
  obtain ⟨o1, o2, o3⟩ := outCols_spec cfg hd st hmf hff mem tb r hr (by omega)
  unfold iterFileRow
  rw [o2, if_pos rfl]
  simp only [optCol]
  exact o3 i hi

theorem iterMemRow_col (cfg : TableCfg) (hd : FieldsDistinct cfg.fields) (st : Store)
    (hmf : st.memFields = cfg.fields) (tb : Int) (m : Row) (i : Nat) (hi : i < cfg.fields.length) :
    (iterMemRow cfg st tb m).cols.getD i none =
      Sq.merge (cfg.fields.getD i default).ex cfg.res none (m.cols.getD i none) tb := by
  unfold iterMemRow
  simp only
  rw [hmf]
  obtain ⟨g1, g2⟩ := mergeMemCols_spec hd cfg.res tb (cfg.fields.map (fun _ => none)) m.cols (by simp)
  rw [g2 i hi, getD_replicate_none]

end Zeno
