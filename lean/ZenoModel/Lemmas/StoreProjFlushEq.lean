/-
Store ↔ column projection, part 4: `Store.flush` and `Store.iterate` without their loops —
the file loop is a `filterMap` of a per-row function (the `stopped` flag is never set), and
the per-row functions keep the row key.
-/
import ZenoModel.Lemmas.StoreProjInv
set_option linter.unusedSimpArgs false
set_option linter.unusedVariables false
namespace Zeno

/-- column `i` of an optional row -/
def optCol (o : Option Row) (i : Nat) : Sq :=
  match o with
  | some r => r.cols.getD i none
  | none => none

theorem rowCol_eq_optCol (rows : List Row) (key : Key) (i : Nat) :
    rowCol rows key i = optCol (rows.find? (fun r => r.key == key)) i := rfl

/-! ### rows by key through `filterMap` / `filter` -/

theorem find_filterMap_none (g : Row → Option Row) (hg : ∀ r w, g r = some w → w.key = r.key)
    (l : List Row) (key : Key) (h : ∀ r ∈ l, r.key ≠ key) :
    (l.filterMap g).find? (fun r => r.key == key) = none := by
  rw [List.find?_eq_none]
  intro w hw
  rw [List.mem_filterMap] at hw
  obtain ⟨r, hr, hgr⟩ := hw
  have := hg r w hgr
  simp only [beq_iff_eq]
  rw [this]
  exact h r hr

theorem find_filterMap_key (g : Row → Option Row) (hg : ∀ r w, g r = some w → w.key = r.key)
    (l : List Row) (hu : l.Pairwise (fun a b => a.key ≠ b.key)) (key : Key) :
    (l.filterMap g).find? (fun r => r.key == key) = (l.find? (fun r => r.key == key)).bind g := by
  induction l with
  | nil => rfl
  | cons a l ih =>
    rw [List.pairwise_cons] at hu
    by_cases hk : a.key = key
    · have hk' : (a.key == key) = true := by simpa using hk
      have e : (a :: l).find? (fun r => r.key == key) = some a := by
        simp only [List.find?_cons, hk']
      rw [e, Option.bind_some]
      cases hga : g a with
      | none =>
        rw [List.filterMap_cons_none hga]
        apply find_filterMap_none g hg
        intro r hr
        rw [← hk]
        exact fun h => hu.1 r hr h.symm
      | some w =>
        rw [List.filterMap_cons_some hga]
        have : (w.key == key) = true := by rw [hg a w hga]; exact hk'
        simp only [List.find?_cons, this]
    · have hk' : (a.key == key) = false := by simpa using hk
      have e : (a :: l).find? (fun r => r.key == key) = l.find? (fun r => r.key == key) := by
        simp only [List.find?_cons, hk']
      rw [e]
      cases hga : g a with
      | none => rw [List.filterMap_cons_none hga]; exact ih hu.2
      | some w =>
        rw [List.filterMap_cons_some hga]
        have : (w.key == key) = false := by rw [hg a w hga]; exact hk'
        simp only [List.find?_cons, this]
        exact ih hu.2

theorem find_filter_keep (q : Row → Bool) (l : List Row) (key : Key)
    (h : ∀ r ∈ l, r.key = key → q r = true) :
    (l.filter q).find? (fun r => r.key == key) = l.find? (fun r => r.key == key) := by
  induction l with
  | nil => rfl
  | cons a l ih =>
    have ih' := ih (fun r hr => h r (List.mem_cons_of_mem _ hr))
    by_cases hk : a.key = key
    · have hq := h a (List.mem_cons_self) hk
      have hk' : (a.key == key) = true := by simpa using hk
      rw [List.filter_cons_of_pos hq]
      simp only [List.find?_cons, hk']
    · have hk' : (a.key == key) = false := by simpa using hk
      by_cases hq : q a = true
      · rw [List.filter_cons_of_pos hq]
        simp only [List.find?_cons, hk']
        exact ih'
      · rw [List.filter_cons_of_neg hq]
        simp only [List.find?_cons, hk']
        exact ih'

theorem find_filter_drop (q : Row → Bool) (l : List Row) (key : Key)
    (h : ∀ r ∈ l, r.key = key → q r = false) :
    (l.filter q).find? (fun r => r.key == key) = none := by
  rw [List.find?_eq_none]
  intro r hr
  rw [List.mem_filter] at hr
  intro hk
  have := h r hr.1 (by simpa using hk)
  rw [this] at hr
  exact absurd hr.2 (by simp)

/-! ### `Store.flush` -/

def flushStep (cfg : TableCfg) (st : Store) (tb : Int) (rawOkay : Bool) (acc : List Row × Bool) (r : Row) :
    List Row × Bool :=
  if acc.2 then acc
  else
    let ms := st.mem.find? (fun m => m.key == r.key)
    if ms.isNone && rawOkay then (acc.1 ++ [r], false)
    else
      let (cols, inc1) := mapFileCols cfg.fields st.fileFields r.cols
      let (cols, inc2) := match ms with
        | some m => mergeMemCols cfg.fields st.memFields cfg.res tb cols m.cols
        | none => (cols, false)
      if inc1 || inc2 then
        match writeRow cfg tb { key := r.key, cols := cols } with
        | some w => (acc.1 ++ [w], false)
        | none => acc
      else acc

/-- the outbound columns of a file row: mapped, then merged with the memstore row (if any) -/
def outCols (cfg : TableCfg) (st : Store) (mem : List Row) (tb : Int) (r : Row) : List Sq × Bool :=
  let m1 := mapFileCols cfg.fields st.fileFields r.cols
  match mem.find? (fun m => m.key == r.key) with
  | some m =>
    let m2 := mergeMemCols cfg.fields st.memFields cfg.res tb m1.1 m.cols
    (m2.1, m1.2 || m2.2)
  | none => (m1.1, m1.2)

/-- what the flush writes for one file row -/
def flushFileRow (cfg : TableCfg) (st : Store) (tb : Int) (rawOkay : Bool) (r : Row) : Option Row :=
  if (st.mem.find? (fun m => m.key == r.key)).isNone && rawOkay then some r
  else if (outCols cfg st st.mem tb r).2 then writeRow cfg tb { key := r.key, cols := (outCols cfg st st.mem tb r).1 }
  else none

/-- what the flush writes for a memstore row whose key is not in the file -/
def flushMemRow (cfg : TableCfg) (st : Store) (tb : Int) (m : Row) : Option Row :=
  writeRow cfg tb
    { key := m.key,
      cols := (mergeMemCols cfg.fields st.memFields cfg.res tb (cfg.fields.map (fun _ => none)) m.cols).1 }

def fileSameB (cfg : TableCfg) (st : Store) : Bool :=
  st.fileFields.length == cfg.fields.length &&
    (st.fileFields.zip cfg.fields).all (fun (f, o) => match f with | some f => f.same o | none => false)

def rawOkayB (cfg : TableCfg) (st : Store) : Bool := !(st.flushCount % 10 == 9) && fileSameB cfg st

theorem flush_unfold (cfg : TableCfg) (st : Store) (sorted : Bool) :
    st.flush cfg sorted =
      if st.mem.isEmpty then st
      else
        let tb := st.now - cfg.retention
        let fromFile := (st.file.getD []).foldl (flushStep cfg st tb (rawOkayB cfg st)) (([] : List Row), false)
        let rest := if fromFile.2 then [] else
          st.mem.filter (fun m => !((st.file.getD []).any (fun r => r.key == m.key)))
        { st with
          mem := [], memFields := cfg.fields,
          file := some (fromFile.1 ++ rest.filterMap (flushMemRow cfg st tb)),
          fileFields := cfg.fields.map some,
          flushCount := st.flushCount + 1 } := rfl

theorem flushStep_eq (cfg : TableCfg) (st : Store) (tb : Int) (rawOkay : Bool) (acc : List Row) (r : Row) :
    flushStep cfg st tb rawOkay (acc, false) r =
      (acc ++ (flushFileRow cfg st tb rawOkay r).toList, false) := by
  unfold flushStep flushFileRow outCols
  simp only [Bool.false_eq_true, if_false]
  by_cases h1 : ((st.mem.find? (fun m => m.key == r.key)).isNone && rawOkay) = true
  · simp only [h1, if_true, Option.toList_some]
  · simp only [h1, if_false]
    cases hms : st.mem.find? (fun m => m.key == r.key) with
    | none =>
      simp only [Bool.or_false]
      by_cases h2 : (mapFileCols cfg.fields st.fileFields r.cols).2 = true
      · simp only [h2, if_true]
        cases writeRow cfg tb _ <;> simp
      · simp only [h2, if_false]; simp
    | some m =>
      simp only
      by_cases h2 : ((mapFileCols cfg.fields st.fileFields r.cols).2 ||
          (mergeMemCols cfg.fields st.memFields cfg.res tb (mapFileCols cfg.fields st.fileFields r.cols).1 m.cols).2) = true
      · simp only [h2, if_true]
        cases writeRow cfg tb _ <;> simp
      · simp only [h2, if_false]; simp

theorem flushFold_eq (cfg : TableCfg) (st : Store) (tb : Int) (rawOkay : Bool) (rows : List Row) :
    ∀ acc : List Row, rows.foldl (flushStep cfg st tb rawOkay) (acc, false) =
      (acc ++ rows.filterMap (flushFileRow cfg st tb rawOkay), false) := by
  induction rows with
  | nil => intro acc; simp
  | cons r rows ih =>
    intro acc
    rw [List.foldl_cons, flushStep_eq, ih]
    cases h : flushFileRow cfg st tb rawOkay r with
    | none => rw [List.filterMap_cons_none h]; simp
    | some w => rw [List.filterMap_cons_some h]; simp

/-- `Store.flush` with a non-empty memstore, loop-free -/
theorem flush_eq (cfg : TableCfg) (st : Store) (sorted : Bool) (hne : st.mem.isEmpty = false) :
    st.flush cfg sorted =
      { st with
        mem := [], memFields := cfg.fields,
        file := some ((st.file.getD []).filterMap (flushFileRow cfg st (st.now - cfg.retention) (rawOkayB cfg st)) ++
          (st.mem.filter (fun m => !((st.file.getD []).any (fun r => r.key == m.key)))).filterMap
            (flushMemRow cfg st (st.now - cfg.retention))),
        fileFields := cfg.fields.map some,
        flushCount := st.flushCount + 1 } := by
  rw [flush_unfold, hne]
  simp only [Bool.false_eq_true, if_false, flushFold_eq, List.nil_append]

theorem writeRow_key {cfg : TableCfg} {tb : Int} {r w : Row} (h : writeRow cfg tb r = some w) : w.key = r.key := by
  unfold writeRow at h
  simp only at h
  split at h
  · simp only [Option.some.injEq] at h; rw [← h]
  · exact absurd h (by simp)

theorem flushFileRow_key (cfg : TableCfg) (st : Store) (tb : Int) (rawOkay : Bool) (r w : Row)
    (h : flushFileRow cfg st tb rawOkay r = some w) : w.key = r.key := by
  unfold flushFileRow at h
  split at h
  · simp only [Option.some.injEq] at h; rw [← h]
  · split at h
    · have := writeRow_key h; exact this
    · exact absurd h (by simp)

theorem flushMemRow_key (cfg : TableCfg) (st : Store) (tb : Int) (m w : Row)
    (h : flushMemRow cfg st tb m = some w) : w.key = m.key := by
  unfold flushMemRow at h
  have := writeRow_key h; exact this

/-! ### `Store.iterate` -/

def iterStep (cfg : TableCfg) (st : Store) (outFields : List Field) (mem : List Row) (tb : Int)
    (acc : ScanOut) (r : Row) : ScanOut :=
  if acc.stopped then acc
  else
    let (cols, inc1) := mapFileCols outFields st.fileFields r.cols
    let ms := mem.find? (fun m => m.key == r.key)
    let (cols, inc2) := match ms with
      | some m => mergeMemCols outFields st.memFields cfg.res tb cols m.cols
      | none => (cols, false)
    if inc1 || inc2 then { acc with rows := acc.rows ++ [{ key := r.key, cols := cols }] }
    else acc

def iterFileRow (cfg : TableCfg) (st : Store) (mem : List Row) (tb : Int) (r : Row) : Option Row :=
  if (outCols cfg st mem tb r).2 then some { key := r.key, cols := (outCols cfg st mem tb r).1 } else none

def iterMemRow (cfg : TableCfg) (st : Store) (tb : Int) (m : Row) : Row :=
  { key := m.key,
    cols := (mergeMemCols cfg.fields st.memFields cfg.res tb (cfg.fields.map (fun _ => none)) m.cols).1 }

theorem iterate_unfold (cfg : TableCfg) (st : Store) (outFields : List Field) (includeMem : Bool) :
    st.iterate cfg outFields includeMem =
      let tb := st.now - cfg.retention
      let mem := if includeMem then st.mem else []
      let fileOut := (st.file.getD []).foldl (iterStep cfg st outFields mem tb) ({} : ScanOut)
      if fileOut.stopped then fileOut
      else
        let rest := mem.filter (fun m => !((st.file.getD []).any (fun r => r.key == m.key)))
        let memOut := rest.map (fun m =>
          ({ key := m.key,
             cols := (mergeMemCols outFields st.memFields cfg.res tb (outFields.map (fun _ => none)) m.cols).1 } : Row))
        { fileOut with rows := fileOut.rows ++ memOut } := rfl

theorem iterStep_eq (cfg : TableCfg) (st : Store) (mem : List Row) (tb : Int) (acc : List Row) (r : Row) :
    iterStep cfg st cfg.fields mem tb { rows := acc, stopped := false } r =
      { rows := acc ++ (iterFileRow cfg st mem tb r).toList, stopped := false } := by
  unfold iterStep iterFileRow outCols
  simp only [Bool.false_eq_true, if_false]
  cases hms : mem.find? (fun m => m.key == r.key) with
  | none =>
    simp only [Bool.or_false]
    by_cases h2 : (mapFileCols cfg.fields st.fileFields r.cols).2 = true
    · simp only [h2, if_true, Option.toList_some]
    · simp only [h2, if_false]; simp
  | some m =>
    simp only
    by_cases h2 : ((mapFileCols cfg.fields st.fileFields r.cols).2 ||
        (mergeMemCols cfg.fields st.memFields cfg.res tb (mapFileCols cfg.fields st.fileFields r.cols).1 m.cols).2) = true
    · simp only [h2, if_true, Option.toList_some]
    · simp only [h2, if_false]; simp

theorem iterFold_eq (cfg : TableCfg) (st : Store) (mem : List Row) (tb : Int) (rows : List Row) :
    ∀ acc : List Row, rows.foldl (iterStep cfg st cfg.fields mem tb) { rows := acc, stopped := false } =
      { rows := acc ++ rows.filterMap (iterFileRow cfg st mem tb), stopped := false } := by
  induction rows with
  | nil => intro acc; simp
  | cons r rows ih =>
    intro acc
    rw [List.foldl_cons, iterStep_eq, ih]
    cases h : iterFileRow cfg st mem tb r with
    | none => rw [List.filterMap_cons_none h]; simp
    | some w => rw [List.filterMap_cons_some h]; simp

/-- the rows of a scan of all the table's fields, loop-free -/
theorem iterate_rows (cfg : TableCfg) (st : Store) (includeMem : Bool) :
    (st.iterate cfg cfg.fields includeMem).rows =
      (st.file.getD []).filterMap (iterFileRow cfg st (if includeMem then st.mem else []) (st.now - cfg.retention)) ++
      ((if includeMem then st.mem else []).filter
          (fun m => !((st.file.getD []).any (fun r => r.key == m.key)))).map
        (iterMemRow cfg st (st.now - cfg.retention)) := by
  rw [iterate_unfold]
  have h0 : ({} : ScanOut) = { rows := [], stopped := false } := rfl
  simp only [h0, iterFold_eq, Bool.false_eq_true, if_false, List.nil_append]
  rfl

theorem iterFileRow_key (cfg : TableCfg) (st : Store) (mem : List Row) (tb : Int) (r w : Row)
    (h : iterFileRow cfg st mem tb r = some w) : w.key = r.key := by
  unfold iterFileRow at h
  split at h
  · simp only [Option.some.injEq] at h; rw [← h]
  · exact absurd h (by simp)

end Zeno
