/-
Helper lemmas for C13, part 3: collectors, emit loops, the mock source and the file store.
-/
import ZenoModel.Lemmas.ReportOps

namespace Zeno.Report

/-! ## building `Polite` -/

theorem Polite.nil {σ : Type} (s : Sink σ) (st : σ) : Polite s st [] st :=
  ⟨0, Reply.proceed, Fed.nil st, rfl, fun _ => Nat.le_refl _⟩

theorem Polite.cons {σ : Type} {s : Sink σ} {st st1 st' : σ} {now : Nat} {d : Nat} {r : Row} {rs : List Row}
    {rep1 : Reply} (hr : s.onRow st now r = (st1, d, rep1)) (hk : rep1.ok = true)
    (h : Polite s st1 rs st') : Polite s st (r :: rs) st' := by
  obtain ⟨m, rep, hf, he, hc⟩ := h
  exact ⟨m + 1, rep, by simpa using Fed.cons hr hk hf, he, fun hm => by simpa using hc hm⟩

theorem Polite.stop {σ : Type} {s : Sink σ} {st st' : σ} {now : Nat} {d : Nat} {r : Row} (rs : List Row)
    {rep : Reply} (hr : s.onRow st now r = (st', d, rep)) (hk : rep.ok = false) (he : rep.err = none) :
    Polite s st (r :: rs) st' :=
  ⟨1, rep, by simpa using Fed.last hr hk, he, fun hm => by
    rw [Reply.ok_false_noerr hk he] at hm; cases hm⟩

/-- feeding a prefix of a prefix -/
theorem Polite.of_take {σ : Type} {s : Sink σ} {st st' : σ} {l : List Row} {k : Nat}
    (h : Polite s st (l.take k) st') (hfull : l.length ≤ k ∨ ∃ m rep, Fed s st ((l.take k).take m) st' rep ∧ rep.err = none ∧ rep.more = false) :
    Polite s st l st' := by
  rcases hfull with hk | ⟨m, rep, hf, he, hm⟩
  · rwa [List.take_of_length_le hk] at h
  · refine ⟨min m k, rep, ?_, he, fun h' => by rw [hm] at h'; cases h'⟩
    rwa [List.take_take] at hf

/-! ## collectors -/

theorem collect_fed (g : Guard) : ∀ (rows : List Row) (acc acc' : List Row) (rep : Reply),
    Fed (collectSink g) acc rows acc' rep → acc' = acc ++ rows ∧ (rep = Reply.proceed ∨ rep = Reply.fail .deadline) := by
  intro rows acc acc' rep h
  induction h with
  | nil _ => simp
  | last hr _ =>
    simp only [collectSink, Prod.mk.injEq] at hr
    obtain ⟨rfl, _, rfl⟩ := hr
    exact ⟨rfl, g.proceed_cases _⟩
  | cons hr _ _ ih =>
    simp only [collectSink, Prod.mk.injEq] at hr
    obtain ⟨rfl, _, _⟩ := hr
    obtain ⟨h1, h2⟩ := ih
    exact ⟨by simp [h1], h2⟩

theorem collect_polite (g : Guard) {acc acc' l : List Row} (h : Polite (collectSink g) acc l acc') :
    acc' = acc ++ l := by
  obtain ⟨m, rep, hf, he, hc⟩ := h
  obtain ⟨h1, h2⟩ := collect_fed g _ _ _ _ hf
  have : rep = Reply.proceed := by
    rcases h2 with h | h
    · exact h
    · rw [h] at he; simp [Reply.fail] at he
  have hm := hc (by rw [this]; rfl)
  rw [h1, List.take_of_length_le hm]

theorem dim_fed (dimOf : Row → Nat) : ∀ (rows : List Row) (acc acc' : List Nat) (rep : Reply),
    Fed (dimSink dimOf) acc rows acc' rep → acc' = acc ++ rows.map dimOf ∧ rep = Reply.proceed := by
  intro rows acc acc' rep h
  induction h with
  | nil _ => simp
  | last hr hk =>
    simp only [dimSink, Prod.mk.injEq] at hr
    obtain ⟨_, _, rfl⟩ := hr
    simp [Reply.ok, Reply.proceed] at hk
  | cons hr _ _ ih =>
    simp only [dimSink, Prod.mk.injEq] at hr
    obtain ⟨rfl, _, _⟩ := hr
    obtain ⟨h1, h2⟩ := ih
    exact ⟨by simp [h1], h2⟩

theorem dim_polite (dimOf : Row → Nat) {acc acc' : List Nat} {l : List Row} (h : Polite (dimSink dimOf) acc l acc') :
    acc' = acc ++ l.map dimOf := by
  obtain ⟨m, rep, hf, _, hc⟩ := h
  obtain ⟨h1, h2⟩ := dim_fed dimOf _ _ _ _ hf
  have hm := hc (by rw [h2]; rfl)
  rw [h1, List.take_of_length_le hm]

/-! ## mock source -/

theorem mock_polite {σ : Type} (s : Sink σ) (failAt : Option Nat) (sleepAt : Option (Nat × Nat)) :
    ∀ (rows : List Row) (i : Nat) (st : σ) (now : Nat) (st' : σ) (d : Nat) (e : Option Err),
      mockLoop s failAt sleepAt i st now rows = (st', d, e) → e = none → Polite s st rows st'
  | [], i, st, now, st', d, e, h, _ => by
    simp only [mockLoop, Prod.mk.injEq] at h
    obtain ⟨rfl, _, _⟩ := h
    exact Polite.nil s st
  | r :: rs, i, st, now, st', d, e, h, he => by
    unfold mockLoop at h
    by_cases hf : (failAt == some i) = true
    · rw [if_pos hf] at h
      simp only [Prod.mk.injEq] at h
      obtain ⟨_, _, h3⟩ := h
      rw [he] at h3; cases h3
    · rw [if_neg hf] at h
      generalize sleepFor sleepAt i = d0 at h
      generalize hr : s.onRow st (now + d0) r = res at h
      obtain ⟨st1, d1, rep⟩ := res
      simp only at h
      by_cases hk : rep.ok = true
      · rw [if_pos hk] at h
        simp only [Prod.mk.injEq] at h
        obtain ⟨h1, _, h3⟩ := h
        have := mock_polite s failAt sleepAt rs (i + 1) st1 (now + d0 + d1) st' _ e (by rw [← h1, ← h3]) he
        exact Polite.cons hr hk this
      · rw [if_neg hk] at h
        simp only [Prod.mk.injEq] at h
        obtain ⟨rfl, _, h3⟩ := h
        exact Polite.stop rs hr (by simpa using hk) (by rw [h3, he])

/-! ## emit loops of sort and group -/

theorem sortEmit_polite {σ : Type} (g : Guard) (s : Sink σ) :
    ∀ (rows : List Row) (st : σ) (now : Nat) (st' : σ) (d : Nat) (e : Option Err),
      sortEmit g s st now rows = (st', d, e) → e = none → Polite s st rows st'
  | [], st, now, st', d, e, h, _ => by
    simp only [sortEmit, Prod.mk.injEq] at h
    obtain ⟨rfl, _, _⟩ := h
    exact Polite.nil s st
  | r :: rs, st, now, st', d, e, h, he => by
    unfold sortEmit at h
    by_cases ht : g.timedOut now = true
    · rw [if_pos ht] at h
      simp only [Prod.mk.injEq] at h
      rw [he] at h; exact absurd h.2.2 (by simp)
    · rw [if_neg ht] at h
      generalize hr : s.onRow st now r = res at h
      obtain ⟨st1, d1, rep⟩ := res
      simp only at h
      cases hre : rep.err with
      | some e' =>
        rw [hre] at h
        simp only [Prod.mk.injEq] at h
        rw [he] at h; exact absurd h.2.2 (by simp)
      | none =>
        rw [hre] at h
        simp only at h
        by_cases hm : rep.more = true
        · have hk : rep.ok = true := by simp [Reply.ok, hm, hre]
          simp only [hm, Bool.not_true, Bool.false_eq_true, if_false, Prod.mk.injEq] at h
          obtain ⟨h1, _, h3⟩ := h
          have := sortEmit_polite g s rs st1 (now + d1) st' _ e (by rw [← h1, ← h3]) he
          exact Polite.cons hr hk this
        · have hm' : rep.more = false := by simpa using hm
          simp only [hm', Bool.not_false, if_true, Prod.mk.injEq] at h
          obtain ⟨rfl, _, _⟩ := h
          exact Polite.stop rs hr (by simp [Reply.ok, hm']) hre

theorem groupWalk_polite {σ : Type} (g : Guard) (s : Sink σ) :
    ∀ (rows : List Row) (st : σ) (now : Nat) (st' : σ) (d : Nat) (e : Option Err),
      groupWalk g s st now rows = (st', d, e) → e = none → Polite s st rows st'
  | [], st, now, st', d, e, h, _ => by
    simp only [groupWalk, Prod.mk.injEq] at h
    obtain ⟨rfl, _, _⟩ := h
    exact Polite.nil s st
  | r :: rs, st, now, st', d, e, h, he => by
    unfold groupWalk at h
    generalize hr : s.onRow st now r = res at h
    obtain ⟨st1, d1, rep0⟩ := res
    simp only at h
    by_cases hc : (rep0.err.isNone && g.timedOut (now + d1)) = true
    · -- the deadline fired after the row: the walk ends with an error
      rw [if_pos hc] at h
      simp only [Reply.fail, Reply.ok, Bool.false_and, Bool.false_eq_true, if_false, Prod.mk.injEq] at h
      rw [he] at h; exact absurd h.2.2 (by simp)
    · rw [if_neg hc] at h
      by_cases hk : rep0.ok = true
      · rw [if_pos hk] at h
        simp only [Prod.mk.injEq] at h
        obtain ⟨h1, _, h3⟩ := h
        have := groupWalk_polite g s rs st1 (now + d1) st' _ e (by rw [← h1, ← h3]) he
        exact Polite.cons hr hk this
      · rw [if_neg hk] at h
        simp only [Prod.mk.injEq] at h
        obtain ⟨rfl, _, h3⟩ := h
        exact Polite.stop rs hr (by simpa using hk) (by rw [h3, he])

/-- the deadline having passed, a non-empty walk ends with an error -/
theorem groupWalk_timedOut {σ : Type} (g : Guard) (s : Sink σ) (r : Row) (rs : List Row) (st : σ) (now : Nat)
    (ht : g.timedOut now = true) : (groupWalk g s st now (r :: rs)).2.2 ≠ none := by
  unfold groupWalk
  generalize s.onRow st now r = res
  obtain ⟨st1, d1, rep0⟩ := res
  have ht' : g.timedOut (now + d1) = true := by
    unfold Guard.timedOut at ht ⊢
    cases hd : g.deadline with
    | none => rw [hd] at ht; cases ht
    | some dl =>
      rw [hd] at ht
      simp only [decide_eq_true_eq] at ht ⊢
      exact Nat.lt_of_lt_of_le ht (Nat.le_add_right _ _)
  simp only
  cases hre : rep0.err with
  | none => simp [ht', Reply.fail, Reply.ok]
  | some e' => simp [Reply.ok, hre]

/-! ## file store (after the fixes for D3 and D15) -/

def fileRows (file : List (Row × Bool)) : List Row := (file.filter (·.2)).map (·.1)

theorem fileLoop_fed {σ : Type} (s : Sink σ) :
    ∀ (file : List (Row × Bool)) (st : σ) (now : Nat) (st' : σ) (d : Nat) (r : Option (Option Err)),
      fileLoop true s st now file = (st', d, r) →
      ∃ m rep, m ≤ (fileRows file).length ∧ Fed s st ((fileRows file).take m) st' rep ∧
        (r = none → rep.ok = true ∧ m = (fileRows file).length) ∧
        (∀ e, r = some e → rep.ok = false ∧ rep.err = e)
  | [], st, now, st', d, r, h => by
    simp only [fileLoop, Prod.mk.injEq] at h
    obtain ⟨rfl, _, rfl⟩ := h
    exact ⟨0, Reply.proceed, by simp [fileRows], by simpa [fileRows] using Fed.nil st, (fun _ => ⟨rfl, by simp [fileRows]⟩), (fun e he => by cases he)⟩
  | (row, incl) :: rest, st, now, st', d, r, h => by
    unfold fileLoop at h
    cases incl with
    | false =>
      simp only [Bool.false_eq_true, if_false, if_true] at h
      have hfr : fileRows ((row, false) :: rest) = fileRows rest := by simp [fileRows]
      rw [hfr]
      exact fileLoop_fed s rest st now st' d r h
    | true =>
      have hfr : fileRows ((row, true) :: rest) = row :: fileRows rest := by simp [fileRows]
      rw [hfr]
      generalize hr : s.onRow st now row = res at h
      obtain ⟨st1, d1, rep1⟩ := res
      simp only [if_true] at h
      by_cases hk : rep1.ok = true
      · rw [if_pos hk] at h
        simp only [Prod.mk.injEq] at h
        obtain ⟨h1, _, h3⟩ := h
        obtain ⟨m, rep, hm, hf, hn, hs⟩ := fileLoop_fed s rest st1 (now + d1) st' _ r (by rw [← h1, ← h3])
        refine ⟨m + 1, rep, by simpa using hm, by simpa using Fed.cons hr hk hf, ?_, hs⟩
        intro h0; obtain ⟨a, b⟩ := hn h0; exact ⟨a, by simp [b]⟩
      · rw [if_neg hk] at h
        simp only [Prod.mk.injEq] at h
        obtain ⟨rfl, _, rfl⟩ := h
        have hk' : rep1.ok = false := by simpa using hk
        refine ⟨1, rep1, by simp, by simpa using Fed.last hr hk', (fun h0 => by cases h0), ?_⟩
        intro e he
        simp only [Option.some.injEq] at he
        exact ⟨hk', he⟩

/-- file rows that map none of the requested columns are passed over without any callback and
    without any look at the deadline (row_store.go: `if !includesAtLeastOneColumn { continue }`;
    the only guard of the scan is `guard.ProceedAfter(onValue(..))`, after a delivered row) -/
theorem fileLoop_all_skipped {σ : Type} (s : Sink σ) (st : σ) :
    ∀ (file : List (Row × Bool)) (now : Nat), (∀ x, x ∈ file → x.2 = false) → fileLoop true s st now file = (st, 0, none)
  | [], _, _ => rfl
  | (row, incl) :: rest, now, h => by
    have hi : incl = false := h (row, incl) (by simp)
    subst hi
    unfold fileLoop
    simp only [Bool.false_eq_true, if_false, if_true]
    exact fileLoop_all_skipped s st rest now (fun x hx => h x (by simp [hx]))

theorem fileStore_all_skipped {σ : Type} (cfg : Cfg) (h15 : cfg.d15 = true) (t : Table) (s : Sink σ) (st : σ) (now : Nat)
    (hf : ∀ x, x ∈ t.file → x.2 = false) (hm : t.includeMem = false ∨ t.mem = []) :
    fileStoreIterate cfg t s st now = (st, 0, none) := by
  unfold fileStoreIterate
  rw [h15, fileLoop_all_skipped s st t.file now hf]
  rcases hm with h | h
  · simp [h]
  · by_cases hi : t.includeMem = true
    · simp [hi, h, feed, Reply.proceed]
    · simp [hi]

theorem Table.rows_eq (t : Table) : t.rows = fileRows t.file ++ (if t.includeMem then t.mem else []) := rfl

/-- fileStore.iterate with the fixes: the callback was fed a prefix of the table's rows, the
    returned error is the error of the reply that ended the scan -/
theorem fileStore_fed {σ : Type} (cfg : Cfg) (h3 : cfg.d3 = true) (h15 : cfg.d15 = true) (t : Table) (s : Sink σ)
    (st : σ) (now : Nat) (st' : σ) (d : Nat) (e : Option Err)
    (h : fileStoreIterate cfg t s st now = (st', d, e)) :
    ∃ m rep, Fed s st (t.rows.take m) st' rep ∧ e = rep.err ∧ (rep.ok = true → t.rows.length ≤ m) := by
  unfold fileStoreIterate at h
  rw [h15] at h
  generalize hfl : fileLoop true s st now t.file = fl at h
  obtain ⟨st1, d1, r⟩ := fl
  obtain ⟨m, rep, hm, hf, hn, hs⟩ := fileLoop_fed s t.file st now st1 d1 r hfl
  cases r with
  | some e1 =>
    simp only [Prod.mk.injEq] at h
    obtain ⟨rfl, _, rfl⟩ := h
    obtain ⟨hk, he⟩ := hs e1 rfl
    refine ⟨m, rep, ?_, he.symm, fun ho => by rw [hk] at ho; cases ho⟩
    rw [t.rows_eq, List.take_append_of_le_length hm]; exact hf
  | none =>
    obtain ⟨hk, hmm⟩ := hn rfl
    simp only at h
    by_cases hi : t.includeMem = true
    · rw [if_pos hi] at h
      generalize hfd : feed s st1 (now + d1) t.mem = fd at h
      obtain ⟨st2, d2, rep2⟩ := fd
      simp only [h3, if_true, Prod.mk.injEq] at h
      obtain ⟨rfl, _, rfl⟩ := h
      obtain ⟨m2, hm2, hf2, hc2⟩ := feed_fed s t.mem st1 (now + d1) st2 d2 rep2 hfd
      refine ⟨(fileRows t.file).length + m2, rep2, ?_, rfl, fun ho => by
        rw [t.rows_eq, if_pos hi, List.length_append, hc2 ho]; exact Nat.le_refl _⟩
      rw [t.rows_eq, if_pos hi, List.take_append, List.take_of_length_le (by omega)]
      have : (fileRows t.file).length + m2 - (fileRows t.file).length = m2 := by omega
      rw [this]
      have hf' : Fed s st (fileRows t.file) st1 rep := by
        rw [hmm] at hf; simpa using hf
      exact Fed.append hf' hk hf2
    · rw [if_neg hi] at h
      simp only [Prod.mk.injEq] at h
      obtain ⟨rfl, _, rfl⟩ := h
      have hi' : t.includeMem = false := by simpa using hi
      refine ⟨m, rep, ?_, ?_, fun _ => by rw [t.rows_eq, hi']; simp [hmm]⟩
      · rw [t.rows_eq, hi']; simpa using hf
      · rw [(Reply.ok_iff rep).1 hk]; rfl

theorem fed_polite {σ : Type} {s : Sink σ} {st st' : σ} {l : List Row} {m : Nat} {rep : Reply}
    (hf : Fed s st (l.take m) st' rep) (he : rep.err = none) (hc : rep.ok = true → l.length ≤ m) :
    Polite s st l st' :=
  ⟨m, rep, hf, he, fun hm => hc (by simp [Reply.ok, hm, he])⟩

end Zeno.Report
