/-
SubMerge semantics, part 9: the cell of an output row of `groupRows` for a selected field that is
a table field (direct sub-merger): the merge, over all scan rows whose key slices to the output
key, of the source periods of the bucket.
-/
import ZenoModel.Lemmas.SubMergeSemGroup2
set_option linter.unusedSimpArgs false
namespace Zeno

theorem foldl_congr_mem {α β : Type} (f g : β → α → β) :
    ∀ (l : List α) (c : β), (∀ c, ∀ a ∈ l, f c a = g c a) → l.foldl f c = l.foldl g c := by
  intro l
  induction l with
  | nil => intro c _; rfl
  | cons a l ih =>
    intro c h
    simp only [List.foldl_cons]
    rw [h c a (by simp)]
    exact ih _ (fun c a' ha' => h c a' (by simp [ha']))

/-- the scan rows whose key slices to `k` (agree with `k` on the kept dims), in scan order -/
def groupMembers (q : Query) (rows : List Row) (k : Key) : List Row :=
  rows.filter (fun r => gSlice q r.key == k)

/-- a scan row as a source: its column `j` and its metadata -/
def srcOf (metas : List KeyMeta) (j : Nat) (r : Row) : Src := (r.cols.getD j none, rowPt metas r)

/-- the sources of the group `k` -/
def groupSrcs (q : Query) (metas : List KeyMeta) (rows : List Row) (k : Key) (j : Nat) : List Src :=
  (groupMembers q rows k).map (srcOf metas j)

/-- column `i` of the output row with key `k` is the successive `SubMerge` of column `j` of the
    scan rows whose key slices to `k` -/
theorem groupRows_col (cfg : TableCfg) (now : Int) (q : Query) (pl : Plan) (inFields : List Field)
    (metas : List KeyMeta) (rows : List Row) (hstride : pl.strideSlice = 0)
    (i : Nat) (f : Field) (hf : q.outFields[i]? = some f) (j : Nat) (inF : Field)
    (hin : inFields[j]? = some inF) (hex : inF.ex = f.ex)
    (hone : OneHot (dedupInputs (inFields.map (·.ex)) (f.ex.subMergers (inFields.map (·.ex)))) j f.ex)
    (hrows : ∀ r ∈ rows, j < r.cols.length) (k : Key) :
    (colsOf (q.outFields.map (fun _ => (none : Sq))) (groupRows cfg now q pl inFields metas rows).1 k).getD i none =
      subMergeAll f.ex (gResOf cfg pl) cfg.res (gAsOfOf cfg now pl) (gUntilOf cfg now pl)
        (groupSrcs q metas rows k j) none := by
  rw [groupRows_eq, colsOf_foldl _ (gSlice q) (groupUpd cfg now q pl inFields metas) k rows []]
  have h0 : colsOf (q.outFields.map (fun _ => (none : Sq))) [] k = q.outFields.map (fun _ => (none : Sq)) := rfl
  rw [h0, getD_groupUpd_foldl cfg now q pl inFields metas i f hf _ _ (by simp)]
  have hnone : (q.outFields.map (fun _ => (none : Sq))).getD i none = none := by
    rw [List.getD_eq_getElem?_getD, List.getElem?_map]
    cases q.outFields[i]? <;> rfl
  rw [hnone]
  unfold subMergeAll groupSrcs groupMembers srcOf
  rw [List.foldl_map]
  apply foldl_congr_mem
  intro c r hr
  have hrm : r ∈ rows := (List.mem_filter.mp hr).1
  have hcol : r.cols[j]? = some (r.cols.getD j none) := by
    rw [List.getD_eq_getElem?_getD, List.getElem?_eq_getElem (hrows r hrm)]; rfl
  rw [colStep_onehot f _ inFields _ _ _ _ _ _ c r.cols j f.ex inF _ hone hin hcol, hex, hstride]

/-- STAGE 2: the cell (output key `k`, field `i`, out period `T`) of `groupRows` -/
theorem sem_groupRows_lem (cfg : TableCfg) (now : Int) (q : Query) (pl : Plan) (inFields : List Field)
    (metas : List KeyMeta) (rows : List Row) (hstride : pl.strideSlice = 0) {kk : Nat}
    (w : SMWindow (gResOf cfg pl) cfg.res kk (gAsOfOf cfg now pl) (gUntilOf cfg now pl))
    (i : Nat) (f : Field) (hf : q.outFields[i]? = some f)
    (hv : f.ex.valid = true) (hp : f.ex.noPtile = true) (hs : f.ex.shiftOf = 0)
    (j : Nat) (inF : Field) (hin : inFields[j]? = some inF) (hex : inF.ex = f.ex)
    (hone : OneHot (dedupInputs (inFields.map (·.ex)) (f.ex.subMergers (inFields.map (·.ex)))) j f.ex)
    (hrows : ∀ r ∈ rows, j < r.cols.length ∧ SqOk cfg.res (r.cols.getD j none) ∧ SqWF f.ex (r.cols.getD j none))
    (k : Key) (T : Int) (hT : (gUntilOf cfg now pl - T) % gResOf cfg pl = 0) :
    ((colsOf (q.outFields.map (fun _ => (none : Sq))) (groupRows cfg now q pl inFields metas rows).1 k).getD i none).at
        f.ex (gResOf cfg pl) T =
      if gAsOfOf cfg now pl < T ∧ T ≤ gUntilOf cfg now pl
      then mergeAllOnto f.ex cfg.res (groupSrcs q metas rows k j)
        (bucketTimes cfg.res kk (gAsOfOf cfg now pl) (gUntilOf cfg now pl) T) f.ex.empty
      else f.ex.empty := by
  rw [groupRows_col cfg now q pl inFields metas rows hstride i f hf j inF hin hex hone
    (fun r hr => (hrows r hr).1) k]
  have hall : ∀ op ∈ groupSrcs q metas rows k j, SqOk cfg.res op.1 ∧ SqWF f.ex op.1 := by
    intro op hop
    unfold groupSrcs groupMembers srcOf at hop
    obtain ⟨r, hr, rfl⟩ := List.mem_map.mp hop
    exact (hrows r (List.mem_filter.mp hr).1).2
  have h := (sem_subMergeAll_lem hv hp hs w (groupSrcs q metas rows k j) none hall trivial
    (fun _ _ => rfl)).2 T hT
  rw [h, at_none]

/-- … and read on raw points: if every contributing stored state is the accumulation of the raw
    points of its (row key, period), the cell is the accumulation of all raw points of the bucket -/
theorem sem_groupRows_points_lem (x : Ext) (cfg : TableCfg) (now : Int) (q : Query) (pl : Plan)
    (inFields : List Field) (metas : List KeyMeta) (rows : List Row) (hstride : pl.strideSlice = 0) {kk : Nat}
    (w : SMWindow (gResOf cfg pl) cfg.res kk (gAsOfOf cfg now pl) (gUntilOf cfg now pl))
    (i : Nat) (f : Field) (hf : q.outFields[i]? = some f)
    (hv : f.ex.valid = true) (hp : f.ex.noPtile = true) (hs : f.ex.shiftOf = 0)
    (j : Nat) (inF : Field) (hin : inFields[j]? = some inF) (hex : inF.ex = f.ex)
    (hone : OneHot (dedupInputs (inFields.map (·.ex)) (f.ex.subMergers (inFields.map (·.ex)))) j f.ex)
    (hrows : ∀ r ∈ rows, j < r.cols.length ∧ SqOk cfg.res (r.cols.getD j none) ∧ SqWF f.ex (r.cols.getD j none))
    (k : Key) (T : Int) (hT : (gUntilOf cfg now pl - T) % gResOf cfg pl = 0)
    (hW : gAsOfOf cfg now pl < T ∧ T ≤ gUntilOf cfg now pl)
    (pts : Row → Int → List Pt)
    (hstore : ∀ r ∈ groupMembers q rows k,
      ∀ t ∈ bucketTimes cfg.res kk (gAsOfOf cfg now pl) (gUntilOf cfg now pl) T,
        (r.cols.getD j none).at f.ex cfg.res t = f.ex.acc x (pts r t)) :
    ((colsOf (q.outFields.map (fun _ => (none : Sq))) (groupRows cfg now q pl inFields metas rows).1 k).getD i none).at
        f.ex (gResOf cfg pl) T =
      f.ex.acc x (memberPoints pts (groupMembers q rows k)
        (bucketTimes cfg.res kk (gAsOfOf cfg now pl) (gUntilOf cfg now pl) T)) := by
  rw [sem_groupRows_lem cfg now q pl inFields metas rows hstride w i f hf hv hp hs j inF hin hex hone hrows k T hT,
    if_pos hW]
  have := mergeAllOnto_acc x hv hp cfg.res (srcOf metas j) pts _ (groupMembers q rows k) [] hstore
  simpa [Ex.acc, groupSrcs] using this

/-- the output rows: one per sliced key of the scan rows, none twice; each row holds the columns
    `colsOf` reads -/
theorem groupRows_keys (cfg : TableCfg) (now : Int) (q : Query) (pl : Plan) (inFields : List Field)
    (metas : List KeyMeta) (rows : List Row) :
    ((groupRows cfg now q pl inFields metas rows).1.map (·.key)).Nodup ∧
      ∀ k, k ∈ (groupRows cfg now q pl inFields metas rows).1.map (·.key) ↔ ∃ r ∈ rows, gSlice q r.key = k := by
  rw [groupRows_eq]
  obtain ⟨h1, h2⟩ := keys_foldl (gSlice q)
    (fun out r => groupUpd cfg now q pl inFields metas
      (colsOf (q.outFields.map (fun _ => (none : Sq))) out (gSlice q r.key)) r) rows [] (by simp)
  exact ⟨h1, fun k => by rw [h2 k]; simp⟩

theorem colsOf_mem (init : List Sq) : ∀ (out : List Row), (out.map (·.key)).Nodup → ∀ o ∈ out,
    colsOf init out o.key = o.cols := by
  intro out
  induction out with
  | nil => intro _ o ho; simp at ho
  | cons a out ih =>
    intro hnd o ho
    unfold colsOf
    rw [List.find?_cons]
    by_cases hk : (a.key == o.key) = true
    · rw [hk]
      simp only
      rw [List.mem_cons] at ho
      cases ho with
      | inl h => rw [h]
      | inr h =>
        exfalso
        simp only [List.map_cons, List.nodup_cons] at hnd
        apply hnd.1
        rw [beq_iff_eq] at hk
        rw [hk]
        exact List.mem_map.mpr ⟨o, h, rfl⟩
    · have hk' : (a.key == o.key) = false := by cases h : (a.key == o.key) <;> simp_all
      rw [hk']
      simp only
      rw [List.mem_cons] at ho
      cases ho with
      | inl h => rw [h] at hk'; simp at hk'
      | inr h =>
        simp only [List.map_cons, List.nodup_cons] at hnd
        exact ih hnd.2 o h

/-- the cell column lies on the out grid and holds nothing outside the window (for ANY `T`, on the
    grid or not) -/
theorem groupRows_cell_inv (cfg : TableCfg) (now : Int) (q : Query) (pl : Plan) (inFields : List Field)
    (metas : List KeyMeta) (rows : List Row) (hstride : pl.strideSlice = 0) {kk : Nat}
    (w : SMWindow (gResOf cfg pl) cfg.res kk (gAsOfOf cfg now pl) (gUntilOf cfg now pl))
    (i : Nat) (f : Field) (hf : q.outFields[i]? = some f)
    (hv : f.ex.valid = true) (hp : f.ex.noPtile = true) (hs : f.ex.shiftOf = 0)
    (j : Nat) (inF : Field) (hin : inFields[j]? = some inF) (hex : inF.ex = f.ex)
    (hone : OneHot (dedupInputs (inFields.map (·.ex)) (f.ex.subMergers (inFields.map (·.ex)))) j f.ex)
    (hrows : ∀ r ∈ rows, j < r.cols.length ∧ SqOk cfg.res (r.cols.getD j none) ∧ SqWF f.ex (r.cols.getD j none))
    (k : Key) :
    RecvGrid f.ex (gResOf cfg pl) (gUntilOf cfg now pl)
      ((colsOf (q.outFields.map (fun _ => (none : Sq))) (groupRows cfg now q pl inFields metas rows).1 k).getD i none) ∧
    InWindow f.ex (gResOf cfg pl) (gAsOfOf cfg now pl) (gUntilOf cfg now pl)
      ((colsOf (q.outFields.map (fun _ => (none : Sq))) (groupRows cfg now q pl inFields metas rows).1 k).getD i none) := by
  rw [groupRows_col cfg now q pl inFields metas rows hstride i f hf j inF hin hex hone
    (fun r hr => (hrows r hr).1) k]
  have hall : ∀ op ∈ groupSrcs q metas rows k j, SqOk cfg.res op.1 ∧ SqWF f.ex op.1 := by
    intro op hop
    unfold groupSrcs groupMembers srcOf at hop
    obtain ⟨r, hr, rfl⟩ := List.mem_map.mp hop
    exact (hrows r (List.mem_filter.mp hr).1).2
  exact (sem_subMergeAll_lem hv hp hs w (groupSrcs q metas rows k j) none hall trivial (fun _ _ => rfl)).1

/-- the cell column (output key `k`, selected field `i`) of `groupRows` -/
def groupCell (cfg : TableCfg) (now : Int) (q : Query) (pl : Plan) (inFields : List Field)
    (metas : List KeyMeta) (rows : List Row) (k : Key) (i : Nat) : Sq :=
  (colsOf (q.outFields.map (fun _ => (none : Sq))) (groupRows cfg now q pl inFields metas rows).1 k).getD i none

/-- the side conditions under which the cell column `i` of `groupRows` is characterised: the
    selected field `f` (`i`-th of the query) is the `j`-th scanned table field, sub-merged directly -/
structure GroupCell (cfg : TableCfg) (now : Int) (q : Query) (pl : Plan) (inFields : List Field)
    (rows : List Row) (kk : Nat) (i : Nat) (f : Field) (j : Nat) : Prop where
  /-- no STRIDE -/
  noStride : pl.strideSlice = 0
  /-- resolutions and window as `planLocal` produces them (`planLocal_establishes_window`) -/
  window : SMWindow (gResOf cfg pl) cfg.res kk (gAsOfOf cfg now pl) (gUntilOf cfg now pl)
  /-- `f` is the `i`-th selected field -/
  outField : q.outFields[i]? = some f
  /-- `Validate()` accepts it, no PERCENTILE, no SHIFT -/
  valid : f.ex.valid = true
  noPtile : f.ex.noPtile = true
  noShift : f.ex.shiftOf = 0
  /-- the `j`-th scanned field has the same expression … -/
  inField : ∃ inF, inFields[j]? = some inF ∧ inF.ex = f.ex
  /-- … and is the only one with a sub-merger for `f`, the direct one
      (`direct_submerger_of_table_aggregate`) -/
  oneHot : OneHot (dedupInputs (inFields.map (·.ex)) (f.ex.subMergers (inFields.map (·.ex)))) j f.ex
  /-- every scan row has column `j`: a stored sequence on the table grid with well-formed states -/
  scan : ∀ r ∈ rows, j < r.cols.length ∧ SqOk cfg.res (r.cols.getD j none) ∧ SqWF f.ex (r.cols.getD j none)

end Zeno
