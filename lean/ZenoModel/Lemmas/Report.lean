/-
Helper lemmas for C13 (M-REPORT), part 1: the callback protocol.

`Fed s st rows st' rep`  — the callback `s`, starting in state `st`, was called on exactly
  `rows`, in order; every call but the last answered `(true, nil)`; `rep` is the last answer
  (`proceed` when there was no call or the last call also answered `(true, nil)`); `st'` is
  the state afterwards.  The clock is existential: a source may take any time between calls.
`Polite s st l st'`      — `s` was fed a prefix of `l` that way, no call answered with an
  error, and if the prefix is proper then `s` itself asked to stop.
`StepOK`                 — what a stream operator (a `Step`) must satisfy to "report its own
  truncation and propagate its downstream's reply"; `wrap_polite` is the one simulation
  argument shared by limit / offset / filters / flatten / unflatten / the row-store guard /
  the memory check.
-/
import ZenoModel.Model.Report

namespace Zeno.Report

/-! ## Replies -/

theorem Reply.ok_iff (r : Reply) : r.ok = true ↔ r = Reply.proceed := by
  cases r with
  | mk m e => cases m <;> cases e <;> simp [Reply.ok, Reply.proceed]

theorem Reply.not_ok_of_err {r : Reply} (h : r.err ≠ none) : r.ok = false := by
  cases r with
  | mk m e => cases m <;> cases e <;> simp_all [Reply.ok]

theorem Reply.ok_false_noerr {r : Reply} (h : r.ok = false) (he : r.err = none) : r.more = false := by
  cases r with
  | mk m e => cases m <;> cases e <;> simp_all [Reply.ok]

theorem Guard.proceed_cases (g : Guard) (now : Nat) :
    g.proceed now = Reply.proceed ∨ g.proceed now = Reply.fail .deadline := by
  unfold Guard.proceed; split <;> simp

theorem Guard.proceedAfter_cases (g : Guard) (now : Nat) (r : Reply) :
    g.proceedAfter now r = r ∨ (r.ok = true ∧ (g.proceedAfter now r).err ≠ none) := by
  unfold Guard.proceedAfter
  split
  · left; rfl
  · rename_i h
    rcases g.proceed_cases now with hp | hp
    · left
      have : r.ok = true := by
        cases r with
        | mk m e => cases m <;> cases e <;> simp_all [Reply.ok]
      rw [hp]; exact ((Reply.ok_iff r).1 this).symm
    · right
      refine ⟨?_, by rw [hp]; simp [Reply.fail]⟩
      cases r with
      | mk m e => cases m <;> cases e <;> simp_all [Reply.ok]

/-! ## Fed -/

inductive Fed {σ : Type} (s : Sink σ) : σ → List Row → σ → Reply → Prop where
  | nil (st : σ) : Fed s st [] st Reply.proceed
  | last {st : σ} {now : Nat} {r : Row} {st' : σ} {now' : Nat} {rep : Reply} :
      s.onRow st now r = (st', now', rep) → rep.ok = false → Fed s st [r] st' rep
  | cons {st : σ} {now : Nat} {r : Row} {st1 : σ} {now1 : Nat} {rep1 : Reply}
      {rs : List Row} {st' : σ} {rep : Reply} :
      s.onRow st now r = (st1, now1, rep1) → rep1.ok = true → Fed s st1 rs st' rep →
      Fed s st (r :: rs) st' rep

theorem Fed.append {σ : Type} {s : Sink σ} {st st1 st' : σ} {a b : List Row} {rep1 rep : Reply}
    (h1 : Fed s st a st1 rep1) (hok : rep1.ok = true) (h2 : Fed s st1 b st' rep) :
    Fed s st (a ++ b) st' rep := by
  induction h1 with
  | nil _ => simpa using h2
  | last _ hno => rw [hno] at hok; cases hok
  | cons he hk _ ih => exact Fed.cons he hk (ih hok h2)

/-- the delivery loop feeds a prefix; all of it when it ends with `proceed` -/
theorem feed_fed {σ : Type} (s : Sink σ) :
    ∀ (rows : List Row) (st : σ) (now : Nat) (st' : σ) (now' : Nat) (rep : Reply),
      feed s st now rows = (st', now', rep) →
      ∃ m, m ≤ rows.length ∧ Fed s st (rows.take m) st' rep ∧ (rep.ok = true → m = rows.length)
  | [], st, now, st', now', rep, h => by
    simp [feed] at h
    obtain ⟨rfl, _, rfl⟩ := h
    exact ⟨0, Nat.le_refl _, Fed.nil _, fun _ => rfl⟩
  | r :: rs, st, now, st', now', rep, h => by
    unfold feed at h
    generalize hr : s.onRow st now r = res at h
    obtain ⟨st1, now1, rep1⟩ := res
    simp only at h
    by_cases hk : rep1.ok = true
    · rw [if_pos hk] at h
      simp only [Prod.mk.injEq] at h
      obtain ⟨h1, _, h3⟩ := h
      obtain ⟨m, hm, hf, hc⟩ := feed_fed s rs st1 (now + now1) st' _ rep
        (by rw [← h1, ← h3])
      refine ⟨m + 1, by simpa using hm, ?_, fun ho => by simp [hc ho]⟩
      simpa using Fed.cons hr hk hf
    · rw [if_neg hk] at h
      simp only [Prod.mk.injEq] at h
      obtain ⟨rfl, _, rfl⟩ := h
      have hk' : rep1.ok = false := by simpa using hk
      refine ⟨1, by simp, by simpa using Fed.last hr hk', fun ho => by rw [hk'] at ho; cases ho⟩

/-! ## Polite -/

def Polite {σ : Type} (s : Sink σ) (st : σ) (l : List Row) (st' : σ) : Prop :=
  ∃ m rep, Fed s st (l.take m) st' rep ∧ rep.err = none ∧ (rep.more = true → l.length ≤ m)

theorem Polite.of_fed_complete {σ : Type} {s : Sink σ} {st st' : σ} {l : List Row} {rep : Reply}
    (h : Fed s st l st' rep) (he : rep.err = none) : Polite s st l st' :=
  ⟨l.length, rep, by simpa using h, he, fun _ => Nat.le_refl _⟩

/-! ## Stream operators -/

/-- fault-free behaviour of a wrapper: rows forwarded for each incoming row, state after it -/
def specRun {τ : Type} (F : τ → Row → List Row) (nx : τ → Row → τ) : τ → List Row → List Row
  | _, [] => []
  | x, r :: rs => F x r ++ specRun F nx (nx x r) rs

def specState {τ : Type} (nx : τ → Row → τ) : τ → List Row → τ
  | x, [] => x
  | x, r :: rs => specState nx (nx x r) rs

theorem specRun_append {τ : Type} (F : τ → Row → List Row) (nx : τ → Row → τ) :
    ∀ (a b : List Row) (x : τ), specRun F nx x (a ++ b) = specRun F nx x a ++ specRun F nx (specState nx x a) b
  | [], b, x => by simp [specRun, specState]
  | r :: a, b, x => by simp [specRun, specState, specRun_append F nx a b, List.append_assoc]

/-- A stream operator reports its own truncation and propagates its downstream's reply:
    * when it calls downstream, it forwards exactly the rows of its specification;
    * when it answers by itself, it answers with an error, or `(true, nil)` for a row that
      contributes nothing, or `stop()` once nothing can contribute any more (LIMIT reached);
    * it hands the downstream's reply upwards unchanged, or turns a `(true, nil)` into an error. -/
structure StepOK {τ : Type} (stp : Step τ) (I : τ → Prop) (F : τ → Row → List Row) (nx : τ → Row → τ) : Prop where
  pre_ok : ∀ x now r, I x →
    match stp.pre x now r with
    | (x1, _, .forward rs) => rs = F x r ∧ x1 = nx x r ∧ I x1
    | (x1, _, .reply rep) =>
        rep.err ≠ none ∨
        (rep = Reply.proceed ∧ F x r = [] ∧ x1 = nx x r ∧ I x1) ∨
        (rep = Reply.stop ∧ F x r = [] ∧ x1 = nx x r ∧ I x1 ∧ ∀ rows, specRun F nx x1 rows = [])
  post_ok : ∀ x now rep,
    (stp.post x now rep).1 = x ∧
    ((stp.post x now rep).2 = rep ∨ (rep.ok = true ∧ (stp.post x now rep).2.err ≠ none))

/-- one simulation argument for all wrappers -/
theorem wrap_fed {τ σ : Type} {stp : Step τ} {I : τ → Prop} {F : τ → Row → List Row} {nx : τ → Row → τ}
    (ok : StepOK stp I F nx) (s : Sink σ) :
    ∀ (rows : List Row) (x : τ) (st : σ) (x' : τ) (st' : σ) (rep : Reply),
      I x → Fed (wrap stp s) (x, st) rows (x', st') rep → rep.err = none →
      ∃ m rep_in, Fed s st ((specRun F nx x rows).take m) st' rep_in ∧ rep_in.err = none ∧
        (rep_in.more = true → (specRun F nx x rows).length ≤ m) ∧
        x' = specState nx x rows ∧
        (rep.more = false → rep_in.more = false ∨ ∀ more, specRun F nx x' more = []) := by
  intro rows
  induction rows with
  | nil =>
    intro x st x' st' rep _ hf he
    cases hf
    exact ⟨0, Reply.proceed, by simpa [specRun] using Fed.nil st, rfl, by simp [specRun], rfl, by simp [Reply.proceed]⟩
  | cons r rs ih =>
    intro x st x' st' rep hI hf he
    -- the first call
    have key : ∀ (now : Nat) (x1 : τ) (st1 : σ) (now1 : Nat) (rep1 : Reply),
        (wrap stp s).onRow (x, st) now r = ((x1, st1), now1, rep1) → rep1.err = none →
        ∃ k rep_f, k ≤ (F x r).length ∧ Fed s st ((F x r).take k) st1 rep_f ∧ rep_f.err = none ∧
          (rep_f.ok = true → k = (F x r).length) ∧ x1 = nx x r ∧ I x1 ∧
          (rep1.ok = true → rep_f.ok = true) ∧
          (rep1.more = false → rep_f.more = false ∨ ∀ more, specRun F nx x1 more = []) := by
      intro now x1 st1 now1 rep1 hw he1
      have hp := ok.pre_ok x now r hI
      simp only [wrap] at hw
      generalize hpre : stp.pre x now r = pr at hw hp
      obtain ⟨xa, nowa, act⟩ := pr
      cases act with
      | reply rep0 =>
        simp only at hw hp
        simp only [Prod.mk.injEq] at hw
        obtain ⟨⟨rfl, rfl⟩, _, rfl⟩ := hw
        rcases hp with hp | ⟨rfl, hF, hx, hI1⟩ | ⟨rfl, hF, hx, hI1, hd⟩
        · exact absurd he1 hp
        · exact ⟨0, Reply.proceed, by simp, by simpa using Fed.nil st, rfl, by simp [hF], hx, hI1,
            by simp [Reply.ok, Reply.proceed], by simp [Reply.proceed]⟩
        · exact ⟨0, Reply.proceed, by simp, by simpa using Fed.nil st, rfl, by simp [hF], hx, hI1,
            by simp [Reply.ok, Reply.proceed], fun _ => Or.inr hd⟩
      | forward rows0 =>
        simp only at hw hp
        obtain ⟨rfl, hx, hI1⟩ := hp
        generalize hfd : feed s st (now + nowa) (F x r) = fd at hw
        obtain ⟨stb, nowb, rep_f⟩ := fd
        simp only [Prod.mk.injEq] at hw
        obtain ⟨⟨hxa, rfl⟩, _, hrep⟩ := hw
        have hpo := ok.post_ok xa (now + nowa + nowb) rep_f
        rw [hpo.1] at hxa
        subst hxa
        have hrep' : rep1 = rep_f := by
          rcases hpo.2 with h | ⟨_, h⟩
          · rw [← hrep]; exact h
          · rw [hrep] at h; exact absurd he1 h
        subst hrep'
        obtain ⟨k, hk, hfk, hck⟩ := feed_fed s (F x r) st (now + nowa) stb nowb rep1 hfd
        exact ⟨k, rep1, hk, hfk, he1, hck, hx, hI1, fun h => h, fun h => Or.inl h⟩
    cases hf with
    | last hrow hno =>
      obtain ⟨k, rep_f, hk, hfk, hef, hck, hx, hI1, _, hwhy⟩ := key _ _ _ _ _ hrow he
      refine ⟨k, rep_f, ?_, hef, ?_, ?_, ?_⟩
      · have : (specRun F nx x [r]) = F x r := by simp [specRun]
        rw [this]; exact hfk
      · intro hm
        have : rep_f.ok = true := by simp [Reply.ok, hm, hef]
        simp [specRun, hck this]
      · simp [specState, hx]
      · intro hm; exact hwhy hm
    | cons hrow hk1 htail =>
      rename_i now0 st1 now1 rep1
      obtain ⟨x1, st1'⟩ := st1
      have he1 : rep1.err = none := by
        have := (Reply.ok_iff rep1).1 hk1; rw [this]; rfl
      obtain ⟨k, rep_f, hk, hfk, hef, hck, hx, hI1, hokf, _⟩ := key _ _ _ _ _ hrow he1
      obtain ⟨m, rep_in, hfm, hein, hcm, hxs, hwhy⟩ := ih x1 st1' x' st' rep hI1 htail he
      have hokf' := hokf hk1
      have hkk := hck hokf'
      subst hx
      refine ⟨(F x r).length + m, rep_in, ?_, hein, ?_, ?_, hwhy⟩
      · have h1 : ((specRun F nx x (r :: rs)).take ((F x r).length + m)) = F x r ++ (specRun F nx (nx x r) rs).take m := by
          rw [specRun, List.take_append, List.take_of_length_le (by omega)]
          simp
        rw [h1]
        have : Fed s st (F x r) st1' rep_f := by
          have := hfk; rw [hkk] at this; simpa using this
        exact Fed.append this hokf' hfm
      · intro hm
        have := hcm hm
        simp [specRun]; omega
      · simp [specState, hxs]

/-- a wrapper that was fed politely has fed its downstream politely with the rows of its
    specification -/
theorem wrap_polite {τ σ : Type} {stp : Step τ} {I : τ → Prop} {F : τ → Row → List Row} {nx : τ → Row → τ}
    (ok : StepOK stp I F nx) (s : Sink σ) (x : τ) (st : σ) (x' : τ) (st' : σ) (l : List Row)
    (hI : I x) (h : Polite (wrap stp s) (x, st) l (x', st')) :
    Polite s st (specRun F nx x l) st' := by
  obtain ⟨m, rep, hf, he, hc⟩ := h
  obtain ⟨k, rep_in, hfk, hein, hck, hxs, hwhy⟩ := wrap_fed ok s (l.take m) x st x' st' rep hI hf he
  -- specRun over l = specRun over the fed prefix ++ specRun over the rest
  have hsplit : specRun F nx x l = specRun F nx x (l.take m) ++ specRun F nx x' (l.drop m) := by
    conv => lhs; rw [← List.take_append_drop m l]
    rw [specRun_append, hxs]
  refine ⟨min k (specRun F nx x (l.take m)).length, rep_in, ?_, hein, ?_⟩
  · have : (specRun F nx x l).take (min k (specRun F nx x (l.take m)).length) = (specRun F nx x (l.take m)).take k := by
      rw [hsplit, List.take_append_of_le_length (Nat.min_le_right _ _)]
      by_cases hk : k ≤ (specRun F nx x (l.take m)).length
      · rw [Nat.min_eq_left hk]
      · have hk' : (specRun F nx x (l.take m)).length ≤ k := Nat.le_of_lt (Nat.lt_of_not_le hk)
        rw [Nat.min_eq_right hk', List.take_of_length_le hk', List.take_of_length_le (Nat.le_refl _)]
    rw [this]; exact hfk
  · intro hm
    have hfull := hck hm
    -- the rest contributes nothing
    have hrest : specRun F nx x' (l.drop m) = [] := by
      by_cases hrm : rep.more = true
      · have := hc hrm
        simp [List.drop_of_length_le this, specRun]
      · have hrm' : rep.more = false := by simpa using hrm
        rcases hwhy hrm' with h | h
        · rw [hm] at h; cases h
        · exact h _
    rw [hsplit, hrest]
    simp [Nat.min_eq_right hfull]

end Zeno.Report
