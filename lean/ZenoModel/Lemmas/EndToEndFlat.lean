/-
End-to-end, stage 2, part 2: `core.Flatten` for one row (`flattenRow`) without its loop bounds.
It iterates the period ends from the earliest asOf to the latest until of the row's non-empty
columns; when all columns lie on one grid and no selected expression is constant, a row comes out
for exactly the grid times `T` at which `flatAt` yields one (a non-constant expression "has a value"
only inside its column's span, so nothing is lost outside the loop bounds).
-/
import ZenoModel.Lemmas.EndToEndValue
import ZenoModel.Model.Query
set_option linter.unusedSimpArgs false
set_option linter.unusedVariables false
namespace Zeno

/-- the body of `flattenRow`'s loop at time `ts` -/
def flatAt (x : Ext) (fields : List Field) (res : Int) (r : Row) (ts : Int) : Option QRow :=
  let vs := (fields.zip r.cols).map (fun (f, c) => (Sq.valueAtTime x c f.ex res ts, f.ex.isConstant))
  if vs.any (fun (v, isConst) => v.isSome && !isConst) then
    some { ts := ts, key := r.key, vals := vs.map (fun (v, _) => v.getD 0) }
  else none

def flatNonEmpty (r : Row) : List Seq := (r.cols.filterMap id).filter (fun s => s.cells.length > 0)
def minStep (res : Int) (m : Int) (s : Seq) : Int :=
  if s.hi - (s.cells.length : Int) * res < m then s.hi - (s.cells.length : Int) * res else m
def maxStep (m : Int) (s : Seq) : Int := if s.hi > m then s.hi else m
def flatHi (s0 : Seq) (rest : List Seq) : Int := rest.foldl maxStep s0.hi
def flatLo (res : Int) (s0 : Seq) (rest : List Seq) : Int :=
  rest.foldl (minStep res) (s0.hi - (s0.cells.length : Int) * res)

theorem flattenRow_eq (x : Ext) (fields : List Field) (res : Int) (r : Row) :
    flattenRow x fields res r =
      match flatNonEmpty r with
      | [] => []
      | s0 :: rest =>
        (List.range (if res ≤ 0 then 0 else ((flatHi s0 rest - flatLo res s0 rest) / res).toNat + 1)).filterMap
          (fun (i : Nat) => flatAt x fields res r (flatLo res s0 rest + (Int.ofNat i) * res)) := rfl

theorem foldl_max_spec (rest : List Seq) : ∀ m : Int,
    m ≤ rest.foldl maxStep m ∧ (∀ s ∈ rest, s.hi ≤ rest.foldl maxStep m) := by
  induction rest with
  | nil => intro m; exact ⟨Int.le_refl _, fun _ h => by simp at h⟩
  | cons a rest ih =>
    intro m
    simp only [List.foldl_cons]
    obtain ⟨h1, h2⟩ := ih (maxStep m a)
    have hm : m ≤ maxStep m a ∧ a.hi ≤ maxStep m a := by unfold maxStep; split <;> omega
    refine ⟨by omega, ?_⟩
    intro s hs
    rw [List.mem_cons] at hs
    rcases hs with rfl | hs
    · omega
    · exact h2 s hs

theorem foldl_min_spec (res : Int) (rest : List Seq) : ∀ m : Int,
    rest.foldl (minStep res) m ≤ m ∧
    (∀ s ∈ rest, rest.foldl (minStep res) m ≤ s.hi - (s.cells.length : Int) * res) ∧
    (rest.foldl (minStep res) m = m ∨
      ∃ s ∈ rest, rest.foldl (minStep res) m = s.hi - (s.cells.length : Int) * res) := by
  induction rest with
  | nil => intro m; exact ⟨Int.le_refl _, fun _ h => by simp at h, Or.inl rfl⟩
  | cons a rest ih =>
    intro m
    simp only [List.foldl_cons]
    obtain ⟨h1, h2, h3⟩ := ih (minStep res m a)
    have hm : minStep res m a ≤ m ∧ minStep res m a ≤ a.hi - (a.cells.length : Int) * res ∧
        (minStep res m a = m ∨ minStep res m a = a.hi - (a.cells.length : Int) * res) := by
      unfold minStep; split <;> omega
    refine ⟨by omega, ?_, ?_⟩
    · intro s hs
      rw [List.mem_cons] at hs
      rcases hs with rfl | hs
      · omega
      · exact h2 s hs
    · rcases h3 with h3 | ⟨s, hs, h3⟩
      · rcases hm.2.2 with h4 | h4
        · left; rw [h3, h4]
        · right; exact ⟨a, by simp, by rw [h3, h4]⟩
      · right; exact ⟨s, by simp [hs], h3⟩

theorem emod_add_mul {a m : Int} (k : Int) (h : a % m = 0) : (a + k * m) % m = 0 := by
  rw [Int.add_mul_emod_self_right]; exact h

/-- every non-empty column of the row is one of its columns -/
theorem mem_flatNonEmpty (r : Row) (s : Seq) :
    s ∈ flatNonEmpty r ↔ (some s) ∈ r.cols ∧ 0 < s.cells.length := by
  unfold flatNonEmpty
  rw [List.mem_filter, List.mem_filterMap]
  constructor
  · intro ⟨⟨c, hc, hid⟩, hl⟩
    simp only [id] at hid
    subst hid
    exact ⟨hc, by simpa using hl⟩
  · intro ⟨hc, hl⟩
    exact ⟨⟨some s, hc, rfl⟩, by simpa using hl⟩

/-- the loop's lower bound lies on the grid -/
theorem flatLo_grid (res hi0 : Int) (s0 : Seq) (rest : List Seq)
    (hg : ∀ s ∈ s0 :: rest, (hi0 - s.hi) % res = 0) : (hi0 - flatLo res s0 rest) % res = 0 := by
  have key : ∀ s ∈ s0 :: rest, (hi0 - (s.hi - (s.cells.length : Int) * res)) % res = 0 := by
    intro s hs
    have : hi0 - (s.hi - (s.cells.length : Int) * res) = (hi0 - s.hi) + (s.cells.length : Int) * res := by omega
    rw [this]; exact emod_add_mul _ (hg s hs)
  obtain ⟨_, _, h3⟩ := foldl_min_spec res rest (s0.hi - (s0.cells.length : Int) * res)
  unfold flatLo
  rcases h3 with h3 | ⟨s, hs, h3⟩
  · rw [h3]; exact key s0 (by simp)
  · rw [h3]; exact key s (by simp [hs])

end Zeno
