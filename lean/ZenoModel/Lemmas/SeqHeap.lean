/-
Frame lemmas for the effect model (Model/SeqHeap.lean): for every effect function, where
its writes go and where its result lives.  Core Lean only.
-/
import ZenoModel.Model.SeqHeap

namespace Zeno

/-- where a result view can live relative to an operand slice: the operand's buffer
    (a re-slice or the operand itself) or a buffer that did not exist before (`≥ n`) -/
def ViewFrom (n : Nat) (opnd : Sl) (v : View) : Prop :=
  n ≤ v.buf ∨ ∃ o, opnd = some o ∧ v.buf = o.buf

theorem from_buf (v : View) (k : Nat) : (v.from k).buf = v.buf := rfl
theorem upto_buf (v : View) (k : Nat) : (v.upto k).buf = v.buf := rfl
theorem copyW_buf (d s : View) : (copyW d s).buf = d.buf := rfl

/-! ### append -/

theorem appendEff_writes (n : Nat) (dst src : View) :
    ∀ x ∈ (appendEff n dst src).writes, x.buf = dst.buf ∨ x.buf = n := by
  intro x hx
  unfold appendEff at hx
  split at hx <;> simp at hx <;> subst hx <;> simp

theorem appendEff_view (n : Nat) (dst src : View) :
    (appendEff n dst src).v.buf = dst.buf ∨ (appendEff n dst src).v.buf = n := by
  unfold appendEff
  split <;> simp [View.mk']

/-! ### Truncate -/

theorem truncUntilEff_spec {n : Nat} {v : View} {oldUntil : Int} {w : Nat} {res hi : Int} {r : VE}
    (h : truncUntilEff n v oldUntil w res hi = some r) :
    (r.v = v ∧ r.hi = oldUntil ∧ r.allocs = [] ∧ r.writes = []) ∨
    (r.v.buf = n ∧ r.v.off = 0 ∧ r.allocs = [r.v.len] ∧ (∀ x ∈ r.writes, x.buf = n)) := by
  simp only [truncUntilEff] at h
  split at h
  · split at h
    · split at h
      · cases h
      · injection h with h; subst h
        right
        refine ⟨rfl, rfl, rfl, ?_⟩
        intro x hx
        simp [copyW, setUntilW, View.from, View.mk'] at hx
        rcases hx with rfl | rfl <;> rfl
    · injection h with h; subst h; left; exact ⟨rfl, rfl, rfl, rfl⟩
  · injection h with h; subst h; left; exact ⟨rfl, rfl, rfl, rfl⟩

theorem truncAsOfEff_spec (r : VE) (w : Nat) (res asOf : Int) :
    (truncAsOfEff r w res asOf).allocs = r.allocs ∧ (truncAsOfEff r w res asOf).writes = r.writes ∧
    ((truncAsOfEff r w res asOf).out.sl = none ∨
      ∃ v', (truncAsOfEff r w res asOf).out.sl = some v' ∧ v'.buf = r.v.buf ∧ v'.off = r.v.off ∧
        v'.len ≤ r.v.len ∧ v'.cap = r.v.cap) := by
  simp only [truncAsOfEff]
  split
  · split
    · exact ⟨rfl, rfl, Or.inl rfl⟩
    · split
      · exact ⟨rfl, rfl, Or.inr ⟨r.v, rfl, rfl, rfl, Nat.le_refl _, rfl⟩⟩
      · refine ⟨rfl, rfl, Or.inr ⟨r.v.upto _, rfl, rfl, rfl, ?_, rfl⟩⟩
        simp [View.upto]; omega
  · exact ⟨rfl, rfl, Or.inr ⟨r.v, rfl, rfl, rfl, Nat.le_refl _, rfl⟩⟩

/-- everything `Truncate` can do: no write outside the (single) fresh buffer; the result is
    nil, a prefix re-slice of the operand (then nothing was allocated or written), or lives
    in the fresh buffer `n` -/
theorem truncateEff_spec (n : Nat) (s : SV) (w : Nat) (res asOf hi : Int) :
    (∀ x ∈ (truncateEff n s w res asOf hi).writes, x.buf = n) ∧
    (truncateEff n s w res asOf hi).allocs.length ≤ 1 ∧
    ((truncateEff n s w res asOf hi).out.sl = none ∨
     (∃ v v', s.sl = some v ∧ (truncateEff n s w res asOf hi).out.sl = some v' ∧
        v'.buf = v.buf ∧ v'.off = v.off ∧ v'.len ≤ v.len ∧ v'.cap = v.cap ∧
        (truncateEff n s w res asOf hi).allocs = [] ∧ (truncateEff n s w res asOf hi).writes = []) ∨
     (∃ v', (truncateEff n s w res asOf hi).out.sl = some v' ∧ v'.buf = n ∧ v'.off = 0 ∧
        (truncateEff n s w res asOf hi).allocs.length = 1)) := by
  simp only [truncateEff]
  split
  · simp [SV.nil]
  · rename_i v hv
    split
    · simp [SV.nil]
    · split
      · simp [SV.nil]
      · rename_i r hr
        have hu := truncUntilEff_spec hr
        have ha := truncAsOfEff_spec r w res (roundUntilDown asOf res s.hi)
        obtain ⟨hal, hwr, hout⟩ := ha
        rw [hal, hwr]
        rcases hu with ⟨hv', _, hal', hwr'⟩ | ⟨hb, ho, hal', hwr'⟩
        · rw [hal', hwr']
          refine ⟨by simp, by simp, ?_⟩
          rcases hout with h0 | ⟨v', h1, h2, h3, h4, h5⟩
          · exact Or.inl h0
          · right; left
            rw [hv'] at h2 h3 h4 h5
            exact ⟨v, v', hv, h1, h2, h3, h4, h5, rfl, rfl⟩
        · refine ⟨hwr', by rw [hal']; simp, ?_⟩
          rcases hout with h0 | ⟨v', h1, h2, h3, _, _⟩
          · exact Or.inl h0
          · right; right
            exact ⟨v', h1, by rw [h2, hb], by rw [h3, ho], by rw [hal']; simp⟩

theorem truncateEff_writes_fresh (n : Nat) (s : SV) (w : Nat) (res asOf hi : Int) :
    ∀ x ∈ (truncateEff n s w res asOf hi).writes, x.buf = n :=
  (truncateEff_spec n s w res asOf hi).1

theorem truncateEff_out_from (n : Nat) (s : SV) (w : Nat) (res asOf hi : Int) :
    ∀ v', (truncateEff n s w res asOf hi).out.sl = some v' → ViewFrom n s.sl v' := by
  intro v' hv'
  rcases (truncateEff_spec n s w res asOf hi).2.2 with h | ⟨v, v'', hs, ho, hb, _⟩ | ⟨v'', ho, hb, _⟩
  · rw [h] at hv'; cases hv'
  · rw [ho] at hv'; cases hv'; exact Or.inr ⟨v, hs, hb⟩
  · rw [ho] at hv'; cases hv'; exact Or.inl (by omega)

/-! ### Merge -/

theorem mergeLoopW_buf (sout : View) (w k : Nat) : ∀ x ∈ mergeLoopW sout w k, x.buf = sout.buf := by
  intro x hx
  simp [mergeLoopW] at hx
  obtain ⟨i, _, rfl⟩ := hx
  rfl

theorem mem_ite_singleton {c : Prop} [Decidable c] {x a : Write} (h : x ∈ (if c then [a] else [])) : x = a := by
  split at h
  · simpa using h
  · simp at h

theorem ite_view_buf {c : Prop} [Decidable c] (a b : View) (h : a.buf = b.buf) :
    (if c then a else b).buf = b.buf := by
  split
  · exact h
  · rfl

theorem mergeMainEff_spec (n : Nat) (va vb : View) (startA startB : Int) (w : Nat) (res : Int) :
    (∀ x ∈ (mergeMainEff n va vb startA startB w res).writes, x.buf = n) ∧
    (∃ size, (mergeMainEff n va vb startA startB w res).out.sl = some (View.mk' n size) ∧
      (mergeMainEff n va vb startA startB w res).allocs = [size]) ∧
    (mergeMainEff n va vb startA startB w res).out.hi = startA := by
  refine ⟨?_, ⟨_, rfl, rfl⟩, rfl⟩
  intro x hx
  simp only [mergeMainEff, List.mem_cons, List.mem_append] at hx
  rcases hx with rfl | (h | h) | h
  · rfl
  · rw [mem_ite_singleton h]
    rfl
  · rw [mergeLoopW_buf _ _ _ x h]
    exact ite_view_buf _ _ rfl
  · split at h
    · rw [List.mem_singleton] at h
      rw [h, copyW_buf, from_buf]
      exact ite_view_buf _ _ rfl
    · rw [mem_ite_singleton h, copyW_buf, from_buf]
      exact ite_view_buf _ _ rfl

/-- everything `Merge` can do: it returns one of its operands untouched (nothing allocated,
    nothing written), or a fresh buffer which is the only thing it writes -/
theorem mergeEff_spec (n : Nat) (s other : SV) (w : Nat) (res tb : Int) :
    ((mergeEff n s other w res tb).out = s ∧ (mergeEff n s other w res tb).allocs = [] ∧
        (mergeEff n s other w res tb).writes = []) ∨
    ((mergeEff n s other w res tb).out = other ∧ (mergeEff n s other w res tb).allocs = [] ∧
        (mergeEff n s other w res tb).writes = []) ∨
    ((∃ size, (mergeEff n s other w res tb).out.sl = some (View.mk' n size) ∧
        (mergeEff n s other w res tb).allocs = [size]) ∧
      (∀ x ∈ (mergeEff n s other w res tb).writes, x.buf = n)) := by
  unfold mergeEff
  split
  · right; left; exact ⟨rfl, rfl, rfl⟩
  · rename_i vs _
    split
    · right; left; exact ⟨rfl, rfl, rfl⟩
    · split
      · left; exact ⟨rfl, rfl, rfl⟩
      · rename_i vo _
        split
        · left; exact ⟨rfl, rfl, rfl⟩
        · split
          · extract_lets tb'
            split
            · right; left; exact ⟨rfl, rfl, rfl⟩
            · right; right
              have := mergeMainEff_spec n vo vs other.hi s.hi w res
              exact ⟨this.2.1, this.1⟩
          · extract_lets tb'
            split
            · left; exact ⟨rfl, rfl, rfl⟩
            · right; right
              have := mergeMainEff_spec n vs vo s.hi other.hi w res
              exact ⟨this.2.1, this.1⟩

theorem mergeEff_writes_fresh (n : Nat) (s other : SV) (w : Nat) (res tb : Int) :
    ∀ x ∈ (mergeEff n s other w res tb).writes, x.buf = n := by
  rcases mergeEff_spec n s other w res tb with ⟨_, _, h⟩ | ⟨_, _, h⟩ | ⟨_, h⟩
  · rw [h]; simp
  · rw [h]; simp
  · exact h

/-- the result of `Merge` lives in one of the operands' buffers or in a fresh one -/
theorem mergeEff_out_from (n : Nat) (s other : SV) (w : Nat) (res tb : Int) :
    ∀ v', (mergeEff n s other w res tb).out.sl = some v' → ViewFrom n s.sl v' ∨ ViewFrom n other.sl v' := by
  intro v' hv'
  rcases mergeEff_spec n s other w res tb with ⟨h, _⟩ | ⟨h, _⟩ | ⟨⟨size, h, _⟩, _⟩
  · rw [h] at hv'; exact Or.inl (Or.inr ⟨v', hv', rfl⟩)
  · rw [h] at hv'; exact Or.inr (Or.inr ⟨v', hv', rfl⟩)
  · rw [h] at hv'; cases hv'; exact Or.inl (Or.inl (Nat.le_refl _))

/-! ### ValueAtTime -/

theorem valueAtEff_writes (s : SV) (e : Ex) (res t : Int) : (valueAtEff s e res t).writes = [] := by
  simp only [valueAtEff]
  repeat' split
  all_goals rfl

/-! ### UpdateValue -/

theorem updateValueEff_spec (n : Nat) (s : SV) (w : Nat) (res ts tb : Int) :
    ∀ x ∈ (updateValueEff n s w res ts tb).writes, n ≤ x.buf ∨ ∃ v, s.sl = some v ∧ x.buf = v.buf := by
  unfold updateValueEff
  extract_lets ts' untl tb' fout fresh start gapPeriods maxPeriods n0 numPeriods out1 period offset out2
  have hfresh : ∀ x ∈ fresh.writes, n ≤ x.buf ∨ ∃ v, s.sl = some v ∧ x.buf = v.buf := by
    intro x hx
    simp only [fresh, List.mem_cons, List.not_mem_nil, or_false] at hx
    rcases hx with rfl | rfl <;> exact Or.inl (Nat.le_refl _)
  split
  · intro x hx
    exact Or.inl (Nat.le_of_eq (truncateEff_writes_fresh _ _ _ _ _ _ x hx).symm)
  · split
    · exact hfresh
    · rename_i v hv
      split
      · exact hfresh
      · split
        · exact hfresh
        · split
          · extract_lets origEnd
            intro x hx
            simp only [List.mem_cons, List.not_mem_nil, or_false] at hx
            rcases hx with rfl | rfl | rfl <;> exact Or.inl (Nat.le_refl _)
          · split
            · intro x hx
              simp only [List.mem_cons, List.not_mem_nil, or_false] at hx
              rcases hx with rfl | rfl <;> exact Or.inl (Nat.le_refl _)
            · intro x hx
              simp only [List.mem_cons, List.not_mem_nil, or_false] at hx
              subst hx
              exact Or.inr ⟨v, hv, rfl⟩

/-! ### sub-merge closures and SubMerge -/

/-- a sub-merge closure stores into `data` only (never into `other`) -/
theorem smWrites_buf (cb : List Nat) (ow : Nat) (otherRes : Int) (p : Pt) (sm : SM) :
    ∀ (data : View) (c0 : Nat) (other : View), ∀ x ∈ smWrites cb ow otherRes p sm data c0 other, x.buf = data.buf := by
  induction sm with
  | direct e => intro data c0 other x hx; simp [smWrites] at hx; subst hx; rfl
  | right skip r ih => intro data c0 other x hx; simp only [smWrites] at hx; exact ih _ _ _ x hx
  | both l skip r ihl ihr =>
      intro data c0 other x hx
      simp only [smWrites, List.mem_append] at hx
      rcases hx with h | h
      · exact ihl _ _ _ x h
      · exact ihr _ _ _ x h
  | cond c w ih =>
      intro data c0 other x hx
      simp only [smWrites] at hx
      split at hx
      · exact ih _ _ _ x hx
      · simp at hx
  | shifted off w ih =>
      intro data c0 other x hx
      simp only [smWrites] at hx
      split at hx
      · exact ih _ _ _ x hx
      · simp at hx

theorem subMergeLoopEff_buf (cb : List Nat) (sm : SM) (w ow : Nat) (otherRes : Int) (p : Pt)
    (scale untilOffset strideSlice ssp : Int) (rp : Nat) (rv ov : View) :
    ∀ (k po : Nat), ∀ x ∈ subMergeLoopEff cb sm w ow otherRes p scale untilOffset strideSlice ssp rp rv ov k po,
      x.buf = rv.buf := by
  intro k
  induction k with
  | zero => intro po x hx; simp [subMergeLoopEff] at hx
  | succ k ih =>
      intro po x hx
      simp only [subMergeLoopEff] at hx
      split at hx
      · simp at hx
      · rw [List.mem_append] at hx
        rcases hx with h | h
        · split at h
          · split at h
            · simp at h
            · rw [smWrites_buf _ _ _ _ _ _ _ _ x h]; rfl
          · simp at h
        · exact ih _ x h

theorem growEff_spec (n : Nat) (ov : View) (ohi : Int) (ow : Nat) (otherRes shiftBack hi : Int) :
    (∀ x ∈ (growEff n ov ohi ow otherRes shiftBack hi).writes, x.buf = n) ∧
    (growEff n ov ohi ow otherRes shiftBack hi).allocs.length ≤ 1 ∧
    ((growEff n ov ohi ow otherRes shiftBack hi).v = ov ∨ (growEff n ov ohi ow otherRes shiftBack hi).v.buf = n) := by
  unfold growEff
  split
  · extract_lets shifted0 shifted growByPeriods growBy grown
    split
    · refine ⟨?_, by simp, Or.inr rfl⟩
      intro x hx
      simp only [List.mem_cons, List.not_mem_nil, or_false] at hx
      rcases hx with rfl | rfl <;> rfl
    · simp
  · simp

theorem prependEff_spec (n : Nat) (result : SV) (w : Nat) (res newUntil : Int) :
    (∀ x ∈ (prependEff n result w res newUntil).writes, n ≤ x.buf) ∧
    ViewFrom n result.sl (prependEff n result w res newUntil).v := by
  unfold prependEff
  split
  · extract_lets r
    refine ⟨?_, Or.inl (Nat.le_refl _)⟩
    intro x hx
    simp only [List.mem_cons, List.not_mem_nil, or_false] at hx
    subst hx; exact Nat.le_refl _
  · rename_i rv hrv
    split
    · extract_lets r
      refine ⟨?_, Or.inl (Nat.le_refl _)⟩
      intro x hx
      simp only [List.mem_cons, List.not_mem_nil, or_false] at hx
      subst hx; exact Nat.le_refl _
    · extract_lets ptp prepended a
      split
      · constructor
        · intro x hx
          simp only [List.mem_cons] at hx
          rcases hx with rfl | h
          · exact Nat.le_refl _
          · rcases appendEff_writes _ _ _ x h with h | h
            · rw [h]; exact Nat.le_refl _
            · rw [h]; exact Nat.le_succ _
        · rcases appendEff_view (n + 1) prepended (rv.from 8) with h | h
          · exact Or.inl (by show n ≤ a.v.buf; rw [h]; exact Nat.le_refl _)
          · exact Or.inl (by show n ≤ a.v.buf; rw [h]; exact Nat.le_succ _)
      · exact ⟨by simp, Or.inr ⟨rv, hrv, rfl⟩⟩

theorem appendPeriodsEff_spec (n : Nat) (r1 : VE) (w : Nat) (res otherAsOf : Int) :
    (∀ x ∈ (appendPeriodsEff n r1 w res otherAsOf).writes, x.buf = n) ∧
    ((appendPeriodsEff n r1 w res otherAsOf).v = r1.v ∨ (appendPeriodsEff n r1 w res otherAsOf).v.buf = n) := by
  unfold appendPeriodsEff
  extract_lets np asOf1 oldAsOf newAsOf pta appended
  split
  · refine ⟨?_, Or.inr rfl⟩
    intro x hx
    simp only [List.mem_cons, List.not_mem_nil, or_false] at hx
    subst hx; rfl
  · exact ⟨by simp, Or.inl rfl⟩

/-- everything `SubMerge` can do: it writes fresh buffers and its RECEIVER's buffer only;
    its result is the receiver itself, or lives in the receiver's buffer or in a fresh one
    — never in `other`'s. -/
theorem subMergeEff_spec (n : Nat) (ex otherEx : Ex) (sm : SM) (res otherRes : Int) (s other : SV) (p : Pt)
    (asOf hi strideSlice : Int) :
    (∀ x ∈ (subMergeEff n ex otherEx sm res otherRes s other p asOf hi strideSlice).writes,
        n ≤ x.buf ∨ ∃ v, s.sl = some v ∧ x.buf = v.buf) ∧
    ((subMergeEff n ex otherEx sm res otherRes s other p asOf hi strideSlice).out = s ∨
      ∃ v', (subMergeEff n ex otherEx sm res otherRes s other p asOf hi strideSlice).out.sl = some v' ∧
        ViewFrom n s.sl v') := by
  have ht1 := truncateEff_writes_fresh n other otherEx.bytes otherRes (asOf - -ex.shiftOf) hi
  have ht1' : ∀ x ∈ (truncateEff n other otherEx.bytes otherRes (asOf - -ex.shiftOf) hi).writes,
      n ≤ x.buf ∨ ∃ v, s.sl = some v ∧ x.buf = v.buf :=
    fun x hx => Or.inl (Nat.le_of_eq (ht1 x hx).symm)
  simp only [subMergeEff]
  split
  · exact ⟨ht1', Or.inl rfl⟩
  · rename_i ov0 hov0
    split
    · exact ⟨ht1', Or.inl rfl⟩
    · -- abbreviations
      generalize hT1 : truncateEff n other otherEx.bytes otherRes (asOf - -ex.shiftOf) hi = t1 at *
      generalize hn1 : n + t1.allocs.length = n1
      have hn1' : n ≤ n1 := by omega
      generalize hT2 : truncateEff n1 s ex.bytes res asOf hi = t2
      have ht2w := truncateEff_writes_fresh n1 s ex.bytes res asOf hi
      have ht2o := truncateEff_out_from n1 s ex.bytes res asOf hi
      rw [hT2] at ht2w ht2o
      generalize hn2 : n1 + t2.allocs.length = n2
      have hn2' : n ≤ n2 := by omega
      generalize hG : growEff n2 ov0 t1.out.hi otherEx.bytes otherRes (-ex.shiftOf) hi = g
      have hgw := (growEff_spec n2 ov0 t1.out.hi otherEx.bytes otherRes (-ex.shiftOf) hi).1
      rw [hG] at hgw
      generalize hn3 : n2 + g.allocs.length = n3
      have hn3' : n ≤ n3 := by omega
      generalize hR1 : prependEff n3 t2.out ex.bytes res (roundUntilUp g.hi res hi) = r1
      have hr1 := prependEff_spec n3 t2.out ex.bytes res (roundUntilUp g.hi res hi)
      rw [hR1] at hr1
      generalize hn4 : n3 + r1.allocs.length = n4
      have hn4' : n ≤ n4 := by omega
      generalize hO : (if other.asOf otherEx.bytes otherRes < asOf then asOf else other.asOf otherEx.bytes otherRes) = oa
      generalize hR2 : appendPeriodsEff n4 r1 ex.bytes res oa = r2
      have hr2 := appendPeriodsEff_spec n4 r1 ex.bytes res oa
      rw [hR2] at hr2
      -- where r1 and r2 live
      have hr1v : ViewFrom n s.sl r1.v := by
        rcases hr1.2 with h | ⟨o, ho, hb⟩
        · exact Or.inl (by omega)
        · rcases ht2o o ho with h | ⟨o', ho', hb'⟩
          · exact Or.inl (by rw [hb]; omega)
          · exact Or.inr ⟨o', ho', by rw [hb, hb']⟩
      have hr2v : ViewFrom n s.sl r2.v := by
        rcases hr2.2 with h | h
        · rw [h]; exact hr1v
        · exact Or.inl (by rw [h]; exact hn4')
      refine ⟨?_, Or.inr ⟨r2.v, rfl, hr2v⟩⟩
      intro x hx
      simp only [List.mem_append] at hx
      rcases hx with ((((h | h) | h) | h) | h) | h
      · exact Or.inl (Nat.le_of_eq (ht1 x h).symm)
      · exact Or.inl (by rw [ht2w x h]; exact hn1')
      · exact Or.inl (by rw [hgw x h]; exact hn2')
      · exact Or.inl (Nat.le_trans hn3' (hr1.1 x h))
      · exact Or.inl (by rw [hr2.1 x h]; exact hn4')
      · have := subMergeLoopEff_buf _ _ _ _ _ _ _ _ _ _ _ _ _ _ _ x h
        rw [this]
        rcases hr2v with h | ⟨o, ho, hb⟩
        · exact Or.inl h
        · exact Or.inr ⟨o, ho, hb⟩

/-! ### the query path on one stored column -/

/-- the loop invariant of the scan → rowMerger → group composition: everything written so
    far, and the out tree's own sequence, lie in buffers the query itself allocated -/
def QInv (n0 : Nat) (st : QState) : Prop :=
  n0 ≤ st.n ∧ (∀ x ∈ st.writes, n0 ≤ x.buf) ∧ (∀ v, st.out.sl = some v → n0 ≤ v.buf)

theorem fileRowEff_spec (n : Nat) (f : Option (Nat × Nat × Nat × Int)) :
    n ≤ (fileRowEff n f).n ∧ (∀ x ∈ (fileRowEff n f).writes, x.buf = n) ∧
    (∀ v, (fileRowEff n f).col.sl = some v → v.buf = n) := by
  cases f with
  | none => exact ⟨Nat.le_refl _, by simp [fileRowEff], by simp [fileRowEff, SV.nil]⟩
  | some t =>
    obtain ⟨rowLen, off, len, fhi⟩ := t
    refine ⟨Nat.le_succ _, ?_, ?_⟩
    · intro x hx; simp [fileRowEff] at hx; subst hx; rfl
    · intro v hv; simp [fileRowEff] at hv; subst hv; rfl

theorem queryRowEff_inv (n0 : Nat) (fe ex : Ex) (sm : SM) (tres tb qres asOf hi stride : Int) (st : QState) (r : SrcRow)
    (h : QInv n0 st) : QInv n0 (queryRowEff fe ex sm tres tb qres asOf hi stride st r) := by
  obtain ⟨hn, hw, ho⟩ := h
  unfold queryRowEff
  extract_lets f m n2 sub
  have hf := fileRowEff_spec st.n r.file
  have hfn : n0 ≤ f.n := Nat.le_trans hn hf.1
  have hmw := mergeEff_writes_fresh f.n f.col r.mem fe.bytes tres tb
  have hn2 : n0 ≤ n2 := Nat.le_trans hfn (Nat.le_add_right _ _)
  have hs := subMergeEff_spec n2 ex fe sm qres tres st.out m.out r.pt asOf hi stride
  refine ⟨Nat.le_trans hn2 (Nat.le_add_right _ _), ?_, ?_⟩
  · intro x hx
    simp only [List.mem_append] at hx
    rcases hx with ((h | h) | h) | h
    · exact hw x h
    · rw [hf.2.1 x h]; exact hn
    · have : x.buf = f.n := hmw x h
      rw [this]; exact hfn
    · rcases hs.1 x h with h | ⟨v, hv, hb⟩
      · exact Nat.le_trans hn2 h
      · rw [hb]; exact ho v hv
  · intro v hv
    rcases hs.2 with h | ⟨v', hv', hfrom⟩
    · have hv2 : st.out.sl = some v := by
        have : sub.out = st.out := h
        rw [← this]; exact hv
      exact ho v hv2
    · have : v' = v := by
        have h1 : sub.out.sl = some v' := hv'
        have h2 : sub.out.sl = some v := hv
        rw [h1] at h2; exact Option.some.inj h2
      subst this
      rcases hfrom with h | ⟨o, ho', hb⟩
      · exact Nat.le_trans hn2 h
      · rw [hb]; exact ho o ho'

theorem queryRows_inv (n0 : Nat) (fe ex : Ex) (sm : SM) (tres tb qres asOf hi stride : Int) (rows : List SrcRow) :
    ∀ st, QInv n0 st → QInv n0 (rows.foldl (queryRowEff fe ex sm tres tb qres asOf hi stride) st) := by
  induction rows with
  | nil => intro st h; exact h
  | cons r rs ih => intro st h; exact ih _ (queryRowEff_inv n0 fe ex sm tres tb qres asOf hi stride st r h)

/-! ### heaps with contents (only used to say what "unchanged" means) -/

/-- byte `o` of buffer `b` lies inside one of the writes -/
def Touches (ws : List Write) (b o : Nat) : Prop := ∃ x ∈ ws, x.buf = b ∧ x.off ≤ o ∧ o < x.off + x.len

/-- `h'` is a heap the execution of `ws` on `h` can produce: whatever is stored, bytes
    outside the written ranges keep their value -/
def Agrees (h h' : Nat → Nat → UInt8) (ws : List Write) : Prop :=
  ∀ b o, ¬ Touches ws b o → h' b o = h b o

/-! ### Tree.Copy -/

theorem copyColsEff_nil (b off : Nat) : copyColsEff b off [] = ([], []) := rfl

theorem copyColsEff_none (b off : Nat) (s : SV) (ss : List SV) (hs : s.sl = none) :
    copyColsEff b off (s :: ss) = (⟨none, s.hi⟩ :: (copyColsEff b off ss).1, (copyColsEff b off ss).2) := by
  simp [copyColsEff, hs]

theorem copyColsEff_some (b off : Nat) (s : SV) (ss : List SV) (v : View) (hs : s.sl = some v) :
    copyColsEff b off (s :: ss) =
      (⟨some ⟨b, off, v.len, v.len⟩, s.hi⟩ :: (copyColsEff b (off + v.len) ss).1,
        ⟨b, off, v.len⟩ :: (copyColsEff b (off + v.len) ss).2) := by
  simp [copyColsEff, hs]

/-- what `copyData`'s loop produces: views with the same length and `until` as the originals,
    all inside buffer `b`, consecutive from `off` (`cap = len`), and writes into `b` only -/
theorem copyColsEff_spec (b : Nat) : ∀ (cols : List SV) (off : Nat),
    (copyColsEff b off cols).1.map (fun s => (s.sl.isSome, s.len, s.hi)) = cols.map (fun s => (s.sl.isSome, s.len, s.hi)) ∧
    (∀ s' ∈ (copyColsEff b off cols).1, ∀ v', s'.sl = some v' →
      v'.buf = b ∧ v'.cap = v'.len ∧ off ≤ v'.off ∧ v'.off + v'.len ≤ off + colsTotal cols) ∧
    (∀ w ∈ (copyColsEff b off cols).2, w.buf = b ∧ off ≤ w.off ∧ w.off + w.len ≤ off + colsTotal cols) := by
  intro cols
  induction cols with
  | nil => intro off; simp [copyColsEff_nil]
  | cons s ss ih =>
    intro off
    cases hs : s.sl with
    | none =>
      have h := ih off
      have hl : s.len = 0 := by simp [SV.len, Sl.len, hs]
      have htot : colsTotal (s :: ss) = colsTotal ss := by simp [colsTotal, hl]
      rw [copyColsEff_none b off s ss hs, htot]
      refine ⟨?_, ?_, h.2.2⟩
      · simp only [List.map_cons, h.1, hs, hl]
        simp [SV.len, Sl.len]
      · intro s' hs' v' hv'
        rcases List.mem_cons.mp hs' with rfl | hs'
        · simp at hv'
        · exact h.2.1 s' hs' v' hv'
    | some v =>
      have h := ih (off + v.len)
      have hl : s.len = v.len := by simp [SV.len, Sl.len, hs]
      have htot : colsTotal (s :: ss) = v.len + colsTotal ss := by simp [colsTotal, hl]
      rw [copyColsEff_some b off s ss v hs, htot]
      refine ⟨?_, ?_, ?_⟩
      · simp only [List.map_cons, h.1, hs, hl]
        simp [SV.len, Sl.len]
      · intro s' hs' v' hv'
        rcases List.mem_cons.mp hs' with rfl | hs'
        · simp only [Option.some.injEq] at hv'
          subst hv'
          exact ⟨rfl, rfl, Nat.le_refl _, by simp only; omega⟩
        · have := h.2.1 s' hs' v' hv'
          exact ⟨this.1, this.2.1, by omega, by omega⟩
      · intro w hw
        rcases List.mem_cons.mp hw with rfl | hw
        · exact ⟨rfl, Nat.le_refl _, by simp only; omega⟩
        · have := h.2.2 w hw
          exact ⟨this.1, by omega, by omega⟩

theorem treeCopyEff_nil (nObj nArr n : Nat) : treeCopyEff nObj nArr n [] = ⟨[], [], []⟩ := rfl

theorem treeCopyEff_none (nObj nArr n : Nat) (a : TNode) (as : List TNode) (hd : a.data = none) :
    treeCopyEff nObj nArr n (a :: as) =
      ⟨⟨nObj, a.dataArr, none⟩ :: (treeCopyEff (nObj + 1) nArr n as).nodes,
        (treeCopyEff (nObj + 1) nArr n as).allocs, (treeCopyEff (nObj + 1) nArr n as).writes⟩ := by
  simp [treeCopyEff, hd]

theorem treeCopyEff_some (nObj nArr n : Nat) (a : TNode) (as : List TNode) (cols : List SV) (hd : a.data = some cols) :
    treeCopyEff nObj nArr n (a :: as) =
      ⟨⟨nObj, nArr, some (copyColsEff n 0 cols).1⟩ :: (treeCopyEff (nObj + 1) (nArr + 1) (n + 1) as).nodes,
        colsTotal cols :: (treeCopyEff (nObj + 1) (nArr + 1) (n + 1) as).allocs,
        (copyColsEff n 0 cols).2 ++ (treeCopyEff (nObj + 1) (nArr + 1) (n + 1) as).writes⟩ := by
  simp [treeCopyEff, hd]

/-- every view of the copy lies in one of the fresh buffers `[n, n + #allocs)`, and so does
    every write of the copy -/
theorem treeCopyEff_fresh : ∀ (t : List TNode) (nObj nArr n : Nat),
    (∀ nd ∈ (treeCopyEff nObj nArr n t).nodes, ∀ cols, nd.data = some cols → ∀ s' ∈ cols, ∀ v', s'.sl = some v' →
      n ≤ v'.buf ∧ v'.buf < n + (treeCopyEff nObj nArr n t).allocs.length ∧ v'.cap = v'.len) ∧
    (∀ w ∈ (treeCopyEff nObj nArr n t).writes,
      n ≤ w.buf ∧ w.buf < n + (treeCopyEff nObj nArr n t).allocs.length) := by
  intro t
  induction t with
  | nil => intro nObj nArr n; simp [treeCopyEff_nil]
  | cons a as ih =>
    intro nObj nArr n
    cases hd : a.data with
    | none =>
      have h := ih (nObj + 1) nArr n
      rw [treeCopyEff_none nObj nArr n a as hd]
      refine ⟨?_, h.2⟩
      intro nd hnd cols hcols s' hs' v' hv'
      rcases List.mem_cons.mp hnd with rfl | hnd
      · simp at hcols
      · exact h.1 nd hnd cols hcols s' hs' v' hv'
    | some cols0 =>
      have h := ih (nObj + 1) (nArr + 1) (n + 1)
      have hc := copyColsEff_spec n cols0 0
      rw [treeCopyEff_some nObj nArr n a as cols0 hd]
      simp only [List.length_cons]
      constructor
      · intro nd hnd cols hcols s' hs' v' hv'
        rcases List.mem_cons.mp hnd with rfl | hnd
        · simp only [Option.some.injEq] at hcols
          subst hcols
          have := hc.2.1 s' hs' v' hv'
          exact ⟨by omega, by omega, this.2.1⟩
        · have := h.1 nd hnd cols hcols s' hs' v' hv'
          exact ⟨by omega, by omega, this.2.2⟩
      · intro w hw
        rcases List.mem_append.mp hw with hw | hw
        · have := hc.2.2 w hw
          exact ⟨by omega, by omega⟩
        · have := h.2 w hw
          exact ⟨by omega, by omega⟩

/-- shape of one node's data: nil-ness, and per column (is non-nil, length, until) -/
def TNode.shape (nd : TNode) : Option (List (Bool × Nat × Int)) :=
  nd.data.map (fun cols => cols.map (fun s => (s.sl.isSome, s.len, s.hi)))

theorem range_shift (nObj k : Nat) :
    (List.range (k + 1)).map (· + nObj) = nObj :: (List.range k).map (· + (nObj + 1)) := by
  rw [List.range_succ_eq_map]
  simp only [List.map_cons, List.map_map, Nat.zero_add, List.cons.injEq, true_and]
  apply List.map_congr_left
  intro i _
  simp only [Function.comp]
  omega

/-- the copy has the shape of the original (same nil-ness, lengths and `until`s), new node
    objects, a new `[]Sequence` array for every node that has data, and one buffer of the
    summed length per such node -/
theorem treeCopyEff_shape : ∀ (t : List TNode) (nObj nArr n : Nat),
    (treeCopyEff nObj nArr n t).nodes.map TNode.shape = t.map TNode.shape ∧
    (treeCopyEff nObj nArr n t).nodes.map (·.obj) = (List.range t.length).map (· + nObj) ∧
    (∀ nd ∈ (treeCopyEff nObj nArr n t).nodes, nd.data ≠ none → nArr ≤ nd.dataArr) ∧
    (treeCopyEff nObj nArr n t).allocs = t.filterMap (fun nd => nd.data.map colsTotal) := by
  intro t
  induction t with
  | nil => intro nObj nArr n; simp [treeCopyEff_nil]
  | cons a as ih =>
    intro nObj nArr n
    cases hd : a.data with
    | none =>
      have h := ih (nObj + 1) nArr n
      rw [treeCopyEff_none nObj nArr n a as hd]
      refine ⟨?_, ?_, ?_, ?_⟩
      · simp only [List.map_cons, h.1, TNode.shape, hd, Option.map_none]
      · simp only [List.map_cons, h.2.1, List.length_cons, range_shift]
      · intro nd hnd hne
        rcases List.mem_cons.mp hnd with rfl | hnd
        · exact absurd rfl hne
        · exact h.2.2.1 nd hnd hne
      · simp only [h.2.2.2, List.filterMap_cons, hd, Option.map_none]
    | some cols0 =>
      have h := ih (nObj + 1) (nArr + 1) (n + 1)
      have hc := (copyColsEff_spec n cols0 0).1
      rw [treeCopyEff_some nObj nArr n a as cols0 hd]
      refine ⟨?_, ?_, ?_, ?_⟩
      · simp only [List.map_cons, h.1, TNode.shape, hd, Option.map_some, hc]
      · simp only [List.map_cons, h.2.1, List.length_cons, range_shift]
      · intro nd hnd hne
        rcases List.mem_cons.mp hnd with rfl | hnd
        · exact Nat.le_refl _
        · exact Nat.le_trans (Nat.le_succ _) (h.2.2.1 nd hnd hne)
      · simp only [h.2.2.2, List.filterMap_cons, hd, Option.map_some]

/-- the code before /repo 63b81da: the copy's nodes carry the very same data arrays and views -/
theorem treeCopyEffShared_spec : ∀ (nObj : Nat) (t : List TNode),
    (treeCopyEffShared nObj t).map (·.data) = t.map (·.data) ∧
    (treeCopyEffShared nObj t).map (·.dataArr) = t.map (·.dataArr) ∧
    (treeCopyEffShared nObj t).map (·.obj) = (List.range t.length).map (· + nObj) := by
  intro nObj t
  induction t generalizing nObj with
  | nil => simp [treeCopyEffShared]
  | cons a as ih =>
    have := ih (nObj + 1)
    simp only [treeCopyEffShared, List.map_cons, this.1, this.2.1, this.2.2, List.length_cons, true_and]
    exact (range_shift nObj as.length).symm

end Zeno
