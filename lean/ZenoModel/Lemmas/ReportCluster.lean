/-
Helper lemmas for C13, part 5: queryCluster.  The receive loop keeps an invariant that ties
the statistics (`successful`, `finished`) to what the callback has been fed.
-/
import ZenoModel.Lemmas.ReportFanout
import ZenoModel.Lemmas.ReportList

namespace Zeno.Report

/-! ## partitions -/

/-- without retries a partition's script is a prefix of its rows; all of them when it ends well -/
theorem Part.script_prefix (pt : Part) (hnr : ∀ k, pt.outcome ≠ .retryAfter k) : ∃ k, pt.script = pt.rows.take k := by
  unfold Part.script
  cases ho : pt.outcome with
  | ok => exact ⟨pt.rows.length, by simp⟩
  | noHandler => exact ⟨0, by simp⟩
  | failAfter k => exact ⟨k, rfl⟩
  | silentAfter k => exact ⟨k, rfl⟩
  | retryAfter k => exact absurd ho (hnr k)
  | eofAfter k => exact ⟨k, rfl⟩
  | endErrorAfter k => exact ⟨k, rfl⟩

theorem Part.script_of_final_ok (pt : Part) (hnr : ∀ k, pt.outcome ≠ .retryAfter k) (h : pt.finalErr = some none) :
    pt.script = pt.rows := by
  unfold Part.finalErr at h
  unfold Part.script
  cases ho : pt.outcome with
  | ok => rfl
  | noHandler => rw [ho] at h; simp at h
  | failAfter k => rw [ho] at h; simp at h
  | silentAfter k => rw [ho] at h; simp at h
  | retryAfter k => exact absurd ho (hnr k)
  | eofAfter k => rw [ho] at h; simp at h
  | endErrorAfter k => rw [ho] at h; simp at h

/-- what `nextMsg` can be -/
theorem nextMsg_row {parts : List Part} {c : CState} {p : Nat} {early : Bool} {r : Row}
    (h : nextMsg parts c p early = .row r) :
    ∃ pt, parts[p]? = some pt ∧ pt.script[c.recvd.count p]? = some r := by
  unfold nextMsg at h
  cases hp : parts[p]? with
  | none => rw [hp] at h; cases h
  | some pt =>
    rw [hp] at h
    simp only at h
    by_cases hf : c.finished.contains p = true
    · rw [if_pos hf] at h; cases h
    · rw [if_neg hf] at h
      cases hs : pt.script[c.recvd.count p]? with
      | none =>
        rw [hs] at h
        simp only at h
        cases hfe : pt.finalErr <;> rw [hfe] at h <;> cases h
      | some r' =>
        rw [hs] at h
        simp only at h
        by_cases he : (early && c.stopped) = true
        · rw [if_pos he] at h; cases h
        · rw [if_neg he] at h
          cases h
          exact ⟨pt, rfl, hs⟩

theorem nextMsg_final {parts : List Part} {c : CState} {p : Nat} {early : Bool} {e : Option Err}
    (h : nextMsg parts c p early = .final e) :
    ∃ pt, parts[p]? = some pt ∧ c.finished.contains p = false ∧
      ((c.stopped = true ∧ e = none) ∨ (pt.script.length ≤ c.recvd.count p ∧ pt.finalErr = some e)) := by
  unfold nextMsg at h
  cases hp : parts[p]? with
  | none => rw [hp] at h; cases h
  | some pt =>
    rw [hp] at h
    simp only at h
    by_cases hf : c.finished.contains p = true
    · rw [if_pos hf] at h; cases h
    · rw [if_neg hf] at h
      have hf' : c.finished.contains p = false := by simpa using hf
      cases hs : pt.script[c.recvd.count p]? with
      | none =>
        rw [hs] at h
        simp only at h
        have hlen : pt.script.length ≤ c.recvd.count p := by
          have := List.getElem?_eq_none_iff.mp hs; exact this
        cases hfe : pt.finalErr with
        | none => rw [hfe] at h; cases h
        | some e' =>
          rw [hfe] at h
          cases h
          exact ⟨pt, rfl, hf', Or.inr ⟨hlen, hfe⟩⟩
      | some r' =>
        rw [hs] at h
        simp only at h
        by_cases he : (early && c.stopped) = true
        · rw [if_pos he] at h
          cases h
          have : c.stopped = true := by
            cases hst : c.stopped with
            | true => rfl
            | false => rw [hst] at he; simp at he
          exact ⟨pt, rfl, hf', Or.inl ⟨this, rfl⟩⟩
        · rw [if_neg he] at h; cases h

/-! ## the invariant of the receive loop (flat rows) -/

structure CInv {σ : Type} (parts : List Part) (s : Sink σ) (st0 : σ) (c : CState) (st : σ)
    (acc : List Row) (okFin : List Nat) : Prop where
  fe : c.finalErr = none
  fedOk : c.stopped = false → Fed s st0 acc st Reply.proceed
  fedStop : c.stopped = true → ∃ rep, Fed s st0 acc st rep ∧ rep.err = none ∧ rep.more = false
  accLt : ∀ r, r ∈ acc → r.part < parts.length
  proj : ∀ (p : Nat) (pt : Part), parts[p]? = some pt →
    ∃ j, j ≤ c.recvd.count p ∧ acc.filter (partKey p) = pt.script.take j ∧ (c.stopped = false → j = c.recvd.count p)
  finNodup : c.finished.Nodup
  finLt : ∀ p, p ∈ c.finished → p < parts.length
  cnt : c.finished.length + c.pending = parts.length
  okSub : ∀ p, p ∈ okFin → p ∈ c.finished
  okNodup : okFin.Nodup
  okLen : okFin.length ≤ c.finished.length
  succ : c.successful = okFin.length
  okProp : ∀ (p : Nat) (pt : Part), p ∈ okFin → parts[p]? = some pt →
    c.stopped = true ∨ (pt.script.length ≤ c.recvd.count p ∧ pt.finalErr = some none)
  /-- a finished partition is counted successful or listed as missing -/
  missFin : ∀ p, p ∈ c.finished → p ∈ okFin ∨ c.missing.contains p = true

/-- rows of partition p carry `part = p`; no retries -/
def PartsWf (parts : List Part) : Prop :=
  ∀ (p : Nat) (pt : Part), parts[p]? = some pt → (∀ r : Row, r ∈ pt.rows → r.part = p) ∧ ∀ k, pt.outcome ≠ PartOutcome.retryAfter k

theorem script_part {parts : List Part} (hw : PartsWf parts) {p : Nat} {pt : Part} (hp : parts[p]? = some pt)
    {r : Row} {k : Nat} (h : pt.script[k]? = some r) : r.part = p := by
  obtain ⟨hr, hnr⟩ := hw p pt hp
  obtain ⟨m, hm⟩ := pt.script_prefix hnr
  have : r ∈ pt.script := List.mem_of_getElem? h
  rw [hm] at this
  exact hr r (List.mem_of_mem_take this)

theorem fail_frame (c : CState) (p : Nat) (e : Option Err) (hfe : c.finalErr = none) :
    (c.fail p e).finalErr = none ∧ (c.fail p e).stopped = c.stopped ∧ (c.fail p e).successful = c.successful ∧
    (c.fail p e).finished = c.finished ∧ (c.fail p e).recvd = c.recvd ∧ (c.fail p e).pending = c.pending := by
  simp [CState.fail, hfe]

theorem fail_missing (c : CState) (p : Nat) (e : Option Err) :
    (c.fail p e).missing.contains p = true ∧ ∀ q, c.missing.contains q = true → (c.fail p e).missing.contains q = true := by
  unfold CState.fail
  by_cases h : c.missing.contains p = true
  · rw [if_pos h]
    exact ⟨h, fun q hq => hq⟩
  · rw [if_neg h]
    refine ⟨by simp, fun q hq => ?_⟩
    have : q ∈ c.missing := by simpa using hq
    simp [this]

theorem finish_frame (c : CState) (e : Option Err) :
    (c.finish e).finalErr = c.finalErr ∧ (c.finish e).stopped = c.stopped ∧
    (c.finish e).finished = c.finished ∧ (c.finish e).recvd = c.recvd ∧ (c.finish e).pending = c.pending ∧
    (c.finish e).successful = (if e.isNone then c.successful + 1 else c.successful) ∧
    (c.finish e).missing = c.missing := by
  unfold CState.finish
  split <;> simp_all

/-- a row that is skipped because the consumer has asked to stop -/
theorem CInv.skip {σ : Type} {parts : List Part} {s : Sink σ} {st0 : σ} {c : CState} {st : σ} {acc : List Row} {okFin : List Nat}
    (h : CInv parts s st0 c st acc okFin) (p : Nat) (hs : c.stopped = true) :
    CInv parts s st0 { c with recvd := p :: c.recvd } st acc okFin where
  fe := h.fe
  fedOk := fun hn => by simp [hs] at hn
  fedStop := h.fedStop
  accLt := h.accLt
  proj := by
    intro q pt hq
    obtain ⟨j, hj, hf, _⟩ := h.proj q pt hq
    refine ⟨j, ?_, hf, fun hn => by simp [hs] at hn⟩
    simp only [List.count_cons]
    omega
  finNodup := h.finNodup
  finLt := h.finLt
  cnt := h.cnt
  okSub := h.okSub
  okNodup := h.okNodup
  okLen := h.okLen
  succ := h.succ
  okProp := fun q pt hq hpt => Or.inl hs
  missFin := h.missFin

/-- a row that is delivered; `stop` = the consumer answered `false, nil` -/
theorem CInv.deliver {σ : Type} {parts : List Part} (hw : PartsWf parts) {s : Sink σ} {st0 : σ} {c : CState} {st : σ}
    {acc : List Row} {okFin : List Nat} (h : CInv parts s st0 c st acc okFin) (p : Nat) (pt : Part) (r : Row)
    (hp : parts[p]? = some pt) (hr : pt.script[c.recvd.count p]? = some r) (hs : c.stopped = false)
    {now d1 : Nat} {st1 : σ} {rep : Reply} (hcall : s.onRow st now r = (st1, d1, rep)) (he : rep.err = none) :
    CInv parts s st0 { c with recvd := p :: c.recvd, stopped := !rep.more } st1 (acc ++ [r]) okFin := by
  have hpart : r.part = p := script_part hw hp hr
  have hplt : p < parts.length := by
    have := List.getElem?_eq_some_iff.mp hp; exact this.1
  refine
    { fe := h.fe, fedOk := ?_, fedStop := ?_, accLt := ?_, proj := ?_, finNodup := h.finNodup, finLt := h.finLt,
      cnt := h.cnt, okSub := h.okSub, okNodup := h.okNodup, okLen := h.okLen, succ := h.succ, okProp := ?_,
      missFin := h.missFin }
  · intro hn
    have hm : rep.more = true := by simpa using hn
    have hk : rep.ok = true := by simp [Reply.ok, hm, he]
    exact Fed.append (h.fedOk hs) rfl (Fed.cons hcall hk (Fed.nil _))
  · intro hn
    have hm : rep.more = false := by simpa using hn
    have hk : rep.ok = false := by simp [Reply.ok, hm]
    exact ⟨rep, Fed.append (h.fedOk hs) rfl (Fed.last hcall hk), he, hm⟩
  · intro x hx
    rcases List.mem_append.mp hx with h1 | h1
    · exact h.accLt x h1
    · simp at h1; subst h1; rw [hpart]; exact hplt
  · intro q qt hq
    obtain ⟨j, hj, hf, hjj⟩ := h.proj q qt hq
    have hje := hjj hs
    by_cases hqp : q = p
    · subst hqp
      rw [hp] at hq; cases hq
      refine ⟨c.recvd.count q + 1, by simp, ?_, fun _ => by simp⟩
      rw [List.filter_append, hf, hje]
      have : [r].filter (partKey q) = [r] := by simp [partKey, hpart]
      rw [this, take_succ_of_getElem? _ _ _ hr]
    · refine ⟨j, ?_, ?_, fun _ => ?_⟩
      · simp only [List.count_cons]; omega
      · rw [List.filter_append, hf]
        have : [r].filter (partKey q) = [] := by
          simp [partKey, hpart]; exact fun h => hqp h.symm
        rw [this, List.append_nil]
      · rw [hje]; simp [List.count_cons]
        intro h; exact absurd h.symm hqp
  · intro q qt hq hqt
    rcases h.okProp q qt hq hqt with h1 | ⟨h1, h2⟩
    · rw [hs] at h1; cases h1
    · right
      refine ⟨?_, h2⟩
      simp only [List.count_cons]; omega

/-- a partition's final result -/
theorem CInv.final {σ : Type} {parts : List Part} {s : Sink σ} {st0 : σ} {c : CState} {st : σ}
    {acc : List Row} {okFin : List Nat} (h : CInv parts s st0 c st acc okFin) (p : Nat) (pt : Part) (e : Option Err)
    (hp : parts[p]? = some pt) (hnf : c.finished.contains p = false) (hpend : c.pending ≠ 0)
    (hwhy : (c.stopped = true ∧ e = none) ∨ (pt.script.length ≤ c.recvd.count p ∧ pt.finalErr = some e)) :
    ∃ okFin', CInv parts s st0
      { ((if e.isSome then c.fail p e else c).finish e) with
          pending := ((if e.isSome then c.fail p e else c).finish e).pending - 1,
          finished := p :: ((if e.isSome then c.fail p e else c).finish e).finished } st acc okFin' := by
  have hplt : p < parts.length := (List.getElem?_eq_some_iff.mp hp).1
  have hpnf : p ∉ c.finished := by
    intro hm
    have : c.finished.contains p = true := by simpa using hm
    rw [this] at hnf; cases hnf
  generalize hc1 : (if e.isSome then c.fail p e else c) = c1
  have f1 : c1.finalErr = none ∧ c1.stopped = c.stopped ∧ c1.successful = c.successful ∧
      c1.finished = c.finished ∧ c1.recvd = c.recvd ∧ c1.pending = c.pending := by
    rw [← hc1]
    split
    · exact fail_frame c p e h.fe
    · exact ⟨h.fe, rfl, rfl, rfl, rfl, rfl⟩
  obtain ⟨a1, a2, a3, a4, a5, a6⟩ := f1
  obtain ⟨b1, b2, b3, b4, b5, b6, b7⟩ := finish_frame c1 e
  have hmiss : (e.isSome = true → c1.missing.contains p = true) ∧ ∀ q, c.missing.contains q = true → c1.missing.contains q = true := by
    rw [← hc1]
    split
    · rename_i hes
      exact ⟨fun _ => (fail_missing c p e).1, (fail_missing c p e).2⟩
    · rename_i hes
      exact ⟨fun h => absurd h hes, fun q hq => hq⟩
  refine ⟨if e.isNone then p :: okFin else okFin, ?_⟩
  refine
    { fe := by simp [b1, a1], fedOk := ?_, fedStop := ?_, accLt := h.accLt, proj := ?_, finNodup := ?_, finLt := ?_,
      cnt := ?_, okSub := ?_, okNodup := ?_, okLen := ?_, succ := ?_, okProp := ?_, missFin := ?_ }
  · intro hn; simp only [b2, a2] at hn; exact h.fedOk hn
  · intro hn; simp only [b2, a2] at hn; exact h.fedStop hn
  · intro q qt hq
    simp only [b4, a5, b2, a2]
    exact h.proj q qt hq
  · simp only [b3, a4]
    exact List.nodup_cons.mpr ⟨hpnf, h.finNodup⟩
  · simp only [b3, a4]
    intro q hq
    rcases List.mem_cons.mp hq with h1 | h1
    · subst h1; exact hplt
    · exact h.finLt q h1
  · simp only [b3, a4, b5, a6, List.length_cons]
    have := h.cnt
    omega
  · intro q hq
    simp only [b3, a4]
    split at hq
    · rcases List.mem_cons.mp hq with h1 | h1
      · subst h1; simp
      · exact List.mem_cons_of_mem _ (h.okSub q h1)
    · exact List.mem_cons_of_mem _ (h.okSub q hq)
  · split
    · exact List.nodup_cons.mpr ⟨fun hm => hpnf (h.okSub p hm), h.okNodup⟩
    · exact h.okNodup
  · simp only [b3, a4, List.length_cons]
    have := h.okLen
    split <;> simp <;> omega
  · simp only [b6, a3]
    split <;> simp [h.succ]
  · intro q qt hq hqt
    simp only [b2, a2, b4, a5]
    split at hq
    · rename_i hen
      rcases List.mem_cons.mp hq with h1 | h1
      · subst h1
        rw [hp] at hqt; cases hqt
        have hen' : e = none := by cases e <;> simp_all
        rcases hwhy with ⟨hs, _⟩ | ⟨hl, hf⟩
        · exact Or.inl hs
        · exact Or.inr ⟨hl, by rw [hf, hen']⟩
      · exact h.okProp q qt h1 hqt
    · exact h.okProp q qt hq hqt
  · intro q hq
    simp only [b3, a4] at hq
    simp only [b7]
    rcases List.mem_cons.mp hq with h1 | h1
    · subst h1
      cases he : e with
      | none => left; simp
      | some e' => right; exact hmiss.1 (by simp [he])
    · rcases h.missFin q h1 with h2 | h2
      · left; split
        · exact List.mem_cons_of_mem _ h2
        · exact h2
      · right; exact hmiss.2 q h2

theorem foldl_fail_successful (l : List Nat) (c : CState) :
    (l.foldl (fun c p => c.fail p (some Err.deadline)) c).successful = c.successful := by
  induction l generalizing c with
  | nil => rfl
  | cons a t ih => rw [List.foldl_cons, ih]; simp [CState.fail]

theorem timeout_contra {σ : Type} {parts : List Part} {s : Sink σ} {st0 : σ} {c : CState} {st : σ} {acc : List Row}
    {okFin : List Nat} (hinv : CInv parts s st0 c st acc okFin) (hp : ¬(c.pending == 0) = true)
    (hsucc : parts.length ≤ (timeoutFail parts.length c).successful) : False := by
  unfold timeoutFail at hsucc
  rw [foldl_fail_successful] at hsucc
  have h3 := hinv.cnt
  have h4 := hinv.succ
  have hp' : c.pending ≠ 0 := by simpa using hp
  have h5 := hinv.okLen
  omega

/-- one event keeps the invariant (or ends the loop with an error / a contradiction) -/
theorem cluster_step {σ : Type} (parts : List Part) (hw : PartsWf parts) (s : Sink σ) (st0 : σ)
    (c : CState) (st : σ) (now : Nat) (acc : List Row) (okFin : List Nat) (ev : CEvent)
    (hinv : CInv parts s st0 c st acc okFin) (hp : ¬(c.pending == 0) = true) :
    match clusterStep parts false s c st now ev with
    | .halt _ _ e _ => e ≠ none ∨ ev = .timeout
    | .next c1 st1 _ => ∃ acc' okFin', CInv parts s st0 c1 st1 acc' okFin' := by
  cases ev with
  | timeout =>
    exact Or.inr rfl
  | tick dd => exact ⟨acc, okFin, hinv⟩
  | msg p early =>
    simp only [clusterStep]
    cases hm : nextMsg parts c p early with
    | nothing => exact ⟨acc, okFin, hinv⟩
    | final e0 =>
      simp only
      obtain ⟨pt, hpt, hnf, hwhy⟩ := nextMsg_final hm
      obtain ⟨okFin', hinv'⟩ := hinv.final p pt e0 hpt hnf (by simpa using hp) hwhy
      exact ⟨acc, okFin', hinv'⟩
    | row r =>
      simp only
      obtain ⟨pt, hpt, hscr⟩ := nextMsg_row hm
      unfold rowStep
      by_cases hskip : (c.stopped || c.finalErr.isSome) = true
      · rw [if_pos hskip]
        have hs : c.stopped = true := by
          rw [hinv.fe] at hskip; simpa using hskip
        exact ⟨acc, okFin, hinv.skip p hs⟩
      · rw [if_neg hskip]
        have hs : c.stopped = false := by
          rw [hinv.fe] at hskip; simpa using hskip
        generalize hcall : s.onRow st now r = res
        obtain ⟨st1, d1, rep⟩ := res
        simp only [Bool.false_eq_true, if_false]
        cases hre : rep.err with
        | some e1 => simp
        | none =>
          simp only
          have hd := hinv.deliver hw p pt r hpt hscr hs hcall hre
          by_cases hmore : rep.more = true
          · simp only [hmore, Bool.not_true, Bool.false_eq_true, if_false]
            simp only [hmore, Bool.not_true] at hd
            have hcs : ({ c with recvd := p :: c.recvd, stopped := false } : CState) = { c with recvd := p :: c.recvd } := by
              cases c; simp_all
            rw [hcs] at hd
            exact ⟨_, okFin, hd⟩
          · have hmore' : rep.more = false := by simpa using hmore
            simp only [hmore', Bool.not_false, if_true]
            simp only [hmore', Bool.not_false] at hd
            exact ⟨_, okFin, hd⟩

/-- the receive loop, run from a state satisfying the invariant, and ending without error
    and with every partition counted successful, ends in such a state with nothing pending -/
theorem cluster_run {σ : Type} (parts : List Part) (hw : PartsWf parts) (s : Sink σ) (st0 : σ) :
    ∀ (evs : List CEvent) (c : CState) (st : σ) (now : Nat) (acc : List Row) (okFin : List Nat),
      CInv parts s st0 c st acc okFin →
      ∀ (st' : σ) (d : Nat) (e : Option Err) (c' : CState),
        clusterLoop parts false s c st now evs = (st', d, e, c') → e = none → parts.length ≤ c'.successful →
        ∃ acc' okFin', CInv parts s st0 c' st' acc' okFin' ∧ c'.pending = 0 := by
  intro evs
  induction evs with
  | nil =>
    intro c st now acc okFin hinv st' d e c' hrun he hsucc
    unfold clusterLoop at hrun
    by_cases hp : (c.pending == 0) = true
    · rw [if_pos hp] at hrun
      simp only [Prod.mk.injEq] at hrun
      obtain ⟨rfl, _, _, rfl⟩ := hrun
      exact ⟨acc, okFin, hinv, by simpa using hp⟩
    · rw [if_neg hp] at hrun
      simp only [Prod.mk.injEq] at hrun
      obtain ⟨_, _, _, rfl⟩ := hrun
      exact (timeout_contra hinv hp hsucc).elim
  | cons ev rest ih =>
    intro c st now acc okFin hinv st' d e c' hrun he hsucc
    unfold clusterLoop at hrun
    by_cases hp : (c.pending == 0) = true
    · rw [if_pos hp] at hrun
      simp only [Prod.mk.injEq] at hrun
      obtain ⟨rfl, _, _, rfl⟩ := hrun
      exact ⟨acc, okFin, hinv, by simpa using hp⟩
    · rw [if_neg hp] at hrun
      have hstep := cluster_step parts hw s st0 c st now acc okFin ev hinv hp
      generalize hstp : clusterStep parts false s c st now ev = stp at hrun hstep
      cases stp with
      | halt st1 d1 e1 c1 =>
        simp only [Prod.mk.injEq] at hrun
        obtain ⟨_, _, rfl, rfl⟩ := hrun
        rcases hstep with h | h
        · exact absurd he h
        · subst h
          simp only [clusterStep, CStep.halt.injEq] at hstp
          obtain ⟨_, _, _, rfl⟩ := hstp
          exact (timeout_contra hinv hp hsucc).elim
      | next c1 st1 d1 =>
        simp only at hrun hstep
        obtain ⟨acc', okFin', hinv'⟩ := hstep
        generalize hrec : clusterLoop parts false s c1 st1 (now + d1) rest = rr at hrun
        obtain ⟨ra, rb, rc, rd⟩ := rr
        simp only [Prod.mk.injEq] at hrun
        obtain ⟨rfl, _, rfl, rfl⟩ := hrun
        exact ih c1 st1 (now + d1) acc' okFin' hinv' _ _ _ _ hrec he hsucc

/-! ## from the final state to the contract -/

theorem Cluster.Out_iff (c : Cluster) (l : List Row) :
    c.Out l ↔ (∀ r, r ∈ l → r.part < c.parts.length) ∧
      ∀ (p : Nat) (pt : Part), c.parts[p]? = some pt → l.filter (partKey p) = pt.rows := by
  unfold Cluster.Out
  constructor
  · rintro ⟨h1, h2⟩
    refine ⟨h1, fun p pt hp => ?_⟩
    have hlt : p < c.parts.length := (List.getElem?_eq_some_iff.mp hp).1
    have := h2 p hlt
    rw [List.getD_eq_getElem?_getD, hp] at this
    exact this
  · rintro ⟨h1, h2⟩
    refine ⟨h1, fun p hlt => ?_⟩
    have hp : c.parts[p]? = some c.parts[p] := List.getElem?_eq_getElem hlt
    rw [List.getD_eq_getElem?_getD, hp]
    exact h2 p _ hp

theorem cluster_final {σ : Type} (c0 : Cluster) (hw : PartsWf c0.parts) (s : Sink σ) (st0 : σ) (c : CState) (st : σ)
    (acc : List Row) (okFin : List Nat) (hinv : CInv c0.parts s st0 c st acc okFin)
    (hsucc : c0.parts.length ≤ c.successful) : ∃ l, c0.Out l ∧ Polite s st0 l st := by
  have hall : ∀ p, p < c0.parts.length → p ∈ okFin :=
    nodup_full _ okFin hinv.okNodup (fun x hx => hinv.finLt x (hinv.okSub x hx)) (by rw [← hinv.succ]; exact hsucc)
  cases hs : c.stopped with
  | false =>
    refine ⟨acc, (c0.Out_iff acc).mpr ⟨hinv.accLt, fun p pt hp => ?_⟩, ?_⟩
    · have hlt : p < c0.parts.length := (List.getElem?_eq_some_iff.mp hp).1
      obtain ⟨j, _, hf, hj⟩ := hinv.proj p pt hp
      rcases hinv.okProp p pt (hall p hlt) hp with h | ⟨hl, hfe⟩
      · rw [hs] at h; cases h
      · rw [hf, hj hs, List.take_of_length_le hl]
        exact pt.script_of_final_ok (hw p pt hp).2 hfe
    · exact ⟨acc.length, Reply.proceed, by simpa using hinv.fedOk hs, rfl, fun _ => Nat.le_refl _⟩
  | true =>
    obtain ⟨rep, hf, he, hm⟩ := hinv.fedStop hs
    have hj : ∀ (p : Nat) (pt : Part), c0.parts[p]? = some pt → ∃ j, acc.filter (partKey p) = pt.rows.take j := by
      intro p pt hp
      obtain ⟨j, _, hf', _⟩ := hinv.proj p pt hp
      obtain ⟨k, hk⟩ := pt.script_prefix (hw p pt hp).2
      exact ⟨min j k, by rw [hf', hk, List.take_take]⟩
    obtain ⟨rest, hr, hp⟩ := extend_out c0.parts (fun p pt h => (hw p pt h).1) acc hinv.accLt hj c0.parts.length (Nat.le_refl _)
    refine ⟨acc ++ rest, (c0.Out_iff _).mpr ⟨?_, fun p pt hpt => hp p pt (List.getElem?_eq_some_iff.mp hpt).1 hpt⟩, ?_⟩
    · intro r hm'
      rcases List.mem_append.mp hm' with h | h
      · exact hinv.accLt r h
      · exact hr r h
    · exact ⟨acc.length, rep, by simpa using hf, he, fun h => by rw [hm] at h; cases h⟩

theorem CInv.init {σ : Type} (parts : List Part) (s : Sink σ) (st0 : σ) :
    CInv parts s st0 { pending := parts.length } st0 [] [] where
  fe := rfl
  fedOk := fun _ => Fed.nil _
  fedStop := fun h => by cases h
  accLt := fun r h => by cases h
  proj := fun p pt _ => ⟨0, Nat.zero_le _, by simp, fun _ => by simp⟩
  finNodup := List.nodup_nil
  finLt := fun p h => by cases h
  cnt := by simp
  okSub := fun p h => by cases h
  okNodup := List.nodup_nil
  okLen := Nat.le_refl _
  succ := rfl
  okProp := fun p pt h => by cases h
  missFin := fun p h => by cases h

theorem Cluster.wf_parts (c : Cluster) (hw : c.wf) : PartsWf c.parts := hw

theorem cluster_out_exists (c : Cluster) (hw : c.wf) : ∃ l, c.Out l := by
  obtain ⟨rest, hr, hp⟩ := extend_out c.parts (fun p pt h => (hw p pt h).1) [] (fun r h => by cases h)
    (fun p pt _ => ⟨0, by simp⟩) c.parts.length (Nat.le_refl _)
  exact ⟨[] ++ rest, (c.Out_iff _).mpr ⟨fun r h => hr r (by simpa using h),
    fun p pt hpt => hp p pt (List.getElem?_eq_some_iff.mp hpt).1 hpt⟩⟩

theorem stats_not_partial (c : CState) (n : Nat) (h : (c.stats n).partial_ = false) : n ≤ c.successful := by
  simp only [CState.stats, Stats.partial_] at h
  have := of_decide_eq_false h
  omega

theorem cluster_loop_inv {σ : Type} (c : Cluster) (hw : c.wf) (s : Sink σ) (st : σ) (now : Nat) (st' : σ) (d : Nat)
    (e : Option Err) (c' : CState)
    (hrun : clusterLoop c.parts false s { pending := c.parts.length } st now c.events = (st', d, e, c'))
    (he : e = none) (hs : (c'.stats c.parts.length).partial_ = false) : ∃ l, c.Out l ∧ Polite s st l st' := by
  obtain ⟨acc, okFin, hinv, _⟩ := cluster_run c.parts hw s st c.events _ st now [] [] (CInv.init c.parts s st) _ _ _ _ hrun he
    (stats_not_partial _ _ hs)
  exact cluster_final c hw s st c' st' acc okFin hinv (stats_not_partial _ _ hs)

theorem cluster_flat_inv {σ : Type} (c : Cluster) (hw : c.wf) (hf : c.unflat = false) (s : Sink σ) (st : σ) (now : Nat)
    (h : (clusterIterate c s st now).told = false) :
    ∃ l, c.Out l ∧ Polite s st l (clusterIterate c s st now).st := by
  unfold clusterIterate at h ⊢
  rw [hf] at h ⊢
  generalize hrun : clusterLoop c.parts false s { pending := c.parts.length } st now c.events = res at h ⊢
  obtain ⟨st', d, e, c'⟩ := res
  simp only at h ⊢
  have ht : e = none ∧ (c'.stats c.parts.length).partial_ = false := by
    unfold Res.told at h
    simp only [Bool.or_eq_false_iff] at h
    exact ⟨by simpa using h.1, h.2⟩
  exact cluster_loop_inv c hw s st now st' d e c' hrun ht.1 ht.2

/-! ## unflat rows into group's collector: the dropped error loses no row -/

def collectAll : Sink (List Row) where
  onRow := fun acc _ r => (acc ++ [r], 0, Reply.proceed)

theorem collectAll_fed : ∀ (rows acc acc' : List Row) (rep : Reply),
    Fed collectAll acc rows acc' rep → acc' = acc ++ rows := by
  intro rows acc acc' rep h
  induction h with
  | nil _ => simp
  | last hr _ =>
    simp only [collectAll, Prod.mk.injEq] at hr
    obtain ⟨rfl, _, _⟩ := hr
    rfl
  | cons hr _ _ ih =>
    simp only [collectAll, Prod.mk.injEq] at hr
    obtain ⟨rfl, _, _⟩ := hr
    simp [ih]

theorem collectAll_polite {acc acc' l : List Row} (h : Polite collectAll acc l acc') : acc' = acc ++ l := by
  obtain ⟨m, rep, hf, he, hc⟩ := h
  have h1 := collectAll_fed _ _ _ _ hf
  -- collectAll never asks to stop
  have hm : rep.more = true := by
    clear h1 hc he
    generalize hl : l.take m = rows at hf
    clear hl
    induction hf with
    | nil _ => rfl
    | last hr hk =>
      simp only [collectAll, Prod.mk.injEq] at hr
      obtain ⟨_, _, rfl⟩ := hr
      rfl
    | cons _ _ _ ih => exact ih
  rw [h1, List.take_of_length_le (hc hm)]

theorem step_collect_eq (parts : List Part) (g : Guard) (c : CState) (st : List Row) (now : Nat) (ev : CEvent) :
    clusterStep parts true (collectSink g) c st now ev = clusterStep parts false collectAll c st now ev := by
  cases ev with
  | timeout => rfl
  | tick d => rfl
  | msg p early =>
    simp only [clusterStep]
    cases nextMsg parts c p early with
    | nothing => rfl
    | final e => rfl
    | row r =>
      simp only [rowStep, collectSink, collectAll]
      by_cases hskip : (c.stopped || c.finalErr.isSome) = true
      · simp [hskip]
      · simp only [hskip, Bool.false_eq_true, if_false, if_true]
        rcases g.proceed_cases now with hp | hp <;> simp [hp, Reply.proceed, Reply.fail]

theorem loop_collect_eq (parts : List Part) (g : Guard) :
    ∀ (evs : List CEvent) (c : CState) (st : List Row) (now : Nat),
      clusterLoop parts true (collectSink g) c st now evs = clusterLoop parts false collectAll c st now evs
  | [], c, st, now => by simp [clusterLoop]
  | ev :: rest, c, st, now => by
    unfold clusterLoop
    rw [step_collect_eq]
    cases clusterStep parts false collectAll c st now ev with
    | halt _ _ _ _ => rfl
    | next c1 st1 d => simp only [loop_collect_eq parts g rest c1 st1 (now + d)]

theorem cluster_collect (c : Cluster) (hw : c.wf) (g : Guard) (now : Nat)
    (h : (clusterIterate c (collectSink g) [] now).told = false) :
    c.Out (clusterIterate c (collectSink g) [] now).st := by
  cases hu : c.unflat with
  | false =>
    obtain ⟨l, hl, hp⟩ := cluster_flat_inv c hw hu (collectSink g) [] now h
    have := collect_polite g hp
    rw [this]; simpa using hl
  | true =>
    unfold clusterIterate at h ⊢
    rw [hu, loop_collect_eq] at h ⊢
    generalize hrun : clusterLoop c.parts false collectAll { pending := c.parts.length } [] now c.events = res at h ⊢
    obtain ⟨st', d, e, c'⟩ := res
    simp only at h ⊢
    have ht : e = none ∧ (c'.stats c.parts.length).partial_ = false := by
      unfold Res.told at h
      simp only [Bool.or_eq_false_iff] at h
      exact ⟨by simpa using h.1, h.2⟩
    obtain ⟨l, hl, hp⟩ := cluster_loop_inv c hw collectAll [] now st' d e c' hrun ht.1 ht.2
    have := collectAll_polite hp
    rw [this]; simpa using hl

end Zeno.Report
