/-
Refinement: the effect model (Model/SeqHeap.lean) and the value model (Model/Seq.lean,
Model/SubMerge.lean) describe the same function.  `Rep w sv s` says that the Go slice `sv`
(length in bytes, `until` header) is a byte image of the value-level sequence `s` for
states of `w` bytes; every effect function maps represented operands to a represented
result of the value-level function applied to the same arguments.  Core Lean only.
-/
import ZenoModel.Lemmas.SeqHeap
import ZenoModel.Lemmas.Seq

namespace Zeno

/-- `sv` has the geometry of `s`: empty iff `none`, otherwise 8 header bytes + one `w`-byte
    state per period, and the header decodes to `s.hi` -/
def Rep (w : Nat) (sv : SV) (s : Sq) : Prop :=
  match s with
  | none => sv.len = 0
  | some q => sv.len = 8 + q.cells.length * w ∧ sv.hi = q.hi

theorem rep_nil (w : Nat) : Rep w SV.nil none := rfl

theorem rep_some_view {w : Nat} {sv : SV} {q : Seq} (h : Rep w sv (some q)) :
    ∃ v, sv.sl = some v ∧ v.len = 8 + q.cells.length * w ∧ sv.hi = q.hi := by
  obtain ⟨hl, hh⟩ := h
  cases hs : sv.sl with
  | none => simp [SV.len, Sl.len, hs] at hl; omega
  | some v => exact ⟨v, rfl, by simpa [SV.len, Sl.len, hs] using hl, hh⟩

theorem periods_of_len {w k : Nat} (hw : 0 < w) : (8 + k * w - 8) / w = k := by
  rw [Nat.add_sub_cancel_left, Nat.mul_div_cancel _ hw]

theorem rep_numPeriods {w : Nat} (hw : 0 < w) {sv : SV} {s : Sq} (h : Rep w sv s) :
    sv.numPeriods w = s.numPeriods := by
  cases s with
  | none => simp [Rep] at h; simp [SV.numPeriods, h, Sq.numPeriods]
  | some q =>
    obtain ⟨hl, _⟩ := h
    have : sv.len ≠ 0 := by omega
    simp [SV.numPeriods, Sq.numPeriods, hl, Nat.mul_div_cancel _ hw]

theorem rep_until {w : Nat} {sv : SV} {s : Sq} (h : Rep w sv s) : sv.until = s.until := by
  cases s with
  | none => simp [Rep] at h; simp [SV.until, h, Sq.until]
  | some q =>
    obtain ⟨hl, hh⟩ := h
    have : sv.len ≠ 0 := by omega
    simp [SV.until, this, Sq.until, hh]

theorem rep_asOf {w : Nat} (hw : 0 < w) {sv : SV} {s : Sq} (h : Rep w sv s) (res : Int) :
    sv.asOf w res = s.asOf res := by
  cases s with
  | none => simp [Rep] at h; simp [SV.asOf, h, Sq.asOf]
  | some q =>
    have hn := rep_numPeriods hw h
    obtain ⟨hl, hh⟩ := h
    have : sv.len ≠ 0 := by omega
    simp [SV.asOf, this, Sq.asOf, hh, hn, Sq.numPeriods]

/-! ### Truncate -/

/-- both `return nil`, or both continue with the same geometry -/
def RepV (w : Nat) : Option VE → Sq → Prop
  | none, none => True
  | some r, some r' => r.v.len = 8 + r'.cells.length * w ∧ r.hi = r'.hi
  | _, _ => False

theorem truncUntilEff_refines {w : Nat} (hw : 0 < w) (n : Nat) (v : View) (q : Seq) (res h' : Int)
    (hl : v.len = 8 + q.cells.length * w) :
    RepV w (truncUntilEff n v q.hi w res h') (truncUntil q res h') := by
  by_cases h0 : h' ≠ 0
  · by_cases hp : (q.hi - h').tdiv res > 0
    · have hiff : ((q.hi - h').tdiv res).toNat * w + 8 ≥ v.len ↔ ((q.hi - h').tdiv res).toNat ≥ q.cells.length := by
        simp only [hl, ge_iff_le]
        rw [Nat.add_comm 8, Nat.add_le_add_iff_right, Nat.mul_le_mul_right_iff hw]
      by_cases hc : ((q.hi - h').tdiv res).toNat * w + 8 ≥ v.len
      · simp only [truncUntilEff, truncUntil, if_pos h0, if_pos hp, if_pos hc, if_pos (hiff.mp hc), RepV]
      · have hc' := fun h => hc (hiff.mpr h)
        simp only [truncUntilEff, truncUntil, if_pos h0, if_pos hp, if_neg hc, if_neg hc', RepV]
        refine ⟨?_, trivial⟩
        simp only [View.mk', hl, List.length_drop]
        have h1 : ((q.hi - h').tdiv res).toNat < q.cells.length := by omega
        rw [Nat.sub_mul]
        have : ((q.hi - h').tdiv res).toNat * w ≤ q.cells.length * w := Nat.mul_le_mul_right w (by omega)
        omega
    · simp only [truncUntilEff, truncUntil, if_pos h0, if_neg hp, RepV]
      exact ⟨hl, trivial⟩
  · simp only [truncUntilEff, truncUntil, if_neg h0, RepV]
    exact ⟨hl, trivial⟩

theorem truncAsOfEff_refines {w : Nat} (hw : 0 < w) (r : VE) (r' : Seq) (res a' : Int)
    (hl : r.v.len = 8 + r'.cells.length * w) (hh : r.hi = r'.hi) :
    Rep w (truncAsOfEff r w res a').out (truncAsOf r' res a') := by
  have hself : Rep w ⟨some r.v, r.hi⟩ (some r') := ⟨by simpa [SV.len, Sl.len] using hl, hh⟩
  by_cases h0 : a' ≠ 0
  · by_cases hp : (r.hi - a').tdiv res ≤ 0
    · have hp' : (r'.hi - a').tdiv res ≤ 0 := hh ▸ hp
      simp only [truncAsOfEff, truncAsOf, if_pos h0, if_pos hp, if_pos hp']
      rfl
    · have hp' : ¬ (r'.hi - a').tdiv res ≤ 0 := hh ▸ hp
      have hiff : 8 + ((r.hi - a').tdiv res).toNat * w ≥ r.v.len ↔ ((r'.hi - a').tdiv res).toNat ≥ r'.cells.length := by
        simp only [hl, ge_iff_le, hh]
        rw [Nat.add_le_add_iff_left, Nat.mul_le_mul_right_iff hw]
      by_cases hc : 8 + ((r.hi - a').tdiv res).toNat * w ≥ r.v.len
      · simp only [truncAsOfEff, truncAsOf, if_pos h0, if_neg hp, if_neg hp', if_pos hc, if_pos (hiff.mp hc)]
        exact hself
      · have hc' := fun h => hc (hiff.mpr h)
        simp only [truncAsOfEff, truncAsOf, if_pos h0, if_neg hp, if_neg hp', if_neg hc, if_neg hc']
        refine ⟨?_, hh⟩
        simp only [SV.len, Sl.len, View.upto, List.length_take, hh]
        have : ((r'.hi - a').tdiv res).toNat ≤ r'.cells.length := by omega
        rw [Nat.min_eq_left this]
  · simp only [truncAsOfEff, truncAsOf, if_neg h0]
    exact hself

/-- `Truncate`: the returned slice has the length and `until` of the value-level result -/
theorem truncateEff_refines {w : Nat} (hw : 0 < w) (n : Nat) {sv : SV} {s : Sq} (h : Rep w sv s)
    (res asOf hi : Int) :
    Rep w (truncateEff n sv w res asOf hi).out (s.truncate res asOf hi) := by
  cases s with
  | none =>
    simp only [Rep, SV.len] at h
    unfold truncateEff
    split
    · rfl
    · rename_i v hv
      have : v.len = 0 := by simpa [Sl.len, hv] using h
      rw [if_pos this]; rfl
  | some q =>
    obtain ⟨v, hv, hl, hh⟩ := rep_some_view h
    rw [truncate_eq]
    unfold truncateEff
    rw [hv]
    simp only
    have hne : ¬ v.len = 0 := by omega
    rw [if_neg hne, hh]
    have hu := truncUntilEff_refines hw n v q res (roundUntilDown hi res q.hi) hl
    cases h1 : truncUntilEff n v q.hi w res (roundUntilDown hi res q.hi) with
    | none =>
      cases h2 : truncUntil q res (roundUntilDown hi res q.hi) with
      | none => rfl
      | some r' => rw [h1, h2] at hu; exact hu.elim
    | some r =>
      cases h2 : truncUntil q res (roundUntilDown hi res q.hi) with
      | none => rw [h1, h2] at hu; exact hu.elim
      | some r' =>
        rw [h1, h2] at hu
        exact truncAsOfEff_refines hw r r' res _ hu.1 hu.2

/-! ### Merge -/

theorem length_fit (e : Ex) (n : Nat) (cs : List (List Cell)) : (fit e n cs).length = n := by
  simp only [fit, List.length_append, List.length_take, List.length_replicate]
  omega

theorem mergeMainEff_refines {w : Nat} (hw : 0 < w) (n : Nat) (e : Ex) (res : Int) (va vb : View) (a b : Seq)
    (hla : va.len = 8 + a.cells.length * w) (hlb : vb.len = 8 + b.cells.length * w) :
    Rep w (mergeMainEff n va vb a.hi b.hi w res).out (some (mergeMain e res a b)) := by
  constructor
  · simp only [mergeMainEff, mergeMain, SV.len, Sl.len, View.mk', length_fit, hla, hlb, periods_of_len hw]
  · rfl

/-- `Merge`: the returned slice has the length and `until` of the value-level result -/
theorem mergeEff_refines {w : Nat} (hw : 0 < w) (n : Nat) (e : Ex) {sa sb : SV} {a b : Sq}
    (ha : Rep w sa a) (hb : Rep w sb b) (res tb : Int) :
    Rep w (mergeEff n sa sb w res tb).out (Sq.merge e res a b tb) := by
  cases a with
  | none =>
    simp only [Rep, SV.len] at ha
    have : (mergeEff n sa sb w res tb).out = sb := by
      unfold mergeEff
      split
      · rfl
      · rename_i v hv
        have : v.len = 0 := by simpa [Sl.len, hv] using ha
        rw [if_pos this]
    rw [this]
    simpa [Sq.merge] using hb
  | some qa =>
    obtain ⟨va, hva, hla, hha⟩ := rep_some_view ha
    have hnea : ¬ va.len = 0 := by omega
    cases b with
    | none =>
      simp only [Rep, SV.len] at hb
      have : (mergeEff n sa sb w res tb).out = sa := by
        unfold mergeEff
        rw [hva]; simp only; rw [if_neg hnea]
        split
        · rfl
        · rename_i v hv
          have : v.len = 0 := by simpa [Sl.len, hv] using hb
          rw [if_pos this]
      rw [this]
      simpa [Sq.merge] using ha
    | some qb =>
      obtain ⟨vb, hvb, hlb, hhb⟩ := rep_some_view hb
      have hneb : ¬ vb.len = 0 := by omega
      unfold mergeEff
      rw [hva]; simp only; rw [if_neg hnea, hvb]; simp only; rw [if_neg hneb, hha, hhb]
      simp only [Sq.merge]
      by_cases hsw : qb.hi > qa.hi
      · rw [if_pos hsw]
        simp only [if_pos hsw]
        by_cases hex : qa.hi < roundUntilUp tb res qb.hi
        · rw [if_pos hex, if_pos hex]; exact hb
        · rw [if_neg hex, if_neg hex]
          exact mergeMainEff_refines hw n e res vb va qb qa hlb hla
      · rw [if_neg hsw]
        simp only [if_neg hsw]
        by_cases hex : qb.hi < roundUntilUp tb res qa.hi
        · rw [if_pos hex, if_pos hex]; exact ha
        · rw [if_neg hex, if_neg hex]
          exact mergeMainEff_refines hw n e res va vb qa qb hla hlb

/-! ### SubMerge -/

/-- the stages of the value-level `Sq.subMerge`, named (the definition inlines them) -/
def growV (otherEx : Ex) (otherRes shiftBack hi : Int) (o0 : Seq) : Seq :=
  if shiftBack > 0 then
    let shifted0 := o0.hi + shiftBack
    let shifted := if shifted0 > hi then hi else shifted0
    let growBy := (shifted - o0.hi).tdiv otherRes
    if growBy > 0 then
      (⟨shifted, List.replicate growBy.toNat otherEx.empty ++ o0.cells⟩ : Seq)
    else o0
  else o0

def prependV (ex : Ex) (res newUntil : Int) (result : Sq) : Seq × Int :=
  match result with
  | none => (⟨newUntil, [ex.empty]⟩, newUntil)
  | some r =>
    if r.cells.length = 0 then (⟨newUntil, [ex.empty]⟩, newUntil)
    else
      let periodsToPrepend := (newUntil - result.until).tdiv res
      if periodsToPrepend > 0 then
        (⟨newUntil, List.replicate periodsToPrepend.toNat ex.empty ++ r.cells⟩, newUntil)
      else (r, result.until)

def appendV (ex : Ex) (res otherAsOf resultUntil : Int) (r1 : Seq) : Seq :=
  let oldAsOf := roundUntilUp (Sq.asOf (some r1) res) res resultUntil
  let newAsOf := roundUntilDown otherAsOf res resultUntil
  let periodsToAppend := (oldAsOf - newAsOf).tdiv res
  if periodsToAppend > 0 then ⟨r1.hi, r1.cells ++ List.replicate periodsToAppend.toNat ex.empty⟩ else r1

theorem subMerge_eq (ex otherEx : Ex) (sm : SM) (res otherRes : Int) (s other : Sq) (p : Pt)
    (asOf hi strideSlice : Int) :
    Sq.subMerge ex otherEx sm res otherRes s other p asOf hi strideSlice =
      match other.truncate otherRes (asOf - -ex.shiftOf) hi with
      | none => s
      | some o0 =>
        if o0.cells.length = 0 then s
        else
          let otherAsOf := if other.asOf otherRes < asOf then asOf else other.asOf otherRes
          let o := growV otherEx otherRes (-ex.shiftOf) hi o0
          let pr := prependV ex res (roundUntilUp o.hi res hi) (s.truncate res asOf hi)
          let r2 := appendV ex res otherAsOf pr.2 pr.1
          some ⟨r2.hi, subMergeLoop sm otherRes p (res.tdiv otherRes) ((pr.2 - o.hi).tdiv otherRes) strideSlice
            (strideSlice.tdiv otherRes) r2.cells.length 0 o.cells r2.cells⟩ := by
  rfl

theorem length_subMergeLoop (sm : SM) (otherRes : Int) (p : Pt) (scale uo ss ssp : Int) (rp : Nat) :
    ∀ (os : List (List Cell)) (po : Nat) (result : List (List Cell)),
      (subMergeLoop sm otherRes p scale uo ss ssp rp po os result).length = result.length := by
  intro os
  induction os with
  | nil => intro po result; rfl
  | cons o os ih =>
    intro po result
    simp only [subMergeLoop]
    split
    · rfl
    · rw [ih]
      split
      · split
        · rfl
        · exact List.length_modify _ _ _
      · rfl

theorem appendEff_len (n : Nat) (d s : View) : (appendEff n d s).v.len = d.len + s.len := by
  unfold appendEff
  split <;> rfl

theorem growEff_refines {ow : Nat} (n : Nat) (ov : View) (o0 : Seq) (otherEx : Ex) (otherRes sb hi : Int)
    (hl : ov.len = 8 + o0.cells.length * ow) :
    (growEff n ov o0.hi ow otherRes sb hi).v.len = 8 + (growV otherEx otherRes sb hi o0).cells.length * ow ∧
    (growEff n ov o0.hi ow otherRes sb hi).hi = (growV otherEx otherRes sb hi o0).hi := by
  by_cases h0 : sb > 0
  · by_cases hg : ((if o0.hi + sb > hi then hi else o0.hi + sb) - o0.hi).tdiv otherRes > 0
    · simp only [growEff, growV, if_pos h0, if_pos hg, View.mk', hl, List.length_append, List.length_replicate,
        Nat.add_mul, and_true]
      omega
    · simp only [growEff, growV, if_pos h0, if_neg hg, hl, and_self]
  · simp only [growEff, growV, if_neg h0, hl, and_self]

theorem prependV_some_zero (ex : Ex) (res nu : Int) (r : Seq) (h : r.cells.length = 0) :
    prependV ex res nu (some r) = (⟨nu, [ex.empty]⟩, nu) := by
  simp [prependV, h]

theorem prependV_some (ex : Ex) (res nu : Int) (r : Seq) (h : ¬ r.cells.length = 0) :
    prependV ex res nu (some r) =
      if (nu - r.hi).tdiv res > 0 then (⟨nu, List.replicate ((nu - r.hi).tdiv res).toNat ex.empty ++ r.cells⟩, nu)
      else (r, r.hi) := by
  simp [prependV, h, Sq.until]

theorem prependEff_refines {w : Nat} (hw : 0 < w) (n : Nat) (ex : Ex) {result : SV} {rs : Sq} (h : Rep w result rs)
    (res newUntil : Int) :
    (prependEff n result w res newUntil).v.len = 8 + (prependV ex res newUntil rs).1.cells.length * w ∧
    (prependEff n result w res newUntil).hi = (prependV ex res newUntil rs).1.hi ∧
    (prependV ex res newUntil rs).2 = (prependV ex res newUntil rs).1.hi := by
  cases rs with
  | none =>
    simp only [Rep, SV.len] at h
    unfold prependEff prependV
    split
    · simp [View.mk']
    · rename_i rv hrv
      have : rv.len ≤ 8 := by have : rv.len = 0 := by simpa [Sl.len, hrv] using h
                              omega
      rw [if_pos this]; simp [View.mk']
  | some r =>
    obtain ⟨rv, hrv, hl, hh⟩ := rep_some_view h
    unfold prependEff
    rw [hrv]
    simp only
    have hiff : rv.len ≤ 8 ↔ r.cells.length = 0 := by
      rw [hl]
      constructor
      · intro h8
        have h0 : r.cells.length * w = 0 := by omega
        rcases Nat.mul_eq_zero.mp h0 with h | h
        · exact h
        · omega
      · intro h0; rw [h0]; omega
    by_cases hc : rv.len ≤ 8
    · rw [if_pos hc, prependV_some_zero _ _ _ _ (hiff.mp hc)]; simp [View.mk']
    · have hc' := fun h => hc (hiff.mpr h)
      rw [if_neg hc, prependV_some _ _ _ _ hc', hh]
      by_cases hp : (newUntil - r.hi).tdiv res > 0
      · rw [if_pos hp, if_pos hp]
        simp only [appendEff_len, View.mk', View.from, hl, List.length_append, List.length_replicate, Nat.add_mul,
          and_true]
        omega
      · rw [if_neg hp, if_neg hp]
        exact ⟨hl, rfl, rfl⟩

theorem appendV_spec (ex : Ex) (res oa ru : Int) (r1 : Seq) :
    (appendV ex res oa ru r1).hi = r1.hi ∧
    (appendV ex res oa ru r1).cells.length = r1.cells.length +
      ((roundUntilUp (r1.hi - (r1.cells.length : Int) * res) res ru - roundUntilDown oa res ru).tdiv res).toNat := by
  unfold appendV
  extract_lets oldAsOf newAsOf pta
  have hpta : pta = (roundUntilUp (r1.hi - (r1.cells.length : Int) * res) res ru - roundUntilDown oa res ru).tdiv res := rfl
  rw [← hpta]
  split
  · simp
  · refine ⟨rfl, ?_⟩
    have : pta.toNat = 0 := by omega
    omega

theorem appendPeriodsEff_len {w : Nat} (hw : 0 < w) (n : Nat) (r1 : VE) (k : Nat) (res otherAsOf : Int)
    (hl : r1.v.len = 8 + k * w) :
    (appendPeriodsEff n r1 w res otherAsOf).hi = r1.hi ∧
    (appendPeriodsEff n r1 w res otherAsOf).v.len = 8 + (k +
      ((roundUntilUp (r1.hi - (k : Int) * res) res r1.hi - roundUntilDown otherAsOf res r1.hi).tdiv res).toNat) * w := by
  unfold appendPeriodsEff
  extract_lets np asOf1 oldAsOf newAsOf pta appended
  have hnp : np = k := by simp only [np, hl, periods_of_len hw]
  have hpta : pta = (roundUntilUp (r1.hi - (k : Int) * res) res r1.hi - roundUntilDown otherAsOf res r1.hi).tdiv res := by
    simp only [pta, oldAsOf, newAsOf, asOf1, hnp]
  rw [← hpta]
  split
  · refine ⟨rfl, ?_⟩
    simp only [appended, View.mk', hnp]
  · refine ⟨rfl, ?_⟩
    have : pta.toNat = 0 := by omega
    rw [this, hl]; simp

theorem appendPeriodsEff_refines {w : Nat} (hw : 0 < w) (n : Nat) (ex : Ex) (r1 : VE) (r1' : Seq) (res otherAsOf : Int)
    (hl : r1.v.len = 8 + r1'.cells.length * w) (hh : r1.hi = r1'.hi) :
    (appendPeriodsEff n r1 w res otherAsOf).v.len = 8 + (appendV ex res otherAsOf r1'.hi r1').cells.length * w ∧
    (appendPeriodsEff n r1 w res otherAsOf).hi = (appendV ex res otherAsOf r1'.hi r1').hi := by
  have h1 := appendPeriodsEff_len hw n r1 r1'.cells.length res otherAsOf hl
  have h2 := appendV_spec ex res otherAsOf r1'.hi r1'
  rw [h1.1, h1.2, h2.1, h2.2, hh]
  exact ⟨rfl, rfl⟩

/-- `SubMerge`: the returned slice has the length and `until` of the value-level result -/
theorem subMergeEff_refines (n : Nat) (ex otherEx : Ex) (hw : 0 < ex.bytes) (how : 0 < otherEx.bytes) (sm : SM)
    (res otherRes : Int) {sv ov : SV} {s other : Sq} (hs : Rep ex.bytes sv s) (ho : Rep otherEx.bytes ov other)
    (p : Pt) (asOf hi strideSlice : Int) :
    Rep ex.bytes (subMergeEff n ex otherEx sm res otherRes sv ov p asOf hi strideSlice).out
      (Sq.subMerge ex otherEx sm res otherRes s other p asOf hi strideSlice) := by
  rw [subMerge_eq]
  unfold subMergeEff
  simp only
  have ht1 := truncateEff_refines how n ho otherRes (asOf - -ex.shiftOf) hi
  generalize truncateEff n ov otherEx.bytes otherRes (asOf - -ex.shiftOf) hi = t1 at ht1
  cases hov : Sq.truncate other otherRes (asOf - -ex.shiftOf) hi with
  | none =>
    rw [hov] at ht1
    simp only [Rep, SV.len] at ht1
    split
    · exact hs
    · rename_i ov0 hov0
      have : t1.out.numPeriods otherEx.bytes = 0 := by simp [SV.numPeriods, SV.len, ht1]
      rw [if_pos this]; exact hs
  | some o0 =>
    rw [hov] at ht1
    obtain ⟨ov0, hov0, hl0, hh0⟩ := rep_some_view ht1
    rw [hov0]
    simp only
    have hnp : t1.out.numPeriods otherEx.bytes = o0.cells.length := by
      simpa [Sq.numPeriods] using rep_numPeriods how ht1
    rw [hnp]
    by_cases hz : o0.cells.length = 0
    · rw [if_pos hz, if_pos hz]; exact hs
    · rw [if_neg hz, if_neg hz]
      rw [rep_asOf how ho otherRes, hh0]
      have hg := growEff_refines (n + t1.allocs.length + (truncateEff (n + t1.allocs.length) sv ex.bytes res asOf hi).allocs.length)
        ov0 o0 otherEx otherRes (-ex.shiftOf) hi hl0
      generalize growEff _ ov0 o0.hi otherEx.bytes otherRes (-ex.shiftOf) hi = g at hg ⊢
      generalize growV otherEx otherRes (-ex.shiftOf) hi o0 = o at hg ⊢
      have ht2 := truncateEff_refines hw (n + t1.allocs.length) hs res asOf hi
      generalize truncateEff (n + t1.allocs.length) sv ex.bytes res asOf hi = t2 at ht2 ⊢
      rw [hg.2]
      have hp := prependEff_refines hw (n + t1.allocs.length + t2.allocs.length + g.allocs.length) ex ht2 res
        (roundUntilUp o.hi res hi)
      generalize prependEff _ t2.out ex.bytes res (roundUntilUp o.hi res hi) = r1 at hp ⊢
      generalize prependV ex res (roundUntilUp o.hi res hi) (Sq.truncate s res asOf hi) = pr at hp ⊢
      have ha := appendPeriodsEff_refines hw (n + t1.allocs.length + t2.allocs.length + g.allocs.length + r1.allocs.length)
        ex r1 pr.1 res (if other.asOf otherRes < asOf then asOf else other.asOf otherRes) hp.1 hp.2.1
      rw [← hp.2.2] at ha
      generalize appendPeriodsEff _ r1 ex.bytes res _ = r2 at ha ⊢
      generalize appendV ex res _ pr.2 pr.1 = r2' at ha ⊢
      exact ⟨by simpa [SV.len, Sl.len, length_subMergeLoop] using ha.1, ha.2⟩

end Zeno
