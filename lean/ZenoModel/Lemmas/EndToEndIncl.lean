/-
End-to-end, part 11: the composition stated for the scan `runQuery` performs (`includedFields`),
with the hypotheses bundled (`E2ECtx` for the store/plan side, `ScannedField` for one selected field).
-/
import ZenoModel.Lemmas.EndToEndCell
import ZenoModel.Lemmas.EndToEndFields
set_option linter.unusedSimpArgs false
set_option linter.unusedVariables false
namespace Zeno

/-- store script, query and plan of the end-to-end theorems -/
structure E2ECtx (x : Ext) (cfg : TableCfg) (ops : List StoreOp) (q : Query) (metas : List KeyMeta) (pl : Plan) : Prop where
  /-- fields print pairwise differently, `0 < res`, `0 ≤ retention` -/
  wf : CfgWF cfg
  /-- every point is stamped after Go's zero time -/
  pos : StorePos ops
  /-- the plan is `planLocal`'s at the store's clock -/
  plan : planLocal cfg (runStore x cfg ops).now q = .ok pl
  /-- no STRIDE -/
  noStride : q.stride ≤ 0
  /-- the window does not reach back to Go's zero time (which `Truncate` reads as "no bound") -/
  asOfPos : 0 < gAsOfOf cfg (runStore x cfg ops).now pl
  /-- with a WHERE clause, the per-key WHERE bit is supplied for every key of the script -/
  metasCover : q.hasWhere = true → ∀ a ∈ (acceptedRows cfg true (pointsOf ops)).1, ∃ m ∈ metas, m.key = a.key

/-- the selected field `f` is a scanned table field, sub-merged from it alone, directly -/
structure ScannedField (cfg : TableCfg) (q : Query) (f : Field) : Prop where
  scanned : ∃ j inF, (includedFields cfg q)[j]? = some inF ∧ inF.ex = f.ex ∧
    OneHot (dedupInputs ((includedFields cfg q).map (·.ex)) (f.ex.subMergers ((includedFields cfg q).map (·.ex)))) j f.ex
  valid : f.ex.valid = true
  noPtile : f.ex.noPtile = true
  noShift : f.ex.shiftOf = 0

/-- the rows `runQuery` hands to `core.Group` -/
def e2eScan (x : Ext) (cfg : TableCfg) (ops : List StoreOp) (q : Query) (metas : List KeyMeta) : List Row :=
  whereRows q metas ((runStore x cfg ops).iterate cfg (includedFields cfg q) true).rows

/-- `GroupCell` for the scan `runQuery` performs -/
theorem groupCell_included (x : Ext) {cfg : TableCfg} {ops : List StoreOp} {q : Query} {metas : List KeyMeta} {pl : Plan}
    (C : E2ECtx x cfg ops q metas pl) (i : Nat) (f : Field) (hout : q.outFields[i]? = some f)
    (sf : ScannedField cfg q f) :
    ∃ j ti, FieldTie cfg q (includedFields cfg q) i f j ti ∧
      ScanView cfg (runStore x cfg ops) ti j ((runStore x cfg ops).iterate cfg (includedFields cfg q) true).rows ∧
      GroupCell cfg (runStore x cfg ops).now q pl (includedFields cfg q) (e2eScan x cfg ops q metas)
        (gResOf cfg pl / cfg.res).toNat i f j := by
  obtain ⟨j, inF, hin, hex, hone⟩ := sf.scanned
  obtain ⟨ti, hti, hfe⟩ := includedFields_index cfg q j inF hin
  have ft : FieldTie cfg q (includedFields cfg q) i f j ti :=
    ⟨hout, ⟨inF, hin, hex⟩, ⟨hti, by rw [hfe]; exact hex⟩, sf.valid, sf.noPtile, sf.noShift, hone⟩
  have sv := scanView_included cfg C.wf.distinct _ (StoreProj.reachable_store_wf x cfg C.wf ops C.pos) q j ti hti
    (by rw [hfe]; exact hin)
  exact ⟨j, ti, ft, sv, groupCell_of_store x cfg C.wf ops C.pos q metas pl C.plan
    (planLocal_noStride cfg _ q pl C.plan C.noStride) C.asOfPos _ _ i j ti f ft sv⟩

/-- END-TO-END for the scan `runQuery` performs -/
theorem e2e_cell_included (x : Ext) {cfg : TableCfg} {ops : List StoreOp} {q : Query} {metas : List KeyMeta} {pl : Plan}
    (C : E2ECtx x cfg ops q metas pl) (i : Nat) (f : Field) (hout : q.outFields[i]? = some f)
    (sf : ScannedField cfg q f) (k : Key) (T : Int)
    (hT : (gUntilOf cfg (runStore x cfg ops).now pl - T) % gResOf cfg pl = 0) :
    (groupCell cfg (runStore x cfg ops).now q pl (includedFields cfg q) metas (e2eScan x cfg ops q metas) k i).at
        f.ex (gResOf cfg pl) T =
      if gAsOfOf cfg (runStore x cfg ops).now pl < T ∧ T ≤ gUntilOf cfg (runStore x cfg ops).now pl
      then f.ex.acc x (specBucketPts q (specRows q metas (acceptedRows cfg true (pointsOf ops)).1) (·.pt)
        (gAsOfOf cfg (runStore x cfg ops).now pl) (gUntilOf cfg (runStore x cfg ops).now pl) (gResOf cfg pl) k T)
      else f.ex.empty := by
  obtain ⟨j, ti, ft, sv, _⟩ := groupCell_included x C i f hout sf
  exact e2e_cell x cfg C.wf ops C.pos q metas pl C.plan (planLocal_noStride cfg _ q pl C.plan C.noStride) C.asOfPos
    _ _ i j ti f ft sv C.metasCover k T hT

/-- the out period is positive -/
theorem E2ECtx.resPos {x : Ext} {cfg : TableCfg} {ops : List StoreOp} {q : Query} {metas : List KeyMeta} {pl : Plan}
    (C : E2ECtx x cfg ops q metas pl) : 0 < gResOf cfg pl := by
  have w := planLocal_window cfg _ q pl C.plan C.wf.res_pos C.asOfPos
  rw [w.resEq]
  exact Int.mul_pos (by have := w.kPos; omega) w.otherResPos

end Zeno
