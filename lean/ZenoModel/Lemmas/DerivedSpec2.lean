/-
Derived selected expressions, part 20 (stage 2 → spec): the grouped cell of a derived output field
equals the accumulation `specQuery` performs for the bucket, given the store invariant per column.
-/
import ZenoModel.Lemmas.DerivedSpec
set_option linter.unusedSimpArgs false
set_option linter.unusedVariables false
namespace Zeno

theorem sem_groupRows_derived_spec_lem (x : Ext) {cfg : TableCfg} {now : Int} {q : Query} {pl : Plan}
    {inFields : List Field} {rows : List Row} {kk i : Nat} {f : Field}
    (H : DerivedCell cfg now q pl inFields rows kk i f) (metas : List KeyMeta)
    (hres : f.ex.resolved (inFields.map (·.ex)) = true)
    (k : Key) (T : Int) (hT : (gUntilOf cfg now pl - T) % gResOf cfg pl = 0)
    (hW : gAsOfOf cfg now pl < T ∧ T ≤ gUntilOf cfg now pl)
    (A : List AccRow) (hper : ∀ a ∈ A, a.period % cfg.res = 0) (hkeys : (rows.map (·.key)).Nodup)
    (hcover : ∀ a ∈ A, gAsOfOf cfg now pl < a.period ∧ a.period ≤ gUntilOf cfg now pl → ∃ r ∈ rows, r.key = a.key)
    (hirr : ∀ r ∈ rows, ColsIgnore x (inFields.map (·.ex)) (rowPt metas r).conds)
    (hfresh : ∀ c ∈ f.ex.openConds (inFields.map (·.ex)), ∀ a ∈ A, a.pt.includes c = false)
    (hstore : ∀ r ∈ rows, ∀ j cj, (inFields.map (·.ex))[j]? = some cj →
      ∀ t, gAsOfOf cfg now pl < t ∧ t ≤ gUntilOf cfg now pl →
        (r.cols.getD j none).at cj cfg.res t = cj.acc x (keyPeriodPts A (·.pt) r.key t)) :
    (groupCell cfg now q pl inFields metas rows k i).at f.ex (gResOf cfg pl) T =
      f.ex.acc x (specBucketPts q A (specAdj metas) (gAsOfOf cfg now pl) (gUntilOf cfg now pl) (gResOf cfg pl) k T) := by
  rw [sem_groupRows_leafwise_lem H metas k T hT, if_pos hW]
  have hacc := leafwise_acc x H.valid H.noPtile (inFields.map (·.ex)) metas cfg.res
    (fun r t => keyPeriodPts A (specAdj metas) r.key t)
    (bucketTimes cfg.res kk (gAsOfOf cfg now pl) (gUntilOf cfg now pl) T) (groupMembers q rows k) [] ?_
  · have h0 : f.ex.acc x [] = f.ex.empty := rfl
    rw [h0, List.nil_append] at hacc
    rw [hacc]
    exact acc_perm x H.valid H.noPtile (memberPoints_perm_spec q A (specAdj metas) H.window rows k T hT hper hkeys hcover)
  · intro r hr t ht
    have hrm : r ∈ rows := (List.mem_filter.mp hr).1
    have htw := ((mem_bucketTimes H.window.otherResPos _ _ _ _ _).mp ht).2
    exact rowState_points x H.valid H.noPtile hres metas A r cfg.res t (hirr r hrm) hfresh
      (fun j cj hj => hstore r hrm j cj hj t htw)

end Zeno
