/-
End-to-end, stage 2, part 3: membership in `flattenRow` without the loop bounds.
-/
import ZenoModel.Lemmas.EndToEndFlat
set_option linter.unusedSimpArgs false
set_option linter.unusedVariables false
namespace Zeno

/-- `flatAt` yields a row only when some non-constant field has a value -/
theorem flatAt_some_witness (x : Ext) (fields : List Field) (res : Int) (r : Row) (T : Int) (row : QRow)
    (h : flatAt x fields res r T = some row) :
    ∃ f c, (f, c) ∈ fields.zip r.cols ∧ (Sq.valueAtTime x c f.ex res T).isSome = true ∧ f.ex.isConstant = false := by
  unfold flatAt at h
  simp only at h
  split at h
  · rename_i hany
    obtain ⟨p, hp, hcond⟩ := List.any_eq_true.mp hany
    obtain ⟨fc, hfc, rfl⟩ := List.mem_map.mp hp
    simp only [Bool.and_eq_true, Bool.not_eq_true'] at hcond
    exact ⟨fc.1, fc.2, hfc, hcond.1, hcond.2⟩
  · cases h

/-- the loop index of a grid time inside the loop bounds -/
theorem loop_index {res lo hi T : Int} (hres : 0 < res) (hm : (T - lo) % res = 0) (h1 : lo ≤ T) (h2 : T ≤ hi) :
    ((T - lo) / res).toNat < ((hi - lo) / res).toNat + 1 ∧ lo + (Int.ofNat ((T - lo) / res).toNat) * res = T := by
  have hnn : 0 ≤ (T - lo) / res := Int.ediv_nonneg (by omega) (Int.le_of_lt hres)
  have hle : (T - lo) / res ≤ (hi - lo) / res := Int.ediv_le_ediv hres (by omega)
  have hx := ediv_mul_exact hm
  refine ⟨by omega, ?_⟩
  have : (Int.ofNat ((T - lo) / res).toNat) = (T - lo) / res := Int.toNat_of_nonneg hnn
  rw [this, hx]; omega

/-- FLATTEN, one row: on a common grid and without constant expressions, a row comes out for
    exactly the grid times at which the loop body yields one -/
theorem mem_flattenRow (x : Ext) (fields : List Field) (res hi0 : Int) (r : Row) (hres : 0 < res)
    (hgrid : ∀ c ∈ r.cols, OnGrid res hi0 c) (row : QRow) :
    row ∈ flattenRow x fields res r ↔ ∃ T, (hi0 - T) % res = 0 ∧ flatAt x fields res r T = some row := by
  have hgs : ∀ s ∈ flatNonEmpty r, (hi0 - s.hi) % res = 0 := fun s hs =>
    (hgrid (some s) ((mem_flatNonEmpty r s).mp hs).1).1
  rw [flattenRow_eq]
  constructor
  · intro h
    cases hne : flatNonEmpty r with
    | nil => rw [hne] at h; simp at h
    | cons s0 rest =>
      rw [hne] at h hgs
      simp only at h
      obtain ⟨i, _, hi⟩ := List.mem_filterMap.mp h
      refine ⟨_, ?_, hi⟩
      have hl := flatLo_grid res hi0 s0 rest hgs
      have : hi0 - (flatLo res s0 rest + Int.ofNat i * res) = (hi0 - flatLo res s0 rest) + (-(Int.ofNat i)) * res := by
        rw [Int.neg_mul]; omega
      rw [this]; exact emod_add_mul _ hl
  · intro ⟨T, hT, hrow⟩
    obtain ⟨f, c, hfc, hsome, hnc⟩ := flatAt_some_witness x fields res r T row hrow
    have hc : c ∈ r.cols := (List.of_mem_zip hfc).2
    obtain ⟨q, rfl, hq1, hq2, hq3⟩ := valueAtTime_some_range x f.ex hnc hres c (hgrid c hc) T hT hsome
    have hqm : q ∈ flatNonEmpty r := (mem_flatNonEmpty r q).mpr ⟨hc, hq3⟩
    cases hne : flatNonEmpty r with
    | nil => rw [hne] at hqm; simp at hqm
    | cons s0 rest =>
      rw [hne] at hqm hgs
      simp only
      have hl := flatLo_grid res hi0 s0 rest hgs
      obtain ⟨m1, m2⟩ := foldl_max_spec rest s0.hi
      obtain ⟨n1, n2, _⟩ := foldl_min_spec res rest (s0.hi - (s0.cells.length : Int) * res)
      have hlo : flatLo res s0 rest ≤ q.hi - (q.cells.length : Int) * res := by
        unfold flatLo
        rw [List.mem_cons] at hqm
        rcases hqm with rfl | hqm
        · exact n1
        · exact n2 q hqm
      have hhi : q.hi ≤ flatHi s0 rest := by
        unfold flatHi
        rw [List.mem_cons] at hqm
        rcases hqm with rfl | hqm
        · exact m1
        · exact m2 q hqm
      have hm : (T - flatLo res s0 rest) % res = 0 := by
        have : T - flatLo res s0 rest = (hi0 - flatLo res s0 rest) - (hi0 - T) := by omega
        rw [this]; exact emod_sub_of hl hT
      obtain ⟨i1, i2⟩ := loop_index (hi := flatHi s0 rest) hres hm (by omega) (by omega)
      rw [if_neg (by omega)]
      refine List.mem_filterMap.mpr ⟨((T - flatLo res s0 rest) / res).toNat, List.mem_range.mpr i1, ?_⟩
      rw [i2]; exact hrow

end Zeno
