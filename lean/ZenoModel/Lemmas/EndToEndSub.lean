/-
End-to-end, part 7: scanning a SUB-LIST of the table's fields (`sourceForTable`: a query scans
only the fields it needs).  `rowMapper` / `rowMerger` (`mapFileCols`, `mergeMemCols`) read at ONE
out position `j` that is fed by exactly one stored column `ti` (`IdxTie`): the generalisation of
StoreProjList's `mapFold_spec` / `mergeFold_spec` (identity index map) that the end-to-end theorem
needs for `includedFields cfg q ≠ cfg.fields`.
-/
import ZenoModel.Lemmas.StoreProjList
set_option linter.unusedSimpArgs false
set_option linter.unusedVariables false
namespace Zeno

/-- out position `j` is fed by the stored column `ti` and by no other -/
structure IdxTie (idxs : List (Option Nat)) (ti j : Nat) : Prop where
  tie : idxs.getD ti none = some j
  inj : ∀ i', idxs.getD i' none = some j → i' = ti

theorem getD_set' (l : List Sq) (i j : Nat) (a : Sq) (hj : j < l.length) :
    (l.set i a).getD j none = if i = j then a else l.getD j none := by
  simp only [List.getD_eq_getElem?_getD, List.getElem?_set]
  by_cases hij : i = j
  · subst hij; simp [hj]
  · simp [hij]

theorem mapFold_at (idxs : List (Option Nat)) {ti j : Nat} (h : IdxTie idxs ti j) :
    ∀ (cs : List Sq) (k : Nat) (acc : List Sq × Bool), j < acc.1.length →
      ((cs.zipIdx k).foldl (mapStep idxs) acc).1.length = acc.1.length ∧
      ((acc.2 = true ∨ (k ≤ ti ∧ ti < k + cs.length)) → ((cs.zipIdx k).foldl (mapStep idxs) acc).2 = true) ∧
      ((cs.zipIdx k).foldl (mapStep idxs) acc).1.getD j none =
        if k ≤ ti ∧ ti < k + cs.length then cs.getD (ti - k) none else acc.1.getD j none := by
  intro cs
  induction cs with
  | nil =>
    intro k acc _
    have : ¬ (k ≤ ti ∧ ti < k + ([] : List Sq).length) := by simp only [List.length_nil]; omega
    refine ⟨rfl, ?_, by simp only [List.zipIdx_nil, List.foldl_nil, if_neg this]⟩
    intro hc
    rcases hc with hc | hc
    · exact hc
    · exact absurd hc this
  | cons c cs ih =>
    intro k acc hlen
    rw [List.zipIdx_cons, List.foldl_cons]
    cases hk : idxs.getD k none with
    | none =>
      have hstep : mapStep idxs acc (c, k) = acc := by unfold mapStep; simp only [hk]
      have hne : k ≠ ti := by intro he; rw [he, h.tie] at hk; cases hk
      rw [hstep]
      obtain ⟨h1, h2, h3⟩ := ih (k + 1) acc hlen
      refine ⟨h1, ?_, ?_⟩
      · intro hc; apply h2
        rcases hc with hc | hc
        · exact Or.inl hc
        · right; simp only [List.length_cons] at hc; omega
      · rw [h3]; simp only [List.length_cons]
        by_cases hc : k + 1 ≤ ti ∧ ti < k + 1 + cs.length
        · rw [if_pos hc, if_pos (by omega)]
          have : ti - k = (ti - (k + 1)) + 1 := by omega
          rw [this, List.getD_cons_succ]
        · rw [if_neg hc, if_neg (by omega)]
    | some o =>
      have hstep : mapStep idxs acc (c, k) = (acc.1.set o c, true) := by unfold mapStep; simp only [hk]
      rw [hstep]
      obtain ⟨h1, h2, h3⟩ := ih (k + 1) (acc.1.set o c, true) (by simpa using hlen)
      refine ⟨by rw [h1]; simp, fun _ => h2 (Or.inl rfl), ?_⟩
      rw [h3]; simp only [List.length_cons]
      rw [getD_set' _ _ _ _ hlen]
      by_cases hkt : k = ti
      · have ho : o = j := by rw [hkt, h.tie] at hk; injection hk with hk; exact hk.symm
        rw [if_neg (by omega), if_pos ho, if_pos (by omega)]
        have : ti - k = 0 := by omega
        rw [this]; rfl
      · have ho : o ≠ j := by intro he; rw [he] at hk; exact hkt (h.inj k hk)
        rw [if_neg ho]
        by_cases hc : k + 1 ≤ ti ∧ ti < k + 1 + cs.length
        · rw [if_pos hc, if_pos (by omega)]
          have : ti - k = (ti - (k + 1)) + 1 := by omega
          rw [this, List.getD_cons_succ]
        · rw [if_neg hc, if_neg (by omega)]

theorem mergeFold_at (out : List Field) (idxs : List (Option Nat)) (res tb : Int) {ti j : Nat}
    (h : IdxTie idxs ti j) :
    ∀ (ms : List Sq) (k : Nat) (acc : List Sq × Bool), j < acc.1.length →
      ((ms.zipIdx k).foldl (mergeStep out idxs res tb) acc).1.length = acc.1.length ∧
      ((ms.zipIdx k).foldl (mergeStep out idxs res tb) acc).1.getD j none =
        if k ≤ ti ∧ ti < k + ms.length
        then Sq.merge (out.getD j default).ex res (acc.1.getD j none) (ms.getD (ti - k) none) tb
        else acc.1.getD j none := by
  intro ms
  induction ms with
  | nil =>
    intro k acc _
    have : ¬ (k ≤ ti ∧ ti < k + ([] : List Sq).length) := by simp only [List.length_nil]; omega
    exact ⟨rfl, by simp only [List.zipIdx_nil, List.foldl_nil, if_neg this]⟩
  | cons c ms ih =>
    intro k acc hlen
    rw [List.zipIdx_cons, List.foldl_cons]
    cases hk : idxs.getD k none with
    | none =>
      have hstep : mergeStep out idxs res tb acc (c, k) = acc := by unfold mergeStep; simp only [hk]
      have hne : k ≠ ti := by intro he; rw [he, h.tie] at hk; cases hk
      rw [hstep]
      obtain ⟨h1, h3⟩ := ih (k + 1) acc hlen
      refine ⟨h1, ?_⟩
      rw [h3]; simp only [List.length_cons]
      by_cases hc : k + 1 ≤ ti ∧ ti < k + 1 + ms.length
      · rw [if_pos hc, if_pos (by omega)]
        have : ti - k = (ti - (k + 1)) + 1 := by omega
        rw [this, List.getD_cons_succ]
      · rw [if_neg hc, if_neg (by omega)]
    | some o =>
      have hstep : mergeStep out idxs res tb acc (c, k) =
          (acc.1.modify o (fun cur => Sq.merge (out.getD o default).ex res cur c tb), true) := by
        unfold mergeStep; simp only [hk]
      rw [hstep]
      obtain ⟨h1, h3⟩ := ih (k + 1) (acc.1.modify o (fun cur => Sq.merge (out.getD o default).ex res cur c tb), true)
        (by simpa using hlen)
      refine ⟨by rw [h1]; simp, ?_⟩
      rw [h3]; simp only [List.length_cons]
      by_cases hkt : k = ti
      · have ho : o = j := by rw [hkt, h.tie] at hk; injection hk with hk; exact hk.symm
        subst ho
        rw [getD_modify _ _ _ _ (Or.inr hlen), if_neg (by omega), if_pos rfl, if_pos (by omega)]
        have : ti - k = 0 := by omega
        rw [this]; rfl
      · have ho : o ≠ j := by intro he; rw [he] at hk; exact hkt (h.inj k hk)
        have hmod : (acc.1.modify o (fun cur => Sq.merge (out.getD o default).ex res cur c tb)).getD j none =
            acc.1.getD j none := by
          simp only [List.getD_eq_getElem?_getD, List.getElem?_modify, if_neg ho]
          cases acc.1[j]? <;> rfl
        rw [hmod]
        by_cases hc : k + 1 ≤ ti ∧ ti < k + 1 + ms.length
        · rw [if_pos hc, if_pos (by omega)]
          have : ti - k = (ti - (k + 1)) + 1 := by omega
          rw [this, List.getD_cons_succ]
        · rw [if_neg hc, if_neg (by omega)]

/-- `rowMapper` read at out position `j`, fed by the stored column `ti` -/
theorem mapFileCols_at (out : List Field) (fileFields : List (Option Field)) {ti j : Nat}
    (h : IdxTie (outIdxsFor out fileFields) ti j) (hj : j < out.length) (cols : List Sq) :
    (mapFileCols out fileFields cols).1.length = out.length ∧
    (ti < cols.length → (mapFileCols out fileFields cols).2 = true) ∧
    (mapFileCols out fileFields cols).1.getD j none = cols.getD ti none := by
  rw [mapFileCols_eq]
  obtain ⟨h1, h2, h3⟩ := mapFold_at _ h cols 0 (out.map (fun _ => none), false) (by simpa using hj)
  refine ⟨by rw [h1]; simp, fun ht => h2 (Or.inr (by omega)), ?_⟩
  rw [h3]
  by_cases hc : ti < cols.length
  · rw [if_pos (by omega)]; simp only [Nat.sub_zero]
  · rw [if_neg (by omega)]
    have : cols.getD ti none = none := by
      rw [List.getD_eq_getElem?_getD, List.getElem?_eq_none (by omega)]; rfl
    rw [this]
    simp only [List.getD_eq_getElem?_getD, List.getElem?_map]
    cases out[j]? <;> rfl

/-- `rowMerger` read at out position `j`, fed by the memstore column `ti` -/
theorem mergeMemCols_at (out memFields : List Field) (res tb : Int) {ti j : Nat}
    (h : IdxTie (outIdxsFor out (memFields.map some)) ti j) (columns msCols : List Sq) (hj : j < columns.length) :
    (mergeMemCols out memFields res tb columns msCols).1.length = columns.length ∧
    (mergeMemCols out memFields res tb columns msCols).1.getD j none =
      Sq.merge (out.getD j default).ex res (columns.getD j none) (msCols.getD ti none) tb := by
  rw [mergeMemCols_eq]
  obtain ⟨h1, h3⟩ := mergeFold_at out _ res tb h msCols 0 (columns, false) hj
  refine ⟨h1, ?_⟩
  rw [h3]
  by_cases hc : ti < msCols.length
  · rw [if_pos (by omega)]; simp only [Nat.sub_zero]
  · rw [if_neg (by omega)]
    have : msCols.getD ti none = none := by
      rw [List.getD_eq_getElem?_getD, List.getElem?_eq_none (by omega)]; rfl
    rw [this, merge_none_right]

end Zeno
