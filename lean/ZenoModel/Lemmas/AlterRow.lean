/-
Row level and store level facts of an alter (Model/Alter.lean): what one scanned / rewritten
row holds per field identity, and what that means for the file the alter writes.  Core only.
-/
import ZenoModel.Lemmas.AlterIdx
set_option linter.unusedSimpArgs false
set_option linter.unusedVariables false
namespace Zeno

theorem merge_none_right (e : Ex) (res : Int) (s : Sq) (tb : Int) : Sq.merge e res s none tb = s := by
  cases s <;> rfl

theorem merge_none_left (e : Ex) (res : Int) (s : Sq) (tb : Int) : Sq.merge e res none s tb = s := by
  cases s <;> rfl

/-- the series a file row stores for the field that prints like `f` (`none` when the resolved
    file layout has no such field) -/
def fileColOf (ff : List (Option Field)) (f : Field) (cols : List Sq) : Sq :=
  match filePos ff f with
  | some i => cols.getD i none
  | none => none

/-- the series a memstore row holds for the field that prints like `f` -/
def memColOf (mf : List Field) (f : Field) (ms : Option (List Sq)) : Sq :=
  match ms, fieldPos mf f with
  | some m, some j => m.getD j none
  | _, _ => none

theorem filePos_some {ff : List (Option Field)} {f : Field} {i : Nat} (h : filePos ff f = some i) :
    ∃ g, ff[i]? = some (some g) ∧ g.same f = true := by
  unfold filePos at h
  rw [List.findIdx?_eq_some_iff_getElem] at h
  obtain ⟨hi, hp, _⟩ := h
  cases hg : ff[i] with
  | none => rw [hg] at hp; cases hp
  | some g =>
    rw [hg] at hp
    exact ⟨g, by rw [List.getElem?_eq_getElem hi, hg], hp⟩

theorem filePos_none {ff : List (Option Field)} {f : Field} (h : filePos ff f = none) :
    ∀ (i : Nat) (g : Field), ff[i]? = some (some g) → g.same f = false := by
  unfold filePos at h
  rw [List.findIdx?_eq_none_iff] at h
  intro i g hg
  have := h (some g) (List.mem_of_getElem? hg)
  simpa using this

theorem fieldPos_some {mf : List Field} {f : Field} {j : Nat} (h : fieldPos mf f = some j) :
    ∃ hj : j < mf.length, mf[j].same f = true := by
  unfold fieldPos at h
  rw [List.findIdx?_eq_some_iff_getElem] at h
  obtain ⟨hj, hp, _⟩ := h
  exact ⟨hj, hp⟩

theorem fieldPos_none {mf : List Field} {f : Field} (h : fieldPos mf f = none) :
    ∀ g ∈ mf, g.same f = false := by
  unfold fieldPos at h
  rw [List.findIdx?_eq_none_iff] at h
  exact h

/-- ONE SCANNED ROW, PER FIELD IDENTITY.  Whatever the three layouts are (permuted, with more
    or fewer fields, any widths): out-column `o` of a scanned file row is the merge — with
    `out[o]`'s expression — of the series the file row stores for the field printed like `out[o]`
    and the series the memstore row holds for it; a layout that lacks the field contributes
    nothing. -/
theorem scanFileRow_col (cfg : TableCfg) (tb : Int) {out : List Field} (hout : IdNodup out)
    {ff : List (Option Field)} (hff : IdNodupO ff) {mf : List Field} (hmf : IdNodup mf)
    (fileCols : List Sq) (ms : Option (List Sq)) (o : Nat) (ho : o < out.length) :
    (scanFileRow cfg tb out ff mf fileCols ms).1.getD o none =
      Sq.merge out[o].ex cfg.res (fileColOf ff out[o] fileCols) (memColOf mf out[o] ms) tb := by
  have hfile : (mapFileCols out ff fileCols).1.getD o none = fileColOf ff out[o] fileCols := by
    unfold fileColOf
    cases hp : filePos ff out[o] with
    | some i =>
      obtain ⟨g, hg, hs⟩ := filePos_some hp
      exact mapFileCols_hit hout hff fileCols o ho i g hg hs
    | none => exact mapFileCols_miss hout ff fileCols o ho (filePos_none hp)
  unfold scanFileRow
  cases ms with
  | none =>
    simp only [memColOf, merge_none_right]
    exact hfile
  | some m =>
    simp only []
    have hlen := mapFileCols_length out ff fileCols
    cases hq : fieldPos mf out[o] with
    | some j =>
      obtain ⟨hj, hs⟩ := fieldPos_some hq
      rw [mergeMemCols_hit hout hmf cfg.res tb _ m o ho (by omega) j hj hs, hfile]
      simp only [memColOf, hq]
      by_cases hjm : j < m.length
      · simp [hjm]
      · have : m.getD j none = none := by
          rw [List.getD_eq_getElem?_getD, List.getElem?_eq_none_iff.2 (by omega)]; rfl
        simp [hjm, this, merge_none_right]
    | none =>
      have hno : ∀ g ∈ mf, g.same (out.getD o default) = false := by
        intro g hg
        have := fieldPos_none hq g hg
        rwa [List.getD_eq_getElem?_getD, List.getElem?_eq_getElem ho]
      rw [mergeMemCols_miss hout mf cfg.res tb _ m o hno, hfile]
      simp only [memColOf, hq, merge_none_right]

/-- a memstore row without file row: the same with an empty file part -/
theorem scanMemRow_col (cfg : TableCfg) (tb : Int) {out : List Field} (hout : IdNodup out)
    {mf : List Field} (hmf : IdNodup mf) (m : List Sq) (o : Nat) (ho : o < out.length) :
    (scanMemRow cfg tb out mf m).getD o none =
      Sq.merge out[o].ex cfg.res none (memColOf mf out[o] (some m)) tb := by
  unfold scanMemRow
  have hinit : (out.map (fun _ => (none : Sq))).getD o none = none := by
    simp [List.getD_eq_getElem?_getD, ho]
  cases hq : fieldPos mf out[o] with
  | some j =>
    obtain ⟨hj, hs⟩ := fieldPos_some hq
    rw [mergeMemCols_hit hout hmf cfg.res tb _ m o ho (by simp [ho]) j hj hs, hinit]
    simp only [memColOf, hq]
    by_cases hjm : j < m.length
    · simp [hjm]
    · have : m.getD j none = none := by
        rw [List.getD_eq_getElem?_getD, List.getElem?_eq_none_iff.2 (by omega)]; rfl
      simp [hjm, this, merge_none_left]
  | none =>
    have hno : ∀ g ∈ mf, g.same (out.getD o default) = false := by
      intro g hg
      have := fieldPos_none hq g hg
      rwa [List.getD_eq_getElem?_getD, List.getElem?_eq_getElem ho]
    rw [mergeMemCols_miss hout mf cfg.res tb _ m o hno, hinit]
    simp only [memColOf, hq, merge_none_left]

theorem scanFileRow_length (cfg : TableCfg) (tb : Int) (out : List Field) (ff : List (Option Field))
    (mf : List Field) (fileCols : List Sq) (ms : Option (List Sq)) :
    (scanFileRow cfg tb out ff mf fileCols ms).1.length = out.length := by
  unfold scanFileRow
  cases ms with
  | none => exact mapFileCols_length out ff fileCols
  | some m => simp only []; rw [mergeMemCols_length, mapFileCols_length]

/-- what `doWrite` stores at position `o` of a row it keeps; a dropped row stores nothing -/
def writtenCol (w : Option Row) (o : Nat) : Sq :=
  match w with
  | some r => r.cols.getD o none
  | none => none

theorem writeRow_col (cfg : TableCfg) (tb : Int) (r : Row) (o : Nat) :
    writtenCol (writeRow cfg tb r) o = Sq.truncate (r.cols.getD o none) cfg.res tb 0 ∨
      (writeRow cfg tb r = none ∧ Sq.truncate (r.cols.getD o none) cfg.res tb 0 = none) := by
  unfold writeRow
  simp only []
  split
  · left
    simp only [writtenCol, List.getD_eq_getElem?_getD, List.getElem?_map]
    cases r.cols[o]? <;> rfl
  · rename_i h
    right
    refine ⟨rfl, ?_⟩
    simp only [List.any_eq_true, not_exists, not_and, Bool.not_eq_true, List.mem_map] at h
    cases hc : r.cols[o]? with
    | none => simp [List.getD_eq_getElem?_getD, hc]; rfl
    | some c =>
      have := h (Sq.truncate c cfg.res tb 0) ⟨c, List.mem_of_getElem? hc, rfl⟩
      simp only [List.getD_eq_getElem?_getD, hc, Option.getD_some]
      cases ht : Sq.truncate c cfg.res tb 0 with
      | none => rfl
      | some q => rw [ht] at this; simp at this

theorem writeRow_col_eq (cfg : TableCfg) (tb : Int) (r : Row) (o : Nat) :
    writtenCol (writeRow cfg tb r) o = Sq.truncate (r.cols.getD o none) cfg.res tb 0 := by
  rcases writeRow_col cfg tb r o with h | ⟨h1, h2⟩
  · exact h
  · rw [h1, h2]; rfl

/-- AN ALTER ACTS ON A RETAINED COLUMN AS `flush false`.  The series the rewrite stores at
    position `o` for a file row is exactly what the one-column model's truncating flush makes of
    (file series, memstore series) of the field printed like `out[o]` — for any three layouts. -/
theorem rewrite_row_is_column_flush (x : Ext) (cfg : TableCfg) (now : Int) {out : List Field} (hout : IdNodup out)
    {ff : List (Option Field)} (hff : IdNodupO ff) {mf : List Field} (hmf : IdNodup mf)
    (key : Key) (fileCols : List Sq) (ms : Option (List Sq)) (o : Nat) (ho : o < out.length) :
    writtenCol (writeRow cfg (now - cfg.retention)
        { key := key, cols := (scanFileRow cfg (now - cfg.retention) out ff mf fileCols ms).1 }) o =
      (Col.step x { e := out[o].ex, res := cfg.res, retention := cfg.retention }
        { file := fileColOf ff out[o] fileCols, mem := memColOf mf out[o] ms, now := now } (.flush false)).file := by
  rw [writeRow_col_eq]
  simp only [Col.step, Bool.false_and, Bool.false_eq_true, if_false]
  rw [scanFileRow_col cfg _ hout hff hmf fileCols ms o ho]

/-- the same for a memstore row that has no file row -/
theorem rewrite_memrow_is_column_flush (x : Ext) (cfg : TableCfg) (now : Int) {out : List Field} (hout : IdNodup out)
    {mf : List Field} (hmf : IdNodup mf) (key : Key) (m : List Sq) (o : Nat) (ho : o < out.length) :
    writtenCol (writeRow cfg (now - cfg.retention)
        { key := key, cols := scanMemRow cfg (now - cfg.retention) out mf m }) o =
      (Col.step x { e := out[o].ex, res := cfg.res, retention := cfg.retention }
        { file := none, mem := memColOf mf out[o] (some m), now := now } (.flush false)).file := by
  rw [writeRow_col_eq]
  simp only [Col.step, Bool.false_and, Bool.false_eq_true, if_false]
  rw [scanMemRow_col cfg _ hout hmf m o ho]

/-! ### the file an alter writes -/

theorem truncate_none (res tb hi : Int) : Sq.truncate none res tb hi = none := rfl

/-- a raw pass-through requires the file layout to print like the out layout position by position -/
theorem fileSameAs_get {ff : List (Option Field)} {out : List Field} (h : fileSameAs ff out = true)
    (o : Nat) (ho : o < out.length) : ∃ g, ff[o]? = some (some g) ∧ g.same out[o] = true := by
  unfold fileSameAs at h
  simp only [Bool.and_eq_true, beq_iff_eq, List.all_eq_true] at h
  obtain ⟨hlen, hall⟩ := h
  have hof : o < ff.length := by omega
  have hm : (ff[o], out[o]) ∈ ff.zip out := by
    rw [List.mem_iff_getElem?]
    exact ⟨o, by simp [List.getElem?_zip_eq_some, hof, ho]⟩
  have := hall _ hm
  cases hg : ff[o] with
  | none => rw [hg] at this; simp at this
  | some g =>
    rw [hg] at this
    exact ⟨g, by rw [List.getElem?_eq_getElem hof, hg], by simpa using this⟩

/-- ADDED FIELD, on disk: if neither the resolved file layout nor the memstore layout has a
    field printed like `cfg.fields[o]`, every row of the rewritten file stores the empty series
    at position `o`. -/
theorem flushBody_added_col_none (cfg : TableCfg) (st : Store) (hout : IdNodup cfg.fields)
    (o : Nat) (ho : o < cfg.fields.length)
    (hfile : ∀ (i : Nat) (g : Field), st.fileFields[i]? = some (some g) → g.same cfg.fields[o] = false)
    (hmem : ∀ g ∈ st.memFields, g.same cfg.fields[o] = false) :
    ∀ row ∈ ((st.flushBody cfg).file.getD []), row.cols.getD o none = none := by
  intro row hrow
  simp only [Store.flushBody, Option.getD_some, List.mem_append, List.mem_filterMap] at hrow
  have hmiss : ∀ (columns msCols : List Sq),
      (mergeMemCols cfg.fields st.memFields cfg.res (st.now - cfg.retention) columns msCols).1.getD o none =
        columns.getD o none := by
    intro columns msCols
    apply mergeMemCols_miss hout
    intro g hg
    have := hmem g hg
    rwa [List.getD_eq_getElem?_getD, List.getElem?_eq_getElem ho]
  have hscan : ∀ (fileCols : List Sq) (ms : Option (List Sq)),
      (scanFileRow cfg (st.now - cfg.retention) cfg.fields st.fileFields st.memFields fileCols ms).1.getD o none = none := by
    intro fileCols ms
    unfold scanFileRow
    cases ms with
    | none => exact mapFileCols_miss hout _ fileCols o ho hfile
    | some m => simp only []; rw [hmiss]; exact mapFileCols_miss hout _ fileCols o ho hfile
  have hwr : ∀ (r w : Row), r.cols.getD o none = none →
      writeRow cfg (st.now - cfg.retention) r = some w → w.cols.getD o none = none := by
    intro r w hr hw
    have := writeRow_col_eq cfg (st.now - cfg.retention) r o
    rw [hw, hr] at this
    exact this
  rcases hrow with ⟨r, _, hr⟩ | ⟨m, _, hm⟩
  · split at hr
    · -- raw pass-through: impossible, the file layout would have the field at position `o`
      rename_i hraw
      simp only [Bool.and_eq_true, Bool.not_eq_true'] at hraw
      obtain ⟨g, hg, hs⟩ := fileSameAs_get hraw.2.2 o ho
      rw [hfile o g hg] at hs
      exact absurd hs (by decide)
    · split at hr
      · exact hwr _ row (hscan _ _) hr
      · cases hr
  · refine hwr _ row ?_ hm
    show (scanMemRow cfg (st.now - cfg.retention) cfg.fields st.memFields m.cols).getD o none = none
    unfold scanMemRow
    rw [hmiss]
    simp [List.getD_eq_getElem?_getD, ho]

/-- … and a scan of the table right after that rewrite returns the empty series for the field
    in every row -/
theorem scan_after_rewrite_added_none (cfg : TableCfg) (st : Store) (hout : IdNodup cfg.fields)
    (o : Nat) (ho : o < cfg.fields.length)
    (hfile : ∀ (i : Nat) (g : Field), st.fileFields[i]? = some (some g) → g.same cfg.fields[o] = false)
    (hmem : ∀ g ∈ st.memFields, g.same cfg.fields[o] = false) (includeMem : Bool) :
    ∀ row ∈ (st.flushBody cfg).iterateC cfg cfg.fields includeMem, row.cols.getD o none = none := by
  intro row hrow
  have hfileNone := flushBody_added_col_none cfg st hout o ho hfile hmem
  have hite : (if includeMem = true then (st.flushBody cfg).mem else []) = ([] : List Row) := by
    cases includeMem <;> rfl
  have hff : (st.flushBody cfg).fileFields = cfg.fields.map some := rfl
  have hmf : (st.flushBody cfg).memFields = cfg.fields := rfl
  unfold Store.iterateC at hrow
  simp only [] at hrow
  rw [hite, hff, hmf] at hrow
  simp only [List.filter_nil, List.map_nil, List.append_nil, List.mem_filterMap] at hrow
  obtain ⟨r, hr, hrow⟩ := hrow
  have hcol : (scanFileRow cfg ((st.flushBody cfg).now - cfg.retention) cfg.fields (List.map some cfg.fields)
      cfg.fields r.cols none).1.getD o none = none := by
    rw [scanFileRow_col cfg _ hout (idNodupO_map_some hout) hout r.cols none o ho]
    simp only [memColOf, merge_none_right, fileColOf]
    have hpos : filePos (cfg.fields.map some) cfg.fields[o] = some o := by
      unfold filePos
      rw [List.findIdx?_eq_some_iff_getElem]
      refine ⟨by simp [ho], by simp [Field.same_refl], ?_⟩
      intro j hj hc
      simp only [List.getElem_map] at hc
      have := (List.pairwise_iff_getElem.1 hout) j o (by omega) ho hj
      rw [this] at hc; exact absurd hc (by decide)
    rw [hpos]
    exact hfileNone r hr
  have key : ∀ (res : List Sq × Bool), res.1.getD o none = none →
      (if res.2 = true then some ({ key := r.key, cols := res.1 } : Row) else none) = some row →
      row.cols.getD o none = none := by
    intro res h1 h2
    cases hb : res.2 with
    | false => simp [hb] at h2
    | true =>
      simp only [hb, if_true, Option.some.injEq] at h2
      rw [← h2]; exact h1
  exact key _ hcol hrow

/-! ### invariants of the repaired store model: the memstore layout is the current definition
    and the resolved file layout only names fields of the current definition -/

structure LayoutInv (a : AStore) : Prop where
  mem_eq : a.st.memFields = a.cfg.fields
  file_sub : ∀ (i : Nat) (g : Field), a.st.fileFields[i]? = some (some g) → ∃ h ∈ a.cfg.fields, g.same h = true

theorem ingest_layout (x : Ext) (cfg : TableCfg) (st : Store) (p : RawPoint) :
    (st.ingest x cfg p).1.memFields = st.memFields ∧ (st.ingest x cfg p).1.fileFields = st.fileFields := by
  unfold Store.ingest
  split
  · exact ⟨rfl, rfl⟩
  · split
    · exact ⟨rfl, rfl⟩
    · simp only []
      split <;> exact ⟨rfl, rfl⟩

theorem map_some_sub (fs : List Field) (i : Nat) (g : Field) (h : (fs.map some)[i]? = some (some g)) :
    ∃ h ∈ fs, g.same h = true := by
  rw [List.getElem?_map] at h
  cases hf : fs[i]? with
  | none => rw [hf] at h; cases h
  | some g' =>
    rw [hf] at h
    have : g' = g := by simpa using h
    subst this
    exact ⟨g', List.mem_of_getElem? hf, Field.same_refl _⟩

theorem layoutInv_init (cfg : TableCfg) (w : Option Nat) : LayoutInv (AStore.init cfg w) :=
  ⟨rfl, by intro i g h; simp [AStore.init, Store.init] at h⟩

theorem layoutInv_step (x : Ext) (a : AStore) (inv : LayoutInv a) (op : AOp) : LayoutInv (a.step x op) := by
  cases op with
  | ingest p =>
    obtain ⟨h1, h2⟩ := ingest_layout x a.cfg a.st { p with whereOk := a.whereOk p }
    exact ⟨by simp only [AStore.step, AStore.ingest]; rw [h1]; exact inv.mem_eq,
      by simp only [AStore.step, AStore.ingest]; rw [h2]; exact inv.file_sub⟩
  | flush =>
    simp only [AStore.step, AStore.flush]
    split
    · exact inv
    · exact ⟨rfl, map_some_sub a.cfg.fields⟩
  | alter fs w =>
    simp only [AStore.step, AStore.alter]
    split
    · exact ⟨inv.mem_eq, inv.file_sub⟩
    · exact ⟨rfl, map_some_sub fs⟩
  | reopen fs w =>
    simp only [AStore.step, AStore.reopen]
    refine ⟨rfl, ?_⟩
    intro i g h
    simp only [] at h
    split at h
    · simp only [resolveHeader, List.getElem?_map] at h
      cases hh : (a.flush).header[i]? with
      | none => rw [hh] at h; cases h
      | some hd =>
        rw [hh] at h
        simp only [Option.map_some, Option.some.injEq] at h
        have hp := List.find?_some h
        exact ⟨g, List.mem_of_find?_eq_some h, Field.same_refl g⟩
    · simp at h

theorem layoutInv_run (x : Ext) (cfg : TableCfg) (w : Option Nat) (ops : List AOp) :
    LayoutInv (AStore.run x cfg w ops) := by
  unfold AStore.run
  have : ∀ (ops : List AOp) (a : AStore), LayoutInv a → LayoutInv (ops.foldl (AStore.step x) a) := by
    intro ops
    induction ops with
    | nil => intro a h; exact h
    | cons op r ih => intro a h; exact ih _ (layoutInv_step x a h op)
  exact this ops _ (layoutInv_init cfg w)

/-! ### scans deliver every memstore row (repair D17) -/

theorem iterateC_has_mem_only_rows (cfg : TableCfg) (st : Store) (out : List Field) (m : Row)
    (hm : m ∈ st.mem) (hnf : ∀ r ∈ st.file.getD [], (r.key == m.key) = false) :
    ∃ row ∈ st.iterateC cfg out true, row.key = m.key := by
  refine ⟨{ key := m.key, cols := scanMemRow cfg (st.now - cfg.retention) out st.memFields m.cols }, ?_, rfl⟩
  simp only [Store.iterateC, if_true, List.mem_append, List.mem_map, List.mem_filter]
  right
  refine ⟨m, ⟨hm, ?_⟩, rfl⟩
  simp only [Bool.not_eq_true', List.any_eq_false]
  intro r hr
  simp [hnf r hr]

end Zeno

namespace Zeno

/-! ### `Store.iterateC` is the shared `Store.iterate` of Model/Store.lean -/

theorem foldl_scan_rows (g : Row → Option Row) (step : ScanOut → Row → ScanOut)
    (hstep : ∀ acc r, acc.stopped = false →
      step acc r = match g r with | some row => { acc with rows := acc.rows ++ [row] } | none => acc) :
    ∀ (l : List Row) (acc : ScanOut), acc.stopped = false →
      l.foldl step acc = { rows := acc.rows ++ l.filterMap g, stopped := false } := by
  intro l
  induction l with
  | nil => intro acc h; cases acc; simp_all
  | cons r rs ih =>
    intro acc h
    simp only [List.foldl_cons, List.filterMap_cons]
    rw [hstep acc r h]
    cases hg : g r with
    | none => simp only []; exact ih acc h
    | some row =>
      simp only []
      rw [ih { rows := acc.rows ++ [row], stopped := acc.stopped } h]
      simp [List.append_assoc]

theorem iterateC_eq_iterate (cfg : TableCfg) (st : Store) (out : List Field) (includeMem : Bool) :
    (st.iterate cfg out includeMem).rows = st.iterateC cfg out includeMem := by
  unfold Store.iterate Store.iterateC
  simp only []
  rw [foldl_scan_rows (fun r =>
    let res := scanFileRow cfg (st.now - cfg.retention) out st.fileFields st.memFields r.cols
      ((List.find? (fun m => m.key == r.key) (if includeMem = true then st.mem else [])).map (·.cols))
    if res.2 then some ({ key := r.key, cols := res.1 } : Row) else none)]
  · simp [scanMemRow]
  · intro acc r hs
    simp only [hs, Bool.false_eq_true, if_false, scanFileRow]
    cases hm : List.find? (fun m => m.key == r.key) (if includeMem = true then st.mem else []) with
    | none =>
      simp only [Option.map_none, Bool.or_false]
      split <;> rename_i h <;> simp [h, hs]
    | some m =>
      simp only [Option.map_some]
      split <;> rename_i h <;> simp [h, hs]
  · rfl

theorem fieldsSame_get {fs gs : List Field} (h : fieldsSame fs gs = true) (o : Nat) (ho : o < fs.length) :
    ∃ ho' : o < gs.length, fs[o].same gs[o] = true := by
  unfold fieldsSame at h
  simp only [Bool.and_eq_true, beq_iff_eq, List.all_eq_true] at h
  obtain ⟨hlen, hall⟩ := h
  have ho' : o < gs.length := by omega
  have hm : (fs[o], gs[o]) ∈ fs.zip gs := by
    rw [List.mem_iff_getElem?]
    exact ⟨o, by simp [List.getElem?_zip_eq_some, ho, ho']⟩
  exact ⟨ho', hall _ hm⟩


theorem fieldsSame_refl (fs : List Field) : fieldsSame fs fs = true := by
  unfold fieldsSame
  simp only [beq_self_eq_true, Bool.true_and, List.all_eq_true]
  intro p hp
  obtain ⟨a, b⟩ := p
  have := List.of_mem_zip hp
  induction fs with
  | nil => simp at hp
  | cons f r ih =>
    simp only [List.zip_cons_cons, List.mem_cons, Prod.mk.injEq] at hp
    rcases hp with ⟨rfl, rfl⟩ | hp
    · exact Field.same_refl _
    · exact ih hp (List.of_mem_zip hp)


end Zeno
