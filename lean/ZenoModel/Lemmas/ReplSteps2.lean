/-
Per-event preservation of the replication invariant, part 2: insert, connect, startFollower,
msgdone.
-/
import ZenoModel.Lemmas.ReplSteps

set_option linter.unusedVariables false
set_option linter.unusedSimpArgs false

namespace Zeno.Repl

set_option maxHeartbeats 4000000 in
theorem inv_connect {cx : Ctx} {s s' : State} (hi : Inv cx s) (l : LId) (f : FId)
    (h : step cx s (.connect l f) = some s') : Inv cx s' := by
  simp only [step] at h
  split at h
  · simp only [Option.some.injEq] at h
    subst h
    inv_fields hi
    constructor
    all_goals (intros; try grind [List.Pairwise.nil, inflightFrom])
    case linkCover =>
      rename_i l1 f1 t sp hlk hs e he hw hp hle
      simp only [] at hlk hs he hp ⊢
      by_cases hc : l1 = l ∧ f1 = f
      · simp [hc] at hlk
      · simp only [hc, if_false] at hlk ⊢
        exact hi.linkCover _ _ _ _ hlk hs e he hw hp hle
  · cases h

set_option maxHeartbeats 4000000 in
theorem inv_msgdone {cx : Ctx} {s s' : State} (hi : Inv cx s) (f : FId) (l : LId) (o : Nat)
    (h : step cx s (.msgdone f l o) = some s') : Inv cx s' := by
  simp only [step] at h
  split at h
  · split at h
    · simp only [Option.some.injEq] at h
      subst h
      rename_i o' heq ho
      subst ho
      inv_fields hi
      have hL := fun (l : LId) (e' : Entry) (he : e' ∈ s.wal l) => le_top he
      constructor
      all_goals (intros; try grind [List.Pairwise.nil])
      case linkCover =>
        rename_i l1 f1 t sp hl hs e he hw hp hle
        simp only [] at hl hs hp ⊢
        rcases hi.linkCover l1 f1 t sp hl hs e he hw hp hle with hq | ⟨rem, hr, htr⟩
        · exact Or.inl hq
        · by_cases hc : f1 = f ∧ l1 = l
          · obtain ⟨rfl, rfl⟩ := hc
            rw [heq] at hr
            simp only [Option.some.injEq, Prod.mk.injEq] at hr
            rw [← hr.2] at htr
            cases htr
          · right
            exact ⟨rem, by simp only [hc, if_false]; exact hr, htr⟩
    · cases h
  · cases h

set_option maxHeartbeats 4000000 in
theorem inv_startFollower {cx : Ctx} (hg : Good cx) {s s' : State} (hi : Inv cx s) (f : FId)
    (h : step cx s (.startFollower f) = some s') : Inv cx s' := by
  simp only [step] at h
  split at h
  · simp only [Option.some.injEq] at h
    subst h
    -- what the table resumes from: per-source maximum of the two offset records
    have hrec : ∀ t l, recOff cx s f t l = max (s.offFile f t l) (s.diskOff f t l) := by
      intro t l
      simp [recOff, hg.2]
    have hrx := fun (t : TId) (l : LId) => hi.recExact f t l
    have hrtop : ∀ t l, recOff cx s f t l ≤ top (s.wal l) := by
      intro t l
      rw [hrec]
      have := hi.offTop f t l
      have := hi.diskTop f t l
      omega
    have hE := fun (l : LId) (t : TId) (ht : t ∈ cx.tables) =>
      earliestOf_le hg (fun t => recOff cx s f t l) ht
    have hB := fun (l : LId) => earliestOf_le_bound (cx := cx) (fun t => recOff cx s f t l) (b := top (s.wal l))
      (fun t => hrtop t l)
    inv_fields hi
    constructor
    all_goals (intros; try grind [List.Pairwise.nil])
  · cases h

set_option maxHeartbeats 4000000 in
theorem inv_insert {cx : Ctx} {s s' : State} (hi : Inv cx s) (l : LId) (e : Entry)
    (h : step cx s (.insert l e) = some s') : Inv cx s' := by
  simp only [step] at h
  split at h
  · simp only [Option.some.injEq] at h
    subst h
    rename_i hguard
    have hT := top_append (s.wal l) e
    have hS := sorted_append (hi.walSorted l) hguard.2
    inv_fields hi
    have hX := fun (t : TId) (f : FId) (off : Nat) (apps : List Nat) (h : Exact cx (s.wal l) t f off apps)
      (h2 : off ≤ top (s.wal l)) => Exact.append_wal h e h2 hguard.2
    have hL := fun (e' : Entry) (he : e' ∈ s.wal l) => le_top he
    constructor
    all_goals (intros; try grind [List.Pairwise.nil])
  · cases h

end Zeno.Repl
