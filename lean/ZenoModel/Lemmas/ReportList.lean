/-
Helper lemmas for C13: list facts used by the cluster argument (core Lean only).
-/
import ZenoModel.Model.Report

namespace Zeno.Report

/-- a duplicate-free list of numbers below n has at most n elements -/
theorem nodup_bounded_length : ∀ (n : Nat) (l : List Nat), l.Nodup → (∀ x, x ∈ l → x < n) → l.length ≤ n
  | 0, l, _, hb => by
    cases l with
    | nil => simp
    | cons a t => exact absurd (hb a (by simp)) (Nat.not_lt_zero _)
  | n + 1, l, hn, hb => by
    by_cases hm : n ∈ l
    · have h1 := nodup_bounded_length n (l.erase n) (hn.erase n) (by
        intro x hx
        have hxl : x ∈ l := List.mem_of_mem_erase hx
        have hne : x ≠ n := by
          intro he; subst he
          exact (List.Nodup.mem_erase_iff hn).mp hx |>.1 rfl
        have := hb x hxl
        omega)
      rw [List.length_erase_of_mem hm] at h1
      omega
    · have h1 := nodup_bounded_length n l hn (by
        intro x hx
        have := hb x hx
        have hne : x ≠ n := fun he => hm (he ▸ hx)
        omega)
      omega

/-- … and if it has n elements it contains every number below n -/
theorem nodup_full : ∀ (n : Nat) (l : List Nat), l.Nodup → (∀ x, x ∈ l → x < n) → n ≤ l.length → ∀ p, p < n → p ∈ l
  | 0, _, _, _, _, p, hp => absurd hp (Nat.not_lt_zero _)
  | n + 1, l, hn, hb, hl, p, hp => by
    by_cases hm : n ∈ l
    · have hb' : ∀ x, x ∈ l.erase n → x < n := by
        intro x hx
        have hxl : x ∈ l := List.mem_of_mem_erase hx
        have hne : x ≠ n := by
          intro he; subst he
          exact (List.Nodup.mem_erase_iff hn).mp hx |>.1 rfl
        have := hb x hxl
        omega
      by_cases hpn : p = n
      · subst hpn; exact hm
      · have hlen : n ≤ (l.erase n).length := by rw [List.length_erase_of_mem hm]; omega
        exact List.mem_of_mem_erase (nodup_full n (l.erase n) (hn.erase n) hb' hlen p (by omega))
    · exfalso
      have := nodup_bounded_length n l hn (by
        intro x hx
        have := hb x hx
        have hne : x ≠ n := fun he => hm (he ▸ hx)
        omega)
      omega

theorem take_succ_of_getElem? {α : Type} (l : List α) (k : Nat) (a : α) (h : l[k]? = some a) :
    l.take (k + 1) = l.take k ++ [a] := by
  induction l generalizing k with
  | nil => simp at h
  | cons x t ih =>
    cases k with
    | zero => simp at h; simp [h]
    | succ k => simp at h; simp [ih k h]

def partKey (p : Nat) : Row → Bool := fun r => r.part == p

theorem filter_partKey_of_all {l : List Row} {p : Nat} (h : ∀ r, r ∈ l → r.part = p) : l.filter (partKey p) = l := by
  apply List.filter_eq_self.mpr
  intro r hr; simp [partKey, h r hr]

theorem filter_partKey_of_none {l : List Row} {p : Nat} (h : ∀ r, r ∈ l → r.part ≠ p) : l.filter (partKey p) = [] := by
  apply List.filter_eq_nil_iff.mpr
  intro r hr; simp [partKey, h r hr]

/-- rows delivered so far, each partition's share being a prefix of its rows, extend to a
    complete cluster answer -/
theorem extend_out (parts : List Part)
    (hrows : ∀ (p : Nat) (pt : Part), parts[p]? = some pt → ∀ r : Row, r ∈ pt.rows → r.part = p)
    (acc : List Row) (hlt : ∀ r, r ∈ acc → r.part < parts.length)
    (hj : ∀ (p : Nat) (pt : Part), parts[p]? = some pt → ∃ j, acc.filter (partKey p) = pt.rows.take j) :
    ∀ k, k ≤ parts.length → ∃ rest, (∀ r, r ∈ rest → r.part < k) ∧
      ∀ (p : Nat) (pt : Part), p < k → parts[p]? = some pt → (acc ++ rest).filter (partKey p) = pt.rows
  | 0, _ => ⟨[], by simp, fun p _ hp => absurd hp (Nat.not_lt_zero _)⟩
  | k + 1, hk => by
    obtain ⟨rest, hr, hp⟩ := extend_out parts hrows acc hlt hj k (by omega)
    have hkk : k < parts.length := by omega
    have hget : parts[k]? = some parts[k] := List.getElem?_eq_getElem hkk
    obtain ⟨j, hjk⟩ := hj k parts[k] hget
    refine ⟨rest ++ parts[k].rows.drop j, ?_, ?_⟩
    · intro r hm
      rcases List.mem_append.mp hm with h | h
      · have := hr r h; omega
      · have := hrows k _ hget r (List.mem_of_mem_drop h); omega
    · intro p pt hpk hpt
      rw [← List.append_assoc, List.filter_append]
      by_cases hpe : p = k
      · subst hpe
        rw [hget] at hpt
        cases hpt
        rw [List.filter_append, hjk]
        have h1 : rest.filter (partKey p) = [] := filter_partKey_of_none (fun r h => by have := hr r h; omega)
        have h2 : (parts[p].rows.drop j).filter (partKey p) = parts[p].rows.drop j :=
          filter_partKey_of_all (fun r h => hrows p _ hget r (List.mem_of_mem_drop h))
        rw [h1, h2]; simp
      · have h2 : (parts[k].rows.drop j).filter (partKey p) = [] :=
          filter_partKey_of_none (fun r h => by
            have := hrows k _ hget r (List.mem_of_mem_drop h); omega)
        rw [h2, List.append_nil]
        exact hp p pt (by omega) hpt

end Zeno.Report
