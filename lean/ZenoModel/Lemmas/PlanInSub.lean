/-
C11 helper lemmas about IN-subqueries: `Opts.IsSubQuery` does not change the pushdown
decision, and the IN list only depends on the multiset of result rows.
-/
import ZenoModel.Lemmas.PlanCluster

namespace Zeno.PlanLemmas
open Zeno Zeno.Plan

theorem asSub_top (t : QTree) : (asSub t).top = asSubQ t.top := by
  cases t <;> rfl

theorem pushdownWalk_asSub (pk : List String) :
    ∀ (t : QTree) (all : Bool) (P : List String),
      pushdownWalk pk all P (asSub t) = pushdownWalk pk all P t := by
  intro t
  induction t with
  | table q => intro all P; rfl
  | sub q inner ih =>
    intro all P
    simp only [asSub, pushdownWalk, asSubQ, ih]

theorem subsClean_asSub : ∀ (t : QTree), subsClean (asSub t) = subsClean t := by
  intro t
  induction t with
  | table q => rfl
  | sub q inner ih =>
    simp only [asSub, subsClean, ih, asSub_top]
    rfl

/-- `fixupSubQuery` only replaces the fields: the decision is the one of the statement -/
theorem pushdownAllowed_asSub (pk : List String) (t : QTree) :
    pushdownAllowed pk (asSub t) = pushdownAllowed pk t := by
  unfold pushdownAllowed
  rw [subsClean_asSub, pushdownWalk_asSub, asSub_top]
  rfl

theorem mem_inList (dim : String) (rows : List FlatRow) (v : Option DimVal) :
    v ∈ inList dim rows ↔ ∃ r ∈ rows, List.lookup dim r.key = v := by
  unfold inList
  rw [mem_dedup]
  simp [List.mem_map]

theorem inList_of_perm (dim : String) {r₁ r₂ : List FlatRow} (p : r₁.Perm r₂)
    (v : Option DimVal) : v ∈ inList dim r₁ ↔ v ∈ inList dim r₂ := by
  rw [mem_inList, mem_inList]
  constructor
  · rintro ⟨r, hr, e⟩; exact ⟨r, p.mem_iff.mp hr, e⟩
  · rintro ⟨r, hr, e⟩; exact ⟨r, p.mem_iff.mpr hr, e⟩

/-- equal membership of the IN lists = the same WHERE function -/
theorem whereIn_congr (dim : String) {l₁ l₂ : List (Option DimVal)}
    (h : ∀ v, v ∈ l₁ ↔ v ∈ l₂) : whereIn dim l₁ = whereIn dim l₂ := by
  funext k
  unfold whereIn
  cases h1 : l₁.contains (k.get dim) <;> cases h2 : l₂.contains (k.get dim) <;> try rfl
  · have := (h (k.get dim)).mpr (by simpa using h2)
    simp [this] at h1
  · have := (h (k.get dim)).mp (by simpa using h1)
    simp [this] at h2

theorem lookup_filter_names (names : List String) (n : String) (hn : n ∈ names) (k : DKey) :
    List.lookup n (k.filter (fun p => names.contains p.1)) = List.lookup n k := by
  induction k with
  | nil => rfl
  | cons p k ih =>
    obtain ⟨a, v⟩ := p
    by_cases hc : names.contains a = true
    · simp only [List.filter_cons, hc, if_true, List.lookup_cons]
      cases n == a
      · exact ih
      · rfl
    · have hne : (n == a) = false := by
        have : n ≠ a := fun e => hc (by simpa [e] using hn)
        simpa using this
      simp only [List.filter_cons, hc, Bool.false_eq_true, if_false, List.lookup_cons, hne, ih]

/-- when the table keeps the partition keys the partition of a point is the partition of its
    stored row key -/
theorem pkProj_storedKey (tgb pk : List String) (h : partitionKeysKept tgb pk = true) (k : DKey) :
    pkProj pk (storedKey tgb k) = pkProj pk k := by
  unfold partitionKeysKept at h
  unfold storedKey
  by_cases he : tgb.isEmpty = true
  · simp [he]
  · simp only [he, Bool.false_or, Bool.and_eq_true, Bool.not_eq_true'] at h
    obtain ⟨hpk, hall⟩ := h
    simp only [he, Bool.false_eq_true, if_false, pkProj, hpk]
    apply filterMap_congr'
    intro n hn
    have hmem : n ∈ tgb := by
      have := List.all_eq_true.mp hall n hn
      simpa using this
    simp only [DKey.get, lookup_filter_names tgb n hmem k]

/-- with pass-through fields the exact-match rule picks the column of the expression itself,
    once, however the other select expressions overlap with it -/
theorem pickExact_self (st : Ex → List Cell) (e : Ex) :
    ∀ (fields : List Ex), e ∈ fields → pickExact (fields.map (fun f => (f, st f))) e = [st e] := by
  intro fields
  induction fields with
  | nil => intro h; cases h
  | cons f fs ih =>
    intro h
    unfold pickExact
    simp only [List.map_cons, dedupCols]
    by_cases hfe : f = e
    · subst hfe
      simp only [List.filter_cons, beq_self_eq_true, if_true, List.map_cons, List.filter_filter]
      have : (dedupCols (fs.map (fun f' => (f', st f')))).filter
          (fun c => (c.1 == f) && (c.1 != f)) = [] := by
        apply List.filter_eq_nil_iff.mpr
        intro c _
        cases hc : c.1 == f <;> simp [hc, bne]
      simp [this]
    · have hne : (f == e) = false := by simpa using hfe
      have hmem : e ∈ fs := by
        rcases List.mem_cons.mp h with h' | h'
        · exact absurd h'.symm hfe
        · exact h'
      simp only [List.filter_cons, hne, Bool.false_eq_true, if_false, List.filter_filter]
      have := ih hmem
      unfold pickExact at this
      rw [← this]
      congr 1
      apply List.filter_congr
      intro c _
      cases hc : c.1 == e
      · simp
      · have : c.1 = e := by simpa using hc
        have hcf : (c.1 != f) = true := by
          rw [this]; simpa [bne] using fun h' : e = f => hfe h'.symm
        simp [hcf]

theorem leaderStateCols_eq (fields : List Ex) (e : Ex) (he : e ∈ fields) (sel : Option String)
    (ms : List SRow) : leaderStateCols fields e sel ms = leaderState e sel ms := by
  unfold leaderStateCols leaderState
  congr 1
  induction ms.filter (selS sel) with
  | nil => rfl
  | cons m rest ih =>
    simp only [List.flatMap_cons, List.map_cons, ih, pickExact_self (fun f => m.st f) e fields he]
    rfl

end Zeno.PlanLemmas
