/-
Derived selected expressions, part 27 (stage 3): the rows of `runQuery` and of `specQuery` before
HAVING have the same members at the slots that hold data; `runQuery`/`specQuery` unfolded with HAVING.
-/
import ZenoModel.Lemmas.DerivedRead3
set_option linter.unusedSimpArgs false
set_option linter.unusedVariables false
namespace Zeno

/-- the rows `runQuery` builds before HAVING -/
def e2eFlat (x : Ext) (cfg : TableCfg) (ops : List StoreOp) (q : Query) (metas : List KeyMeta) (pl : Plan) : List QRow :=
  (e2eGroup x cfg ops q metas pl).flatMap (flattenRow x q.outFields (gResOf cfg pl))

/-- the rows `specQuery` builds before HAVING -/
def e2eSpecFlat (x : Ext) (cfg : TableCfg) (ops : List StoreOp) (q : Query) (metas : List KeyMeta) (pl : Plan) : List QRow :=
  (specBuckets q (specRows q metas (acceptedRows cfg true (pointsOf ops)).1)
      (gAsOfOf cfg (runStore x cfg ops).now pl) (gUntilOf cfg (runStore x cfg ops).now pl) (gResOf cfg pl)).filterMap
    (fun kT => e2eSpecAt x cfg ops q metas pl kT.1 kT.2)

/-- `runQuery`, grouped branch, with or without HAVING -/
theorem runQuery_grouped_gen (x : Ext) (cfg : TableCfg) (ops : List StoreOp) (q : Query) (metas : List KeyMeta) (pl : Plan)
    (hpl : planLocal cfg (runStore x cfg ops).now q = .ok pl) (hne : (includedFields cfg q).isEmpty = false)
    (hng : pl.needsGroupBy = true) :
    runQuery x cfg (runStore x cfg ops) q metas true =
      .ok (if q.hasHaving then havingFilter (e2eFlat x cfg ops q metas pl) else e2eFlat x cfg ops q metas pl) := by
  unfold runQuery
  rw [hpl]
  simp only [bind, Except.bind, hne, hng, pure, Except.pure, Bool.false_eq_true, if_false, if_true]
  rfl

theorem specOut_eq_gen (x : Ext) (cfg : TableCfg) (ops : List StoreOp) (q : Query) (metas : List KeyMeta) (pl : Plan) :
    specOut x cfg q metas (acceptedRows cfg true (pointsOf ops)).1 (runStore x cfg ops).now pl =
      if q.hasHaving then havingFilter (e2eSpecFlat x cfg ops q metas pl) else e2eSpecFlat x cfg ops q metas pl := rfl

section
variable (x : Ext) {cfg : TableCfg} {ops : List StoreOp} {q : Query} {metas : List KeyMeta} {pl : Plan}
  (C : DerivedCtx x cfg ops q metas pl) (hall : ∀ f ∈ q.outFields, DerivedField x cfg ops q f)
include C hall

/-- a row of the flattened result comes from one grouped row at one grid time -/
theorem mem_e2eFlat (row : QRow) :
    row ∈ e2eFlat x cfg ops q metas pl ↔
      ∃ g ∈ e2eGroup x cfg ops q metas pl, g.key = row.key ∧
        (gUntilOf cfg (runStore x cfg ops).now pl - row.ts) % gResOf cfg pl = 0 ∧
        flatAt x q.outFields (gResOf cfg pl) g row.ts = some row := by
  unfold e2eFlat
  rw [List.mem_flatMap]
  constructor
  · intro ⟨g, hg, hr⟩
    obtain ⟨T, hT, hrow⟩ := (mem_flattenRow x _ _ _ g C.base.resPos (derived_group_onGrid x C hall g hg) row).mp hr
    obtain ⟨hk, hts⟩ := flatAt_key_ts x _ _ g T row hrow
    exact ⟨g, hg, hk.symm, by rw [hts]; exact hT, by rw [hts]; exact hrow⟩
  · intro ⟨g, hg, _, hT, hrow⟩
    exact ⟨g, hg, (mem_flattenRow x _ _ _ g C.base.resPos (derived_group_onGrid x C hall g hg) row).mpr
      ⟨row.ts, hT, hrow⟩⟩

/-- SAME MEMBERS at the slots that hold data -/
theorem derived_mem_iff (row : QRow) (hd : HoldsData x cfg ops q metas pl row.key row.ts) :
    row ∈ e2eFlat x cfg ops q metas pl ↔ row ∈ e2eSpecFlat x cfg ops q metas pl := by
  rw [mem_e2eFlat x C hall row]
  unfold e2eSpecFlat
  rw [List.mem_filterMap]
  constructor
  · intro ⟨g, hg, hk, hT, hrow⟩
    rw [← hk] at hd
    rw [derived_flatAt_data x C hall g hg row.ts hT hd] at hrow
    obtain ⟨hne, _⟩ := derived_spec_row_grouped x C hall g.key row.ts row hT hd hrow
    exact ⟨(g.key, row.ts), specBuckets_of_nonempty q _ (specAdj metas) _ _ _ _ _ hne, hrow⟩
  · intro ⟨kT, hb, hrow⟩
    obtain ⟨k, T⟩ := kT
    obtain ⟨hw, hT⟩ := specBuckets_window C.base.resPos hb
    simp only at hrow
    have hkt : row.key = k ∧ row.ts = T := by
      have := specAt_some x q metas _ _ _ _ k T row hrow
      exact ⟨this.1, this.2.1⟩
    rw [hkt.1, hkt.2] at hd
    obtain ⟨_, g, hg, rfl⟩ := derived_spec_row_grouped x C hall k T row hT hd hrow
    refine ⟨g, hg, hkt.1.symm, by rw [hkt.2]; exact hT, ?_⟩
    rw [hkt.2, derived_flatAt_data x C hall g hg T hT hd]
    exact hrow

end

end Zeno
