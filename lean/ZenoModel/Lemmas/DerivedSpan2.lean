/-
Derived selected expressions, part 31 (stage 3, physical spans): `Truncate` as a whole, and the two
growth steps of `SubMerge`.
-/
import ZenoModel.Lemmas.DerivedSpan
set_option linter.unusedSimpArgs false
set_option linter.unusedVariables false
namespace Zeno

/-- a grid point not above `t` is not above `t` rounded down on that grid -/
theorem le_roundUntilDown {r : Int} (h : 0 < r) {t hi T : Int} (ht : t ≠ 0) (hh : hi ≠ 0)
    (hg : (hi - T) % r = 0) (hle : T ≤ t) : T ≤ roundUntilDown t r hi := by
  obtain ⟨s1, s2, s3⟩ := roundUntilDown_spec (t := t) (hi := hi) h ht hh
  by_cases hc : T ≤ roundUntilDown t r hi
  · exact hc
  · exfalso
    have hm : (T - roundUntilDown t r hi) % r = 0 := by
      have : T - roundUntilDown t r hi = (hi - roundUntilDown t r hi) - (hi - T) := by omega
      rw [this]; exact emod_sub_of s1 hg
    have := grid_gap h hm (by omega)
    omega

/-- `Truncate` keeps a period of the sequence's grid that lies inside `(a, b]` -/
theorem truncate_covers {r : Int} (h : 0 < r) (q : Seq) (a b T : Int) (hq : q.hi ≠ 0) (ha0 : a ≠ 0) (hb0 : b ≠ 0)
    (hg : (q.hi - T) % r = 0) (ha : a < T) (hb : T ≤ b) (hc : covers q r T) :
    ∃ q', Sq.truncate (some q) r a b = some q' ∧ covers q' r T ∧ (q.hi - q'.hi) % r = 0 := by
  obtain ⟨b1, b2, b3⟩ := roundUntilDown_spec (t := b) (hi := q.hi) h hb0 hq
  obtain ⟨a1, a2, a3⟩ := roundUntilDown_spec (t := a) (hi := q.hi) h ha0 hq
  have hTb := le_roundUntilDown h hb0 hq hg hb
  rw [truncate_eq]
  obtain ⟨r0, h1, h2, h3⟩ := truncUntil_covers h q (roundUntilDown b r q.hi) T b1 (Or.inr hTb) hc
  rw [h1]
  simp only
  have hga : (r0.hi - roundUntilDown a r q.hi) % r = 0 := by
    have : r0.hi - roundUntilDown a r q.hi = (q.hi - roundUntilDown a r q.hi) - (q.hi - r0.hi) := by omega
    rw [this]; exact emod_sub_of a1 h3
  obtain ⟨q', h4, h5, h6⟩ := truncAsOf_covers h r0 (roundUntilDown a r q.hi) T hga (Or.inr (by omega)) h2
  exact ⟨q', h4, h5, by rw [h6]; exact h3⟩

/-- "prepend" keeps every present period present -/
theorem smPrepend_covers {e : Ex} {res : Int} (h : 0 < res) (nu : Int) (r : Seq) (T : Int)
    (hg : (nu - r.hi) % res = 0) (hc : covers r res T) : covers (smPrepend e res nu (some r)) res T := by
  have hl := covers_len_pos h hc
  simp only [smPrepend]
  rw [if_neg (by omega), exact_tdiv h hg]
  have hx := ediv_mul_exact hg
  split
  · rename_i hpos
    unfold covers at hc ⊢
    simp only [List.length_append, List.length_replicate, Int.natCast_add]
    have hdn : (((nu - r.hi) / res).toNat : Int) = (nu - r.hi) / res := Int.toNat_of_nonneg (by omega)
    rw [hdn, Int.add_mul]
    have : 0 < (nu - r.hi) / res * res := Int.mul_pos hpos h
    omega
  · exact hc

/-- "append" keeps every present period present -/
theorem smAppend_covers {e : Ex} {res : Int} (otherAsOf : Int) (r1 : Seq) (T : Int) (h : 0 < res)
    (hc : covers r1 res T) : covers (smAppend e res otherAsOf r1) res T := by
  unfold smAppend
  simp only
  split
  · unfold covers at hc ⊢
    simp only [List.length_append, List.length_replicate, Int.natCast_add, Int.add_mul]
    have : 0 ≤ ((((roundUntilUp (Sq.asOf (some r1) res) res r1.hi - roundUntilDown otherAsOf res r1.hi).tdiv res).toNat : Nat) : Int) * res :=
      Int.mul_nonneg (by omega) (Int.le_of_lt h)
    omega
  · exact hc

end Zeno
