/-
End-to-end, stage 2 (read-out), part 1: `Sequence.ValueAtTime` on a column that lies on the out
grid, at a time on that grid, reads the state `Sq.at` holds — provided the expression has no value
on the empty state (a plain aggregate); and it only has a value inside the column's span.
-/
import ZenoModel.Lemmas.SubMergeSemFrame
set_option linter.unusedSimpArgs false
set_option linter.unusedVariables false
namespace Zeno

/-- the column is empty or lies on the grid of step `res` anchored at `hi0` (after the zero time) -/
def OnGrid (res hi0 : Int) : Sq → Prop
  | none => True
  | some q => (hi0 - q.hi) % res = 0 ∧ q.hi ≠ 0

theorem onGrid_sub {res hi0 : Int} {q : Seq} (hg : OnGrid res hi0 (some q)) {T : Int} (hT : (hi0 - T) % res = 0) :
    (q.hi - T) % res = 0 := by
  have : q.hi - T = (hi0 - T) - (hi0 - q.hi) := by omega
  rw [this]; exact emod_sub_of hT hg.1

theorem roundUntilUp_on_grid {res hi T : Int} (hh : hi ≠ 0) (hm : (hi - T) % res = 0) :
    roundUntilUp T res hi = T := by
  unfold roundUntilUp
  by_cases h0 : T = 0
  · rw [if_pos h0]
  · rw [if_neg h0, if_neg hh, ediv_mul_exact hm]; omega

/-- `ValueAtTime` for a non-constant expression, on the grid -/
theorem valueAtTime_on_grid (x : Ext) (e : Ex) (hnc : e.isConstant = false) {res hi0 : Int} (hres : 0 < res)
    (q : Seq) (hg : OnGrid res hi0 (some q)) (T : Int) (hT : (hi0 - T) % res = 0) :
    Sq.valueAtTime x (some q) e res T =
      if T ≤ q.hi then (q.cells[((q.hi - T) / res).toNat]?).bind (fun c => e.val x c) else none := by
  have hq := onGrid_sub hg hT
  unfold Sq.valueAtTime
  rw [if_neg (by simp [hnc])]
  simp only [roundUntilUp_on_grid hg.2 hq]
  by_cases hle : T ≤ q.hi
  · rw [if_neg (by omega), if_pos hle, tdiv_nonneg_of (by omega) hres]
    have hnn : 0 ≤ (q.hi - T) / res := Int.ediv_nonneg (by omega) (Int.le_of_lt hres)
    rw [if_neg (by omega)]
    cases q.cells[((q.hi - T) / res).toNat]? <;> rfl
  · rw [if_pos (by omega), if_neg hle]

/-- … it reads the state `Sq.at` holds, when the expression has no value on the empty state -/
theorem valueAtTime_eq_val_at (x : Ext) (e : Ex) (hnc : e.isConstant = false) (hval : e.val x e.empty = none)
    {res hi0 : Int} (hres : 0 < res) (s : Sq) (hg : OnGrid res hi0 s) (T : Int) (hT : (hi0 - T) % res = 0) :
    s.valueAtTime x e res T = e.val x (s.at e res T) := by
  cases s with
  | none =>
    unfold Sq.valueAtTime
    rw [if_neg (by simp [hnc])]
    exact hval.symm
  | some q =>
    rw [valueAtTime_on_grid x e hnc hres q hg T hT]
    have hq := onGrid_sub hg hT
    unfold Sq.at
    simp only
    by_cases hle : T ≤ q.hi
    · rw [if_pos hle, if_pos ⟨hq, hle⟩, List.getD_eq_getElem?_getD]
      cases q.cells[((q.hi - T) / res).toNat]? with
      | none => exact hval.symm
      | some c => rfl
    · rw [if_neg hle, if_neg (fun h => hle h.2)]
      exact hval.symm

/-- … and it has a value only inside the column's span `(asOf, until]` -/
theorem valueAtTime_some_range (x : Ext) (e : Ex) (hnc : e.isConstant = false) {res hi0 : Int} (hres : 0 < res)
    (s : Sq) (hg : OnGrid res hi0 s) (T : Int) (hT : (hi0 - T) % res = 0)
    (h : (s.valueAtTime x e res T).isSome = true) :
    ∃ q, s = some q ∧ q.hi - (q.cells.length : Int) * res < T ∧ T ≤ q.hi ∧ 0 < q.cells.length := by
  cases s with
  | none =>
    unfold Sq.valueAtTime at h
    rw [if_neg (by simp [hnc])] at h
    cases h
  | some q =>
    rw [valueAtTime_on_grid x e hnc hres q hg T hT] at h
    have hq := onGrid_sub hg hT
    by_cases hle : T ≤ q.hi
    · rw [if_pos hle] at h
      have hidx : ((q.hi - T) / res).toNat < q.cells.length := by
        cases hc : q.cells[((q.hi - T) / res).toNat]? with
        | none => rw [hc] at h; cases h
        | some c => exact (List.getElem?_eq_some_iff.mp hc).1
      have hnn : 0 ≤ (q.hi - T) / res := Int.ediv_nonneg (by omega) (Int.le_of_lt hres)
      have hx := ediv_mul_exact hq
      have hlt : (q.hi - T) / res < (q.cells.length : Int) := by omega
      have : (q.hi - T) / res * res < (q.cells.length : Int) * res := Int.mul_lt_mul_of_pos_right hlt hres
      exact ⟨q, rfl, by omega, hle, by omega⟩
    · rw [if_neg hle] at h; cases h

end Zeno
