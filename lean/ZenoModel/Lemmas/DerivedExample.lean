/-
Derived selected expressions: the example data of the non-vacuity `example`s in Props/Derived.lean.
Table `SUM(a) AS f0, COUNT(b) AS f1` (plus `_points`), three keys of which two project to d=1; key
conditions: c100 holds for (d=1,e=x) and (d=2,e=x), not for (d=1,e=y).
-/
import ZenoModel.Lemmas.DerivedSpan8
namespace Zeno.Derived
open Zeno

def dA : Ex := .agg .sum (.field "a")
def dB : Ex := .agg .count (.field "b")
def dCfg : TableCfg :=
  { fields := [⟨"_points", .agg .sum (.field "_point")⟩, ⟨"f0", dA⟩, ⟨"f1", dB⟩],
    res := 10, retention := 100, groupBy := none }
def kx1 : Key := [("d", "1"), ("e", "x")]
def ky1 : Key := [("d", "1"), ("e", "y")]
def kx2 : Key := [("d", "2"), ("e", "x")]
def dOps : List StoreOp :=
  [.ingest { ts := 1003, dims := kx1, vals := [("a", [2]), ("b", [1])] },
   .ingest { ts := 1018, dims := ky1, vals := [("a", [6]), ("b", [1])] },
   .flush false,
   .ingest { ts := 1021, dims := kx1, vals := [("a", [4]), ("b", [1])] },
   .ingest { ts := 1040, dims := kx2, vals := [("a", [3]), ("b", [3])] },
   .ingest { ts := 3, dims := kx1, vals := [("a", [9])] },
   .ingest { ts := 950, dims := ky1, vals := [("a", [8]), ("b", [2])] },
   .flush true,
   .ingest { ts := 1034, dims := ky1, vals := [("a", [8]), ("b", [5])] }]
def dMetas : List KeyMeta := [{ key := kx1, conds := [100] }, { key := ky1 }, { key := kx2, conds := [100] }]
def dQ : Query :=
  { outFields := [⟨"q", .bin .div dA dB⟩, ⟨"r", .ifE 100 dA⟩, ⟨"_having", .bin .gt dA (.const 1)⟩],
    groupByAll := false, groupBy := ["d"], resolution := 20, hasSpecificFields := true, hasHaving := true }
/-- `SELECT f0 * 2 AS x`: a constant operand, no HAVING -/
def dQ2 : Query :=
  { outFields := [⟨"x", .bin .mul dA (.const 2)⟩], groupByAll := false, groupBy := ["d"], resolution := 20,
    hasSpecificFields := true }
def dPl (q : Query) : Plan := match planLocal dCfg 1040 q with | .ok p => p | .error _ => default

/-- `… HAVING f0 > f1`: the helper has no value on the empty state -/
def dQ3 : Query := { dQ with outFields := [⟨"q", .bin .div dA dB⟩, ⟨"r", .ifE 100 dA⟩, ⟨"_having", .bin .gt dA dB⟩] }
def okRows (r : Except QErr (List QRow)) : List QRow := match r with | .ok l => l | .error _ => []

end Zeno.Derived
