/-
Algebraic laws of merge/update for valid, PERCENTILE-free expressions:
leaf laws over the regenerated closures, then identity, commutativity,
associativity of `mrg` and the update/merge step law, by induction over the tree.
-/
import ZenoModel.Lemmas.ExprAlg

namespace Zeno
open Gen

/-! ### leaf laws (proof obligations over Generated/Leaves.lean) -/

theorem aggMerge_comm (k : AggKind) (a b : Rat) : aggMerge k true a b = aggMerge k true b a := by
  cases k <;> simp [aggMerge, agg_SUM_merge, agg_MIN_merge, agg_MAX_merge, agg_COUNT_merge] <;> grind

theorem aggMerge_assoc (k : AggKind) (a b c : Rat) :
    aggMerge k true (aggMerge k true a b) c = aggMerge k true a (aggMerge k true b c) := by
  cases k <;> simp [aggMerge, agg_SUM_merge, agg_MIN_merge, agg_MAX_merge, agg_COUNT_merge] <;> grind

/-- first update of an unset cell, seen from a set one -/
theorem aggUpdate_first (k : AggKind) (a v : Rat) :
    aggUpdate k true a v = aggMerge k true a (aggUpdate k false 0 v) := by
  cases k <;> simp [aggMerge, aggUpdate, agg_SUM_merge, agg_MIN_merge, agg_MAX_merge, agg_COUNT_merge,
    agg_SUM_update, agg_MIN_update, agg_MAX_update, agg_COUNT_update] <;> grind

theorem aggUpdate_merge (k : AggKind) (a b v : Rat) :
    aggUpdate k true (aggMerge k true a b) v = aggMerge k true a (aggUpdate k true b v) := by
  cases k <;> simp [aggMerge, aggUpdate, agg_SUM_merge, agg_MIN_merge, agg_MAX_merge, agg_COUNT_merge,
    agg_SUM_update, agg_MIN_update, agg_MAX_update, agg_COUNT_update] <;> grind

/-- COUNT's two different closures agree: merging counts = counting everything -/
theorem count_update_is_merge_one (a : Rat) : aggUpdate .count true a 0 = aggMerge .count true a 1 := by
  simp [aggMerge, aggUpdate, agg_COUNT_merge, agg_COUNT_update]

/-! ### mergeOpt -/

theorem mergeOpt_none_right {α : Type} (f : α → α → α) (a : Option α) : mergeOpt f a none = a := by
  cases a <;> rfl

theorem mergeOpt_comm {α : Type} (f : α → α → α) (hf : ∀ a b, f a b = f b a) (a b : Option α) :
    mergeOpt f a b = mergeOpt f b a := by
  cases a <;> cases b <;> simp [mergeOpt, hf]

theorem mergeOpt_assoc {α : Type} (f : α → α → α) (hf : ∀ a b c, f (f a b) c = f a (f b c))
    (a b c : Option α) : mergeOpt f (mergeOpt f a b) c = mergeOpt f a (mergeOpt f b c) := by
  cases a <;> cases b <;> cases c <;> simp [mergeOpt, hf]

/-! ### explicit leaf formulas -/

variable (x : Ext)

theorem mrg_agg (k : AggKind) (w : Ex) (a b : Option Rat) :
    (Ex.agg k w).mrg [.agg a] [.agg b] = [.agg (mergeOpt (aggMerge k true) a b)] := by
  simp [Ex.mrg, Ex.merge]

theorem mrg_avg (v w : Ex) (a b : Option (Rat × Rat)) :
    (Ex.avg v w).mrg [.avg a] [.avg b] =
      [.avg (mergeOpt (fun a b => (a.1 + b.1, a.2 + b.2)) a b)] := by
  simp [Ex.mrg, Ex.merge]

/-- update of an aggregate cell -/
def aggStep (k : AggKind) (c : Option Rat) (upd : Bool) (v : Rat) : Option Rat :=
  if upd then some (aggUpdate k c.isSome (c.getD 0) v) else c

theorem upd_agg {k : AggKind} {w : Ex} (hl : w.isLeafArg = true) (c : Option Rat) (p : Pt) :
    (Ex.agg k w).upd x [.agg c] p = [.agg (aggStep k c (w.argUpd x p) (w.argVal x p))] := by
  cases c <;> cases hu : w.argUpd x p <;>
    simp [Ex.upd, Ex.update, leafArg_update x hl, hu, aggStep]

/-- update of an AVG cell -/
def avgStep (c : Option (Rat × Rat)) (upd : Bool) (v wt : Rat) : Option (Rat × Rat) :=
  if upd then some ((c.getD (0, 0)).1 + wt, (c.getD (0, 0)).2 + v * wt) else c

theorem upd_avg {v w : Ex} (hl : v.isLeafArg = true) (hw0 : w.width = 0) (c : Option (Rat × Rat)) (p : Pt) :
    (Ex.avg v w).upd x [.avg c] p =
      [.avg (avgStep c (v.argUpd x p) (v.argVal x p) (w.argVal x p))] := by
  cases c <;> cases hu : v.argUpd x p <;>
    simp [Ex.upd, Ex.update, leafArg_update x hl, width0_update x hw0, hu, avgStep]

theorem aggStep_merge (k : AggKind) (s a : Option Rat) (u : Bool) (v : Rat) :
    aggStep k (mergeOpt (aggMerge k true) s a) u v = mergeOpt (aggMerge k true) s (aggStep k a u v) := by
  cases u
  · simp [aggStep]
  · cases s <;> cases a <;> simp [aggStep, mergeOpt]
    · exact aggUpdate_first k _ v
    · exact aggUpdate_merge k _ _ v

theorem avgStep_merge (s a : Option (Rat × Rat)) (u : Bool) (v wt : Rat) :
    avgStep (mergeOpt (fun a b => (a.1 + b.1, a.2 + b.2)) s a) u v wt =
      mergeOpt (fun a b => (a.1 + b.1, a.2 + b.2)) s (avgStep a u v wt) := by
  cases u
  · simp [avgStep]
  · cases s <;> cases a <;> simp [avgStep, mergeOpt] <;> constructor <;> grind

/-! ### laws over whole expressions -/

theorem mrg_empty_right : ∀ {e : Ex}, e.valid = true → e.noPtile = true →
    ∀ {st : List Cell}, WF e st → e.mrg st e.empty = st := by
  intro e
  induction e with
  | field n => intro _ _ st hw; rw [wf_nil_of_shape_nil rfl hw]; rfl
  | const v => intro _ _ st hw; rw [wf_nil_of_shape_nil rfl hw]; rfl
  | agg k w _ =>
      intro hv _ st hw
      have hl : w.isLeafArg = true := by simpa [Ex.valid] using hv
      obtain ⟨a, rfl⟩ := wf_agg_inv hl hw
      have he : w.empty = [] := wf_nil_of_shape_nil (leafArg_shape hl) (wf_empty w)
      simp [Ex.empty, he, mrg_agg, mergeOpt_none_right]
  | avg v w _ _ =>
      intro hv _ st hw
      simp [Ex.valid] at hv
      obtain ⟨a, rfl⟩ := wf_avg_inv hv.1 hw
      have he : v.empty = [] := wf_nil_of_shape_nil (leafArg_shape hv.1) (wf_empty v)
      simp [Ex.empty, he, mrg_avg, mergeOpt_none_right]
  | bin op l r ihl ihr =>
      intro hv hp st hw
      simp [Ex.valid] at hv
      simp [Ex.noPtile] at hp
      obtain ⟨sl, sr, rfl, hwl, hwr⟩ := wf_split hw
      simp only [Ex.empty]
      rw [mrg_bin hv.1 hp.1 hwl (wf_empty l), ihl hv.1 hp.1 hwl, ihr hv.2 hp.2 hwr]
  | ifE c w ih =>
      intro hv hp st hw
      simpa [Ex.mrg, Ex.merge, Ex.empty] using ih (by simpa [Ex.valid] using hv) (by simpa [Ex.noPtile] using hp) hw
  | bounded w lo hi ih =>
      intro hv hp st hw
      simpa [Ex.mrg, Ex.merge, Ex.empty] using ih (by simpa [Ex.valid] using hv) (by simpa [Ex.noPtile] using hp) hw
  | shift w off ih =>
      intro hv hp st hw
      simpa [Ex.mrg, Ex.merge, Ex.empty] using ih (by simpa [Ex.valid] using hv) (by simpa [Ex.noPtile] using hp) hw
  | unary f w ih =>
      intro hv hp st hw
      simpa [Ex.mrg, Ex.merge, Ex.empty] using ih (by simpa [Ex.valid] using hv) (by simpa [Ex.noPtile] using hp) hw
  | ptile _ _ _ _ _ _ => intro _ hp; simp [Ex.noPtile] at hp

theorem mrg_comm : ∀ {e : Ex}, e.valid = true → e.noPtile = true →
    ∀ {a b : List Cell}, WF e a → WF e b → e.mrg a b = e.mrg b a := by
  intro e
  induction e with
  | field n => intro _ _ a b ha hb; rw [wf_nil_of_shape_nil rfl ha, wf_nil_of_shape_nil rfl hb]
  | const v => intro _ _ a b ha hb; rw [wf_nil_of_shape_nil rfl ha, wf_nil_of_shape_nil rfl hb]
  | agg k w _ =>
      intro hv _ a b ha hb
      have hl : w.isLeafArg = true := by simpa [Ex.valid] using hv
      obtain ⟨a, rfl⟩ := wf_agg_inv hl ha
      obtain ⟨b, rfl⟩ := wf_agg_inv hl hb
      rw [mrg_agg, mrg_agg, mergeOpt_comm _ (aggMerge_comm k)]
  | avg v w _ _ =>
      intro hv _ a b ha hb
      simp [Ex.valid] at hv
      obtain ⟨a, rfl⟩ := wf_avg_inv hv.1 ha
      obtain ⟨b, rfl⟩ := wf_avg_inv hv.1 hb
      rw [mrg_avg, mrg_avg, mergeOpt_comm]
      intro a b
      simp [Rat.add_comm]
  | bin op l r ihl ihr =>
      intro hv hp a b ha hb
      simp [Ex.valid] at hv
      simp [Ex.noPtile] at hp
      obtain ⟨al, ar, rfl, hal, har⟩ := wf_split ha
      obtain ⟨bl, br, rfl, hbl, hbr⟩ := wf_split hb
      rw [mrg_bin hv.1 hp.1 hal hbl, mrg_bin hv.1 hp.1 hbl hal, ihl hv.1 hp.1 hal hbl, ihr hv.2 hp.2 har hbr]
  | ifE c w ih =>
      intro hv hp a b ha hb
      simpa [Ex.mrg, Ex.merge] using ih (by simpa [Ex.valid] using hv) (by simpa [Ex.noPtile] using hp) ha hb
  | bounded w lo hi ih =>
      intro hv hp a b ha hb
      simpa [Ex.mrg, Ex.merge] using ih (by simpa [Ex.valid] using hv) (by simpa [Ex.noPtile] using hp) ha hb
  | shift w off ih =>
      intro hv hp a b ha hb
      simpa [Ex.mrg, Ex.merge] using ih (by simpa [Ex.valid] using hv) (by simpa [Ex.noPtile] using hp) ha hb
  | unary f w ih =>
      intro hv hp a b ha hb
      simpa [Ex.mrg, Ex.merge] using ih (by simpa [Ex.valid] using hv) (by simpa [Ex.noPtile] using hp) ha hb
  | ptile _ _ _ _ _ _ => intro _ hp; simp [Ex.noPtile] at hp

theorem mrg_assoc : ∀ {e : Ex}, e.valid = true → e.noPtile = true →
    ∀ {a b c : List Cell}, WF e a → WF e b → WF e c →
    e.mrg (e.mrg a b) c = e.mrg a (e.mrg b c) := by
  intro e
  induction e with
  | field n => intro _ _ a b c ha hb hc; rw [wf_nil_of_shape_nil rfl ha, wf_nil_of_shape_nil rfl hb, wf_nil_of_shape_nil rfl hc]; rfl
  | const v => intro _ _ a b c ha hb hc; rw [wf_nil_of_shape_nil rfl ha, wf_nil_of_shape_nil rfl hb, wf_nil_of_shape_nil rfl hc]; rfl
  | agg k w _ =>
      intro hv _ a b c ha hb hc
      have hl : w.isLeafArg = true := by simpa [Ex.valid] using hv
      obtain ⟨a, rfl⟩ := wf_agg_inv hl ha
      obtain ⟨b, rfl⟩ := wf_agg_inv hl hb
      obtain ⟨c, rfl⟩ := wf_agg_inv hl hc
      simp only [mrg_agg]
      rw [mergeOpt_assoc _ (aggMerge_assoc k)]
  | avg v w _ _ =>
      intro hv _ a b c ha hb hc
      simp [Ex.valid] at hv
      obtain ⟨a, rfl⟩ := wf_avg_inv hv.1 ha
      obtain ⟨b, rfl⟩ := wf_avg_inv hv.1 hb
      obtain ⟨c, rfl⟩ := wf_avg_inv hv.1 hc
      simp only [mrg_avg]
      rw [mergeOpt_assoc]
      intro a b c
      simp [Rat.add_assoc]
  | bin op l r ihl ihr =>
      intro hv hp a b c ha hb hc
      simp [Ex.valid] at hv
      simp [Ex.noPtile] at hp
      obtain ⟨al, ar, rfl, hal, har⟩ := wf_split ha
      obtain ⟨bl, br, rfl, hbl, hbr⟩ := wf_split hb
      obtain ⟨cl, cr, rfl, hcl, hcr⟩ := wf_split hc
      rw [mrg_bin hv.1 hp.1 hal hbl, mrg_bin hv.1 hp.1 hbl hcl,
        mrg_bin hv.1 hp.1 (mrg_wf hv.1 hp.1 hal hbl) hcl,
        mrg_bin hv.1 hp.1 hal (mrg_wf hv.1 hp.1 hbl hcl),
        ihl hv.1 hp.1 hal hbl hcl, ihr hv.2 hp.2 har hbr hcr]
  | ifE c w ih =>
      intro hv hp a b c ha hb hc
      simpa [Ex.mrg, Ex.merge] using ih (by simpa [Ex.valid] using hv) (by simpa [Ex.noPtile] using hp) ha hb hc
  | bounded w lo hi ih =>
      intro hv hp a b c ha hb hc
      simpa [Ex.mrg, Ex.merge] using ih (by simpa [Ex.valid] using hv) (by simpa [Ex.noPtile] using hp) ha hb hc
  | shift w off ih =>
      intro hv hp a b c ha hb hc
      simpa [Ex.mrg, Ex.merge] using ih (by simpa [Ex.valid] using hv) (by simpa [Ex.noPtile] using hp) ha hb hc
  | unary f w ih =>
      intro hv hp a b c ha hb hc
      simpa [Ex.mrg, Ex.merge] using ih (by simpa [Ex.valid] using hv) (by simpa [Ex.noPtile] using hp) ha hb hc
  | ptile _ _ _ _ _ _ => intro _ hp; simp [Ex.noPtile] at hp

/-- the step law: updating a merged state = merging with the updated right operand -/
theorem upd_mrg (p : Pt) : ∀ {e : Ex}, e.valid = true → e.noPtile = true →
    ∀ {st a : List Cell}, WF e st → WF e a →
    e.upd x (e.mrg st a) p = e.mrg st (e.upd x a p) := by
  intro e
  induction e with
  | field n =>
      intro _ _ st a hs ha
      rw [wf_nil_of_shape_nil rfl hs, wf_nil_of_shape_nil rfl ha]
      simp only [Ex.mrg, Ex.merge, Ex.upd, Ex.update]
      cases p.get n <;> rfl
  | const v =>
      intro _ _ st a hs ha
      rw [wf_nil_of_shape_nil rfl hs, wf_nil_of_shape_nil rfl ha]
      rfl
  | agg k w _ =>
      intro hv _ st a hs ha
      have hl : w.isLeafArg = true := by simpa [Ex.valid] using hv
      obtain ⟨s, rfl⟩ := wf_agg_inv hl hs
      obtain ⟨a, rfl⟩ := wf_agg_inv hl ha
      rw [mrg_agg, upd_agg x hl, upd_agg x hl, mrg_agg, aggStep_merge]
  | avg v w _ _ =>
      intro hv _ st a hs ha
      simp [Ex.valid] at hv
      obtain ⟨s, rfl⟩ := wf_avg_inv hv.1 hs
      obtain ⟨a, rfl⟩ := wf_avg_inv hv.1 ha
      rw [mrg_avg, upd_avg x hv.1 hv.2, upd_avg x hv.1 hv.2, mrg_avg, avgStep_merge]
  | bin op l r ihl ihr =>
      intro hv hp st a hs ha
      simp [Ex.valid] at hv
      simp [Ex.noPtile] at hp
      obtain ⟨sl, sr, rfl, hsl, hsr⟩ := wf_split hs
      obtain ⟨al, ar, rfl, hal, har⟩ := wf_split ha
      rw [mrg_bin hv.1 hp.1 hsl hal, upd_bin x hv.1 hp.1 (mrg_wf hv.1 hp.1 hsl hal),
        upd_bin x hv.1 hp.1 hal, mrg_bin hv.1 hp.1 hsl (upd_wf x hv.1 hp.1 hal p),
        ihl hv.1 hp.1 hsl hal, ihr hv.2 hp.2 hsr har]
  | ifE c w ih =>
      intro hv hp st a hs ha
      have hv' : w.valid = true := by simpa [Ex.valid] using hv
      have hp' : w.noPtile = true := by simpa [Ex.noPtile] using hp
      have hs' : WF w st := hs
      have ha' : WF w a := ha
      have hm : (Ex.ifE c w).mrg st a = w.mrg st a := by simp [Ex.mrg, Ex.merge]
      cases hi : p.includes c with
      | true =>
          have h1 : ∀ cs, (Ex.ifE c w).upd x cs p = w.upd x cs p := by
            intro cs; simp [Ex.upd, Ex.update, hi]
          have hm' : ∀ ys, (Ex.ifE c w).mrg st ys = w.mrg st ys := by
            intro ys; simp [Ex.mrg, Ex.merge]
          rw [hm, h1, h1, hm']
          exact ih hv' hp' hs' ha'
      | false =>
          have h1 : ∀ {cs}, WF w cs → (Ex.ifE c w).upd x cs p = cs := by
            intro cs hcs
            simp [Ex.upd, Ex.update, hi, ← hcs.length]
          rw [h1 ha', hm, h1 (mrg_wf hv' hp' hs' ha')]
  | bounded w lo hi ih =>
      intro hv hp st a hs ha
      have h1 : ∀ cs, (Ex.bounded w lo hi).upd x cs p = w.upd x cs p := by
        intro cs
        simp only [Ex.upd, Ex.update]
        split <;> rfl
      have hm : ∀ xs ys, (Ex.bounded w lo hi).mrg xs ys = w.mrg xs ys := by
        intro xs ys; simp [Ex.mrg, Ex.merge]
      rw [hm, h1, h1, hm]
      exact ih (by simpa [Ex.valid] using hv) (by simpa [Ex.noPtile] using hp) hs ha
  | shift w off ih =>
      intro hv hp st a hs ha
      simpa [Ex.mrg, Ex.merge, Ex.upd, Ex.update] using
        ih (by simpa [Ex.valid] using hv) (by simpa [Ex.noPtile] using hp) hs ha
  | unary f w ih =>
      intro hv hp st a hs ha
      simpa [Ex.mrg, Ex.merge, Ex.upd, Ex.update] using
        ih (by simpa [Ex.valid] using hv) (by simpa [Ex.noPtile] using hp) hs ha
  | ptile _ _ _ _ _ _ => intro _ hp; simp [Ex.noPtile] at hp

/-- folding updates preserves well-formedness -/
theorem foldl_upd_wf {e : Ex} (hv : e.valid = true) (hp : e.noPtile = true) (ps : List Pt) :
    ∀ {st : List Cell}, WF e st → WF e (ps.foldl (e.upd x) st) := by
  induction ps with
  | nil => intro st h; exact h
  | cons p ps ih => intro st h; exact ih (upd_wf x hv hp h p)

theorem acc_wf {e : Ex} (hv : e.valid = true) (hp : e.noPtile = true) (ps : List Pt) :
    WF e (e.acc x ps) := foldl_upd_wf x hv hp ps (wf_empty e)

/-- merging `st` with the accumulation of `ps` (from any well-formed `a`) = continuing to
    accumulate `ps` on top of `st ⊕ a` -/
theorem mrg_foldl {e : Ex} (hv : e.valid = true) (hp : e.noPtile = true) (ps : List Pt) :
    ∀ {st a : List Cell}, WF e st → WF e a →
    e.mrg st (ps.foldl (e.upd x) a) = ps.foldl (e.upd x) (e.mrg st a) := by
  induction ps with
  | nil => intro st a _ _; rfl
  | cons p ps ih =>
      intro st a hs ha
      simp only [List.foldl_cons]
      rw [ih hs (upd_wf x hv hp ha p), upd_mrg x p hv hp hs ha]

end Zeno
