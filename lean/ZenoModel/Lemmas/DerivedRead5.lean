/-
Derived selected expressions, part 28 (stage 3): `runQuery` vs `specQuery` for queries whose selected
fields are derived expressions, with HAVING — equality as multisets when no field has a value on the
empty state; in general agreement at the slots that hold data, and the extra rows of `runQuery`
(known finding empty-bucket-row) characterised.
-/
import ZenoModel.Lemmas.DerivedRead4
set_option linter.unusedSimpArgs false
set_option linter.unusedVariables false
namespace Zeno

/-- no non-constant selected field has a value on the empty state (no constant operands) -/
def NoEmptyValues (x : Ext) (q : Query) : Prop :=
  ∀ f ∈ q.outFields, f.ex.isConstant = true ∨ f.ex.val x f.ex.empty = none

theorem holdsData_of_noEmptyValues (x : Ext) (cfg : TableCfg) (ops : List StoreOp) (q : Query) (metas : List KeyMeta)
    (pl : Plan) (h : NoEmptyValues x q) (k : Key) (T : Int) : HoldsData x cfg ops q metas pl k T := by
  intro f hf hnc hval
  rcases h f hf with h1 | h1
  · rw [h1] at hnc; cases hnc
  · exact absurd h1 hval

theorem mem_havingFilter (rows : List QRow) (row : QRow) :
    row ∈ havingFilter rows ↔ ∃ r0 ∈ rows, r0.vals.getLast? = some 1 ∧ row = { r0 with vals := r0.vals.dropLast } := by
  unfold havingFilter
  rw [List.mem_filterMap]
  constructor
  · intro ⟨r0, h0, h⟩
    split at h
    · rename_i hl; injection h with h; exact ⟨r0, h0, hl, h.symm⟩
    · cases h
  · intro ⟨r0, h0, hl, h⟩
    exact ⟨r0, h0, by rw [if_pos hl, h]⟩

theorem e2eSpecFlat_nodup (x : Ext) (cfg : TableCfg) (ops : List StoreOp) (q : Query) (metas : List KeyMeta) (pl : Plan) :
    (e2eSpecFlat x cfg ops q metas pl).Nodup :=
  specOut_nodup x q metas _ _ _ _

section
variable (x : Ext) {cfg : TableCfg} {ops : List StoreOp} {q : Query} {metas : List KeyMeta} {pl : Plan}
  (C : DerivedCtx x cfg ops q metas pl) (hall : ∀ f ∈ q.outFields, DerivedField x cfg ops q f)
include C

omit hall in
theorem e2eFlat_nodup : (e2eFlat x cfg ops q metas pl).Nodup :=
  e2e_flat_nodup x _ (groupRows_keys cfg _ q pl _ metas _).1 _ _ C.base.resPos

include hall

/-- before HAVING: equal as multisets when no field has a value on the empty state -/
theorem derived_flat_perm (hnv : NoEmptyValues x q) :
    (e2eFlat x cfg ops q metas pl).Perm (e2eSpecFlat x cfg ops q metas pl) :=
  (List.perm_ext_iff_of_nodup (e2eFlat_nodup x C) (e2eSpecFlat_nodup x cfg ops q metas pl)).mpr
    (fun row => derived_mem_iff x C hall row (holdsData_of_noEmptyValues x cfg ops q metas pl hnv _ _))

/-- the two results, unfolded -/
theorem derived_results (hne : (includedFields cfg q).isEmpty = false) (hng : pl.needsGroupBy = true) :
    runQuery x cfg (runStore x cfg ops) q metas true =
        .ok (if q.hasHaving then havingFilter (e2eFlat x cfg ops q metas pl) else e2eFlat x cfg ops q metas pl) ∧
      specQuery x cfg true (pointsOf ops) q metas =
        .ok (if q.hasHaving then havingFilter (e2eSpecFlat x cfg ops q metas pl) else e2eSpecFlat x cfg ops q metas pl) := by
  have hclock : (acceptedRows cfg true (pointsOf ops)).2 = (runStore x cfg ops).now := by
    rw [acceptedRows_eq, runStore_now, nowAfter_eq_clockFrom]
  refine ⟨runQuery_grouped_gen x cfg ops q metas pl C.base.plan hne hng, ?_⟩
  rw [specQuery_eq, hclock, C.base.plan]
  simp only
  rw [specOut_eq_gen]

/-- STAGE 3, no value on the empty state: `runQuery` = `specQuery` as multisets, HAVING included -/
theorem derived_runQuery_perm (hnv : NoEmptyValues x q) (hne : (includedFields cfg q).isEmpty = false)
    (hng : pl.needsGroupBy = true) :
    ∃ R S, runQuery x cfg (runStore x cfg ops) q metas true = .ok R ∧
      specQuery x cfg true (pointsOf ops) q metas = .ok S ∧ R.Perm S := by
  obtain ⟨h1, h2⟩ := derived_results x C hall hne hng
  refine ⟨_, _, h1, h2, ?_⟩
  have hp := derived_flat_perm x C hall hnv
  split
  · exact hp.filterMap _
  · exact hp

/-- STAGE 3, general: the returned rows agree at every slot that holds data, HAVING included -/
theorem derived_runQuery_data (hne : (includedFields cfg q).isEmpty = false) (hng : pl.needsGroupBy = true) :
    ∃ R S, runQuery x cfg (runStore x cfg ops) q metas true = .ok R ∧
      specQuery x cfg true (pointsOf ops) q metas = .ok S ∧
      ∀ row : QRow, HoldsData x cfg ops q metas pl row.key row.ts → (row ∈ R ↔ row ∈ S) := by
  obtain ⟨h1, h2⟩ := derived_results x C hall hne hng
  refine ⟨_, _, h1, h2, ?_⟩
  intro row hd
  split
  · rw [mem_havingFilter, mem_havingFilter]
    constructor
    · intro ⟨r0, h0, hl, he⟩
      have hd0 : HoldsData x cfg ops q metas pl r0.key r0.ts := by rw [he] at hd; exact hd
      exact ⟨r0, (derived_mem_iff x C hall r0 hd0).mp h0, hl, he⟩
    · intro ⟨r0, h0, hl, he⟩
      have hd0 : HoldsData x cfg ops q metas pl r0.key r0.ts := by rw [he] at hd; exact hd
      exact ⟨r0, (derived_mem_iff x C hall r0 hd0).mpr h0, hl, he⟩
  · exact derived_mem_iff x C hall row hd

end

end Zeno
