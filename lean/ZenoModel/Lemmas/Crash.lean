/-
Helper lemmas for C02 (crash recovery): list facts about `upTo`, the invariant `Inv` of the
protocol model M-CRASH and its preservation by every event (one lemma per event).
Core Lean only.
-/
import ZenoModel.Model.Crash

namespace Zeno.Crash

/-! ### list facts -/

theorem flat_append (a b : List Entry) : flat (a ++ b) = flat a ++ flat b := by
  simp [flat, List.flatMap_append]

theorem upTo_zero (w : List Entry) : upTo w 0 = [] := by simp [upTo, flat]

theorem upTo_succ {w : List Entry} {n : Nat} {e : Entry} (h : w[n]? = some e) :
    upTo w (n + 1) = upTo w n ++ e.apps := by
  simp [upTo, List.take_add_one, h, flat]

theorem upTo_succ_none {w : List Entry} {n : Nat} (h : w[n]? = none) :
    upTo w (n + 1) = upTo w n := by
  simp [upTo, List.take_add_one, h]

theorem upTo_append_of_le {w : List Entry} {n : Nat} (e : Entry) (h : n ≤ w.length) :
    upTo (w ++ [e]) n = upTo w n := by
  simp [upTo, List.take_append_of_le_length h]

theorem upTo_of_length_le {w : List Entry} {n : Nat} (h : w.length ≤ n) : upTo w n = flat w := by
  simp [upTo, List.take_of_length_le h]

theorem flat_eq_upTo_append_drop (w : List Entry) (n : Nat) :
    flat w = upTo w n ++ flat (w.drop n) := by
  rw [upTo, ← flat_append, List.take_append_drop]

theorem apps_skip {e : Entry} (h : e.skip = true) : e.apps = [] := by simp [Entry.apps, h]

theorem apps_k0 {e : Entry} (h : e.k = 0) : e.apps = [] := by simp [Entry.apps, h]

theorem apps_length {e : Entry} (h : e.skip = false) : e.apps.length = e.k := by
  simp [Entry.apps, h]

theorem apps_take_succ {e : Entry} {p : Nat} (hs : e.skip = false) (hp : p < e.k) :
    e.apps.take (p + 1) = e.apps.take p ++ [(e.off, p)] := by
  simp only [Entry.apps, hs, Bool.false_eq_true, ↓reduceIte, ← List.map_take, List.take_range]
  rw [Nat.min_eq_left (by omega), Nat.min_eq_left (by omega), List.range_succ]
  simp

theorem apps_take_k {e : Entry} (hs : e.skip = false) : e.apps.take e.k = e.apps := by
  rw [List.take_of_length_le]; rw [apps_length hs]; exact Nat.le_refl _

/-! ### the invariant -/

/-- applications of the entry under the reader that are already in the memstore -/
def State.partialApps (s : State) : List App :=
  match s.wal[s.rd]? with
  | some e => e.apps.take s.pend
  | none => []

/-- position of the newest file of a directory listing (0 when there is none) -/
def headPos : List File → Nat
  | [] => 0
  | f :: _ => f.pos

/-- what each flush phase knows (a snapshot of the store taken when the flush began; no
    `rowStore.insert` is received while the row-store goroutine is inside `flush()`) -/
def PhaseOK (s : State) : Prop :=
  match s.phase with
  | .idle => s.cur = s.files.head?.getD File.empty
  | .began => s.cur = s.files.head?.getD File.empty ∧ s.pend = 0
  | .tmpWritten f => s.cur = s.files.head?.getD File.empty ∧ s.pend = 0 ∧
      f.apps = s.cur.apps ++ s.mem ∧ f.pos = s.memPos
  | .tmpSynced f => s.cur = s.files.head?.getD File.empty ∧ s.pend = 0 ∧
      f.apps = s.cur.apps ++ s.mem ∧ f.pos = s.memPos ∧ f.complete = true
  | .renamed f => s.files.head? = some f ∧ s.cur = s.files.tail.head?.getD File.empty ∧ s.pend = 0 ∧
      f.apps = s.cur.apps ++ s.mem ∧ f.pos = s.memPos
  | .offTmp p => s.cur = s.files.head?.getD File.empty ∧ s.pend = 0 ∧ p = s.memPos ∧ s.mem = []

/-- invariant of the running process -/
structure Vol (s : State) : Prop where
  rd_le : s.rd ≤ s.wal.length
  cur_apps : s.cur.apps = upTo s.wal s.cur.pos
  cur_le : s.cur.pos ≤ s.memPos
  mem_le : s.memPos ≤ s.wal.length
  off_mem : s.offFile ≤ s.memPos
  /-- (ii) file ++ memstore = everything handed over so far -/
  view : s.cur.apps ++ s.mem = upTo s.wal s.rd ++ s.partialApps
  /-- between the memstore offset and the reader only entries without applications -/
  pend0 : s.pend = 0 → s.memPos ≤ s.rd ∧ upTo s.wal s.rd = upTo s.wal s.memPos
  pendS : 0 < s.pend → s.memPos = s.rd + 1 ∧ s.mem ≠ [] ∧
            ∃ e, s.wal[s.rd]? = some e ∧ e.skip = false ∧ s.pend < e.k
  phase : PhaseOK s

/-- the invariant (durable part + `Vol` while the process runs) -/
structure Inv (s : State) : Prop where
  wf : s.wal.Pairwise (fun a b => a.off < b.off)
  /-- acknowledged entries are in the WAL (sync on every write) -/
  acked_in : ∀ o ∈ s.acked, ∃ e ∈ s.wal, e.off = o
  /-- (i) every file in the directory is complete and reflects exactly the entries up to its offset -/
  files_ok : ∀ f ∈ s.files, f.complete = true ∧ f.pos ≤ s.wal.length ∧ f.apps = upTo s.wal f.pos
  /-- (iv) newer files have later offsets -/
  files_sorted : s.files.Pairwise (fun a b => b.pos ≤ a.pos)
  off_le : s.offFile ≤ s.wal.length
  /-- (iii) entries between the newest file's offset and the offset file have no applications -/
  off_gap : headPos s.files ≤ s.offFile → upTo s.wal s.offFile = upTo s.wal (headPos s.files)
  /-- (v) the persisted offset is looked up under the source it is stored under -/
  src_ok : s.lookSrc = s.tagSrc
  vol : s.up = true → Vol s

/-! ### one lemma per event -/


theorem partialApps_append {s : State} (e : Entry) (hrd : s.rd ≤ s.wal.length)
    (hp : s.rd = s.wal.length → s.pend = 0) :
    ({ s with wal := s.wal ++ [e] } : State).partialApps = s.partialApps := by
  unfold State.partialApps
  simp only
  by_cases hlt : s.rd < s.wal.length
  · rw [List.getElem?_append_left hlt]
  · have : s.rd = s.wal.length := by omega
    simp [this, hp this]

theorem headPos_le {s : State} (h : Inv s) : headPos s.files ≤ s.wal.length := by
  cases hf : s.files with
  | nil => simp [headPos]
  | cons f r => simpa [headPos] using (h.files_ok f (by simp [hf])).2.1

theorem lt_of_getElem? {w : List Entry} {n : Nat} {e : Entry} (h : w[n]? = some e) : n < w.length := by
  have := (List.getElem?_eq_some_iff.mp h).1
  exact this

theorem pend_rd_lt {s : State} (hv : Vol s) (hp : 0 < s.pend) : s.rd < s.wal.length := by
  obtain ⟨_, _, e, he, _⟩ := hv.pendS hp
  exact lt_of_getElem? he

theorem inv_walAppend {s s' : State} {e : Entry} (h : Inv s) (hs : step s (.walAppend e) = some s') :
    Inv s' := by
  simp only [step] at hs
  split at hs
  · rename_i hg
    simp only [Bool.and_eq_true, List.all_eq_true, decide_eq_true_eq] at hg
    cases hs
    have hhp := headPos_le h
    refine { src_ok := h.src_ok, wf := ?_, acked_in := ?_, files_ok := ?_, files_sorted := h.files_sorted, off_le := ?_,
             off_gap := ?_, vol := ?_ }
    · show (s.wal ++ [e]).Pairwise _
      rw [List.pairwise_append]
      refine ⟨h.wf, by simp, ?_⟩
      intro a ha b hb
      simp at hb; subst hb; exact hg.2 a ha
    · intro o ho
      obtain ⟨x, hx, hxo⟩ := h.acked_in o ho
      exact ⟨x, List.mem_append_left _ hx, hxo⟩
    · intro f hf
      obtain ⟨c, p, a⟩ := h.files_ok f hf
      refine ⟨c, ?_, ?_⟩
      · show f.pos ≤ (s.wal ++ [e]).length
        simp; omega
      · show f.apps = upTo (s.wal ++ [e]) f.pos
        rw [upTo_append_of_le e p]; exact a
    · show s.offFile ≤ (s.wal ++ [e]).length
      have := h.off_le; simp; omega
    · intro hle
      show upTo (s.wal ++ [e]) s.offFile = upTo (s.wal ++ [e]) (headPos s.files)
      rw [upTo_append_of_le e h.off_le, upTo_append_of_le e hhp]; exact h.off_gap hle
    · intro hup
      have hv := h.vol hup
      have hcp : s.cur.pos ≤ s.wal.length := Nat.le_trans hv.cur_le hv.mem_le
      refine { rd_le := ?_, cur_apps := ?_, cur_le := hv.cur_le, mem_le := ?_, off_mem := hv.off_mem,
               view := ?_, pend0 := ?_, pendS := ?_, phase := hv.phase }
      · show s.rd ≤ (s.wal ++ [e]).length
        have := hv.rd_le; simp; omega
      · show s.cur.apps = upTo (s.wal ++ [e]) s.cur.pos
        rw [upTo_append_of_le e hcp]; exact hv.cur_apps
      · show s.memPos ≤ (s.wal ++ [e]).length
        have := hv.mem_le; simp; omega
      · show s.cur.apps ++ s.mem = upTo (s.wal ++ [e]) s.rd ++ _
        rw [upTo_append_of_le e hv.rd_le, partialApps_append e hv.rd_le]
        · exact hv.view
        · intro heq
          rcases Nat.eq_zero_or_pos s.pend with h0 | h0
          · exact h0
          · have := pend_rd_lt hv h0; omega
      · intro h0
        obtain ⟨a, b⟩ := hv.pend0 h0
        refine ⟨a, ?_⟩
        show upTo (s.wal ++ [e]) s.rd = upTo (s.wal ++ [e]) s.memPos
        rw [upTo_append_of_le e hv.rd_le, upTo_append_of_le e hv.mem_le]; exact b
      · intro h0
        obtain ⟨a, b, x, hx, c⟩ := hv.pendS h0
        refine ⟨a, b, x, ?_, c⟩
        show (s.wal ++ [e])[s.rd]? = some x
        rw [List.getElem?_append_left (lt_of_getElem? hx)]; exact hx
  · cases hs


theorem partialApps_pend0 {s : State} (h : s.pend = 0) : s.partialApps = [] := by
  unfold State.partialApps; split <;> simp [h]

theorem partialApps_some {s : State} {e : Entry} (h : s.wal[s.rd]? = some e) :
    s.partialApps = e.apps.take s.pend := by
  unfold State.partialApps; simp [h]

theorem memPos_le_rd1 {s : State} (hv : Vol s) : s.memPos ≤ s.rd + 1 := by
  rcases Nat.eq_zero_or_pos s.pend with h0 | h0
  · have := (hv.pend0 h0).1; omega
  · have := (hv.pendS h0).1; omega

/-- durable part of the invariant when wal, files and offFile are unchanged -/
theorem Inv.of_durable_eq {s s' : State} (h : Inv s) (h1 : s'.wal = s.wal) (h2 : s'.files = s.files)
    (h3 : s'.offFile = s.offFile) (h4 : s'.acked = s.acked) (h5 : s'.lookSrc = s.lookSrc)
    (h6 : s'.tagSrc = s.tagSrc) (hv : s'.up = true → Vol s') : Inv s' := by
  refine { wf := ?_, acked_in := ?_, files_ok := ?_, files_sorted := ?_, off_le := ?_, off_gap := ?_,
           src_ok := by rw [h5, h6]; exact h.src_ok, vol := hv }
  · rw [h1]; exact h.wf
  · rw [h1, h4]; exact h.acked_in
  · rw [h1, h2]; exact h.files_ok
  · rw [h2]; exact h.files_sorted
  · rw [h1, h3]; exact h.off_le
  · rw [h1, h2, h3]; exact h.off_gap

theorem inv_walAck {s s' : State} {o : Nat} (h : Inv s) (hs : step s (.walAck o) = some s') : Inv s' := by
  simp only [step] at hs
  split at hs
  · rename_i hg
    simp only [Bool.and_eq_true, List.any_eq_true, beq_iff_eq] at hg
    cases hs
    refine { src_ok := h.src_ok, wf := h.wf, acked_in := ?_, files_ok := h.files_ok, files_sorted := h.files_sorted,
             off_le := h.off_le, off_gap := h.off_gap, vol := ?_ }
    · intro o' ho'
      rcases List.mem_cons.mp ho' with rfl | hr
      · exact hg.2
      · exact h.acked_in o' hr
    · intro hup
      have hv := h.vol hup
      exact ⟨hv.rd_le, hv.cur_apps, hv.cur_le, hv.mem_le, hv.off_mem, hv.view, hv.pend0, hv.pendS, hv.phase⟩
  · cases hs

theorem phaseOK_idle {s : State} (hp : s.phase = .idle) (h : PhaseOK s) :
    s.cur = s.files.head?.getD File.empty := by
  unfold PhaseOK at h; rw [hp] at h; exact h

theorem inv_apply {s s' : State} {o : Nat} (h : Inv s) (hs : step s (.apply o) = some s') : Inv s' := by
  simp only [step] at hs
  split at hs
  · rename_i e he
    split at hs
    · rename_i hg
      simp only [Bool.and_eq_true, decide_eq_true_eq, Bool.not_eq_true'] at hg
      obtain ⟨⟨⟨⟨hup, hph⟩, hsk⟩, hpk⟩, _⟩ := hg
      have hv := h.vol hup
      have hlt := lt_of_getElem? he
      have hmp := memPos_le_rd1 hv
      have hcur := phaseOK_idle hph hv.phase
      have hview := hv.view
      rw [partialApps_some he] at hview
      split at hs
      · rename_i hk
        cases hs
        refine Inv.of_durable_eq h ?_ ?_ ?_ ?_ ?_ ?_ ?_ <;> try rfl
        intro _
        refine { rd_le := ?_, cur_apps := hv.cur_apps, cur_le := ?_, mem_le := ?_, off_mem := ?_,
                 view := ?_, pend0 := ?_, pendS := ?_, phase := ?_ }
        · show s.rd + 1 ≤ s.wal.length; omega
        · show s.cur.pos ≤ s.rd + 1; have := hv.cur_le; omega
        · show s.rd + 1 ≤ s.wal.length; omega
        · show s.offFile ≤ s.rd + 1; have := hv.off_mem; omega
        · show s.cur.apps ++ (s.mem ++ [(e.off, s.pend)]) = upTo s.wal (s.rd + 1) ++ _
          rw [partialApps_pend0 rfl, upTo_succ he, ← List.append_assoc, hview, List.append_assoc,
            ← apps_take_succ hsk hpk, hk, apps_take_k hsk]
          simp
        · intro _; exact ⟨Nat.le_refl _, rfl⟩
        · intro h0; exact absurd h0 (Nat.lt_irrefl 0)
        · show PhaseOK _
          unfold PhaseOK; simp only [hph]; exact hcur
      · rename_i hk
        cases hs
        refine Inv.of_durable_eq h ?_ ?_ ?_ ?_ ?_ ?_ ?_ <;> try rfl
        intro _
        refine { rd_le := hv.rd_le, cur_apps := hv.cur_apps, cur_le := ?_, mem_le := ?_, off_mem := ?_,
                 view := ?_, pend0 := ?_, pendS := ?_, phase := ?_ }
        · show s.cur.pos ≤ s.rd + 1; have := hv.cur_le; omega
        · show s.rd + 1 ≤ s.wal.length; omega
        · show s.offFile ≤ s.rd + 1; have := hv.off_mem; omega
        · show s.cur.apps ++ (s.mem ++ [(e.off, s.pend)]) = upTo s.wal s.rd ++ _
          rw [partialApps_some (s := { s with mem := s.mem ++ [(e.off, s.pend)], memPos := s.rd + 1, offChanged := true, pend := s.pend + 1 }) he]
          show _ = upTo s.wal s.rd ++ e.apps.take (s.pend + 1)
          rw [← List.append_assoc, hview, List.append_assoc, ← apps_take_succ hsk hpk]
        · intro h0; exact absurd h0 (Nat.succ_ne_zero _)
        · intro _
          refine ⟨rfl, by simp, e, he, hsk, ?_⟩
          show s.pend + 1 < e.k
          omega
        · show PhaseOK _
          unfold PhaseOK; simp only [hph]; exact hcur
    · cases hs
  · cases hs


theorem inv_skip {s s' : State} {o : Nat} (h : Inv s) (hs : step s (.skip o) = some s') : Inv s' := by
  simp only [step] at hs
  split at hs
  · rename_i e he
    split at hs
    · rename_i hg
      simp only [Bool.and_eq_true, decide_eq_true_eq] at hg
      obtain ⟨⟨⟨⟨hup, hph⟩, hsk⟩, hp0⟩, _⟩ := hg
      have hv := h.vol hup
      have hlt := lt_of_getElem? he
      have hmp := memPos_le_rd1 hv
      have hcur := phaseOK_idle hph hv.phase
      have hview := hv.view
      rw [partialApps_pend0 hp0] at hview
      cases hs
      refine Inv.of_durable_eq h ?_ ?_ ?_ ?_ ?_ ?_ ?_ <;> try rfl
      intro _
      refine { rd_le := ?_, cur_apps := hv.cur_apps, cur_le := ?_, mem_le := ?_, off_mem := ?_,
               view := ?_, pend0 := ?_, pendS := ?_, phase := ?_ }
      · show s.rd + 1 ≤ s.wal.length; omega
      · show s.cur.pos ≤ s.rd + 1; have := hv.cur_le; omega
      · show s.rd + 1 ≤ s.wal.length; omega
      · show s.offFile ≤ s.rd + 1; have := hv.off_mem; omega
      · show s.cur.apps ++ s.mem = upTo s.wal (s.rd + 1) ++ _
        rw [partialApps_pend0 (by exact hp0), upTo_succ he, apps_skip hsk, hview]; simp
      · intro _; exact ⟨Nat.le_refl _, rfl⟩
      · intro h0
        have : 0 < s.pend := h0
        omega
      · show PhaseOK _
        unfold PhaseOK; simp only [hph]; exact hcur
    · cases hs
  · cases hs

theorem inv_pass {s s' : State} (h : Inv s) (hs : step s .pass = some s') : Inv s' := by
  simp only [step] at hs
  split at hs
  · rename_i e he
    split at hs
    · rename_i hg
      simp only [Bool.and_eq_true, decide_eq_true_eq, Bool.not_eq_true'] at hg
      obtain ⟨⟨⟨hup, hsk⟩, hk0⟩, hp0⟩ := hg
      have hv := h.vol hup
      have hlt := lt_of_getElem? he
      have hview := hv.view
      rw [partialApps_pend0 hp0] at hview
      obtain ⟨hm, hu⟩ := hv.pend0 hp0
      cases hs
      refine Inv.of_durable_eq h ?_ ?_ ?_ ?_ ?_ ?_ ?_ <;> try rfl
      intro _
      refine { rd_le := ?_, cur_apps := hv.cur_apps, cur_le := hv.cur_le, mem_le := hv.mem_le, off_mem := hv.off_mem,
               view := ?_, pend0 := ?_, pendS := ?_, phase := hv.phase }
      · show s.rd + 1 ≤ s.wal.length; omega
      · show s.cur.apps ++ s.mem = upTo s.wal (s.rd + 1) ++ _
        rw [partialApps_pend0 (by exact hp0), upTo_succ he, apps_k0 hk0, hview]; simp
      · intro _
        refine ⟨?_, ?_⟩
        · show s.memPos ≤ s.rd + 1; omega
        · show upTo s.wal (s.rd + 1) = upTo s.wal s.memPos
          rw [upTo_succ he, apps_k0 hk0, List.append_nil, hu]
      · intro h0
        have : 0 < s.pend := h0
        omega
    · cases hs
  · cases hs

theorem inv_flushBegin {s s' : State} (h : Inv s) (ha : s.pend = 0) (hs : step s .flushBegin = some s') :
    Inv s' := by
  simp only [step] at hs
  split at hs
  · rename_i hg
    simp only [Bool.and_eq_true, decide_eq_true_eq] at hg
    obtain ⟨⟨hup, hph⟩, _⟩ := hg
    have hv := h.vol hup
    have hcur := phaseOK_idle hph hv.phase
    cases hs
    refine Inv.of_durable_eq h ?_ ?_ ?_ ?_ ?_ ?_ ?_ <;> try rfl
    intro _
    exact ⟨hv.rd_le, hv.cur_apps, hv.cur_le, hv.mem_le, hv.off_mem, hv.view, hv.pend0, hv.pendS, ⟨hcur, ha⟩⟩
  · cases hs

theorem inv_tmpWritten {s s' : State} (h : Inv s) (hs : step s .tmpWritten = some s') : Inv s' := by
  simp only [step] at hs
  split at hs
  · rename_i hg
    simp only [Bool.and_eq_true, decide_eq_true_eq] at hg
    obtain ⟨hup, hph⟩ := hg
    have hv := h.vol hup
    have hp := hv.phase
    unfold PhaseOK at hp; rw [hph] at hp
    cases hs
    refine Inv.of_durable_eq h ?_ ?_ ?_ ?_ ?_ ?_ ?_ <;> try rfl
    intro _
    exact ⟨hv.rd_le, hv.cur_apps, hv.cur_le, hv.mem_le, hv.off_mem, hv.view, hv.pend0, hv.pendS,
      ⟨hp.1, hp.2, rfl, rfl⟩⟩
  · cases hs

theorem inv_tmpSynced {s s' : State} (h : Inv s) (hs : step s .tmpSynced = some s') : Inv s' := by
  simp only [step] at hs
  split at hs
  · rename_i f hph
    split at hs
    · rename_i hup
      have hv := h.vol hup
      have hp := hv.phase
      unfold PhaseOK at hp; rw [hph] at hp
      cases hs
      refine Inv.of_durable_eq h ?_ ?_ ?_ ?_ ?_ ?_ ?_ <;> try rfl
      intro _
      exact ⟨hv.rd_le, hv.cur_apps, hv.cur_le, hv.mem_le, hv.off_mem, hv.view, hv.pend0, hv.pendS,
        ⟨hp.1, hp.2.1, hp.2.2.1, hp.2.2.2, rfl⟩⟩
    · cases hs
  · cases hs


theorem headPos_eq_cur {fs : List File} {c : File} (h : c = fs.head?.getD File.empty) :
    headPos fs = c.pos := by
  cases fs <;> simp [headPos, h, File.empty]

theorem le_headPos {fs : List File} (hs : fs.Pairwise (fun a b => b.pos ≤ a.pos)) :
    ∀ g ∈ fs, g.pos ≤ headPos fs := by
  intro g hg
  cases fs with
  | nil => cases hg
  | cons f r =>
    simp only [headPos]
    rcases List.mem_cons.mp hg with rfl | hr
    · exact Nat.le_refl _
    · exact (List.pairwise_cons.mp hs).1 g hr

theorem inv_renamed {s s' : State} (h : Inv s) (hs : step s .renamed = some s') : Inv s' := by
  simp only [step] at hs
  split at hs
  · rename_i f hph
    split at hs
    · rename_i hup
      have hv := h.vol hup
      have hp := hv.phase
      unfold PhaseOK at hp; rw [hph] at hp
      obtain ⟨hcur, hp0, hfa, hfp, hfc⟩ := hp
      obtain ⟨hm, hu⟩ := hv.pend0 hp0
      have hview := hv.view
      rw [partialApps_pend0 hp0, List.append_nil] at hview
      have hhp := headPos_eq_cur hcur
      cases hs
      refine { src_ok := h.src_ok, wf := h.wf, acked_in := h.acked_in, files_ok := ?_, files_sorted := ?_, off_le := h.off_le,
               off_gap := ?_, vol := ?_ }
      · intro g hg
        rcases List.mem_cons.mp hg with rfl | hr
        · refine ⟨hfc, ?_, ?_⟩
          · rw [hfp]; exact hv.mem_le
          · rw [hfa, hfp, hview, hu]
        · exact h.files_ok g hr
      · show (f :: s.files).Pairwise _
        rw [List.pairwise_cons]
        refine ⟨?_, h.files_sorted⟩
        intro g hg
        have := le_headPos h.files_sorted g hg
        have := hv.cur_le
        omega
      · intro hle
        show upTo s.wal s.offFile = upTo s.wal f.pos
        have : s.offFile = f.pos := by
          have h1 : f.pos ≤ s.offFile := hle
          have := hv.off_mem; omega
        rw [this]
      · intro _
        exact ⟨hv.rd_le, hv.cur_apps, hv.cur_le, hv.mem_le, hv.off_mem, hv.view, hv.pend0, hv.pendS,
          ⟨rfl, hcur, hp0, hfa, hfp⟩⟩
    · cases hs
  · cases hs

theorem inv_swapped {s s' : State} (h : Inv s) (hs : step s .swapped = some s') : Inv s' := by
  simp only [step] at hs
  split at hs
  · rename_i f hph
    split at hs
    · rename_i hup
      have hv := h.vol hup
      have hp := hv.phase
      unfold PhaseOK at hp; rw [hph] at hp
      obtain ⟨hhead, hcur, hp0, hfa, hfp⟩ := hp
      have hfm : f ∈ s.files := by
        cases hf : s.files with
        | nil => simp [hf] at hhead
        | cons a r => simp [hf] at hhead; simp [hhead]
      obtain ⟨_, _, hfu⟩ := h.files_ok f hfm
      cases hs
      refine Inv.of_durable_eq h ?_ ?_ ?_ ?_ ?_ ?_ ?_ <;> try rfl
      intro _
      refine { rd_le := hv.rd_le, cur_apps := hfu, cur_le := ?_, mem_le := hv.mem_le, off_mem := hv.off_mem,
               view := ?_, pend0 := hv.pend0, pendS := ?_, phase := ?_ }
      · show f.pos ≤ s.memPos; omega
      · show f.apps ++ [] = upTo s.wal s.rd ++ _
        rw [List.append_nil, hfa]; exact hv.view
      · intro h0
        have : 0 < s.pend := h0
        omega
      · show PhaseOK _
        unfold PhaseOK
        show f = s.files.head?.getD File.empty
        rw [hhead]; rfl
    · cases hs
  · cases hs

theorem inv_offTmpWritten {s s' : State} (h : Inv s) (hs : step s .offTmpWritten = some s') : Inv s' := by
  simp only [step] at hs
  split at hs
  · rename_i hg
    simp only [Bool.and_eq_true, decide_eq_true_eq, List.isEmpty_iff] at hg
    obtain ⟨⟨⟨hup, hph⟩, hmem⟩, _⟩ := hg
    have hv := h.vol hup
    have hcur := phaseOK_idle hph hv.phase
    have hp0 : s.pend = 0 := by
      rcases Nat.eq_zero_or_pos s.pend with h0 | h0
      · exact h0
      · exact absurd hmem (hv.pendS h0).2.1
    cases hs
    refine Inv.of_durable_eq h ?_ ?_ ?_ ?_ ?_ ?_ ?_ <;> try rfl
    intro _
    exact ⟨hv.rd_le, hv.cur_apps, hv.cur_le, hv.mem_le, hv.off_mem, hv.view, hv.pend0, hv.pendS,
      ⟨hcur, hp0, rfl, hmem⟩⟩
  · cases hs

theorem inv_offRenamed {s s' : State} (h : Inv s) (hs : step s .offRenamed = some s') : Inv s' := by
  simp only [step] at hs
  split at hs
  · rename_i p hph
    split at hs
    · rename_i hup
      have hv := h.vol hup
      have hp := hv.phase
      unfold PhaseOK at hp; rw [hph] at hp
      obtain ⟨hcur, hp0, hpm, hmem⟩ := hp
      obtain ⟨hm, hu⟩ := hv.pend0 hp0
      have hview := hv.view
      rw [partialApps_pend0 hp0, List.append_nil, hmem, List.append_nil, hv.cur_apps] at hview
      have hhp := headPos_eq_cur hcur
      subst hpm
      cases hs
      refine { src_ok := h.src_ok, wf := h.wf, acked_in := h.acked_in, files_ok := h.files_ok, files_sorted := h.files_sorted,
               off_le := ?_, off_gap := ?_, vol := ?_ }
      · show s.memPos ≤ s.wal.length; exact hv.mem_le
      · intro _
        show upTo s.wal s.memPos = upTo s.wal (headPos s.files)
        rw [hhp, hview, hu]
      · intro _
        refine ⟨hv.rd_le, hv.cur_apps, hv.cur_le, hv.mem_le, Nat.le_refl _, hv.view, hv.pend0, hv.pendS, ?_⟩
        show PhaseOK _
        unfold PhaseOK
        exact hcur
    · cases hs
  · cases hs

theorem inv_crash {s s' : State} (h : Inv s) (hs : step s .crash = some s') : Inv s' := by
  simp only [step] at hs
  split at hs
  · cases hs
    refine Inv.of_durable_eq h ?_ ?_ ?_ ?_ ?_ ?_ ?_ <;> try rfl
    intro hup
    simp [crashF] at hup
  · cases hs


theorem eraseIdx_ge2 {fs : List File} {i : Nat} (h2 : 2 ≤ i) (hi : i < fs.length) :
    ∃ a b r, fs = a :: b :: r ∧ fs.eraseIdx i = a :: b :: r.eraseIdx (i - 2) := by
  match fs, i with
  | [], _ => simp at hi
  | [_], _ => simp at hi; omega
  | a :: b :: r, j + 2 => exact ⟨a, b, r, rfl, by simp [List.eraseIdx]⟩

theorem inv_oldFileRemoved {s s' : State} {i : Nat} (h : Inv s) (hs : step s (.oldFileRemoved i) = some s') :
    Inv s' := by
  simp only [step] at hs
  split at hs
  · rename_i hg
    simp only [Bool.and_eq_true, decide_eq_true_eq] at hg
    obtain ⟨⟨hup, h2⟩, hi⟩ := hg
    obtain ⟨a, b, r, hfs, her⟩ := eraseIdx_ge2 h2 hi
    have hsub : (s.files.eraseIdx i).Sublist s.files := List.eraseIdx_sublist _ _
    cases hs
    refine { src_ok := h.src_ok, wf := h.wf, acked_in := h.acked_in, files_ok := ?_, files_sorted := ?_, off_le := h.off_le,
             off_gap := ?_, vol := ?_ }
    · intro g hg
      exact h.files_ok g (hsub.subset hg)
    · exact h.files_sorted.sublist hsub
    · show headPos (s.files.eraseIdx i) ≤ s.offFile → upTo s.wal s.offFile = upTo s.wal (headPos (s.files.eraseIdx i))
      have : headPos (s.files.eraseIdx i) = headPos s.files := by rw [her, hfs]; rfl
      rw [this]; exact h.off_gap
    · intro _
      have hv := h.vol hup
      refine ⟨hv.rd_le, hv.cur_apps, hv.cur_le, hv.mem_le, hv.off_mem, hv.view, hv.pend0, hv.pendS, ?_⟩
      have hp := hv.phase
      have hh : (s.files.eraseIdx i).head? = s.files.head? := by rw [her, hfs]; rfl
      have ht : (s.files.eraseIdx i).tail.head? = s.files.tail.head? := by rw [her, hfs]; rfl
      show PhaseOK _
      unfold PhaseOK at hp ⊢
      show (match s.phase with
        | .idle => s.cur = (s.files.eraseIdx i).head?.getD File.empty
        | .began => s.cur = (s.files.eraseIdx i).head?.getD File.empty ∧ s.pend = 0
        | .tmpWritten f => s.cur = (s.files.eraseIdx i).head?.getD File.empty ∧ s.pend = 0 ∧
            f.apps = s.cur.apps ++ s.mem ∧ f.pos = s.memPos
        | .tmpSynced f => s.cur = (s.files.eraseIdx i).head?.getD File.empty ∧ s.pend = 0 ∧
            f.apps = s.cur.apps ++ s.mem ∧ f.pos = s.memPos ∧ f.complete = true
        | .renamed f => (s.files.eraseIdx i).head? = some f ∧ s.cur = (s.files.eraseIdx i).tail.head?.getD File.empty ∧ s.pend = 0 ∧
            f.apps = s.cur.apps ++ s.mem ∧ f.pos = s.memPos
        | .offTmp p => s.cur = (s.files.eraseIdx i).head?.getD File.empty ∧ s.pend = 0 ∧ p = s.memPos ∧ s.mem = [])
      rw [hh, ht]; exact hp
  · cases hs

theorem pickFile_complete {fs : List File} (h : ∀ f ∈ fs, f.complete = true) :
    pickFile fs = (fs.head?, fs) := by
  cases fs with
  | nil => rfl
  | cons f r => simp [pickFile, h f (by simp)]

theorem startPos_eq {s : State} (h : ∀ f ∈ s.files, f.complete = true) :
    startPos s = max (headPos s.files) s.offFile := by
  unfold startPos
  rw [pickFile_complete h]
  cases s.files <;> simp [headPos]

theorem inv_reopenF {s : State} (h : Inv s) : Inv (reopenF s) := by
  have hc : ∀ f ∈ s.files, f.complete = true := fun f hf => (h.files_ok f hf).1
  have hpick := pickFile_complete hc
  have hstart := startPos_eq hc
  have hhp := headPos_le h
  have hread : readPos s = max (headPos s.files) s.offFile := by
    unfold readPos; rw [if_pos h.src_ok]; exact hstart
  unfold reopenF
  simp only [hpick, hstart, hread]
  refine Inv.of_durable_eq h ?_ ?_ ?_ ?_ ?_ ?_ ?_ <;> try rfl
  intro _
  have hcp : (s.files.head?.getD File.empty).pos = headPos s.files := (headPos_eq_cur rfl).symm
  have hca : (s.files.head?.getD File.empty).apps = upTo s.wal (headPos s.files) := by
    cases hf : s.files with
    | nil => simp [File.empty, headPos, upTo_zero]
    | cons f r => simpa [headPos] using (h.files_ok f (by simp [hf])).2.2
  refine { rd_le := ?_, cur_apps := ?_, cur_le := ?_, mem_le := ?_, off_mem := ?_, view := ?_,
           pend0 := ?_, pendS := ?_, phase := ?_ }
  · show max (headPos s.files) s.offFile ≤ s.wal.length
    have := h.off_le; omega
  · show (s.files.head?.getD File.empty).apps = upTo s.wal (s.files.head?.getD File.empty).pos
    rw [hcp]; exact hca
  · show (s.files.head?.getD File.empty).pos ≤ max (headPos s.files) s.offFile
    rw [hcp]; omega
  · show max (headPos s.files) s.offFile ≤ s.wal.length
    have := h.off_le; omega
  · show s.offFile ≤ max (headPos s.files) s.offFile
    omega
  · show (s.files.head?.getD File.empty).apps ++ [] = upTo s.wal (max (headPos s.files) s.offFile) ++ _
    rw [partialApps_pend0 rfl, List.append_nil, List.append_nil, hca]
    rcases Nat.le_total (headPos s.files) s.offFile with hle | hle
    · rw [Nat.max_eq_right hle, h.off_gap hle]
    · rw [Nat.max_eq_left hle]
  · intro _; exact ⟨Nat.le_refl _, rfl⟩
  · intro h0; exact absurd h0 (Nat.lt_irrefl 0)
  · show PhaseOK _
    unfold PhaseOK
    rfl

theorem inv_reopen {s s' : State} {p : Nat} (h : Inv s) (hs : step s (.reopen p) = some s') : Inv s' := by
  simp only [step] at hs
  split at hs
  · cases hs; exact inv_reopenF h
  · cases hs


/-- facts about `ingestEntry` that do not need the invariant -/
theorem ingestEntry_frame (s : State) (e : Entry) :
    (ingestEntry s e).wal = s.wal ∧ (ingestEntry s e).files = s.files ∧
    (ingestEntry s e).offFile = s.offFile ∧ (ingestEntry s e).acked = s.acked ∧
    (ingestEntry s e).up = s.up ∧ (ingestEntry s e).phase = s.phase ∧
    (ingestEntry s e).cur = s.cur ∧
    (ingestEntry s e).rd = s.rd + 1 ∧ (ingestEntry s e).pend = 0 := by
  unfold ingestEntry
  split
  · simp
  · split <;> simp

theorem inv_ingestEntry {s : State} {e : Entry} (h : Inv s) (hup : s.up = true) (hph : s.phase = .idle)
    (he : s.wal[s.rd]? = some e) : Inv (ingestEntry s e) := by
  have hv := h.vol hup
  have hlt := lt_of_getElem? he
  have hmp := memPos_le_rd1 hv
  have hcur := phaseOK_idle hph hv.phase
  have hview := hv.view
  rw [partialApps_some he] at hview
  have hpk : e.skip = true ∨ e.k = 0 → s.pend = 0 := by
    intro hor
    rcases Nat.eq_zero_or_pos s.pend with h0 | h0
    · exact h0
    · obtain ⟨_, _, x, hx, hsk, hk⟩ := hv.pendS h0
      rw [he] at hx; cases hx
      rcases hor with h1 | h1
      · rw [h1] at hsk; cases hsk
      · omega
  unfold ingestEntry
  split
  · rename_i hsk
    have hp0 := hpk (Or.inl hsk)
    rw [hp0, List.take_zero, List.append_nil] at hview
    refine Inv.of_durable_eq h ?_ ?_ ?_ ?_ ?_ ?_ ?_ <;> try rfl
    intro _
    refine { rd_le := ?_, cur_apps := hv.cur_apps, cur_le := ?_, mem_le := ?_, off_mem := ?_,
             view := ?_, pend0 := ?_, pendS := ?_, phase := ?_ }
    · show s.rd + 1 ≤ s.wal.length; omega
    · show s.cur.pos ≤ s.rd + 1; have := hv.cur_le; omega
    · show s.rd + 1 ≤ s.wal.length; omega
    · show s.offFile ≤ s.rd + 1; have := hv.off_mem; omega
    · show s.cur.apps ++ s.mem = upTo s.wal (s.rd + 1) ++ _
      rw [partialApps_pend0 rfl, upTo_succ he, apps_skip hsk, hview]; simp
    · intro _; exact ⟨Nat.le_refl _, rfl⟩
    · intro h0; exact absurd h0 (Nat.lt_irrefl 0)
    · show PhaseOK _
      unfold PhaseOK; simp only [hph]; exact hcur
  · rename_i hsk
    split
    · rename_i hk0
      have hp0 := hpk (Or.inr hk0)
      rw [hp0, List.take_zero, List.append_nil] at hview
      obtain ⟨hm, hu⟩ := hv.pend0 hp0
      refine Inv.of_durable_eq h ?_ ?_ ?_ ?_ ?_ ?_ ?_ <;> try rfl
      intro _
      refine { rd_le := ?_, cur_apps := hv.cur_apps, cur_le := hv.cur_le, mem_le := hv.mem_le,
               off_mem := hv.off_mem, view := ?_, pend0 := ?_, pendS := ?_, phase := ?_ }
      · show s.rd + 1 ≤ s.wal.length; omega
      · show s.cur.apps ++ s.mem = upTo s.wal (s.rd + 1) ++ _
        rw [partialApps_pend0 rfl, upTo_succ he, apps_k0 hk0, hview]; simp
      · intro _
        refine ⟨?_, ?_⟩
        · show s.memPos ≤ s.rd + 1; omega
        · show upTo s.wal (s.rd + 1) = upTo s.wal s.memPos
          rw [upTo_succ he, apps_k0 hk0, List.append_nil, hu]
      · intro h0; exact absurd h0 (Nat.lt_irrefl 0)
      · show PhaseOK _
        unfold PhaseOK; simp only [hph]; exact hcur
    · refine Inv.of_durable_eq h ?_ ?_ ?_ ?_ ?_ ?_ ?_ <;> try rfl
      intro _
      refine { rd_le := ?_, cur_apps := hv.cur_apps, cur_le := ?_, mem_le := ?_, off_mem := ?_,
               view := ?_, pend0 := ?_, pendS := ?_, phase := ?_ }
      · show s.rd + 1 ≤ s.wal.length; omega
      · show s.cur.pos ≤ s.rd + 1; have := hv.cur_le; omega
      · show s.rd + 1 ≤ s.wal.length; omega
      · show s.offFile ≤ s.rd + 1; have := hv.off_mem; omega
      · show s.cur.apps ++ (s.mem ++ e.apps.drop s.pend) = upTo s.wal (s.rd + 1) ++ _
        rw [partialApps_pend0 rfl, upTo_succ he, ← List.append_assoc, hview, List.append_assoc,
          List.take_append_drop]; simp
      · intro _; exact ⟨Nat.le_refl _, rfl⟩
      · intro h0; exact absurd h0 (Nat.lt_irrefl 0)
      · show PhaseOK _
        unfold PhaseOK; simp only [hph]; exact hcur

theorem inv_drain (n : Nat) : ∀ {s : State}, Inv s → s.up = true → s.phase = .idle →
    Inv (drain n s) ∧ (drain n s).up = true ∧ (drain n s).wal = s.wal ∧
      (s.wal.length - s.rd ≤ n → (drain n s).rd = s.wal.length ∧ (drain n s).pend = 0 ∨
        (s.wal.length ≤ s.rd ∧ drain n s = s)) := by
  induction n with
  | zero =>
    intro s h hup _
    refine ⟨h, hup, rfl, ?_⟩
    intro hle
    exact Or.inr ⟨by omega, rfl⟩
  | succ n ih =>
    intro s h hup hph
    unfold drain
    split
    · rename_i hnone
      refine ⟨h, hup, rfl, ?_⟩
      intro _
      have : s.wal.length ≤ s.rd := by
        rcases Nat.lt_or_ge s.rd s.wal.length with hlt | hge
        · rw [List.getElem?_eq_getElem hlt] at hnone; cases hnone
        · exact hge
      exact Or.inr ⟨this, rfl⟩
    · rename_i e he
      obtain ⟨hw, _, _, _, hu, hp, _, hr, hp0⟩ := ingestEntry_frame s e
      have hi := inv_ingestEntry h hup hph he
      obtain ⟨a, b, c, d⟩ := ih hi (by rw [hu]; exact hup) (by rw [hp]; exact hph)
      refine ⟨a, b, by rw [c, hw], ?_⟩
      intro hle
      rw [hw, hr] at d
      have hlt := lt_of_getElem? he
      rcases d (by omega) with ⟨d1, d2⟩ | ⟨d1, d2⟩
      · exact Or.inl ⟨d1, d2⟩
      · refine Or.inl ⟨?_, ?_⟩
        · rw [d2, hr]; omega
        · rw [d2]; exact hp0

theorem inv_catchUp {s s' : State} (h : Inv s) (hs : step s .catchUp = some s') : Inv s' := by
  simp only [step] at hs
  split at hs
  · rename_i hg
    simp only [Bool.and_eq_true, decide_eq_true_eq] at hg
    cases hs
    exact (inv_drain _ h hg.1 hg.2).1
  · cases hs


theorem inv_crashF {s : State} (h : Inv s) : Inv (crashF s) := by
  refine Inv.of_durable_eq h ?_ ?_ ?_ ?_ ?_ ?_ ?_ <;> try rfl
  intro hup
  simp [crashF] at hup

theorem mem_apps {e : Entry} {a : App} (h : a ∈ e.apps) : a.1 = e.off := by
  unfold Entry.apps at h
  split at h
  · cases h
  · simp only [List.mem_map] at h
    obtain ⟨i, _, rfl⟩ := h
    rfl

theorem apps_nodup (e : Entry) : e.apps.Nodup := by
  unfold Entry.apps
  split
  · exact List.nodup_nil
  · unfold List.Nodup
    rw [List.pairwise_map]
    refine List.Pairwise.imp ?_ (List.pairwise_lt_range)
    intro a b hab heq
    have : a = b := by simpa using congrArg Prod.snd heq
    omega

theorem mem_flat {w : List Entry} {a : App} (h : a ∈ flat w) : ∃ e ∈ w, a ∈ e.apps := by
  simpa [flat, List.mem_flatMap] using h

theorem flat_nodup {w : List Entry} (h : w.Pairwise (fun a b => a.off < b.off)) : (flat w).Nodup := by
  induction w with
  | nil => simp [flat]
  | cons e r ih =>
    rw [List.pairwise_cons] at h
    have : flat (e :: r) = e.apps ++ flat r := by simp [flat]
    rw [this, List.nodup_append]
    refine ⟨apps_nodup e, ih h.2, ?_⟩
    intro a ha b hb hab
    obtain ⟨x, hx, hbx⟩ := mem_flat hb
    have h1 := mem_apps ha
    have h2 := mem_apps hbx
    have := h.1 x hx
    rw [hab] at h1
    omega

theorem recover_content {s : State} (h : Inv s) :
    (recover s).content = flat s.wal ∧ (recover s).wal = s.wal := by
  have h1 := inv_reopenF (inv_crashF h)
  have hup : (reopenF (crashF s)).up = true := by simp [reopenF]
  have hph : (reopenF (crashF s)).phase = .idle := by simp [reopenF]
  have hp0 : (reopenF (crashF s)).pend = 0 := by simp [reopenF]
  have hw : (reopenF (crashF s)).wal = s.wal := by simp [reopenF, crashF]
  obtain ⟨hi, hu, hw2, hd⟩ := inv_drain ((reopenF (crashF s)).wal.length - (reopenF (crashF s)).rd) h1 hup hph
  have hv := hi.vol hu
  have hfin : (recover s).rd = (recover s).wal.length ∧ (recover s).pend = 0 := by
    rcases hd (Nat.le_refl _) with ⟨a, b⟩ | ⟨a, b⟩
    · exact ⟨by unfold recover catchUpF; rw [a, hw2], b⟩
    · have hr : recover s = reopenF (crashF s) := b
      rw [hr]
      exact ⟨Nat.le_antisymm (h1.vol hup).rd_le a, hp0⟩
  have hview := hv.view
  change (recover s).cur.apps ++ (recover s).mem = upTo (recover s).wal (recover s).rd ++ (recover s).partialApps at hview
  rw [partialApps_pend0 hfin.2, hfin.1, upTo_of_length_le (Nat.le_refl _), List.append_nil] at hview
  have hww : (recover s).wal = s.wal := by
    show (drain _ _).wal = s.wal
    rw [hw2, hw]
  exact ⟨by rw [← hww]; exact hview, hww⟩

theorem recovered_of_inv {s : State} (h : Inv s) : RecoveredExactlyOnce s := by
  obtain ⟨hc, _⟩ := recover_content h
  have hnd := flat_nodup h.wf
  refine ⟨hc, ?_, ?_⟩
  · intro a
    rw [hc]
    exact List.nodup_iff_count.mp hnd a
  · intro o ho
    obtain ⟨e, he, heo⟩ := h.acked_in o ho
    refine ⟨e, he, heo, ?_⟩
    intro a ha
    rw [hc]
    have hmem : a ∈ flat s.wal := by
      simp only [flat, List.mem_flatMap]
      exact ⟨e, he, ha⟩
    rw [List.Nodup.count hnd]; simp [hmem]


theorem inv_initCfg (src : Nat) : Inv (State.initCfg src src) := by
  refine { wf := ?_, acked_in := ?_, files_ok := ?_, files_sorted := ?_, off_le := ?_, off_gap := ?_,
           src_ok := rfl, vol := ?_ }
  · simp [State.initCfg]
  · intro o ho; simp [State.initCfg] at ho
  · intro f hf; simp [State.initCfg] at hf
  · simp [State.initCfg]
  · simp [State.initCfg]
  · intro _; rfl
  · intro hup; simp [State.initCfg] at hup

theorem inv_init' : Inv State.init := inv_initCfg 0

theorem inv_stepA {s s' : State} {e : Event} (h : Inv s) (hs : stepA s e = some s') : Inv s' := by
  unfold stepA at hs
  split at hs
  · cases hs
  · rename_i hmid
    cases e with
    | walAppend x => exact inv_walAppend h hs
    | walAck o => exact inv_walAck h hs
    | apply o => exact inv_apply h hs
    | skip o => exact inv_skip h hs
    | pass => exact inv_pass h hs
    | flushBegin =>
      have hp : s.pend = 0 := by
        simp [midEntryFlush] at hmid
        exact hmid
      exact inv_flushBegin h hp hs
    | tmpWritten => exact inv_tmpWritten h hs
    | tmpSynced => exact inv_tmpSynced h hs
    | renamed => exact inv_renamed h hs
    | swapped => exact inv_swapped h hs
    | offTmpWritten => exact inv_offTmpWritten h hs
    | offRenamed => exact inv_offRenamed h hs
    | oldFileRemoved i => exact inv_oldFileRemoved h hs
    | crash => exact inv_crash h hs
    | reopen p => exact inv_reopen h hs
    | catchUp => exact inv_catchUp h hs

theorem reachableA_inv {s : State} (h : ReachableA s) : Inv s := by
  induction h with
  | init src => exact inv_initCfg src
  | step _ hs ih => exact inv_stepA ih hs

theorem reachableA_runA {s : State} (h : ReachableA s) : ∀ (es : List Event) {s' : State},
    runA s es = some s' → ReachableA s' := by
  intro es
  induction es generalizing s with
  | nil => intro s' hs; simp [runA] at hs; subst hs; exact h
  | cons e es ih =>
    intro s' hs
    simp only [runA] at hs
    cases hst : stepA s e with
    | none => simp [hst] at hs
    | some s1 =>
      simp [hst] at hs
      exact ih (ReachableA.step h hst) hs

theorem reachable_run {s : State} (h : Reachable s) : ∀ (es : List Event) {s' : State},
    run s es = some s' → Reachable s' := by
  intro es
  induction es generalizing s with
  | nil => intro s' hs; simp [run] at hs; subst hs; exact h
  | cons e es ih =>
    intro s' hs
    simp only [run] at hs
    cases hst : step s e with
    | none => simp [hst] at hs
    | some s1 =>
      simp [hst] at hs
      exact ih (Reachable.step h hst) hs

theorem drain_wal (n : Nat) : ∀ (s : State), (drain n s).wal = s.wal := by
  induction n with
  | zero => intro s; rfl
  | succ n ih =>
    intro s
    unfold drain
    split
    · rfl
    · rename_i e _
      rw [ih, (ingestEntry_frame s e).1]

theorem drain_cfg (n : Nat) : ∀ (s : State), (drain n s).tagSrc = s.tagSrc ∧ (drain n s).lookSrc = s.lookSrc := by
  induction n with
  | zero => intro s; exact ⟨rfl, rfl⟩
  | succ n ih =>
    intro s
    unfold drain
    split
    · exact ⟨rfl, rfl⟩
    · rename_i e _
      obtain ⟨a, b⟩ := ih (ingestEntry s e)
      have hc : (ingestEntry s e).tagSrc = s.tagSrc ∧ (ingestEntry s e).lookSrc = s.lookSrc := by
        unfold ingestEntry
        split
        · exact ⟨rfl, rfl⟩
        · split <;> exact ⟨rfl, rfl⟩
      exact ⟨a.trans hc.1, b.trans hc.2⟩

theorem step_wal {s s' : State} {e : Event} (hs : step s e = some s') :
    s'.wal = s.wal ∨ ∃ x, s'.wal = s.wal ++ [x] := by
  cases e <;> simp only [step] at hs
  case walAppend x =>
    split at hs
    · cases hs; exact Or.inr ⟨x, rfl⟩
    · cases hs
  case catchUp =>
    split at hs
    · cases hs; exact Or.inl (drain_wal _ _)
    · cases hs
  case reopen p =>
    split at hs
    · cases hs; exact Or.inl (by simp [reopenF])
    · cases hs
  all_goals
    repeat' split at hs
    all_goals first | (cases hs; exact Or.inl rfl) | cases hs

theorem scalar_pend {s : State} (h : Inv s) (hsc : Scalar s.wal) (hup : s.up = true) : s.pend = 0 := by
  rcases Nat.eq_zero_or_pos s.pend with h0 | h0
  · exact h0
  · obtain ⟨_, _, e, he, _, hk⟩ := (h.vol hup).pendS h0
    have := hsc e (List.mem_of_getElem? he)
    omega

theorem reachable_scalar {s : State} (h : Reachable s) : Scalar s.wal → ReachableA s := by
  induction h with
  | init src => intro _; exact ReachableA.init src
  | @step s s' e _ hs ih =>
    intro hsc
    have hsc0 : Scalar s.wal := by
      rcases step_wal hs with hw | ⟨x, hw⟩
      · rw [hw] at hsc; exact hsc
      · rw [hw] at hsc
        intro y hy
        exact hsc y (List.mem_append_left _ hy)
    have hr := ih hsc0
    refine ReachableA.step (e := e) hr ?_
    unfold stepA
    split
    · rename_i hmid
      simp [midEntryFlush] at hmid
      obtain ⟨he, hp⟩ := hmid
      subst he
      have hup : s.up = true := by
        simp only [step] at hs
        split at hs
        · rename_i hg; simp at hg; exact hg.1.1
        · cases hs
      exact absurd (scalar_pend (reachableA_inv hr) hsc0 hup) hp
    · exact hs


/-- the model can always perform a clean close from a state whose row store is idle and
    not in the middle of an entry -/
theorem closeEvents_run {s : State} (hup : s.up = true) (hph : s.phase = .idle) (hp : s.pend = 0) :
    ∃ s', runA s (closeEvents s) = some s' ∧ s'.up = false ∧ s'.wal = s.wal ∧ s'.acked = s.acked := by
  unfold closeEvents
  cases hm : s.mem.isEmpty
  · refine ⟨{ wal := s.wal, acked := s.acked, offFile := s.offFile, tagSrc := s.tagSrc, lookSrc := s.lookSrc,
              files := { apps := s.cur.apps ++ s.mem, pos := s.memPos, complete := true } :: s.files }, ?_, rfl, rfl, rfl⟩
    simp [runA, stepA, step, midEntryFlush, hup, hph, hp, hm, crashF]
  · cases hc : s.offChanged
    · refine ⟨{ wal := s.wal, acked := s.acked, offFile := s.offFile, files := s.files, tagSrc := s.tagSrc, lookSrc := s.lookSrc }, ?_, rfl, rfl, rfl⟩
      simp [runA, stepA, step, midEntryFlush, hup, hp, crashF]
    · refine ⟨{ wal := s.wal, acked := s.acked, offFile := s.memPos, files := s.files, tagSrc := s.tagSrc, lookSrc := s.lookSrc }, ?_, rfl, rfl, rfl⟩
      simp [runA, stepA, step, midEntryFlush, hup, hph, hp, hm, hc, crashF]

end Zeno.Crash
