/-
Helper lemmas for C13, part 6: the table, the two-phase operators, the subquery filter, and
the induction over plans.

`Inv env p`: whatever callback `p` is iterated with — if the caller is not told (no error,
statistics not partial), the callback was politely fed a prefix of some fault-free output of
`p`, and a proper prefix only because the callback itself asked to stop.
-/
import ZenoModel.Lemmas.ReportCluster

namespace Zeno.Report

/-- all C13 fixes applied (the coalescing mode is free) -/
def Cfg.Fixed (c : Cfg) : Prop :=
  c.d3 = true ∧ c.d15 = true ∧ c.d4 = true ∧ c.subq = true ∧ c.subqStats = true ∧ c.recover = true

def Inv (env : Env) (p : Plan) : Prop :=
  ∀ {σ : Type} (s : Sink σ) (st : σ) (now : Nat), (iterate env p s st now).told = false →
    ∃ l, Out p l ∧ Polite s st l (iterate env p s st now).st

theorem Res.told_false {σ : Type} (r : Res σ) (h : r.told = false) :
    r.err = none ∧ ∀ st, r.stats = some st → st.partial_ = false := by
  unfold Res.told at h
  cases he : r.err with
  | some e => simp [he] at h
  | none =>
    refine ⟨rfl, fun st hs => ?_⟩
    simp [he, hs] at h
    simpa using h

theorem Res.told_mapSt {σ τ : Type} (r : Res σ) (f : σ → τ) : (r.mapSt f).told = r.told := rfl

/-! ## the table -/

theorem per_polite {σ : Type} (g : Guard) (s : Sink σ) (c : CoIter) (F0 F' : Fan σ) (rows : List Row) (m : Nat)
    (rep : Reply) (e : Option Err)
    (hf : Fed (fanout .perIteration g s c) F0 (rows.take m) F' rep) (he : e = rep.err)
    (hc : rep.ok = true → rows.length ≤ m) (ha : F0.oursAlive = true) (h0 : F0.oursErr = none)
    (hres : (if F'.oursAlive then e else F'.oursErr) = none) : Polite s F0.ours rows F'.ours := by
  obtain ⟨_, hA⟩ := fanout_per_fed g s c _ F0 F' rep hf
  obtain ⟨k, rep0, hfo, hal, hd⟩ := hA ha h0
  rw [List.take_take] at hfo
  by_cases hl : F'.oursAlive = true
  · rw [if_pos hl] at hres
    obtain ⟨hk0, hlen, hmore, _⟩ := hal hl
    have hok : rep.ok = true := by
      have : rep.err = none := by rw [← he, hres]
      simp [Reply.ok, hmore, this]
    have h1 := hc hok
    rw [List.length_take] at hlen
    exact ⟨min k m, rep0, hfo, by rw [(Reply.ok_iff rep0).1 hk0]; rfl, fun _ => by omega⟩
  · have hl' : F'.oursAlive = false := by simpa using hl
    rw [hl'] at hres
    simp only [Bool.false_eq_true, if_false] at hres
    obtain ⟨he0, hm0⟩ := hd hl' hres
    exact ⟨min k m, rep0, hfo, he0, fun hq => by rw [hm0] at hq; cases hq⟩

theorem coalesced_polite {σ : Type} (env : Env) (hfix : env.cfg.Fixed) (t : Table) (s : Sink σ) (st : σ) (now : Nat)
    (st' : σ) (d : Nat) (e : Option Err)
    (h : coalescedScan env t s st now = (st', d, e)) (he : e = none) : Polite s st t.rows st' := by
  obtain ⟨h3, h15, _⟩ := hfix
  unfold coalescedScan at h
  cases hco : t.co with
  | none =>
    rw [hco] at h
    cases hmode : env.cfg.coalesce with
    | abortAll =>
      rw [hmode] at h
      simp only at h
      generalize hfs : fileStoreIterate env.cfg t (wrap (guardStep env.guard) s) ((), st) now = fs at h
      obtain ⟨⟨u, st1⟩, d1, e1⟩ := fs
      simp only [Prod.mk.injEq] at h
      obtain ⟨rfl, _, rfl⟩ := h
      obtain ⟨m, rep, hf, her, hc⟩ := fileStore_fed env.cfg h3 h15 t _ _ _ _ _ _ hfs
      have hp := wrap_polite (guardStep_ok env.guard) s () st u st1 t.rows trivial
        (fed_polite hf (by rw [← her, he]) hc)
      rwa [id_spec] at hp
    | perIteration =>
      rw [hmode] at h
      simp only at h
      generalize hc0 : ({ sink := ⟨fun n _ _ => (n, 0, Reply.stop)⟩, deadline := none, first := false } : CoIter) = c0 at h
      generalize hfs : fileStoreIterate env.cfg t (fanout .perIteration env.guard s c0) { ours := st, coAlive := false } now = fs at h
      obtain ⟨F', d1, e1⟩ := fs
      simp only [Prod.mk.injEq] at h
      obtain ⟨rfl, _, hres⟩ := h
      obtain ⟨m, rep, hf, her, hc⟩ := fileStore_fed env.cfg h3 h15 t _ _ _ _ _ _ hfs
      exact per_polite env.guard s c0 { ours := st, coAlive := false } F' t.rows m rep e1 hf her hc rfl rfl (by rw [hres, he])
  | some c =>
    rw [hco] at h
    cases hmode : env.cfg.coalesce with
    | abortAll =>
      rw [hmode] at h
      simp only at h
      generalize hfs : fileStoreIterate env.cfg t (wrap (guardStep ⟨maxDeadline env.deadline c.deadline⟩) (fanout .abortAll env.guard s c)) ((), { ours := st }) now = fs at h
      obtain ⟨⟨u, F'⟩, d1, e1⟩ := fs
      simp only [Prod.mk.injEq] at h
      obtain ⟨rfl, _, rfl⟩ := h
      obtain ⟨m, rep, hf, her, hc⟩ := fileStore_fed env.cfg h3 h15 t _ _ _ _ _ _ hfs
      have hp := wrap_polite (guardStep_ok _) (fanout .abortAll env.guard s c) () { ours := st } u F' t.rows trivial
        (fed_polite hf (by rw [← her, he]) hc)
      rw [id_spec] at hp
      exact fanout_abort_polite env.guard s c { ours := st } F' t.rows rfl hp
    | perIteration =>
      rw [hmode] at h
      simp only at h
      generalize hfs : fileStoreIterate env.cfg t (fanout .perIteration env.guard s c) { ours := st } now = fs at h
      obtain ⟨F', d1, e1⟩ := fs
      simp only [Prod.mk.injEq] at h
      obtain ⟨rfl, _, hres⟩ := h
      obtain ⟨m, rep, hf, her, hc⟩ := fileStore_fed env.cfg h3 h15 t _ _ _ _ _ _ hfs
      exact per_polite env.guard s c { ours := st } F' t.rows m rep e1 hf her hc rfl rfl (by rw [hres, he])

theorem table_inv (env : Env) (hfix : env.cfg.Fixed) (t : Table) : Inv env (.table t) := by
  intro σ s st now h
  refine ⟨t.rows, rfl, ?_⟩
  simp only [iterate, tableIterate] at h ⊢
  have hrec : env.cfg.recover = true := hfix.2.2.2.2.2
  rw [hrec] at h ⊢
  generalize hcs : coalescedScan env t (wrap (recoverStep true) (wrap (oomStep t.oomAt) s)) ((), 1, st) now = cs at h ⊢
  obtain ⟨⟨u, i, st1⟩, d, e⟩ := cs
  simp only at h ⊢
  have he : e = none := (Res.told_false _ h).1
  have hp := coalesced_polite env hfix t _ _ _ _ _ _ hcs he
  have h1 := wrap_polite recoverStep_ok (wrap (oomStep t.oomAt) s) () (1, st) u (i, st1) t.rows trivial hp
  rw [id_spec] at h1
  have := wrap_polite (oomStep_ok t.oomAt) s 1 st i st1 t.rows trivial h1
  rwa [id_spec] at this

/-- statistics of a table scan: partial exactly when there is an error -/
theorem table_stats (env : Env) (t : Table) {σ : Type} (s : Sink σ) (st : σ) (now : Nat) :
    ∃ e, (iterate env (.table t) s st now).err = e ∧
      (iterate env (.table t) s st now).stats = some { total := 1, successful := if e.isNone then 1 else 0, missing := [] } := by
  simp only [iterate, tableIterate]
  generalize coalescedScan env t (wrap (recoverStep env.cfg.recover) (wrap (oomStep t.oomAt) s)) ((), 1, st) now = cs
  obtain ⟨x, d, e⟩ := cs
  exact ⟨e, rfl, rfl⟩

/-! ## stream operators -/

theorem wrap_inv {τ : Type} (env : Env) (p : Plan) (ih : Inv env p) (stp : Step τ) (F : τ → Row → List Row)
    (nx : τ → Row → τ) (ok : StepOK stp (fun _ => True) F nx) (x0 : τ) {σ : Type} (s : Sink σ) (st : σ) (now : Nat)
    (h : ((iterate env p (wrap stp s) (x0, st) now).mapSt (·.2)).told = false) :
    ∃ l, Out p l ∧ Polite s st (specRun F nx x0 l) ((iterate env p (wrap stp s) (x0, st) now).mapSt (·.2)).st := by
  rw [Res.told_mapSt] at h
  obtain ⟨l, hl, hp⟩ := ih (wrap stp s) (x0, st) now h
  refine ⟨l, hl, ?_⟩
  show Polite s st (specRun F nx x0 l) (iterate env p (wrap stp s) (x0, st) now).st.2
  generalize (iterate env p (wrap stp s) (x0, st) now).st = res at hp ⊢
  obtain ⟨x', st'⟩ := res
  exact wrap_polite ok s x0 st x' st' l trivial hp

/-! ## sort and group -/

theorem sort_inv (env : Env) (p : Plan) (sf : List Row → List Row) (ih : Inv env p) : Inv env (.sort sf p) := by
  intro σ s st now h
  simp only [iterate] at h ⊢
  generalize hup : iterate env p (collectSink env.guard) [] now = up at h ⊢
  have ihu := ih (collectSink env.guard) [] now
  rw [hup] at ihu
  unfold sortFinish at h ⊢
  by_cases hd : (up.err == some Err.deadline) = true
  · rw [if_pos hd] at h
    have : up.err = some Err.deadline := by simpa using hd
    simp [Res.told, this] at h
  · rw [if_neg hd] at h ⊢
    generalize hem : sortEmit env.guard s st (now + up.took) (sf up.st) = em at h ⊢
    obtain ⟨st1, d1, e⟩ := em
    cases e with
    | some e' => simp [Res.told] at h
    | none =>
      simp only at h ⊢
      have hut : up.told = false := h
      obtain ⟨l, hl, hp⟩ := ihu hut
      have hst : up.st = l := by simpa using collect_polite env.guard hp
      refine ⟨sf l, ⟨l, hl, rfl⟩, ?_⟩
      rw [← hst]
      exact sortEmit_polite env.guard s _ _ _ _ _ _ hem rfl

/-- group over any source whose collected rows are complete whenever the source does not
    report a problem (every source through `Inv`; the unflat cluster source directly) -/
theorem group_inv_of (env : Env) (p : Plan) (gs : GroupSpec)
    (hc : ∀ now, (iterate env p (collectSink env.guard) [] now).told = false →
      ∃ l, Out p l ∧ (iterate env p (collectSink env.guard) [] now).st = l) :
    Inv env (.group gs p) := by
  intro σ s st now h
  simp only [iterate] at h ⊢
  have hcu := hc now
  generalize hup : iterate env p (collectSink env.guard) [] now = up at h hcu ⊢
  unfold groupFinish at h ⊢
  by_cases hd : (up.err == some Err.deadline) = true
  · rw [if_pos hd] at h
    have : up.err = some Err.deadline := by simpa using hd
    simp [Res.told, this] at h
  · rw [if_neg hd] at h ⊢
    by_cases hx : (gs.crosstab && !up.st.isEmpty && env.guard.timedOut (now + up.took)) = true
    · rw [if_pos hx] at h
      simp [Res.told] at h
    · rw [if_neg hx] at h ⊢
      by_cases hem : up.st.isEmpty = true
      · rw [if_pos hem] at h ⊢
        have hut : up.told = false := h
        obtain ⟨l, hl, hst⟩ := hcu hut
        exact ⟨[], ⟨l, hl, by rw [← hst, hem]; rfl⟩, Polite.nil s st⟩
      · rw [if_neg hem] at h ⊢
        generalize hw : groupWalk env.guard s st (now + up.took) (gs.gf up.st) = wk at h ⊢
        obtain ⟨st1, d1, we⟩ := wk
        cases we with
        | some e' => simp [Res.told] at h
        | none =>
          simp only at h ⊢
          have hut : up.told = false := h
          obtain ⟨l, hl, hst⟩ := hcu hut
          refine ⟨gs.gf l, ⟨l, hl, by rw [← hst]; simp [hem]⟩, ?_⟩
          rw [← hst]
          exact groupWalk_polite env.guard s _ _ _ _ _ _ hw rfl

theorem group_inv (env : Env) (p : Plan) (gs : GroupSpec) (ih : Inv env p) : Inv env (.group gs p) := by
  apply group_inv_of
  intro now ht
  obtain ⟨l, hl, hp⟩ := ih (collectSink env.guard) [] now ht
  exact ⟨l, hl, by simpa using collect_polite env.guard hp⟩

/-! ## the subquery filter -/

def subqF (keep : List Nat → Row → Bool) (ds : List Nat) : (Bool × List Nat) → Row → List Row :=
  fun _ r => if keep ds r then [r] else []
def subqNx : (Bool × List Nat) → Row → (Bool × List Nat) := fun x _ => x

theorem subq_spec (keep : List Nat → Row → Bool) (ds : List Nat) : ∀ (rows : List Row) (x : Bool × List Nat),
    specRun (subqF keep ds) subqNx x rows = rows.filter (keep ds)
  | [], _ => rfl
  | r :: rs, x => by
    simp only [specRun, subqNx, subq_spec keep ds rs x, subqF, List.filter_cons]
    by_cases hk : keep ds r = true <;> simp [hk]

theorem subqStep_ok (fixed : Bool) (g : Guard) (runSub : Nat → List Nat × Nat × Option Err)
    (keep : List Nat → Row → Bool) (ds : List Nat) :
    StepOK (subqStep fixed g runSub keep) (fun x => x = (true, ds)) (subqF keep ds) subqNx where
  pre_ok := by
    intro x now r hx
    subst hx
    by_cases hk : keep ds r = true
    · simp [subqStep, hk, subqF, subqNx]
    · simp only [subqStep, if_true, hk, Bool.false_eq_true, if_false]
      rcases g.proceed_cases (now + 0) with hp | hp
      · refine Or.inr (Or.inl ?_)
        rw [Nat.add_zero] at hp
        simp [hp, subqF, hk, subqNx]
      · exact Or.inl (by rw [hp]; simp [Reply.fail])
  post_ok := by intro x now rep; exact ⟨rfl, Or.inl rfl⟩

/-- the first call runs the subquery; when it ends without error the call behaves as if the
    result had been there already -/
theorem subq_first {σ : Type} (g : Guard) (runSub : Nat → List Nat × Nat × Option Err)
    (keep : List Nat → Row → Bool) (s : Sink σ) (d0 : List Nat) (st : σ) (now : Nat) (r : Row)
    (X1 : (Bool × List Nat) × σ) (dA : Nat) (rep : Reply)
    (h : (wrap (subqStep true g runSub keep) s).onRow ((false, d0), st) now r = (X1, dA, rep)) :
    (∃ e, (runSub now).2.2 = some e ∧ rep = ⟨false, some e⟩) ∨
    ((runSub now).2.2 = none ∧ ∃ dB, (wrap (subqStep true g runSub keep) s).onRow ((true, (runSub now).1), st) (now + (runSub now).2.1) r = (X1, dB, rep)) := by
  generalize hrs : runSub now = rs at h ⊢
  obtain ⟨ds, d1, e⟩ := rs
  cases e with
  | some e' =>
    left
    simp only [wrap, subqStep, Bool.false_eq_true, if_false, hrs, Bool.true_or, if_true, Prod.mk.injEq] at h
    exact ⟨e', rfl, h.2.2.symm⟩
  | none =>
    right
    refine ⟨rfl, ?_⟩
    by_cases hk : keep ds r = true
    · simp only [wrap, subqStep, Bool.false_eq_true, if_false, hrs, hk, if_true] at h ⊢
      generalize feed s st (now + d1) [r] = fd at h ⊢
      obtain ⟨st1, d2, rp⟩ := fd
      simp only [Prod.mk.injEq] at h ⊢
      obtain ⟨h1, _, h3⟩ := h
      exact ⟨0 + d2, by simpa using h1, rfl, h3⟩
    · simp only [wrap, subqStep, Bool.false_eq_true, if_false, hrs, hk, if_true] at h ⊢
      simp only [Prod.mk.injEq] at h ⊢
      obtain ⟨h1, _, h3⟩ := h
      exact ⟨0, h1, rfl, by simpa using h3⟩

theorem wf_group_cases (gs : GroupSpec) (p : Plan) (h : (Plan.group gs p).wf) :
    (∃ c, p = .cluster c ∧ c.wf) ∨ p.wf := by
  cases p with
  | cluster c => exact Or.inl ⟨c, rfl, h⟩
  | _ => exact Or.inr h

theorem Out_exists : ∀ (p : Plan), p.wf → ∃ l, Out p l
  | .mock rows _ _, _ => ⟨rows, rfl⟩
  | .table t, _ => ⟨t.rows, rfl⟩
  | .cluster c, h => cluster_out_exists c h.2
  | .filter incl p, h => by
    obtain ⟨l, hl⟩ := Out_exists p h
    exact ⟨_, l, hl, rfl⟩
  | .subqFilter sub dimOf keep p, h => by
    obtain ⟨ls, hls⟩ := Out_exists sub h.1
    obtain ⟨l, hl⟩ := Out_exists p h.2
    exact ⟨_, ls, l, hls, hl, rfl⟩
  | .group gs p, h => by
    rcases wf_group_cases gs p h with ⟨c, rfl, hw⟩ | hp
    · obtain ⟨l, hl⟩ := cluster_out_exists c hw
      exact ⟨_, l, hl, rfl⟩
    · obtain ⟨l, hl⟩ := Out_exists p hp
      exact ⟨_, l, hl, rfl⟩
  | .flatten fl p, h => by
    obtain ⟨l, hl⟩ := Out_exists p h; exact ⟨_, l, hl, rfl⟩
  | .unflatten f p, h => by
    obtain ⟨l, hl⟩ := Out_exists p h; exact ⟨_, l, hl, rfl⟩
  | .sort sf p, h => by
    obtain ⟨l, hl⟩ := Out_exists p h; exact ⟨_, l, hl, rfl⟩
  | .offset n p, h => by
    obtain ⟨l, hl⟩ := Out_exists p h; exact ⟨_, l, hl, rfl⟩
  | .limit n p, h => by
    obtain ⟨l, hl⟩ := Out_exists p h; exact ⟨_, l, hl, rfl⟩

theorem subq_inv (env : Env) (hfix : env.cfg.Fixed) (sub p : Plan) (dimOf : Row → Nat) (keep : List Nat → Row → Bool)
    (hws : sub.wf) (ihs : Inv env sub) (ihp : Inv env p) : Inv env (.subqFilter sub dimOf keep p) := by
  intro σ s st now h
  obtain ⟨_, _, _, hsq, hss, _⟩ := hfix
  simp only [iterate, hsq, hss, Bool.true_and] at h ⊢
  -- what the subquery run returns when it reports no error
  have hsub : ∀ t, ((fun t => ((iterate env sub (dimSink dimOf) [] t).st, (iterate env sub (dimSink dimOf) [] t).took,
        match (iterate env sub (dimSink dimOf) [] t).err with
        | some e => some e
        | none => if (match (iterate env sub (dimSink dimOf) [] t).stats with | some st => st.partial_ | none => false) = true
            then some Err.incomplete else none)) t : List Nat × Nat × Option Err).2.2 = none →
      ∃ ls, Out sub ls ∧ (iterate env sub (dimSink dimOf) [] t).st = ls.map dimOf := by
    intro t ht
    simp only at ht
    have htold : (iterate env sub (dimSink dimOf) [] t).told = false := by
      unfold Res.told
      cases he : (iterate env sub (dimSink dimOf) [] t).err with
      | some e => rw [he] at ht; cases ht
      | none =>
        rw [he] at ht
        simp only at ht
        by_cases hp : (match (iterate env sub (dimSink dimOf) [] t).stats with | some st => st.partial_ | none => false) = true
        · rw [if_pos hp] at ht; cases ht
        · exact (Bool.not_eq_true _).mp hp
    obtain ⟨ls, hls, hp⟩ := ihs (dimSink dimOf) [] t htold
    exact ⟨ls, hls, by simpa using dim_polite dimOf hp⟩
  generalize hrun : (fun t => ((iterate env sub (dimSink dimOf) [] t).st, (iterate env sub (dimSink dimOf) [] t).took,
        match (iterate env sub (dimSink dimOf) [] t).err with
        | some e => some e
        | none => if (match (iterate env sub (dimSink dimOf) [] t).stats with | some st => st.partial_ | none => false) = true
            then some Err.incomplete else none) : Nat → List Nat × Nat × Option Err) = runSub at h hsub ⊢
  have hsub' : ∀ t, (runSub t).2.2 = none → ∃ ls, Out sub ls ∧ (runSub t).1 = ls.map dimOf := by
    intro t ht
    obtain ⟨ls, hls, hst⟩ := hsub t ht
    refine ⟨ls, hls, ?_⟩
    rw [← hst, ← hrun]
  clear hsub
  rw [Res.told_mapSt] at h
  obtain ⟨l0, hl0, hp⟩ := ihp _ _ now h
  show ∃ l, Out (.subqFilter sub dimOf keep p) l ∧ Polite s st l
    (iterate env p (wrap (subqStep true env.guard runSub keep) s) ((false, []), st) now).st.2
  generalize (iterate env p (wrap (subqStep true env.guard runSub keep) s) ((false, []), st) now).st = X' at hp ⊢
  obtain ⟨x', st'⟩ := X'
  obtain ⟨m, rep, hf, he, hc⟩ := hp
  cases htk : l0.take m with
  | nil =>
    rw [htk] at hf
    cases hf
    have hl0e : l0 = [] := by
      have := hc rfl
      rw [List.take_of_length_le this] at htk
      exact htk
    obtain ⟨ls, hls⟩ := Out_exists sub hws
    exact ⟨[], ⟨ls, l0, hls, hl0, by simp [hl0e]⟩, Polite.nil s st⟩
  | cons r rest =>
    rw [htk] at hf
    have key : ∃ ds, (∃ ls, Out sub ls ∧ ds = ls.map dimOf) ∧
        Fed (wrap (subqStep true env.guard runSub keep) s) ((true, ds), st) (r :: rest) (x', st') rep := by
      cases hf with
      | last hr hk =>
        rcases subq_first env.guard runSub keep s [] st _ r _ _ _ hr with ⟨e, _, hrep⟩ | ⟨hn, dB, hr'⟩
        · rw [hrep] at he; cases he
        · obtain ⟨ls, hls, hds⟩ := hsub' _ hn
          exact ⟨_, ⟨ls, hls, hds⟩, Fed.last hr' hk⟩
      | cons hr hk htail =>
        rcases subq_first env.guard runSub keep s [] st _ r _ _ _ hr with ⟨e, _, hrep⟩ | ⟨hn, dB, hr'⟩
        · rw [hrep] at hk; simp [Reply.ok] at hk
        · obtain ⟨ls, hls, hds⟩ := hsub' _ hn
          exact ⟨_, ⟨ls, hls, hds⟩, Fed.cons hr' hk htail⟩
    obtain ⟨ds, ⟨ls, hls, hds⟩, hf'⟩ := key
    have hpol : Polite (wrap (subqStep true env.guard runSub keep) s) ((true, ds), st) l0 (x', st') :=
      ⟨m, rep, by rw [htk]; exact hf', he, hc⟩
    have := wrap_polite (subqStep_ok true env.guard runSub keep ds) s (true, ds) st x' st' l0 rfl hpol
    rw [subq_spec] at this
    exact ⟨l0.filter (keep ds), ⟨ls, l0, hls, hl0, by rw [hds]⟩, this⟩

/-! ## the induction over plans -/

theorem inv_of_wf (env : Env) (hfix : env.cfg.Fixed) : ∀ (p : Plan), p.wf → Inv env p
  | .mock rows failAt sleepAt, _ => by
    intro s st now h
    refine ⟨rows, rfl, ?_⟩
    simp only [iterate] at h ⊢
    generalize hm : mockLoop s failAt sleepAt 0 st now rows = ml at h ⊢
    obtain ⟨st1, d, e⟩ := ml
    exact mock_polite s failAt sleepAt rows 0 st now st1 d e hm (Res.told_false _ h).1
  | .table t, _ => table_inv env hfix t
  | .cluster c, hw => by
    intro s st now h
    exact cluster_flat_inv c hw.2 hw.1 s st now h
  | .filter incl p, hw => by
    intro s st now h
    obtain ⟨l, hl, hp⟩ := wrap_inv env p (inv_of_wf env hfix p hw) _ _ _ (filterStep_ok env.guard incl) () s st now h
    rw [filter_spec] at hp
    exact ⟨_, ⟨l, hl, rfl⟩, hp⟩
  | .subqFilter sub dimOf keep p, hw =>
    subq_inv env hfix sub p dimOf keep hw.1 (inv_of_wf env hfix sub hw.1) (inv_of_wf env hfix p hw.2)
  | .group gs p, hw => by
    rcases wf_group_cases gs p hw with ⟨c, rfl, hcw⟩ | hp
    · apply group_inv_of
      intro now ht
      exact ⟨_, cluster_collect c hcw env.guard now ht, rfl⟩
    · exact group_inv env p gs (inv_of_wf env hfix p hp)
  | .flatten fl p, hw => by
    intro s st now h
    obtain ⟨l, hl, hp⟩ := wrap_inv env p (inv_of_wf env hfix p hw) _ _ _ (flattenStep_ok env.guard fl) () s st now h
    rw [flatten_spec] at hp
    exact ⟨_, ⟨l, hl, rfl⟩, hp⟩
  | .unflatten f p, hw => by
    intro s st now h
    obtain ⟨l, hl, hp⟩ := wrap_inv env p (inv_of_wf env hfix p hw) _ _ _ (unflattenStep_ok f) () s st now h
    rw [map_spec] at hp
    exact ⟨_, ⟨l, hl, rfl⟩, hp⟩
  | .sort sf p, hw => sort_inv env p sf (inv_of_wf env hfix p hw)
  | .offset n p, hw => by
    intro s st now h
    obtain ⟨l, hl, hp⟩ := wrap_inv env p (inv_of_wf env hfix p hw) _ _ _ (offsetStep_ok env.guard n) 0 s st now h
    rw [offset_spec] at hp
    exact ⟨_, ⟨l, hl, rfl⟩, hp⟩
  | .limit n p, hw => by
    intro s st now h
    obtain ⟨l, hl, hp⟩ := wrap_inv env p (inv_of_wf env hfix p hw) _ _ _ (limitStep_ok n) 0 s st now h
    rw [limit_spec] at hp
    exact ⟨_, ⟨l, hl, rfl⟩, hp⟩

end Zeno.Report
