/-
End-to-end, part 2: the window `planLocal` hands to `core.Group` lies inside the store's live
range.  The store guarantees every period `T > now − retention` (`table_ingest_refines_spec`);
the group window is `(gAsOf, gUntil]` with `gAsOf ≥ tableAsOf = roundUp (roundUp now − retention)`
`≥ now − retention` — both roundings go UP, so there is no gap at the boundary.
-/
import ZenoModel.Lemmas.SubMergeSemGroup4
set_option linter.unusedSimpArgs false
set_option linter.unusedVariables false
namespace Zeno

/-- the table's queryable window starts at or after the store's truncation bound -/
theorem tableAsOf_ge (cfg : TableCfg) (now : Int) (hres : 0 < cfg.res) :
    now - cfg.retention ≤ tableAsOf cfg now := by
  unfold tableAsOf tableUntil
  have h1 := roundUp_ge (t := now) hres
  have h2 := roundUp_ge (t := roundUp now cfg.res - cfg.retention) hres
  omega

/-- the asOf `groupRows` reads back from the plan is the window's asOf -/
theorem windowFor_gAsOf (cfg : TableCfg) (now : Int) (q : Query) :
    (if (windowFor cfg now q).qAsOf = 0 then tableAsOf cfg now else (windowFor cfg now q).qAsOf) =
      (windowFor cfg now q).asOf := by
  unfold windowFor
  simp only
  generalize roundUp (if q.asOfOffset ≠ 0 then now + q.asOfOffset else q.asOf) cfg.res = qa
  by_cases h0 : qa = 0
  · simp [h0]
  · by_cases h1 : qa = tableAsOf cfg now
    · simp [h0, h1]
    · simp [h0, h1]

/-- … and the until is the window's until -/
theorem windowFor_gUntil (cfg : TableCfg) (now : Int) (q : Query) :
    (if (windowFor cfg now q).qUntil = 0 then tableUntil cfg now else (windowFor cfg now q).qUntil) =
      (windowFor cfg now q).hi := by
  unfold windowFor
  simp only
  generalize roundUp (if q.untilOffset ≠ 0 then now + q.untilOffset else q.hi) cfg.res = qu
  by_cases h0 : qu = 0
  · simp [h0]
  · by_cases h1 : qu = tableUntil cfg now
    · simp [h0, h1]
    · simp [h0, h1]

theorem resolutionFor_aux2 (R cres S : Int) (T : Bool) (r ss : Int) (ch tr : Bool)
    (h : (if decide (R ≠ cres) = true ∧ R < cres then (Except.error QErr.resolutionTooFine : Except QErr (Int × Int × Bool × Bool))
      else if decide (R ≠ cres) = true ∧ R % cres ≠ 0 then Except.error QErr.resolutionNotMultiple
      else Except.ok (R, S, decide (R ≠ cres), T)) = Except.ok (r, ss, ch, tr)) :
    r = R ∧ ss = S := by
  by_cases c1 : decide (R ≠ cres) = true ∧ R < cres
  · rw [if_pos c1] at h; cases h
  · rw [if_neg c1] at h
    by_cases c2 : decide (R ≠ cres) = true ∧ R % cres ≠ 0
    · rw [if_pos c2] at h; cases h
    · rw [if_neg c2] at h
      injection h with h
      injection h with hr h
      injection h with hss _
      exact ⟨hr.symm, hss.symm⟩

/-- `resolutionFor` clips the resolution to the window; without STRIDE there is no stride slice -/
theorem resolutionFor_le_window (cfg : TableCfg) (q : Query) (w : Window) (r ss : Int) (ch tr : Bool)
    (h : resolutionFor cfg q w = .ok (r, ss, ch, tr)) :
    r ≤ w.hi - w.asOf ∧ (q.stride ≤ 0 → ss = 0) := by
  unfold resolutionFor at h
  dsimp only at h
  by_cases c1 : q.stride > 0 ∧ q.stride % cfg.res ≠ 0
  · rw [if_pos c1] at h; cases h
  · rw [if_neg c1] at h
    obtain ⟨hr, hs⟩ := resolutionFor_aux2 _ _ _ _ _ _ _ _ h
    refine ⟨?_, fun hst => ?_⟩
    · rw [hr]; split <;> omega
    · rw [hs, if_neg (by omega)]

/-- the window start `groupRows` uses is the plan's, and `planLocal` checked it against the table's:
    the branch "window shorter than one period" of `core.Group` never fires after `planLocal` -/
theorem planLocal_gAsOf (cfg : TableCfg) (now : Int) (q : Query) (pl : Plan)
    (h : planLocal cfg now q = .ok pl) :
    gAsOfOf cfg now pl = pl.asOf ∧ gUntilOf cfg now pl = pl.hi ∧ tableAsOf cfg now ≤ pl.asOf := by
  obtain ⟨r, ss, ch, tr, heq, f1, f2, f3, f4, f5, _⟩ := planLocal_fields cfg now q pl h
  obtain ⟨e1, _, _⟩ := resolutionFor_ok cfg q _ r ss ch tr heq
  have hle := (resolutionFor_le_window cfg q _ r ss ch tr heq).1
  have hg : gResOf cfg pl = r := by unfold gResOf; rw [f1, f2, f3]; exact e1
  have ha := windowFor_gAsOf cfg now q
  have hu := windowFor_gUntil cfg now q
  have hpa : pl.asOf = (windowFor cfg now q).asOf ∧ pl.hi = (windowFor cfg now q).hi ∧
      tableAsOf cfg now ≤ (windowFor cfg now q).asOf := by
    unfold planLocal at h
    simp only at h
    split at h
    · cases h
    · rename_i hlt
      split at h
      · cases h
      · injection h with h
        subst h
        exact ⟨rfl, rfl, by omega⟩
  obtain ⟨p1, p2, p3⟩ := hpa
  have hU : gUntilOf cfg now pl = pl.hi := by unfold gUntilOf; rw [f5, hu, p2]
  refine ⟨?_, hU, by rw [p1]; exact p3⟩
  unfold gAsOfOf
  simp only [hU, hg, f4, ha, p1, p2]
  rw [if_neg (by omega)]

/-- THE LIVE RANGE: every period inside the group window has not expired in the store -/
theorem planLocal_window_live (cfg : TableCfg) (now : Int) (q : Query) (pl : Plan)
    (h : planLocal cfg now q = .ok pl) (hres : 0 < cfg.res) (t : Int) (ht : gAsOfOf cfg now pl < t) :
    t > now - cfg.retention := by
  obtain ⟨h1, _, h3⟩ := planLocal_gAsOf cfg now q pl h
  have := tableAsOf_ge cfg now hres
  omega

/-- without STRIDE the plan has no stride slice -/
theorem planLocal_noStride (cfg : TableCfg) (now : Int) (q : Query) (pl : Plan)
    (h : planLocal cfg now q = .ok pl) (hs : q.stride ≤ 0) : pl.strideSlice = 0 := by
  obtain ⟨r, ss, ch, tr, heq, _, _, _, _, _, f6⟩ := planLocal_fields cfg now q pl h
  rw [f6]
  exact (resolutionFor_le_window cfg q _ r ss ch tr heq).2 hs

end Zeno
