/-
Invariants (grid alignment, bound, well-formed states) of Merge and Truncate outputs.
-/
import ZenoModel.Lemmas.SeqUpdate
set_option linter.unusedSimpArgs false
namespace Zeno

theorem cellsWF_take {e : Ex} {cs : List (List Cell)} (h : CellsWF e cs) (n : Nat) : CellsWF e (cs.take n) :=
  fun c hc => h c (List.mem_of_mem_take hc)

theorem cellsWF_drop {e : Ex} {cs : List (List Cell)} (h : CellsWF e cs) (n : Nat) : CellsWF e (cs.drop n) :=
  fun c hc => h c (List.mem_of_mem_drop hc)

theorem cellsWF_nil (e : Ex) : CellsWF e [] := fun _ hc => by simp at hc

theorem cellsWF_mergeCells {e : Ex} (hv : e.valid = true) (hp : e.noPtile = true) :
    ∀ (n : Nat) {as bs : List (List Cell)}, CellsWF e as → CellsWF e bs → CellsWF e (mergeCells e n as bs) := by
  intro n
  induction n with
  | zero => intro as bs _ _; simp [mergeCells]; exact cellsWF_nil e
  | succ n ih =>
    intro as bs ha hb
    cases as with
    | nil =>
      cases bs with
      | nil => simp [mergeCells]; exact cellsWF_nil e
      | cons b bs =>
        simp only [mergeCells]
        intro c hc
        rw [List.mem_cons] at hc
        cases hc with
        | inl h1 => rw [h1]; exact mrg_wf hv hp (wf_empty e) (hb b (by simp))
        | inr h2 => exact ih (cellsWF_nil e) (fun c hc => hb c (by simp [hc])) c h2
    | cons a as =>
      cases bs with
      | nil =>
        simp only [mergeCells]
        intro c hc
        rw [List.mem_cons] at hc
        cases hc with
        | inl h1 => rw [h1]; exact mrg_wf hv hp (ha a (by simp)) (wf_empty e)
        | inr h2 => exact ih (fun c hc => ha c (by simp [hc])) (cellsWF_nil e) c h2
      | cons b bs =>
        simp only [mergeCells]
        intro c hc
        rw [List.mem_cons] at hc
        cases hc with
        | inl h1 => rw [h1]; exact mrg_wf hv hp (ha a (by simp)) (hb b (by simp))
        | inr h2 => exact ih (fun c hc => ha c (by simp [hc])) (fun c hc => hb c (by simp [hc])) c h2

theorem cellsWF_mergeIdx {e : Ex} (hv : e.valid = true) (hp : e.noPtile = true)
    {ca cb : List (List Cell)} (ha : CellsWF e ca) (hb : CellsWF e cb) (off : Nat) :
    CellsWF e (mergeIdx e ca cb off) := by
  unfold mergeIdx
  simp only
  apply cellsWF_fit
  apply cellsWF_append
  · apply cellsWF_append
    · exact cellsWF_take ha _
    · split
      · exact cellsWF_mergeCells hv hp _ (cellsWF_drop ha _) hb
      · split
        · exact cellsWF_replicate e _
        · exact cellsWF_nil e
  · split
    · split
      · exact cellsWF_drop (cellsWF_drop ha _) _
      · exact cellsWF_drop ha _
    · split
      · split
        · exact cellsWF_drop hb _
        · exact hb
      · exact cellsWF_nil e

theorem length_mergeIdx (e : Ex) (ca cb : List (List Cell)) (off : Nat) :
    (mergeIdx e ca cb off).length = max ca.length (off + cb.length) := by
  unfold mergeIdx fit
  simp only [List.length_append, List.length_take, List.length_replicate]
  omega

/-- `Merge` of two well-formed sequences on the absolute grid is again one -/
theorem merge_inv {e : Ex} (hv : e.valid = true) (hp : e.noPtile = true) {res : Int} (h : 0 < res)
    (a b : Sq) (ha : SqOk res a) (hb : SqOk res b) (wa : SqWF e a) (wb : SqWF e b) (tb : Int) :
    SqOk res (Sq.merge e res a b tb) ∧ SqWF e (Sq.merge e res a b tb) := by
  cases a with
  | none => cases b <;> simp [Sq.merge] <;> exact ⟨hb, wb⟩
  | some a =>
    cases b with
    | none => simp [Sq.merge]; exact ⟨ha, wa⟩
    | some b =>
      -- order the operands
      have key : ∀ (a b : Seq), SeqOk res a → SeqOk res b → CellsWF e a.cells → CellsWF e b.cells → b.hi ≤ a.hi →
          SqOk res (if b.hi < roundUntilUp tb res a.hi then some a else some (mergeMain e res a b)) ∧
          SqWF e (if b.hi < roundUntilUp tb res a.hi then some a else some (mergeMain e res a b)) := by
        intro a b ha hb wa wb hle
        split
        · exact ⟨ha, wa⟩
        · obtain ⟨aal, abd, apos⟩ := ha
          obtain ⟨bal, bbd, bpos⟩ := hb
          have hm : (a.hi - b.hi) % res = 0 := by rw [Int.sub_emod, aal, bal]; simp
          have hx : a.hi - b.hi = res * ((a.hi - b.hi) / res) := by
            have := Int.mul_ediv_add_emod (a.hi - b.hi) res; omega
          have hq : 0 ≤ (a.hi - b.hi) / res := Int.ediv_nonneg (by omega) (Int.le_of_lt h)
          generalize hoff : ((a.hi - b.hi) / res).toNat = off
          have hoffI : ((a.hi - b.hi) / res) = (off : Int) := by omega
          have hbhi : b.hi = a.hi - (off : Int) * res := by
            rw [hoffI] at hx; rw [Int.mul_comm]; omega
          cases a with
          | mk sA ca =>
          cases b with
          | mk sB cb =>
          simp only at hbhi wa wb aal abd apos bal bbd bpos
          subst hbhi
          rw [mergeMain_eq e h]
          constructor
          · refine ⟨aal, ?_, apos⟩
            simp only
            rw [length_mergeIdx]
            have h2 : ((off + cb.length : Nat) : Int) * res = (off : Int) * res + (cb.length : Int) * res := by
              rw [Int.natCast_add, Int.add_mul]
            by_cases hmx : ca.length ≤ off + cb.length
            · rw [Nat.max_eq_right hmx, h2]; omega
            · rw [Nat.max_eq_left (by omega)]; exact abd
          · exact cellsWF_mergeIdx hv hp wa wb off
      unfold Sq.merge
      simp only
      by_cases hsw : b.hi > a.hi
      · simp only [hsw, if_true]
        exact key b a hb ha wb wa (by omega)
      · simp only [hsw, if_false]
        exact key a b ha hb wa wb (by omega)

/-- `Truncate` with only an asOf bound keeps a well-formed sequence well-formed -/
theorem truncate_inv {e : Ex} {res : Int} (h : 0 < res) (s : Sq) (hs : SqOk res s) (ws : SqWF e s) (asOf : Int) :
    SqOk res (Sq.truncate s res asOf 0) ∧ SqWF e (Sq.truncate s res asOf 0) := by
  cases s with
  | none => exact ⟨trivial, trivial⟩
  | some q =>
    rw [truncate_eq]
    have hu : truncUntil q res (roundUntilDown 0 res q.hi) = some q := by
      simp [truncUntil, roundUntilDown]
    rw [hu]
    simp only
    unfold truncAsOf
    split
    · simp only
      split
      · exact ⟨trivial, trivial⟩
      · split
        · exact ⟨hs, ws⟩
        · obtain ⟨hal, hbd, hpos⟩ := hs
          constructor
          · refine ⟨hal, ?_, hpos⟩
            simp only [List.length_take]
            have : ((min ((q.hi - roundUntilDown asOf res q.hi).tdiv res).toNat q.cells.length : Nat) : Int)
                ≤ (q.cells.length : Int) := by omega
            have := Int.mul_le_mul_of_nonneg_right this (Int.le_of_lt h)
            omega
          · exact cellsWF_take ws _
    · exact ⟨hs, ws⟩

end Zeno
