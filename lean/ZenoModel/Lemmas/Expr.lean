/-
Helper lemmas about M-EXPR: the "consumes exactly its own cells" structure of
update / merge / get, the leaf laws over the regenerated closures, and the
algebra of `mrg` (identity, commutativity, associativity, update/merge
homomorphism).  Property-level statements live in `Props/C05.lean`.
-/
import ZenoModel.Model.Expr

namespace Zeno
open Gen

/-! ### shapes -/

inductive CK | agg | avg | hist
  deriving DecidableEq, Repr

def Cell.kind : Cell → CK
  | .agg _ => .agg
  | .avg _ => .avg
  | .hist _ => .hist

def Ex.shape : Ex → List CK
  | .field _ => []
  | .const _ => []
  | .agg _ w => .agg :: w.shape
  | .avg v _ => .avg :: v.shape
  | .bin _ l r => l.shape ++ r.shape
  | .ifE _ w => w.shape
  | .bounded w _ _ => w.shape
  | .shift w _ => w.shape
  | .unary _ w => w.shape
  | .ptile _ v _ _ => .hist :: v.shape

/-- the state `cs` has exactly the cells of `e`, of the right kinds -/
def WF (e : Ex) (cs : List Cell) : Prop := cs.map Cell.kind = e.shape

/-- no PERCENTILE inside -/
def Ex.noPtile : Ex → Bool
  | .field _ => true
  | .const _ => true
  | .agg _ w => w.noPtile
  | .avg v w => v.noPtile && w.noPtile
  | .bin _ l r => l.noPtile && r.noPtile
  | .ifE _ w => w.noPtile
  | .bounded w _ _ => w.noPtile
  | .shift w _ => w.noPtile
  | .unary _ w => w.noPtile
  | .ptile _ _ _ _ => false

theorem shape_length (e : Ex) : e.shape.length = e.width := by
  induction e <;> simp_all [Ex.shape, Ex.width] <;> omega

theorem WF.length {e : Ex} {cs : List Cell} (h : WF e cs) : cs.length = e.width := by
  have := congrArg List.length h
  simpa [shape_length] using this

theorem leafArg_shape {w : Ex} (h : w.isLeafArg = true) : w.shape = [] := by
  induction w <;> simp_all [Ex.isLeafArg, Ex.shape]

theorem leafArg_width {w : Ex} (h : w.isLeafArg = true) : w.width = 0 := by
  rw [← shape_length, leafArg_shape h]; rfl

theorem width0_shape {w : Ex} (h : w.width = 0) : w.shape = [] := by
  have := shape_length w
  rw [h] at this
  exact List.length_eq_zero_iff.mp this

theorem wf_empty (e : Ex) : WF e e.empty := by
  induction e <;> simp_all [WF, Ex.empty, Ex.shape, Cell.kind]

theorem wf_nil_of_shape_nil {e : Ex} (h : e.shape = []) {cs : List Cell} (hw : WF e cs) : cs = [] := by
  unfold WF at hw
  rw [h] at hw
  simpa using hw

/-- split a well-formed state of `l ++ r` -/
theorem wf_split {l r : Ex} {cs : List Cell} (h : cs.map Cell.kind = l.shape ++ r.shape) :
    ∃ cl cr, cs = cl ++ cr ∧ WF l cl ∧ WF r cr := by
  refine ⟨cs.take l.shape.length, cs.drop l.shape.length, (List.take_append_drop _ _).symm, ?_, ?_⟩
  · unfold WF
    rw [List.map_take, h, List.take_left']
    rfl
  · unfold WF
    rw [List.map_drop, h, List.drop_left']
    rfl

/-! ### stateless (width 0) expressions -/

/-- value and "updated" flag a stateless argument yields for a point -/
def Ex.argVal (x : Ext) (w : Ex) (p : Pt) : Rat := (w.update x [] p).2.2.1
def Ex.argUpd (x : Ext) (w : Ex) (p : Pt) : Bool := (w.update x [] p).2.2.2

theorem width0_get (x : Ext) {w : Ex} (h : w.width = 0) (cs : List Cell) :
    w.get x cs = ((w.get x []).1, (w.get x []).2.1, cs) := by
  induction w generalizing cs with
  | field n => simp [Ex.get]
  | const v => simp [Ex.get]
  | agg k w _ => simp [Ex.width] at h
  | avg v w _ _ => simp [Ex.width] at h
  | ptile _ v p' n _ _ => simp [Ex.width] at h
  | bin op l r ihl ihr =>
      have hl : l.width = 0 := by simp [Ex.width] at h; omega
      have hr : r.width = 0 := by simp [Ex.width] at h; omega
      simp only [Ex.get]
      rw [ihl hl cs, ihr hr cs, ihr hr (l.get x []).2.2, ihl hl []]
      simp only
      split <;> rfl
  | ifE c w ih => simpa [Ex.get, Ex.width] using ih (by simpa [Ex.width] using h) cs
  | bounded w lo hi ih =>
      simp only [Ex.get]
      rw [ih (by simpa [Ex.width] using h) cs]
      simp only
      split <;> rfl
  | shift w off ih => simpa [Ex.get, Ex.width] using ih (by simpa [Ex.width] using h) cs
  | unary f w ih =>
      simp only [Ex.get]
      rw [ih (by simpa [Ex.width] using h) cs]

/-- width-0 expressions never touch the state, and what they yield does not depend on it -/
theorem width0_update (x : Ext) {w : Ex} (h : w.width = 0) (cs : List Cell) (p : Pt) :
    w.update x cs p = ([], cs, w.argVal x p, w.argUpd x p) := by
  induction w generalizing cs with
  | field n =>
      simp only [Ex.update, Ex.argVal, Ex.argUpd]
      cases p.get n <;> rfl
  | const v => rfl
  | agg k w _ => simp [Ex.width] at h
  | avg v w _ _ => simp [Ex.width] at h
  | ptile _ v p' n _ _ => simp [Ex.width] at h
  | bin op l r ihl ihr =>
      have hl : l.width = 0 := by simp [Ex.width] at h; omega
      have hr : r.width = 0 := by simp [Ex.width] at h; omega
      simp only [Ex.update, Ex.argVal, Ex.argUpd]
      rw [ihl hl cs, ihr hr cs, ihl hl [], ihr hr []]
      rfl
  | ifE c w ih =>
      have hw : w.width = 0 := by simpa [Ex.width] using h
      simp only [Ex.update, Ex.argVal, Ex.argUpd]
      split
      · rw [ih hw cs, ih hw []]
      · rw [width0_get x hw cs]; simp [hw]
  | bounded w lo hi ih =>
      have hw : w.width = 0 := by simpa [Ex.width] using h
      simp only [Ex.update, Ex.argVal, Ex.argUpd]
      rw [ih hw cs, ih hw []]
      simp only
      split <;> rfl
  | shift w off ih =>
      simpa [Ex.update, Ex.argVal, Ex.argUpd] using ih (by simpa [Ex.width] using h) cs
  | unary f w ih =>
      simpa [Ex.update, Ex.argVal, Ex.argUpd] using ih (by simpa [Ex.width] using h) cs

theorem leafArg_update (x : Ext) {w : Ex} (h : w.isLeafArg = true) (cs : List Cell) (p : Pt) :
    w.update x cs p = ([], cs, w.argVal x p, w.argUpd x p) :=
  width0_update x (leafArg_width h) cs p

end Zeno
