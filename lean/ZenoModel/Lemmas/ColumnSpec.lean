/-
Characterisation of the column spec: which rows a period accumulates; flushes are invisible
to the spec.
-/
import ZenoModel.Lemmas.Column
set_option linter.unusedSimpArgs false
namespace Zeno

/-- the rows (in arrival order) that the spec accumulates into period `T`: rows of accepted
    points whose timestamp rounds UP to `T` -/
def rowsFor (cfg : ColCfg) (T : Int) : Int → List ColOp → List Pt
  | _, [] => []
  | now, .ingest ts pt :: r =>
      if accepted cfg now ts then
        (if roundUp ts cfg.res = T then [pt] else []) ++ rowsFor cfg T (max now ts) r
      else rowsFor cfg T now r
  | now, .tick ts :: r => rowsFor cfg T (if accepted cfg now ts then max now ts else now) r
  | now, .late _ :: r => rowsFor cfg T now r
  | now, .flush _ :: r => rowsFor cfg T now r

theorem spec_foldl_cells (x : Ext) (cfg : ColCfg) (T : Int) (ops : List ColOp) :
    ∀ s : ColSpec, (ops.foldl (ColSpec.step x cfg) s).cells T =
      (rowsFor cfg T s.now ops).foldl (cfg.e.upd x) (s.cells T) := by
  induction ops with
  | nil => intro s; rfl
  | cons op r ih =>
    intro s
    simp only [List.foldl_cons]
    rw [ih]
    cases op with
    | ingest ts pt =>
      simp only [ColSpec.step, rowsFor]
      split
      · simp only
        split
        · rename_i hP
          simp [hP]
        · rename_i hP
          have : ¬ roundUp ts cfg.res = T := fun h => hP h.symm
          simp [this]
      · rfl
    | tick ts =>
      simp only [ColSpec.step, rowsFor]
      split <;> rfl
    | late ts => rfl
    | flush raw => rfl

/-- the spec's state of period `T` is the accumulation, from the empty state, of exactly the
    rows of accepted points whose timestamp rounds up to `T`, each once, in arrival order -/
theorem spec_cells_eq_acc (x : Ext) (cfg : ColCfg) (ops : List ColOp) (T : Int) :
    (ColSpec.run x cfg ops).cells T = cfg.e.acc x (rowsFor cfg T 0 ops) := by
  unfold ColSpec.run
  rw [spec_foldl_cells]
  rfl

/-- dropping the flush steps of a script -/
def noFlush : List ColOp → List ColOp
  | [] => []
  | .flush _ :: r => noFlush r
  | op :: r => op :: noFlush r

theorem spec_ignores_flush (x : Ext) (cfg : ColCfg) (ops : List ColOp) :
    ∀ s : ColSpec, ops.foldl (ColSpec.step x cfg) s = (noFlush ops).foldl (ColSpec.step x cfg) s := by
  induction ops with
  | nil => intro s; rfl
  | cons op r ih =>
    intro s
    cases op with
    | flush raw => simp only [List.foldl_cons, noFlush, ColSpec.step]; exact ih s
    | ingest ts pt => simp only [List.foldl_cons, noFlush]; exact ih _
    | tick ts => simp only [List.foldl_cons, noFlush]; exact ih _
    | late ts => simp only [List.foldl_cons, noFlush]; exact ih _

theorem opsPos_noFlush : ∀ {ops : List ColOp}, OpsPos ops → OpsPos (noFlush ops)
  | [], _ => trivial
  | .flush _ :: r, h => opsPos_noFlush (ops := r) h
  | .ingest _ _ :: r, h => ⟨h.1, opsPos_noFlush (ops := r) h.2⟩
  | .tick _ :: r, h => ⟨h.1, opsPos_noFlush (ops := r) h.2⟩
  | .late _ :: r, h => opsPos_noFlush (ops := r) h

theorem opsPos_append_flush (raw : Bool) : ∀ {ops : List ColOp}, OpsPos ops → OpsPos (ops ++ [.flush raw])
  | [], _ => trivial
  | .flush _ :: r, h => opsPos_append_flush raw (ops := r) h
  | .ingest _ _ :: r, h => ⟨h.1, opsPos_append_flush raw (ops := r) h.2⟩
  | .tick _ :: r, h => ⟨h.1, opsPos_append_flush raw (ops := r) h.2⟩
  | .late _ :: r, h => opsPos_append_flush raw (ops := r) h

theorem noFlush_append_flush (raw : Bool) : ∀ (ops : List ColOp), noFlush (ops ++ [.flush raw]) = noFlush ops
  | [] => rfl
  | .flush _ :: r => noFlush_append_flush raw r
  | .ingest _ _ :: r => by simp [noFlush, noFlush_append_flush raw r]
  | .tick _ :: r => by simp [noFlush, noFlush_append_flush raw r]
  | .late _ :: r => by simp [noFlush, noFlush_append_flush raw r]

end Zeno
