/-
Per-event preservation of the replication invariant, part 3: join and route (the leader).
-/
import ZenoModel.Lemmas.ReplSteps2

set_option linter.unusedVariables false
set_option linter.unusedSimpArgs false

namespace Zeno.Repl

set_option maxHeartbeats 4000000 in
theorem inv_join {cx : Ctx} {s s' : State} (hi : Inv cx s) (l : LId) (f : FId) (claim : TId → Nat)
    (h : step cx s (.join l f claim) = some s') : Inv cx s' := by
  simp only [step] at h
  split at h
  · simp only [Option.some.injEq] at h
    subst h
    rename_i hguard
    inv_fields hi
    have hmin := fun (spec : TId → FId → Option Nat) (joined : List FId) (t : TId) (f' : FId) (sp : Nat)
      (hf : f' ∈ joined) (ht : t ∈ cx.tables) (h : spec t f' = some sp) =>
        minList_le (mem_specList (cx := cx) hf ht h)
    constructor
    all_goals (intros; try grind [List.Pairwise.nil, inflightFrom, Nat.le_max_left, Nat.le_max_right])
    case specLink =>
      rename_i l1 f1 t hl ht
      simp only [] at hl ⊢
      by_cases hc : l1 = l ∧ f1 = f
      · obtain ⟨rfl, rfl⟩ := hc
        exact ⟨max (claim t) (s.reqEarliest l1 f1), by simp [ht]⟩
      · have hl' : s.linkUp l1 f1 = true := by simpa [hc] using hl
        obtain ⟨sp, hsp⟩ := hi.specLink l1 f1 t hl' ht
        refine ⟨sp, ?_⟩
        have : ¬ (l1 = l ∧ f1 = f ∧ t ∈ cx.tables) := fun h => hc ⟨h.1, h.2.1⟩
        simp only [this, if_false]
        exact hsp
    case cursorLeDone =>
      rename_i l1 t f1 sp hs
      simp only [] at hs ⊢
      by_cases hl : l1 = l
      · subst hl
        simp only [true_and, if_true] at hs ⊢
        -- the new cursor is the minimum of all spec offsets of this leader
        have hmem : f1 ∈ (if f ∈ s.joined l1 then s.joined l1 else f :: s.joined l1) ∧ t ∈ cx.tables := by
          by_cases hc : f1 = f ∧ t ∈ cx.tables
          · obtain ⟨rfl, ht⟩ := hc
            refine ⟨?_, ht⟩
            split <;> simp_all
          · simp only [hc, if_false] at hs
            have := hi.specJoined l1 t f1 sp hs
            refine ⟨?_, this.2⟩
            split
            · exact this.1
            · exact List.mem_cons_of_mem _ this.1
        have hle := hmin (fun t f' => if f' = f ∧ t ∈ cx.tables then some (max (claim t) (s.reqEarliest l1 f)) else s.spec l1 t f')
          _ t f1 sp hmem.1 hmem.2 hs
        refine Nat.le_trans hle ?_
        by_cases hc : f1 = f ∧ t ∈ cx.tables
        · simp only [hc, and_self, if_true] at hs ⊢
          simp only [Option.some.injEq] at hs
          omega
        · simp only [hc, if_false] at hs ⊢
          exact hi.specLeDone l1 t f1 sp hs
      · simp only [hl, false_and, if_false] at hs ⊢
        exact hi.cursorLeDone l1 t f1 sp hs
    case linkCover =>
      rename_i l1 f1 t sp hl hs e he hw hp hle
      simp only [] at hl hs hp he ⊢
      by_cases hc : l1 = l ∧ f1 = f
      · obtain ⟨rfl, rfl⟩ := hc
        simp only [and_self, if_true, true_and] at hl hs
        have ht : t ∈ cx.tables := by
          by_cases ht : t ∈ cx.tables
          · exact ht
          · simp only [ht, if_false] at hs
            exact (hi.specJoined l1 t f1 sp hs).2
        simp only [ht, if_true, Option.some.injEq] at hs
        have h1 := ((hguard.2.2.2 hl).2 t ht).2
        have h2 := hi.reqLe l1 f1 t hguard.2.1 hl ht
        omega
      · have hl' : s.linkUp l1 f1 = true := by simpa [hc] using hl
        have hn : ¬ (l1 = l ∧ f1 = f ∧ t ∈ cx.tables) := fun h => hc ⟨h.1, h.2.1⟩
        simp only [hn, if_false] at hs
        simp only [hc, if_false]
        exact hi.linkCover l1 f1 t sp hl' hs e he hw hp hle
  · cases h

set_option maxHeartbeats 4000000 in
theorem inv_route {cx : Ctx} {s s' : State} (hi : Inv cx s) (l : LId) (o : Nat)
    (h : step cx s (.route l o) = some s') : Inv cx s' := by
  simp only [step] at h
  split at h
  · rename_i e hnext
    split at h
    · simp only [Option.some.injEq] at h
      subst h
      rename_i hguard
      have hem := nextEntry_mem hnext
      have hfirst := nextEntry_first (hi.walSorted l) hnext
      have hinj := fun (a b : Entry) (ha : a ∈ s.wal l) (hb : b ∈ s.wal l) (hab : a.off = b.off) =>
        off_inj (hi.walSorted l) ha hb hab
      have hetop := le_top hem.1
      have hcp := fun (f : FId) (t : TId) (sp : Nat) (ht : t ∈ cx.tables) (hsp : s.spec l t f = some sp)
        (hw : wants cx t (cx.part f) e.pt = true) (hlt : sp < e.off) =>
          copies_pos (cx := cx) (spec := s.spec l) (e := e) ht hsp hw hlt
      have hcpi := fun (f : FId) (hpos : 0 < copies cx (s.spec l) e f) => copies_pos_inv hpos
      have hwp := fun (t : TId) (p pt : Nat) (hw : wants cx t p pt = true) => wants_pid hw
      inv_fields hi
      constructor
      all_goals (intros; try grind [List.Pairwise.nil, advance])
      case specJoined =>
        rename_i l1 t f1 sp hs
        simp only [] at hs ⊢
        by_cases hl : l1 = l
        · subst hl
          simp only [if_true] at hs
          obtain ⟨sp0, h0, _⟩ := advance_some hs
          exact hi.specJoined _ _ _ _ h0
        · simp only [hl, if_false] at hs
          exact hi.specJoined _ _ _ _ hs
      case specLeDone =>
        rename_i l1 t f1 sp hs
        simp only [] at hs ⊢
        by_cases hl : l1 = l
        · subst hl
          simp only [if_true] at hs ⊢
          obtain ⟨sp0, h0, h1⟩ := advance_some hs
          have := hi.specLeDone _ _ _ _ h0
          split at h1 <;> omega
        · simp only [hl, if_false] at hs ⊢
          exact hi.specLeDone _ _ _ _ hs
      case gap =>
        rename_i l1 t f1 sp hs e' he' hlt hle
        simp only [] at hs he' hle ⊢
        by_cases hl : l1 = l
        · subst hl
          simp only [if_true] at hs hle
          obtain ⟨sp0, h0, h1⟩ := advance_some hs
          have hgap := hi.gap _ _ _ _ h0 e' he'
          have hcd := hi.cursorLeDone _ _ _ _ h0
          have hsd := hi.specLeDone _ _ _ _ h0
          by_cases hd : e'.off ≤ s.done l1 t f1
          · apply hgap _ hd
            split at h1 <;> omega
          · -- e' lies beyond what had been considered: it is the entry routed now
            have h2 : e.off ≤ e'.off := hfirst e' he' (by omega)
            have h3 : e'.off = e.off := by omega
            have h4 : e' = e := hinj e' e he' hem.1 h3
            subst h4
            intro hp
            simp only [hp, if_true] at h1
            omega
        · simp only [hl, if_false] at hs hle
          exact hi.gap _ _ _ _ hs e' he' hlt hle
      case queueDone =>
        rename_i l1 t f1 sp hs o' ho'
        simp only [] at hs ho' ⊢
        by_cases hl : l1 = l
        · subst hl
          simp only [if_true, true_and] at hs ho' ⊢
          obtain ⟨sp0, h0, h1⟩ := advance_some hs
          split at ho'
          · rcases List.mem_append.mp ho' with h' | h'
            · have := hi.queueDone _ _ _ _ h0 o' h'
              omega
            · have := (List.mem_replicate.mp h').2
              omega
          · have := hi.queueDone _ _ _ _ h0 o' ho'
            omega
        · simp only [hl, if_false, false_and] at hs ho' ⊢
          exact hi.queueDone _ _ _ _ hs o' ho'
      case linkCover =>
        rename_i l1 f1 t sp hlk hs e' he' hw hp hle
        simp only [] at hlk hs he' hp ⊢
        by_cases hl : l1 = l
        · subst hl
          simp only [if_true, true_and, hlk] at hs ⊢
          obtain ⟨sp0, h0, h1⟩ := advance_some hs
          by_cases hold : e'.off ≤ sp0
          · rcases hi.linkCover _ _ _ _ hlk h0 e' he' hw hp hold with hq | hin
            · exact Or.inl (List.mem_append_left _ hq)
            · exact Or.inr hin
          · -- beyond the old spec offset: only the entry routed now qualifies
            have hpid := wants_pid hw
            have hsd := hi.specLeDone _ _ _ _ h0
            have hcd := hi.cursorLeDone _ _ _ _ h0
            have hnd : ¬ e'.off ≤ s.done l1 t f1 := fun hd =>
              hi.gap _ _ _ _ h0 e' he' (by omega) hd hpid
            have h2 : e.off ≤ e'.off := hfirst e' he' (by omega)
            have h3 : e'.off = e.off := by split at h1 <;> omega
            have h4 : e' = e := hinj e' e he' hem.1 h3
            subst h4
            left
            apply List.mem_append_right
            rw [List.mem_replicate]
            refine ⟨?_, rfl⟩
            have := hcp f1 t sp0 (hi.specJoined _ _ _ _ h0).2 h0 hw (by omega)
            omega
        · simp only [hl, if_false, false_and] at hs ⊢
          exact hi.linkCover _ _ _ _ hlk hs e' he' hw hp hle
    · cases h
  · cases h

end Zeno.Repl
