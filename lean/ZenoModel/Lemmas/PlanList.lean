/-
List-level helper lemmas for C11 (core Lean only): `dedup`, splitting a list by a key,
permutation invariance of `Ex.acc`, folding `Ex.mrg` over partial states.
-/
import ZenoModel.Model.Plan
import ZenoModel.Lemmas.ExprLaws

namespace Zeno.PlanLemmas
open Zeno Zeno.Plan

/-! ### dedup -/

theorem mem_dedup {α : Type} [DecidableEq α] (a : α) (l : List α) : a ∈ dedup l ↔ a ∈ l := by
  induction l with
  | nil => simp [dedup]
  | cons b l ih =>
    simp only [dedup, List.mem_cons, List.mem_filter, ih]
    constructor
    · rintro (h | ⟨h, _⟩)
      · exact Or.inl h
      · exact Or.inr h
    · rintro (h | h)
      · exact Or.inl h
      · by_cases hab : a = b
        · exact Or.inl hab
        · exact Or.inr ⟨h, by simpa using hab⟩

theorem nodup_dedup {α : Type} [DecidableEq α] (l : List α) : (dedup l).Nodup := by
  induction l with
  | nil => simp [dedup]
  | cons b l ih =>
    simp only [dedup]
    refine List.nodup_cons.mpr ⟨?_, List.Pairwise.filter _ ih⟩
    simp [List.mem_filter]

theorem dedup_append_disjoint {α : Type} [DecidableEq α] (l₁ l₂ : List α)
    (h : ∀ a ∈ l₁, a ∉ l₂) : dedup (l₁ ++ l₂) = dedup l₁ ++ dedup l₂ := by
  induction l₁ with
  | nil => simp [dedup]
  | cons a l ih =>
    have ha : a ∉ l₂ := h a (by simp)
    have ih' := ih (fun b hb => h b (by simp [hb]))
    simp only [List.cons_append, dedup, ih', List.filter_append]
    congr 2
    apply List.filter_eq_self.mpr
    intro b hb
    have hb' : b ∈ l₂ := (mem_dedup b l₂).mp hb
    have : b ≠ a := fun e => ha (e ▸ hb')
    simpa using this

/-! ### filtering by disjoint predicates -/

theorem filter_or_perm {α : Type} (p q : α → Bool) (l : List α)
    (hd : ∀ a ∈ l, ¬ (p a = true ∧ q a = true)) :
    (l.filter p ++ l.filter q).Perm (l.filter (fun a => p a || q a)) := by
  induction l with
  | nil => simp
  | cons a l ih =>
    have ih' := ih (fun b hb => hd b (by simp [hb]))
    have ha := hd a (by simp)
    cases hp : p a <;> cases hq : q a
    · simpa [List.filter, hp, hq] using ih'
    · simp only [List.filter, hp, hq, Bool.false_or]
      exact List.perm_middle.trans (List.Perm.cons a ih')
    · simp only [List.filter, hp, hq, Bool.or_false, List.cons_append]
      exact List.Perm.cons a ih'
    · exact absurd ⟨hp, hq⟩ ha

/-- splitting a list by the values of a key function: the rows of the listed (distinct) key
    values, class by class, are a permutation of the rows whose key is listed -/
theorem flatMap_filter_perm {α β : Type} [BEq β] [LawfulBEq β] (f : α → β) (ids : List β)
    (hn : ids.Nodup) (l : List α) :
    (ids.flatMap (fun i => l.filter (fun a => f a == i))).Perm
      (l.filter (fun a => ids.contains (f a))) := by
  induction ids with
  | nil => simp
  | cons i is ih =>
    have hi : i ∉ is := (List.nodup_cons.mp hn).1
    have ih' := ih (List.nodup_cons.mp hn).2
    simp only [List.flatMap_cons]
    refine (List.Perm.append (List.Perm.refl _) ih').trans ?_
    refine (filter_or_perm _ _ l ?_).trans ?_
    · intro a _ ⟨h1, h2⟩
      have e : f a = i := by simpa using h1
      have : f a ∈ is := by simpa using h2
      exact hi (e ▸ this)
    · apply List.Perm.of_eq
      apply List.filter_congr
      intro a _
      by_cases h1 : f a = i <;> simp [h1]

theorem flatMap_perm_congr {α β : Type} (l : List α) (f g : α → List β)
    (h : ∀ a ∈ l, (f a).Perm (g a)) : (l.flatMap f).Perm (l.flatMap g) := by
  induction l with
  | nil => simp
  | cons a l ih =>
    simp only [List.flatMap_cons]
    exact List.Perm.append (h a (by simp)) (ih (fun b hb => h b (by simp [hb])))

/-! ### `Ex.acc` is a permutation-invariant monoid homomorphism -/

variable (x : Ext)

theorem acc_append {e : Ex} (hv : e.valid = true) (hp : e.noPtile = true) (ps₁ ps₂ : List Pt) :
    e.mrg (e.acc x ps₁) (e.acc x ps₂) = e.acc x (ps₁ ++ ps₂) := by
  have h1 := mrg_foldl x hv hp ps₂ (acc_wf x hv hp ps₁) (wf_empty e)
  rw [mrg_empty_right hv hp (acc_wf x hv hp ps₁)] at h1
  simpa [Ex.acc, List.foldl_append] using h1

theorem acc_perm {e : Ex} (hv : e.valid = true) (hp : e.noPtile = true) {ps₁ ps₂ : List Pt}
    (h : ps₁.Perm ps₂) : e.acc x ps₁ = e.acc x ps₂ := by
  induction h with
  | nil => rfl
  | @cons p l₁ l₂ _ ih =>
    have a1 := acc_append x hv hp [p] l₁
    have a2 := acc_append x hv hp [p] l₂
    simp only [List.singleton_append] at a1 a2
    rw [← a1, ← a2, ih]
  | swap p q l =>
    have a1 := acc_append x hv hp [q, p] l
    have a2 := acc_append x hv hp [p, q] l
    have s1 := acc_append x hv hp [q] [p]
    have s2 := acc_append x hv hp [p] [q]
    simp only [List.cons_append, List.nil_append] at a1 a2 s1 s2
    rw [← a1, ← a2, ← s1, ← s2,
      mrg_comm hv hp (acc_wf x hv hp [q]) (acc_wf x hv hp [p])]
  | trans _ _ ih₁ ih₂ => exact ih₁.trans ih₂

/-- merging the states of several batches, one after the other starting from the empty
    state (what bytetree.Update does on the leader), is the state of all points together -/
theorem foldl_mrg_acc {e : Ex} (hv : e.valid = true) (hp : e.noPtile = true)
    (pss : List (List Pt)) (ps₀ : List Pt) :
    (pss.map (fun ps => e.acc x ps)).foldl e.mrg (e.acc x ps₀) = e.acc x (ps₀ ++ pss.flatten) := by
  induction pss generalizing ps₀ with
  | nil => simp
  | cons ps pss ih =>
    simp only [List.map_cons, List.foldl_cons, List.flatten_cons]
    rw [acc_append x hv hp, ih, List.append_assoc]

theorem foldl_mrg_acc_empty {e : Ex} (hv : e.valid = true) (hp : e.noPtile = true)
    (pss : List (List Pt)) :
    (pss.map (fun ps => e.acc x ps)).foldl e.mrg e.empty = e.acc x pss.flatten := by
  have := foldl_mrg_acc x hv hp pss []
  simpa [Ex.acc] using this

end Zeno.PlanLemmas
