/-
Derived selected expressions, part 16 (stage 2): one scan row, then all member rows — the leaf-wise
semantic theorem for the cell of a derived output field.
-/
import ZenoModel.Lemmas.DerivedLeaf
set_option linter.unusedSimpArgs false
set_option linter.unusedVariables false
namespace Zeno

/-- one scan row: the column sources merged over the periods `ts` = the assembled row state merged
    period by period -/
theorem mergeAllOnto_row {e : Ex} (hv : e.valid = true) (hp : e.noPtile = true) (hs : e.shiftFree = true)
    {subs : List Ex} {otherRes : Int} {rcols : List Sq} (hc : RowColsOk subs otherRes rcols) (p : Pt)
    (ts : List Int) (a : List Cell) (ha : WF e a) :
    mergeAllOnto e otherRes (rowSrcs e subs p rcols) ts a =
      ts.foldl (fun a t => e.mrg a (rowState e subs p rcols otherRes t)) a := by
  unfold rowSrcs
  rw [mergeAllOnto_cols hv hp hs hc p ts _ (fun j hj => List.mem_range.mp hj) a ha,
    foldl_mrg_exchange hv hp (fun j t => colImage e subs j p (colAt subs rcols otherRes t j))
      (fun j t => colImage_colAt_wf e hc p j t) _ ts a ha]
  apply foldl_congr_wf (e := e)
  · intro a t ha
    exact foldl_mrg_wf hv hp _ (fun j => colImage_colAt_wf e hc p j t) _ a ha
  · exact ha
  · intro a ha t _
    exact asmSum_all subs p (colAt subs rcols otherRes t) (colAt_wf hc t) e hv hp a ha

/-- the leaf-wise merge over the member rows `l` and the periods `ts` -/
def leafwise (e : Ex) (subs : List Ex) (metas : List KeyMeta) (otherRes : Int) (l : List Row) (ts : List Int)
    (a : List Cell) : List Cell :=
  l.foldl (fun a r => ts.foldl (fun a t => e.mrg a (rowState e subs (rowPt metas r) r.cols otherRes t)) a) a

theorem rowState_wf (e : Ex) {subs : List Ex} {otherRes : Int} {rcols : List Sq} (hc : RowColsOk subs otherRes rcols)
    (p : Pt) (t : Int) : WF e (rowState e subs p rcols otherRes t) :=
  assemble_wf subs p _ (colAt_wf hc t) e

theorem mergeAllOnto_rows {e : Ex} (hv : e.valid = true) (hp : e.noPtile = true) (hs : e.shiftFree = true)
    {subs : List Ex} {otherRes : Int} (metas : List KeyMeta) (ts : List Int) :
    ∀ (l : List Row), (∀ r ∈ l, RowColsOk subs otherRes r.cols) → ∀ a, WF e a →
      mergeAllOnto e otherRes (l.flatMap (fun r => rowSrcs e subs (rowPt metas r) r.cols)) ts a =
        leafwise e subs metas otherRes l ts a := by
  intro l
  induction l with
  | nil => intro _ a _; rfl
  | cons r l ih =>
    intro hl a ha
    have hr := hl r (by simp)
    unfold leafwise
    simp only [List.flatMap_cons, List.foldl_cons]
    rw [mergeAllOnto_append, mergeAllOnto_row hv hp hs hr _ ts a ha]
    exact ih (fun r' hr' => hl r' (by simp [hr'])) _
      (foldl_mrg_wf hv hp _ (fun t => rowState_wf e hr _ t) ts a ha)

/-- STAGE 2, LEAF-WISE: the state of a derived output field at (key `k`, out period `T`) is obtained
    by merging, over exactly the scan rows of the group and exactly the bucket's native periods, the
    state assembled from the row's stored columns (column `j` in every slot that resolves to `j`,
    IF-gated by the row's key) -/
theorem sem_groupRows_leafwise_lem {cfg : TableCfg} {now : Int} {q : Query} {pl : Plan} {inFields : List Field}
    {rows : List Row} {kk i : Nat} {f : Field} (H : DerivedCell cfg now q pl inFields rows kk i f)
    (metas : List KeyMeta) (k : Key) (T : Int) (hT : (gUntilOf cfg now pl - T) % gResOf cfg pl = 0) :
    (groupCell cfg now q pl inFields metas rows k i).at f.ex (gResOf cfg pl) T =
      if gAsOfOf cfg now pl < T ∧ T ≤ gUntilOf cfg now pl
      then leafwise f.ex (inFields.map (·.ex)) metas cfg.res (groupMembers q rows k)
        (bucketTimes cfg.res kk (gAsOfOf cfg now pl) (gUntilOf cfg now pl) T) f.ex.empty
      else f.ex.empty := by
  rw [sem_groupRows_derived_lem H metas k T hT]
  split
  · unfold derivedSrcs
    exact mergeAllOnto_rows H.valid H.noPtile H.shiftFree metas _ _
      (fun r hr => H.scan r (List.mem_filter.mp hr).1) _ (wf_empty _)
  · rfl

end Zeno
