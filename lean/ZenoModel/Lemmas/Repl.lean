/-
Helper lemmas and the inductive invariant of the replication protocol (Model/Repl.lean).
The per-event preservation lemmas are in Lemmas/ReplSteps.lean; the property theorems in
Props/C12.lean.
-/
import ZenoModel.Model.Repl

set_option linter.unusedVariables false
set_option linter.unusedSimpArgs false

namespace Zeno.Repl

/-! ## lists of WAL entries -/

theorem le_top {W : List Entry} {e : Entry} (h : e ∈ W) : e.off ≤ top W := by
  induction W with
  | nil => cases h
  | cons x xs ih =>
    simp only [top, List.foldr_cons]
    rcases List.mem_cons.mp h with rfl | h'
    · exact Nat.le_max_left _ _
    · exact Nat.le_trans (ih h') (Nat.le_max_right _ _)

theorem top_append (W : List Entry) (e : Entry) : top (W ++ [e]) = max (top W) e.off := by
  induction W with
  | nil => simp [top]
  | cons x xs ih =>
    have : top (x :: xs ++ [e]) = max x.off (top (xs ++ [e])) := by simp [top]
    rw [this, ih]
    have : top (x :: xs) = max x.off (top xs) := by simp [top]
    rw [this]
    omega

theorem top_le_append (W : List Entry) (e : Entry) : top W ≤ top (W ++ [e]) := by
  rw [top_append]; omega

theorem minList_le {xs : List Nat} {x : Nat} (h : x ∈ xs) : minList xs ≤ x := by
  induction xs with
  | nil => cases h
  | cons y ys ih =>
    cases ys with
    | nil =>
      simp only [List.mem_singleton] at h
      subst h
      simp [minList]
    | cons z zs =>
      simp only [minList]
      rcases List.mem_cons.mp h with rfl | h'
      · exact Nat.min_le_left _ _
      · exact Nat.le_trans (Nat.min_le_right _ _) (ih h')

theorem minList_le_of_all_le {xs : List Nat} {b : Nat} (h : ∀ x ∈ xs, x ≤ b) : minList xs ≤ b := by
  cases xs with
  | nil => simp [minList]
  | cons y ys =>
    have := minList_le (xs := y :: ys) (x := y) (by simp)
    exact Nat.le_trans this (h y (by simp))

theorem nextEntry_mem {W : List Entry} {c : Nat} {e : Entry} (h : nextEntry W c = some e) :
    e ∈ W ∧ c < e.off := by
  unfold nextEntry at h
  have h1 := List.mem_of_find?_eq_some h
  have h2 := List.find?_some h
  exact ⟨h1, by simpa using h2⟩

/-- with increasing offsets the reader's next entry is the FIRST one after the cursor -/
theorem nextEntry_first {W : List Entry} (hs : W.Pairwise (fun a b => a.off < b.off)) {c : Nat}
    {e : Entry} (h : nextEntry W c = some e) : ∀ e' ∈ W, c < e'.off → e.off ≤ e'.off := by
  induction W with
  | nil => intro e' he'; cases he'
  | cons x xs ih =>
    intro e' he' hc
    unfold nextEntry at h
    rw [List.find?_cons] at h
    rw [List.pairwise_cons] at hs
    by_cases hx : c < x.off
    · simp only [hx, decide_true] at h
      cases h
      rcases List.mem_cons.mp he' with rfl | h'
      · exact Nat.le_refl _
      · exact Nat.le_of_lt (hs.1 e' h')
    · simp only [hx, decide_false] at h
      rcases List.mem_cons.mp he' with rfl | h'
      · exact absurd hc hx
      · exact ih hs.2 h e' h' hc

theorem entryAt_mem {W : List Entry} {o : Nat} {e : Entry} (h : entryAt W o = some e) :
    e ∈ W ∧ e.off = o := by
  unfold entryAt at h
  have h1 := List.mem_of_find?_eq_some h
  have h2 := List.find?_some h
  exact ⟨h1, by simpa using h2⟩

theorem off_inj {W : List Entry} (hs : W.Pairwise (fun a b => a.off < b.off)) {a b : Entry}
    (ha : a ∈ W) (hb : b ∈ W) (h : a.off = b.off) : a = b := by
  induction W with
  | nil => cases ha
  | cons x xs ih =>
    rw [List.pairwise_cons] at hs
    rcases List.mem_cons.mp ha with rfl | ha' <;> rcases List.mem_cons.mp hb with rfl | hb'
    · rfl
    · have := hs.1 b hb'; omega
    · have := hs.1 a ha'; omega
    · exact ih hs.2 ha' hb'

theorem sorted_append {W : List Entry} (hs : W.Pairwise (fun a b => a.off < b.off)) {e : Entry}
    (h : top W < e.off) : (W ++ [e]).Pairwise (fun a b => a.off < b.off) := by
  rw [List.pairwise_append]
  refine ⟨hs, by simp, ?_⟩
  intro a ha b hb
  simp only [List.mem_singleton] at hb
  subst hb
  exact Nat.lt_of_le_of_lt (le_top ha) h

/-! ## routing bookkeeping -/

theorem copies_pos {cx : Ctx} {spec : TId → FId → Option Nat} {e : Entry} {f : FId} {t : TId} {sp : Nat}
    (ht : t ∈ cx.tables) (hsp : spec t f = some sp) (hw : wants cx t (cx.part f) e.pt = true)
    (hlt : sp < e.off) : 0 < copies cx spec e f := by
  unfold copies
  apply List.length_pos_of_mem (a := t)
  rw [List.mem_filter]
  refine ⟨ht, ?_⟩
  simp [hsp, hw, hlt]

theorem copies_pos_inv {cx : Ctx} {spec : TId → FId → Option Nat} {e : Entry} {f : FId}
    (h : 0 < copies cx spec e f) :
    ∃ t ∈ cx.tables, ∃ sp, spec t f = some sp ∧ wants cx t (cx.part f) e.pt = true ∧ sp < e.off := by
  unfold copies at h
  obtain ⟨t, ht⟩ := List.exists_mem_of_length_pos h
  rw [List.mem_filter] at ht
  refine ⟨t, ht.1, ?_⟩
  have h2 := ht.2
  cases hs : spec t f with
  | none => simp [hs] at h2
  | some sp =>
    simp only [hs, Bool.and_eq_true, decide_eq_true_eq] at h2
    exact ⟨sp, rfl, h2.1, h2.2⟩

theorem mem_specList {cx : Ctx} {spec : TId → FId → Option Nat} {joined : List FId} {t : TId} {f : FId}
    {sp : Nat} (hf : f ∈ joined) (ht : t ∈ cx.tables) (h : spec t f = some sp) :
    sp ∈ specList cx spec joined := by
  unfold specList
  simp only [List.mem_flatMap, List.mem_filterMap]
  exact ⟨f, hf, t, ht, h⟩

theorem advance_some {cx : Ctx} {e : Entry} {t : TId} {f : FId} {spO : Option Nat} {sp' : Nat}
    (h : advance cx e t f spO = some sp') :
    ∃ sp, spO = some sp ∧ sp' = (if cx.pid t e.pt = cx.part f then max sp e.off else sp) := by
  cases spO with
  | none => simp [advance] at h
  | some sp =>
    refine ⟨sp, rfl, ?_⟩
    simp only [advance] at h
    split at h <;> simp_all

theorem advance_of_some (cx : Ctx) (e : Entry) (t : TId) (f : FId) (sp : Nat) :
    advance cx e t f (some sp) = some (if cx.pid t e.pt = cx.part f then max sp e.off else sp) := by
  simp only [advance]
  split <;> rfl

theorem wants_pid {cx : Ctx} {t : TId} {p pt : Nat} (h : wants cx t p pt = true) : cx.pid t pt = p := by
  simp only [wants, Bool.and_eq_true, beq_iff_eq] at h
  exact h.1

/-- the configurations for which the protocol is exactly-once: `makeFollows` after fix
    C12-fix-01, or followers with at most one table (where the code as found computes the same) -/
def Good (cx : Ctx) : Prop := (cx.fixedEarliest = true ∨ cx.tables.length ≤ 1) ∧ cx.recoverMax = true

theorem earliestOf_le_bound {cx : Ctx} (off : TId → Nat) {b : Nat} (h : ∀ t, off t ≤ b) :
    earliestOf cx off ≤ b := by
  unfold earliestOf
  split
  · apply minList_le_of_all_le
    intro x hx
    obtain ⟨t, _, rfl⟩ := List.mem_map.mp hx
    exact h t
  · apply minList_le_of_all_le
    intro x hx
    have := (List.mem_filter.mp hx).1
    obtain ⟨t, _, rfl⟩ := List.mem_map.mp this
    exact h t

theorem earliestOf_le {cx : Ctx} (hg : Good cx) (off : TId → Nat) {t : TId} (ht : t ∈ cx.tables) :
    earliestOf cx off ≤ off t := by
  unfold earliestOf
  rcases hg.1 with hf | hl
  · simp only [hf, if_true]
    exact minList_le (List.mem_map.mpr ⟨t, ht, rfl⟩)
  · by_cases hf : cx.fixedEarliest = true
    · simp only [hf, if_true]
      exact minList_le (List.mem_map.mpr ⟨t, ht, rfl⟩)
    · simp only [hf, if_false]
      match hT : cx.tables, hl, ht with
      | [t'], _, ht =>
        simp only [List.mem_singleton] at ht
        subst ht
        by_cases h0 : off t = 0
        · simp [h0, minList]
        · simp [h0, minList]

/-! ## the invariant -/

/-- `apps` reflects exactly the entries of `W` up to `off` that table `t` of follower `f` wants,
    each once -/
structure Exact (cx : Ctx) (W : List Entry) (t : TId) (f : FId) (off : Nat) (apps : List Nat) : Prop where
  nodup : apps.Nodup
  mem : ∀ o, o ∈ apps ↔ ∃ e ∈ W, e.off = o ∧ o ≤ off ∧ wants cx t (cx.part f) e.pt = true

theorem Exact.append_wal {cx : Ctx} {W : List Entry} {t : TId} {f : FId} {off : Nat} {apps : List Nat}
    (h : Exact cx W t f off apps) (e : Entry) (hoff : off ≤ top W) (hlt : top W < e.off) :
    Exact cx (W ++ [e]) t f off apps := by
  refine ⟨h.nodup, ?_⟩
  intro o
  rw [h.mem o]
  constructor
  · rintro ⟨e', he', h1, h2, h3⟩
    exact ⟨e', List.mem_append_left _ he', h1, h2, h3⟩
  · rintro ⟨e', he', h1, h2, h3⟩
    rcases List.mem_append.mp he' with h' | h'
    · exact ⟨e', h', h1, h2, h3⟩
    · simp only [List.mem_singleton] at h'
      subst h'
      omega

structure Inv (cx : Ctx) (s : State) : Prop where
  walSorted : ∀ l, (s.wal l).Pairwise (fun a b => a.off < b.off)
  exMem : ∀ f t l, Exact cx (s.wal l) t f (s.memOff f t l) (s.memApps f t l)
  exDisk : ∀ f t l, Exact cx (s.wal l) t f (s.diskOff f t l) (s.diskApps f t l)
  exSnap : ∀ f t l, Exact cx (s.wal l) t f (s.snapOff f t l) (s.snapApps f t l)
  memTop : ∀ f t l, s.memOff f t l ≤ top (s.wal l)
  diskTop : ∀ f t l, s.diskOff f t l ≤ top (s.wal l)
  snapTop : ∀ f t l, s.snapOff f t l ≤ top (s.wal l)
  -- the `offset` file: never ahead of the WAL; where it is ahead of the filestore's header, the
  -- filestore's data is still exact for it (it was written over an EMPTY memstore: only skipped
  -- entries lie between the two)
  offTop : ∀ f t l, s.offFile f t l ≤ top (s.wal l)
  snapOffTop : ∀ f t l, s.snapOffFile f t l ≤ top (s.wal l)
  offExact : ∀ f t l, s.offFile f t l ≤ s.diskOff f t l ∨
    Exact cx (s.wal l) t f (s.offFile f t l) (s.diskApps f t l)
  snapOffExact : ∀ f t l, s.snapOffFile f t l ≤ s.snapOff f t l ∨
    Exact cx (s.wal l) t f (s.snapOffFile f t l) (s.snapApps f t l)
  dirtyInv : ∀ f t, s.fup f = true → s.dirty f t = false → ∀ l, s.memApps f t l = s.diskApps f t l
  diskLeMem : ∀ f t l, s.fup f = true → s.diskOff f t l ≤ s.memOff f t l
  offLeMem : ∀ f t l, s.fup f = true → s.offFile f t l ≤ s.memOff f t l
  priorTop : ∀ f t l, s.prior f t l ≤ top (s.wal l)
  -- follower memory (meaningful while the follower runs)
  memLePrior : ∀ f t l, s.fup f = true → s.memOff f t l ≤ s.prior f t l
  pendSorted : ∀ f t l, s.fup f = true → (s.pending f t l).Pairwise (· < ·)
  pendRange : ∀ f t l, s.fup f = true → ∀ o ∈ s.pending f t l,
    s.memOff f t l < o ∧ o ≤ s.prior f t l ∧ ∃ e ∈ s.wal l, e.off = o
  pendCover : ∀ f t l, s.fup f = true → ∀ e ∈ s.wal l, wants cx t (cx.part f) e.pt = true →
    s.memOff f t l < e.off → e.off ≤ s.prior f t l → e.off ∈ s.pending f t l
  earliestLe : ∀ f t l, s.fup f = true → t ∈ cx.tables → s.earliest f l ≤ s.prior f t l
  earliestTop : ∀ f l, s.earliest f l ≤ top (s.wal l)
  -- connections
  connUp : ∀ l f, s.connected l f = true → s.lup l = true ∧ s.fup f = true
  linkConn : ∀ l f, s.linkUp l f = true → s.connected l f = true
  queueDown : ∀ l f, s.linkUp l f = false → s.queue l f = []
  reqLe : ∀ l f t, s.reqPending l f = true → s.connected l f = true → t ∈ cx.tables →
    s.reqEarliest l f ≤ s.prior f t l
  reqTop : ∀ l f, s.reqEarliest l f ≤ top (s.wal l)
  -- leader
  specJoined : ∀ l t f sp, s.spec l t f = some sp → f ∈ s.joined l ∧ t ∈ cx.tables
  specLink : ∀ l f t, s.linkUp l f = true → t ∈ cx.tables → ∃ sp, s.spec l t f = some sp
  specLeDone : ∀ l t f sp, s.spec l t f = some sp → sp ≤ s.done l t f
  doneTop : ∀ l t f, s.done l t f ≤ top (s.wal l)
  cursorLeDone : ∀ l t f sp, s.spec l t f = some sp → s.cursor l ≤ s.done l t f
  gap : ∀ l t f sp, s.spec l t f = some sp → ∀ e ∈ s.wal l, sp < e.off → e.off ≤ s.done l t f →
    cx.pid t e.pt ≠ cx.part f
  queueSorted : ∀ l f, (s.queue l f).Pairwise (· ≤ ·)
  queueDone : ∀ l t f sp, s.spec l t f = some sp → ∀ o ∈ s.queue l f, o ≤ s.done l t f
  queueWal : ∀ l f, ∀ o ∈ s.queue l f, ∃ e ∈ s.wal l, e.off = o
  -- nothing a table still needs is skipped: what the leader has considered for (t, f) and the
  -- table has not yet seen is on the link or being handed over
  linkCover : ∀ l f t sp, s.linkUp l f = true → s.spec l t f = some sp → ∀ e ∈ s.wal l,
    wants cx t (cx.part f) e.pt = true → s.prior f t l < e.off → e.off ≤ sp →
    (e.off ∈ s.queue l f ∨ ∃ rem, s.inflight f l = some (e.off, rem) ∧ t ∈ rem)
  -- an entry being handed to the tables
  inflUp : ∀ f l x, s.inflight f l = some x → s.fup f = true
  inflWal : ∀ f l o rem, s.inflight f l = some (o, rem) → ∃ e ∈ s.wal l, e.off = o
  inflDone : ∀ f l o rem, s.inflight f l = some (o, rem) → ∀ t ∈ cx.tables, t ∉ rem → o ≤ s.prior f t l
  inflGap : ∀ f l o rem t, s.inflight f l = some (o, rem) → t ∈ rem → ∀ e ∈ s.wal l,
    wants cx t (cx.part f) e.pt = true → s.prior f t l < e.off → e.off < o → False

/-- what `openRowStore` recovers (data of the newest filestore, per-source maximum of the two
    offset records) is exact: the recovered offset covers every entry reflected in the recovered
    data and nothing the table wants at or below it is missing -/
theorem Inv.recExact {cx : Ctx} {s : State} (hi : Inv cx s) (f : FId) (t : TId) (l : LId) :
    Exact cx (s.wal l) t f (max (s.offFile f t l) (s.diskOff f t l)) (s.diskApps f t l) := by
  by_cases h : s.offFile f t l ≤ s.diskOff f t l
  · rw [Nat.max_eq_right h]
    exact hi.exDisk f t l
  · rcases hi.offExact f t l with h' | h'
    · exact absurd h' h
    · rw [Nat.max_eq_left (by omega)]
      exact h'

theorem Exact.nil (cx : Ctx) (t : TId) (f : FId) : Exact cx [] t f 0 [] :=
  ⟨List.nodup_nil, by intro o; simp⟩

theorem inv_init (cx : Ctx) : Inv cx State.init := by
  constructor <;> simp [State.init, Exact.nil, top]

end Zeno.Repl
