/-
Derived selected expressions, part 10 (stage 2): `SubMerge` with a sub-merger that acts as
"merge `g` of the source state" IS `SubMerge` with the direct sub-merger on the `g`-mapped source.
-/
import ZenoModel.Lemmas.DerivedSub2
set_option linter.unusedSimpArgs false
set_option linter.unusedVariables false
namespace Zeno

theorem truncate_wf {c : Ex} {otherRes : Int} (hor : 0 < otherRes) (other : Sq) (hwo : SqWF c other) (a b : Int) :
    SqWF c (other.truncate otherRes a b) := by
  cases other with
  | none => trivial
  | some q =>
    cases hts : Sq.truncate (some q) otherRes a b with
    | none => trivial
    | some r => exact (truncate_some (e := c) hor q r a b hts).2.1 hwo

theorem smBodyG_eq {e c : Ex} (hv : e.valid = true) (hp : e.noPtile = true) (sm : SM)
    (g : List Cell → List Cell) (otherRes : Int) (p : Pt) (hsm : ActsAs e c sm g otherRes p)
    (hg : ∀ o, WF c o → WF e (g o)) (res : Int) (result : Sq) (hwr : SqWF e result) (otherAsOf : Int)
    (o0 : Seq) (hwo : CellsWF c o0.cells) (hi : Int) :
    smBodyG e sm res otherRes result otherAsOf o0 p hi = smBody e res otherRes result otherAsOf (mapSeq g o0) p hi := by
  unfold smBodyG smBody
  simp only [mapSeq]
  congr 1
  exact subMergeLoop_map hv hp sm g otherRes p hsm hg _ _ _ _ _ _ _ _ hwo
    (smAppend_wf res otherAsOf _ (smPrepend_wf res _ result hwr))

/-- THE REDUCTION -/
theorem subMerge_reduce {e c : Ex} (hv : e.valid = true) (hp : e.noPtile = true) (hs : e.shiftOf = 0) (sm : SM)
    (g : List Cell → List Cell) (otherRes : Int) (p : Pt) (hsm : ActsAs e c sm g otherRes p)
    (hg : ∀ o, WF c o → WF e (g o)) {res hi : Int} (hres : 0 < res) (hor : 0 < otherRes) (s other : Sq) (asOf : Int)
    (hr : RecvGrid e res hi s) (hwo : SqWF c other) :
    Sq.subMerge e c sm res otherRes s other p asOf hi 0 =
      Sq.subMerge e e (.direct e) res otherRes s (mapSq g other) p asOf hi 0 := by
  rw [subMerge_gen_eq e c sm hs, subMerge_direct_eq e hs, truncate_mapSq, asOf_mapSq]
  have hwt := truncate_wf hor other hwo asOf hi
  cases hto : other.truncate otherRes asOf hi with
  | none => rfl
  | some o0 =>
    rw [hto] at hwt
    simp only [mapSq, Option.map_some]
    have hlen : (mapSeq g o0).cells.length = o0.cells.length := by simp [mapSeq]
    rw [hlen]
    split
    · rfl
    · rw [smBodyG_eq hv hp sm g otherRes p hsm hg res _ (recv_truncate_inv hres s hr asOf hi).1 _ o0 hwt hi]

/-- the mapped source read at a time: the image of the source's state (the image of the empty
    state being the empty state) -/
theorem at_mapSq {e c : Ex} (g : List Cell → List Cell) (hge : g c.empty = e.empty) (s : Sq) (res t : Int) :
    (mapSq g s).at e res t = g (s.at c res t) := by
  cases s with
  | none => exact hge.symm
  | some q =>
    simp only [mapSq, Option.map_some, mapSeq, Sq.at]
    split
    · rw [List.getD_eq_getElem?_getD, List.getD_eq_getElem?_getD, List.getElem?_map]
      cases q.cells[((q.hi - t) / res).toNat]? with
      | none => exact hge.symm
      | some x => rfl
    · exact hge.symm

theorem sqOk_mapSq (g : List Cell → List Cell) {res : Int} {s : Sq} (h : SqOk res s) : SqOk res (mapSq g s) := by
  cases s with
  | none => trivial
  | some q => exact ⟨h.aligned, by simpa [mapSeq] using h.bound, h.pos⟩

theorem sqWF_mapSq {e c : Ex} (g : List Cell → List Cell) (hg : ∀ o, WF c o → WF e (g o)) {s : Sq}
    (h : SqWF c s) : SqWF e (mapSq g s) := by
  cases s with
  | none => trivial
  | some q =>
    intro x hx
    simp only [mapSeq, List.mem_map] at hx
    obtain ⟨o, ho, rfl⟩ := hx
    exact hg o (h o ho)

end Zeno
