/-
Derived selected expressions, part 24 (stage 3, read-out): `Sequence.ValueAtTime` on a grouped
column WITHOUT assuming that the expression has no value on the empty state: inside the column's
physical span it reads the state `Sq.at` holds, outside it reads nothing (whereas `Sq.at` reads the
empty state there — the root of known finding empty-bucket-row).
-/
import ZenoModel.Lemmas.DerivedE2E3
import ZenoModel.Lemmas.EndToEndRead4
set_option linter.unusedSimpArgs false
set_option linter.unusedVariables false
namespace Zeno

/-- the period ending at `T` is physically present in the sequence -/
def spanHas (s : Sq) (res T : Int) : Bool :=
  match s with
  | none => false
  | some q => decide (T ≤ q.hi) && decide (((q.hi - T) / res).toNat < q.cells.length)

/-- outside the physical span `Sq.at` reads the empty state -/
theorem at_outside_span (e : Ex) (s : Sq) (res T : Int) (h : spanHas s res T = false) : s.at e res T = e.empty := by
  cases s with
  | none => rfl
  | some q =>
    simp only [spanHas, Bool.and_eq_false_iff, decide_eq_false_iff_not] at h
    unfold Sq.at
    simp only
    split
    · rename_i hc
      rcases h with h | h
      · exact absurd hc.2 h
      · exact getD_ge e _ _ (by omega)
    · rfl

/-- `ValueAtTime` for a non-constant expression on the grid: the value of the state inside the
    physical span, nothing outside -/
theorem valueAtTime_span (x : Ext) (e : Ex) (hnc : e.isConstant = false) {res hi0 : Int} (hres : 0 < res)
    (s : Sq) (hg : OnGrid res hi0 s) (T : Int) (hT : (hi0 - T) % res = 0) :
    s.valueAtTime x e res T = if spanHas s res T then e.val x (s.at e res T) else none := by
  cases s with
  | none =>
    unfold Sq.valueAtTime
    rw [if_neg (by simp [hnc])]
    rfl
  | some q =>
    rw [valueAtTime_on_grid x e hnc hres q hg T hT]
    have hq := onGrid_sub hg hT
    simp only [spanHas, Sq.at]
    by_cases hle : T ≤ q.hi
    · rw [if_pos hle, if_pos ⟨hq, hle⟩]
      by_cases hidx : ((q.hi - T) / res).toNat < q.cells.length
      · simp only [hle, hidx, decide_true, Bool.and_self, if_true]
        rw [List.getD_eq_getElem?_getD, List.getElem?_eq_getElem hidx]
        rfl
      · simp only [hle, hidx, decide_true, decide_false, Bool.and_false, Bool.false_eq_true, if_false]
        rw [List.getElem?_eq_none (by omega)]
        rfl
    · simp [hle]

/-- a constant expression has no state -/
theorem const_shape : ∀ {e : Ex}, e.isConstant = true → e.shape = [] := by
  intro e
  induction e with
  | field n => intro h; simp [Ex.isConstant] at h
  | const v => intro _; rfl
  | agg k w _ => intro h; simp [Ex.isConstant] at h
  | avg v w _ _ => intro h; simp [Ex.isConstant] at h
  | bin op l r ihl ihr =>
    intro h; simp only [Ex.isConstant, Bool.and_eq_true] at h
    simp [Ex.shape, ihl h.1, ihr h.2]
  | ifE c w ih => intro h; exact ih (by simpa [Ex.isConstant] using h)
  | bounded w lo hi ih => intro h; exact ih (by simpa [Ex.isConstant] using h)
  | shift w off ih => intro h; exact ih (by simpa [Ex.isConstant] using h)
  | unary f w ih => intro h; exact ih (by simpa [Ex.isConstant] using h)
  | ptile id v pe n _ _ => intro h; simp [Ex.isConstant] at h

/-- `ValueAtTime` of a constant expression is the value `specQuery` reads from any accumulation -/
theorem valueAtTime_const (x : Ext) {e : Ex} (hv : e.valid = true) (hp : e.noPtile = true)
    (hc : e.isConstant = true) (s : Sq) (res T : Int) (ps : List Pt) :
    s.valueAtTime x e res T = e.val x (e.acc x ps) := by
  unfold Sq.valueAtTime
  rw [if_pos hc, acc_width0 x hv hp (const_shape hc)]

/-- outside the window no accepted row falls into the bucket -/
theorem specBucketPts_outside (q : Query) (A : List AccRow) (adj : AccRow → Pt) {lo hi P : Int} (hP : 0 < P)
    (k : Key) (T : Int) (hout : ¬ (lo < T ∧ T ≤ hi)) : specBucketPts q A adj lo hi P k T = [] := by
  cases hb : specBucketPts q A adj lo hi P k T with
  | nil => rfl
  | cons a l =>
    exfalso
    have hne : specBucketPts q A adj lo hi P k T ≠ [] := by rw [hb]; simp
    exact hout (specBuckets_window hP (specBuckets_of_nonempty q A adj lo hi P k T hne)).1

end Zeno
