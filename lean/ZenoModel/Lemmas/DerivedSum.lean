/-
Derived selected expressions, part 11: sums in the commutative monoid (`mrg`, `empty`) of the
well-formed states of an expression, and the exchange of two nested merge loops.
-/
import ZenoModel.Lemmas.SubMergeSemLoop
set_option linter.unusedSimpArgs false
set_option linter.unusedVariables false
namespace Zeno

/-- the merge of the states `g i`, `i ∈ l`, in order -/
def msum {α : Type} (e : Ex) (l : List α) (g : α → List Cell) : List Cell :=
  l.foldl (fun a i => e.mrg a (g i)) e.empty

section
variable {e : Ex} (hv : e.valid = true) (hp : e.noPtile = true)
include hv hp

theorem mrg_medial {a b c d : List Cell} (ha : WF e a) (hb : WF e b) (hc : WF e c) (hd : WF e d) :
    e.mrg (e.mrg a b) (e.mrg c d) = e.mrg (e.mrg a c) (e.mrg b d) := by
  rw [mrg_assoc hv hp ha hb (mrg_wf hv hp hc hd), ← mrg_assoc hv hp hb hc hd, mrg_comm hv hp hb hc,
    mrg_assoc hv hp hc hb hd, ← mrg_assoc hv hp ha hc (mrg_wf hv hp hb hd)]

theorem msum_wf {α : Type} (l : List α) (g : α → List Cell) (hg : ∀ i, WF e (g i)) : WF e (msum e l g) :=
  foldl_mrg_wf hv hp g hg l _ (wf_empty e)

/-- a merge loop started at `a0` = `a0` merged with the sum -/
theorem foldl_mrg_eq_msum {α : Type} (g : α → List Cell) (hg : ∀ i, WF e (g i)) :
    ∀ (l : List α) (a0 : List Cell), WF e a0 →
      l.foldl (fun a i => e.mrg a (g i)) a0 = e.mrg a0 (msum e l g) := by
  intro l
  induction l with
  | nil => intro a0 h0; exact (mrg_empty_right hv hp h0).symm
  | cons i l ih =>
    intro a0 h0
    unfold msum
    simp only [List.foldl_cons]
    rw [ih _ (mrg_wf hv hp h0 (hg i)), ih _ (mrg_wf hv hp (wf_empty e) (hg i)), mrg_empty_left hv hp (hg i),
      mrg_assoc hv hp h0 (hg i) (msum_wf hv hp l g hg)]

theorem msum_cons {α : Type} (g : α → List Cell) (hg : ∀ i, WF e (g i)) (i : α) (l : List α) :
    msum e (i :: l) g = e.mrg (g i) (msum e l g) := by
  show l.foldl (fun a i => e.mrg a (g i)) (e.mrg e.empty (g i)) = _
  rw [mrg_empty_left hv hp (hg i), foldl_mrg_eq_msum hv hp g hg l _ (hg i)]

theorem msum_empty {α : Type} (l : List α) : msum e l (fun _ => e.empty) = e.empty :=
  foldl_mrg_empty hv hp _ l _ (wf_empty e) (fun _ _ => rfl)

theorem msum_congr {α : Type} (l : List α) (g g' : α → List Cell) (h : ∀ i ∈ l, g i = g' i) :
    msum e l g = msum e l g' := foldl_mrg_congr e g g' l _ h

/-- the sum of merges is the merge of the sums -/
theorem msum_mrg {α : Type} (g h : α → List Cell) (hg : ∀ i, WF e (g i)) (hh : ∀ i, WF e (h i)) :
    ∀ l : List α, msum e l (fun i => e.mrg (g i) (h i)) = e.mrg (msum e l g) (msum e l h) := by
  intro l
  induction l with
  | nil => exact (mrg_empty_empty hv hp).symm
  | cons i l ih =>
    rw [msum_cons hv hp _ (fun i => mrg_wf hv hp (hg i) (hh i)), msum_cons hv hp g hg, msum_cons hv hp h hh, ih,
      mrg_medial hv hp (hg i) (hh i) (msum_wf hv hp l g hg) (msum_wf hv hp l h hh)]

/-- double sums can be exchanged -/
theorem msum_exchange {α β : Type} (G : α → β → List Cell) (hG : ∀ j t, WF e (G j t)) (ts : List β) :
    ∀ js : List α, msum e js (fun j => msum e ts (G j)) = msum e ts (fun t => msum e js (fun j => G j t)) := by
  intro js
  induction js with
  | nil => exact (msum_empty hv hp ts).symm
  | cons j js ih =>
    rw [msum_cons hv hp _ (fun j => msum_wf hv hp ts (G j) (hG j)), ih,
      ← msum_mrg hv hp (G j) _ (hG j) (fun t => msum_wf hv hp js _ (fun j => hG j t))]
    apply msum_congr hv hp
    intro t _
    exact (msum_cons hv hp (fun j => G j t) (fun j => hG j t) j js).symm

/-- EXCHANGE of two nested merge loops -/
theorem foldl_mrg_exchange {α β : Type} (G : α → β → List Cell) (hG : ∀ j t, WF e (G j t)) (js : List α)
    (ts : List β) (a0 : List Cell) (h0 : WF e a0) :
    js.foldl (fun a j => ts.foldl (fun a t => e.mrg a (G j t)) a) a0 =
      ts.foldl (fun a t => js.foldl (fun a j => e.mrg a (G j t)) a) a0 := by
  have inner : ∀ {γ δ : Type} (H : γ → δ → List Cell), (∀ c d, WF e (H c d)) → ∀ (ds : List δ) (cs : List γ) (a : List Cell),
      WF e a → cs.foldl (fun a c => ds.foldl (fun a d => e.mrg a (H c d)) a) a =
        e.mrg a (msum e cs (fun c => msum e ds (H c))) := by
    intro γ δ H hH ds cs
    induction cs with
    | nil => intro a ha; exact (mrg_empty_right hv hp ha).symm
    | cons c cs ih =>
      intro a ha
      simp only [List.foldl_cons]
      rw [foldl_mrg_eq_msum hv hp (H c) (hH c) ds a ha,
        ih _ (mrg_wf hv hp ha (msum_wf hv hp ds (H c) (hH c))),
        msum_cons hv hp _ (fun c => msum_wf hv hp ds (H c) (hH c)),
        mrg_assoc hv hp ha (msum_wf hv hp ds (H c) (hH c))
          (msum_wf hv hp cs _ (fun c => msum_wf hv hp ds (H c) (hH c)))]
  rw [inner G hG ts js a0 h0, inner (fun t j => G j t) (fun t j => hG j t) js ts a0 h0,
    msum_exchange hv hp G hG ts js]

end

end Zeno
