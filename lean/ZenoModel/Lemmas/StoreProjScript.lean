/-
Store ↔ column projection, part 7: lifting over whole scripts, and the state-free
(clock-only) form of the projected script that makes flush erasure visible.
-/
import ZenoModel.Lemmas.StoreProjIngest
import ZenoModel.Lemmas.StoreProjFlush
import ZenoModel.Lemmas.ColumnSpec
set_option linter.unusedSimpArgs false
set_option linter.unusedVariables false
namespace Zeno

def storeStep (x : Ext) (cfg : TableCfg) (st : Store) : StoreOp → Store
  | .ingest p => (st.ingest x cfg p).1
  | .flush s => st.flush cfg s

theorem runStore_eq (x : Ext) (cfg : TableCfg) (ops : List StoreOp) :
    runStore x cfg ops = ops.foldl (storeStep x cfg) (Store.init cfg) := by
  unfold runStore
  congr 1

theorem flush_empty (cfg : TableCfg) (st : Store) (s : Bool) (h : st.mem.isEmpty = true) :
    st.flush cfg s = st := by simp [Store.flush, h]

/-- the invariants hold along every script, from any state that satisfies them -/
theorem script_proj (x : Ext) (cfg : TableCfg) (wf : CfgWF cfg) (key : Key) (i : Nat)
    (hi : i < cfg.fields.length) (ops : List StoreOp) :
    ∀ (st : Store) (c : Col), StoreInv cfg st → ProjInv st key i c → StorePos ops →
      StoreInv cfg (ops.foldl (storeStep x cfg) st) ∧
      ProjInv (ops.foldl (storeStep x cfg) st) key i
        ((colOpsOf x cfg key st ops).foldl (Col.step x (ccfgOf cfg i)) c) := by
  induction ops with
  | nil => intro st c sinv pinv _; exact ⟨sinv, pinv⟩
  | cons op r ih =>
    intro st c sinv pinv hpos
    cases op with
    | ingest p =>
      obtain ⟨s1, p1⟩ := ingest_proj x cfg wf st p hpos.1 key i hi c sinv pinv
      rw [colOpsOf_ingest, List.foldl_append, List.foldl_cons]
      exact ih _ _ s1 p1 hpos.2
    | flush s =>
      rw [colOpsOf_flush, List.foldl_cons]
      by_cases hne : st.mem.isEmpty = true
      · rw [if_pos hne]
        show _ ∧ ProjInv (r.foldl (storeStep x cfg) (st.flush cfg s)) key i _
        rw [show storeStep x cfg st (.flush s) = st.flush cfg s from rfl, flush_empty cfg st s hne]
        exact ih _ _ sinv pinv hpos
      · rw [if_neg hne, List.foldl_cons]
        have hne' : st.mem.isEmpty = false := by simpa using hne
        exact ih _ _ (flush_storeInv cfg wf.distinct st s sinv)
          (flush_proj x cfg wf.distinct st s key i hi c sinv pinv hne') hpos

theorem run_proj (x : Ext) (cfg : TableCfg) (wf : CfgWF cfg) (key : Key) (i : Nat)
    (hi : i < cfg.fields.length) (ops : List StoreOp) (hpos : StorePos ops) :
    StoreInv cfg (runStore x cfg ops) ∧
    ProjInv (runStore x cfg ops) key i
      (Col.run x (ccfgOf cfg i) (colOpsOf x cfg key (Store.init cfg) ops)) := by
  rw [runStore_eq]
  exact script_proj x cfg wf key i hi ops _ _ (storeInv_init cfg) (projInv_init cfg key i) hpos

theorem ccfgOf_eq (cfg : TableCfg) (i : Nat) (hi : i < cfg.fields.length) :
    ccfgOf cfg i = { e := (cfg.fields[i]).ex, res := cfg.res, retention := cfg.retention } := by
  unfold ccfgOf
  rw [List.getD_eq_getElem?_getD, List.getElem?_eq_getElem hi]
  rfl

/-! ### the projected script, state-free -/

/-- the `ColOp`s of one point, from the clock alone -/
def ptOps (cfg : TableCfg) (key : Key) (now : Int) (p : RawPoint) : List ColOp :=
  if p.ts < now - cfg.retention then [.late p.ts]
  else if !p.whereOk then [.late p.ts]
  else if p.panics then [.tick p.ts]
  else if reslice cfg p.dims == key then
    (if (pointRows p).isEmpty then [.tick p.ts]
     else (pointRows p).map (fun vals => ColOp.ingest p.ts (mkPt p vals)))
  else [.tick p.ts]

/-- the clock after one point -/
def ptNow (cfg : TableCfg) (now : Int) (p : RawPoint) : Int :=
  if p.ts < now - cfg.retention then now
  else if !p.whereOk then now
  else max now p.ts

theorem ingest_now (x : Ext) (cfg : TableCfg) (st : Store) (p : RawPoint) :
    (st.ingest x cfg p).1.now = ptNow cfg st.now p := by
  unfold Store.ingest ptNow
  split
  · rfl
  · split
    · rfl
    · simp only
      split <;> rfl

theorem ingestOps_eq (x : Ext) (cfg : TableCfg) (key : Key) (st : Store) (p : RawPoint) :
    ingestOps x cfg key st p = ptOps cfg key st.now p := by
  by_cases hold : p.ts < st.now - cfg.retention
  · have e1 : st.ingest x cfg p = (st, false) := by simp [Store.ingest, hold]
    simp [ingestOps, ptOps, e1, hold]
  by_cases hw : p.whereOk = false
  · have e1 : st.ingest x cfg p = (st, false) := by simp [Store.ingest, hold, hw]
    simp [ingestOps, ptOps, e1, hold, hw]
  have hw' : p.whereOk = true := by simpa using hw
  by_cases hpan : p.panics = true
  · have e1 : st.ingest x cfg p = ({ st with now := max st.now p.ts }, false) := by
      simp [Store.ingest, hold, hw', hpan]
    simp [ingestOps, ptOps, e1, hold, hw', hpan]
  have hpan' : p.panics = false := by simpa using hpan
  have e1 : (st.ingest x cfg p).2 = true := by simp [Store.ingest, hold, hw', hpan']
  by_cases hk : (reslice cfg p.dims == key) = true
  · by_cases hemp : (pointRows p) = []
    · simp [ingestOps, ptOps, e1, hold, hw', hpan', hk, hemp]
    · simp [ingestOps, ptOps, e1, hold, hw', hpan', hk, hemp]
  · simp [ingestOps, ptOps, e1, hold, hw', hpan', hk]

theorem flush_now (cfg : TableCfg) (st : Store) (s : Bool) : (st.flush cfg s).now = st.now := by
  by_cases hne : st.mem.isEmpty = true
  · rw [flush_empty cfg st s hne]
  · rw [flush_eq cfg st s (by simpa using hne)]

/-- the projected script without its flushes, from the clock alone -/
def colOpsNF (cfg : TableCfg) (key : Key) : Int → List StoreOp → List ColOp
  | _, [] => []
  | now, .flush _ :: r => colOpsNF cfg key now r
  | now, .ingest p :: r => ptOps cfg key now p ++ colOpsNF cfg key (ptNow cfg now p) r

def eraseFlush : List StoreOp → List StoreOp
  | [] => []
  | .flush _ :: r => eraseFlush r
  | .ingest p :: r => .ingest p :: eraseFlush r

theorem noFlush_append (a b : List ColOp) : noFlush (a ++ b) = noFlush a ++ noFlush b := by
  induction a with
  | nil => rfl
  | cons op r ih => cases op <;> simp [noFlush, ih]

theorem noFlush_map_ingest (ts : Int) (p : RawPoint) (rows : List (List (String × Rat))) :
    noFlush (rows.map (fun vals => ColOp.ingest ts (mkPt p vals))) =
      rows.map (fun vals => ColOp.ingest ts (mkPt p vals)) := by
  induction rows with
  | nil => rfl
  | cons v r ih => simp [noFlush, ih]

theorem noFlush_ptOps (cfg : TableCfg) (key : Key) (now : Int) (p : RawPoint) :
    noFlush (ptOps cfg key now p) = ptOps cfg key now p := by
  unfold ptOps
  repeat' split
  all_goals first | rfl | exact noFlush_map_ingest _ _ _

theorem noFlush_colOpsOf (x : Ext) (cfg : TableCfg) (key : Key) (ops : List StoreOp) :
    ∀ st : Store, noFlush (colOpsOf x cfg key st ops) = colOpsNF cfg key st.now ops := by
  induction ops with
  | nil => intro st; rfl
  | cons op r ih =>
    intro st
    cases op with
    | ingest p =>
      rw [colOpsOf_ingest, noFlush_append, ih, ingestOps_eq, noFlush_ptOps, ingest_now]
      rfl
    | flush s =>
      rw [colOpsOf_flush]
      split
      · rw [ih]; rfl
      · simp only [noFlush]
        rw [ih, flush_now]; rfl

theorem colOpsNF_eraseFlush (cfg : TableCfg) (key : Key) (ops : List StoreOp) :
    ∀ now, colOpsNF cfg key now (eraseFlush ops) = colOpsNF cfg key now ops := by
  induction ops with
  | nil => intro now; rfl
  | cons op r ih =>
    intro now
    cases op with
    | ingest p => simp only [eraseFlush, colOpsNF, ih]
    | flush s => simp only [eraseFlush, colOpsNF, ih]

/-! ### positivity of the projected script -/

theorem opsPos_append : ∀ {a b : List ColOp}, OpsPos a → OpsPos b → OpsPos (a ++ b)
  | [], _, _, hb => hb
  | .flush _ :: r, _, ha, hb => opsPos_append (a := r) ha hb
  | .ingest _ _ :: r, _, ha, hb => ⟨ha.1, opsPos_append (a := r) ha.2 hb⟩
  | .tick _ :: r, _, ha, hb => ⟨ha.1, opsPos_append (a := r) ha.2 hb⟩
  | .late _ :: r, _, ha, hb => opsPos_append (a := r) ha hb

theorem opsPos_map_ingest (ts : Int) (hts : 0 < ts) (p : RawPoint) (rows : List (List (String × Rat))) :
    OpsPos (rows.map (fun vals => ColOp.ingest ts (mkPt p vals))) := by
  induction rows with
  | nil => trivial
  | cons v r ih => exact ⟨hts, ih⟩

theorem opsPos_ptOps (cfg : TableCfg) (key : Key) (now : Int) (p : RawPoint) (hts : 0 < p.ts) :
    OpsPos (ptOps cfg key now p) := by
  unfold ptOps
  repeat' split
  all_goals first | exact opsPos_map_ingest _ hts _ _ | exact ⟨hts, trivial⟩ | trivial

theorem opsPos_colOpsOf (x : Ext) (cfg : TableCfg) (key : Key) (ops : List StoreOp) :
    ∀ st : Store, StorePos ops → OpsPos (colOpsOf x cfg key st ops) := by
  induction ops with
  | nil => intro st _; trivial
  | cons op r ih =>
    intro st hpos
    cases op with
    | ingest p =>
      rw [colOpsOf_ingest, ingestOps_eq]
      exact opsPos_append (opsPos_ptOps cfg key st.now p hpos.1) (ih _ hpos.2)
    | flush s =>
      rw [colOpsOf_flush]
      split
      · exact ih _ hpos
      · exact ih _ hpos

/-- the spec's rows of a period do not depend on the flush steps -/
theorem rowsFor_noFlush (ccfg : ColCfg) (T : Int) (ops : List ColOp) :
    ∀ now, rowsFor ccfg T now ops = rowsFor ccfg T now (noFlush ops) := by
  induction ops with
  | nil => intro now; rfl
  | cons op r ih =>
    intro now
    cases op with
    | flush raw => simp only [rowsFor, noFlush]; exact ih now
    | ingest ts pt => simp only [rowsFor, noFlush, ih]
    | tick ts => simp only [rowsFor, noFlush, ih]
    | late ts => simp only [rowsFor, noFlush, ih]

end Zeno
