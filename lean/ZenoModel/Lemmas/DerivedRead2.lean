/-
Derived selected expressions, part 25 (stage 3): what `core.Flatten` reads from a grouped row whose
selected fields are derived expressions — exactly, with the physical spans — and its agreement with
`specOut` at every slot that holds data.
-/
import ZenoModel.Lemmas.DerivedRead
set_option linter.unusedSimpArgs false
set_option linter.unusedVariables false
namespace Zeno

/-- `specQuery`'s points of the bucket `(k, T)` for the script -/
def e2eBucket (x : Ext) (cfg : TableCfg) (ops : List StoreOp) (q : Query) (metas : List KeyMeta) (pl : Plan)
    (k : Key) (T : Int) : List Pt :=
  specBucketPts q (specRows q metas (acceptedRows cfg true (pointsOf ops)).1) (specAdj metas)
    (gAsOfOf cfg (runStore x cfg ops).now pl) (gUntilOf cfg (runStore x cfg ops).now pl) (gResOf cfg pl) k T

section
variable (x : Ext) {cfg : TableCfg} {ops : List StoreOp} {q : Query} {metas : List KeyMeta} {pl : Plan}
  (C : DerivedCtx x cfg ops q metas pl)
include C

/-- the cell at ANY out-grid time is the derived expression accumulated over the spec's bucket
    (which is empty outside the window) -/
theorem derived_cell_at (i : Nat) (f : Field) (hout : q.outFields[i]? = some f) (df : DerivedField x cfg ops q f)
    (k : Key) (T : Int) (hT : (gUntilOf cfg (runStore x cfg ops).now pl - T) % gResOf cfg pl = 0) :
    (groupCell cfg (runStore x cfg ops).now q pl (includedFields cfg q) metas (e2eScan x cfg ops q metas) k i).at
        f.ex (gResOf cfg pl) T = f.ex.acc x (e2eBucket x cfg ops q metas pl k T) := by
  rw [e2e_cell_derived x C i f hout df k T hT]
  unfold e2eBucket
  split
  · rfl
  · rename_i hW
    rw [specBucketPts_outside q _ _ C.base.resPos k T hW]; rfl

/-- column `i` of a grouped row is the cell `groupCell` reads -/
theorem derived_col_is_cell (g : Row) (hg : g ∈ e2eGroup x cfg ops q metas pl) (i : Nat) (hi : i < g.cols.length) :
    g.cols[i] = groupCell cfg (runStore x cfg ops).now q pl (includedFields cfg q) metas
      (e2eScan x cfg ops q metas) g.key i := by
  rw [← groupRows_col_is_cell cfg _ q pl _ metas _ g hg i, List.getD_eq_getElem?_getD,
    List.getElem?_eq_getElem hi]; rfl

/-- every column of a grouped row lies on the out grid anchored at the window's end -/
theorem derived_group_onGrid (hall : ∀ f ∈ q.outFields, DerivedField x cfg ops q f) :
    ∀ g ∈ e2eGroup x cfg ops q metas pl, ∀ c ∈ g.cols,
      OnGrid (gResOf cfg pl) (gUntilOf cfg (runStore x cfg ops).now pl) c := by
  intro g hg c hc
  obtain ⟨i, hi, rfl⟩ := List.getElem_of_mem hc
  have hw := groupRows_width cfg _ q pl _ metas _ g hg
  have hi' : i < q.outFields.length := by omega
  have hout : q.outFields[i]? = some (q.outFields[i]) := List.getElem?_eq_getElem hi'
  have H := derivedCell_of_store x C i _ hout (hall _ (List.getElem_mem hi'))
  have hinv := (groupCell_derived_inv H metas g.key).1
  rw [derived_col_is_cell x C g hg i hi]
  generalize groupCell cfg (runStore x cfg ops).now q pl (includedFields cfg q) metas
    (e2eScan x cfg ops q metas) g.key i = s at hinv
  cases s with
  | none => trivial
  | some s => exact ⟨hinv.1, by have := hinv.2.1; omega⟩

end

/-- what `Flatten` reads for one field: the value of the accumulation `ps` of the bucket — but, for
    a non-constant field, only when the period is physically present in the column -/
def readVal (x : Ext) (f : Field) (c : Sq) (res T : Int) (ps : List Pt) : Option Rat :=
  if f.ex.isConstant then f.ex.val x (f.ex.acc x ps)
  else if spanHas c res T then f.ex.val x (f.ex.acc x ps) else none

/-- FLATTEN, EXACTLY: the values the loop body of `Flatten` sees in a grouped row at a grid time -/
theorem derived_flat_vs (x : Ext) {cfg : TableCfg} {ops : List StoreOp} {q : Query} {metas : List KeyMeta} {pl : Plan}
    (C : DerivedCtx x cfg ops q metas pl) (hall : ∀ f ∈ q.outFields, DerivedField x cfg ops q f)
    (g : Row) (hg : g ∈ e2eGroup x cfg ops q metas pl) (T : Int)
    (hT : (gUntilOf cfg (runStore x cfg ops).now pl - T) % gResOf cfg pl = 0) :
    (q.outFields.zip g.cols).map (fun (fc : Field × Sq) =>
        (Sq.valueAtTime x fc.2 fc.1.ex (gResOf cfg pl) T, fc.1.ex.isConstant)) =
      (q.outFields.zip g.cols).map (fun (fc : Field × Sq) =>
        (readVal x fc.1 fc.2 (gResOf cfg pl) T (e2eBucket x cfg ops q metas pl g.key T), fc.1.ex.isConstant)) := by
  have hw := groupRows_width cfg _ q pl _ metas _ g hg
  apply List.ext_getElem
  · simp
  · intro i h1 h2
    have hi1 : i < q.outFields.length := by simp at h1; omega
    have hi2 : i < g.cols.length := by simp at h1; omega
    have hout : q.outFields[i]? = some (q.outFields[i]) := List.getElem?_eq_getElem hi1
    have df := hall _ (List.getElem_mem hi1)
    simp only [List.getElem_map, List.getElem_zip]
    congr 1
    unfold readVal
    by_cases hc : (q.outFields[i]).ex.isConstant = true
    · rw [if_pos hc]; exact valueAtTime_const x df.valid df.noPtile hc _ _ _ _
    · have hnc : (q.outFields[i]).ex.isConstant = false := by simpa using hc
      rw [if_neg hc, valueAtTime_span x _ hnc C.base.resPos _
        (derived_group_onGrid x C hall g hg _ (List.getElem_mem hi2)) T hT,
        derived_col_is_cell x C g hg i hi2, derived_cell_at x C i _ hout df g.key T hT]

end Zeno
