/-
Derived selected expressions, part 35 (stage 3): a resolved expression that has state has a closure
from some scanned column.
-/
import ZenoModel.Lemmas.DerivedSpan5
set_option linter.unusedSimpArgs false
set_option linter.unusedVariables false
namespace Zeno

/-- `e` has a closure from the kept column `j` -/
def HasClosure (e : Ex) (subs : List Ex) : Prop :=
  ∃ j cj, subs[j]? = some cj ∧ FirstCol subs j ∧ ((e.subMergers subs).getD j none).isSome = true

theorem firstCol_of_match {n : Ex} {subs : List Ex} {i : Nat} (hm : n.matchIdx subs = some i)
    (hs : subs[i]? = some n) : FirstCol subs i := by
  obtain ⟨_, _, _, hlt⟩ := matchIdx_some hm
  intro i' hi' s t hs' ht
  rw [hs] at ht; injection ht with ht; subst ht
  cases hc : s.sameStr n with
  | false => rfl
  | true => have := hlt i' hi' s hs'; rw [sameStr_symm hc] at this; cases this

/-- a node that resolves to the column that IS the node -/
theorem hasClosure_matched {n : Ex} {subs : List Ex} {i : Nat} (hm : n.matchIdx subs = some i)
    (hr : (subs[i]? == some n) = true)
    (hsm : ∀ cj, subs[i]? = some cj → (n.subMergers subs).getD i none = if n.sameStr cj then some (.direct n) else none) :
    HasClosure n subs := by
  have hs : subs[i]? = some n := by simpa using hr
  refine ⟨i, n, hs, firstCol_of_match hm hs, ?_⟩
  rw [hsm n hs, if_pos (sameStr_refl n)]; rfl

theorem hasClosure_bin (op : BinOp) (l r : Ex) (subs : List Ex) (hm : (Ex.bin op l r).matchIdx subs = none)
    (h : HasClosure l subs ∨ HasClosure r subs) : HasClosure (.bin op l r) subs := by
  have hm' := hm
  unfold Ex.matchIdx at hm'
  have key : ∀ j cj, subs[j]? = some cj → FirstCol subs j →
      (((l.subMergers subs).getD j none).isSome = true ∨ ((r.subMergers subs).getD j none).isSome = true) →
      HasClosure (.bin op l r) subs := by
    intro j cj hj hf hsome
    have hjl : j < subs.length := by
      rcases Nat.lt_or_ge j subs.length with h | h
      · exact h
      · rw [List.getElem?_eq_none h] at hj; cases hj
    refine ⟨j, cj, hj, hf, ?_⟩
    simp only [Ex.subMergers, hm']
    rw [getD_range_map _ _ j hjl]
    cases ha : (l.subMergers subs).getD j none <;> cases hb : (r.subMergers subs).getD j none <;>
      simp_all [combinedSM]
  rcases h with ⟨j, cj, hj, hf, hs⟩ | ⟨j, cj, hj, hf, hs⟩
  · exact key j cj hj hf (Or.inl hs)
  · exact key j cj hj hf (Or.inr hs)

/-- every resolved expression with state has a closure -/
theorem hasClosure_of_resolved (subs : List Ex) : ∀ (e : Ex), e.resolved subs = true → e.width ≠ 0 →
    HasClosure e subs := by
  intro e
  induction e with
  | field n => intro _ hw; simp [Ex.width] at hw
  | const v => intro _ hw; simp [Ex.width] at hw
  | agg k w _ =>
    intro hr _
    cases hm : (Ex.agg k w).matchIdx subs with
    | none => simp [Ex.resolved, hm] at hr
    | some i =>
      simp only [Ex.resolved, hm] at hr
      exact hasClosure_matched hm hr (fun cj hj => by simp only [Ex.subMergers]; exact getD_map_sub subs _ i cj hj)
  | avg v w _ _ =>
    intro hr _
    cases hm : (Ex.avg v w).matchIdx subs with
    | none => simp [Ex.resolved, hm] at hr
    | some i =>
      simp only [Ex.resolved, hm] at hr
      exact hasClosure_matched hm hr (fun cj hj => by simp only [Ex.subMergers]; exact getD_map_sub subs _ i cj hj)
  | bin op l r ihl ihr =>
    intro hr hw
    cases hm : (Ex.bin op l r).matchIdx subs with
    | some i =>
      simp only [Ex.resolved, hm] at hr
      have hs : subs[i]? = some (Ex.bin op l r) := by simpa using hr
      have hil : i < subs.length := by
        rcases Nat.lt_or_ge i subs.length with h | h
        · exact h
        · rw [List.getElem?_eq_none h] at hs; cases hs
      have hm' := hm
      unfold Ex.matchIdx at hm'
      refine ⟨i, _, hs, firstCol_of_match hm hs, ?_⟩
      simp only [Ex.subMergers, hm']
      rw [getD_range_map _ _ i hil, if_pos rfl]; rfl
    | none =>
      simp only [Ex.resolved, hm, Bool.and_eq_true] at hr
      simp only [Ex.width] at hw
      apply hasClosure_bin op l r subs hm
      by_cases hl : l.width = 0
      · exact Or.inr (ihr hr.2 (by omega))
      · exact Or.inl (ihl hr.1 hl)
  | ifE c w ih =>
    intro hr hw
    cases hm : (Ex.ifE c w).matchIdx subs with
    | some i =>
      simp only [Ex.resolved, hm] at hr
      exact hasClosure_matched hm hr (fun cj hj => by
        simp only [Ex.subMergers, matchIdx_any_true hm, if_true]; exact getD_map_sub subs _ i cj hj)
    | none =>
      simp only [Ex.resolved, hm] at hr
      obtain ⟨j, cj, hj, hf, hs⟩ := ih hr hw
      refine ⟨j, cj, hj, hf, ?_⟩
      simp only [Ex.subMergers, matchIdx_any_false hm, Bool.false_eq_true, if_false]
      rw [List.getD_eq_getElem?_getD, List.getElem?_map]
      rw [List.getD_eq_getElem?_getD] at hs
      cases hg : (w.subMergers subs)[j]? with
      | none => rw [hg] at hs; simp at hs
      | some sm => rw [hg] at hs; cases sm <;> simp_all
  | bounded w lo hi ih =>
    intro hr hw
    cases hm : (Ex.bounded w lo hi).matchIdx subs with
    | some i =>
      simp only [Ex.resolved, hm] at hr
      exact hasClosure_matched hm hr (fun cj hj => by
        simp only [Ex.subMergers, matchIdx_any_true hm, if_true]; exact getD_map_sub subs _ i cj hj)
    | none =>
      simp only [Ex.resolved, hm] at hr
      obtain ⟨j, cj, hj, hf, hs⟩ := ih hr hw
      refine ⟨j, cj, hj, hf, ?_⟩
      simpa only [Ex.subMergers, matchIdx_any_false hm, Bool.false_eq_true, if_false] using hs
  | unary f w ih =>
    intro hr hw
    cases hm : (Ex.unary f w).matchIdx subs with
    | some i =>
      simp only [Ex.resolved, hm] at hr
      exact hasClosure_matched hm hr (fun cj hj => by
        simp only [Ex.subMergers, matchIdx_any_true hm, if_true]; exact getD_map_sub subs _ i cj hj)
    | none =>
      simp only [Ex.resolved, hm] at hr
      obtain ⟨j, cj, hj, hf, hs⟩ := ih hr hw
      refine ⟨j, cj, hj, hf, ?_⟩
      simpa only [Ex.subMergers, matchIdx_any_false hm, Bool.false_eq_true, if_false] using hs
  | shift w off _ => intro hr; simp [Ex.resolved] at hr
  | ptile id v pe n _ _ => intro hr; simp [Ex.resolved] at hr

/-- … which is the closure `core.Group` uses -/
theorem colSM_of_hasClosure {e : Ex} {subs : List Ex} (h : HasClosure e subs) :
    ∃ j, j < subs.length ∧ (colSM e subs j).isSome = true := by
  obtain ⟨j, cj, hj, hf, hs⟩ := h
  have hjl : j < subs.length := by
    rcases Nat.lt_or_ge j subs.length with h | h
    · exact h
    · rw [List.getElem?_eq_none h] at hj; cases hj
  refine ⟨j, hjl, ?_⟩
  rw [colSM_eq e subs j cj hj, (dedup_test_iff subs j cj hj).mpr hf]
  exact hs

end Zeno
