/-
Derived selected expressions, part 37 (stage 3): under `ScanSpans`, `Flatten` and `specOut` build the
same row at EVERY non-empty bucket; hence `runQuery`'s rows = `specQuery`'s rows + rows on empty buckets.
-/
import ZenoModel.Lemmas.DerivedSpan7
set_option linter.unusedSimpArgs false
set_option linter.unusedVariables false
namespace Zeno

section
variable (x : Ext) {cfg : TableCfg} {ops : List StoreOp} {q : Query} {metas : List KeyMeta} {pl : Plan}
  (C : DerivedCtx x cfg ops q metas pl) (hall : ∀ f ∈ q.outFields, DerivedField x cfg ops q f)
  (SS : ScanSpans x cfg ops q metas pl) (hst : StatefulFields q)
include C hall SS hst

/-- FLATTEN = SPEC at every non-empty bucket -/
theorem derived_flatAt_bucket (g : Row) (hg : g ∈ e2eGroup x cfg ops q metas pl) (T : Int)
    (hB : e2eBucket x cfg ops q metas pl g.key T ≠ []) :
    flatAt x q.outFields (gResOf cfg pl) g T = e2eSpecAt x cfg ops q metas pl g.key T := by
  obtain ⟨_, hT, _⟩ := bucket_member_row x C hall SS g.key T hB
  have hw := groupRows_width cfg _ q pl _ metas _ g hg
  unfold e2eSpecAt
  rw [flatAt_rowOf, derived_flat_vs x C hall g hg T hT, specAt_rowOf]
  congr 1
  apply zip_map_eq_map _ _ _ _ hw
  intro i h1 h2
  simp only
  congr 1
  unfold readVal
  split
  · rfl
  · rename_i hc
    have hwd : (q.outFields[i]).ex.width ≠ 0 := by
      rcases hst _ (List.getElem_mem h1) with h | h
      · exact absurd h hc
      · exact h
    rw [if_pos (derived_span_of_bucket x C hall SS g hg T hB i h2 h1 hwd)]
    rfl

/-- a key with a non-empty bucket has a grouped row -/
theorem derived_group_row_of_bucket (k : Key) (T : Int) (hB : e2eBucket x cfg ops q metas pl k T ≠ []) :
    ∃ g ∈ e2eGroup x cfg ops q metas pl, g.key = k := by
  obtain ⟨_, _, r, hr, _⟩ := bucket_member_row x C hall SS k T hB
  obtain ⟨hr1, hr2⟩ := List.mem_filter.mp hr
  have hk : gSlice q r.key = k := by simpa using hr2
  have := ((groupRows_keys cfg (runStore x cfg ops).now q pl (includedFields cfg q) metas
    (e2eScan x cfg ops q metas)).2 k).mpr ⟨r, hr1, hk⟩
  obtain ⟨g, hg, hgk⟩ := List.mem_map.mp this
  exact ⟨g, hg, hgk⟩

/-- DECOMPOSITION before HAVING: the rows of `runQuery` are the rows of `specQuery` plus rows on
    empty buckets -/
theorem derived_mem_decomp (row : QRow) :
    (row ∈ e2eSpecFlat x cfg ops q metas pl → row ∈ e2eFlat x cfg ops q metas pl) ∧
    (row ∈ e2eFlat x cfg ops q metas pl →
      row ∈ e2eSpecFlat x cfg ops q metas pl ∨ e2eBucket x cfg ops q metas pl row.key row.ts = []) := by
  constructor
  · intro hs
    unfold e2eSpecFlat at hs
    obtain ⟨kT, hb, hrow⟩ := List.mem_filterMap.mp hs
    obtain ⟨k, T⟩ := kT
    simp only at hrow
    have hB := bucket_nonempty_of_visited q _ (specAdj metas) _ _ _ k T hb
    obtain ⟨hw, hT⟩ := specBuckets_window C.base.resPos hb
    obtain ⟨hk, hts, _⟩ := specAt_some x q metas _ _ _ _ k T row hrow
    obtain ⟨g, hg, rfl⟩ := derived_group_row_of_bucket x C hall SS hst k T hB
    rw [mem_e2eFlat x C hall row]
    refine ⟨g, hg, hk.symm, by rw [hts]; exact hT, ?_⟩
    rw [hts, derived_flatAt_bucket x C hall SS hst g hg T hB]
    exact hrow
  · intro hf
    by_cases hB : e2eBucket x cfg ops q metas pl row.key row.ts = []
    · exact Or.inr hB
    · left
      obtain ⟨g, hg, hk, hT, hrow⟩ := (mem_e2eFlat x C hall row).mp hf
      rw [← hk] at hB
      rw [derived_flatAt_bucket x C hall SS hst g hg row.ts hB] at hrow
      unfold e2eSpecFlat
      exact List.mem_filterMap.mpr ⟨(g.key, row.ts), specBuckets_of_nonempty q _ (specAdj metas) _ _ _ _ _ hB, hrow⟩

/-- STAGE 3 under `ScanSpans`: both succeed; every row of `specQuery` is a row of `runQuery`, and every
    other row of `runQuery` sits on an empty bucket (known finding empty-bucket-row) — HAVING included -/
theorem derived_runQuery_decomp (hne : (includedFields cfg q).isEmpty = false) (hng : pl.needsGroupBy = true) :
    ∃ R S, runQuery x cfg (runStore x cfg ops) q metas true = .ok R ∧
      specQuery x cfg true (pointsOf ops) q metas = .ok S ∧
      (∀ row, row ∈ S → row ∈ R) ∧
      (∀ row, row ∈ R → row ∈ S ∨ e2eBucket x cfg ops q metas pl row.key row.ts = []) := by
  obtain ⟨h1, h2⟩ := derived_results x C hall hne hng
  refine ⟨_, _, h1, h2, ?_, ?_⟩
  · intro row hr
    by_cases hh : q.hasHaving = true
    · rw [if_pos hh] at hr ⊢
      rw [mem_havingFilter] at hr ⊢
      obtain ⟨r0, h0, hl, he⟩ := hr
      exact ⟨r0, (derived_mem_decomp x C hall SS hst r0).1 h0, hl, he⟩
    · rw [if_neg hh] at hr ⊢
      exact (derived_mem_decomp x C hall SS hst row).1 hr
  · intro row hr
    by_cases hh : q.hasHaving = true
    · rw [if_pos hh] at hr ⊢
      rw [mem_havingFilter] at hr
      obtain ⟨r0, h0, hl, he⟩ := hr
      rcases (derived_mem_decomp x C hall SS hst r0).2 h0 with h | h
      · exact Or.inl ((mem_havingFilter _ _).mpr ⟨r0, h, hl, he⟩)
      · right; rw [he]; exact h
    · rw [if_neg hh] at hr ⊢
      exact (derived_mem_decomp x C hall SS hst row).2 hr

end

end Zeno
