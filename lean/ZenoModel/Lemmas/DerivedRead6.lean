/-
Derived selected expressions, part 29 (stage 3): the EXTRA rows of `runQuery` (known finding
empty-bucket-row), characterised: a row at a slot whose spec bucket is empty exists exactly when some
non-constant selected field has a value on the empty state and the period is physically present in
that field's grouped column; it is not a row of `specQuery`; its values are read from empty states.
-/
import ZenoModel.Lemmas.DerivedRead5
set_option linter.unusedSimpArgs false
set_option linter.unusedVariables false
namespace Zeno

theorem rowOf_some_vals (vs : List (Option Rat × Bool)) (ts : Int) (key : Key) (row : QRow)
    (h : rowOf vs ts key = some row) : row.vals = vs.map (fun p => p.1.getD 0) := by
  unfold rowOf at h
  split at h
  · injection h with h; rw [← h]
  · cases h

theorem rowOf_isSome_iff (vs : List (Option Rat × Bool)) (ts : Int) (key : Key) :
    (∃ row, rowOf vs ts key = some row) ↔ ∃ p ∈ vs, p.1.isSome = true ∧ p.2 = false := by
  unfold rowOf
  constructor
  · intro ⟨row, h⟩
    split at h
    · rename_i hany
      obtain ⟨p, hp, hc⟩ := List.any_eq_true.mp hany
      simp only [Bool.and_eq_true, Bool.not_eq_true'] at hc
      exact ⟨p, hp, hc.1, hc.2⟩
    · cases h
  · intro ⟨p, hp, h1, h2⟩
    have : vs.any (fun p => p.1.isSome && !p.2) = true := List.any_eq_true.mpr ⟨p, hp, by simp [h1, h2]⟩
    rw [if_pos this]
    exact ⟨_, rfl⟩

/-- a visited bucket holds an accepted row -/
theorem bucket_nonempty_of_visited (q : Query) (A : List AccRow) (adj : AccRow → Pt) (lo hi P : Int) (k : Key) (T : Int)
    (h : (k, T) ∈ specBuckets q A lo hi P) : specBucketPts q A adj lo hi P k T ≠ [] := by
  obtain ⟨a, ha, hw, hk, hT⟩ := (mem_specBuckets q A lo hi P k T).mp h
  unfold specBucketPts
  intro hnil
  rw [List.map_eq_nil_iff, List.filter_eq_nil_iff] at hnil
  have hm : a ∈ A.filter (fun r => decide (lo < r.period ∧ r.period ≤ hi)) :=
    List.mem_filter.mpr ⟨ha, by simpa using hw⟩
  have := hnil a hm
  simp [hk, hT] at this

/-- the empty-state reading of a non-constant field at a physically present period -/
def EmptyRead (x : Ext) (res T : Int) (fc : Field × Sq) : Prop :=
  fc.1.ex.isConstant = false ∧ spanHas fc.2 res T = true ∧ fc.1.ex.val x fc.1.ex.empty ≠ none

theorem readVal_nil_isSome (x : Ext) (fc : Field × Sq) (res T : Int) (hnc : fc.1.ex.isConstant = false) :
    (readVal x fc.1 fc.2 res T []).isSome = true ↔ spanHas fc.2 res T = true ∧ fc.1.ex.val x fc.1.ex.empty ≠ none := by
  unfold readVal
  rw [if_neg (by simp [hnc])]
  have h0 : fc.1.ex.acc x [] = fc.1.ex.empty := rfl
  by_cases hs : spanHas fc.2 res T = true
  · rw [if_pos hs, h0]
    cases fc.1.ex.val x fc.1.ex.empty <;> simp [hs]
  · rw [if_neg hs]; simp [hs]

section
variable (x : Ext) {cfg : TableCfg} {ops : List StoreOp} {q : Query} {metas : List KeyMeta} {pl : Plan}
  (C : DerivedCtx x cfg ops q metas pl) (hall : ∀ f ∈ q.outFields, DerivedField x cfg ops q f)
include C hall

/-- at an EMPTY bucket, `Flatten` builds a row iff some non-constant field reads a value from the
    empty state at a physically present period -/
theorem derived_empty_slot_row_iff (g : Row) (hg : g ∈ e2eGroup x cfg ops q metas pl) (T : Int)
    (hT : (gUntilOf cfg (runStore x cfg ops).now pl - T) % gResOf cfg pl = 0)
    (hB : e2eBucket x cfg ops q metas pl g.key T = []) :
    (∃ row, flatAt x q.outFields (gResOf cfg pl) g T = some row) ↔
      ∃ fc ∈ q.outFields.zip g.cols, EmptyRead x (gResOf cfg pl) T fc := by
  rw [flatAt_rowOf, derived_flat_vs x C hall g hg T hT, hB, rowOf_isSome_iff]
  constructor
  · intro ⟨p, hp, h1, h2⟩
    obtain ⟨fc, hfc, rfl⟩ := List.mem_map.mp hp
    simp only at h1 h2
    exact ⟨fc, hfc, h2, (readVal_nil_isSome x fc _ _ h2).mp h1⟩
  · intro ⟨fc, hfc, hnc, hs, hv⟩
    exact ⟨_, List.mem_map.mpr ⟨fc, hfc, rfl⟩, (readVal_nil_isSome x fc _ _ hnc).mpr ⟨hs, hv⟩, hnc⟩

/-- EXTRA ROWS: a row of `runQuery` (before HAVING) at a slot whose spec bucket is empty is not a row
    of `specQuery`; it stems from an empty-state reading, and all its values are such readings -/
theorem derived_extra_row (row : QRow) (hr : row ∈ e2eFlat x cfg ops q metas pl)
    (hB : e2eBucket x cfg ops q metas pl row.key row.ts = []) :
    row ∉ e2eSpecFlat x cfg ops q metas pl ∧
      ∃ g ∈ e2eGroup x cfg ops q metas pl, g.key = row.key ∧
        (∃ fc ∈ q.outFields.zip g.cols, EmptyRead x (gResOf cfg pl) row.ts fc) ∧
        row.vals = (q.outFields.zip g.cols).map (fun fc => (readVal x fc.1 fc.2 (gResOf cfg pl) row.ts []).getD 0) := by
  constructor
  · intro hs
    unfold e2eSpecFlat at hs
    obtain ⟨kT, hb, hrow⟩ := List.mem_filterMap.mp hs
    obtain ⟨h1, h2, _⟩ := specAt_some x q metas _ _ _ _ kT.1 kT.2 row hrow
    have := bucket_nonempty_of_visited q _ (specAdj metas) _ _ _ kT.1 kT.2 hb
    rw [← h1, ← h2] at this
    exact this hB
  · obtain ⟨g, hg, hk, hT, hrow⟩ := (mem_e2eFlat x C hall row).mp hr
    rw [← hk] at hB
    refine ⟨g, hg, hk, (derived_empty_slot_row_iff x C hall g hg row.ts hT hB).mp ⟨row, hrow⟩, ?_⟩
    rw [flatAt_rowOf, derived_flat_vs x C hall g hg row.ts hT, hB] at hrow
    rw [rowOf_some_vals _ _ _ _ hrow, List.map_map]
    rfl

end

end Zeno
