/-
Helper lemmas for C17 (Model/Coalesce.lean): the field union, the mapping back to an
iteration's own columns, and the decomposition of the shared scan into independent
per-iteration runs.  Core Lean only.
-/
import ZenoModel.Model.Coalesce

set_option linter.unusedSimpArgs false
set_option linter.unusedVariables false

/-! ## Specification vocabulary (what "the result it would get alone" means) -/
namespace Zeno.CoalesceSpec
open Zeno.Coalesce

/-- the value of field `f` in a positional row over the field list `union`
    (first position holding `f`; nil when `f` is not a column of the scan) -/
def lookupField : List FieldId → List Val → FieldId → Val
  | u :: us, v :: vs, f => if u == f then v else lookupField us vs f
  | _, _, _ => none

/-- projection of a positional row over `union` onto `fields`, in the order of `fields` -/
def projectRow (union fields : List FieldId) (r : Row) : Recv :=
  (r.key, fields.map (lookupField union r.vals))

/-- an iteration consuming ONE row that is already laid out for it: the callback, then the
    iteration's own deadline check; a finished iteration ignores the row -/
def consumeStep {σ : Type} (it : Iter σ) (n : Nat) (rv : Recv) (s : ItState σ) : ItState σ :=
  match s.done with
  | some _ => s
  | none =>
    let (st', more, err) := it.onValue s.st rv.1 rv.2
    let (more, err) := proceedAfter (timedOut it.deadline n) more err
    if !more || err.isSome then { st := st', recv := s.recv ++ [rv], done := some err }
    else { st := st', recv := s.recv ++ [rv], done := none }

/-- an iteration consuming a sequence of rows laid out for it, first row has scan index `n` -/
def consume {σ : Type} (it : Iter σ) : Nat → List Recv → ItState σ → ItState σ
  | _, [], s => s
  | n, rv :: rvs, s => consume it (n + 1) rvs (consumeStep it n rv s)

/-- what iteration `it` gets from a scan that yields `rows` (laid out for it) and then ends
    with `fail`: this is the behaviour of a query that runs alone -/
def alone {σ : Type} (it : Iter σ) (rows : List Recv) (fail : Option Err) : ItResult σ :=
  (consume it 0 rows it.start).result fail

end Zeno.CoalesceSpec

namespace Zeno.Coalesce
open Zeno.CoalesceSpec

/-! ## union of the requested fields -/

theorem contains_iff (l : List FieldId) (f : FieldId) : l.contains f = true ↔ f ∈ l := by
  simp

theorem mem_addFields (acc fs : List FieldId) (f : FieldId) :
    f ∈ addFields acc fs ↔ f ∈ acc ∨ f ∈ fs := by
  induction fs generalizing acc with
  | nil => simp [addFields]
  | cons g gs ih =>
    simp only [addFields, ih]
    by_cases h : g ∈ acc
    · simp [h]; constructor
      · rintro (h' | h') <;> simp [h']
      · rintro (h' | h' | h')
        · exact Or.inl h'
        · subst h'; exact Or.inl h
        · exact Or.inr h'
    · simp [h]; constructor
      · rintro ((h' | h') | h') <;> simp [h']
      · rintro (h' | h' | h') <;> simp [h']

theorem addFields_nodup (acc fs : List FieldId) (h : acc.Nodup) : (addFields acc fs).Nodup := by
  induction fs generalizing acc with
  | nil => simpa [addFields]
  | cons g gs ih =>
    simp only [addFields]
    apply ih
    by_cases hg : g ∈ acc
    · simp [hg, h]
    · simp [hg]
      exact List.nodup_append.mpr ⟨h, by simp, by
        intro a ha b hb
        simp at hb; subst hb
        intro hab; subst hab; exact hg ha⟩

/-- the accumulated prefix is never reordered: first-occurrence order -/
theorem addFields_prefix (acc fs : List FieldId) : acc <+: addFields acc fs := by
  induction fs generalizing acc with
  | nil => simp [addFields]
  | cons g gs ih =>
    simp only [addFields]
    by_cases hg : g ∈ acc
    · simpa [hg] using ih acc
    · simp [hg]
      exact List.IsPrefix.trans (List.prefix_append acc [g]) (ih (acc ++ [g]))

/-- a duplicate-free request that adds only new fields is appended as it is -/
theorem addFields_fresh (acc fs : List FieldId) (hnd : fs.Nodup) (hdis : ∀ f ∈ fs, f ∉ acc) :
    addFields acc fs = acc ++ fs := by
  induction fs generalizing acc with
  | nil => simp [addFields]
  | cons g gs ih =>
    have hg : g ∉ acc := hdis g (by simp)
    simp only [addFields]
    simp [hg]
    have hnd' := List.nodup_cons.mp hnd
    rw [ih (acc ++ [g]) hnd'.2]
    · simp
    · intro f hf
      simp
      exact ⟨hdis f (by simp [hf]), fun h => hnd'.1 (h ▸ hf)⟩

theorem mem_unionFields {σ : Type} (its : List (Iter σ)) (acc : List FieldId) (f : FieldId) :
    f ∈ unionFields its acc ↔ f ∈ acc ∨ ∃ it ∈ its, f ∈ it.fields := by
  induction its generalizing acc with
  | nil => simp [unionFields]
  | cons it its ih =>
    simp only [unionFields, ih, mem_addFields]
    constructor
    · rintro ((h | h) | ⟨it', h1, h2⟩)
      · exact Or.inl h
      · exact Or.inr ⟨it, by simp, h⟩
      · exact Or.inr ⟨it', by simp [h1], h2⟩
    · rintro (h | ⟨it', h1, h2⟩)
      · exact Or.inl (Or.inl h)
      · simp at h1
        rcases h1 with h1 | h1
        · subst h1; exact Or.inl (Or.inr h2)
        · exact Or.inr ⟨it', h1, h2⟩

theorem unionFields_nodup {σ : Type} (its : List (Iter σ)) (acc : List FieldId) (h : acc.Nodup) :
    (unionFields its acc).Nodup := by
  induction its generalizing acc with
  | nil => simpa [unionFields]
  | cons it its ih => exact ih _ (addFields_nodup _ _ h)

theorem unionFields_single {σ : Type} (it : Iter σ) (h : it.fields.Nodup) :
    unionFields [it] [] = it.fields := by
  simp [unionFields, addFields_fresh [] it.fields h (by simp)]

/-! ## mapping back = projection -/

theorem lookupField_map (U : List FieldId) (g : FieldId → Val) (f : FieldId) (h : f ∈ U) :
    lookupField U (U.map g) f = g f := by
  induction U with
  | nil => simp at h
  | cons u us ih =>
    simp only [List.map, lookupField]
    by_cases hu : u = f
    · simp [hu]
    · have : (u == f) = false := by simp [hu]
      rw [this]
      simp at h
      rcases h with h | h
      · exact absurd h.symm hu
      · simpa using ih h

theorem lookupField_not_mem (U : List FieldId) (vs : List Val) (f : FieldId) (h : f ∉ U) :
    lookupField U vs f = none := by
  induction U generalizing vs with
  | nil => simp [lookupField]
  | cons u us ih =>
    cases vs with
    | nil => simp [lookupField]
    | cons v vs =>
      simp at h
      have : (u == f) = false := by simp; exact fun e => h.1 e.symm
      simp [lookupField, this, ih vs h.2]

/-- projecting a row laid out for `F` onto `F` itself changes nothing -/
theorem map_lookupField_self (F : List FieldId) (vs : List Val) (hnd : F.Nodup)
    (hlen : vs.length = F.length) : F.map (lookupField F vs) = vs := by
  induction F generalizing vs with
  | nil => cases vs <;> simp_all
  | cons f fs ih =>
    cases vs with
    | nil => simp at hlen
    | cons v vs =>
      have hnd' := List.nodup_cons.mp hnd
      have hrest : List.map (lookupField (f :: fs) (v :: vs)) fs = List.map (lookupField fs vs) fs := by
        apply List.map_congr_left
        intro g hg
        have : (f == g) = false := by simp; exact fun e => hnd'.1 (e ▸ hg)
        simp [lookupField, this]
      show lookupField (f :: fs) (v :: vs) f :: List.map (lookupField (f :: fs) (v :: vs)) fs = v :: vs
      rw [hrest, ih vs hnd'.2 (by simpa using hlen)]
      simp [lookupField]

/-- one assignment `itVals[indexOfOutField(u)] = v` on a value array that is a function of
    the field: only the (unique) position of `u` changes -/
theorem assign_map (F : List FieldId) (hnd : F.Nodup) (g : FieldId → Val) (u : FieldId) (v : Val) :
    assign F (F.map g) u v = F.map (fun f => if f == u then v else g f) := by
  unfold assign
  induction F with
  | nil => simp [indexOfOutField]
  | cons f fs ih =>
    have hnd' := List.nodup_cons.mp hnd
    simp only [indexOfOutField]
    by_cases hf : f = u
    · subst hf
      simp
      intro a ha e
      exact absurd (e ▸ ha) hnd'.1
    · have hfu : (f == u) = false := by simp [hf]
      simp only [hfu]
      have ih' := ih hnd'.2
      cases hidx : indexOfOutField fs u with
      | none =>
        rw [hidx] at ih'
        simp at ih'
        simp [hf]
        exact ih'
      | some j =>
        rw [hidx] at ih'
        simp at ih'
        simp [hf]
        exact ih'

theorem mapBackInto_eq (F : List FieldId) (hnd : F.Nodup) (us : List FieldId) (vs : List Val)
    (hus : us.Nodup) (g : FieldId → Val) :
    mapBackInto F us vs (F.map g) =
      F.map (fun f => if f ∈ us.take vs.length then lookupField us vs f else g f) := by
  induction us generalizing vs g with
  | nil => simp [mapBackInto]
  | cons u us ih =>
    cases vs with
    | nil => simp [mapBackInto]
    | cons v vs =>
      have hus' := List.nodup_cons.mp hus
      simp only [mapBackInto]
      rw [assign_map F hnd g u v, ih vs hus'.2]
      apply List.map_congr_left
      intro f hf
      simp only [List.length_cons, List.take_succ_cons, List.mem_cons, lookupField]
      by_cases hfu : f = u
      · subst hfu
        have : f ∉ us.take vs.length := fun h => hus'.1 (List.mem_of_mem_take h)
        simp [this]
      · have h1 : (f == u) = false := by simp [hfu]
        have h2 : (u == f) = false := by simp; exact fun e => hfu e.symm
        simp [hfu, h1, h2]

/-- `mapBack` hands an iteration exactly the projection of the shared row onto its own
    fields, in its own order -/
theorem mapBack_eq_project (U F : List FieldId) (vs : List Val) (hU : U.Nodup) (hF : F.Nodup) :
    mapBack U F vs = F.map (lookupField U vs) := by
  have h0 : List.replicate F.length (none : Val) = F.map (fun _ => none) := by
    simp [List.map_const']
  unfold mapBack
  rw [h0, mapBackInto_eq F hF U vs hU]
  apply List.map_congr_left
  intro f hf
  by_cases h : f ∈ U.take vs.length
  · simp [h]
  · simp [h]
    -- f is not among the columns that have a value: lookup yields nil
    clear hf hF
    induction U generalizing vs with
    | nil => simp [lookupField]
    | cons u us ih =>
      cases vs with
      | nil => simp [lookupField]
      | cons v vs =>
        simp at h
        have : (u == f) = false := by simp; exact fun e => h.1 e.symm
        simp [lookupField, this]
        exact (ih vs (List.nodup_cons.mp hU).2 h.2)

/-! ## the shared scan decomposes into independent runs -/

theorem step_eq_consumeStep {σ : Type} (it : Iter σ) (U : List FieldId) (n : Nat) (r : Row)
    (s : ItState σ) :
    it.step U n r s = consumeStep it n (r.key, mapBack U it.fields r.vals) s := by
  unfold Iter.step consumeStep
  cases s.done <;> rfl

theorem consumeStep_done {σ : Type} (it : Iter σ) (n : Nat) (rv : Recv) (s : ItState σ)
    (h : s.done.isSome) : consumeStep it n rv s = s := by
  unfold consumeStep
  cases hd : s.done with
  | none => simp [hd] at h
  | some _ => rfl

theorem consume_done {σ : Type} (it : Iter σ) (n : Nat) (rvs : List Recv) (s : ItState σ)
    (h : s.done.isSome) : consume it n rvs s = s := by
  induction rvs generalizing n with
  | nil => rfl
  | cons rv rvs ih => simp [consume, consumeStep_done it n rv s h, ih]

/-- run of one iteration over the shared rows -/
def runIter {σ : Type} (it : Iter σ) (U : List FieldId) : Nat → List Row → ItState σ → ItState σ
  | _, [], s => s
  | n, r :: rs, s => runIter it U (n + 1) rs (it.step U n r s)

theorem runIter_eq_consume {σ : Type} (it : Iter σ) (U : List FieldId) (n : Nat) (rows : List Row)
    (s : ItState σ) :
    runIter it U n rows s = consume it n (rows.map (fun r => (r.key, mapBack U it.fields r.vals))) s := by
  induction rows generalizing n s with
  | nil => rfl
  | cons r rs ih => simp [runIter, consume, step_eq_consumeStep, ih]

theorem runIter_done {σ : Type} (it : Iter σ) (U : List FieldId) (n : Nat) (rows : List Row)
    (s : ItState σ) (h : s.done.isSome) : runIter it U n rows s = s := by
  rw [runIter_eq_consume]; exact consume_done _ _ _ _ h

theorem zipWith_zipWith_left {α β : Type} (f g : α → β → β) (as : List α) (bs : List β) :
    List.zipWith f as (List.zipWith g as bs) = List.zipWith (fun a b => f a (g a b)) as bs := by
  induction as generalizing bs with
  | nil => simp
  | cons a as ih => cases bs <;> simp [ih]

theorem zipWith_id_of_all {α β : Type} (f : α → β → β) (as : List α) (bs : List β)
    (hlen : as.length = bs.length) (h : ∀ a ∈ as, ∀ b ∈ bs, f a b = b) :
    List.zipWith f as bs = bs := by
  induction as generalizing bs with
  | nil => cases bs <;> simp_all
  | cons a as ih =>
    cases bs with
    | nil => simp at hlen
    | cons b bs =>
      simp
      exact ⟨h a (by simp) b (by simp), ih bs (by simpa using hlen)
        (fun a' ha' b' hb' => h a' (by simp [ha']) b' (by simp [hb']))⟩

/-- the shared scan is nothing but every iteration's own run over the same rows -/
theorem scanLoop_eq_runs {σ : Type} (its : List (Iter σ)) (U : List FieldId) (n : Nat)
    (rows : List Row) (ss : List (ItState σ)) (hlen : its.length = ss.length) :
    scanLoop its U n rows ss = List.zipWith (fun it s => runIter it U n rows s) its ss := by
  induction rows generalizing n ss with
  | nil =>
    simp only [scanLoop, runIter]
    exact (zipWith_id_of_all _ its ss hlen (fun _ _ _ _ => rfl)).symm
  | cons r rs ih =>
    simp only [scanLoop, runIter]
    have hlen' : its.length = (combined its U n r ss).length := by
      simp [combined, hlen]
    by_cases hrem : anyRemaining (combined its U n r ss) = true
    · simp only [hrem, if_true]
      rw [ih (n + 1) _ hlen']
      exact zipWith_zipWith_left _ _ its ss
    · simp only [hrem]
      have hall : ∀ s ∈ combined its U n r ss, s.done.isSome := by
        intro s hs
        simp [anyRemaining] at hrem
        have := hrem s hs
        cases hd : s.done <;> simp_all
      have := zipWith_id_of_all (fun it s => runIter it U (n + 1) rs s) its
        (combined its U n r ss) hlen' (fun it _ s hs => runIter_done it U (n + 1) rs s (hall s hs))
      rw [← zipWith_zipWith_left (fun it s => runIter it U (n + 1) rs s)
        (fun it s => it.step U n r s) its ss]
      exact this.symm

theorem zipWith_map_right {α β γ : Type} (f : α → β → γ) (g : α → β) (as : List α) :
    List.zipWith f as (as.map g) = as.map (fun a => f a (g a)) := by
  induction as with
  | nil => rfl
  | cons a as ih => simp [ih]

theorem count_eq_one_of_nodup (l : List FieldId) (f : FieldId) (h : l.Nodup) (hm : f ∈ l) :
    l.count f = 1 := by
  induction l with
  | nil => simp at hm
  | cons a l ih =>
    have h' := List.nodup_cons.mp h
    by_cases e : a = f
    · subst e
      simp [List.count_cons, List.count_eq_zero.mpr h'.1]
    · have : f ∈ l := by simpa [Ne.symm e, e] using hm
      have hne : (a == f) = false := by simp [e]
      simp [List.count_cons, ih h'.2 this, hne]

end Zeno.Coalesce
