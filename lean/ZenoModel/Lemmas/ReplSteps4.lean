/-
Per-event preservation of the replication invariant, part 4: msg, recv, apply (the follower).
-/
import ZenoModel.Lemmas.ReplSteps3

set_option linter.unusedVariables false
set_option linter.unusedSimpArgs false

namespace Zeno.Repl

set_option maxHeartbeats 4000000 in
theorem inv_msg {cx : Ctx} {s s' : State} (hi : Inv cx s) (f : FId) (l : LId) (o : Nat)
    (h : step cx s (.msg f l o) = some s') : Inv cx s' := by
  simp only [step] at h
  split at h
  · rename_i o' rest hq
    split at h
    · simp only [Option.some.injEq] at h
      subst h
      rename_i hguard
      obtain ⟨hfup, hlink, hinfl, rfl⟩ := hguard
      have hqs := hi.queueSorted l f
      rw [hq, List.pairwise_cons] at hqs
      have hwal := hi.queueWal l f o' (by rw [hq]; simp)
      inv_fields hi
      constructor
      all_goals (intros; try grind [List.Pairwise.nil])
      case linkCover =>
        rename_i l1 f1 t sp hlk hs e he hw hp hle
        simp only [] at hlk hs he hp ⊢
        by_cases hc : l1 = l ∧ f1 = f
        · obtain ⟨rfl, rfl⟩ := hc
          simp only [and_self, if_true]
          rcases hi.linkCover _ _ _ _ hlk hs e he hw hp hle with hq' | ⟨rem, hr, _⟩
          · rw [hq] at hq'
            rcases List.mem_cons.mp hq' with h1 | h1
            · right
              exact ⟨cx.tables, by rw [h1], (hi.specJoined _ _ _ _ hs).2⟩
            · exact Or.inl h1
          · rw [hinfl] at hr
            cases hr
        · have hc' : ¬ (f1 = f ∧ l1 = l) := fun h => hc ⟨h.2, h.1⟩
          simp only [hc, hc', if_false]
          exact hi.linkCover _ _ _ _ hlk hs e he hw hp hle
      case inflGap =>
        rename_i f1 l1 o1 rem t hinf ht e he hw hp hlt
        simp only [] at hinf he hp
        by_cases hc : f1 = f ∧ l1 = l
        · obtain ⟨rfl, rfl⟩ := hc
          simp only [and_self, if_true, Option.some.injEq, Prod.mk.injEq] at hinf
          obtain ⟨rfl, rfl⟩ := hinf
          obtain ⟨sp, hsp⟩ := hi.specLink _ _ t hlink ht
          by_cases hle : e.off ≤ sp
          · rcases hi.linkCover _ _ _ _ hlink hsp e he hw hp hle with hq' | ⟨rem, hr, _⟩
            · rw [hq] at hq'
              rcases List.mem_cons.mp hq' with h1 | h1
              · omega
              · have := hqs.1 _ h1
                omega
            · rw [hinfl] at hr
              cases hr
          · have hd := hi.queueDone _ _ _ _ hsp o' (by rw [hq]; simp)
            exact hi.gap _ _ _ _ hsp e he (by omega) (by omega) (wants_pid hw)
        · simp only [hc, if_false] at hinf
          exact hi.inflGap _ _ _ _ _ hinf ht e he hw hp hlt
    · cases h
  · cases h

set_option maxHeartbeats 4000000 in
theorem inv_recv {cx : Ctx} {s s' : State} (hi : Inv cx s) (f : FId) (t : TId) (l : LId) (o : Nat) (fwd : Bool)
    (h : step cx s (.recv f t l o fwd) = some s') : Inv cx s' := by
  simp only [step] at h
  split at h
  · rename_i o' t' rest hinf
    split at h
    · simp only [Option.some.injEq] at h
      subst h
      rename_i hguard
      obtain ⟨rfl, rfl, hfwd⟩ := hguard
      have hup := hi.inflUp f l _ hinf
      obtain ⟨e0, he0, he0o⟩ := hi.inflWal f l _ _ hinf
      have he0top := le_top he0
      have hgapI := hi.inflGap f l _ _ t' hinf (by simp)
      inv_fields hi
      constructor
      all_goals (intros; try grind [List.Pairwise.nil])
      case pendRange =>
        rename_i f1 t1 l1 hf1 o1 ho1
        simp only [] at hf1 ho1 ⊢
        by_cases hc : f1 = f ∧ t1 = t' ∧ l1 = l ∧ fwd = true
        · obtain ⟨rfl, rfl, rfl, rfl⟩ := hc
          simp only [and_self, if_true] at ho1 ⊢
          have hlt : s.prior f1 t1 l1 < o' := by simpa using hfwd.symm
          have hmp := hi.memLePrior f1 t1 l1 hf1
          rcases List.mem_append.mp ho1 with h1 | h1
          · have := hi.pendRange f1 t1 l1 hf1 o1 h1
            exact ⟨this.1, by omega, this.2.2⟩
          · simp only [List.mem_singleton] at h1
            subst h1
            exact ⟨by omega, Nat.le_refl _, e0, he0, he0o⟩
        · simp only [hc, if_false] at ho1 ⊢
          exact hi.pendRange f1 t1 l1 hf1 o1 ho1
      case pendCover =>
        rename_i f1 t1 l1 hf1 e he hw hlo hhi
        simp only [] at hf1 he hlo hhi ⊢
        by_cases hc : f1 = f ∧ t1 = t' ∧ l1 = l ∧ fwd = true
        · obtain ⟨rfl, rfl, rfl, rfl⟩ := hc
          simp only [and_self, if_true] at hhi ⊢
          have hlt : s.prior f1 t1 l1 < o' := by simpa using hfwd.symm
          by_cases hp : e.off ≤ s.prior f1 t1 l1
          · exact List.mem_append_left _ (hi.pendCover f1 t1 l1 hf1 e he hw hlo hp)
          · by_cases h2 : e.off < o'
            · exact (hgapI e he hw (by omega) h2).elim
            · apply List.mem_append_right
              simp only [List.mem_singleton]
              omega
        · simp only [hc, if_false] at hhi ⊢
          exact hi.pendCover f1 t1 l1 hf1 e he hw hlo hhi
      case linkCover =>
        rename_i l1 f1 t1 sp hlk hs e he hw hp hle
        simp only [] at hlk hs he hp ⊢
        have hpp : s.prior f1 t1 l1 < e.off := by
          by_cases hc : f1 = f ∧ t1 = t' ∧ l1 = l ∧ fwd = true
          · obtain ⟨rfl, rfl, rfl, rfl⟩ := hc
            simp only [and_self, if_true] at hp
            have hlt : s.prior f1 t1 l1 < o' := by simpa using hfwd.symm
            omega
          · simpa only [hc, if_false] using hp
        rcases hi.linkCover _ _ _ _ hlk hs e he hw hpp hle with hq | ⟨rem0, hr, htr⟩
        · exact Or.inl hq
        · right
          by_cases hc : f1 = f ∧ l1 = l
          · obtain ⟨rfl, rfl⟩ := hc
            rw [hinf] at hr
            simp only [Option.some.injEq, Prod.mk.injEq] at hr
            obtain ⟨ho, hrem⟩ := hr
            subst hrem
            refine ⟨rest, by simp [ho], ?_⟩
            rcases List.mem_cons.mp htr with h1 | h1
            · -- this very table has just been handed the entry
              subst h1
              exfalso
              cases hfw : fwd
              · simp only [hfw, Bool.false_eq_true, and_false, if_false] at hp
                have : ¬ s.prior f1 t1 l1 < o' := by simpa [hfw] using hfwd.symm
                omega
              · simp only [hfw, and_self, if_true] at hp
                omega
            · exact h1
          · exact ⟨rem0, by simp only [hc, if_false]; exact hr, htr⟩
      case inflWal =>
        rename_i f1 l1 o1 rem hr
        simp only [] at hr ⊢
        by_cases hc : f1 = f ∧ l1 = l
        · obtain ⟨rfl, rfl⟩ := hc
          simp only [and_self, if_true, Option.some.injEq, Prod.mk.injEq] at hr
          exact ⟨e0, he0, by omega⟩
        · simp only [hc, if_false] at hr
          exact hi.inflWal _ _ _ _ hr
      case inflGap =>
        rename_i f1 l1 o1 rem t1 hr ht e he hw hp hlt
        simp only [] at hr he hp
        have hpp : s.prior f1 t1 l1 < e.off := by
          by_cases hc : f1 = f ∧ t1 = t' ∧ l1 = l ∧ fwd = true
          · obtain ⟨rfl, rfl, rfl, rfl⟩ := hc
            simp only [and_self, if_true] at hp
            have hlt : s.prior f1 t1 l1 < o' := by simpa using hfwd.symm
            omega
          · simpa only [hc, if_false] using hp
        by_cases hc : f1 = f ∧ l1 = l
        · obtain ⟨rfl, rfl⟩ := hc
          simp only [and_self, if_true, Option.some.injEq, Prod.mk.injEq] at hr
          obtain ⟨rfl, rfl⟩ := hr
          exact hi.inflGap _ _ _ _ t1 hinf (List.mem_cons_of_mem _ ht) e he hw hpp hlt
        · simp only [hc, if_false] at hr
          exact hi.inflGap _ _ _ _ t1 hr ht e he hw hpp hlt
    · cases h
  · cases h

set_option maxHeartbeats 4000000 in
theorem inv_apply {cx : Ctx} {s s' : State} (hi : Inv cx s) (f : FId) (t : TId) (l : LId) (o : Nat) (hasKey : Bool)
    (h : step cx s (.apply f t l o hasKey) = some s') : Inv cx s' := by
  simp only [step] at h
  split at h
  · rename_i o' rest e hpend hentry
    split at h
    · simp only [Option.some.injEq] at h
      subst h
      rename_i hguard
      obtain ⟨hfup, rfl, hkey⟩ := hguard
      obtain ⟨he, heo⟩ := entryAt_mem hentry
      have hps := hi.pendSorted f t l hfup
      rw [hpend, List.pairwise_cons] at hps
      have hpr := hi.pendRange f t l hfup o' (by rw [hpend]; simp)
      have hinj := fun (a b : Entry) (ha : a ∈ s.wal l) (hb : b ∈ s.wal l) (hab : a.off = b.off) =>
        off_inj (hi.walSorted l) ha hb hab
      have hptop := hi.priorTop f t l
      inv_fields hi
      constructor
      all_goals (intros; try grind [List.Pairwise.nil])
      case linkCover =>
        rename_i l1 f1 t1 sp hlk hs e1 he1 hw hp hle
        exact hi.linkCover _ _ _ _ hlk hs e1 he1 hw hp hle
      case inflWal =>
        rename_i f1 l1 o1 rem hr
        exact hi.inflWal _ _ _ _ hr
      case pendRange =>
        rename_i f1 t1 l1 hf1 o1 ho1
        simp only [] at hf1 ho1 ⊢
        by_cases hc : f1 = f ∧ t1 = t ∧ l1 = l
        · obtain ⟨rfl, rfl, rfl⟩ := hc
          simp only [and_self, if_true] at ho1 ⊢
          have := hi.pendRange f1 t1 l1 hf1 o1 (by rw [hpend]; exact List.mem_cons_of_mem _ ho1)
          exact ⟨hps.1 _ ho1, this.2.1, this.2.2⟩
        · simp only [hc, if_false] at ho1 ⊢
          exact hi.pendRange f1 t1 l1 hf1 o1 ho1
      case exMem =>
        rename_i f1 t1 l1
        simp only []
        by_cases hc : f1 = f ∧ t1 = t ∧ l1 = l
        · obtain ⟨rfl, rfl, rfl⟩ := hc
          simp only [and_self, if_true, true_and]
          have hx := hi.exMem f1 t1 l1
          have hnot : o' ∉ s.memApps f1 t1 l1 := by
            intro hin
            obtain ⟨e', _, _, h3, _⟩ := (hx.mem o').mp hin
            omega
          have hcover : ∀ e' ∈ s.wal l1, wants cx t1 (cx.part f1) e'.pt = true →
              s.memOff f1 t1 l1 < e'.off → e'.off ≤ o' → e' = e := by
            intro e' he' hw' h1 h2
            have hin := hi.pendCover f1 t1 l1 hfup e' he' hw' h1 (by omega)
            rw [hpend] at hin
            rcases List.mem_cons.mp hin with h3 | h3
            · exact hinj e' e he' he (by omega)
            · have := hps.1 _ h3
              omega
          cases hk : hasKey
          · -- skipped: only the offset moves
            simp only [Bool.false_eq_true, if_false]
            refine ⟨hx.nodup, ?_⟩
            intro x
            rw [hx.mem x]
            constructor
            · rintro ⟨e', he', h1, h2, h3⟩
              exact ⟨e', he', h1, by omega, h3⟩
            · rintro ⟨e', he', h1, h2, h3⟩
              by_cases hle : x ≤ s.memOff f1 t1 l1
              · exact ⟨e', he', h1, hle, h3⟩
              · have := hcover e' he' h3 (by omega) (by omega)
                subst this
                rw [hk] at hkey
                rw [← hkey] at h3
                cases h3
          · simp only [if_true]
            refine ⟨?_, ?_⟩
            · rw [List.nodup_append]
              refine ⟨hx.nodup, by simp, ?_⟩
              intro a ha b hb
              simp only [List.mem_singleton] at hb
              subst hb
              intro hab
              subst hab
              exact hnot ha
            · intro x
              rw [List.mem_append, hx.mem x]
              constructor
              · rintro (⟨e', he', h1, h2, h3⟩ | hx')
                · exact ⟨e', he', h1, by omega, h3⟩
                · simp only [List.mem_singleton] at hx'
                  subst hx'
                  refine ⟨e, he, heo, Nat.le_refl _, ?_⟩
                  rw [hk] at hkey
                  exact hkey.symm
              · rintro ⟨e', he', h1, h2, h3⟩
                by_cases hle : x ≤ s.memOff f1 t1 l1
                · exact Or.inl ⟨e', he', h1, hle, h3⟩
                · have := hcover e' he' h3 (by omega) (by omega)
                  subst this
                  right
                  simp only [List.mem_singleton]
                  omega
        · have hc2 : ¬ (f1 = f ∧ t1 = t ∧ l1 = l ∧ hasKey = true) := fun h => hc ⟨h.1, h.2.1, h.2.2.1⟩
          simp only [hc, hc2, if_false]
          exact hi.exMem f1 t1 l1
    · cases h
  · cases h

end Zeno.Repl
