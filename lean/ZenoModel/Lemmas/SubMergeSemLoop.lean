/-
SubMerge semantics, part 1: the loop of `Sequence.SubMerge` for a DIRECT sub-merger
(`e.Merge(data, data, other)`), read as a fold over the `k` slots of one output bucket.
-/
import ZenoModel.Lemmas.SubMergeLoop
import ZenoModel.Lemmas.SeqInv
set_option linter.unusedSimpArgs false
namespace Zeno

/-- a direct sub-merger on well-formed states is the expression's merge -/
theorem apply_direct {e : Ex} (hv : e.valid = true) (hp : e.noPtile = true) {d o : List Cell}
    (hd : WF e d) (ho : WF e o) (os : List (List Cell)) (otherRes : Int) (p : Pt) :
    (SM.direct e).apply d (o :: os) otherRes p = e.mrg d o := by
  have h := merge_eq hv hp hd ho [] []
  simp only [List.append_nil] at h
  have hl : (e.mrg d o).length = d.length := by
    have h1 := congrArg List.length (mrg_wf hv hp hd ho)
    have h2 := congrArg List.length hd
    simp only [List.length_map] at h1 h2
    omega
  simp only [SM.apply, List.headD_cons, h]
  rw [hl, List.drop_length, List.append_nil]

/-- folding merges of empty states changes nothing -/
theorem foldl_mrg_empty {α : Type} {e : Ex} (hv : e.valid = true) (hp : e.noPtile = true)
    (c : α → List Cell) : ∀ (l : List α) (acc : List Cell), WF e acc → (∀ j ∈ l, c j = e.empty) →
    l.foldl (fun a j => e.mrg a (c j)) acc = acc := by
  intro l
  induction l with
  | nil => intro acc _ _; rfl
  | cons j l ih =>
    intro acc hw hc
    simp only [List.foldl_cons]
    rw [hc j (by simp), mrg_empty_right hv hp hw]
    exact ih acc hw (fun j hj => hc j (by simp [hj]))

theorem foldl_mrg_congr {α : Type} (e : Ex) (c c' : α → List Cell) :
    ∀ (l : List α) (acc : List Cell), (∀ j ∈ l, c j = c' j) →
    l.foldl (fun a j => e.mrg a (c j)) acc = l.foldl (fun a j => e.mrg a (c' j)) acc := by
  intro l
  induction l with
  | nil => intro acc _; rfl
  | cons j l ih =>
    intro acc hc
    simp only [List.foldl_cons]
    rw [hc j (by simp)]
    exact ih _ (fun j hj => hc j (by simp [hj]))

theorem foldl_mrg_wf {α : Type} {e : Ex} (hv : e.valid = true) (hp : e.noPtile = true)
    (c : α → List Cell) (hc : ∀ j, WF e (c j)) : ∀ (l : List α) (acc : List Cell), WF e acc →
    WF e (l.foldl (fun a j => e.mrg a (c j)) acc) := by
  intro l
  induction l with
  | nil => intro acc hw; exact hw
  | cons j l ih =>
    intro acc hw
    simp only [List.foldl_cons]
    exact ih _ (mrg_wf hv hp hw (hc j))

/-- merging one more state `o` first, or at its slot `d` of the bucket, is the same when the
    slots before `d` are empty -/
theorem foldl_mrg_slot {e : Ex} (hv : e.valid = true) (hp : e.noPtile = true)
    (c c' : Nat → List Cell) (k d : Nat) (hd : d < k) (o acc : List Cell) (hw : WF e acc) (ho : WF e o)
    (h1 : ∀ j, j < d → c j = e.empty ∧ c' j = e.empty) (h2 : c d = e.empty) (h3 : c' d = o)
    (h4 : ∀ j, d < j → c j = c' j) :
    (List.range k).foldl (fun a j => e.mrg a (c j)) (e.mrg acc o) =
      (List.range k).foldl (fun a j => e.mrg a (c' j)) acc := by
  have hsplit : List.range k = List.range' 0 d ++ (d :: List.range' (d + 1) (k - d - 1)) := by
    rw [List.range_eq_range', ← List.range'_succ]
    have : k = d + (k - d - 1 + 1) := by omega
    rw [show List.range' 0 k = List.range' 0 (d + (k - d - 1 + 1)) by rw [← this]]
    rw [← List.range'_append_1]
    simp
  have hwo : WF e (e.mrg acc o) := mrg_wf hv hp hw ho
  rw [hsplit, List.foldl_append, List.foldl_append, List.foldl_cons, List.foldl_cons]
  rw [foldl_mrg_empty hv hp c _ _ hwo (fun j hj => (h1 j (by simp [List.mem_range'_1] at hj; omega)).1)]
  rw [foldl_mrg_empty hv hp c' _ _ hw (fun j hj => (h1 j (by simp [List.mem_range'_1] at hj; omega)).2)]
  rw [h2, h3, mrg_empty_right hv hp hwo]
  exact foldl_mrg_congr e c c' _ _ (fun j hj => h4 j (by simp [List.mem_range'_1] at hj; omega))

/-- the state at a (possibly negative or too large) period index; empty outside -/
def cellAtI (e : Ex) (os : List (List Cell)) (i : Int) : List Cell :=
  if i < 0 then e.empty else os.getD i.toNat e.empty

theorem cellAtI_cons (e : Ex) (o : List Cell) (os : List (List Cell)) (i : Int) :
    cellAtI e (o :: os) i = if i = 0 then o else cellAtI e os (i - 1) := by
  unfold cellAtI
  by_cases h0 : i < 0
  · rw [if_pos h0, if_neg (by omega), if_pos (by omega)]
  · rw [if_neg h0]
    by_cases h1 : i = 0
    · subst h1; simp
    · rw [if_neg h1, if_neg (by omega)]
      have : i.toNat = (i - 1).toNat + 1 := by omega
      rw [this, List.getD_cons_succ]

theorem cellAtI_nil (e : Ex) (i : Int) : cellAtI e [] i = e.empty := by
  unfold cellAtI; split <;> simp

theorem cellAtI_wf {e : Ex} {os : List (List Cell)} (h : CellsWF e os) (i : Int) : WF e (cellAtI e os i) := by
  unfold cellAtI
  split
  · exact wf_empty e
  · exact getD_wf h _

/-- `⌊x / k⌋ = q` iff `x` lies in the `q`-th block of `k` -/
theorem ediv_eq_iff_block {x k : Int} (hk : 0 < k) (q : Int) : x / k = q ↔ (0 ≤ x - q * k ∧ x - q * k < k) := by
  constructor
  · intro h
    have h1 := Int.emod_nonneg x (Int.ne_of_gt hk)
    have h2 := Int.emod_lt_of_pos x hk
    have h3 := Int.mul_ediv_add_emod x k
    rw [h, Int.mul_comm] at h3
    omega
  · intro ⟨h1, h2⟩
    have a : q ≤ x / k := by rw [Int.le_ediv_iff_mul_le hk]; omega
    have b : x / k < q + 1 := by rw [Int.ediv_lt_iff_lt_mul hk, Int.add_mul]; omega
    omega

/-- THE LOOP, DIRECT CASE: result period `q` receives, in source order, the merge of the `k`
    slots of its bucket; slot `j` is the source period with index `j − (po + off − q·k)` relative
    to the current position (empty when that period does not exist) -/
theorem loopSpec_direct {e : Ex} (hv : e.valid = true) (hp : e.noPtile = true) (otherRes : Int) (p : Pt)
    {k : Nat} (hk : 0 < k) (off : Int) (q : Nat) :
    ∀ (os : List (List Cell)) (po : Nat) (acc : List Cell), CellsWF e os → WF e acc →
      loopSpec (.direct e) otherRes p (k : Int) off q po os acc =
        (List.range k).foldl
          (fun a (j : Nat) => e.mrg a (cellAtI e os ((j : Int) - ((po : Int) + off - (q : Int) * (k : Int))))) acc := by
  have hkI : (0 : Int) < (k : Int) := by omega
  intro os
  induction os with
  | nil =>
    intro po acc _ hw
    simp only [loopSpec]
    exact (foldl_mrg_empty hv hp _ _ _ hw (fun j _ => cellAtI_nil e _)).symm
  | cons o os ih =>
    intro po acc hos hw
    have ho : WF e o := hos o (by simp)
    have hos' : CellsWF e os := fun c hc => hos c (by simp [hc])
    simp only [loopSpec]
    generalize hd : (po : Int) + off - (q : Int) * (k : Int) = d
    have hd' : ((po + 1 : Nat) : Int) + off - (q : Int) * (k : Int) = d + 1 := by omega
    by_cases hm : ((po : Int) + off) / (k : Int) = (q : Int)
    · rw [if_pos hm, apply_direct hv hp hw ho, ih (po + 1) _ hos' (mrg_wf hv hp hw ho), hd']
      have hb := (ediv_eq_iff_block hkI (q : Int)).mp hm
      rw [hd] at hb
      have hdn : (d.toNat : Int) = d := Int.toNat_of_nonneg hb.1
      apply foldl_mrg_slot hv hp _ _ k d.toNat (by omega) o acc hw ho
      · intro j hj
        constructor
        · rw [cellAtI]; rw [if_pos (by omega)]
        · rw [cellAtI]; rw [if_pos (by omega)]
      · rw [cellAtI]; rw [if_pos (by omega)]
      · rw [cellAtI_cons, if_pos (by omega)]
      · intro j hj
        rw [cellAtI_cons, if_neg (by omega)]
        congr 1
        omega
    · rw [if_neg hm, ih (po + 1) _ hos' hw, hd']
      have hb : ¬ (0 ≤ d ∧ d < (k : Int)) := by
        intro hh; apply hm; rw [ediv_eq_iff_block hkI]; rw [hd]; exact hh
      apply foldl_mrg_congr
      intro j hj
      have hj' : j < k := List.mem_range.mp hj
      rw [cellAtI_cons, if_neg (by omega)]
      congr 1
      omega

theorem length_subMergeLoop (sm : SM) (otherRes : Int) (p : Pt) (scale off ss ssp : Int) (n : Nat) :
    ∀ (os : List (List Cell)) (po : Nat) (result : List (List Cell)),
      (subMergeLoop sm otherRes p scale off ss ssp n po os result).length = result.length := by
  intro os
  induction os with
  | nil => intro po result; rfl
  | cons o os ih =>
    intro po result
    simp only [subMergeLoop]
    split
    · rfl
    · rw [ih]
      split
      · split
        · rfl
        · simp
      · rfl

theorem cellsWF_subMergeLoop {e : Ex} (hv : e.valid = true) (hp : e.noPtile = true) (otherRes : Int) (p : Pt)
    (scale off ss ssp : Int) (n : Nat) :
    ∀ (os : List (List Cell)) (po : Nat) (result : List (List Cell)), CellsWF e os → CellsWF e result →
      CellsWF e (subMergeLoop (.direct e) otherRes p scale off ss ssp n po os result) := by
  intro os
  induction os with
  | nil => intro po result _ hw; exact hw
  | cons o os ih =>
    intro po result hos hw
    have ho : WF e o := hos o (by simp)
    have hos' : CellsWF e os := fun c hc => hos c (by simp [hc])
    simp only [subMergeLoop]
    split
    · exact hw
    · apply ih _ _ hos'
      split
      · split
        · exact hw
        · apply cellsWF_modify hw
          intro c hc
          rw [apply_direct hv hp hc ho]
          exact mrg_wf hv hp hc ho
      · exact hw

end Zeno
