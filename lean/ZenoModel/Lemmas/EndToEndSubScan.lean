/-
End-to-end, part 8: `Store.iterate` over ANY requested field list `out`, loop-free, and — when out
position `j` is fed by the table's column `ti` alone (`IdxTie`) — its rows are a `ScanView` of the
store's full scan: one row per key, column `j` of the row with key `κ` is `scanCol … κ ti`, and a
key without a row reads `none` in the full scan too.
-/
import ZenoModel.Lemmas.EndToEndSub
import ZenoModel.Lemmas.EndToEndScan
set_option linter.unusedSimpArgs false
set_option linter.unusedVariables false
namespace Zeno

/-- the outbound columns of a file row for the requested fields `out` -/
def outColsG (cfg : TableCfg) (st : Store) (out : List Field) (mem : List Row) (tb : Int) (r : Row) : List Sq × Bool :=
  let m1 := mapFileCols out st.fileFields r.cols
  match mem.find? (fun m => m.key == r.key) with
  | some m =>
    let m2 := mergeMemCols out st.memFields cfg.res tb m1.1 m.cols
    (m2.1, m1.2 || m2.2)
  | none => (m1.1, m1.2)

def iterFileRowG (cfg : TableCfg) (st : Store) (out : List Field) (mem : List Row) (tb : Int) (r : Row) : Option Row :=
  if (outColsG cfg st out mem tb r).2 then some { key := r.key, cols := (outColsG cfg st out mem tb r).1 } else none

def iterMemRowG (cfg : TableCfg) (st : Store) (out : List Field) (tb : Int) (m : Row) : Row :=
  { key := m.key, cols := (mergeMemCols out st.memFields cfg.res tb (out.map (fun _ => none)) m.cols).1 }

theorem iterStepG_eq (cfg : TableCfg) (st : Store) (out : List Field) (mem : List Row) (tb : Int) (acc : List Row) (r : Row) :
    iterStep cfg st out mem tb { rows := acc, stopped := false } r =
      { rows := acc ++ (iterFileRowG cfg st out mem tb r).toList, stopped := false } := by
  unfold iterStep iterFileRowG outColsG
  simp only [Bool.false_eq_true, if_false]
  cases hms : mem.find? (fun m => m.key == r.key) with
  | none =>
    simp only [Bool.or_false]
    by_cases h2 : (mapFileCols out st.fileFields r.cols).2 = true
    · simp only [h2, if_true, Option.toList_some]
    · simp only [h2, if_false]; simp
  | some m =>
    simp only
    by_cases h2 : ((mapFileCols out st.fileFields r.cols).2 ||
        (mergeMemCols out st.memFields cfg.res tb (mapFileCols out st.fileFields r.cols).1 m.cols).2) = true
    · simp only [h2, if_true, Option.toList_some]
    · simp only [h2, if_false]; simp

theorem iterFoldG_eq (cfg : TableCfg) (st : Store) (out : List Field) (mem : List Row) (tb : Int) (rows : List Row) :
    ∀ acc : List Row, rows.foldl (iterStep cfg st out mem tb) { rows := acc, stopped := false } =
      { rows := acc ++ rows.filterMap (iterFileRowG cfg st out mem tb), stopped := false } := by
  induction rows with
  | nil => intro acc; simp
  | cons r rows ih =>
    intro acc
    rw [List.foldl_cons, iterStepG_eq, ih]
    cases h : iterFileRowG cfg st out mem tb r with
    | none => rw [List.filterMap_cons_none h]; simp
    | some w => rw [List.filterMap_cons_some h]; simp

/-- the rows of a memstore-inclusive scan of the requested fields `out`, loop-free -/
theorem iterate_rowsG (cfg : TableCfg) (st : Store) (out : List Field) :
    (st.iterate cfg out true).rows =
      (st.file.getD []).filterMap (iterFileRowG cfg st out st.mem (st.now - cfg.retention)) ++
      (st.mem.filter (fun m => !((st.file.getD []).any (fun r => r.key == m.key)))).map
        (iterMemRowG cfg st out (st.now - cfg.retention)) := by
  rw [iterate_unfold]
  have h0 : ({} : ScanOut) = { rows := [], stopped := false } := rfl
  simp only [h0, iterFoldG_eq, Bool.false_eq_true, if_false, List.nil_append, if_true]
  rfl

theorem iterFileRowG_key (cfg : TableCfg) (st : Store) (out : List Field) (mem : List Row) (tb : Int) (r w : Row)
    (h : iterFileRowG cfg st out mem tb r = some w) : w.key = r.key := by
  unfold iterFileRowG at h
  split at h
  · simp only [Option.some.injEq] at h; rw [← h]
  · exact absurd h (by simp)

theorem scanG_keys_pairwise (cfg : TableCfg) (st : Store) (sinv : StoreInv cfg st) (out : List Field) :
    (st.iterate cfg out true).rows.Pairwise (fun a b => a.key ≠ b.key) := by
  rw [iterate_rowsG, List.pairwise_append]
  refine ⟨?_, ?_, ?_⟩
  · refine List.Pairwise.filterMap _ ?_ sinv.fileOk.uniq
    intro a a' hne b hb b' hb'
    rw [iterFileRowG_key cfg st out _ _ a b hb, iterFileRowG_key cfg st out _ _ a' b' hb']
    exact hne
  · exact List.Pairwise.map _ (fun a b h => h) (List.Pairwise.filter _ sinv.memOk.uniq)
  · intro a ha b hb
    obtain ⟨r, hr, hra⟩ := List.mem_filterMap.mp ha
    obtain ⟨m, hm, rfl⟩ := List.mem_map.mp hb
    have hk := iterFileRowG_key cfg st out _ _ r a hra
    have hnot := (List.mem_filter.mp hm).2
    rw [hk]
    intro heq
    have : (st.file.getD []).any (fun r => r.key == m.key) = true :=
      List.any_eq_true.mpr ⟨r, hr, by simpa [iterMemRowG] using heq⟩
    rw [this] at hnot
    exact absurd hnot (by simp)

/-- the full scan's reading at (key, `ti`), from the file and memstore rows of that key -/
theorem scanCol_eq_merge (cfg : TableCfg) (hd : FieldsDistinct cfg.fields) (st : Store) (sinv : StoreInv cfg st)
    (key : Key) (ti : Nat) (hti : ti < cfg.fields.length) :
    scanCol cfg st true key ti =
      Sq.merge (cfg.fields.getD ti default).ex cfg.res (rowCol (st.file.getD []) key ti) (rowCol st.mem key ti)
        (st.now - cfg.retention) := by
  have := view_proj cfg hd st true key ti hti
    { file := rowCol (st.file.getD []) key ti, mem := rowCol st.mem key ti, now := st.now } sinv ⟨rfl, rfl, rfl⟩
  rw [this]; rfl

theorem rowCol_of_mem {rows : List Row} (hu : rows.Pairwise (fun a b => a.key ≠ b.key)) (r : Row) (hr : r ∈ rows)
    (i : Nat) : rowCol rows r.key i = r.cols.getD i none := by
  unfold rowCol; rw [find_self_of_pairwise hu r hr]

theorem rowCol_of_absent {rows : List Row} {key : Key} (h : ∀ r ∈ rows, r.key ≠ key) (i : Nat) :
    rowCol rows key i = none := by
  apply rowCol_none_of_not_any
  rw [List.any_eq_false]
  intro r hr
  simpa using h r hr

end Zeno
