/-
Derived selected expressions, part 3 (stage 1): what ONE sub-merger of `Expr.SubMergers` does.
Applying the sub-merger of column `j` to the state `d` of `e` with the column's state `o`:
`o` is merged into exactly the slots of `e` that resolve to column `j` (gated by the IF conditions
of the source row), everything else — the other slots and whatever follows `d` — is unchanged.
-/
import ZenoModel.Lemmas.DerivedMatch
set_option linter.unusedSimpArgs false
set_option linter.unusedVariables false
namespace Zeno

/-- a direct sub-merger merges the prefix that belongs to its expression and keeps the rest -/
theorem apply_direct_rest {n : Ex} (hv : n.valid = true) (hp : n.noPtile = true) {d o : List Cell}
    (hd : WF n d) (ho : WF n o) (rest : List Cell) (os : List (List Cell)) (otherRes : Int) (p : Pt) :
    (SM.direct n).apply (d ++ rest) (o :: os) otherRes p = n.mrg d o ++ rest := by
  have h := merge_eq hv hp hd ho rest []
  simp only [List.append_nil] at h
  have hl : (n.mrg d o).length = d.length := by
    rw [(mrg_wf hv hp hd ho).length, hd.length]
  simp only [SM.apply, List.headD_cons, h]
  rw [hl, List.drop_left]

/-- assembled states are well formed -/
theorem assemble_wf (subs : List Ex) (p : Pt) (st : Nat → List Cell)
    (hst : ∀ i s, subs[i]? = some s → WF s (st i)) : ∀ e : Ex, WF e (e.assemble subs p st) := by
  have node : ∀ (n : Ex) (X : List Cell), WF n X →
      WF n (match n.matchIdx subs with | some i => st i | none => X) := by
    intro n X hX
    cases hm : n.matchIdx subs with
    | none => exact hX
    | some i =>
      obtain ⟨s, hs, hms, _⟩ := matchIdx_some hm
      exact sameStr_wf hms (hst i s hs)
  intro e
  induction e with
  | field n => exact wf_empty _
  | const v => exact wf_empty _
  | agg k w _ => simp only [Ex.assemble]; exact node _ _ (wf_empty _)
  | avg v w _ _ => simp only [Ex.assemble]; exact node _ _ (wf_empty _)
  | bin op l r ihl ihr =>
    simp only [Ex.assemble]
    apply node
    unfold WF at *
    simp [Ex.shape, ihl, ihr]
  | ifE c w ih =>
    simp only [Ex.assemble]
    apply node
    split
    · exact ih
    · exact wf_empty w
  | bounded w lo hi ih => simp only [Ex.assemble]; exact node _ _ ih
  | unary f w ih => simp only [Ex.assemble]; exact node _ _ ih
  | shift w off _ => exact wf_empty _
  | ptile id v pe n _ _ => exact wf_empty _

theorem singleCol_wf (subs : List Ex) (j : Nat) (cj : Ex) (hj : subs[j]? = some cj) (o : List Cell)
    (ho : WF cj o) : ∀ i s, subs[i]? = some s → WF s (singleCol subs j o i) := by
  intro i s hs
  unfold singleCol
  by_cases h : i = j
  · subst h; rw [hj] at hs; injection hs with hs; subst hs; rw [if_pos rfl]; exact ho
  · rw [if_neg h, List.getD_eq_getElem?_getD, hs]; exact wf_empty s

/-- a node that resolves to some column, read with only column `j` filled -/
theorem single_at_match {n : Ex} {subs : List Ex} {j i : Nat} {cj : Ex} (hj : subs[j]? = some cj)
    (hf : FirstCol subs j) (hm : n.matchIdx subs = some i) (o : List Cell) :
    singleCol subs j o i = if n.sameStr cj then o else n.empty := by
  obtain ⟨s, hs, hms, _⟩ := matchIdx_some hm
  unfold singleCol
  by_cases hij : i = j
  · subst hij
    rw [if_pos rfl, if_pos ((matchIdx_first hj hf).mp hm)]
  · rw [if_neg hij]
    have hne : ¬ n.sameStr cj = true := fun h => hij (by
      have := (matchIdx_first hj hf).mpr h; rw [hm] at this; injection this)
    rw [if_neg hne, List.getD_eq_getElem?_getD, hs]
    exact (sameStr_empty hms).symm

/-- the shape all self-matching nodes share: the `j`-th sub-merger is the direct one iff the node
    prints like column `j`; then the column's state is merged into the node's own cells -/
theorem apply_self_match {n : Ex} (hv : n.valid = true) (hp : n.noPtile = true) {subs : List Ex} {j : Nat}
    {cj : Ex} (hj : subs[j]? = some cj) {d o : List Cell} (hd : WF n d) (ho : WF cj o)
    (rest : List Cell) (os : List (List Cell)) (otherRes : Int) (p : Pt) :
    applyOpt (if n.sameStr cj then some (.direct n) else none) (d ++ rest) (o :: os) otherRes p =
      n.mrg d (if n.sameStr cj then o else n.empty) ++ rest := by
  by_cases h : n.sameStr cj = true
  · rw [if_pos h, if_pos h]
    exact apply_direct_rest hv hp hd (sameStr_wf h ho) rest os otherRes p
  · rw [if_neg h, if_neg h, mrg_empty_right hv hp hd]; rfl

theorem applyOpt_combined (a b : Option SM) (k : Nat) (data : List Cell) (other : List (List Cell))
    (otherRes : Int) (p : Pt) :
    applyOpt (combinedSM a k b) data other otherRes p =
      (applyOpt a data other otherRes p).take k ++
        applyOpt b ((applyOpt a data other otherRes p).drop k) other otherRes p := by
  cases a <;> cases b <;> simp [combinedSM, applyOpt, SM.apply]

theorem applyOpt_cond (a : Option SM) (c : Nat) (data : List Cell) (other : List (List Cell))
    (otherRes : Int) (p : Pt) :
    applyOpt (a.map (SM.cond c)) data other otherRes p =
      if p.includes c then applyOpt a data other otherRes p else data := by
  cases a with
  | none => simp [applyOpt]
  | some sm => simp [applyOpt, SM.apply]

theorem getD_map_sub {β : Type} (subs : List Ex) (f : Ex → Option β) (j : Nat) (cj : Ex)
    (hj : subs[j]? = some cj) : (subs.map f).getD j none = f cj := by
  rw [List.getD_eq_getElem?_getD, List.getElem?_map, hj]; rfl

theorem getD_range_map {β : Type} (n : Nat) (f : Nat → Option β) (j : Nat) (hj : j < n) :
    ((List.range n).map f).getD j none = f j := by
  rw [List.getD_eq_getElem?_getD, List.getElem?_map, List.getElem?_range hj]; rfl

end Zeno
