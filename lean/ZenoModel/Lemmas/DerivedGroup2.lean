/-
Derived selected expressions, part 13 (stage 2): `colStep` for one scan row = `subMergeAll` of the
row's column sources; the invariants of the accumulator column are kept.
-/
import ZenoModel.Lemmas.DerivedGroup
set_option linter.unusedSimpArgs false
set_option linter.unusedVariables false
namespace Zeno

/-- what a scan row must provide: one stored sequence per scanned column, on the table grid, with
    well-formed states of the column's expression -/
def RowColsOk (subs : List Ex) (otherRes : Int) (rcols : List Sq) : Prop :=
  subs.length ≤ rcols.length ∧
    ∀ j cj, subs[j]? = some cj → SqOk otherRes (rcols.getD j none) ∧ SqWF cj (rcols.getD j none)

theorem rowSrcs_ok {e : Ex} {subs : List Ex} {otherRes : Int} (p : Pt) {rcols : List Sq}
    (hc : RowColsOk subs otherRes rcols) :
    ∀ op ∈ rowSrcs e subs p rcols, SqOk otherRes op.1 ∧ SqWF e op.1 := by
  intro op hop
  unfold rowSrcs colSrc at hop
  obtain ⟨j, hj, hjo⟩ := List.mem_filterMap.mp hop
  have hjl : j < subs.length := List.mem_range.mp hj
  have hsj : subs[j]? = some subs[j] := List.getElem?_eq_getElem hjl
  obtain ⟨h1, h2⟩ := hc.2 j _ hsj
  cases hsm : colSM e subs j with
  | none => rw [hsm] at hjo; cases hjo
  | some sm =>
    rw [hsm] at hjo
    simp only [Option.map_some, Option.some.injEq] at hjo
    rw [← hjo]
    exact ⟨sqOk_mapSq _ h1, sqWF_mapSq _ (fun o ho => colImage_wf e hsj p ho) h2⟩

/-- the column-by-column fold of one scan row -/
theorem colFold_eq {e : Ex} (hv : e.valid = true) (hp : e.noPtile = true) (hs : e.shiftFree = true)
    {res otherRes : Int} {k : Nat} {asOf hi : Int} (w : SMWindow res otherRes k asOf hi) (subs : List Ex)
    (p : Pt) (rcols : List Sq) (hc : RowColsOk subs otherRes rcols) :
    ∀ (js : List Nat), (∀ j ∈ js, j < subs.length) → ∀ c : Sq, RecvGrid e res hi c → InWindow e res asOf hi c →
      js.foldl (fun acc j => match colSM e subs j with
          | none => acc
          | some sm => Sq.subMerge e (subs.getD j (.const 0)) sm res otherRes acc (rcols.getD j none) p asOf hi 0) c =
        subMergeAll e res otherRes asOf hi (js.filterMap (colSrc e subs p rcols)) c := by
  have hkI : (0 : Int) < (k : Int) := by have := w.kPos; omega
  have hres : 0 < res := by rw [w.resEq]; exact Int.mul_pos hkI w.otherResPos
  intro js
  induction js with
  | nil => intro _ c _ _; rfl
  | cons j js ih =>
    intro hjs c hg hin
    have hjl : j < subs.length := hjs j (by simp)
    have hsj : subs[j]? = some subs[j] := List.getElem?_eq_getElem hjl
    have hgd : subs.getD j (.const 0) = subs[j] := by rw [List.getD_eq_getElem?_getD, hsj]; rfl
    obtain ⟨h1, h2⟩ := hc.2 j _ hsj
    simp only [List.foldl_cons, List.filterMap_cons]
    cases hsm : colSM e subs j with
    | none =>
      simp only [colSrc, hsm, Option.map_none]
      exact ih (fun j' hj' => hjs j' (by simp [hj'])) c hg hin
    | some sm =>
      simp only [colSrc, hsm, Option.map_some]
      rw [hgd, subMerge_reduce hv hp (shiftFree_shiftOf hs) sm _ otherRes p (colSM_actsAs hv hp hs hsj hsm otherRes p)
        (fun o ho => colImage_wf e hsj p ho) hres w.otherResPos c _ asOf hg h2]
      obtain ⟨ig, iin⟩ := subMerge_inv_lem hv hp (shiftFree_shiftOf hs) w c
        (mapSq (colImage e subs j p) (rcols.getD j none)) p (sqOk_mapSq _ h1)
        (sqWF_mapSq _ (fun o ho => colImage_wf e hsj p ho) h2) hg hin
      rw [ih (fun j' hj' => hjs j' (by simp [hj'])) _ ig iin]
      rfl

theorem length_dedupInputs (ins : List Ex) (sms : List (Option SM)) : (dedupInputs ins sms).length = sms.length := by
  simp [dedupInputs]

theorem zip3_eq_range_map {α β γ : Type} (A : List α) (B : List β) (C : List γ) (n : Nat)
    (ha : A.length = n) (hb : B.length = n) (hc : n ≤ C.length) (a0 : α) (b0 : β) (c0 : γ) :
    (A.zip B).zip C = (List.range n).map (fun j => ((A.getD j a0, B.getD j b0), C.getD j c0)) := by
  apply List.ext_getElem
  · simp [ha, hb]; omega
  · intro i h1 h2
    have hi : i < n := by simpa using h2
    simp only [List.getElem_zip, List.getElem_map, List.getElem_range, List.getD_eq_getElem?_getD]
    rw [List.getElem?_eq_getElem (by omega), List.getElem?_eq_getElem (by omega), List.getElem?_eq_getElem (by omega)]
    rfl

/-- `colStep` as a fold over the column indices -/
theorem colStep_range (f : Field) (inFields : List Field) (gRes otherRes gAsOf gUntil stride : Int) (pt : Pt)
    (c : Sq) (rcols : List Sq) (hl : inFields.length ≤ rcols.length) :
    colStep f (dedupInputs (inFields.map (·.ex)) (f.ex.subMergers (inFields.map (·.ex)))) inFields gRes otherRes
        gAsOf gUntil stride pt c rcols =
      (List.range (inFields.map (·.ex)).length).foldl (fun acc j =>
        match colSM f.ex (inFields.map (·.ex)) j with
        | none => acc
        | some sm => Sq.subMerge f.ex ((inFields.map (·.ex)).getD j (.const 0)) sm gRes otherRes acc
            (rcols.getD j none) pt gAsOf gUntil stride) c := by
  unfold colStep
  rw [zip3_eq_range_map _ inFields rcols inFields.length
    (by rw [length_dedupInputs, length_subMergers]; simp) rfl hl none default none, List.foldl_map]
  simp only [List.length_map]
  apply foldl_congr_mem
  intro acc j hj
  have hjl : j < inFields.length := List.mem_range.mp hj
  have : (inFields.getD j default).ex = (inFields.map (·.ex)).getD j (.const 0) := by
    simp only [List.getD_eq_getElem?_getD, List.getElem?_map, List.getElem?_eq_getElem hjl]; rfl
  simp only [this]
  rfl

end Zeno
