/-
Derived selected expressions, part 15 (stage 2): the leaf-wise reading.  Merging the column sources
of one scan row over the periods `ts` (column by column, as the code does) = merging, period by
period, the state ASSEMBLED from the row's columns at that period.
-/
import ZenoModel.Lemmas.DerivedGroup3
import ZenoModel.Lemmas.DerivedSum
set_option linter.unusedSimpArgs false
set_option linter.unusedVariables false
namespace Zeno

/-- the stored state of scanned column `j` of a scan row at the native period ending at `t` -/
def colAt (subs : List Ex) (rcols : List Sq) (otherRes : Int) (t : Int) (j : Nat) : List Cell :=
  (rcols.getD j none).at (subs.getD j (.const 0)) otherRes t

/-- the state of `e` assembled from the columns of one scan row at the native period ending at `t` -/
def rowState (e : Ex) (subs : List Ex) (p : Pt) (rcols : List Sq) (otherRes : Int) (t : Int) : List Cell :=
  e.assemble subs p (colAt subs rcols otherRes t)

theorem colAt_wf {subs : List Ex} {otherRes : Int} {rcols : List Sq} (hc : RowColsOk subs otherRes rcols) (t : Int) :
    ∀ i s, subs[i]? = some s → WF s (colAt subs rcols otherRes t i) := by
  intro i s hs
  unfold colAt
  have : subs.getD i (.const 0) = s := by rw [List.getD_eq_getElem?_getD, hs]; rfl
  rw [this]
  exact sq_at_wf (hc.2 i s hs).2 otherRes t

theorem colImage_colAt_wf (e : Ex) {subs : List Ex} {otherRes : Int} {rcols : List Sq}
    (hc : RowColsOk subs otherRes rcols) (p : Pt) (j : Nat) (t : Int) :
    WF e (colImage e subs j p (colAt subs rcols otherRes t j)) :=
  assemble_wf subs p _ (singleCol_wf_all subs _ (colAt_wf hc t) j) e

theorem foldl_congr_wf {α : Type} {e : Ex} (F F' : List Cell → α → List Cell)
    (hF : ∀ a i, WF e a → WF e (F a i)) : ∀ (l : List α) (a : List Cell), WF e a →
    (∀ a, WF e a → ∀ i ∈ l, F a i = F' a i) → l.foldl F a = l.foldl F' a := by
  intro l
  induction l with
  | nil => intro a _ _; rfl
  | cons i l ih =>
    intro a ha h
    simp only [List.foldl_cons]
    rw [← h a ha i (by simp)]
    exact ih _ (hF a i ha) (fun a' ha' i' hi' => h a' ha' i' (by simp [hi']))

theorem mergeAllOnto_append (e : Ex) (otherRes : Int) (a b : List Src) (ts : List Int) (acc : List Cell) :
    mergeAllOnto e otherRes (a ++ b) ts acc = mergeAllOnto e otherRes b ts (mergeAllOnto e otherRes a ts acc) := by
  unfold mergeAllOnto; rw [List.foldl_append]

theorem mergeOnto_wf {e : Ex} (hv : e.valid = true) (hp : e.noPtile = true) (otherRes : Int) (other : Sq)
    (hwo : SqWF e other) (ts : List Int) (acc : List Cell) (ha : WF e acc) : WF e (mergeOnto e otherRes other ts acc) :=
  foldl_mrg_wf hv hp _ (fun t => sq_at_wf hwo otherRes t) ts acc ha

/-- merging the sources of the columns `js` of one row = the column-by-column, period-by-period
    merge of the column images -/
theorem mergeAllOnto_cols {e : Ex} (hv : e.valid = true) (hp : e.noPtile = true) (hs : e.shiftFree = true)
    {subs : List Ex} {otherRes : Int} {rcols : List Sq} (hc : RowColsOk subs otherRes rcols) (p : Pt)
    (ts : List Int) : ∀ (js : List Nat), (∀ j ∈ js, j < subs.length) → ∀ a, WF e a →
      mergeAllOnto e otherRes (js.filterMap (colSrc e subs p rcols)) ts a =
        js.foldl (fun a j => ts.foldl (fun a t => e.mrg a (colImage e subs j p (colAt subs rcols otherRes t j))) a) a := by
  intro js
  induction js with
  | nil => intro _ a _; rfl
  | cons j js ih =>
    intro hjs a ha
    have hjl : j < subs.length := hjs j (by simp)
    have hsj : subs[j]? = some subs[j] := List.getElem?_eq_getElem hjl
    have hgd : subs.getD j (.const 0) = subs[j] := by rw [List.getD_eq_getElem?_getD, hsj]; rfl
    obtain ⟨h1, h2⟩ := hc.2 j _ hsj
    have hwf : WF e (ts.foldl (fun a t => e.mrg a (colImage e subs j p (colAt subs rcols otherRes t j))) a) :=
      foldl_mrg_wf hv hp _ (fun t => colImage_colAt_wf e hc p j t) ts a ha
    simp only [List.filterMap_cons, List.foldl_cons]
    cases hsm : colSM e subs j with
    | none =>
      simp only [colSrc, hsm, Option.map_none]
      have hid : ts.foldl (fun a t => e.mrg a (colImage e subs j p (colAt subs rcols otherRes t j))) a = a := by
        apply foldl_mrg_empty hv hp _ ts a ha
        intro t _
        unfold colAt; rw [hgd]
        exact colImage_none hv hp hs hsj hsm p (sq_at_wf h2 otherRes t)
      rw [hid]
      exact ih (fun j' hj' => hjs j' (by simp [hj'])) a ha
    | some sm =>
      simp only [colSrc, hsm, Option.map_some]
      have hstep : mergeAllOnto e otherRes
          ((mapSq (colImage e subs j p) (rcols.getD j none), p) :: js.filterMap (colSrc e subs p rcols)) ts a =
          mergeAllOnto e otherRes (js.filterMap (colSrc e subs p rcols)) ts
            (ts.foldl (fun a t => e.mrg a (colImage e subs j p (colAt subs rcols otherRes t j))) a) := by
        unfold mergeAllOnto mergeOnto
        simp only [List.foldl_cons]
        congr 1
        apply foldl_mrg_congr
        intro t _
        unfold colAt; rw [hgd]
        exact at_mapSq _ (colImage_empty e hsj p) _ otherRes t
      have hcs : (fun x : SM => (mapSq (colImage e subs j p) (rcols.getD j none), p)) sm =
          (mapSq (colImage e subs j p) (rcols.getD j none), p) := rfl
      rw [hstep]
      exact ih (fun j' hj' => hjs j' (by simp [hj'])) _ hwf

end Zeno
