/-
Derived selected expressions, part 2: facts about printed identity (`sameStr`), the first matching
column (`matchIdx`), `bytetree.New`'s de-duplication (`dedupInputs`) and assembled states.
-/
import ZenoModel.Lemmas.DerivedAsm
import ZenoModel.Lemmas.SubMergeSemGroup4
set_option linter.unusedSimpArgs false
set_option linter.unusedVariables false
namespace Zeno

theorem sameStr_iff (a b : Ex) : a.sameStr b = true ↔ a.norm = b.norm := by
  unfold Ex.sameStr; exact beq_iff_eq

theorem sameStr_symm {a b : Ex} (h : a.sameStr b = true) : b.sameStr a = true :=
  (sameStr_iff b a).mpr ((sameStr_iff a b).mp h).symm

theorem sameStr_trans {a b c : Ex} (h1 : a.sameStr b = true) (h2 : b.sameStr c = true) : a.sameStr c = true :=
  (sameStr_iff a c).mpr (((sameStr_iff a b).mp h1).trans ((sameStr_iff b c).mp h2))

theorem norm_shape (e : Ex) : e.norm.shape = e.shape := by
  induction e <;> simp_all [Ex.norm, Ex.shape]

theorem sameStr_shape {a b : Ex} (h : a.sameStr b = true) : a.shape = b.shape := by
  rw [← norm_shape a, ← norm_shape b, (sameStr_iff a b).mp h]

def emptyCell : CK → Cell
  | .agg => .agg none
  | .avg => .avg none
  | .hist => .hist none

theorem empty_eq_shape (e : Ex) : e.empty = e.shape.map emptyCell := by
  induction e <;> simp_all [Ex.empty, Ex.shape, emptyCell]

/-- expressions that print alike have the same empty state and the same well-formed states -/
theorem sameStr_empty {a b : Ex} (h : a.sameStr b = true) : a.empty = b.empty := by
  rw [empty_eq_shape a, empty_eq_shape b, sameStr_shape h]

theorem sameStr_wf {a b : Ex} (h : a.sameStr b = true) {o : List Cell} (hw : WF b o) : WF a o := by
  unfold WF at *; rw [sameStr_shape h]; exact hw

/-- column `j` is the first of the columns that print like it (the one `bytetree.New` keeps) -/
def FirstCol (subs : List Ex) (j : Nat) : Prop :=
  ∀ i, i < j → ∀ s t, subs[i]? = some s → subs[j]? = some t → s.sameStr t = false

theorem matchIdx_some {n : Ex} {subs : List Ex} {i : Nat} (h : n.matchIdx subs = some i) :
    ∃ s, subs[i]? = some s ∧ n.sameStr s = true ∧
      ∀ i', i' < i → ∀ s', subs[i']? = some s' → n.sameStr s' = false := by
  unfold Ex.matchIdx at h
  obtain ⟨hi, hp, hlt⟩ := List.findIdx?_eq_some_iff_getElem.mp h
  refine ⟨subs[i], List.getElem?_eq_getElem hi, hp, ?_⟩
  intro i' hi' s' hs'
  have hl : i' < subs.length := by omega
  rw [List.getElem?_eq_getElem hl] at hs'
  injection hs' with hs'
  have := hlt i' hi'
  rw [hs'] at this
  cases hc : n.sameStr s' <;> simp_all

theorem matchIdx_none {n : Ex} {subs : List Ex} (h : n.matchIdx subs = none) :
    ∀ s ∈ subs, n.sameStr s = false := List.findIdx?_eq_none_iff.mp h

/-- for a kept column: the node resolves to it iff it prints like it -/
theorem matchIdx_first {n : Ex} {subs : List Ex} {j : Nat} {cj : Ex} (hj : subs[j]? = some cj)
    (hf : FirstCol subs j) : n.matchIdx subs = some j ↔ n.sameStr cj = true := by
  constructor
  · intro h
    obtain ⟨s, hs, hm, _⟩ := matchIdx_some h
    rw [hj] at hs; injection hs with hs; rw [hs]; exact hm
  · intro h
    cases hm : n.matchIdx subs with
    | none =>
      have := matchIdx_none hm cj (List.mem_of_getElem? hj)
      rw [this] at h; cases h
    | some i =>
      obtain ⟨s, hs, hms, hlt⟩ := matchIdx_some hm
      rcases Nat.lt_trichotomy i j with hlt' | heq | hgt
      · have := hf i hlt' s cj hs hj
        rw [sameStr_trans (sameStr_symm hms) h] at this; cases this
      · rw [heq]
      · have := hlt j hgt cj hj
        rw [this] at h; cases h

/-- a column that `bytetree.New` drops is never the one a node resolves to -/
theorem matchIdx_ne_of_not_first {n : Ex} {subs : List Ex} {j : Nat} (hnf : ¬ FirstCol subs j) :
    n.matchIdx subs ≠ some j := by
  intro h
  obtain ⟨s, hs, hms, hlt⟩ := matchIdx_some h
  apply hnf
  intro i hi s' t hs' ht
  rw [hs] at ht; injection ht with ht; subst ht
  have hn := hlt i hi s' hs'
  cases hc : s'.sameStr s with
  | false => rfl
  | true => rw [sameStr_trans hms (sameStr_symm hc)] at hn; cases hn

theorem any_eq_matchIdx (n : Ex) (subs : List Ex) :
    subs.any (fun s => n.sameStr s) = (n.matchIdx subs).isSome := by
  unfold Ex.matchIdx; rw [List.findIdx?_isSome]

/-- `bytetree.New`'s test "an earlier column prints the same" -/
theorem dedup_test_iff (subs : List Ex) (j : Nat) (cj : Ex) (hj : subs[j]? = some cj) :
    (subs.take j).any (fun e' => e'.sameStr cj) = false ↔ FirstCol subs j := by
  constructor
  · intro h i hi s t hs ht
    rw [hj] at ht; injection ht with ht; subst ht
    cases hc : s.sameStr cj with
    | false => rfl
    | true =>
      have hm : s ∈ subs.take j := by
        apply List.mem_of_getElem? (i := i)
        rw [List.getElem?_take]; simp [hi, hs]
      have : (subs.take j).any (fun e' => e'.sameStr cj) = true := List.any_eq_true.mpr ⟨s, hm, hc⟩
      rw [h] at this; cases this
  · intro hf
    cases hc : (subs.take j).any (fun e' => e'.sameStr cj) with
    | false => rfl
    | true =>
      obtain ⟨e', he', hs'⟩ := List.any_eq_true.mp hc
      obtain ⟨i, hi, hget⟩ := List.getElem_of_mem he'
      have hi' : i < j := by simp at hi; omega
      have hgi : subs[i]? = some e' := by
        have h1 : (subs.take j)[i]? = some e' := by rw [List.getElem?_eq_getElem hi, hget]
        rw [List.getElem?_take] at h1
        simpa [hi'] using h1
      rw [hf i hi' e' cj hgi hj] at hs'; cases hs'

theorem length_subMergers (e : Ex) (subs : List Ex) : (e.subMergers subs).length = subs.length := by
  induction e with
  | field n => simp [Ex.subMergers]
  | const v => simp [Ex.subMergers]
  | agg k w _ => simp [Ex.subMergers]
  | avg v w _ _ => simp [Ex.subMergers]
  | ptile id v p n _ _ => simp [Ex.subMergers]
  | bin op l r _ _ => simp only [Ex.subMergers]; split <;> simp
  | ifE c w ih => simp only [Ex.subMergers]; split <;> simp [ih]
  | bounded w lo hi ih => simp only [Ex.subMergers]; split <;> simp [ih]
  | shift w off ih => simp only [Ex.subMergers]; split <;> simp [ih]
  | unary f w ih => simp only [Ex.subMergers]; split <;> simp [ih]

/-- the sub-merger `core.Group` uses for column `j`: that of `Expr.SubMergers` for a kept column,
    none for a dropped one -/
theorem colSM_eq (e : Ex) (subs : List Ex) (j : Nat) (cj : Ex) (hj : subs[j]? = some cj) :
    colSM e subs j =
      if (subs.take j).any (fun e' => e'.sameStr cj) then none else (e.subMergers subs).getD j none := by
  have hl : j < (e.subMergers subs).length := by
    rw [length_subMergers]
    rcases Nat.lt_or_ge j subs.length with h | h
    · exact h
    · rw [List.getElem?_eq_none h] at hj; cases hj
  unfold colSM
  rw [List.getD_eq_getElem?_getD, getElem?_dedupInputs, List.getD_eq_getElem?_getD, List.getElem?_eq_getElem hl, hj]
  simp only [Option.map_some, Option.getD_some]

end Zeno
