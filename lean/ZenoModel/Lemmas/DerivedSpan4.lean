/-
Derived selected expressions, part 33 (stage 3, physical spans): `SubMerge` as a whole, then
`subMergeAll`: an out period inside the window is physically present in the accumulator column as
soon as one source physically holds a period of its bucket.
-/
import ZenoModel.Lemmas.DerivedSpan3
set_option linter.unusedSimpArgs false
set_option linter.unusedVariables false
namespace Zeno

theorem bucket_time_facts {res otherRes : Int} {k : Nat} {asOf hi : Int} (w : SMWindow res otherRes k asOf hi)
    (T t : Int) (hT : (hi - T) % res = 0) (ht : t ∈ bucketTimes otherRes k asOf hi T) :
    T - res < t ∧ t ≤ T ∧ t % otherRes = 0 ∧ asOf < t ∧ t ≤ hi := by
  obtain ⟨⟨b1, b2, b3⟩, b4, b5⟩ := (mem_bucketTimes w.otherResPos k asOf hi T t).mp ht
  rw [← w.resEq] at b1
  have h1 : (hi - T) % otherRes = 0 := by
    have := hT; rw [w.resEq] at this; exact emod_of_mul _ this
  have hTal : T % otherRes = 0 := by
    have : T = hi - (hi - T) := by omega
    rw [this]; exact emod_sub_of w.hiAl h1
  have : t = T - (T - t) := by omega
  exact ⟨b1, b2, by rw [this]; exact emod_sub_of hTal b3, b4, b5⟩

theorem subMerge_covers {e : Ex} (hv : e.valid = true) (hp : e.noPtile = true) (hs : e.shiftOf = 0)
    {res otherRes : Int} {k : Nat} {asOf hi : Int} (w : SMWindow res otherRes k asOf hi)
    (s other : Sq) (p : Pt) (ho : SqOk otherRes other) (hwo : SqWF e other) (hg : RecvGrid e res hi s)
    (T : Int) (hT : (hi - T) % res = 0) (hW : asOf < T ∧ T ≤ hi) :
    (sqCovers s res T → sqCovers (Sq.subMerge e e (.direct e) res otherRes s other p asOf hi 0) res T) ∧
    ((∃ t ∈ bucketTimes otherRes k asOf hi T, sqCovers other otherRes t) →
      sqCovers (Sq.subMerge e e (.direct e) res otherRes s other p asOf hi 0) res T) := by
  have hkI : (0 : Int) < (k : Int) := by have := w.kPos; omega
  have hres : 0 < res := by rw [w.resEq]; exact Int.mul_pos hkI w.otherResPos
  have hap := w.asOfPos
  have hlt := w.asOfLt
  -- the truncated source, when a bucket period is physically present
  have hsrc : ∀ t ∈ bucketTimes otherRes k asOf hi T, sqCovers other otherRes t →
      ∃ ob o0, other = some ob ∧ other.truncate otherRes asOf hi = some o0 ∧ covers o0 otherRes t ∧ covers ob otherRes t := by
    intro t ht ⟨ob, hob, hc⟩
    obtain ⟨_, _, f3, f4, f5⟩ := bucket_time_facts w T t hT ht
    subst hob
    obtain ⟨o0, h1, h2, _⟩ := truncate_covers w.otherResPos ob asOf hi t (by have := ho.pos; omega) (by omega) (by omega)
      (emod_sub_of ho.aligned f3) f4 f5 hc
    exact ⟨ob, o0, rfl, h1, h2, hc⟩
  rw [subMerge_direct_eq e hs]
  cases htr : other.truncate otherRes asOf hi with
  | none =>
    refine ⟨fun h => h, fun ⟨t, ht, hc⟩ => ?_⟩
    obtain ⟨_, o0, _, h1, _, _⟩ := hsrc t ht hc
    rw [htr] at h1; cases h1
  | some o0 =>
    simp only
    split
    · rename_i hl
      refine ⟨fun h => h, fun ⟨t, ht, hc⟩ => ?_⟩
      obtain ⟨_, o0', _, h1, h2, _⟩ := hsrc t ht hc
      rw [htr] at h1; injection h1 with h1; subst h1
      have := covers_len_pos w.otherResPos h2; omega
    · obtain ⟨v1, v2⟩ := recv_truncate_inv hres s hg asOf hi
      obtain ⟨g1, _, _⟩ := roundUntilUp_spec (t := o0.hi) (hi := hi) (res := res) hres
        (by
          cases other with
          | none => cases htr
          | some ob =>
            obtain ⟨u1, _⟩ := hit_setup e w ob o0 ho hwo htr
            omega) (by omega)
      constructor
      · intro ⟨q, hq, hc⟩
        subst hq
        obtain ⟨r1, r2, _⟩ := hg
        have hgq : (q.hi - T) % res = 0 := by
          have : q.hi - T = (hi - T) - (hi - q.hi) := by omega
          rw [this]; exact emod_sub_of hT r1
        obtain ⟨q', h1, h2, h3⟩ := truncate_covers hres q asOf hi T (by omega) (by omega) (by omega) hgq hW.1 hW.2 hc
        rw [h1]
        refine ⟨_, rfl, smBody_covers_recv hres q' _ o0 p hi T ?_ h2⟩
        have : roundUntilUp o0.hi res hi - q'.hi = (hi - q'.hi) - (hi - roundUntilUp o0.hi res hi) := by omega
        rw [this]; exact emod_sub_of (v2 q' h1) g1
      · intro ⟨t, ht, hc⟩
        obtain ⟨f1, f2, _, f4, _⟩ := bucket_time_facts w T t hT ht
        obtain ⟨ob, o0', hob, h1, h2, h3⟩ := hsrc t ht hc
        rw [htr] at h1; injection h1 with h1; subst h1
        subst hob
        obtain ⟨u1, _, _, u4, _⟩ := hit_setup e w ob o0 ho hwo htr
        refine ⟨_, rfl, smBody_covers_src hres _ _ o0 p hi (by omega) u1 u4 v1 v2 T t hT f1 h2.2 ?_ f2⟩
        have hasof : Sq.asOf (some ob) otherRes = ob.hi - (ob.cells.length : Int) * otherRes := rfl
        split
        · exact f4
        · rw [hasof]; exact h3.1

end Zeno
