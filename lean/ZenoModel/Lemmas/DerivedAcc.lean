/-
Derived selected expressions, part 17 (stage 2, the algebraic lemma): assembling the columns'
ACCUMULATIONS of a list of points = accumulating the points directly with the derived expression,
the row's IF conditions appended to every point (which is what `specQuery` does).
-/
import ZenoModel.Lemmas.DerivedMatch
import ZenoModel.Lemmas.SubMergeSemSpec2
set_option linter.unusedSimpArgs false
set_option linter.unusedVariables false
namespace Zeno

/-- a point with the IF conditions of its source row's key appended -/
def addConds (cs : List Nat) (pt : Pt) : Pt := { pt with conds := pt.conds ++ cs }

/-- every aggregate of `e` lies in a sub-expression that resolves to a column, and that column's
    expression IS the sub-expression (not merely printed alike: AVG prints without its weight) -/
def Ex.resolved (subs : List Ex) : Ex → Bool
  | .field _ => true
  | .const _ => true
  | .agg k w => match (Ex.agg k w).matchIdx subs with
      | some i => subs[i]? == some (Ex.agg k w)
      | none => false
  | .avg v w => match (Ex.avg v w).matchIdx subs with
      | some i => subs[i]? == some (Ex.avg v w)
      | none => false
  | .bin op l r => match (Ex.bin op l r).matchIdx subs with
      | some i => subs[i]? == some (Ex.bin op l r)
      | none => l.resolved subs && r.resolved subs
  | .ifE c w => match (Ex.ifE c w).matchIdx subs with
      | some i => subs[i]? == some (Ex.ifE c w)
      | none => w.resolved subs
  | .bounded w lo hi => match (Ex.bounded w lo hi).matchIdx subs with
      | some i => subs[i]? == some (Ex.bounded w lo hi)
      | none => w.resolved subs
  | .unary u w => match (Ex.unary u w).matchIdx subs with
      | some i => subs[i]? == some (Ex.unary u w)
      | none => w.resolved subs
  | .shift _ _ => false
  | .ptile _ _ _ _ => false

/-- the IF conditions of `e` that are evaluated on the source row's key by the sub-mergers: those of
    the IF nodes that do not resolve to a column -/
def Ex.openConds (subs : List Ex) : Ex → List Nat
  | .bin op l r => match (Ex.bin op l r).matchIdx subs with
      | some _ => []
      | none => l.openConds subs ++ r.openConds subs
  | .ifE c w => match (Ex.ifE c w).matchIdx subs with
      | some _ => []
      | none => c :: w.openConds subs
  | .bounded w lo hi => match (Ex.bounded w lo hi).matchIdx subs with
      | some _ => []
      | none => w.openConds subs
  | .unary u w => match (Ex.unary u w).matchIdx subs with
      | some _ => []
      | none => w.openConds subs
  | _ => []

variable (x : Ext)

theorem acc_width0 {e : Ex} (hv : e.valid = true) (hp : e.noPtile = true) (h : e.shape = []) (ps : List Pt) :
    e.acc x ps = [] := wf_nil_of_shape_nil h (acc_wf x hv hp ps)

theorem foldl_upd_bin {op : BinOp} {l r : Ex} (hvl : l.valid = true) (hpl : l.noPtile = true) :
    ∀ (ps : List Pt) (cl cr : List Cell), WF l cl →
      ps.foldl ((Ex.bin op l r).upd x) (cl ++ cr) = ps.foldl (l.upd x) cl ++ ps.foldl (r.upd x) cr := by
  intro ps
  induction ps with
  | nil => intro cl cr _; rfl
  | cons p ps ih =>
    intro cl cr hcl
    simp only [List.foldl_cons]
    rw [upd_bin x hvl hpl hcl p, ih _ _ (upd_wf x hvl hpl hcl p)]

theorem acc_bin {op : BinOp} {l r : Ex} (hvl : l.valid = true) (hpl : l.noPtile = true) (ps : List Pt) :
    (Ex.bin op l r).acc x ps = l.acc x ps ++ r.acc x ps :=
  foldl_upd_bin x hvl hpl ps l.empty r.empty (wf_empty l)

theorem foldl_congr_on {α : Type} (F F' : List Cell → α → List Cell) (P : List Cell → Prop)
    (hP : ∀ a i, P a → P (F a i)) : ∀ (l : List α) (a : List Cell), P a →
    (∀ a, P a → ∀ i ∈ l, F a i = F' a i) → l.foldl F a = l.foldl F' a := by
  intro l
  induction l with
  | nil => intro a _ _; rfl
  | cons i l ih =>
    intro a ha h
    simp only [List.foldl_cons]
    rw [← h a ha i (by simp)]
    exact ih _ (hP a i ha) (fun a' ha' i' hi' => h a' ha' i' (by simp [hi']))

/-- `IF(c, w)` over points that all satisfy `c` accumulates like `w` -/
theorem acc_ifE_all (c : Nat) (w : Ex) (ps : List Pt) (h : ∀ pt ∈ ps, pt.includes c = true) :
    (Ex.ifE c w).acc x ps = w.acc x ps := by
  unfold Ex.acc
  apply foldl_congr_on _ _ (fun _ => True) (fun _ _ _ => trivial) ps _ trivial
  intro a _ pt hpt
  simp [Ex.upd, Ex.update, h pt hpt]

/-- … and over points none of which satisfies `c` stays empty -/
theorem acc_ifE_none (c : Nat) (w : Ex) (ps : List Pt) (h : ∀ pt ∈ ps, pt.includes c = false) :
    (Ex.ifE c w).acc x ps = w.empty := by
  unfold Ex.acc
  have : ∀ (l : List Pt) (a : List Cell), (∀ pt ∈ l, pt.includes c = false) → WF w a →
      l.foldl ((Ex.ifE c w).upd x) a = a := by
    intro l
    induction l with
    | nil => intro a _ _; rfl
    | cons pt l ih =>
      intro a hl ha
      simp only [List.foldl_cons]
      have : (Ex.ifE c w).upd x a pt = a := by
        simp only [Ex.upd, Ex.update, hl pt (by simp), Bool.false_eq_true, if_false]
        rw [← ha.length, List.take_length]
      rw [this]
      exact ih a (fun pt' h' => hl pt' (by simp [h'])) ha
  exact this ps _ h (wf_empty w)

theorem acc_bounded (w : Ex) (lo hi : Rat) (ps : List Pt) : (Ex.bounded w lo hi).acc x ps = w.acc x ps := by
  unfold Ex.acc
  apply foldl_congr_on _ _ (fun _ => True) (fun _ _ _ => trivial) ps _ trivial
  intro a _ pt _
  simp only [Ex.upd, Ex.update]
  split <;> rfl

theorem acc_unary (f : Nat) (w : Ex) (ps : List Pt) : (Ex.unary f w).acc x ps = w.acc x ps := rfl

theorem includes_addConds (cs : List Nat) (pt : Pt) (c : Nat) :
    (addConds cs pt).includes c = (pt.includes c || cs.contains c) := by
  simp [addConds, Pt.includes, Bool.or_assoc]

end Zeno
