/-
Helper lemmas for C13, part 7: the caller's recording callback, and the per-partition
report of queryCluster.
-/
import ZenoModel.Lemmas.ReportPlan

namespace Zeno.Report

/-! ## the recording callback -/

/-- one call: the row is recorded exactly when the reply is `(true, nil)`; a `(false, nil)`
    reply means the caller's own stop fault fired -/
theorem user_step (f : UFault) (size : Row → Nat) (st : UState) (now : Nat) (r : Row) (st' : UState) (d : Nat)
    (rep : Reply) (h : (userSink f size).onRow st now r = (st', d, rep)) :
    st'.n = st.n + 1 ∧
    (rep.ok = true → st'.rows = st.rows ++ [r]) ∧ (rep.ok = false → st'.rows = st.rows) ∧
    (rep.more = false → rep.err = none → ∃ k, f = .stopAt k ∧ st.n = k) := by
  unfold userSink at h
  cases f with
  | none =>
    simp only [Prod.mk.injEq] at h
    obtain ⟨rfl, _, rfl⟩ := h
    simp [Reply.ok, Reply.proceed]
  | failAt k =>
    simp only at h
    by_cases hk : (st.n == k) = true
    · rw [if_pos hk] at h
      simp only [Prod.mk.injEq] at h
      obtain ⟨rfl, _, rfl⟩ := h
      simp [Reply.ok, Reply.fail]
    · rw [if_neg hk] at h
      simp only [Prod.mk.injEq] at h
      obtain ⟨rfl, _, rfl⟩ := h
      simp [Reply.ok, Reply.proceed]
  | stopAt k =>
    simp only at h
    by_cases hk : (st.n == k) = true
    · rw [if_pos hk] at h
      simp only [Prod.mk.injEq] at h
      obtain ⟨rfl, _, rfl⟩ := h
      have : st.n = k := by simpa using hk
      simp [Reply.ok, Reply.stop, this]
    · rw [if_neg hk] at h
      simp only [Prod.mk.injEq] at h
      obtain ⟨rfl, _, rfl⟩ := h
      simp [Reply.ok, Reply.proceed]
  | panicAt k =>
    simp only at h
    by_cases hk : (st.n == k) = true
    · rw [if_pos hk] at h
      simp only [Prod.mk.injEq] at h
      obtain ⟨rfl, _, rfl⟩ := h
      simp [Reply.ok, Reply.fail]
    · rw [if_neg hk] at h
      simp only [Prod.mk.injEq] at h
      obtain ⟨rfl, _, rfl⟩ := h
      simp [Reply.ok, Reply.proceed]
  | sleepAt k dd =>
    simp only at h
    by_cases hk : (st.n == k) = true
    · rw [if_pos hk] at h
      simp only [Prod.mk.injEq] at h
      obtain ⟨rfl, _, rfl⟩ := h
      simp [Reply.ok, Reply.proceed]
    · rw [if_neg hk] at h
      simp only [Prod.mk.injEq] at h
      obtain ⟨rfl, _, rfl⟩ := h
      simp [Reply.ok, Reply.proceed]
  | sizeCap max =>
    simp only at h
    by_cases hk : max < st.est + size r
    · rw [if_pos hk] at h
      simp only [Prod.mk.injEq] at h
      obtain ⟨rfl, _, rfl⟩ := h
      simp [Reply.ok, Reply.fail]
    · rw [if_neg hk] at h
      simp only [Prod.mk.injEq] at h
      obtain ⟨rfl, _, rfl⟩ := h
      simp [Reply.ok, Reply.proceed]

/-- after a feeding: every row is recorded, except a last one answered by a fault -/
theorem user_fed (f : UFault) (size : Row → Nat) : ∀ (rows : List Row) (st st' : UState) (rep : Reply),
    Fed (userSink f size) st rows st' rep →
    st'.rows = st.rows ++ (if rep.ok then rows else rows.dropLast) ∧ st'.n = st.n + rows.length ∧
    (rep.more = false → rep.err = none → f.stopped st' = true) := by
  intro rows st st' rep h
  induction h with
  | nil s0 => simp [Reply.ok, Reply.proceed]
  | @last s0 now r s1 d rp hr hk =>
    obtain ⟨hn, _, hno, hst⟩ := user_step f size s0 now r s1 d rp hr
    refine ⟨by simp [hk, hno hk], by simp [hn], fun hm he => ?_⟩
    obtain ⟨k, rfl, hk'⟩ := hst hm he
    simp [UFault.stopped, hn, hk']
  | @cons s0 now r s1 d rp rs s2 rp2 hr hk _ ih =>
    obtain ⟨hn, hok, _, _⟩ := user_step f size s0 now r s1 d rp hr
    obtain ⟨i1, i2, i3⟩ := ih
    refine ⟨?_, by rw [i2, hn]; simp; omega, i3⟩
    rw [i1, hok hk]
    by_cases hk2 : rp2.ok = true
    · simp [hk2]
    · have hk2' : rp2.ok = false := by simpa using hk2
      simp only [hk2', Bool.false_eq_true, if_false, List.append_assoc]
      -- the tail is non-empty: its last reply is not `proceed`
      cases rs with
      | nil =>
        rename_i htail
        cases htail
        simp [Reply.ok, Reply.proceed] at hk2'
      | cons a t => simp [List.dropLast_cons_of_ne_nil]

/-- one call of the callback that panics at call k: answered without error ⇒ it was not call k -/
theorem panic_step (k : Nat) (size : Row → Nat) (st : UState) (now : Nat) (r : Row) (st1 : UState) (d : Nat)
    (rep : Reply) (h : (userSink (.panicAt k) size).onRow st now r = (st1, d, rep)) :
    st1.n = st.n + 1 ∧ (rep.err = none → st.n ≠ k) := by
  simp only [userSink] at h
  by_cases hk : (st.n == k) = true
  · rw [if_pos hk] at h
    simp only [Prod.mk.injEq] at h
    obtain ⟨rfl, _, rfl⟩ := h
    simp [Reply.fail]
  · rw [if_neg hk] at h
    simp only [Prod.mk.injEq] at h
    obtain ⟨rfl, _, rfl⟩ := h
    exact ⟨rfl, fun _ => by simpa using hk⟩

/-- a feeding of the panicking callback that ends without error never made call k -/
theorem panic_fed (k : Nat) (size : Row → Nat) : ∀ (rows : List Row) (st st' : UState) (rep : Reply),
    Fed (userSink (.panicAt k) size) st rows st' rep → rep.err = none → st.n ≤ k → st'.n ≤ k := by
  intro rows st st' rep h
  induction h with
  | nil s0 => intro _ hn; exact hn
  | @last s0 now r s1 d rp hr hk =>
    intro he hn
    obtain ⟨h1, h2⟩ := panic_step k size s0 now r s1 d rp hr
    have := h2 he
    omega
  | @cons s0 now r s1 d rp rs s2 rp2 hr hk _ ih =>
    intro he hn
    obtain ⟨h1, h2⟩ := panic_step k size s0 now r s1 d rp hr
    have hrp : rp = Reply.proceed := (Reply.ok_iff rp).mp hk
    have := h2 (by rw [hrp]; rfl)
    exact ih he (by omega)

/-- what `Polite` means for the recording callback: the recorded rows are a prefix of `l`,
    all of `l` unless the caller's own stop fault fired -/
theorem user_polite (f : UFault) (size : Row → Nat) (st' : UState) (l : List Row)
    (h : Polite (userSink f size) {} l st') :
    (st'.rows = l ∧ f.stopped st' = false ∨ f.stopped st' = true) ∧ ∃ m, st'.rows = l.take m := by
  obtain ⟨m, rep, hf, he, hc⟩ := h
  obtain ⟨h1, h2, h3⟩ := user_fed f size _ _ _ _ hf
  by_cases hm : rep.more = true
  · have hok : rep.ok = true := by simp [Reply.ok, hm, he]
    have hl := hc hm
    simp only [hok, if_true, List.take_of_length_le hl] at h1
    have h1' : st'.rows = l := by simpa using h1
    refine ⟨?_, l.length, by simp [h1']⟩
    cases hs : f.stopped st' with
    | true => right; rfl
    | false => left; exact ⟨h1', rfl⟩
  · have hm' : rep.more = false := by simpa using hm
    have hok : rep.ok = false := by simp [Reply.ok, hm']
    simp only [hok, Bool.false_eq_true, if_false] at h1
    have h1' : st'.rows = (l.take m).dropLast := by simpa using h1
    exact ⟨Or.inr (h3 hm' he), min ((l.take m).length - 1) m, by rw [h1', List.dropLast_eq_take, List.take_take]⟩

/-! ## queryCluster: every partition is complete or listed as missing -/

theorem foldl_fail_frame : ∀ (l : List Nat) (c : CState), c.finalErr = none →
    (l.foldl (fun c p => c.fail p (some Err.deadline)) c).finalErr = none ∧
    (l.foldl (fun c p => c.fail p (some Err.deadline)) c).stopped = c.stopped ∧
    (l.foldl (fun c p => c.fail p (some Err.deadline)) c).finished = c.finished ∧
    (l.foldl (fun c p => c.fail p (some Err.deadline)) c).recvd = c.recvd ∧
    (l.foldl (fun c p => c.fail p (some Err.deadline)) c).pending = c.pending ∧
    (∀ q, c.missing.contains q = true → (l.foldl (fun c p => c.fail p (some Err.deadline)) c).missing.contains q = true) ∧
    (∀ q, q ∈ l → (l.foldl (fun c p => c.fail p (some Err.deadline)) c).missing.contains q = true)
  | [], c, h => ⟨h, rfl, rfl, rfl, rfl, fun _ hq => hq, fun _ hq => by cases hq⟩
  | a :: t, c, h => by
    obtain ⟨f1, f2, _, f4, f5, f6⟩ := fail_frame c a (some Err.deadline) h
    obtain ⟨m1, m2⟩ := fail_missing c a (some Err.deadline)
    obtain ⟨i1, i2, i3, i4, i5, i6, i7⟩ := foldl_fail_frame t (c.fail a (some Err.deadline)) f1
    simp only [List.foldl_cons]
    refine ⟨i1, by rw [i2, f2], by rw [i3, f4], by rw [i4, f5], by rw [i5, f6], fun q hq => i6 q (m2 q hq), ?_⟩
    intro q hq
    rcases List.mem_cons.mp hq with h1 | h1
    · subst h1; exact i6 q m1
    · exact i7 q h1

theorem CInv.timeout {σ : Type} {parts : List Part} {s : Sink σ} {st0 : σ} {c : CState} {st : σ} {acc : List Row}
    {okFin : List Nat} (h : CInv parts s st0 c st acc okFin) :
    CInv parts s st0 (timeoutFail parts.length c) st acc okFin ∧
    ∀ p, p < parts.length → p ∈ okFin ∨ (timeoutFail parts.length c).missing.contains p = true := by
  unfold timeoutFail
  obtain ⟨i1, i2, i3, i4, i5, i6, i7⟩ := foldl_fail_frame ((List.range parts.length).filter (fun p => !c.finished.contains p)) c h.fe
  refine ⟨{ fe := i1, fedOk := ?_, fedStop := ?_, accLt := h.accLt, proj := ?_, finNodup := ?_, finLt := ?_, cnt := ?_,
            okSub := ?_, okNodup := h.okNodup, okLen := ?_, succ := ?_, okProp := ?_, missFin := ?_ }, ?_⟩
  · intro hn; rw [i2] at hn; exact h.fedOk hn
  · intro hn; rw [i2] at hn; exact h.fedStop hn
  · intro p pt hp; rw [i4, i2]; exact h.proj p pt hp
  · rw [i3]; exact h.finNodup
  · rw [i3]; exact h.finLt
  · rw [i3, i5]; exact h.cnt
  · rw [i3]; exact h.okSub
  · rw [i3]; exact h.okLen
  · rw [foldl_fail_successful]; exact h.succ
  · intro p pt hp hpt; rw [i2, i4]; exact h.okProp p pt hp hpt
  · intro p hp
    rw [i3] at hp
    rcases h.missFin p hp with h1 | h1
    · exact Or.inl h1
    · exact Or.inr (i6 p h1)
  · intro p hp
    by_cases hf : c.finished.contains p = true
    · have : p ∈ c.finished := by simpa using hf
      rcases h.missFin p this with h1 | h1
      · exact Or.inl h1
      · exact Or.inr (i6 p h1)
    · right
      apply i7
      simp only [List.mem_filter, List.mem_range]
      exact ⟨hp, by simpa using hf⟩

/-- the receive loop ending without error: every partition is counted successful or listed
    as missing -/
theorem cluster_run2 {σ : Type} (parts : List Part) (hw : PartsWf parts) (s : Sink σ) (st0 : σ) :
    ∀ (evs : List CEvent) (c : CState) (st : σ) (now : Nat) (acc : List Row) (okFin : List Nat),
      CInv parts s st0 c st acc okFin →
      ∀ (st' : σ) (d : Nat) (e : Option Err) (c' : CState),
        clusterLoop parts false s c st now evs = (st', d, e, c') → e = none →
        ∃ acc' okFin', CInv parts s st0 c' st' acc' okFin' ∧
          ∀ p, p < parts.length → p ∈ okFin' ∨ c'.missing.contains p = true := by
  intro evs
  have hdone : ∀ (c : CState) (st : σ) (acc : List Row) (okFin : List Nat), CInv parts s st0 c st acc okFin →
      (c.pending == 0) = true → ∀ p, p < parts.length → p ∈ okFin ∨ c.missing.contains p = true := by
    intro c st acc okFin hinv hp p hlt
    have hp0 : c.pending = 0 := by simpa using hp
    have hlen : parts.length ≤ c.finished.length := by have := hinv.cnt; omega
    exact hinv.missFin p (nodup_full _ _ hinv.finNodup hinv.finLt hlen p hlt)
  induction evs with
  | nil =>
    intro c st now acc okFin hinv st' d e c' hrun he
    unfold clusterLoop at hrun
    by_cases hp : (c.pending == 0) = true
    · rw [if_pos hp] at hrun
      simp only [Prod.mk.injEq] at hrun
      obtain ⟨rfl, _, _, rfl⟩ := hrun
      exact ⟨acc, okFin, hinv, hdone c st acc okFin hinv hp⟩
    · rw [if_neg hp] at hrun
      simp only [Prod.mk.injEq] at hrun
      obtain ⟨rfl, _, _, rfl⟩ := hrun
      exact ⟨acc, okFin, hinv.timeout.1, hinv.timeout.2⟩
  | cons ev rest ih =>
    intro c st now acc okFin hinv st' d e c' hrun he
    unfold clusterLoop at hrun
    by_cases hp : (c.pending == 0) = true
    · rw [if_pos hp] at hrun
      simp only [Prod.mk.injEq] at hrun
      obtain ⟨rfl, _, _, rfl⟩ := hrun
      exact ⟨acc, okFin, hinv, hdone c st acc okFin hinv hp⟩
    · rw [if_neg hp] at hrun
      have hstep := cluster_step parts hw s st0 c st now acc okFin ev hinv hp
      generalize hstp : clusterStep parts false s c st now ev = stp at hrun hstep
      cases stp with
      | halt st1 d1 e1 c1 =>
        simp only [Prod.mk.injEq] at hrun
        obtain ⟨rfl, _, rfl, rfl⟩ := hrun
        rcases hstep with h | h
        · exact absurd he h
        · subst h
          simp only [clusterStep, CStep.halt.injEq] at hstp
          obtain ⟨rfl, _, _, rfl⟩ := hstp
          exact ⟨acc, okFin, hinv.timeout.1, hinv.timeout.2⟩
      | next c1 st1 d1 =>
        simp only at hrun hstep
        obtain ⟨acc', okFin', hinv'⟩ := hstep
        generalize hrec : clusterLoop parts false s c1 st1 (now + d1) rest = rr at hrun
        obtain ⟨ra, rb, rc, rd⟩ := rr
        simp only [Prod.mk.injEq] at hrun
        obtain ⟨rfl, _, rfl, rfl⟩ := hrun
        exact ih c1 st1 (now + d1) acc' okFin' hinv' _ _ _ _ hrec he

end Zeno.Report
