/-
Semantics of `Sequence.Merge`: index-level characterisation of the merged cells
(`mergeIdx`, `getD_mergeIdx`), the bridge from the time arithmetic of the model to
period counts (`mergeMain_eq`) and the semantic theorem `sem_merge`.
-/
import ZenoModel.Lemmas.Seq
import ZenoModel.Lemmas.ExprLaws

set_option linter.unusedSimpArgs false

namespace Zeno

/-- all period states of a sequence are well-formed for `e` -/
def CellsWF (e : Ex) (cs : List (List Cell)) : Prop := ∀ c ∈ cs, WF e c

theorem getD_wf {e : Ex} {cs : List (List Cell)} (h : CellsWF e cs) (i : Nat) : WF e (cs.getD i e.empty) := by
  rw [List.getD_eq_getElem?_getD]
  cases hg : cs[i]? with
  | none => exact wf_empty e
  | some c => exact h c (List.mem_of_getElem? hg)

theorem mrg_empty_empty {e : Ex} (hv : e.valid = true) (hp : e.noPtile = true) :
    e.mrg e.empty e.empty = e.empty := mrg_empty_right hv hp (wf_empty e)

theorem mrg_empty_left {e : Ex} (hv : e.valid = true) (hp : e.noPtile = true) {st : List Cell}
    (h : WF e st) : e.mrg e.empty st = st := by
  rw [mrg_comm hv hp (wf_empty e) h, mrg_empty_right hv hp h]

theorem getD_mergeCells {e : Ex} (hv : e.valid = true) (hp : e.noPtile = true) :
    ∀ (n : Nat) (as bs : List (List Cell)) (j : Nat),
    (mergeCells e n as bs).getD j e.empty =
      if j < n then e.mrg (as.getD j e.empty) (bs.getD j e.empty) else e.empty := by
  intro n
  induction n with
  | zero => intro as bs j; simp [mergeCells]
  | succ n ih =>
    intro as bs j
    cases as with
    | nil =>
      cases bs with
      | nil => simp [mergeCells, mrg_empty_empty hv hp]
      | cons b bs =>
        cases j with
        | zero => simp [mergeCells]
        | succ j =>
          have := ih [] bs j
          simp only [mergeCells, List.getD_cons_succ, this]
          simp
    | cons a as =>
      cases bs with
      | nil =>
        cases j with
        | zero => simp [mergeCells]
        | succ j =>
          have := ih as [] j
          simp only [mergeCells, List.getD_cons_succ, this]
          simp
      | cons b bs =>
        cases j with
        | zero => simp [mergeCells]
        | succ j =>
          have := ih as bs j
          simp only [mergeCells, List.getD_cons_succ, this]
          simp

theorem getD_fit (e : Ex) (n : Nat) (cs : List (List Cell)) (i : Nat) :
    (fit e n cs).getD i e.empty = if i < n then cs.getD i e.empty else e.empty := by
  unfold fit
  rw [List.getD_eq_getElem?_getD, List.getD_eq_getElem?_getD]
  by_cases hi : i < n
  · simp only [hi, if_true]
    by_cases hl : i < cs.length
    · rw [List.getElem?_append_left (by simp; omega), List.getElem?_take]
      simp [hi]
    · rw [List.getElem?_append_right (by simp; omega)]
      simp only [List.length_take]
      rw [List.getElem?_eq_none (l := cs) (by omega)]
      cases hr : (List.replicate (n - cs.length) e.empty)[i - min n cs.length]? with
      | none => rfl
      | some c =>
        have := List.mem_of_getElem? hr
        simp at this
        simp [this.2]
  · simp only [hi, if_false]
    rw [List.getElem?_eq_none]
    · rfl
    · simp; omega

end Zeno
namespace Zeno

/-- `Sequence.Merge`'s main branch with all time arithmetic resolved to period counts:
    `off` = number of periods by which `b` starts later (older) than `a`. -/
def mergeIdx (e : Ex) (ca cb : List (List Cell)) (off : Nat) : List (List Cell) :=
  let aP := ca.length
  let bP := cb.length
  let total := max aP (off + bP)
  let leadN := min off aP
  let lead := ca.take leadN
  let sa := ca.drop leadN
  let ov := min bP (aP - off)
  let mid := if off < aP then mergeCells e ov sa cb
    else if aP < off then List.replicate (off - aP) e.empty else []
  let sa' := if off < aP then sa.drop ov else sa
  let sb' := if off < aP then cb.drop ov else cb
  let tail := if off + bP < aP then sa' else if aP < off + bP then sb' else []
  fit e total (lead ++ mid ++ tail)

theorem getD_append3 (e : Ex) (l1 l2 l3 : List (List Cell)) (i : Nat) :
    (l1 ++ l2 ++ l3).getD i e.empty =
      if i < l1.length then l1.getD i e.empty
      else if i < l1.length + l2.length then l2.getD (i - l1.length) e.empty
      else l3.getD (i - l1.length - l2.length) e.empty := by
  simp only [List.getD_eq_getElem?_getD]
  by_cases h1 : i < l1.length
  · simp only [h1, if_true]
    rw [List.append_assoc, List.getElem?_append_left h1]
  · simp only [h1, if_false]
    rw [List.append_assoc, List.getElem?_append_right (by omega)]
    by_cases h2 : i < l1.length + l2.length
    · simp only [h2, if_true]
      rw [List.getElem?_append_left (by omega)]
    · simp only [h2, if_false]
      rw [List.getElem?_append_right (by omega)]

theorem length_mergeCells (e : Ex) : ∀ (n : Nat) (as bs : List (List Cell)),
    (mergeCells e n as bs).length = min n (max as.length bs.length) := by
  intro n
  induction n with
  | zero => intro as bs; simp [mergeCells]
  | succ n ih =>
    intro as bs
    cases as <;> cases bs <;> simp [mergeCells, ih] <;> omega

theorem getD_drop' (e : Ex) (l : List (List Cell)) (k j : Nat) :
    (l.drop k).getD j e.empty = l.getD (k + j) e.empty := by
  simp [List.getD_eq_getElem?_getD, List.getElem?_drop]

theorem getD_take' (e : Ex) (l : List (List Cell)) (k j : Nat) :
    (l.take k).getD j e.empty = if j < k then l.getD j e.empty else e.empty := by
  simp only [List.getD_eq_getElem?_getD, List.getElem?_take]
  split <;> simp

theorem getD_ge (e : Ex) (l : List (List Cell)) (j : Nat) (h : l.length ≤ j) :
    l.getD j e.empty = e.empty := by
  rw [List.getD_eq_getElem?_getD, List.getElem?_eq_none h]; rfl

theorem getD_replicate' (e : Ex) (n j : Nat) : (List.replicate n e.empty).getD j e.empty = e.empty := by
  rw [List.getD_eq_getElem?_getD]
  cases hr : (List.replicate n e.empty)[j]? with
  | none => rfl
  | some c =>
    have := List.mem_of_getElem? hr
    simp at this
    simp [this.2]

theorem getD_mergeIdx {e : Ex} (hv : e.valid = true) (hp : e.noPtile = true)
    {ca cb : List (List Cell)} (ha : CellsWF e ca) (hb : CellsWF e cb) (off i : Nat) :
    (mergeIdx e ca cb off).getD i e.empty =
      e.mrg (ca.getD i e.empty) (if off ≤ i then cb.getD (i - off) e.empty else e.empty) := by
  have wa := getD_wf ha
  have wb := getD_wf hb
  have ee := mrg_empty_empty hv hp
  have er : ∀ j, e.mrg (ca.getD j e.empty) e.empty = ca.getD j e.empty :=
    fun j => mrg_empty_right hv hp (wa j)
  have el : ∀ j, e.mrg e.empty (cb.getD j e.empty) = cb.getD j e.empty :=
    fun j => mrg_empty_left hv hp (wb j)
  unfold mergeIdx
  simp only
  rw [getD_fit, getD_append3]
  by_cases hoa : off < ca.length
  · -- b starts inside a: lead, overlap, tail
    have hl : min off ca.length = off := by omega
    simp only [hoa, if_true, hl, List.length_take]
    rw [length_mergeCells, getD_mergeCells hv hp, getD_take', getD_drop']
    simp only [List.length_drop]
    have hov : min (min cb.length (ca.length - off)) (max (ca.length - off) cb.length)
        = min cb.length (ca.length - off) := by omega
    rw [hov]
    by_cases h1 : i < off
    · have h0 : i < max ca.length (off + cb.length) := by omega
      simp only [h1, h0, if_true, show ¬ off ≤ i by omega, if_false]
      exact (er i).symm
    · by_cases h2 : i < off + min cb.length (ca.length - off)
      · have h0 : i < max ca.length (off + cb.length) := by omega
        have h3 : i - off < min cb.length (ca.length - off) := by omega
        simp only [h1, h2, h0, h3, if_true, if_false, show off ≤ i by omega,
          show off + (i - off) = i by omega]
      · simp only [h1, h2, if_false, show off ≤ i by omega, if_true]
        by_cases h4 : off + cb.length < ca.length
        · simp only [h4, if_true]
          rw [getD_drop', getD_drop']
          have hb' : cb.getD (i - off) e.empty = e.empty := getD_ge e cb _ (by omega)
          have hidx : off + (min cb.length (ca.length - off) + (i - off - min cb.length (ca.length - off))) = i := by omega
          rw [hb', hidx, er]
          split
          · rfl
          · rename_i hge
            exact (getD_ge e ca i (by omega)).symm
        · by_cases h5 : ca.length < off + cb.length
          · simp only [h4, h5, if_false, if_true]
            rw [getD_drop']
            have ha' : ca.getD i e.empty = e.empty := getD_ge e ca _ (by omega)
            have hidx : min cb.length (ca.length - off) + (i - off - min cb.length (ca.length - off)) = i - off := by omega
            rw [ha', hidx, el]
            split
            · rfl
            · exact (getD_ge e cb _ (by omega)).symm
          · simp only [h4, h5, if_false]
            have ha' : ca.getD i e.empty = e.empty := getD_ge e ca _ (by omega)
            have hb' : cb.getD (i - off) e.empty = e.empty := getD_ge e cb _ (by omega)
            rw [ha', hb', ee]
            split
            · exact getD_ge e [] _ (by simp)
            · rfl
  · -- b starts at or after a's end: lead (all of a), gap, tail (all of b)
    have hl : min off ca.length = ca.length := by omega
    simp only [hoa, if_false, hl, List.length_take, Nat.min_self]
    rw [getD_take']
    by_cases h1 : i < ca.length
    · have h0 : i < max ca.length (off + cb.length) := by omega
      simp only [h1, h0, if_true, show ¬ off ≤ i by omega, if_false]
      exact (er i).symm
    · have ha' : ca.getD i e.empty = e.empty := getD_ge e ca _ (by omega)
      rw [ha']
      simp only [h1, if_false]
      have h4 : ¬ off + cb.length < ca.length := by omega
      by_cases hgap : ca.length < off
      · simp only [hgap, if_true, List.length_replicate]
        by_cases h2 : i < ca.length + (off - ca.length)
        · simp only [h2, if_true, getD_replicate', show ¬ off ≤ i by omega, if_false, ee]
          split <;> rfl
        · simp only [h2, if_false, h4, show off ≤ i by omega, if_true, el]
          by_cases h5 : ca.length < off + cb.length
          · simp only [h5, if_true]
            have hidx : i - ca.length - (off - ca.length) = i - off := by omega
            rw [hidx]
            split
            · rfl
            · exact (getD_ge e cb _ (by omega)).symm
          · simp only [h5, if_false]
            rw [getD_ge e cb _ (by omega)]
            split
            · exact getD_ge e [] _ (by simp)
            · rfl
      · have hoff : off = ca.length := by omega
        simp only [hgap, if_false, List.length_nil, Nat.add_zero, h1, show off ≤ i by omega, if_true, el, h4]
        by_cases h5 : ca.length < off + cb.length
        · simp only [h5, if_true]
          have hidx : i - ca.length - 0 = i - off := by omega
          rw [hidx]
          split
          · rfl
          · exact (getD_ge e cb _ (by omega)).symm
        · simp only [h5, if_false]
          rw [getD_ge e cb _ (by omega)]
          split
          · exact getD_ge e [] _ (by simp)
          · rfl

end Zeno

namespace Zeno

theorem tdn {res : Int} (h : 0 < res) (k : Int) : (k * res).tdiv res = k :=
  Int.mul_tdiv_cancel _ (Int.ne_of_gt h)

theorem td1 {res : Int} (h : 0 < res) (s k : Int) : (s - (s - k * res)).tdiv res = k := by
  have : s - (s - k * res) = k * res := by omega
  rw [this, tdn h]

theorem td2 {res : Int} (h : 0 < res) (s k m : Int) : (s - (s - k * res - m * res)).tdiv res = k + m := by
  have : s - (s - k * res - m * res) = (k + m) * res := by rw [Int.add_mul]; omega
  rw [this, tdn h]

theorem td3 {res : Int} (h : 0 < res) (s a k : Int) : (s - a * res - (s - k * res)).tdiv res = k - a := by
  have : s - a * res - (s - k * res) = (k - a) * res := by rw [Int.sub_mul]; omega
  rw [this, tdn h]

theorem take_if (l : List (List Cell)) (k : Nat) :
    (if (k : Int) > 0 then l.take (k : Int).toNat else []) = l.take k := by
  cases k with
  | zero => simp
  | succ k => simp

theorem drop_if (l : List (List Cell)) (k : Nat) :
    (if (k : Int) > 0 then l.drop (k : Int).toNat else l) = l.drop k := by
  cases k with
  | zero => simp
  | succ k => simp

theorem mergeMain_eq (e : Ex) {res : Int} (h : 0 < res) (sA : Int) (ca cb : List (List Cell)) (off : Nat) :
    mergeMain e res ⟨sA, ca⟩ ⟨sA - off * res, cb⟩ = ⟨sA, mergeIdx e ca cb off⟩ := by
  have hXY : ∀ a b : Nat, (a:Int) * res < (b:Int) * res ↔ a < b := by
    intro a b; rw [Int.mul_lt_mul_right h]; omega
  have hadd : ((off:Int) + (cb.length:Int)) * res = (off:Int) * res + (cb.length:Int) * res := Int.add_mul _ _ _
  have hXYZ1 : (ca.length:Int) * res < (off:Int) * res + (cb.length:Int) * res ↔ ca.length < off + cb.length := by
    rw [← hadd, Int.mul_lt_mul_right h]; omega
  have hXYZ2 : (off:Int) * res + (cb.length:Int) * res < (ca.length:Int) * res ↔ off + cb.length < ca.length := by
    rw [← hadd, Int.mul_lt_mul_right h]; omega
  have h1 := hXY off ca.length
  have h2 := hXY ca.length off
  unfold mergeMain mergeIdx
  simp only
  congr 1
  by_cases c1 : off < ca.length
  · have f1 : (off:Int) * res < (ca.length:Int) * res := h1.mpr c1
    have e1 : min off ca.length = off := by omega
    by_cases c2 : off + cb.length < ca.length
    · have f2 := hXYZ2.mpr c2
      simp (disch := omega) only [if_pos, if_neg, td1 h, td2 h, td3 h, c1, c2]
      simp only [take_if, drop_if]
      have e2 : ((off:Int) + (cb.length:Int) - (off:Int)).toNat = cb.length := by omega
      have e3 : min cb.length (ca.length - off) = cb.length := by omega
      have e4 : ((ca.length : Int)).toNat = ca.length := by omega
      have e5 : max ca.length (off + cb.length) = ca.length := by omega
      simp only [e1, e2, e3, e4, e5, if_true, if_false, List.drop_zero, List.append_nil]
    · by_cases c3 : ca.length < off + cb.length
      · have f3 := hXYZ1.mpr c3
        simp (disch := omega) only [if_pos, if_neg, td1 h, td2 h, td3 h, c1, c2, c3]
        simp only [take_if, drop_if]
        have e2 : ((ca.length:Int) - (off:Int)).toNat = ca.length - off := by omega
        have e3 : min cb.length (ca.length - off) = ca.length - off := by omega
        have e4 : ((off:Int) + (cb.length : Int)).toNat = off + cb.length := by omega
        have e5 : max ca.length (off + cb.length) = off + cb.length := by omega
        simp only [e1, e2, e3, e4, e5, if_true, if_false, List.drop_zero, List.append_nil]
      · have c4 : ca.length = off + cb.length := by omega
        have f4 : (ca.length:Int) * res = (off:Int) * res + (cb.length:Int) * res := by
          rw [← hadd, c4]; simp
        simp (disch := omega) only [if_pos, if_neg, td1 h, td2 h, td3 h, c1, c2, c3]
        simp only [take_if, drop_if]
        have e2 : ((ca.length:Int) - (off:Int)).toNat = ca.length - off := by omega
        have e3 : min cb.length (ca.length - off) = ca.length - off := by omega
        have e4 : ((off:Int) + (cb.length : Int)).toNat = off + cb.length := by omega
        have e5 : max ca.length (off + cb.length) = off + cb.length := by omega
        simp only [e1, e2, e3, e4, e5, if_true, if_false, List.drop_zero, List.append_nil]
  · have e1 : min off ca.length = ca.length := by omega
    have c2 : ¬ off + cb.length < ca.length := by omega
    by_cases c5 : ca.length < off
    · have f5 : (ca.length:Int) * res < (off:Int) * res := h2.mpr c5
      have c3 : ca.length < off + cb.length := by omega
      have f3 := hXYZ1.mpr c3
      simp (disch := omega) only [if_pos, if_neg, td1 h, td2 h, td3 h, c1, c2, c3, c5]
      simp only [take_if, drop_if]
      have e2 : ((off:Int) - (ca.length:Int)).toNat = off - ca.length := by omega
      have e4 : ((off:Int) + (cb.length : Int)).toNat = off + cb.length := by omega
      have e5 : max ca.length (off + cb.length) = off + cb.length := by omega
      simp only [e1, e2, e4, e5, if_true, if_false, List.drop_zero, List.append_nil]
    · have c6 : off = ca.length := by omega
      have f6 : (off:Int) * res = (ca.length:Int) * res := by rw [c6]
      by_cases c3 : ca.length < off + cb.length
      · have f3 := hXYZ1.mpr c3
        simp (disch := omega) only [if_pos, if_neg, td1 h, td2 h, td3 h, c1, c2, c3, c5]
        simp only [take_if, drop_if]
        have e4 : ((off:Int) + (cb.length : Int)).toNat = off + cb.length := by omega
        have e5 : max ca.length (off + cb.length) = off + cb.length := by omega
        simp only [e1, e4, e5, if_true, if_false, List.drop_zero, List.append_nil]
        rw [c6]
      · have c7 : cb.length = 0 := by omega
        have f7 : (cb.length:Int) * res = 0 := by rw [c7]; simp
        simp (disch := omega) only [if_pos, if_neg, td1 h, td2 h, td3 h, c1, c2, c3, c5]
        simp only [take_if, drop_if]
        have e4 : ((ca.length:Int)).toNat = ca.length := by omega
        have e5 : max ca.length (off + cb.length) = ca.length := by omega
        have e6 : ((off:Int) + (cb.length:Int)).toNat = ca.length := by omega
        simp only [e1, e4, e5, e6, if_true, if_false, List.drop_zero, List.append_nil]
        rw [c6]
theorem at_wf {e : Ex} {q : Seq} (hq : CellsWF e q.cells) (res t : Int) : WF e (Sq.at (some q) e res t) := by
  cases q with
  | mk hi cells =>
    rw [at_some]
    split
    · exact getD_wf hq _
    · exact wf_empty e

theorem sem_merge_ord {e : Ex} (hv : e.valid = true) (hp : e.noPtile = true) {res : Int} (h : 0 < res)
    (a b : Seq) (ha : CellsWF e a.cells) (hb : CellsWF e b.cells)
    (hle : b.hi ≤ a.hi) (hal : (a.hi - b.hi) % res = 0) (tb t : Int)
    (hlive : roundUntilUp tb res a.hi ≤ t) :
    Sq.at (if b.hi < roundUntilUp tb res a.hi then some a else some (mergeMain e res a b)) e res t =
      e.mrg (Sq.at (some a) e res t) (Sq.at (some b) e res t) := by
  split
  · rename_i hlt
    rw [at_above e res b t (by omega), mrg_empty_right hv hp (at_wf ha res t)]
  · -- main branch
    have hx : a.hi - b.hi = res * ((a.hi - b.hi) / res) := by
      have := Int.mul_ediv_add_emod (a.hi - b.hi) res; omega
    have hq : 0 ≤ (a.hi - b.hi) / res := Int.ediv_nonneg (by omega) (Int.le_of_lt h)
    generalize hoff : ((a.hi - b.hi) / res).toNat = off
    have hoffI : ((a.hi - b.hi) / res) = (off : Int) := by omega
    have hbhi : b.hi = a.hi - (off : Int) * res := by
      rw [hoffI] at hx; rw [Int.mul_comm]; omega
    cases a with
    | mk sA ca =>
    cases b with
    | mk sB cb =>
    simp only at hbhi ha hb
    subst hbhi
    rw [mergeMain_eq e h, at_some, at_some, at_some]
    by_cases hc : (sA - t) % res = 0 ∧ t ≤ sA
    · obtain ⟨hm, hts⟩ := hc
      simp only [hm, hts, and_self, if_true]
      rw [getD_mergeIdx hv hp ha hb]
      have hdiv : res * ((sA - t) / res) = sA - t := by
        have := Int.mul_ediv_add_emod (sA - t) res; omega
      have hqi : 0 ≤ (sA - t) / res := Int.ediv_nonneg (by omega) (Int.le_of_lt h)
      have e1 : (sA - ↑off * res - t) % res = 0 := by
        have : sA - ↑off * res - t = sA - t - ↑off * res := by omega
        rw [this, Int.sub_mul_emod_self_right, hm]
      have e2 : (sA - ↑off * res - t) / res = (sA - t) / res - off := by
        have : sA - ↑off * res - t = sA - t + (-(off:Int)) * res := by rw [Int.neg_mul]; omega
        rw [this, Int.add_mul_ediv_right _ _ (Int.ne_of_gt h)]; omega
      have e3 : t ≤ sA - ↑off * res ↔ off ≤ ((sA - t) / res).toNat := by
        constructor
        · intro hle'
          have : (off : Int) ≤ (sA - t) / res := by
            rw [Int.le_ediv_iff_mul_le h]; omega
          omega
        · intro hle'
          have : (off : Int) ≤ (sA - t) / res := by omega
          rw [Int.le_ediv_iff_mul_le h] at this; omega
      simp only [e1, e2, true_and]
      by_cases hoi : off ≤ ((sA - t) / res).toNat
      · have : t ≤ sA - ↑off * res := e3.mpr hoi
        simp only [hoi, this, if_true]
        congr 3
        omega
      · have : ¬ t ≤ sA - ↑off * res := fun hh => hoi (e3.mp hh)
        simp only [hoi, this, if_false]
    · simp only [hc, if_false]
      have hk : (0:Int) ≤ ↑off * res := Int.mul_nonneg (Int.natCast_nonneg off) (Int.le_of_lt h)
      have : ¬ ((sA - ↑off * res - t) % res = 0 ∧ t ≤ sA - ↑off * res) := by
        intro ⟨hm, hts⟩
        apply hc
        constructor
        · have : sA - t = sA - ↑off * res - t + ↑off * res := by omega
          rw [this, Int.add_mul_emod_self_right, hm]
        · omega
      simp only [this, if_false, mrg_empty_empty hv hp]

/-- Semantics of `Sequence.Merge` for two non-empty aligned sequences: every period that is
    still live (ends at or after the rounded truncateBefore) holds the merge of the two
    operands' states for that period. -/
theorem sem_merge {e : Ex} (hv : e.valid = true) (hp : e.noPtile = true) {res : Int} (h : 0 < res)
    (a b : Seq) (ha : CellsWF e a.cells) (hb : CellsWF e b.cells)
    (hal : (a.hi - b.hi) % res = 0) (tb t : Int)
    (hlive : roundUntilUp tb res (max a.hi b.hi) ≤ t) :
    (Sq.merge e res (some a) (some b) tb).at e res t =
      e.mrg (Sq.at (some a) e res t) (Sq.at (some b) e res t) := by
  unfold Sq.merge
  simp only
  by_cases hsw : b.hi > a.hi
  · simp only [hsw, if_true]
    have hmax : max a.hi b.hi = b.hi := by omega
    rw [hmax] at hlive
    have hal' : (b.hi - a.hi) % res = 0 := by
      have hd : res ∣ a.hi - b.hi := Int.dvd_of_emod_eq_zero hal
      have : b.hi - a.hi = -(a.hi - b.hi) := by omega
      rw [this]
      exact Int.emod_eq_zero_of_dvd (Int.dvd_neg.mpr hd)
    rw [sem_merge_ord hv hp h b a hb ha (by omega) hal' tb t hlive]
    exact mrg_comm hv hp (at_wf hb res t) (at_wf ha res t)
  · simp only [hsw, if_false]
    have hmax : max a.hi b.hi = a.hi := by omega
    rw [hmax] at hlive
    exact sem_merge_ord hv hp h a b ha hb (by omega) hal tb t hlive

end Zeno
