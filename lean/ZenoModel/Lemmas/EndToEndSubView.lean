/-
End-to-end, part 9: the scan of a requested field list `out` is a `ScanView` of the store's full
scan at (table column `ti`, out position `j`) whenever `j` is fed by `ti` alone; and `IdxTie`
holds when `out` is a sub-list of the table's (pairwise differently printed) fields — the case of
`includedFields cfg q`.
-/
import ZenoModel.Lemmas.EndToEndSubScan
set_option linter.unusedSimpArgs false
set_option linter.unusedVariables false
namespace Zeno

/-- the outbound columns of a file row, read at out position `j` -/
theorem outColsG_at (cfg : TableCfg) (st : Store) (sinv : StoreInv cfg st) (hff : st.fileFields = cfg.fields.map some)
    (out : List Field) {ti j : Nat} (hj : j < out.length)
    (htie : IdxTie (outIdxsFor out (cfg.fields.map some)) ti j) (tb : Int) (fr : Row) (hfr : ti < fr.cols.length) :
    (outColsG cfg st out st.mem tb fr).2 = true ∧ j < (outColsG cfg st out st.mem tb fr).1.length ∧
    (outColsG cfg st out st.mem tb fr).1.getD j none =
      Sq.merge (out.getD j default).ex cfg.res (fr.cols.getD ti none) (rowCol st.mem fr.key ti) tb := by
  obtain ⟨f1, f2, f3⟩ := mapFileCols_at out (cfg.fields.map some) htie hj fr.cols
  unfold outColsG rowCol
  rw [hff, sinv.memFields]
  cases hms : st.mem.find? (fun m => m.key == fr.key) with
  | none =>
    simp only
    exact ⟨f2 hfr, by rw [f1]; exact hj, by rw [f3, merge_none_right]⟩
  | some m =>
    simp only
    obtain ⟨g1, g2⟩ := mergeMemCols_at out cfg.fields cfg.res tb htie
      (mapFileCols out (cfg.fields.map some) fr.cols).1 m.cols (by rw [f1]; exact hj)
    exact ⟨by rw [f2 hfr]; rfl, by rw [g1, f1]; exact hj, by rw [g2, f3]⟩

/-- a memstore-only row, read at out position `j` -/
theorem iterMemRowG_at (cfg : TableCfg) (st : Store) (sinv : StoreInv cfg st) (out : List Field) {ti j : Nat}
    (hj : j < out.length) (htie : IdxTie (outIdxsFor out (cfg.fields.map some)) ti j) (tb : Int) (m : Row) :
    j < (iterMemRowG cfg st out tb m).cols.length ∧
    (iterMemRowG cfg st out tb m).cols.getD j none =
      Sq.merge (out.getD j default).ex cfg.res none (m.cols.getD ti none) tb := by
  unfold iterMemRowG
  simp only
  rw [sinv.memFields]
  obtain ⟨g1, g2⟩ := mergeMemCols_at out cfg.fields cfg.res tb htie (out.map (fun _ => none)) m.cols (by simpa using hj)
  refine ⟨by rw [g1]; simpa using hj, ?_⟩
  rw [g2, getD_replicate_none]

/-- THE SUB-SCAN IS A VIEW OF THE FULL SCAN -/
theorem scanView_sub (cfg : TableCfg) (hd : FieldsDistinct cfg.fields) (st : Store) (sinv : StoreInv cfg st)
    (out : List Field) (ti j : Nat) (hti : ti < cfg.fields.length) (hj : j < out.length)
    (htie : IdxTie (outIdxsFor out (cfg.fields.map some)) ti j)
    (hex : (out.getD j default).ex = (cfg.fields.getD ti default).ex) :
    ScanView cfg st ti j (st.iterate cfg out true).rows := by
  have hp := scanG_keys_pairwise cfg st sinv out
  have hfile : ∀ fr ∈ st.file.getD [], st.fileFields = cfg.fields.map some ∧ ti < fr.cols.length := by
    intro fr hfr
    refine ⟨?_, by rw [sinv.fileOk.len fr hfr]; exact hti⟩
    rcases sinv.fileFields with h | h
    · rw [h] at hfr; simp at hfr
    · exact h
  have hrow : ∀ r ∈ (st.iterate cfg out true).rows, j < r.cols.length ∧
      r.cols.getD j none = scanCol cfg st true r.key ti := by
    intro r hr
    rw [scanCol_eq_merge cfg hd st sinv r.key ti hti, ← hex]
    rw [iterate_rowsG, List.mem_append] at hr
    rcases hr with hr | hr
    · obtain ⟨fr, hfr, hw⟩ := List.mem_filterMap.mp hr
      obtain ⟨hff, hlen⟩ := hfile fr hfr
      obtain ⟨o1, o2, o3⟩ := outColsG_at cfg st sinv hff out hj htie (st.now - cfg.retention) fr hlen
      unfold iterFileRowG at hw
      rw [o1, if_pos rfl] at hw
      injection hw with hw
      subst hw
      simp only
      exact ⟨o2, by rw [o3, rowCol_of_mem sinv.fileOk.uniq fr hfr]⟩
    · obtain ⟨m, hm, rfl⟩ := List.mem_map.mp hr
      obtain ⟨hm1, hm2⟩ := List.mem_filter.mp hm
      obtain ⟨g1, g2⟩ := iterMemRowG_at cfg st sinv out hj htie (st.now - cfg.retention) m
      refine ⟨g1, ?_⟩
      have hk : (iterMemRowG cfg st out (st.now - cfg.retention) m).key = m.key := rfl
      rw [g2, hk, rowCol_of_mem sinv.memOk.uniq m hm1, rowCol_of_absent]
      intro fr hfr heq
      have : (st.file.getD []).any (fun r => r.key == m.key) = true :=
        List.any_eq_true.mpr ⟨fr, hfr, by simpa using heq⟩
      rw [this] at hm2; exact absurd hm2 (by simp)
  refine ⟨nodup_keys_of_pairwise hp, fun r hr => (hrow r hr).1, fun r hr => (hrow r hr).2, ?_⟩
  intro κ hκ
  rw [scanCol_eq_merge cfg hd st sinv κ ti hti]
  have hnf : ∀ fr ∈ st.file.getD [], fr.key ≠ κ := by
    intro fr hfr heq
    obtain ⟨hff, hlen⟩ := hfile fr hfr
    obtain ⟨o1, _, _⟩ := outColsG_at cfg st sinv hff out hj htie (st.now - cfg.retention) fr hlen
    apply hκ ⟨fr.key, (outColsG cfg st out st.mem (st.now - cfg.retention) fr).1⟩ _ heq
    rw [iterate_rowsG, List.mem_append]
    left
    refine List.mem_filterMap.mpr ⟨fr, hfr, ?_⟩
    unfold iterFileRowG
    rw [o1, if_pos rfl]
  have hnm : ∀ m ∈ st.mem, m.key ≠ κ := by
    intro m hm heq
    apply hκ (iterMemRowG cfg st out (st.now - cfg.retention) m) _ heq
    rw [iterate_rowsG, List.mem_append]
    right
    refine List.mem_map.mpr ⟨m, List.mem_filter.mpr ⟨hm, ?_⟩, rfl⟩
    have : (st.file.getD []).any (fun r => r.key == m.key) = false := by
      rw [List.any_eq_false]
      intro fr hfr
      have := hnf fr hfr
      rw [heq]; simpa using this
    rw [this]; rfl
  rw [rowCol_of_absent hnf, rowCol_of_absent hnm, merge_none_right]

end Zeno
