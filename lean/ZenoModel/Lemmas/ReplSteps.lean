/-
Per-event preservation of the replication invariant (Lemmas/Repl.lean `Inv`).
-/
import ZenoModel.Lemmas.Repl

set_option linter.unusedVariables false
set_option linter.unusedSimpArgs false

namespace Zeno.Repl

/-- name the fields of the invariant -/
macro "inv_fields" hi:ident : tactic => `(tactic|
  have ⟨walSorted, exMem, exDisk, exSnap, memTop, diskTop, snapTop, offTop, snapOffTop, offExact, snapOffExact,
    dirtyInv, diskLeMem, offLeMem, priorTop, memLePrior, pendSorted,
    pendRange, pendCover, earliestLe, earliestTop, connUp, linkConn, queueDown, reqLe, reqTop, specJoined, specLink, specLeDone,
    doneTop, cursorLeDone, gap, queueSorted, queueDone, queueWal, linkCover, inflUp, inflWal, inflDone, inflGap⟩ := $hi)

theorem inv_cutLink {cx : Ctx} {s s' : State} (hi : Inv cx s) (l : LId) (f : FId)
    (h : step cx s (.cutLink l f) = some s') : Inv cx s' := by
  simp only [step, Option.some.injEq] at h
  subst h
  inv_fields hi
  constructor
  all_goals (intros; first | grind [List.Pairwise.nil])

theorem inv_startLeader {cx : Ctx} {s s' : State} (hi : Inv cx s) (l : LId)
    (h : step cx s (.startLeader l) = some s') : Inv cx s' := by
  simp only [step] at h
  split at h
  · simp only [Option.some.injEq] at h
    subst h
    inv_fields hi
    constructor
    all_goals (intros; try grind [List.Pairwise.nil])
  · cases h

theorem inv_stopLeader {cx : Ctx} {s s' : State} (hi : Inv cx s) (l : LId)
    (h : step cx s (.stopLeader l) = some s') : Inv cx s' := by
  simp only [step] at h
  split at h
  · simp only [Option.some.injEq] at h
    subst h
    inv_fields hi
    constructor
    all_goals (intros; try grind [List.Pairwise.nil])
  · cases h

theorem inv_snapshot {cx : Ctx} {s s' : State} (hi : Inv cx s) (f : FId)
    (h : step cx s (.snapshot f) = some s') : Inv cx s' := by
  simp only [step, Option.some.injEq] at h
  subst h
  inv_fields hi
  constructor
  all_goals (intros; try grind [List.Pairwise.nil])

theorem inv_persist_data {cx : Ctx} {s s' : State} (hi : Inv cx s) (f : FId) (t : TId)
    (h : step cx s (.persist f t true) = some s') : Inv cx s' := by
  simp only [step] at h
  split at h
  · simp only [Option.some.injEq] at h
    subst h
    inv_fields hi
    constructor
    all_goals (intros; try grind [List.Pairwise.nil])
  · cases h

theorem inv_persist_offsets {cx : Ctx} {s s' : State} (hi : Inv cx s) (f : FId) (t : TId)
    (h : step cx s (.persist f t false) = some s') : Inv cx s' := by
  simp only [step] at h
  split at h
  · simp only [Option.some.injEq] at h
    subst h
    rename_i hguard
    -- the memstore is empty: what it reflects is what the filestore holds
    have hd := hi.dirtyInv f t hguard.1 hguard.2
    have hx : ∀ l, Exact cx (s.wal l) t f (s.memOff f t l) (s.diskApps f t l) := by
      intro l
      rw [← hd l]
      exact hi.exMem f t l
    inv_fields hi
    constructor
    all_goals (intros; try grind [List.Pairwise.nil])
  · cases h

theorem inv_restoreSnapshot {cx : Ctx} {s s' : State} (hi : Inv cx s) (f : FId)
    (h : step cx s (.restoreSnapshot f) = some s') : Inv cx s' := by
  simp only [step] at h
  split at h
  · simp only [Option.some.injEq] at h
    subst h
    inv_fields hi
    constructor
    all_goals (intros; try grind [List.Pairwise.nil])
  · cases h

theorem inv_stopFollower {cx : Ctx} {s s' : State} (hi : Inv cx s) (f : FId)
    (h : step cx s (.stopFollower f) = some s') : Inv cx s' := by
  simp only [step] at h
  split at h
  · simp only [Option.some.injEq] at h
    subst h
    inv_fields hi
    constructor
    all_goals (intros; try grind [List.Pairwise.nil])
  · cases h

end Zeno.Repl
