/-
C11 helper lemmas for LIMIT under whole-query pushdown: if every partition returns its first
`k` rows in ORDER BY order, the first `k` rows of the ordered union of those are the first `k`
rows of the ordered union of all rows — provided ORDER BY decides (strict total order on the
rows, no duplicates).
-/
import ZenoModel.Lemmas.PlanOrder

namespace Zeno.PlanLemmas
open Zeno Zeno.Plan Zeno.SortLemmas

theorem StrictTotalOn.mono {lt : FlatRow → FlatRow → Bool} {l l' : List FlatRow}
    (h : StrictTotalOn lt l) (hs : ∀ a ∈ l', a ∈ l) : StrictTotalOn lt l' where
  irrefl := fun a ha => h.irrefl a (hs a ha)
  trans := fun a ha b hb c hc => h.trans a (hs a ha) b (hs b hb) c (hs c hc)
  total := fun a ha b hb => h.total a (hs a ha) b (hs b hb)

/-- the first `k` rows in ORDER BY order -/
def topk (lt : FlatRow → FlatRow → Bool) (k : Nat) (l : List FlatRow) : List FlatRow :=
  (isortBy lt l).take k

theorem topk_perm {lt : FlatRow → FlatRow → Bool} {l₁ l₂ : List FlatRow} (k : Nat)
    (h : StrictTotalOn lt l₁) (p : l₁.Perm l₂) : topk lt k l₁ = topk lt k l₂ := by
  unfold topk
  rw [isortBy_eq_of_perm h p]

/-- number of rows of `l` strictly before `x` -/
def rank (lt : FlatRow → FlatRow → Bool) (l : List FlatRow) (x : FlatRow) : Nat :=
  l.countP (fun y => lt y x)

theorem rank_append (lt : FlatRow → FlatRow → Bool) (a b : List FlatRow) (x : FlatRow) :
    rank lt (a ++ b) x = rank lt a x + rank lt b x := by
  simp [rank, List.countP_append]

/-- in a sorted list the rows before `x` form a prefix -/
theorem rank_take_sorted {lt : FlatRow → FlatRow → Bool} {L : List FlatRow}
    (h : StrictTotalOn lt L) (x : FlatRow) (hx : x ∈ L) :
    ∀ (S : List FlatRow) (k : Nat), (∀ a ∈ S, a ∈ L) → SortedBy lt S →
      rank lt (S.take k) x = min (rank lt S x) k := by
  intro S
  induction S with
  | nil => intro k _ _; simp [rank]
  | cons a S ih =>
    intro k hS hs
    have ha : a ∈ L := hS a (by simp)
    have hS' : ∀ b ∈ S, b ∈ L := fun b hb => hS b (by simp [hb])
    obtain ⟨hab, hs'⟩ := List.pairwise_cons.mp hs
    cases k with
    | zero => simp [rank]
    | succ k =>
      simp only [List.take_succ_cons, rank, List.countP_cons]
      have ih' := ih k hS' hs'
      simp only [rank] at ih'
      by_cases hax : lt a x = true
      · simp only [hax, if_true, ih']
        omega
      · have hax' : lt a x = false := by simpa using hax
        have hz : ∀ b ∈ S, lt b x = false := by
          intro b hb
          exact h.weak.negTrans b a x (hS' b hb) ha hx (hab b hb) hax'
        have c0 : ∀ T : List FlatRow, (∀ b ∈ T, b ∈ S) → T.countP (fun y => lt y x) = 0 := by
          intro T hT
          apply List.countP_eq_zero.mpr
          intro b hb
          simp [hz b (hT b hb)]
        rw [c0 S (fun _ hb => hb), c0 (S.take k) (fun b hb => List.mem_of_mem_take hb)]
        simp [hax']

/-- membership in a prefix of a sorted duplicate-free list, by rank -/
theorem mem_take_sorted {lt : FlatRow → FlatRow → Bool} {L : List FlatRow}
    (h : StrictTotalOn lt L) :
    ∀ (S : List FlatRow) (k : Nat), (∀ a ∈ S, a ∈ L) → SortedBy lt S → S.Nodup →
      ∀ x, x ∈ S.take k ↔ x ∈ S ∧ rank lt S x < k := by
  intro S
  induction S with
  | nil => intro k _ _ _ x; simp
  | cons a S ih =>
    intro k hS hs hn x
    have ha : a ∈ L := hS a (by simp)
    have hS' : ∀ b ∈ S, b ∈ L := fun b hb => hS b (by simp [hb])
    obtain ⟨hab, hs'⟩ := List.pairwise_cons.mp hs
    obtain ⟨haS, hn'⟩ := List.nodup_cons.mp hn
    cases k with
    | zero => simp
    | succ k =>
      simp only [List.take_succ_cons, List.mem_cons, rank, List.countP_cons]
      by_cases hxa : x = a
      · subst hxa
        have c0 : S.countP (fun y => lt y x) = 0 := by
          apply List.countP_eq_zero.mpr
          intro b hb
          simp [hab b hb]
        simp [c0, h.irrefl x ha]
      · have hiff := ih k hS' hs' hn' x
        simp only [rank] at hiff
        constructor
        · rintro (e | hm)
          · exact absurd e hxa
          · have ⟨hxS, hr⟩ := hiff.mp hm
            have hlt : lt a x = true := by
              rcases h.total a ha x (hS' x hxS) (fun e => hxa e.symm) with h' | h'
              · exact h'
              · rw [hab x hxS] at h'; cases h'
            refine ⟨Or.inr hxS, ?_⟩
            simp only [hlt, if_true]
            omega
        · rintro ⟨hx | hxS, hr⟩
          · exact absurd hx hxa
          · have hlt : lt a x = true := by
              rcases h.total a ha x (hS' x hxS) (fun e => hxa e.symm) with h' | h'
              · exact h'
              · rw [hab x hxS] at h'; cases h'
            simp only [hlt, if_true] at hr
            exact Or.inr (hiff.mpr ⟨hxS, by omega⟩)

theorem isortBy_nodup (lt : FlatRow → FlatRow → Bool) {l : List FlatRow} (hn : l.Nodup) :
    (isortBy lt l).Nodup := (isortBy_perm lt l).nodup_iff.mpr hn

/-- membership in `topk`, by rank in the unsorted list -/
theorem mem_topk {lt : FlatRow → FlatRow → Bool} {L : List FlatRow} (h : StrictTotalOn lt L)
    (l : List FlatRow) (hl : ∀ a ∈ l, a ∈ L) (hn : l.Nodup) (k : Nat) (x : FlatRow) :
    x ∈ topk lt k l ↔ x ∈ l ∧ rank lt l x < k := by
  have hp := isortBy_perm lt l
  have hsL : ∀ a ∈ isortBy lt l, a ∈ L := fun a ha => hl a (hp.mem_iff.mp ha)
  have hs : SortedBy lt (isortBy lt l) := isortBy_sorted (h.mono hl).weak l (fun _ hx => hx)
  have := mem_take_sorted h (isortBy lt l) k hsL hs (isortBy_nodup lt hn) x
  unfold topk
  rw [this, hp.mem_iff]
  simp only [rank, hp.countP_eq]

theorem topk_sorted {lt : FlatRow → FlatRow → Bool} {L : List FlatRow} (h : StrictTotalOn lt L)
    (l : List FlatRow) (hl : ∀ a ∈ l, a ∈ L) (k : Nat) : SortedBy lt (topk lt k l) :=
  List.Pairwise.sublist (List.take_sublist k _)
    (isortBy_sorted (h.mono hl).weak l (fun _ hx => hx))

theorem topk_subset (lt : FlatRow → FlatRow → Bool) (k : Nat) (l : List FlatRow) :
    ∀ a ∈ topk lt k l, a ∈ l :=
  fun _ ha => (isortBy_perm lt l).mem_iff.mp (List.mem_of_mem_take ha)

theorem topk_nodup (lt : FlatRow → FlatRow → Bool) (k : Nat) {l : List FlatRow} (hn : l.Nodup) :
    (topk lt k l).Nodup :=
  List.Sublist.nodup (List.take_sublist k _) (isortBy_nodup lt hn)

/-- two sorted duplicate-free lists over `L` with the same members are equal -/
theorem sorted_ext {lt : FlatRow → FlatRow → Bool} {L : List FlatRow} (h : StrictTotalOn lt L)
    {s₁ s₂ : List FlatRow} (h₁ : ∀ a ∈ s₁, a ∈ L) (o₁ : SortedBy lt s₁) (o₂ : SortedBy lt s₂)
    (n₁ : s₁.Nodup) (n₂ : s₂.Nodup) (hm : ∀ a, a ∈ s₁ ↔ a ∈ s₂) : s₁ = s₂ := by
  have p := (List.perm_ext_iff_of_nodup n₁ n₂).mpr hm
  refine List.Perm.eq_of_pairwise ?_ o₁ o₂ p
  intro a b ha hb hab hba
  by_cases e : a = b
  · exact e
  · rcases h.total a (h₁ a ha) b (h₁ b ((hm b).mpr hb)) e with h' | h'
    · rw [hba] at h'; cases h'
    · rw [hab] at h'; cases h'

/-- pre-selecting the first `k` rows of one part does not change the first `k` of the whole -/
theorem topk_absorb {lt : FlatRow → FlatRow → Bool} {L : List FlatRow} (h : StrictTotalOn lt L)
    (k : Nat) (A B : List FlatRow) (hA : ∀ a ∈ A, a ∈ L) (hB : ∀ a ∈ B, a ∈ L)
    (hn : (A ++ B).Nodup) : topk lt k (A ++ B) = topk lt k (topk lt k A ++ B) := by
  obtain ⟨nA, nB, hdis⟩ := List.nodup_append.mp hn
  have hAB : ∀ a ∈ A ++ B, a ∈ L := by
    intro a ha
    rcases List.mem_append.mp ha with h' | h'
    · exact hA a h'
    · exact hB a h'
  have hTA : ∀ a ∈ topk lt k A, a ∈ A := topk_subset lt k A
  have hTB : ∀ a ∈ topk lt k A ++ B, a ∈ L := by
    intro a ha
    rcases List.mem_append.mp ha with h' | h'
    · exact hA a (hTA a h')
    · exact hB a h'
  have nTB : (topk lt k A ++ B).Nodup := by
    refine List.nodup_append.mpr ⟨topk_nodup lt k nA, nB, ?_⟩
    intro a ha b hb
    exact hdis a (hTA a ha) b hb
  apply sorted_ext h (fun a ha => hAB a (topk_subset lt k _ a ha))
    (topk_sorted h _ hAB k) (topk_sorted h _ hTB k) (topk_nodup lt k hn) (topk_nodup lt k nTB)
  intro x
  rw [mem_topk h _ hAB hn k x, mem_topk h _ hTB nTB k x, rank_append, rank_append,
    List.mem_append, List.mem_append]
  by_cases hxL : x ∈ L
  · have hmin : rank lt (topk lt k A) x = min (rank lt A x) k := by
      have := rank_take_sorted h x hxL (isortBy lt A) k
        (fun a ha => hA a ((isortBy_perm lt A).mem_iff.mp ha))
        (isortBy_sorted (h.mono hA).weak A (fun _ hx => hx))
      simp only [topk, rank, (isortBy_perm lt A).countP_eq] at this ⊢
      exact this
    rw [hmin, mem_topk h A hA nA k x]
    constructor
    · rintro ⟨hx, hr⟩
      have : rank lt A x < k := by omega
      refine ⟨?_, by omega⟩
      rcases hx with hx | hx
      · exact Or.inl ⟨hx, this⟩
      · exact Or.inr hx
    · rintro ⟨hx, hr⟩
      refine ⟨?_, by omega⟩
      rcases hx with hx | hx
      · exact Or.inl hx.1
      · exact Or.inr hx
  · constructor
    · rintro ⟨hx, _⟩
      exact absurd (hAB x (List.mem_append.mpr hx)) hxL
    · rintro ⟨hx, _⟩
      exact absurd (hTB x (List.mem_append.mpr hx)) hxL

/-- the leader's first `k` rows of the union of the partitions' first `k` rows are the first
    `k` rows of the union of all rows -/
theorem topk_flatMap {lt : FlatRow → FlatRow → Bool} {L : List FlatRow} (h : StrictTotalOn lt L)
    (k : Nat) : ∀ (ps : List (List FlatRow)), (∀ a ∈ ps.flatten, a ∈ L) → ps.flatten.Nodup →
      topk lt k (ps.flatMap (topk lt k)) = topk lt k ps.flatten := by
  intro ps
  induction ps with
  | nil => intro _ _; rfl
  | cons p rest ih =>
    intro hL hn
    simp only [List.flatten_cons] at hL hn
    simp only [List.flatMap_cons, List.flatten_cons]
    obtain ⟨np, nr, hdis⟩ := List.nodup_append.mp hn
    have hp : ∀ a ∈ p, a ∈ L := fun a ha => hL a (List.mem_append.mpr (Or.inl ha))
    have hr : ∀ a ∈ rest.flatten, a ∈ L := fun a ha => hL a (List.mem_append.mpr (Or.inr ha))
    have ih' := ih hr nr
    have hU : ∀ a ∈ rest.flatMap (topk lt k), a ∈ rest.flatten := by
      intro a ha
      obtain ⟨q, hq, haq⟩ := List.mem_flatMap.mp ha
      exact List.mem_flatten.mpr ⟨q, hq, topk_subset lt k q a haq⟩
    -- T(p ++ R) = T(Tp ++ R) = T(Tp ++ T R) = T(Tp ++ T U) = T(Tp ++ U)
    have hTp : ∀ a ∈ topk lt k p, a ∈ L := fun a ha => hp a (topk_subset lt k p a ha)
    have swap : ∀ (X Y : List FlatRow), (∀ a ∈ X, a ∈ L) → (∀ a ∈ Y, a ∈ L) → (X ++ Y).Nodup →
        topk lt k (X ++ Y) = topk lt k (X ++ topk lt k Y) := by
      intro X Y hX hY hXY
      have hYX : (Y ++ X).Nodup := (List.perm_append_comm.nodup_iff).mp hXY
      have hXYL : ∀ a ∈ X ++ Y, a ∈ L := by
        intro a ha
        rcases List.mem_append.mp ha with h' | h'
        · exact hX a h'
        · exact hY a h'
      have hTYX : ∀ a ∈ topk lt k Y ++ X, a ∈ L := by
        intro a ha
        rcases List.mem_append.mp ha with h' | h'
        · exact hY a (topk_subset lt k Y a h')
        · exact hX a h'
      rw [topk_perm k (h.mono hXYL) List.perm_append_comm, topk_absorb h k Y X hY hX hYX,
        topk_perm k (h.mono hTYX) List.perm_append_comm]
    have n1 : (topk lt k p ++ rest.flatten).Nodup := by
      refine List.nodup_append.mpr ⟨topk_nodup lt k np, nr, ?_⟩
      intro a ha b hb
      exact hdis a (topk_subset lt k p a ha) b hb
    have nU : (rest.flatMap (topk lt k)).Nodup := by
      -- by induction on `rest`, each piece a duplicate-free subset of its part
      clear ih ih' hU swap n1 hr hL hn hdis
      induction rest with
      | nil => simp
      | cons q rest ihq =>
        simp only [List.flatten_cons] at nr
        obtain ⟨nq, nr', hd⟩ := List.nodup_append.mp nr
        simp only [List.flatMap_cons]
        refine List.nodup_append.mpr ⟨topk_nodup lt k nq, ihq nr', ?_⟩
        intro a ha b hb
        obtain ⟨q', hq', hb'⟩ := List.mem_flatMap.mp hb
        exact hd a (topk_subset lt k q a ha) b
          (List.mem_flatten.mpr ⟨q', hq', topk_subset lt k q' b hb'⟩)
    have n2 : (topk lt k p ++ rest.flatMap (topk lt k)).Nodup := by
      refine List.nodup_append.mpr ⟨topk_nodup lt k np, nU, ?_⟩
      intro a ha b hb
      exact hdis a (topk_subset lt k p a ha) b (hU b hb)
    rw [topk_absorb h k p rest.flatten hp hr hn,
      swap (topk lt k p) rest.flatten hTp hr n1, ← ih',
      ← swap (topk lt k p) (rest.flatMap (topk lt k)) hTp (fun a ha => hr a (hU a ha)) n2]

end Zeno.PlanLemmas
