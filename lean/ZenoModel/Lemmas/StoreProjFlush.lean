/-
Store ↔ column projection, part 6: `Store.flush` against `ColOp.flush`, and `Store.iterate`
against `Col.view`.
-/
import ZenoModel.Lemmas.StoreProjCols
set_option linter.unusedSimpArgs false
set_option linter.unusedVariables false
namespace Zeno

theorem fileFields_of_mem {cfg : TableCfg} {st : Store}
    (hff : st.file = none ∨ st.fileFields = cfg.fields.map some) {r : Row} (hr : r ∈ st.file.getD []) :
    st.fileFields = cfg.fields.map some := by
  cases hff with
  | inl h => rw [h] at hr; simp at hr
  | inr h => exact h

theorem pairwise_filterMap_key (g : Row → Option Row) (hg : ∀ r w, g r = some w → w.key = r.key)
    (l : List Row) (hu : l.Pairwise (fun a b => a.key ≠ b.key)) :
    (l.filterMap g).Pairwise (fun a b => a.key ≠ b.key) := by
  rw [List.pairwise_filterMap]
  refine hu.imp ?_
  intro a b hab w hw w' hw'
  rw [hg a w hw, hg b w' hw']
  exact hab

/-- rows of the memstore whose key is not in the file -/
def restRows (fileRows mem : List Row) : List Row :=
  mem.filter (fun m => !(fileRows.any (fun r => r.key == m.key)))

theorem restRows_pairwise (fileRows : List Row) {mem : List Row}
    (hu : mem.Pairwise (fun a b => a.key ≠ b.key)) :
    (restRows fileRows mem).Pairwise (fun a b => a.key ≠ b.key) := hu.filter _

theorem restRows_key {fileRows mem : List Row} {m : Row} (hm : m ∈ restRows fileRows mem) :
    m ∈ mem ∧ ∀ r ∈ fileRows, r.key ≠ m.key := by
  unfold restRows at hm
  rw [List.mem_filter] at hm
  refine ⟨hm.1, ?_⟩
  intro r hr hk
  have h2 := hm.2
  simp only [Bool.not_eq_true', List.any_eq_false] at h2
  exact h2 r hr (by simp [hk])

/-- the new file's rows are well-formed -/
theorem flush_fileOk (cfg : TableCfg) (hd : FieldsDistinct cfg.fields) (st : Store) (sinv : StoreInv cfg st)
    (tb : Int) (rawOkay : Bool) :
    RowsOk cfg.fields.length
      ((st.file.getD []).filterMap (flushFileRow cfg st tb rawOkay) ++
        (restRows (st.file.getD []) st.mem).filterMap (flushMemRow cfg st tb)) := by
  obtain ⟨hmf, hff, hmo, hfo, hms⟩ := sinv
  refine ⟨?_, ?_⟩
  · rw [List.pairwise_append]
    refine ⟨pairwise_filterMap_key _ (flushFileRow_key cfg st tb rawOkay) _ hfo.uniq,
      pairwise_filterMap_key _ (flushMemRow_key cfg st tb) _ (restRows_pairwise _ hmo.uniq), ?_⟩
    intro a ha b hb
    rw [List.mem_filterMap] at ha hb
    obtain ⟨r, hr, hgr⟩ := ha
    obtain ⟨m, hm, hgm⟩ := hb
    rw [flushFileRow_key cfg st tb rawOkay r a hgr, flushMemRow_key cfg st tb m b hgm]
    exact (restRows_key hm).2 r hr
  · intro w hw
    rw [List.mem_append] at hw
    cases hw with
    | inl hw =>
      rw [List.mem_filterMap] at hw
      obtain ⟨r, hr, hgr⟩ := hw
      have hlen := hfo.len r hr
      by_cases hn : 0 < cfg.fields.length
      · exact flushFileRow_len cfg hd st hmf (fileFields_of_mem hff hr) tb rawOkay r w hlen hn hgr
      · unfold flushFileRow at hgr
        split at hgr
        · simp only [Option.some.injEq] at hgr; rw [← hgr]; exact hlen
        · split at hgr
          · rw [writeRow_len hgr]
            have hz : cfg.fields.length = 0 := by omega
            unfold outCols
            simp only
            rw [fileFields_of_mem hff hr, hmf]
            obtain ⟨f1, _, _⟩ := mapFileCols_spec hd r.cols
            split
            · obtain ⟨g1, _⟩ := mergeMemCols_spec hd cfg.res tb
                (mapFileCols cfg.fields (cfg.fields.map some) r.cols).1 (by assumption : Row).cols (by omega)
              simp only
              rw [g1, f1]
            · exact f1
          · exact absurd hgr (by simp)
    | inr hw =>
      rw [List.mem_filterMap] at hw
      obtain ⟨m, hm, hgm⟩ := hw
      exact flushMemRow_len cfg hd st hmf tb m w hgm

theorem flush_storeInv (cfg : TableCfg) (hd : FieldsDistinct cfg.fields) (st : Store) (sorted : Bool)
    (sinv : StoreInv cfg st) : StoreInv cfg (st.flush cfg sorted) := by
  by_cases hne : st.mem.isEmpty = true
  · have : st.flush cfg sorted = st := by simp [Store.flush, hne]
    rw [this]; exact sinv
  · have hne' : st.mem.isEmpty = false := by simpa using hne
    rw [flush_eq cfg st sorted hne']
    exact ⟨rfl, Or.inr rfl, rowsOk_nil _, flush_fileOk cfg hd st sinv _ _, fun _ h => by simp at h⟩

/-- a memstore row has something in every column -/
theorem mem_col_ne_none {n : Nat} {mem : List Row} (hok : RowsOk n mem) (hms : MemSome mem) (key : Key)
    {m : Row} (hm : mem.find? (fun r => r.key == key) = some m) (i : Nat) (hi : i < n) :
    m.cols.getD i none ≠ none := by
  have hmem := List.mem_of_find?_eq_some hm
  have hl := hok.len m hmem
  rw [List.getD_eq_getElem?_getD, List.getElem?_eq_getElem (by omega)]
  exact hms m hmem _ (List.getElem_mem _)

theorem col_flush_eq (x : Ext) (ccfg : ColCfg) (c : Col) (raw : Bool) :
    (Col.step x ccfg c (.flush raw)).now = c.now ∧
    ((Col.step x ccfg c (.flush raw)).mem = none ∨
      (c.mem = none ∧ (Col.step x ccfg c (.flush raw)).mem = c.mem)) ∧
    (Col.step x ccfg c (.flush raw)).file =
      if raw && c.mem.isNone then c.file
      else Sq.truncate (Sq.merge ccfg.e ccfg.res c.file c.mem (c.now - ccfg.retention)) ccfg.res
        (c.now - ccfg.retention) 0 := by
  simp only [Col.step]
  split
  · rename_i h
    simp only [Bool.and_eq_true, Option.isNone_iff_eq_none] at h
    exact ⟨rfl, Or.inr ⟨h.2, rfl⟩, rfl⟩
  · exact ⟨rfl, Or.inl rfl, rfl⟩

/-- `Store.flush` (memstore not empty) moves the column of (key, i) as `ColOp.flush raw` does,
    `raw` = "not a tenth flush" -/
theorem flush_proj (x : Ext) (cfg : TableCfg) (hd : FieldsDistinct cfg.fields) (st : Store) (sorted : Bool)
    (key : Key) (i : Nat) (hi : i < cfg.fields.length) (c : Col)
    (sinv : StoreInv cfg st) (pinv : ProjInv st key i c) (hne : st.mem.isEmpty = false) :
    ProjInv (st.flush cfg sorted) key i
      (Col.step x (ccfgOf cfg i) c (.flush (!(st.flushCount % 10 == 9)))) := by
  obtain ⟨hmf, hff, hmo, hfo, hms⟩ := sinv
  obtain ⟨hn, hm, hf⟩ := pinv
  obtain ⟨k1, k2, k3⟩ := col_flush_eq x (ccfgOf cfg i) c (!(st.flushCount % 10 == 9))
  rw [flush_eq cfg st sorted hne]
  refine ⟨by rw [k1]; exact hn, ?_, ?_⟩
  · show _ = rowCol [] key i
    cases k2 with
    | inl h => rw [h]; rfl
    | inr h => rw [h.2, h.1]; rfl
  · show _ = rowCol ((st.file.getD []).filterMap _ ++ (restRows (st.file.getD []) st.mem).filterMap _) key i
    rw [k3, rowCol_eq_optCol, List.find?_append,
      find_filterMap_key _ (flushFileRow_key cfg st _ _) _ hfo.uniq]
    simp only [ccfgOf, hn]
    rw [rowCol_eq_optCol] at hm hf
    cases hfile : (st.file.getD []).find? (fun r => r.key == key) with
    | some r =>
      have hk : r.key = key := by simpa using List.find?_some hfile
      have hr := List.mem_of_find?_eq_some hfile
      have hrest : ((restRows (st.file.getD []) st.mem).filterMap
          (flushMemRow cfg st (st.now - cfg.retention))).find? (fun r => r.key == key) = none := by
        apply find_filterMap_none _ (flushMemRow_key cfg st _)
        intro m hm' hmk
        exact (restRows_key hm').2 r hr (by rw [hk, hmk])
      rw [hrest, Option.bind_some, Option.or_none,
        flushFileRow_col cfg hd st hmf (fileFields_of_mem hff hr) _ _ r (hfo.len r hr) i hi]
      rw [hfile] at hf
      simp only [optCol] at hf
      rw [hk, hf, hm]
      have hraw : rawOkayB cfg st = !(st.flushCount % 10 == 9) := by
        unfold rawOkayB
        rw [fileSame_true cfg st (fileFields_of_mem hff hr)]; simp
      rw [hraw]
      cases hmem : st.mem.find? (fun m => m.key == key) with
      | none => simp [optCol]
      | some m =>
        have := mem_col_ne_none hmo hms key hmem i hi
        simp only [optCol, Option.isNone_some, Bool.false_and, Bool.false_eq_true, if_false]
        obtain ⟨q, hq⟩ := Option.ne_none_iff_exists'.mp this
        simp only [hq]
        simp
    | none =>
      rw [Option.bind_none, Option.none_or,
        find_filterMap_key _ (flushMemRow_key cfg st _) _ (restRows_pairwise _ hmo.uniq)]
      have hnofile : ∀ r ∈ st.file.getD [], r.key ≠ key := by
        intro r hr hk
        rw [List.find?_eq_none] at hfile
        exact hfile r hr (by simp [hk])
      have hkeep : (restRows (st.file.getD []) st.mem).find? (fun r => r.key == key) =
          st.mem.find? (fun r => r.key == key) := by
        apply find_filter_keep
        intro m _ hmk
        simp only [Bool.not_eq_true', List.any_eq_false]
        intro r hr
        rw [hmk]
        simpa using hnofile r hr
      rw [hkeep]
      rw [hfile] at hf
      simp only [optCol] at hf
      rw [hf, hm]
      cases hmem : st.mem.find? (fun m => m.key == key) with
      | none =>
        simp only [optCol, Option.bind_none, Option.isNone_none, Bool.and_true]
        split <;> rfl
      | some m =>
        have := mem_col_ne_none hmo hms key hmem i hi
        rw [Option.bind_some, flushMemRow_col cfg hd st hmf _ m i hi]
        simp only [optCol]
        obtain ⟨q, hq⟩ := Option.ne_none_iff_exists'.mp this
        simp only [hq]
        simp

/-! ### the scan -/

/-- what `projectionMismatches` reads off a scan: column `i` of the row with key `key` -/
def scanCol (cfg : TableCfg) (st : Store) (includeMem : Bool) (key : Key) (i : Nat) : Sq :=
  match (st.iterate cfg cfg.fields includeMem).rows.find? (fun r => r.key == key) with
  | some r => r.cols.getD i none
  | none => none

theorem find_map_row (f : Row → Row) (hf : ∀ r, (f r).key = r.key) (l : List Row) (key : Key) (i : Nat) :
    optCol ((l.map f).find? (fun r => r.key == key)) i =
      match l.find? (fun r => r.key == key) with
      | some m => (f m).cols.getD i none
      | none => none := by
  rw [find_map_key f hf]
  cases l.find? (fun r => r.key == key) <;> rfl

/-- the scan of a reachable store at (key, i) is the column's view -/
theorem view_proj (cfg : TableCfg) (hd : FieldsDistinct cfg.fields) (st : Store) (includeMem : Bool)
    (key : Key) (i : Nat) (hi : i < cfg.fields.length) (c : Col)
    (sinv : StoreInv cfg st) (pinv : ProjInv st key i c) :
    scanCol cfg st includeMem key i = c.view (ccfgOf cfg i) includeMem := by
  obtain ⟨hmf, hff, hmo, hfo, hms⟩ := sinv
  obtain ⟨hn, hm, hf⟩ := pinv
  unfold scanCol
  rw [iterate_rows]
  show optCol _ i = _
  rw [List.find?_append, find_filterMap_key _ (iterFileRow_key cfg st _ _) _ hfo.uniq]
  rw [rowCol_eq_optCol] at hm hf
  simp only [Col.view, ccfgOf, hn]
  cases hfile : (st.file.getD []).find? (fun r => r.key == key) with
  | some r =>
    have hk : r.key = key := by simpa using List.find?_some hfile
    have hr := List.mem_of_find?_eq_some hfile
    rw [hfile] at hf
    simp only [optCol] at hf
    rw [Option.bind_some]
    have hcol := iterFileRow_col cfg hd st hmf (fileFields_of_mem hff hr)
      (if includeMem then st.mem else []) (st.now - cfg.retention) r (hfo.len r hr) i hi
    have hsome : ∃ w, iterFileRow cfg st (if includeMem then st.mem else []) (st.now - cfg.retention) r = some w := by
      obtain ⟨_, o2, _⟩ := outCols_spec cfg hd st hmf (fileFields_of_mem hff hr)
        (if includeMem then st.mem else []) (st.now - cfg.retention) r (hfo.len r hr) (by omega)
      unfold iterFileRow
      rw [o2]; exact ⟨_, rfl⟩
    obtain ⟨w, hw⟩ := hsome
    rw [hw, Option.some_or, ← hw, hcol, hk, hf]
    cases includeMem with
    | true => simp only [if_true, hm]
    | false => simp only [Bool.false_eq_true, if_false, List.find?_nil, optCol, merge_none_right]
  | none =>
    rw [Option.bind_none, Option.none_or]
    rw [hfile] at hf
    simp only [optCol] at hf
    have hnofile : ∀ r ∈ st.file.getD [], r.key ≠ key := by
      intro r hr hk
      rw [List.find?_eq_none] at hfile
      exact hfile r hr (by simp [hk])
    rw [find_map_row (iterMemRow cfg st (st.now - cfg.retention)) (fun _ => rfl)]
    cases includeMem with
    | false => simp only [Bool.false_eq_true, if_false, List.filter_nil, List.find?_nil, hf]
    | true =>
      simp only [if_true]
      have hkeep : (restRows (st.file.getD []) st.mem).find? (fun r => r.key == key) =
          st.mem.find? (fun r => r.key == key) := by
        apply find_filter_keep
        intro m _ hmk
        simp only [Bool.not_eq_true', List.any_eq_false]
        intro r hr
        rw [hmk]
        simpa using hnofile r hr
      unfold restRows at hkeep
      rw [hkeep, hf, hm]
      cases hmem : st.mem.find? (fun m => m.key == key) with
      | none => rfl
      | some m =>
        simp only [optCol]
        exact iterMemRow_col cfg hd st hmf _ m i hi

end Zeno
