/-
Derived selected expressions, part 4 (stage 1): `sem_apply` by induction on the expression.
-/
import ZenoModel.Lemmas.DerivedApply
set_option linter.unusedSimpArgs false
set_option linter.unusedVariables false
namespace Zeno

/-- the semantic reading of the `j`-th closure of `e.SubMergers(subs)` (kept column `j`) -/
def SemApply (e : Ex) (subs : List Ex) (j : Nat) (cj : Ex) (p : Pt) : Prop :=
  ∀ (d o rest : List Cell) (os : List (List Cell)) (otherRes : Int), WF e d → WF cj o →
    applyOpt ((e.subMergers subs).getD j none) (d ++ rest) (o :: os) otherRes p =
      e.mrg d (e.assemble subs p (singleCol subs j o)) ++ rest

section
variable {subs : List Ex} {j : Nat} {cj : Ex} (hj : subs[j]? = some cj) (hf : FirstCol subs j) (p : Pt)
include hj hf

/-- a node that resolves to a column and whose `j`-th closure is "direct iff it prints like `j`" -/
theorem semApply_node_some {n : Ex} (hv : n.valid = true) (hp : n.noPtile = true) {i : Nat}
    (hm : n.matchIdx subs = some i)
    (hsm : (n.subMergers subs).getD j none = if n.sameStr cj then some (.direct n) else none)
    (hasm : ∀ st, n.assemble subs p st = st i) : SemApply n subs j cj p := by
  intro d o rest os r hd ho
  rw [hsm, apply_self_match hv hp hj hd ho, hasm, single_at_match hj hf hm o]

/-- a node that resolves to no column and has no closures of its own -/
theorem semApply_node_none {n : Ex} (hv : n.valid = true) (hp : n.noPtile = true)
    (hsm : (n.subMergers subs).getD j none = none)
    (hasm : ∀ st, n.assemble subs p st = n.empty) : SemApply n subs j cj p := by
  intro d o rest os r hd ho
  rw [hsm, hasm, mrg_empty_right hv hp hd]; rfl

theorem semApply_agg (k : AggKind) (w : Ex) (hv : (Ex.agg k w).valid = true) (hp : (Ex.agg k w).noPtile = true) :
    SemApply (.agg k w) subs j cj p := by
  have hsm : ((Ex.agg k w).subMergers subs).getD j none =
      if (Ex.agg k w).sameStr cj then some (.direct (.agg k w)) else none := by
    simp only [Ex.subMergers]; exact getD_map_sub subs _ j cj hj
  cases hm : (Ex.agg k w).matchIdx subs with
  | some i => exact semApply_node_some hj hf p hv hp hm hsm (fun st => by simp only [Ex.assemble, hm])
  | none =>
    apply semApply_node_none hj hf p hv hp _ (fun st => by simp only [Ex.assemble, hm])
    rw [hsm, if_neg]
    rw [matchIdx_none hm cj (List.mem_of_getElem? hj)]; simp

theorem semApply_avg (v w : Ex) (hv : (Ex.avg v w).valid = true) (hp : (Ex.avg v w).noPtile = true) :
    SemApply (.avg v w) subs j cj p := by
  have hsm : ((Ex.avg v w).subMergers subs).getD j none =
      if (Ex.avg v w).sameStr cj then some (.direct (.avg v w)) else none := by
    simp only [Ex.subMergers]; exact getD_map_sub subs _ j cj hj
  cases hm : (Ex.avg v w).matchIdx subs with
  | some i => exact semApply_node_some hj hf p hv hp hm hsm (fun st => by simp only [Ex.assemble, hm])
  | none =>
    apply semApply_node_none hj hf p hv hp _ (fun st => by simp only [Ex.assemble, hm])
    rw [hsm, if_neg]
    rw [matchIdx_none hm cj (List.mem_of_getElem? hj)]; simp

theorem semApply_bin (op : BinOp) (l r : Ex) (hv : (Ex.bin op l r).valid = true)
    (hp : (Ex.bin op l r).noPtile = true) (ihl : SemApply l subs j cj p) (ihr : SemApply r subs j cj p) :
    SemApply (.bin op l r) subs j cj p := by
  have hjl : j < subs.length := by
    rcases Nat.lt_or_ge j subs.length with h | h
    · exact h
    · rw [List.getElem?_eq_none h] at hj; cases hj
  cases hm : (Ex.bin op l r).matchIdx subs with
  | some i =>
    apply semApply_node_some hj hf p hv hp hm _ (fun st => by simp only [Ex.assemble, hm])
    have hm' := hm
    unfold Ex.matchIdx at hm'
    simp only [Ex.subMergers, hm']
    rw [getD_range_map _ _ j hjl]
    by_cases hji : j = i
    · subst hji; rw [if_pos rfl, if_pos ((matchIdx_first hj hf).mp hm)]
    · rw [if_neg hji, if_neg]
      intro hs
      have := (matchIdx_first hj hf).mpr hs
      rw [hm] at this; injection this with this; exact hji this.symm
  | none =>
    simp only [Ex.valid, Bool.and_eq_true] at hv
    simp only [Ex.noPtile, Bool.and_eq_true] at hp
    intro d o rest os rr hd ho
    obtain ⟨dl, dr, rfl, hdl, hdr⟩ := wf_split hd
    have hm' := hm
    unfold Ex.matchIdx at hm'
    have hwl := assemble_wf subs p _ (singleCol_wf subs j cj hj o ho) l
    simp only [Ex.subMergers, hm', Ex.assemble, hm]
    rw [getD_range_map _ _ j hjl, applyOpt_combined, List.append_assoc, ihl dl o (dr ++ rest) os rr hdl ho]
    have hlen : (l.mrg dl (l.assemble subs p (singleCol subs j o))).length = l.width :=
      (mrg_wf hv.1 hp.1 hdl hwl).length
    rw [← hlen, List.take_left, List.drop_left, ihr dr o rest os rr hdr ho, mrg_bin hv.1 hp.1 hdl hwl,
      List.append_assoc]

end

end Zeno
