/-
SubMerge semantics, part 2: the frame around the loop of `Sequence.SubMerge` — truncation of
both operands to the window, prepending/appending empty periods — leaves the semantic view
`Sq.at` of the (truncated) receiver unchanged and makes the result reach down to the oldest
source period.
-/
import ZenoModel.Lemmas.SubMergeSemLoop
set_option linter.unusedSimpArgs false
namespace Zeno

/-! ### rounding a bound that already lies on the grid -/

theorem roundUntilDown_aligned {t res hi : Int} (h : 0 < res) (ht : t ≠ 0) (hh : hi ≠ 0)
    (hal : (hi - t) % res = 0) : roundUntilDown t res hi = t := by
  obtain ⟨hg, hle, hgt⟩ := roundUntilDown_spec (t := t) h ht hh
  generalize roundUntilDown t res hi = r at *
  have hm : (t - r) % res = 0 := by
    have : t - r = (hi - r) - (hi - t) := by omega
    rw [this, Int.sub_emod, hg, hal]; simp
  have hx : t - r = res * ((t - r) / res) := by
    have := Int.mul_ediv_add_emod (t - r) res; omega
  by_cases hz : (t - r) / res ≤ 0
  · have : res * ((t - r) / res) ≤ 0 := Int.mul_nonpos_of_nonneg_of_nonpos (Int.le_of_lt h) hz
    omega
  · have : res * 1 ≤ res * ((t - r) / res) := Int.mul_le_mul_of_nonneg_left (by omega) (Int.le_of_lt h)
    omega

theorem roundUntilUp_aligned {t res hi : Int} (hh : hi ≠ 0) (hal : (hi - t) % res = 0) :
    roundUntilUp t res hi = t := by
  unfold roundUntilUp
  by_cases ht : t = 0
  · simp [ht]
  · simp only [ht, hh, if_false]
    have := Int.mul_ediv_add_emod (hi - t) res
    have hc : (hi - t) / res * res = res * ((hi - t) / res) := Int.mul_comm _ _
    omega

theorem emod_sub_of {a b m : Int} (ha : a % m = 0) (hb : b % m = 0) : (a - b) % m = 0 := by
  rw [Int.sub_emod, ha, hb]; simp

theorem emod_add_of {a b m : Int} (ha : a % m = 0) (hb : b % m = 0) : (a + b) % m = 0 := by
  rw [Int.add_emod, ha, hb]; simp

/-- a multiple of `k·m` is a multiple of `m` -/
theorem emod_of_mul {x m : Int} (k : Int) (hx : x % (k * m) = 0) : x % m = 0 := by
  have : x % m = (x % (k * m)) % m := (Int.emod_emod_of_dvd x ⟨k, Int.mul_comm k m⟩).symm
  rw [this, hx]; simp

theorem tdiv_pos_imp {x res : Int} (h : 0 < res) (hp : 0 < x.tdiv res) : 0 < x := by
  by_cases hx : 0 < x
  · exact hx
  · exfalso
    have e : x = -(-x) := by omega
    rw [e, Int.neg_tdiv] at hp
    have := Int.tdiv_nonneg (a := -x) (b := res) (by omega) (by omega)
    omega

/-- exact division: the quotient times the divisor -/
theorem ediv_mul_exact {x res : Int} (hm : x % res = 0) : (x / res) * res = x := by
  have := Int.mul_ediv_add_emod x res
  rw [Int.mul_comm]; omega

/-! ### what `Truncate` returns, structurally -/

theorem truncUntil_some {e : Ex} {res : Int} (q r0 : Seq) (h' : Int) (hu : truncUntil q res h' = some r0) :
    (r0.hi = q.hi ∨ (h' ≠ 0 ∧ r0.hi = h')) ∧ (CellsWF e q.cells → CellsWF e r0.cells) := by
  unfold truncUntil at hu
  split at hu
  · simp only at hu
    split at hu
    · split at hu
      · cases hu
      · rename_i hz _ _
        cases hu
        exact ⟨Or.inr ⟨hz, rfl⟩, fun hw => cellsWF_drop hw _⟩
    · cases hu; exact ⟨Or.inl rfl, fun hw => hw⟩
  · cases hu; exact ⟨Or.inl rfl, fun hw => hw⟩

theorem truncAsOf_some {e : Ex} {res : Int} (h : 0 < res) (r0 r : Seq) (a' : Int)
    (hr : truncAsOf r0 res a' = some r) :
    r.hi = r0.hi ∧ (CellsWF e r0.cells → CellsWF e r.cells) ∧ (a' ≠ 0 → a' < r.hi) := by
  unfold truncAsOf at hr
  split at hr
  · rename_i hz
    simp only at hr
    split at hr
    · cases hr
    · rename_i hpos
      have hlt : a' < r0.hi := by
        have := tdiv_pos_imp h (x := r0.hi - a') (by omega)
        omega
      split at hr
      · cases hr; exact ⟨rfl, fun hw => hw, fun _ => hlt⟩
      · cases hr; exact ⟨rfl, fun hw => cellsWF_take hw _, fun _ => hlt⟩
  · rename_i hz
    cases hr
    exact ⟨rfl, fun hw => hw, fun hne => absurd hne hz⟩

/-- a non-empty result of `Truncate` stays on the operand's grid, keeps well-formed states and
    ends after the (rounded) asOf -/
theorem truncate_some {e : Ex} {res : Int} (h : 0 < res) (q r : Seq) (a hh : Int)
    (hr : Sq.truncate (some q) res a hh = some r) :
    (q.hi - r.hi) % res = 0 ∧ (CellsWF e q.cells → CellsWF e r.cells) ∧
      (roundUntilDown a res q.hi ≠ 0 → roundUntilDown a res q.hi < r.hi) := by
  rw [truncate_eq] at hr
  have gh := roundUntilDown_grid (t := hh) (res := res) (hi := q.hi) h
  generalize roundUntilDown hh res q.hi = h' at *
  generalize roundUntilDown a res q.hi = a' at *
  cases hu : truncUntil q res h' with
  | none => rw [hu] at hr; cases hr
  | some r0 =>
    rw [hu] at hr
    simp only at hr
    obtain ⟨h1, w1⟩ := truncUntil_some (e := e) q r0 h' hu
    obtain ⟨h2, w2, h3⟩ := truncAsOf_some (e := e) h r0 r a' hr
    refine ⟨?_, fun hw => w2 (w1 hw), h3⟩
    rw [h2]
    cases h1 with
    | inl heq => rw [heq]; simp
    | inr hne =>
      rw [hne.2]
      cases gh with
      | inl h0 => exact absurd h0 hne.1
      | inr hg => exact hg

/-! ### prepending / appending empty periods does not change the semantic view -/

theorem at_prepend (e : Ex) {res : Int} (h : 0 < res) (hi : Int) (cells : List (List Cell)) (n : Nat) (T : Int) :
    Sq.at (some ⟨hi + (n : Int) * res, List.replicate n e.empty ++ cells⟩) e res T =
      Sq.at (some ⟨hi, cells⟩) e res T := by
  rw [at_some, at_some]
  have hn : (0 : Int) ≤ (n : Int) * res := Int.mul_nonneg (Int.natCast_nonneg n) (Int.le_of_lt h)
  have e0 : hi + (n : Int) * res - T = hi - T + (n : Int) * res := by omega
  have e1 : (hi + (n : Int) * res - T) % res = (hi - T) % res := by
    rw [e0, Int.add_mul_emod_self_right]
  have e2 : (hi + (n : Int) * res - T) / res = (hi - T) / res + n := by
    rw [e0, Int.add_mul_ediv_right _ _ (Int.ne_of_gt h)]
  rw [e1, e2]
  by_cases hm : (hi - T) % res = 0
  · by_cases hle : T ≤ hi
    · have hq : 0 ≤ (hi - T) / res := Int.ediv_nonneg (by omega) (Int.le_of_lt h)
      rw [if_pos ⟨hm, by omega⟩, if_pos ⟨hm, hle⟩, getD_append_replicate, if_neg (by omega)]
      congr 1
      omega
    · have hR : ¬ ((hi - T) % res = 0 ∧ T ≤ hi) := fun hc => hle hc.2
      rw [if_neg hR]
      have hq : (hi - T) / res < 0 := Int.ediv_neg_of_neg_of_pos (by omega) h
      split
      · rename_i hc
        have hnpos : 0 < n := by
          rcases Nat.eq_zero_or_pos n with h0 | h0
          · subst h0; simp at hc; omega
          · exact h0
        rw [getD_append_replicate, if_pos (by omega)]
      · rfl
  · rw [if_neg (fun hc => hm hc.1), if_neg (fun hc => hm hc.1)]

theorem getD_append_empties (e : Ex) (cs : List (List Cell)) (n i : Nat) :
    (cs ++ List.replicate n e.empty).getD i e.empty = cs.getD i e.empty := by
  by_cases hi : i < cs.length
  · rw [List.getD_eq_getElem?_getD, List.getD_eq_getElem?_getD, List.getElem?_append_left hi]
  · rw [getD_ge e cs i (by omega), List.getD_eq_getElem?_getD, List.getElem?_append_right (by omega),
      ← List.getD_eq_getElem?_getD, getD_replicate']

theorem at_append_empties (e : Ex) (res hi : Int) (cells : List (List Cell)) (n : Nat) (T : Int) :
    Sq.at (some ⟨hi, cells ++ List.replicate n e.empty⟩) e res T = Sq.at (some ⟨hi, cells⟩) e res T := by
  rw [at_some, at_some, getD_append_empties]

/-! ### the two growth steps of SubMerge -/

/-- "prepend": make the (truncated) receiver reach up to `newUntil` -/
def smPrepend (e : Ex) (res newUntil : Int) (result : Sq) : Seq :=
  match result with
  | none => ⟨newUntil, [e.empty]⟩
  | some r =>
    if r.cells.length = 0 then ⟨newUntil, [e.empty]⟩
    else
      let n := (newUntil - r.hi).tdiv res
      if n > 0 then ⟨newUntil, List.replicate n.toNat e.empty ++ r.cells⟩ else r

/-- "append": make it reach down to the (rounded) asOf of the source -/
def smAppend (e : Ex) (res otherAsOf : Int) (r1 : Seq) : Seq :=
  let oldAsOf := roundUntilUp (Sq.asOf (some r1) res) res r1.hi
  let newAsOf := roundUntilDown otherAsOf res r1.hi
  let n := (oldAsOf - newAsOf).tdiv res
  if n > 0 then ⟨r1.hi, r1.cells ++ List.replicate n.toNat e.empty⟩ else r1

theorem at_single_empty (e : Ex) (res hi T : Int) : Sq.at (some ⟨hi, [e.empty]⟩) e res T = e.empty := by
  rw [at_some]
  split
  · rw [List.getD_eq_getElem?_getD]
    cases hg : [e.empty][((hi - T) / res).toNat]? with
    | none => rfl
    | some c =>
      have := List.mem_of_getElem? hg
      simp at this
      simp [this]
  · rfl

theorem smPrepend_spec {e : Ex} {res : Int} (h : 0 < res) (nu : Int) (result : Sq)
    (hg : ∀ r, result = some r → (nu - r.hi) % res = 0) (hw : SqWF e result) :
    (∀ T, Sq.at (some (smPrepend e res nu result)) e res T = result.at e res T) ∧
      nu ≤ (smPrepend e res nu result).hi ∧ (nu - (smPrepend e res nu result).hi) % res = 0 ∧
      CellsWF e (smPrepend e res nu result).cells := by
  have hsingle : CellsWF e [e.empty] := by
    intro c hc; simp at hc; rw [hc]; exact wf_empty e
  cases result with
  | none =>
    simp only [smPrepend]
    exact ⟨fun T => by rw [at_single_empty, at_none], Int.le_refl _, by simp, hsingle⟩
  | some r =>
    simp only [smPrepend]
    have hgr := hg r rfl
    split
    · rename_i hl
      refine ⟨fun T => ?_, Int.le_refl _, by simp, hsingle⟩
      rw [at_single_empty]
      cases r with
      | mk rhi rc =>
        simp only at hl
        rw [at_some, List.eq_nil_of_length_eq_zero hl]
        simp
    · rw [exact_tdiv h hgr]
      have hx := ediv_mul_exact hgr
      split
      · rename_i hpos
        have hdn : (((nu - r.hi) / res).toNat : Int) = (nu - r.hi) / res := Int.toNat_of_nonneg (by omega)
        have hnu : nu = r.hi + (((nu - r.hi) / res).toNat : Int) * res := by rw [hdn]; omega
        refine ⟨fun T => ?_, Int.le_refl _, by simp, cellsWF_append (cellsWF_replicate e _) hw⟩
        have := at_prepend e h r.hi r.cells ((nu - r.hi) / res).toNat T
        rw [← hnu] at this
        exact this
      · rename_i hnp
        have : (nu - r.hi) / res * res ≤ 0 :=
          Int.mul_nonpos_of_nonpos_of_nonneg (by omega) (Int.le_of_lt h)
        exact ⟨fun T => rfl, by omega, hgr, hw⟩

theorem smAppend_spec {e : Ex} {res : Int} (h : 0 < res) (otherAsOf : Int) (r1 : Seq)
    (h1 : r1.hi ≠ 0) (h2 : otherAsOf ≠ 0) (hw : CellsWF e r1.cells) :
    (∀ T, Sq.at (some (smAppend e res otherAsOf r1)) e res T = Sq.at (some r1) e res T) ∧
      (smAppend e res otherAsOf r1).hi = r1.hi ∧
      (smAppend e res otherAsOf r1).hi - ((smAppend e res otherAsOf r1).cells.length : Int) * res ≤ otherAsOf ∧
      CellsWF e (smAppend e res otherAsOf r1).cells := by
  obtain ⟨g, hle, _⟩ := roundUntilDown_spec (t := otherAsOf) (hi := r1.hi) h h2 h1
  have hold : roundUntilUp (Sq.asOf (some r1) res) res r1.hi = r1.hi - (r1.cells.length : Int) * res := by
    apply roundUntilUp_aligned h1
    simp only [Sq.asOf]
    have : r1.hi - (r1.hi - (r1.cells.length : Int) * res) = (r1.cells.length : Int) * res := by omega
    rw [this]; exact Int.mul_emod_left _ _
  unfold smAppend
  simp only [hold]
  generalize roundUntilDown otherAsOf res r1.hi = na at *
  have hm : (r1.hi - (r1.cells.length : Int) * res - na) % res = 0 := by
    have : r1.hi - (r1.cells.length : Int) * res - na = (r1.hi - na) - (r1.cells.length : Int) * res := by omega
    rw [this, Int.sub_mul_emod_self_right]; exact g
  rw [exact_tdiv h hm]
  have hx := ediv_mul_exact hm
  split
  · rename_i hpos
    have hdn : (((r1.hi - (r1.cells.length : Int) * res - na) / res).toNat : Int)
        = (r1.hi - (r1.cells.length : Int) * res - na) / res := Int.toNat_of_nonneg (by omega)
    refine ⟨fun T => ?_, rfl, ?_, cellsWF_append hw (cellsWF_replicate e _)⟩
    · cases r1 with | mk a b => exact at_append_empties e res a b _ T
    · simp only [List.length_append, List.length_replicate, Int.natCast_add, hdn, Int.add_mul]
      omega
  · rename_i hnp
    have : (r1.hi - (r1.cells.length : Int) * res - na) / res * res ≤ 0 :=
      Int.mul_nonpos_of_nonpos_of_nonneg (by omega) (Int.le_of_lt h)
    exact ⟨fun T => rfl, rfl, by omega, hw⟩

end Zeno
