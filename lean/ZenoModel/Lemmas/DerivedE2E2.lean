/-
Derived selected expressions, part 22 (end to end): the cell `core.Group` computes for a derived
selected expression over the scan of `runStore x cfg ops` = the expression accumulated over
`specQuery`'s bucket of accepted raw rows (key conditions appended).
-/
import ZenoModel.Lemmas.DerivedE2E
set_option linter.unusedSimpArgs false
set_option linter.unusedVariables false
namespace Zeno

/-- store script, query and plan for derived selected expressions: the end-to-end context plus
    well-formed table expressions that do not read the key-level IF conditions of the query -/
structure DerivedCtx (x : Ext) (cfg : TableCfg) (ops : List StoreOp) (q : Query) (metas : List KeyMeta) (pl : Plan) :
    Prop where
  base : E2ECtx x cfg ops q metas pl
  tableOk : TableExprsOk cfg
  colsIgnore : ∀ κ : Key, ColsIgnore x ((includedFields cfg q).map (·.ex)) (specMetaOf metas κ).conds

/-- a derived selected field: built over scanned table fields -/
structure DerivedField (x : Ext) (cfg : TableCfg) (ops : List StoreOp) (q : Query) (f : Field) : Prop where
  valid : f.ex.valid = true
  noPtile : f.ex.noPtile = true
  shiftFree : f.ex.shiftFree = true
  /-- every aggregate of `f` lies in a sub-expression that IS a scanned table field -/
  resolved : f.ex.resolved ((includedFields cfg q).map (·.ex)) = true
  /-- the query-level IF conditions are not among the conditions evaluated on the points themselves
      (ids ≥ 100 vs < 100 in the harness) -/
  fresh : ∀ c ∈ f.ex.openConds ((includedFields cfg q).map (·.ex)),
    ∀ a ∈ (acceptedRows cfg true (pointsOf ops)).1, a.pt.includes c = false

theorem scan_rowColsOk (x : Ext) {cfg : TableCfg} {ops : List StoreOp} {q : Query} {metas : List KeyMeta} {pl : Plan}
    (C : DerivedCtx x cfg ops q metas pl) :
    ∀ r ∈ e2eScan x cfg ops q metas, RowColsOk ((includedFields cfg q).map (·.ex)) cfg.res r.cols := by
  intro r hr
  have hr0 := ((mem_whereRows q metas _ r).mp hr).1
  have sinv := StoreProj.reachable_store_wf x cfg C.base.wf ops C.base.pos
  have hcol : ∀ j cj, ((includedFields cfg q).map (·.ex))[j]? = some cj →
      j < r.cols.length ∧ SqOk cfg.res (r.cols.getD j none) ∧ SqWF cj (r.cols.getD j none) := by
    intro j cj hj
    obtain ⟨ti, hti, hin, hex⟩ := included_col cfg q j cj hj
    have sv := scanView_included cfg C.base.wf.distinct _ sinv q j ti hti hin
    obtain ⟨hv, hp⟩ := C.tableOk _ (List.getElem_mem hti)
    have hok := scanCol_ok x cfg C.base.wf ops C.base.pos r.key ti hti hv hp
    rw [← sv.col r hr0, hex] at hok
    exact ⟨sv.width r hr0, hok⟩
  refine ⟨?_, fun j cj hj => (hcol j cj hj).2⟩
  rcases Nat.eq_zero_or_pos ((includedFields cfg q).map (·.ex)).length with h0 | hpos
  · omega
  · have hl : ((includedFields cfg q).map (·.ex)).length - 1 < ((includedFields cfg q).map (·.ex)).length := by omega
    have := (hcol _ _ (List.getElem?_eq_getElem hl)).1
    omega

/-- `DerivedCell` for the scan `runQuery` performs -/
theorem derivedCell_of_store (x : Ext) {cfg : TableCfg} {ops : List StoreOp} {q : Query} {metas : List KeyMeta}
    {pl : Plan} (C : DerivedCtx x cfg ops q metas pl) (i : Nat) (f : Field) (hout : q.outFields[i]? = some f)
    (df : DerivedField x cfg ops q f) :
    DerivedCell cfg (runStore x cfg ops).now q pl (includedFields cfg q) (e2eScan x cfg ops q metas)
      (gResOf cfg pl / cfg.res).toNat i f :=
  ⟨planLocal_noStride cfg _ q pl C.base.plan C.base.noStride,
    planLocal_window cfg _ q pl C.base.plan C.base.wf.res_pos C.base.asOfPos, hout, df.valid, df.noPtile,
    df.shiftFree, scan_rowColsOk x C⟩

theorem keyPeriodPts_specAdj_key (metas : List KeyMeta) (A : List AccRow) (κ : Key) (t : Int) :
    (keyPeriodPts A (·.pt) κ t).map (addConds (specMetaOf metas κ).conds) = keyPeriodPts A (specAdj metas) κ t :=
  keyPeriodPts_specAdj metas A { key := κ, cols := [] } t

end Zeno
