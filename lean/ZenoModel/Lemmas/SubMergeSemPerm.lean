/-
SubMerge semantics, part 11: order does not matter — accumulation is invariant under permutation
of the points, and a list filtered by a disjoint family of predicates is a permutation of the list
filtered by their union.
-/
import ZenoModel.Lemmas.SubMergeSemAll
set_option linter.unusedSimpArgs false
namespace Zeno

/-- accumulating the same points in another order gives the same state -/
theorem acc_perm (x : Ext) {e : Ex} (hv : e.valid = true) (hp : e.noPtile = true) {l1 l2 : List Pt}
    (h : l1.Perm l2) : e.acc x l1 = e.acc x l2 := by
  induction h with
  | nil => rfl
  | @cons p m1 m2 _ ih =>
    have a1 := mrg_acc x hv hp [p] m1
    have a2 := mrg_acc x hv hp [p] m2
    simp only [List.singleton_append] at a1 a2
    rw [← a1, ← a2, ih]
  | swap a b l =>
    have wa := acc_wf x hv hp [a]
    have wb := acc_wf x hv hp [b]
    have wl := acc_wf x hv hp l
    have e1 : e.acc x (b :: a :: l) = e.mrg (e.acc x [b]) (e.mrg (e.acc x [a]) (e.acc x l)) := by
      have h1 := mrg_acc x hv hp [b] (a :: l)
      have h2 := mrg_acc x hv hp [a] l
      simp only [List.singleton_append] at h1 h2
      rw [← h1, ← h2]
    have e2 : e.acc x (a :: b :: l) = e.mrg (e.acc x [a]) (e.mrg (e.acc x [b]) (e.acc x l)) := by
      have h1 := mrg_acc x hv hp [a] (b :: l)
      have h2 := mrg_acc x hv hp [b] l
      simp only [List.singleton_append] at h1 h2
      rw [← h1, ← h2]
    rw [e1, e2, ← mrg_assoc hv hp wb wa wl, mrg_comm hv hp wb wa, mrg_assoc hv hp wa wb wl]
  | trans _ _ ih1 ih2 => rw [ih1, ih2]

/-- two disjoint filters, one after the other, are a permutation of the filter by their union -/
theorem filter_or_perm {α : Type} (p q : α → Bool) : ∀ (A : List α), (∀ a ∈ A, ¬ (p a = true ∧ q a = true)) →
    (A.filter p ++ A.filter q).Perm (A.filter (fun a => p a || q a)) := by
  intro A
  induction A with
  | nil => intro _; exact List.Perm.refl _
  | cons a A ih =>
    intro hd
    have ih' := ih (fun a' ha' => hd a' (by simp [ha']))
    have hda := hd a (by simp)
    simp only [List.filter_cons]
    cases hp : p a <;> cases hq : q a
    · simpa using ih'
    · simp only [Bool.false_eq_true, if_false, if_true, Bool.or_true, Bool.false_or]
      exact List.perm_middle.trans (List.Perm.cons a ih')
    · simp only [Bool.false_eq_true, if_false, if_true, Bool.or_false, Bool.true_or, List.cons_append]
      exact List.Perm.cons a ih'
    · exact absurd ⟨hp, hq⟩ hda

/-- a pairwise disjoint family of filters, concatenated, is a permutation of the filter by the
    union of the family -/
theorem flatten_filters_perm {α ι : Type} (P : ι → α → Bool) (A : List α) :
    ∀ (idx : List ι), idx.Nodup →
      (∀ a ∈ A, ∀ c ∈ idx, ∀ c' ∈ idx, P c a = true → P c' a = true → c = c') →
      ((idx.map (fun c => A.filter (P c))).flatten).Perm (A.filter (fun a => idx.any (fun c => P c a))) := by
  intro idx
  induction idx with
  | nil => intro _ _; simp
  | cons c idx ih =>
    intro hnd hdis
    have hnd' := (List.nodup_cons.mp hnd)
    have ih' := ih hnd'.2 (fun a ha c1 h1 c2 h2 => hdis a ha c1 (by simp [h1]) c2 (by simp [h2]))
    simp only [List.map_cons, List.flatten_cons, List.any_cons]
    refine (List.Perm.append_left _ ih').trans (filter_or_perm (P c) (fun a => idx.any (fun c => P c a)) A ?_)
    intro a ha ⟨h1, h2⟩
    obtain ⟨c', hc', hP'⟩ := List.any_eq_true.mp h2
    have := hdis a ha c (by simp) c' (by simp [hc']) h1 hP'
    subst this
    exact hnd'.1 hc'

/-- pointwise permutations concatenate to a permutation -/
theorem flatten_map_perm {α ι : Type} (f g : ι → List α) : ∀ (l : List ι), (∀ i ∈ l, (f i).Perm (g i)) →
    ((l.map f).flatten).Perm ((l.map g).flatten) := by
  intro l
  induction l with
  | nil => intro _; exact List.Perm.refl _
  | cons i l ih =>
    intro h
    simp only [List.map_cons, List.flatten_cons]
    exact List.Perm.append (h i (by simp)) (ih (fun i' hi' => h i' (by simp [hi'])))

theorem inj_of_nodup_map {α β : Type} (f : α → β) : ∀ (l : List α), (l.map f).Nodup →
    ∀ a ∈ l, ∀ b ∈ l, f a = f b → a = b := by
  intro l
  induction l with
  | nil => intro _ a ha; simp at ha
  | cons x l ih =>
    intro hnd a ha b hb hab
    simp only [List.map_cons, List.nodup_cons] at hnd
    rw [List.mem_cons] at ha hb
    rcases ha with rfl | ha <;> rcases hb with rfl | hb
    · rfl
    · exact absurd (List.mem_map.mpr ⟨b, hb, hab.symm⟩) hnd.1
    · exact absurd (List.mem_map.mpr ⟨a, ha, hab⟩) hnd.1
    · exact ih hnd.2 a ha b hb hab

theorem nodup_of_nodup_map {α β : Type} (f : α → β) (l : List α) (h : (l.map f).Nodup) : l.Nodup :=
  List.Pairwise.of_map f (fun _ _ hne heq => hne (by rw [heq])) h

end Zeno
