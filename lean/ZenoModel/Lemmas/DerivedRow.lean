/-
Derived selected expressions, part 6 (stage 1, second half): merging, column by column, the
single-column assemblies of one source row = merging the state ASSEMBLED from all its columns.
-/
import ZenoModel.Lemmas.DerivedApply3
set_option linter.unusedSimpArgs false
set_option linter.unusedVariables false
namespace Zeno

/-- a fold of merges in which only index `i` contributes -/
theorem foldl_mrg_only {e : Ex} (hv : e.valid = true) (hp : e.noPtile = true) (i : Nat) (G : Nat → List Cell)
    (hG : WF e (G i)) : ∀ (l : List Nat) (d : List Cell), l.Nodup → WF e d →
      l.foldl (fun a j => e.mrg a (if i = j then G j else e.empty)) d = if i ∈ l then e.mrg d (G i) else d := by
  intro l
  induction l with
  | nil => intro d _ _; rfl
  | cons a l ih =>
    intro d hnd hd
    rw [List.nodup_cons] at hnd
    simp only [List.foldl_cons]
    by_cases hia : i = a
    · subst hia
      rw [if_pos rfl, if_pos (by simp)]
      have : ∀ j ∈ l, (if i = j then G j else e.empty) = e.empty := by
        intro j hj; rw [if_neg]; intro h; subst h; exact hnd.1 hj
      exact foldl_mrg_empty hv hp _ l _ (mrg_wf hv hp hd hG) this
    · rw [if_neg hia, mrg_empty_right hv hp hd, ih d hnd.2 hd]
      by_cases hil : i ∈ l
      · rw [if_pos hil, if_pos (by simp [hil])]
      · rw [if_neg hil, if_neg (by simp [hia, hil])]

/-- a fold of merges of a binary expression splits into the folds of its two sides -/
theorem foldl_mrg_bin {op : BinOp} {l r : Ex} (hvl : l.valid = true) (hpl : l.noPtile = true)
    (gl gr : Nat → List Cell) (hgl : ∀ j, WF l (gl j)) : ∀ (js : List Nat) (dl dr : List Cell), WF l dl →
      js.foldl (fun a j => (Ex.bin op l r).mrg a (gl j ++ gr j)) (dl ++ dr) =
        js.foldl (fun a j => l.mrg a (gl j)) dl ++ js.foldl (fun a j => r.mrg a (gr j)) dr := by
  intro js
  induction js with
  | nil => intro dl dr _; rfl
  | cons j js ih =>
    intro dl dr hdl
    simp only [List.foldl_cons]
    rw [mrg_bin hvl hpl hdl (hgl j), ih _ _ (mrg_wf hvl hpl hdl (hgl j))]

theorem singleCol_wf_all (subs : List Ex) (st : Nat → List Cell) (hst : ∀ i s, subs[i]? = some s → WF s (st i))
    (j : Nat) : ∀ i s, subs[i]? = some s → WF s (singleCol subs j (st j) i) := by
  intro i s hs
  unfold singleCol
  by_cases h : i = j
  · subst h; rw [if_pos rfl]; exact hst i s hs
  · rw [if_neg h, List.getD_eq_getElem?_getD, hs]; exact wf_empty s

section
variable (subs : List Ex) (p : Pt) (st : Nat → List Cell) (hst : ∀ i s, subs[i]? = some s → WF s (st i))
include hst

/-- the column-by-column fold for expression `e` -/
def AsmSum (e : Ex) : Prop :=
  ∀ d, WF e d →
    (List.range subs.length).foldl (fun a j => e.mrg a (e.assemble subs p (singleCol subs j (st j)))) d =
      e.mrg d (e.assemble subs p st)

omit hst in
theorem asmSum_none {e : Ex} (hv : e.valid = true) (hp : e.noPtile = true)
    (h : ∀ st', e.assemble subs p st' = e.empty) : AsmSum subs p st e := by
  intro d hd
  simp only [h]
  rw [mrg_empty_right hv hp hd]
  exact foldl_mrg_empty hv hp _ _ _ hd (fun _ _ => rfl)

theorem asmSum_some {e : Ex} (hv : e.valid = true) (hp : e.noPtile = true) {i : Nat}
    (hm : e.matchIdx subs = some i) (h : ∀ st', e.assemble subs p st' = st' i) : AsmSum subs p st e := by
  intro d hd
  obtain ⟨s, hs, hms, _⟩ := matchIdx_some hm
  have hil : i < subs.length := by
    rcases Nat.lt_or_ge i subs.length with h | h
    · exact h
    · rw [List.getElem?_eq_none h] at hs; cases hs
  simp only [h]
  have hfun : (fun a j => e.mrg a (singleCol subs j (st j) i)) =
      (fun a j => e.mrg a (if i = j then st j else e.empty)) := by
    funext a j
    unfold singleCol
    by_cases hij : i = j
    · rw [if_pos hij, if_pos hij]
    · rw [if_neg hij, if_neg hij, List.getD_eq_getElem?_getD, hs]
      exact congrArg _ (sameStr_empty hms).symm
  rw [hfun, foldl_mrg_only hv hp i st (sameStr_wf hms (hst i s hs)) _ d List.nodup_range hd,
    if_pos (List.mem_range.mpr hil)]

theorem asmSum_bin (op : BinOp) (l r : Ex) (hv : (Ex.bin op l r).valid = true)
    (hp : (Ex.bin op l r).noPtile = true) (ihl : AsmSum subs p st l) (ihr : AsmSum subs p st r) :
    AsmSum subs p st (.bin op l r) := by
  cases hm : (Ex.bin op l r).matchIdx subs with
  | some i => exact asmSum_some subs p st hst hv hp hm (fun st' => by simp only [Ex.assemble, hm])
  | none =>
    simp only [Ex.valid, Bool.and_eq_true] at hv
    simp only [Ex.noPtile, Bool.and_eq_true] at hp
    intro d hd
    obtain ⟨dl, dr, rfl, hdl, hdr⟩ := wf_split hd
    simp only [Ex.assemble, hm]
    rw [foldl_mrg_bin hv.1 hp.1 _ _ (fun j => assemble_wf subs p _ (singleCol_wf_all subs st hst j) l) _ dl dr hdl,
      ihl dl hdl, ihr dr hdr, mrg_bin hv.1 hp.1 hdl (assemble_wf subs p st hst l)]

end

end Zeno
