/-
Derived selected expressions, part 30 (stage 3, physical spans): which periods are PHYSICALLY present
in a sequence (`covers`), and that `Truncate` keeps a period inside the bounds present.
-/
import ZenoModel.Lemmas.DerivedRead
set_option linter.unusedSimpArgs false
set_option linter.unusedVariables false
namespace Zeno

/-- the period ending at `T` lies between the sequence's asOf (exclusive) and until (inclusive) -/
def covers (q : Seq) (res T : Int) : Prop := q.hi - (q.cells.length : Int) * res < T ∧ T ≤ q.hi

def sqCovers (s : Sq) (res T : Int) : Prop := ∃ q, s = some q ∧ covers q res T

theorem spanHas_iff_covers {res : Int} (h : 0 < res) (q : Seq) (T : Int) (hg : (q.hi - T) % res = 0) :
    spanHas (some q) res T = true ↔ covers q res T := by
  have hx := ediv_mul_exact hg
  simp only [spanHas, Bool.and_eq_true, decide_eq_true_eq, covers]
  constructor
  · intro ⟨h1, h2⟩
    have hnn : 0 ≤ (q.hi - T) / res := Int.ediv_nonneg (by omega) (Int.le_of_lt h)
    have hlt : (q.hi - T) / res < (q.cells.length : Int) := by omega
    have := Int.mul_lt_mul_of_pos_right hlt h
    exact ⟨by omega, h1⟩
  · intro ⟨h1, h2⟩
    have hnn : 0 ≤ (q.hi - T) / res := Int.ediv_nonneg (by omega) (Int.le_of_lt h)
    have hlt : (q.hi - T) / res < (q.cells.length : Int) := by
      apply Int.lt_of_mul_lt_mul_right (a := res) _ (Int.le_of_lt h)
      omega
    exact ⟨h2, by omega⟩

theorem spanHas_of_sqCovers {res : Int} (h : 0 < res) (s : Sq) (T hi0 : Int) (hg : OnGrid res hi0 s)
    (hT : (hi0 - T) % res = 0) (hc : sqCovers s res T) : spanHas s res T = true := by
  obtain ⟨q, rfl, hq⟩ := hc
  exact (spanHas_iff_covers h q T (onGrid_sub hg hT)).mpr hq

theorem covers_len_pos {res : Int} (h : 0 < res) {q : Seq} {T : Int} (hc : covers q res T) : 0 < q.cells.length := by
  rcases Nat.eq_zero_or_pos q.cells.length with h0 | h0
  · unfold covers at hc; rw [h0] at hc; simp at hc; omega
  · exact h0

/-- the `until` half of `Truncate` keeps a period at or below the bound -/
theorem truncUntil_covers {r : Int} (h : 0 < r) (q : Seq) (h' T : Int) (hg : (q.hi - h') % r = 0)
    (hT : h' = 0 ∨ T ≤ h') (hc : covers q r T) :
    ∃ r0, truncUntil q r h' = some r0 ∧ covers r0 r T ∧ (q.hi - r0.hi) % r = 0 := by
  unfold truncUntil
  by_cases h0 : h' = 0
  · rw [if_neg (by simp [h0])]; exact ⟨q, rfl, hc, by simp⟩
  · rw [if_pos h0]
    have hTle : T ≤ h' := by rcases hT with h1 | h1; exact absurd h1 h0; exact h1
    simp only [exact_tdiv h hg]
    have hx := ediv_mul_exact hg
    by_cases hn : (q.hi - h') / r > 0
    · rw [if_pos hn]
      have hlt : (q.hi - h') / r < (q.cells.length : Int) := by
        apply Int.lt_of_mul_lt_mul_right (a := r) _ (Int.le_of_lt h)
        unfold covers at hc; omega
      rw [if_neg (by omega)]
      refine ⟨_, rfl, ?_, hg⟩
      unfold covers at hc ⊢
      simp only [List.length_drop]
      have hcast : (((q.cells.length - ((q.hi - h') / r).toNat : Nat)) : Int) =
          (q.cells.length : Int) - (q.hi - h') / r := by omega
      rw [hcast, Int.sub_mul]
      omega
    · rw [if_neg hn]; exact ⟨q, rfl, hc, by simp⟩

/-- the `asOf` half of `Truncate` keeps a period above the bound -/
theorem truncAsOf_covers {r : Int} (h : 0 < r) (r0 : Seq) (a' T : Int) (hg : (r0.hi - a') % r = 0)
    (hT : a' = 0 ∨ a' < T) (hc : covers r0 r T) :
    ∃ q', truncAsOf r0 r a' = some q' ∧ covers q' r T ∧ q'.hi = r0.hi := by
  unfold truncAsOf
  by_cases h0 : a' = 0
  · rw [if_neg (by simp [h0])]; exact ⟨r0, rfl, hc, rfl⟩
  · rw [if_pos h0]
    have hlt : a' < T := by rcases hT with h1 | h1; exact absurd h1 h0; exact h1
    simp only [exact_tdiv h hg]
    have hx := ediv_mul_exact hg
    have hm : 0 < (r0.hi - a') / r := by
      by_cases h1 : 0 < (r0.hi - a') / r
      · exact h1
      · have : (r0.hi - a') / r * r ≤ 0 := Int.mul_nonpos_of_nonpos_of_nonneg (by omega) (Int.le_of_lt h)
        unfold covers at hc; omega
    rw [if_neg (by omega)]
    by_cases hge : ((r0.hi - a') / r).toNat ≥ r0.cells.length
    · rw [if_pos hge]; exact ⟨r0, rfl, hc, rfl⟩
    · rw [if_neg hge]
      refine ⟨_, rfl, ?_, rfl⟩
      unfold covers at hc ⊢
      simp only [List.length_take]
      have hcast : ((min ((r0.hi - a') / r).toNat r0.cells.length : Nat) : Int) = (r0.hi - a') / r := by omega
      rw [hcast]
      omega

end Zeno
