/-
C11 helper lemmas about the textual view of `planClusterNonPushdown`.
-/
import ZenoModel.Model.Plan

namespace Zeno.PlanLemmas
open Zeno Zeno.Plan

/-- the partition-side statement as syntax: stripped statement + synthesised GROUP BY -/
def partSyn (s : QSyn) (i : RwInfo) (crosstabArgs : Option (List Char)) : QSyn :=
  let parts := synthGroupBy i (concatForCrosstab crosstabArgs)
  { stripSyn s i with groupBy := if parts.isEmpty then none else some (joinWith tComma parts) }

theorem rewriteText_eq_render (s : QSyn) (i : RwInfo) (ct : Option (List Char)) :
    rewriteText s i ct = render (partSyn s i ct) := by
  unfold rewriteText partSyn withGroupBy
  by_cases h : (synthGroupBy i (concatForCrosstab ct)).isEmpty = true
  · simp [h, render, renderHead, renderTail, clause, stripSyn]
  · simp [h, render, renderHead, renderTail, clause, stripSyn]

/-- comparison modulo blanks (the rewritten text is re-parsed, blanks between tokens vanish) -/
def despace (t : List Char) : List Char := t.filter (fun c => c != ' ')

theorem despace_append (a b : List Char) : despace (a ++ b) = despace a ++ despace b := by
  simp [despace]

theorem despace_nil : despace [] = [] := rfl

theorem despace_space (a : List Char) : despace (' ' :: a) = despace a := by
  simp [despace]

/-- the searches of the text surgery hit the outer clauses: the first "group by " is the
    outer GROUP BY, the first "from <table>" the outer FROM (only needed with HAVING), and
    the CROSSTAB scan returns the arguments of the GROUP BY's CROSSTAB call -/
structure OuterClauseFirst (s : QSyn) (i : RwInfo) (ct : Option (List Char)) : Prop where
  gbText : ∃ g, s.groupBy = some g
  gb : indexOf tGroupBy (lower (render s)) = some ((renderHead s).length + 1)
  frm : i.hasHaving = true →
    indexOf (tFrom ++ lower s.frm) (lower (render s)) = some ((tSelect ++ s.sel).length + 1)
  ctab : concatForCrosstabPre (render s) = concatForCrosstab ct

theorem take_head_space (h rest : List Char) :
    (h ++ ' ' :: rest).take (h.length + 1) = h ++ [' '] := by
  induction h with
  | nil => simp
  | cons c h ih => simpa using ih

theorem drop_head_space (h rest : List Char) :
    (h ++ ' ' :: rest).drop (h.length + 1) = rest := by
  induction h with
  | nil => simp
  | cons c h ih => simpa using ih

theorem rewriteTextPre_refines (s : QSyn) (i : RwInfo) (ct : Option (List Char))
    (h : OuterClauseFirst s i ct) :
    (rewriteTextPre (render s) s.frm i).map despace = some (despace (rewriteText s i ct)) := by
  obtain ⟨g, hg⟩ := h.gbText
  have hrender : render s = renderHead s ++ ' ' :: (tGroupBy ++ g ++ renderTail s) := by
    simp [render, clause, hg]
  have hcut : (render s).take ((renderHead s).length + 1) = renderHead s ++ [' '] := by
    rw [hrender]; exact take_head_space _ _
  unfold rewriteTextPre
  simp only [h.gb, h.ctab]
  have hpos : (renderHead s).length + 1 > 0 := by omega
  simp only [hpos, if_true, hcut]
  unfold rewriteText withGroupBy
  by_cases hh : i.hasHaving = true
  · have hf := h.frm hh
    simp only [hh, if_true, hf]
    have hle : (tSelect ++ s.sel).length + 1 ≤ (renderHead s ++ [' ']).length := by
      simp [renderHead]; omega
    simp only [hle, if_true, Option.map_some]
    have hsplit : renderHead s ++ [' '] =
        (tSelect ++ s.sel) ++ ' ' :: (tFrom ++ s.frm ++ s.timeRange ++
          clause tWhere s.whr ++ [' ']) := by
      simp [renderHead]
    have htake : (renderHead s ++ [' ']).take ((tSelect ++ s.sel).length + 1) =
        (tSelect ++ s.sel) ++ [' '] := by
      rw [hsplit]; exact take_head_space _ _
    have hdrop : (renderHead s ++ [' ']).drop ((tSelect ++ s.sel).length + 1) =
        tFrom ++ s.frm ++ s.timeRange ++ clause tWhere s.whr ++ [' '] := by
      rw [hsplit]; exact drop_head_space _ _
    rw [htake, hdrop]
    congr 1
    split <;>
      simp [despace_append, despace_space, despace_nil, render, renderHead, renderTail, clause, stripSyn, hh]
  · have hh' : i.hasHaving = false := by simpa using hh
    simp only [hh', Bool.false_eq_true, if_false, Option.map_some]
    congr 1
    split <;>
      simp [despace_append, despace_space, despace_nil, render, renderHead, renderTail, clause, stripSyn, hh']

end Zeno.PlanLemmas
