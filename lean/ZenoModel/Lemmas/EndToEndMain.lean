/-
End-to-end, part 5: the composition.  The store half (`StoreProj.table_ingest_refines_spec`: scan
= raw points, per key and live period) discharges the hypotheses `hstore`, `hkeys`, `hper` of the
query half (`SubMergeSem.sem_groupRows_spec`: grouped cell = bucket accumulation); `hcover` is
bypassed with `specBucket_drop_uncovered` (a key without a scan row only has empty states).
-/
import ZenoModel.Props.StoreProj
import ZenoModel.Props.SubMergeSem
import ZenoModel.Lemmas.EndToEndRows
import ZenoModel.Lemmas.EndToEndWindow
import ZenoModel.Lemmas.EndToEndScan
import ZenoModel.Lemmas.EndToEndDrop
set_option linter.unusedSimpArgs false
set_option linter.unusedVariables false
namespace Zeno

/-- the WHERE bit of a scan row's key as `runQuery` reads it (no metadata: dropped) -/
def runWhere (metas : List KeyMeta) (κ : Key) : Bool :=
  ((metas.find? (fun m => m.key == κ)).map (·.whereOk)).getD false

/-- the scan rows `runQuery` hands to `core.Group` -/
def whereRows (q : Query) (metas : List KeyMeta) (rows : List Row) : List Row :=
  if q.hasWhere then rows.filter (fun r => runWhere metas r.key) else rows

theorem mem_whereRows (q : Query) (metas : List KeyMeta) (rows : List Row) (r : Row) :
    r ∈ whereRows q metas rows ↔ r ∈ rows ∧ (q.hasWhere = true → runWhere metas r.key = true) := by
  unfold whereRows
  by_cases h : q.hasWhere = true
  · simp [h, List.mem_filter]
  · simp [h]

theorem whereRows_sublist (q : Query) (metas : List KeyMeta) (rows : List Row) :
    (whereRows q metas rows).Sublist rows := by
  unfold whereRows; split
  · exact List.filter_sublist
  · exact List.Sublist.refl _

/-- a key that passes `runQuery`'s WHERE passes the spec's -/
theorem specWhere_of_runWhere (metas : List KeyMeta) (κ : Key) (h : runWhere metas κ = true) :
    (specMetaOf metas κ).whereOk = true := by
  unfold runWhere at h
  unfold specMetaOf
  cases hf : metas.find? (fun m => m.key == κ) with
  | none => rw [hf] at h; simp at h
  | some m => rw [hf] at h; simpa using h

/-- … and conversely when the key has metadata (without, the spec's default is "passes") -/
theorem runWhere_of_specWhere (metas : List KeyMeta) (κ : Key) (hm : ∃ m ∈ metas, m.key = κ)
    (h : (specMetaOf metas κ).whereOk = true) : runWhere metas κ = true := by
  unfold runWhere
  unfold specMetaOf at h
  cases hf : metas.find? (fun m => m.key == κ) with
  | none =>
    obtain ⟨m, hm1, hm2⟩ := hm
    have := List.find?_eq_none.mp hf m hm1
    simp [hm2] at this
  | some m => rw [hf] at h; simpa using h

theorem mem_specRows (q : Query) (metas : List KeyMeta) (A0 : List AccRow) (a : AccRow) :
    a ∈ specRows q metas A0 ↔ a ∈ A0 ∧ (q.hasWhere = true → (specMetaOf metas a.key).whereOk = true) := by
  unfold specRows
  by_cases h : q.hasWhere = true
  · simp [h, List.mem_filter]
  · simp [h]

/-- the spec's WHERE (a per-key bit) keeps or drops the (key, period) groups whole -/
theorem keyPeriodPts_specRows (q : Query) (metas : List KeyMeta) (A0 : List AccRow) (adj : AccRow → Pt)
    (κ : Key) (t : Int) (h : q.hasWhere = true → (specMetaOf metas κ).whereOk = true) :
    keyPeriodPts (specRows q metas A0) adj κ t = keyPeriodPts A0 adj κ t := by
  unfold specRows
  by_cases hw : q.hasWhere = true
  · rw [if_pos hw]
    unfold keyPeriodPts
    rw [List.filter_filter]
    congr 1
    apply List.filter_congr
    intro a _
    by_cases hk : (a.key == κ) = true
    · have : a.key = κ := by simpa using hk
      rw [this, h hw]; simp
    · have : (a.key == κ) = false := by simpa using hk
      simp [this]
  · rw [if_neg hw]

theorem keyPeriodPts_filter_good (A : List AccRow) (adj : AccRow → Pt) (good : AccRow → Bool) (κ : Key) (t : Int)
    (h : ∀ a : AccRow, a.key = κ → good a = true) :
    keyPeriodPts (A.filter good) adj κ t = keyPeriodPts A adj κ t := by
  unfold keyPeriodPts
  rw [List.filter_filter]
  congr 1
  apply List.filter_congr
  intro a _
  by_cases hk : (a.key == κ) = true
  · rw [h a (by simpa using hk)]; simp
  · have : (a.key == κ) = false := by simpa using hk
    simp [this]

/-- `hstore`, at the level of the store's own scan reading: inside the live range the state the
    scan holds for (key, period end `t`) — on the grid or not — is the accumulation of the accepted
    rows (QuerySpec's `acceptedRows` on the points of the script) of that key and period -/
theorem scanCol_at_live (x : Ext) (cfg : TableCfg) (wf : CfgWF cfg) (ops : List StoreOp) (hpos : StorePos ops)
    (key : Key) (ti : Nat) (hti : ti < cfg.fields.length)
    (hv : (cfg.fields[ti]).ex.valid = true) (hp : (cfg.fields[ti]).ex.noPtile = true) (t : Int)
    (hlive : t > (runStore x cfg ops).now - cfg.retention) (ht0 : 0 < t) :
    (scanCol cfg (runStore x cfg ops) true key ti).at (cfg.fields[ti]).ex cfg.res t =
      (cfg.fields[ti]).ex.acc x (keyPeriodPts (acceptedRows cfg true (pointsOf ops)).1 (·.pt) key t) := by
  rw [acceptedRows_eq]
  simp only
  by_cases hg : t % cfg.res = 0
  · rw [StoreProj.table_ingest_refines_spec x cfg wf ops hpos key ti hti hv hp t hg hlive ht0,
      tableRowsFor_eq_keyPeriodPts]
  · rw [at_off_grid _ _ (scanCol_ok x cfg wf ops hpos key ti hti hv hp).1 t hg]
    have hnil : keyPeriodPts (accRowsFrom cfg true 0 (pointsOf ops)) (·.pt) key t = [] := by
      unfold keyPeriodPts
      rw [List.map_eq_nil_iff, List.filter_eq_nil_iff]
      intro a ha
      have hper := accRowsFrom_period cfg wf.res_pos true _ 0 a ha
      simp only [Bool.and_eq_true, beq_iff_eq, not_and]
      intro _ hpt
      apply hg; rw [← hpt]; exact hper
    rw [hnil]; rfl

/-- how the selected field `f` (`i`-th of the query) is tied to the scan and to the table: it is
    the `j`-th scanned field and the `ti`-th table field (same expression), valid, without
    PERCENTILE and SHIFT, and sub-merged from that scanned field alone, directly -/
structure FieldTie (cfg : TableCfg) (q : Query) (inFields : List Field) (i : Nat) (f : Field) (j ti : Nat) : Prop where
  outField : q.outFields[i]? = some f
  inField : ∃ inF, inFields[j]? = some inF ∧ inF.ex = f.ex
  tableField : ∃ h : ti < cfg.fields.length, (cfg.fields[ti]).ex = f.ex
  valid : f.ex.valid = true
  noPtile : f.ex.noPtile = true
  noShift : f.ex.shiftOf = 0
  oneHot : OneHot (dedupInputs (inFields.map (·.ex)) (f.ex.subMergers (inFields.map (·.ex)))) j f.ex

/-- `GroupCell` (the side conditions of the query half) for the scan of a reachable store -/
theorem groupCell_of_store (x : Ext) (cfg : TableCfg) (wf : CfgWF cfg) (ops : List StoreOp) (hpos : StorePos ops)
    (q : Query) (metas : List KeyMeta) (pl : Plan)
    (hpl : planLocal cfg (runStore x cfg ops).now q = .ok pl) (hstride : pl.strideSlice = 0)
    (hpos0 : 0 < gAsOfOf cfg (runStore x cfg ops).now pl)
    (inFields : List Field) (rows0 : List Row) (i j ti : Nat) (f : Field) (ft : FieldTie cfg q inFields i f j ti)
    (sv : ScanView cfg (runStore x cfg ops) ti j rows0) :
    GroupCell cfg (runStore x cfg ops).now q pl inFields (whereRows q metas rows0)
      (gResOf cfg pl / cfg.res).toNat i f j := by
  obtain ⟨hti, hex⟩ := ft.tableField
  refine ⟨hstride, planLocal_window cfg _ q pl hpl wf.res_pos hpos0, ft.outField, ft.valid, ft.noPtile,
    ft.noShift, ft.inField, ft.oneHot, ?_⟩
  intro r hr
  have hr0 := ((mem_whereRows q metas rows0 r).mp hr).1
  have hok := scanCol_ok x cfg wf ops hpos r.key ti hti (by rw [hex]; exact ft.valid) (by rw [hex]; exact ft.noPtile)
  rw [hex, ← sv.col r hr0] at hok
  exact ⟨sv.width r hr0, hok.1, hok.2⟩

end Zeno
