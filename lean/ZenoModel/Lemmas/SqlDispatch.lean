/-
Helper lemmas for C16: no function of the SQL dispatch model (M-SQLDISPATCH, with the C16
repairs in place) has `panic` among its possible outcomes, for every AST that satisfies the
grammar invariants `wf`.  The model functions are mutually recursive over the mutually
inductive AST; the proof is a strong induction on `sizeOf` of the AST node so that the
induction hypothesis is available for every sub-node a branch of the Go code descends into,
however deep the pattern that extracts it.
-/
import ZenoModel.Model.SqlDispatch

namespace Zeno.Sql

theorem np_bind {α β} {a : Res α} {f : α → Res β} (ha : a.pan = false) (hf : ∀ v, (f v).pan = false) :
    (a.bind f).pan = false := by
  unfold Res.bind
  split
  · simpa using ha
  · simp [ha, hf]

@[simp] theorem np_ok {α} (v : α) : (Res.ok v).pan = false := rfl
@[simp] theorem np_error {α} : (Res.error : Res α).pan = false := rfl
@[simp] theorem np_either {α} (v : α) : (Res.either v).pan = false := rfl
@[simp] theorem np_guard (b : Bool) : (Res.guard b).pan = false := by unfold Res.guard; split <;> rfl
@[simp] theorem np_void {α} (a : Res α) : a.void.pan = a.pan := rfl
@[simp] theorem np_exprCtor (v : VKind) : (exprCtor v).pan = false := by cases v <;> rfl
@[simp] theorem np_ptileOpt_true : (ptileOptCtor (.expr true)).pan = false := rfl

theorem np_asOrColName (as : String) (e : Ex) : (asOrColName as e).pan = false := by
  unfold asOrColName; split
  · rfl
  · split <;> rfl

theorem np_addExpr (c : Ctx) (v : VKind) (as : String) : (addExpr c v as).pan = false := by
  unfold addExpr; split <;> rfl

theorem np_crosshiftTail (cfg : Cfg) (c : Ctx) (v : VKind) (as : String) (l1 l2 : Lit) :
    (crosshiftTail cfg c v as l1 l2).pan = false := by
  unfold crosshiftTail
  repeat' (first | rfl | split | (apply np_bind) | (intro _) | (simp; done) | (dsimp only))

theorem np_goParams : ∀ (prs : List (Res GoTy)), (∀ r ∈ prs, r.pan = false) → (goParams prs).pan = false
  | [], _ => rfl
  | p :: rest, h => by
      unfold goParams
      apply np_bind (h p (by simp))
      intro _
      exact np_goParams rest (fun r hr => h r (by simp [hr]))

/-- `goFnExprFor` with the repairs in place never panics when none of its parameters does:
    the arity checks dominate every index, LUA's casts and CONCAT's `exprs[0]` are checked. -/
theorem np_goFnExprFor (name : String) (prs : List (Res GoTy)) (h : ∀ r ∈ prs, r.pan = false) :
    (goFnExprFor Cfg.fixed name prs).pan = false := by
  unfold goFnExprFor
  simp only [Cfg.fixed]
  split
  · rfl
  split
  · split
    · rfl
    · match prs, h with
      | [], _ => simp_all
      | p0 :: _, h => exact np_bind (h p0 (by simp)) (fun _ => rfl)
  split
  · split
    · rfl
    · match prs, h with
      | [], _ => simp_all
      | [_], _ => simp_all
      | p0 :: p1 :: _, h =>
          exact np_bind (h p0 (by simp)) (fun _ => np_bind (h p1 (by simp)) (fun _ => rfl))
  split
  · split
    · rfl
    · match prs, h with
      | [], _ => simp_all
      | [_], _ => simp_all
      | [_, _], _ => simp_all
      | p0 :: p1 :: p2 :: _, h =>
          refine np_bind (h p0 (by simp)) (fun _ => np_bind (h p1 (by simp)) (fun t1 =>
            np_bind (h p2 (by simp)) (fun t2 => ?_)))
          repeat' (first | rfl | split)
  split
  · simp only [Bool.true_and, decide_eq_true_eq]
    by_cases hmin : prs.length < varGoExprMin name
    · simp [hmin]
    · simp only [hmin, if_false]
      apply np_bind (np_goParams prs h)
      intro _
      by_cases hc : (name == "CONCAT" && prs.length == 0) = true
      · -- name == "CONCAT" && n == 0 contradicts the minimum-parameters check
        simp only [Bool.and_eq_true, beq_iff_eq] at hc
        obtain ⟨hn, hz⟩ := hc
        simp [hn, hz, varGoExprMin] at hmin
      · rw [if_neg hc]
        split <;> rfl
  · rfl

set_option hygiene false in
/-- closes the goals left after unfolding one model function: peel binds, split the control flow,
    discharge recursive calls with the induction hypotheses (size by `omega`, `wf` by `simp`) -/
macro "np_auto" : tactic => `(tactic|
    repeat' (first
      | rfl
      | (apply np_bind)
      | (intro _)
      | (apply np_asOrColName)
      | (apply np_addExpr)
      | (apply np_crosshiftTail)
      | split
      | (apply ihE <;> first | (simp at hs ⊢; omega) | (simp_all [Ex.wf, Args.wf, Arg.wf, Exs.wf, Stmt.wf, Sel.wf, From.wf]; done))
      | (apply ihG <;> first | (simp at hs ⊢; omega) | (simp_all [Ex.wf, Args.wf, Arg.wf, Exs.wf, Stmt.wf, Sel.wf, From.wf]; done))
      | (apply ihP <;> first | (simp at hs ⊢; omega) | (simp_all [Ex.wf, Args.wf, Arg.wf, Exs.wf, Stmt.wf, Sel.wf, From.wf]; done))
      | (apply ihX <;> first | (simp at hs ⊢; omega) | (simp_all [Ex.wf, Args.wf, Arg.wf, Exs.wf, Stmt.wf, Sel.wf, From.wf]; done))
      | (apply ihF <;> first | (simp at hs ⊢; omega) | (simp_all [Ex.wf, Args.wf, Arg.wf, Exs.wf, Stmt.wf, Sel.wf, From.wf]; done))
      | (apply ihB <;> first | (simp at hs ⊢; omega) | (simp_all [Ex.wf, Args.wf, Arg.wf, Exs.wf, Stmt.wf, Sel.wf, From.wf]; done))
      | (apply ihS <;> first | (simp at hs ⊢; omega) | (simp_all [Ex.wf, Args.wf, Arg.wf, Exs.wf, Stmt.wf, Sel.wf, From.wf]; done))
      | (apply ihR <;> first | (simp at hs ⊢; omega) | (simp_all [Ex.wf, Args.wf, Arg.wf, Exs.wf, Stmt.wf, Sel.wf, From.wf]; done))
      | (apply ihT <;> first | (simp at hs ⊢; omega) | (simp_all [Ex.wf, Args.wf, Arg.wf, Exs.wf, Stmt.wf, Sel.wf, From.wf]; done))
      | (dsimp only)
      | (simp_all [Ex.wf, Args.wf, Arg.wf, Exs.wf, Stmt.wf, Sel.wf, From.wf, Args.length]; done)))

/-- the statement proved by induction on the size bound `n` -/
structure NoPanicUpTo (n : Nat) : Prop where
  E : ∀ c e d, sizeOf e ≤ n → e.wf = true → (exprFor Cfg.fixed c e d).pan = false
  G : ∀ e, sizeOf e ≤ n → e.wf = true → (goExprFor Cfg.fixed e).pan = false
  A : ∀ args, sizeOf args ≤ n → args.wf = true → ∀ r ∈ argResults Cfg.fixed args, r.pan = false
  P : ∀ a, sizeOf a ≤ n → a.wf = true → (paramGoExpr Cfg.fixed a).pan = false
  X : ∀ xs, sizeOf xs ≤ n → xs.wf = true → (goExs Cfg.fixed xs).pan = false
  F : ∀ c exprs, sizeOf exprs ≤ n → exprs.wf = true → (fieldsGet Cfg.fixed c exprs).pan = false
  B : ∀ ct gb, sizeOf gb ≤ n → gb.wf = true → (applyGroupBy Cfg.fixed ct gb).pan = false
  S : ∀ s, sizeOf s ≤ n → s.wf = true → (parseSel Cfg.fixed s).pan = false
  R : ∀ f, sizeOf f ≤ n → f.wf = true → (applyFrom Cfg.fixed f).pan = false
  T : ∀ s, sizeOf s ≤ n → s.wf = true → (parseStmt Cfg.fixed s).pan = false

theorem noPanic_zero : NoPanicUpTo 0 where
  E := fun _ e _ hs _ => by cases e <;> simp at hs <;> omega
  G := fun e hs _ => by cases e <;> simp at hs <;> omega
  A := fun a hs _ => by cases a <;> simp at hs <;> omega
  P := fun a hs _ => by cases a <;> simp at hs <;> omega
  X := fun a hs _ => by cases a <;> simp at hs <;> omega
  F := fun _ a hs _ => by cases a <;> simp at hs <;> omega
  B := fun _ a hs _ => by cases a <;> simp at hs <;> omega
  S := fun a hs _ => by cases a; simp at hs; first | omega | done
  R := fun a hs _ => by cases a <;> simp at hs <;> omega
  T := fun a hs _ => by cases a <;> simp at hs <;> omega

theorem noPanic_succ (n : Nat) (ih : NoPanicUpTo n) : NoPanicUpTo (n + 1) := by
  obtain ⟨ihE, ihG, ihA, ihP, ihX, ihF, ihB, ihS, ihR, ihT⟩ := ih
  refine ⟨?_, ?_, ?_, ?_, ?_, ?_, ?_, ?_, ?_, ?_⟩
  · -- exprFor
    intro c e d hs hw
    cases e <;> (unfold exprFor; np_auto)
  · -- goExprFor
    intro e hs hw
    cases e with
    | func name args =>
        unfold goExprFor
        have hargs : ∀ r ∈ argResults Cfg.fixed args, r.pan = false :=
          ihA args (by simp at hs; omega) (by simp_all [Ex.wf])
        have h1 := np_goFnExprFor name _ hargs
        have h2 := np_goFnExprFor (String.ofList (name.toList.drop 1)) _ hargs
        have hname : (name == "") = false := by simp_all [Ex.wf]
        simp only
        generalize goFnExprFor Cfg.fixed name _ = r1 at h1
        generalize goFnExprFor Cfg.fixed (String.ofList (name.toList.drop 1)) _ = r2 at h2
        split
        · exact h1
        · simp only [hname, Bool.false_eq_true, if_false]
          split
          · simp [h1, h2]
          · exact h1
    | _ => unfold goExprFor; np_auto
  · -- argResults
    intro args hs hw
    cases args with
    | nil => intro r hr; simp [argResults] at hr
    | cons a rest =>
        intro r hr
        simp only [argResults, List.mem_cons] at hr
        rcases hr with rfl | hr
        · exact ihP a (by simp at hs; omega) (by simp_all [Args.wf])
        · exact ihA rest (by simp at hs; omega) (by simp_all [Args.wf]) r hr
  · -- paramGoExpr
    intro a hs hw
    cases a <;> (unfold paramGoExpr; np_auto)
  · -- goExs
    intro xs hs hw
    cases xs <;> (unfold goExs; np_auto)
  · -- fieldsGet
    intro c exprs hs hw
    unfold fieldsGet
    np_auto
  · -- applyGroupBy
    intro ct gb hs hw
    unfold applyGroupBy
    np_auto
  · -- parseSel
    intro s hs hw
    cases s
    unfold parseSel
    np_auto
  · -- applyFrom
    intro f hs hw
    cases f <;> (unfold applyFrom; np_auto)
  · -- parseStmt
    intro s hs hw
    cases s <;> (unfold parseStmt; np_auto)

theorem noPanic_all : ∀ n, NoPanicUpTo n
  | 0 => noPanic_zero
  | n + 1 => noPanic_succ n (noPanic_all n)

/-- `TableFor` -/
theorem np_tableFor (s : Stmt) (h : s.wf = true) : (tableFor Cfg.fixed s).pan = false := by
  unfold tableFor
  repeat' (first | rfl | split | (simp_all [Stmt.wf, Sel.wf, From.wf]; done))

end Zeno.Sql

namespace Zeno.Sql

/-! ## The WHERE expression evaluates to a bool -/

/-- every value a result can carry is `GoTy.bool` -/
structure OnlyBool (r : Res GoTy) : Prop where
  h : ∀ t, r.val = some t → t = GoTy.bool

theorem onlyBool_ok : OnlyBool (Res.ok GoTy.bool) := ⟨by
  intro t h; simp [Res.ok] at h; exact h.symm⟩

theorem onlyBool_error : OnlyBool Res.error := ⟨by
  intro t h; simp [Res.error] at h⟩

theorem onlyBool_bind {α} {a : Res α} {f : α → Res GoTy} (h : ∀ v, OnlyBool (f v)) :
    OnlyBool (a.bind f) := ⟨by
  intro t ht
  unfold Res.bind at ht
  split at ht
  · simp at ht
  · rename_i v _
    exact (h v).h t ht⟩

/-- `goExprFor` of an expression of a kind the grammar allows as a boolean expression returns,
    when it returns at all, an expression whose `Eval` yields a `bool`
    (goexpr.Boolean / Binary / Not / In); so `query.Where.Eval(key).(bool)` cannot fail. -/
theorem goExprFor_bool : ∀ (e : Ex), e.isBoolKind = true → OnlyBool (goExprFor Cfg.fixed e)
  | .paren e, h => by
      unfold goExprFor
      exact goExprFor_bool e (by simpa [Ex.isBoolKind] using h)
  | .and _ _, _ => by
      unfold goExprFor
      repeat' (first | exact onlyBool_ok | exact onlyBool_error | (apply onlyBool_bind) | (intro _) | split)
  | .or _ _, _ => by
      unfold goExprFor
      repeat' (first | exact onlyBool_ok | exact onlyBool_error | (apply onlyBool_bind) | (intro _) | split)
  | .not _, _ => by
      unfold goExprFor
      repeat' (first | exact onlyBool_ok | exact onlyBool_error | (apply onlyBool_bind) | (intro _) | split)
  | .cmp _ _ _, _ => by
      unfold goExprFor
      repeat' (first | exact onlyBool_ok | exact onlyBool_error | (apply onlyBool_bind) | (intro _) | split)
  | .nullCheck _, _ => by
      unfold goExprFor
      repeat' (first | exact onlyBool_ok | exact onlyBool_error | (apply onlyBool_bind) | (intro _) | split)
  | .other, _ => by
      unfold goExprFor
      exact onlyBool_error
  | .col _, h => by simp [Ex.isBoolKind] at h
  | .num _ _, h => by simp [Ex.isBoolKind] at h
  | .str, h => by simp [Ex.isBoolKind] at h
  | .func _ _, h => by simp [Ex.isBoolKind] at h
  | .bin _ _ _, h => by simp [Ex.isBoolKind] at h
  | .tuple _, h => by simp [Ex.isBoolKind] at h
  | .subq _, h => by simp [Ex.isBoolKind] at h

/-! ## Insert pipeline -/

namespace Ins

/-- two pipeline states hold the same table content (they may differ in the WAL offset) -/
def SameTable (s t : St) : Prop := s.rows = t.rows ∧ s.dead = t.dead

theorem step_sameTable (cfg : ICfg) (p : Payload) {s t : St} (h : SameTable s t) :
    SameTable (step cfg s p) (step cfg t p) := by
  obtain ⟨hr, hd⟩ := h
  unfold step
  split
  · unfold apply
    rw [hd]
    split
    · exact ⟨hr, hd⟩
    · split <;> simp [SameTable, hr]
  · exact ⟨hr, hd⟩

theorem run_sameTable (cfg : ICfg) : ∀ (ps : List Payload) {s t : St}, SameTable s t →
    SameTable (run cfg s ps) (run cfg t ps)
  | [], _, _, h => h
  | p :: ps, _, _, h => by
      simp only [run, List.foldl_cons]
      exact run_sameTable cfg ps (step_sameTable cfg p h)

theorem run_append (cfg : ICfg) (s : St) (ps qs : List Payload) :
    run cfg s (ps ++ qs) = run cfg (run cfg s ps) qs := by
  simp [run, List.foldl_append]

theorem run_cons (cfg : ICfg) (s : St) (p : Payload) (ps : List Payload) :
    run cfg s (p :: ps) = run cfg (step cfg s p) ps := rfl

theorem tableInsert_no_crash (cfg : ICfg) (hr : cfg.recover = true) (p : Payload) :
    tableInsert cfg p ≠ Fate.crash := by
  unfold tableInsert
  split
  · simp
  · split
    · simp
    · simp_all

/-- with `recover` in `table.insert` the pipeline goroutine never dies -/
theorem step_alive (cfg : ICfg) (hr : cfg.recover = true) (s : St) (p : Payload) (hs : s.dead = false) :
    (step cfg s p).dead = false := by
  unfold step
  split
  · unfold apply
    simp only [hs]
    have hc := tableInsert_no_crash cfg hr p
    split
    · exact hs
    · split
      · rfl
      · rfl
      · rename_i h; exact absurd h hc
  · exact hs

theorem run_alive (cfg : ICfg) (hr : cfg.recover = true) : ∀ (ps : List Payload) (s : St),
    s.dead = false → (run cfg s ps).dead = false
  | [], _, h => h
  | p :: ps, s, h => by
      rw [run_cons]
      exact run_alive cfg hr ps _ (step_alive cfg hr s p h)

end Ins
end Zeno.Sql

/-! ## CROSSHIFT: the number of fields is bounded by the cap -/

namespace Zeno.Sql.Cross

theorem ceil_div_le {l v c : Nat} (hv : 0 < v) (h : l / v ≤ c) : (l + v - 1) / v ≤ c + 1 := by
  have h1 : l < v * (l / v + 1) := Nat.lt_mul_div_succ l hv
  have h2 : v * (l / v + 1) ≤ v * (c + 1) := Nat.mul_le_mul_left v (by omega)
  have h4 : v * (c + 2) = v * (c + 1) + v := by rw [show c + 2 = (c + 1) + 1 from rfl, Nat.mul_succ]
  have h3 : l + v - 1 < v * (c + 2) := by omega
  exact Nat.lt_succ_iff.mp (Nat.div_lt_of_lt_mul h3)

/-- the loop after both values were made positive and the cap was checked -/
theorem loop_bounded (g : Bool) (cap : Int) (s : St) (hl : 0 < s.limit) (hv : 0 < s.interval)
    (hcap : ¬ cap < s.limit.tdiv s.interval) (hg : g = true) :
    ∃ n, loopOut g s = .fields n ∧ (n : Int) ≤ cap + 1 := by
  subst hg
  unfold loopOut
  simp only [show ¬ s.limit ≤ 0 by omega, show ¬ s.interval ≤ 0 by omega, if_false, Bool.not_true, Bool.false_and]
  refine ⟨_, rfl, ?_⟩
  obtain ⟨l, hl'⟩ := Int.eq_ofNat_of_zero_le (Int.le_of_lt hl)
  obtain ⟨v, hv'⟩ := Int.eq_ofNat_of_zero_le (Int.le_of_lt hv)
  rw [hl', hv'] at hcap ⊢
  simp only [Int.toNat_natCast]
  have hvpos : 0 < v := by omega
  rw [Int.tdiv_eq_ediv_of_nonneg (by omega)] at hcap
  have hq : ((l / v : Nat) : Int) ≤ cap := by
    have : ((l : Int) / (v : Int)) = ((l / v : Nat) : Int) := by simp
    omega
  have hc0 : 0 ≤ cap := by
    have : (0 : Int) ≤ ((l / v : Nat) : Int) := Int.natCast_nonneg _
    omega
  obtain ⟨c, hc⟩ := Int.eq_ofNat_of_zero_le hc0
  rw [hc] at hq ⊢
  have := ceil_div_le (l := l) (v := v) (c := c) hvpos (by exact_mod_cast hq)
  exact_mod_cast this

theorem canonical_bounded (cap cutoff interval : Int) :
    crosshift cap canonical cutoff interval = .error ∨
    ∃ n, crosshift cap canonical cutoff interval = .fields n ∧ (n : Int) ≤ cap + 1 := by
  unfold crosshift canonical
  simp only [run]
  by_cases hc : cutoff = 0
  · simp [hc]
  by_cases hi : interval = 0
  · simp [hc, hi]
  simp only [hc, hi, if_false]
  -- the state after `interval = |interval|`, `limit = |cutoff|`
  generalize hs : (if (if interval < 0 then ({ cutoff := cutoff, interval := -interval } : St) else { cutoff := cutoff, interval := interval }).cutoff < 0 then _ else _ : St) = s
  have hint : 0 < s.interval := by
    subst hs; split <;> split <;> simp_all <;> omega
  have hlim : 0 < s.limit := by
    subst hs; split <;> split <;> simp_all <;> omega
  simp only [show ¬ s.interval = 0 by omega, if_false]
  by_cases hcap : cap < s.limit.tdiv s.interval
  · simp [hcap]
  · simp only [hcap, if_false]
    exact Or.inr (loop_bounded true cap s hlim hint hcap rfl)

/-- the statement order without the loop's overflow guard (the code before C16-fix-16) -/
def unguarded : List Op :=
  [.parseCutoff, .zeroCutoff, .parseInterval, .zeroInterval, .absInterval, .limitIsCutoff, .absLimit, .cap, .loop]

theorem unguarded_bounded (cap cutoff interval : Int) (hsum : cutoff.natAbs + interval.natAbs ≤ maxDur.toNat) :
    crosshift cap unguarded cutoff interval = .error ∨
    ∃ n, crosshift cap unguarded cutoff interval = .fields n ∧ (n : Int) ≤ cap + 1 := by
  unfold crosshift unguarded
  simp only [run]
  by_cases hc : cutoff = 0
  · simp [hc]
  by_cases hi : interval = 0
  · simp [hc, hi]
  simp only [hc, hi, if_false]
  generalize hs : (if (if interval < 0 then ({ cutoff := cutoff, interval := -interval } : St) else { cutoff := cutoff, interval := interval }).cutoff < 0 then _ else _ : St) = s
  have hint : 0 < s.interval ∧ s.interval.toNat = interval.natAbs := by
    subst hs; split <;> split <;> simp_all <;> omega
  have hlim : 0 < s.limit ∧ s.limit.toNat = cutoff.natAbs := by
    subst hs; split <;> split <;> simp_all <;> omega
  simp only [show ¬ s.interval = 0 by omega, if_false]
  by_cases hcap : cap < s.limit.tdiv s.interval
  · simp [hcap]
  · simp only [hcap, if_false]
    right
    obtain ⟨n, hn, hle⟩ := loop_bounded true cap s hlim.1 hint.1 hcap rfl
    refine ⟨n, ?_, hle⟩
    -- the unguarded loop does the same unless its last addition overflows, which the precondition excludes
    unfold loopOut at hn ⊢
    simp only [show ¬ s.limit ≤ 0 by omega, show ¬ s.interval ≤ 0 by omega, if_false, Bool.not_true, Bool.false_and,
      Bool.not_false, Bool.true_and] at hn ⊢
    have hmul : (s.limit.toNat + s.interval.toNat - 1) / s.interval.toNat * s.interval.toNat ≤ s.limit.toNat + s.interval.toNat - 1 :=
      Nat.div_mul_le_self _ _
    have hno : ¬ maxDur < (((s.limit.toNat + s.interval.toNat - 1) / s.interval.toNat * s.interval.toNat : Nat) : Int) := by
      have : maxDur.toNat = 9223372036854775807 := by decide
      have hmd : maxDur = 9223372036854775807 := rfl
      rw [hlim.2, hint.2] at hmul ⊢
      omega
    simp only [hno, decide_false]
    simpa using hn

/-- the dispatch model's CROSSHIFT branch returns (ok-or-error) exactly when the statement-order
    program yields fields, and an error exactly when that one does -/
theorem crosshiftTail_agrees (c : Ctx) (v : VKind) (as : String) (l1 l2 : Lit)
    (h1 : l1.durOk = true) (h2 : l2.durOk = true) :
    ((crosshiftTail Cfg.fixed c v as l1 l2).val.isSome = true ↔
      ∃ n, crosshift maxCrosshiftFields canonical l1.durNs l2.durNs = .fields n) := by
  unfold crosshiftTail crosshift canonical
  simp only [run, h1, h2, Bool.not_true, Bool.false_eq_true, if_false, Cfg.fixed, Bool.true_and]
  by_cases hc : l1.durNs = 0
  · simp [hc, Res.error]
  by_cases hi : l2.durNs = 0
  · simp [hc, hi, Res.error]
  simp only [beq_iff_eq, hc, hi, if_false]
  generalize hs : (if (if l2.durNs < 0 then ({ cutoff := l1.durNs, interval := -l2.durNs } : St) else { cutoff := l1.durNs, interval := l2.durNs }).cutoff < 0 then _ else _ : St) = s
  have hint : 0 < s.interval ∧ s.interval.toNat = l2.durNs.natAbs := by
    subst hs; split <;> split <;> simp_all <;> omega
  have hlim : 0 < s.limit ∧ s.limit.toNat = l1.durNs.natAbs := by
    subst hs; split <;> split <;> simp_all <;> omega
  have hint' : s.interval = (l2.durNs.natAbs : Int) := by omega
  have hlim' : s.limit = (l1.durNs.natAbs : Int) := by omega
  simp only [show ¬ s.interval = 0 by omega, if_false]
  have hdiv : s.limit.tdiv s.interval = (l1.durNs.natAbs : Int) / (l2.durNs.natAbs : Int) := by
    rw [hlim', hint', Int.tdiv_eq_ediv_of_nonneg (by omega)]
  rw [hdiv]
  simp only [Int.natCast_ediv]
  by_cases hcap : maxCrosshiftFields < (l1.durNs.natAbs : Int) / (l2.durNs.natAbs : Int)
  · simp [hcap, Res.error]
  · simp only [hcap, decide_false, if_false, Bool.false_eq_true]
    constructor
    · intro _
      unfold loopOut
      simp only [show ¬ s.limit ≤ 0 by omega, show ¬ s.interval ≤ 0 by omega, if_false, Bool.not_true, Bool.false_and, Bool.false_eq_true]
      exact ⟨_, rfl⟩
    · intro _
      cases v <;> simp [exprCtor, Res.bind, Res.ok, Res.either]

end Zeno.Sql.Cross
