/-
Derived selected expressions, part 12 (stage 2): one output column, one scan row — `colStep`
(every scanned column that has a sub-merger is sub-merged in) is the successive DIRECT `SubMerge`
of the scanned columns mapped into the state space of the selected expression.
-/
import ZenoModel.Lemmas.DerivedRow2
import ZenoModel.Lemmas.DerivedSub3
import ZenoModel.Lemmas.SubMergeSemGroup3
set_option linter.unusedSimpArgs false
set_option linter.unusedVariables false
namespace Zeno

/-- the state of `e` with column `j`'s state `o` in the slots that resolve to column `j` -/
def colImage (e : Ex) (subs : List Ex) (j : Nat) (p : Pt) (o : List Cell) : List Cell :=
  e.assemble subs p (singleCol subs j o)

theorem colImage_wf (e : Ex) {subs : List Ex} {j : Nat} {cj : Ex} (hj : subs[j]? = some cj) (p : Pt)
    {o : List Cell} (ho : WF cj o) : WF e (colImage e subs j p o) :=
  assemble_wf subs p _ (singleCol_wf subs j cj hj o ho) e

theorem assemble_empties (subs : List Ex) (p : Pt) :
    ∀ e : Ex, e.assemble subs p (fun i => (subs.getD i (.const 0)).empty) = e.empty := by
  have node : ∀ (n : Ex) (X : List Cell), X = n.empty →
      (match n.matchIdx subs with | some i => (subs.getD i (.const 0)).empty | none => X) = n.empty := by
    intro n X hX
    cases hm : n.matchIdx subs with
    | none => exact hX
    | some i =>
      obtain ⟨s, hs, hms, _⟩ := matchIdx_some hm
      simp only [List.getD_eq_getElem?_getD, hs, Option.getD_some]
      exact (sameStr_empty hms).symm
  intro e
  induction e with
  | field n => rfl
  | const v => rfl
  | agg k w _ => simp only [Ex.assemble]; exact node _ _ rfl
  | avg v w _ _ => simp only [Ex.assemble]; exact node _ _ rfl
  | bin op l r ihl ihr => simp only [Ex.assemble]; exact node _ _ (by rw [ihl, ihr]; rfl)
  | ifE c w ih => simp only [Ex.assemble]; exact node _ _ (by rw [ih]; simp [Ex.empty])
  | bounded w lo hi ih => simp only [Ex.assemble]; exact node _ _ (by rw [ih]; rfl)
  | unary f w ih => simp only [Ex.assemble]; exact node _ _ (by rw [ih]; rfl)
  | shift w off _ => rfl
  | ptile id v pe n _ _ => rfl

theorem colImage_empty (e : Ex) {subs : List Ex} {j : Nat} {cj : Ex} (hj : subs[j]? = some cj) (p : Pt) :
    colImage e subs j p cj.empty = e.empty := by
  unfold colImage
  have : singleCol subs j cj.empty = fun i => (subs.getD i (.const 0)).empty := by
    funext i
    unfold singleCol
    by_cases h : i = j
    · subst h; rw [if_pos rfl, List.getD_eq_getElem?_getD, hj]; rfl
    · rw [if_neg h]
  rw [this, assemble_empties]

/-- the closure of column `j` acts as "merge the column image" -/
theorem colSM_actsAs {e : Ex} (hv : e.valid = true) (hp : e.noPtile = true) (hs : e.shiftFree = true)
    {subs : List Ex} {j : Nat} {cj : Ex} (hj : subs[j]? = some cj) {sm : SM} (hsm : colSM e subs j = some sm)
    (otherRes : Int) (p : Pt) : ActsAs e cj sm (colImage e subs j p) otherRes p := by
  intro d o os hd ho
  have := sem_apply_lem hv hp hs subs j cj hj p d o [] os otherRes hd ho
  simpa only [hsm, applyOpt, List.append_nil, colImage] using this

/-- a column without closure has the empty image -/
theorem colImage_none {e : Ex} (hv : e.valid = true) (hp : e.noPtile = true) (hs : e.shiftFree = true)
    {subs : List Ex} {j : Nat} {cj : Ex} (hj : subs[j]? = some cj) (hsm : colSM e subs j = none)
    (p : Pt) {o : List Cell} (ho : WF cj o) : colImage e subs j p o = e.empty := by
  have := sem_apply_lem hv hp hs subs j cj hj p e.empty o [] [] 1 (wf_empty e) ho
  simp only [hsm, applyOpt, List.append_nil] at this
  have hw := colImage_wf e hj p ho
  unfold colImage at hw ⊢
  rw [mrg_empty_left hv hp hw] at this
  exact this.symm

theorem shiftFree_shiftOf : ∀ {e : Ex}, e.shiftFree = true → e.shiftOf = 0 := by
  intro e
  induction e with
  | field n => intro _; rfl
  | const v => intro _; rfl
  | agg k w ih => intro h; exact ih (by simpa [Ex.shiftFree] using h)
  | avg v w ihv ihw =>
    intro h; simp only [Ex.shiftFree, Bool.and_eq_true] at h
    simp only [Ex.shiftOf, ihv h.1, ihw h.2]; rfl
  | bin op l r ihl ihr =>
    intro h; simp only [Ex.shiftFree, Bool.and_eq_true] at h
    simp only [Ex.shiftOf, ihl h.1, ihr h.2]; rfl
  | ifE c w ih => intro h; exact ih (by simpa [Ex.shiftFree] using h)
  | bounded w lo hi ih => intro h; exact ih (by simpa [Ex.shiftFree] using h)
  | shift w off _ => intro h; simp [Ex.shiftFree] at h
  | unary f w ih => intro h; exact ih (by simpa [Ex.shiftFree] using h)
  | ptile id v pe n ihv ihp =>
    intro h; simp only [Ex.shiftFree, Bool.and_eq_true] at h
    simp only [Ex.shiftOf, ihv h.1, ihp h.2]; rfl

/-- column `j` of a scan row as a source of the selected expression `e` (none: no closure) -/
def colSrc (e : Ex) (subs : List Ex) (p : Pt) (rcols : List Sq) (j : Nat) : Option Src :=
  (colSM e subs j).map (fun _ => (mapSq (colImage e subs j p) (rcols.getD j none), p))

/-- the sources one scan row contributes to the output column of `e` -/
def rowSrcs (e : Ex) (subs : List Ex) (p : Pt) (rcols : List Sq) : List Src :=
  (List.range subs.length).filterMap (colSrc e subs p rcols)

end Zeno
