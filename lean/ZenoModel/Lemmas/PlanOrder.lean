/-
C11 helper lemmas about ORDER BY / LIMIT applied to two row lists that are permutations of
each other: where the order is total on the rows the results coincide.
-/
import ZenoModel.Lemmas.PlanRegroup
import ZenoModel.Props.C09

namespace Zeno.PlanLemmas
open Zeno Zeno.Plan Zeno.SortLemmas

/-- ORDER BY decides: `lt` is a strict total order on the rows of `l` -/
structure StrictTotalOn (lt : FlatRow → FlatRow → Bool) (l : List FlatRow) : Prop where
  irrefl : ∀ a ∈ l, lt a a = false
  trans : ∀ a ∈ l, ∀ b ∈ l, ∀ c ∈ l, lt a b = true → lt b c = true → lt a c = true
  total : ∀ a ∈ l, ∀ b ∈ l, a ≠ b → lt a b = true ∨ lt b a = true

theorem StrictTotalOn.asymm {lt : FlatRow → FlatRow → Bool} {l : List FlatRow}
    (h : StrictTotalOn lt l) {a b : FlatRow} (ha : a ∈ l) (hb : b ∈ l) (hab : lt a b = true) :
    lt b a = false := by
  cases hba : lt b a with
  | false => rfl
  | true =>
    have := h.trans a ha b hb a ha hab hba
    rw [h.irrefl a ha] at this
    cases this

theorem StrictTotalOn.weak {lt : FlatRow → FlatRow → Bool} {l : List FlatRow}
    (h : StrictTotalOn lt l) : WeakOn lt (· ∈ l) where
  asymm := fun a b ha hb hab => h.asymm ha hb hab
  negTrans := by
    intro a b c ha hb hc hab hbc
    by_cases e1 : a = b
    · subst e1; exact hbc
    · by_cases e2 : b = c
      · subst e2; exact hab
      · have h1 : lt b a = true := by
          rcases h.total a ha b hb e1 with h' | h'
          · rw [hab] at h'; cases h'
          · exact h'
        have h2 : lt c b = true := by
          rcases h.total b hb c hc e2 with h' | h'
          · rw [hbc] at h'; cases h'
          · exact h'
        exact h.asymm hc ha (h.trans c hc b hb a ha h2 h1)

theorem StrictTotalOn.perm {lt : FlatRow → FlatRow → Bool} {l₁ l₂ : List FlatRow}
    (h : StrictTotalOn lt l₁) (p : l₁.Perm l₂) : StrictTotalOn lt l₂ where
  irrefl := fun a ha => h.irrefl a (p.mem_iff.mpr ha)
  trans := fun a ha b hb c hc => h.trans a (p.mem_iff.mpr ha) b (p.mem_iff.mpr hb) c (p.mem_iff.mpr hc)
  total := fun a ha b hb => h.total a (p.mem_iff.mpr ha) b (p.mem_iff.mpr hb)

/-- under a strict total order the sorted permutation is unique -/
theorem isortBy_eq_of_perm {lt : FlatRow → FlatRow → Bool} {l₁ l₂ : List FlatRow}
    (h : StrictTotalOn lt l₁) (p : l₁.Perm l₂) : isortBy lt l₁ = isortBy lt l₂ := by
  have s1 : SortedBy lt (isortBy lt l₁) := isortBy_sorted h.weak l₁ (fun _ hx => hx)
  have s2 : SortedBy lt (isortBy lt l₂) := isortBy_sorted (h.perm p).weak l₂ (fun _ hx => hx)
  have pp : (isortBy lt l₁).Perm (isortBy lt l₂) :=
    (isortBy_perm lt l₁).trans (p.trans (isortBy_perm lt l₂).symm)
  refine List.Perm.eq_of_pairwise ?_ s1 s2 pp
  intro a b ha hb hab hba
  have ha' : a ∈ l₁ := (isortBy_perm lt l₁).mem_iff.mp ha
  have hb' : b ∈ l₁ := p.mem_iff.mpr ((isortBy_perm lt l₂).mem_iff.mp hb)
  by_cases e : a = b
  · exact e
  · rcases h.total a ha' b hb' e with h' | h'
    · rw [hba] at h'; cases h'
    · rw [hab] at h'; cases h'

/-- ORDER BY / LIMIT over two permutations of the same rows: equal when ORDER BY decides -/
theorem olo_eq_of_perm (o : OLO) {l₁ l₂ : List FlatRow} (p : l₁.Perm l₂)
    (hne : o.orderBy ≠ []) (h : StrictTotalOn (less o.orderBy) l₁) : olo o l₁ = olo o l₂ := by
  have hl : o.orderBy.length > 0 := List.length_pos_iff.mpr hne
  simp only [olo, addOrderLimitOffset, hl, if_true, isort]
  rw [isortBy_eq_of_perm h p]

/-- without ORDER BY and LIMIT the rows are passed through -/
theorem olo_perm_of_unordered (o : OLO) {l₁ l₂ : List FlatRow} (p : l₁.Perm l₂)
    (h : emptyOlo o) : (olo o l₁).Perm (olo o l₂) := by
  rw [olo_empty h, olo_empty h]
  exact p

/-- in every case the number of rows is the same -/
theorem olo_length_of_perm (o : OLO) {l₁ l₂ : List FlatRow} (p : l₁.Perm l₂) :
    (olo o l₁).length = (olo o l₂).length := by
  have hs : ∀ l : List FlatRow,
      (if o.orderBy.length > 0 then isort o.orderBy l else l).length = l.length := by
    intro l
    split
    · exact (isortBy_perm _ l).length_eq
    · rfl
  simp only [olo, addOrderLimitOffset, Zeno.C09.limit_offset_slice, Zeno.SortSpec.slice]
  split <;> simp [List.length_drop, List.length_take, hs, p.length_eq]

end Zeno.PlanLemmas

namespace Zeno.PlanLemmas
open Zeno Zeno.Plan

/-- `sort.Strings` over the distinct crosstab values: the result only depends on the set -/
theorem strSort_eq_of_mem (l₁ l₂ : List String) (n₁ : l₁.Nodup) (n₂ : l₂.Nodup)
    (h : ∀ a, a ∈ l₁ ↔ a ∈ l₂) :
    l₁.mergeSort (fun a b => decide (a ≤ b)) = l₂.mergeSort (fun a b => decide (a ≤ b)) := by
  have tr : ∀ a b c : String, decide (a ≤ b) = true → decide (b ≤ c) = true → decide (a ≤ c) = true := by
    intro a b c h1 h2
    simp only [decide_eq_true_eq] at *
    exact String.le_trans h1 h2
  have tot : ∀ a b : String, (decide (a ≤ b) || decide (b ≤ a)) = true := by
    intro a b
    rcases String.le_total a b with h' | h' <;> simp [h']
  have s1 := List.pairwise_mergeSort tr tot l₁
  have s2 := List.pairwise_mergeSort tr tot l₂
  have p : (l₁.mergeSort (fun a b => decide (a ≤ b))).Perm (l₂.mergeSort (fun a b => decide (a ≤ b))) :=
    (List.mergeSort_perm l₁ _).trans
      (((List.perm_ext_iff_of_nodup n₁ n₂).mpr h).trans (List.mergeSort_perm l₂ _).symm)
  refine List.Perm.eq_of_pairwise ?_ s1 s2 p
  intro a b _ _ hab hba
  simp only [decide_eq_true_eq] at hab hba
  exact String.le_antisymm hab hba

/-- ORDER BY without LIMIT/OFFSET returns a permutation of its input -/
theorem olo_nolimit_perm (o : OLO) (h1 : o.limit = 0) (h2 : o.offset = 0) (l : List FlatRow) :
    (olo o l).Perm l := by
  simp only [olo, addOrderLimitOffset, limitOffset, h1, h2, Nat.lt_irrefl, if_false,
    Zeno.SortLemmas.flatIterate_collect, List.nil_append]
  split
  · exact Zeno.SortLemmas.isortBy_perm _ l
  · exact List.Perm.refl _

end Zeno.PlanLemmas
