/-
The loop of Sequence.SubMerge: each source period is merged into exactly one result period.
-/
import ZenoModel.Lemmas.Regroup
import ZenoModel.Lemmas.SeqUpdate
import ZenoModel.Model.SubMerge
set_option linter.unusedSimpArgs false
namespace Zeno

/-- what the loop of `Sequence.SubMerge` does to result period `q`, read off the source periods
    one by one: source period `po` is merged in iff `⌊(po + off)/scale⌋ = q` -/
def loopSpec (sm : SM) (otherRes : Int) (p : Pt) (scale off : Int) (q : Nat) :
    Nat → List (List Cell) → List Cell → List Cell
  | _, [], acc => acc
  | po, o :: os, acc =>
      let acc' := if ((po : Int) + off) / scale = (q : Int) then sm.apply acc (o :: os) otherRes p else acc
      loopSpec sm otherRes p scale off q (po + 1) os acc'

theorem loopSpec_skip (sm : SM) (otherRes : Int) (p : Pt) {scale off : Int} (hs : 0 < scale) (q : Nat) :
    ∀ (os : List (List Cell)) (po : Nat) (acc : List Cell), (q : Int) < ((po : Int) + off) / scale →
      loopSpec sm otherRes p scale off q po os acc = acc := by
  intro os
  induction os with
  | nil => intro po acc _; rfl
  | cons o os ih =>
    intro po acc hlt
    simp only [loopSpec]
    have hne : ¬ ((po : Int) + off) / scale = (q : Int) := by omega
    rw [if_neg hne]
    apply ih
    have hmono : ((po : Int) + off) / scale ≤ (((po + 1 : Nat) : Int) + off) / scale :=
      Int.ediv_le_ediv hs (by omega)
    omega

/-- THE LOOP: for every result period `q`, the loop leaves in it the state obtained by merging
    in, in source order, exactly the source periods `po` with `⌊(po + off)/scale⌋ = q` — each
    once — and nothing else (no stride; offsets non-negative). -/
theorem subMergeLoop_spec (e : Ex) (sm : SM) (otherRes : Int) (p : Pt) {scale off : Int} (hs : 0 < scale)
    (strideSlice ssp : Int) (hstride : strideSlice ≤ 0) (n : Nat) :
    ∀ (os : List (List Cell)) (po : Nat) (result : List (List Cell)) (q : Nat),
      0 ≤ (po : Int) + off → result.length = n → q < n →
      (subMergeLoop sm otherRes p scale off strideSlice ssp n po os result).getD q e.empty =
        loopSpec sm otherRes p scale off q po os (result.getD q e.empty) := by
  intro os
  induction os with
  | nil => intro po result q _ _ _; rfl
  | cons o os ih =>
    intro po result q hnn hlen hq
    simp only [subMergeLoop, loopSpec]
    have hidx0 : 0 ≤ ((po : Int) + off) / scale := Int.ediv_nonneg hnn (Int.le_of_lt hs)
    by_cases hbreak : ((po : Int) + off) / scale ≥ (n : Int)
    · rw [if_pos hbreak]
      have hne : ¬ ((po : Int) + off) / scale = (q : Int) := by omega
      rw [if_neg hne]
      have hmono : ((po : Int) + off) / scale ≤ (((po + 1 : Nat) : Int) + off) / scale :=
        Int.ediv_le_ediv hs (by omega)
      exact (loopSpec_skip sm otherRes p hs q os (po + 1) _ (by omega)).symm
    · rw [if_neg hbreak]
      simp only [hstride, true_or, if_true]
      rw [if_neg (by omega)]
      have hlen' : (result.modify (((po : Int) + off) / scale).toNat
          (fun d => sm.apply d (o :: os) otherRes p)).length = n := by
        simp [hlen]
      rw [ih (po + 1) _ q (by omega) hlen' hq, getD_modify']
      by_cases hq' : ((po : Int) + off) / scale = (q : Int)
      · have : q = (((po : Int) + off) / scale).toNat := by omega
        rw [if_pos hq', if_pos ⟨this, by omega⟩, ← this]
      · have : ¬ (q = (((po : Int) + off) / scale).toNat ∧ (((po : Int) + off) / scale).toNat < result.length) := by
          intro hh; omega
        rw [if_neg hq', if_neg this]

end Zeno
