/-
End-to-end, stage 2, part 5: the rows `specQuery` returns (`specOut`), bucket by bucket.
-/
import ZenoModel.Lemmas.SubMergeSemSpec2
set_option linter.unusedSimpArgs false
set_option linter.unusedVariables false
namespace Zeno

/-- the row `specOut` builds for the bucket `(k, T)` (none when no non-constant expression has a value) -/
def specAt (x : Ext) (q : Query) (metas : List KeyMeta) (A : List AccRow) (lo hi P : Int) (k : Key) (T : Int) :
    Option QRow :=
  let pts := specBucketPts q A (specAdj metas) lo hi P k T
  let vs := q.outFields.map (fun f => (f.ex.val x (f.ex.acc x pts), f.ex.isConstant))
  if vs.any (fun (v, c) => v.isSome && !c) then
    some ({ ts := T, key := k, vals := vs.map (fun (v, _) => v.getD 0) } : QRow)
  else none

/-- the buckets `specOut` visits: those of the accepted rows inside the window, each once -/
def specBuckets (q : Query) (A : List AccRow) (lo hi P : Int) : List (Key × Int) :=
  ((A.filter (fun r => lo < r.period ∧ r.period ≤ hi)).map
    (fun r => (gSlice q r.key, hi - ((hi - r.period) / P) * P))).eraseDups

theorem specOut_eq (x : Ext) (cfg : TableCfg) (q : Query) (metas : List KeyMeta) (accepted : List AccRow) (now : Int)
    (pl : Plan) (hh : q.hasHaving = false) :
    specOut x cfg q metas accepted now pl =
      (specBuckets q (specRows q metas accepted) (gAsOfOf cfg now pl) (gUntilOf cfg now pl) (gResOf cfg pl)).filterMap
        (fun kT => specAt x q metas (specRows q metas accepted) (gAsOfOf cfg now pl) (gUntilOf cfg now pl)
          (gResOf cfg pl) kT.1 kT.2) := by
  unfold specOut
  simp only [hh, Bool.false_eq_true, if_false]
  rfl

theorem nodup_eraseDups {α : Type} [BEq α] [LawfulBEq α] : ∀ (n : Nat) (l : List α), l.length ≤ n → l.eraseDups.Nodup := by
  intro n
  induction n with
  | zero =>
    intro l hl
    have : l = [] := List.length_eq_zero_iff.mp (by omega)
    rw [this]; exact List.nodup_nil
  | succ n ih =>
    intro l hl
    cases l with
    | nil => exact List.nodup_nil
    | cons a as =>
      rw [List.eraseDups_cons, List.nodup_cons]
      refine ⟨?_, ih _ ?_⟩
      · intro hm
        have := (List.mem_filter.mp (List.mem_eraseDups.mp hm)).2
        simp at this
      · have := List.length_filter_le (fun b => !b == a) as
        simp only [List.length_cons] at hl
        omega

theorem mem_specBuckets (q : Query) (A : List AccRow) (lo hi P : Int) (k : Key) (T : Int) :
    (k, T) ∈ specBuckets q A lo hi P ↔
      ∃ a ∈ A, (lo < a.period ∧ a.period ≤ hi) ∧ gSlice q a.key = k ∧ hi - ((hi - a.period) / P) * P = T := by
  unfold specBuckets
  rw [List.mem_eraseDups, List.mem_map]
  constructor
  · intro ⟨a, ha, he⟩
    obtain ⟨ha1, ha2⟩ := List.mem_filter.mp ha
    rw [Prod.mk.injEq] at he
    exact ⟨a, ha1, by simpa using ha2, he.1, he.2⟩
  · intro ⟨a, ha, hw, hk, hT⟩
    exact ⟨a, List.mem_filter.mpr ⟨ha, by simpa using hw⟩, by rw [hk, hT]⟩

/-- a visited bucket lies inside the window, on the out grid anchored at `hi` -/
theorem specBuckets_window {q : Query} {A : List AccRow} {lo hi P : Int} (hP : 0 < P) {k : Key} {T : Int}
    (h : (k, T) ∈ specBuckets q A lo hi P) : (lo < T ∧ T ≤ hi) ∧ (hi - T) % P = 0 := by
  obtain ⟨a, _, hw, _, hT⟩ := (mem_specBuckets q A lo hi P k T).mp h
  obtain ⟨o1, o2, o3⟩ := outPeriod_spec (hi := hi) (P := P) (t := a.period) hP
  have hT' : outPeriod hi P a.period = T := hT
  rw [hT'] at o1 o2 o3
  have hnn : 0 ≤ (hi - a.period) / P := Int.ediv_nonneg (by omega) (Int.le_of_lt hP)
  have : 0 ≤ (hi - a.period) / P * P := Int.mul_nonneg hnn (Int.le_of_lt hP)
  exact ⟨⟨by omega, by omega⟩, o1⟩

/-- a bucket that holds a point is visited -/
theorem specBuckets_of_nonempty (q : Query) (A : List AccRow) (adj : AccRow → Pt) (lo hi P : Int) (k : Key) (T : Int)
    (h : specBucketPts q A adj lo hi P k T ≠ []) : (k, T) ∈ specBuckets q A lo hi P := by
  unfold specBucketPts at h
  cases hl : ((A.filter (fun r => decide (lo < r.period ∧ r.period ≤ hi))).filter
      (fun r => (gSlice q r.key, hi - ((hi - r.period) / P) * P) == (k, T))) with
  | nil => rw [hl] at h; simp at h
  | cons a l =>
    have ha : a ∈ ((A.filter (fun r => decide (lo < r.period ∧ r.period ≤ hi))).filter
      (fun r => (gSlice q r.key, hi - ((hi - r.period) / P) * P) == (k, T))) := by rw [hl]; simp
    obtain ⟨ha1, ha2⟩ := List.mem_filter.mp ha
    obtain ⟨ha3, ha4⟩ := List.mem_filter.mp ha1
    rw [beq_iff_eq, Prod.mk.injEq] at ha2
    exact (mem_specBuckets q A lo hi P k T).mpr ⟨a, ha3, by simpa using ha4, ha2.1, ha2.2⟩

theorem specAt_some (x : Ext) (q : Query) (metas : List KeyMeta) (A : List AccRow) (lo hi P : Int) (k : Key) (T : Int)
    (row : QRow) (h : specAt x q metas A lo hi P k T = some row) :
    row.key = k ∧ row.ts = T ∧
    ∃ f ∈ q.outFields, (f.ex.val x (f.ex.acc x (specBucketPts q A (specAdj metas) lo hi P k T))).isSome = true := by
  unfold specAt at h
  simp only at h
  split at h
  · rename_i hany
    injection h with h
    obtain ⟨p, hp, hc⟩ := List.any_eq_true.mp hany
    obtain ⟨f, hf, rfl⟩ := List.mem_map.mp hp
    simp only [Bool.and_eq_true] at hc
    exact ⟨by rw [← h], by rw [← h], f, hf, hc.1⟩
  · cases h

/-- when no selected expression has a value on the empty state, a bucket that yields a row is a
    visited one -/
theorem specAt_some_visited (x : Ext) (q : Query) (metas : List KeyMeta) (A : List AccRow) (lo hi P : Int) (k : Key)
    (T : Int) (row : QRow) (hval : ∀ f ∈ q.outFields, f.ex.val x f.ex.empty = none)
    (h : specAt x q metas A lo hi P k T = some row) : (k, T) ∈ specBuckets q A lo hi P := by
  obtain ⟨_, _, f, hf, hs⟩ := specAt_some x q metas A lo hi P k T row h
  apply specBuckets_of_nonempty q A (specAdj metas)
  intro hnil
  rw [hnil] at hs
  have : f.ex.acc x [] = f.ex.empty := rfl
  rw [this, hval f hf] at hs
  cases hs

end Zeno
