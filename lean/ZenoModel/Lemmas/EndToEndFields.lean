/-
End-to-end, part 10: the fields a query scans (`includedFields`, `sourceForTable`) are a sub-list
of the table's fields; in a sub-list of pairwise differently printed fields every position is fed
by exactly one table column (`IdxTie` for `outIdxsFor`).
-/
import ZenoModel.Lemmas.EndToEndSubView
import ZenoModel.Model.Query
set_option linter.unusedSimpArgs false
set_option linter.unusedVariables false
namespace Zeno

theorem Field.same_comm (a b : Field) : a.same b = b.same a := by
  simp only [Field.same, Ex.sameStr]
  rw [BEq.comm (a := a.name), BEq.comm (a := a.ex.norm)]

theorem outIdxsFor_getD (out fields : List Field) (i : Nat) (hi : i < fields.length) :
    (outIdxsFor out (fields.map some)).getD i none = out.findIdx? (fun o => (fields[i]).same o) := by
  unfold outIdxsFor
  rw [List.getD_eq_getElem?_getD, List.map_map, List.getElem?_map, List.getElem?_eq_getElem hi]
  rfl

theorem outIdxsFor_getD_some (out fields : List Field) (i o : Nat)
    (h : (outIdxsFor out (fields.map some)).getD i none = some o) : i < fields.length := by
  by_cases hi : i < fields.length
  · exact hi
  · unfold outIdxsFor at h
    rw [List.getD_eq_getElem?_getD, List.getElem?_eq_none (by simpa using hi)] at h
    cases h

/-- two table fields that are `same` are the same column -/
theorem same_index {fields : List Field} (hd : FieldsDistinct fields) (a b : Nat) (ha : a < fields.length)
    (hb : b < fields.length) (h : (fields[a]).same (fields[b]) = true) : a = b := by
  have hpw := List.pairwise_iff_getElem.mp hd
  rcases Nat.lt_trichotomy a b with hlt | heq | hgt
  · have := hpw a b ha hb hlt
    rw [Field.same_comm] at this
    rw [this] at h; cases h
  · exact heq
  · have := hpw b a hb ha hgt
    rw [this] at h; cases h

/-- in a sub-list of the table's fields, position `j` (holding table field `ti`) is fed by column
    `ti` and by no other -/
theorem idxTie_of_sublist (fields out : List Field) (hd : FieldsDistinct fields) (hsub : out.Sublist fields)
    (ti j : Nat) (hti : ti < fields.length) (hj : out[j]? = some (fields[ti])) :
    IdxTie (outIdxsFor out (fields.map some)) ti j := by
  obtain ⟨hjl, hje⟩ := List.getElem?_eq_some_iff.mp hj
  have hdo : FieldsDistinct out := List.Pairwise.sublist hsub hd
  constructor
  · rw [outIdxsFor_getD out fields ti hti, List.findIdx?_eq_some_iff_getElem]
    refine ⟨hjl, by rw [hje]; exact Field.same_refl _, ?_⟩
    intro j' hj'
    have := (List.pairwise_iff_getElem.mp hdo) j' j (by omega) hjl hj'
    rw [hje] at this
    rw [this]; simp
  · intro i' hi'
    have hil := outIdxsFor_getD_some out fields i' j hi'
    rw [outIdxsFor_getD out fields i' hil, List.findIdx?_eq_some_iff_getElem] at hi'
    obtain ⟨_, hs, _⟩ := hi'
    rw [hje] at hs
    exact same_index hd i' ti hil hti hs

theorem filterMap_zipIdx_sublist {α : Type} (p : Nat → Bool) : ∀ (l : List α) (k : Nat),
    ((l.zipIdx k).filterMap (fun (fi : α × Nat) => if p fi.2 then some fi.1 else none)).Sublist l := by
  intro l
  induction l with
  | nil => intro k; exact List.Sublist.refl _
  | cons a l ih =>
    intro k
    rw [List.zipIdx_cons]
    by_cases hp : p k = true
    · rw [List.filterMap_cons_some (b := a) (by simp [hp])]
      exact List.Sublist.cons₂ a (ih (k + 1))
    · rw [List.filterMap_cons_none (by simp [hp])]
      exact List.Sublist.cons a (ih (k + 1))

/-- `sourceForTable` scans a sub-list of the table's fields -/
theorem includedFields_sublist (cfg : TableCfg) (q : Query) : (includedFields cfg q).Sublist cfg.fields := by
  unfold includedFields
  split
  · exact List.Sublist.refl _
  · exact filterMap_zipIdx_sublist
      (fun i => (q.outFields.map (fun f => (f.ex.subMergers (cfg.fields.map (·.ex))).map Option.isSome)).any
        (fun m => m.getD i false)) cfg.fields 0

/-- a scanned field is a table field -/
theorem includedFields_index (cfg : TableCfg) (q : Query) (j : Nat) (inF : Field)
    (h : (includedFields cfg q)[j]? = some inF) : ∃ ti, ∃ hti : ti < cfg.fields.length, cfg.fields[ti] = inF := by
  have hm : inF ∈ cfg.fields := (includedFields_sublist cfg q).subset (List.mem_of_getElem? h)
  obtain ⟨ti, hti, he⟩ := List.getElem_of_mem hm
  exact ⟨ti, hti, he⟩

/-- the scan `runQuery` performs for a query is a view of the store's full scan at every scanned
    field -/
theorem scanView_included (cfg : TableCfg) (hd : FieldsDistinct cfg.fields) (st : Store) (sinv : StoreInv cfg st)
    (q : Query) (j ti : Nat) (hti : ti < cfg.fields.length)
    (hj : (includedFields cfg q)[j]? = some (cfg.fields[ti])) :
    ScanView cfg st ti j (st.iterate cfg (includedFields cfg q) true).rows := by
  obtain ⟨hjl, hje⟩ := List.getElem?_eq_some_iff.mp hj
  apply scanView_sub cfg hd st sinv _ ti j hti hjl
    (idxTie_of_sublist cfg.fields _ hd (includedFields_sublist cfg q) ti j hti hj)
  rw [List.getD_eq_getElem?_getD, hj, List.getD_eq_getElem?_getD, List.getElem?_eq_getElem hti]

end Zeno
