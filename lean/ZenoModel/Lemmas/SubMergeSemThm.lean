/-
SubMerge semantics, part 5: `sem_subMerge` and the invariants of the result.
-/
import ZenoModel.Lemmas.SubMergeSemMain
set_option linter.unusedSimpArgs false
namespace Zeno

/-- MISS: when the source has no period inside the window, `SubMerge` returns the receiver
    as it is (NOT truncated) -/
theorem subMerge_miss (e : Ex) (hs : e.shiftOf = 0) (res otherRes : Int) (s other : Sq) (p : Pt)
    (asOf hi : Int) (h : (other.truncate otherRes asOf hi).numPeriods = 0) :
    Sq.subMerge e e (.direct e) res otherRes s other p asOf hi 0 = s := by
  rw [subMerge_direct_eq e hs]
  cases htr : other.truncate otherRes asOf hi with
  | none => rfl
  | some o0 =>
    rw [htr] at h
    simp only [Sq.numPeriods] at h
    simp only [h, if_true]

theorem mergeOnto_miss {e : Ex} (hv : e.valid = true) (hp : e.noPtile = true) (otherRes : Int) (k : Nat)
    (asOf hi T : Int) (other : Sq) (acc : List Cell) (hw : WF e acc)
    (hempty : ∀ t, asOf < t ∧ t ≤ hi → other.at e otherRes t = e.empty) :
    mergeOnto e otherRes other (bucketTimes otherRes k asOf hi T) acc = acc := by
  unfold mergeOnto bucketTimes
  apply foldl_mrg_empty hv hp _ _ _ hw
  intro t ht
  rw [List.mem_filter] at ht
  exact hempty t (by simpa using ht.2)

theorem other_empty_of_miss (e : Ex) {res otherRes : Int} {k : Nat} {asOf hi : Int}
    (w : SMWindow res otherRes k asOf hi) (other : Sq) (ho : SqOk otherRes other)
    (h : (other.truncate otherRes asOf hi).numPeriods = 0) :
    ∀ t, asOf < t ∧ t ≤ hi → other.at e otherRes t = e.empty := by
  intro t ht
  cases other with
  | none => rfl
  | some ob =>
    have hwin := truncate_window e w.otherResPos ob ho asOf hi w.asOfPos w.asOfLt w.asOfAl w.hiAl t
    rw [if_pos ht] at hwin
    rw [← hwin]
    cases htr : Sq.truncate (some ob) otherRes asOf hi with
    | none => rfl
    | some o0 =>
      rw [htr] at h
      simp only [Sq.numPeriods] at h
      cases o0 with
      | mk a b =>
        simp only at h
        rw [at_some, List.eq_nil_of_length_eq_zero h]
        simp

theorem recv_truncate_inv {e : Ex} {res hi : Int} (h : 0 < res) (s : Sq) (hr : RecvGrid e res hi s) (a b : Int) :
    SqWF e (s.truncate res a b) ∧ ∀ r, s.truncate res a b = some r → (hi - r.hi) % res = 0 := by
  cases s with
  | none => exact ⟨trivial, fun r hh => by cases hh⟩
  | some q =>
    obtain ⟨g, _, wq⟩ := hr
    cases hts : Sq.truncate (some q) res a b with
    | none => exact ⟨trivial, fun r hh => by cases hh⟩
    | some r =>
      obtain ⟨t1, t2, _⟩ := truncate_some (e := e) h q r a b hts
      refine ⟨t2 wq, fun r' hh => ?_⟩
      cases hh
      have : hi - r.hi = (hi - q.hi) + (q.hi - r.hi) := by omega
      rw [this]; exact emod_add_of g t1

/-- what the truncated, non-empty source looks like -/
theorem hit_setup (e : Ex) {res otherRes : Int} {k : Nat} {asOf hi : Int} (w : SMWindow res otherRes k asOf hi)
    (ob o0 : Seq) (hob : SeqOk otherRes ob) (hwo : CellsWF e ob.cells)
    (htr : Sq.truncate (some ob) otherRes asOf hi = some o0) :
    0 < o0.hi ∧ o0.hi % otherRes = 0 ∧ CellsWF e o0.cells ∧
      0 < (if Sq.asOf (some ob) otherRes < asOf then asOf else Sq.asOf (some ob) otherRes) ∧
      ∀ t, t ≤ (if Sq.asOf (some ob) otherRes < asOf then asOf else Sq.asOf (some ob) otherRes) →
        Sq.at (some o0) e otherRes t = e.empty := by
  have hq : ob.hi ≠ 0 := by have := hob.pos; omega
  have hap := w.asOfPos
  obtain ⟨t1, t2, t3⟩ := truncate_some (e := e) w.otherResPos ob o0 asOf hi htr
  rw [roundUntilDown_aligned w.otherResPos (by omega) hq (emod_sub_of hob.aligned w.asOfAl)] at t3
  have hU : asOf < o0.hi := t3 (by omega)
  refine ⟨by omega, ?_, t2 hwo, by split <;> omega, ?_⟩
  · have : o0.hi = ob.hi - (ob.hi - o0.hi) := by omega
    rw [this]; exact emod_sub_of hob.aligned t1
  · intro t ht
    have hwin := truncate_window e w.otherResPos ob hob asOf hi w.asOfPos w.asOfLt w.asOfAl w.hiAl t
    rw [htr] at hwin
    rw [hwin]
    split
    · rename_i hc
      apply at_beyond e w.otherResPos ob t ob.cells.length (Int.le_refl _)
      have hasof : Sq.asOf (some ob) otherRes = ob.hi - (ob.cells.length : Int) * otherRes := rfl
      by_cases hc2 : Sq.asOf (some ob) otherRes < asOf
      · rw [if_pos hc2] at ht; omega
      · rw [if_neg hc2] at ht; omega
    · rfl

/-- HIT, pointwise: the source has a period inside the window.  `hA` says what truncating the
    receiver does at `T` (supplied by the callers below). -/
theorem subMerge_hit_at {e : Ex} (hv : e.valid = true) (hp : e.noPtile = true) (hs : e.shiftOf = 0)
    {res otherRes : Int} {k : Nat} {asOf hi : Int} (w : SMWindow res otherRes k asOf hi)
    (s : Sq) (ob : Seq) (p : Pt) (hob : SeqOk otherRes ob) (hwo : CellsWF e ob.cells)
    (hrecv : RecvGrid e res hi s)
    (hhit : (Sq.truncate (some ob) otherRes asOf hi).numPeriods ≠ 0) (T : Int) (hT : (hi - T) % res = 0)
    (hA : (s.truncate res asOf hi).at e res T = if asOf < T ∧ T ≤ hi then s.at e res T else e.empty) :
    (Sq.subMerge e e (.direct e) res otherRes s (some ob) p asOf hi 0).at e res T =
      if asOf < T ∧ T ≤ hi
      then mergeOnto e otherRes (some ob) (bucketTimes otherRes k asOf hi T) (s.at e res T)
      else e.empty := by
  have hkI : (0 : Int) < (k : Int) := by have := w.kPos; omega
  have hres : 0 < res := by rw [w.resEq]; exact Int.mul_pos hkI w.otherResPos
  have hwin := truncate_window e w.otherResPos ob hob asOf hi w.asOfPos w.asOfLt w.asOfAl w.hiAl
  have hap := w.asOfPos
  have hlt := w.asOfLt
  rw [subMerge_direct_eq e hs]
  cases htr : Sq.truncate (some ob) otherRes asOf hi with
  | none => rw [htr] at hhit; exact absurd rfl hhit
  | some o0 =>
    rw [htr] at hhit hwin
    simp only [Sq.numPeriods] at hhit
    simp only
    rw [if_neg hhit]
    obtain ⟨u1, u2, u3, u4, u5⟩ := hit_setup e w ob o0 hob hwo htr
    obtain ⟨v1, v2⟩ := recv_truncate_inv hres s hrecv asOf hi
    show Sq.at (some (smBody e res otherRes (s.truncate res asOf hi) _ o0 p hi)) e res T = _
    rw [smBody_at hv hp w.otherResPos w.kPos w.resEq _ _ o0 p hi (by omega) w.hiAl u1 u2 u4 u5 u3 v1 v2 T hT, hA]
    by_cases hW : asOf < T ∧ T ≤ hi
    · rw [if_pos hW, if_pos hW,
        ← fold_bucket hv hp otherRes k asOf hi T (some ob) hwo _ (sq_at_wf (recvGrid_wf hrecv) res T)]
      refine foldl_mrg_congr e _ _ _ _ ?_
      intro j _
      exact hwin _
    · rw [if_neg hW, if_neg hW]
      apply foldl_mrg_empty hv hp _ _ _ (wf_empty e)
      intro j hj
      rw [hwin, if_neg (bucket_outside w T hT hW j (List.mem_range.mp hj))]

/-- HIT: the result is again a receiver on the out grid -/
theorem subMerge_hit_grid {e : Ex} (hv : e.valid = true) (hp : e.noPtile = true) (hs : e.shiftOf = 0)
    {res otherRes : Int} {k : Nat} {asOf hi : Int} (w : SMWindow res otherRes k asOf hi)
    (s : Sq) (ob : Seq) (p : Pt) (hob : SeqOk otherRes ob) (hwo : CellsWF e ob.cells)
    (hrecv : RecvGrid e res hi s)
    (hhit : (Sq.truncate (some ob) otherRes asOf hi).numPeriods ≠ 0) :
    RecvGrid e res hi (Sq.subMerge e e (.direct e) res otherRes s (some ob) p asOf hi 0) := by
  have hkI : (0 : Int) < (k : Int) := by have := w.kPos; omega
  have hres : 0 < res := by rw [w.resEq]; exact Int.mul_pos hkI w.otherResPos
  have hap := w.asOfPos
  have hlt := w.asOfLt
  rw [subMerge_direct_eq e hs]
  cases htr : Sq.truncate (some ob) otherRes asOf hi with
  | none => rw [htr] at hhit; exact absurd rfl hhit
  | some o0 =>
    rw [htr] at hhit
    simp only [Sq.numPeriods] at hhit
    simp only
    rw [if_neg hhit]
    obtain ⟨u1, u2, u3, u4, u5⟩ := hit_setup e w ob o0 hob hwo htr
    obtain ⟨v1, v2⟩ := recv_truncate_inv hres s hrecv asOf hi
    exact smBody_inv hv hp hres _ _ o0 p hi (by omega) u1 u4 u3 v1 v2

theorem numPeriods_truncate_none (r a b : Int) : (Sq.truncate none r a b).numPeriods = 0 := rfl

/-- what truncating an in-window receiver does: nothing (semantically) -/
theorem recv_inWindow_at (e : Ex) {res : Int} (h : 0 < res) (s : Sq) (asOf hi : Int)
    (ha : 0 < asOf) (hlt : asOf < hi) (hg : RecvGrid e res hi s) (hin : InWindow e res asOf hi s)
    (T : Int) (hT : (hi - T) % res = 0) :
    (s.truncate res asOf hi).at e res T = if asOf < T ∧ T ≤ hi then s.at e res T else e.empty := by
  cases s with
  | none => simp [Sq.truncate, at_none]
  | some q =>
    obtain ⟨g1, g2, _⟩ := hg
    rw [recv_truncate_at e h q asOf hi ha hlt g1 g2 T hT]
    by_cases hW : asOf < T ∧ T ≤ hi
    · rw [if_pos hW, if_pos ⟨Or.inr hW.1, hW.2⟩]
    · rw [if_neg hW, hin T hW]
      split <;> rfl

/-- SEMANTICS OF `Sequence.SubMerge` (direct sub-merger, no shift, no stride), receiver inside
    the window. -/
theorem sem_subMerge_lem {e : Ex} (hv : e.valid = true) (hp : e.noPtile = true) (hs : e.shiftOf = 0)
    {res otherRes : Int} {k : Nat} {asOf hi : Int} (w : SMWindow res otherRes k asOf hi)
    (s other : Sq) (p : Pt) (ho : SqOk otherRes other) (hwo : SqWF e other)
    (hg : RecvGrid e res hi s) (hin : InWindow e res asOf hi s) (T : Int) (hT : (hi - T) % res = 0) :
    (Sq.subMerge e e (.direct e) res otherRes s other p asOf hi 0).at e res T =
      if asOf < T ∧ T ≤ hi
      then mergeOnto e otherRes other (bucketTimes otherRes k asOf hi T) (s.at e res T)
      else e.empty := by
  have hkI : (0 : Int) < (k : Int) := by have := w.kPos; omega
  have hres : 0 < res := by rw [w.resEq]; exact Int.mul_pos hkI w.otherResPos
  by_cases hhit : (other.truncate otherRes asOf hi).numPeriods = 0
  · rw [subMerge_miss e hs _ _ _ _ _ _ _ hhit]
    by_cases hW : asOf < T ∧ T ≤ hi
    · rw [if_pos hW, mergeOnto_miss hv hp _ _ _ _ _ _ _ (sq_at_wf (recvGrid_wf hg) res T)
        (other_empty_of_miss e w other ho hhit)]
    · rw [if_neg hW, hin T hW]
  · cases other with
    | none => exact absurd (numPeriods_truncate_none _ _ _) hhit
    | some ob =>
      exact subMerge_hit_at hv hp hs w s ob p ho hwo hg hhit T hT
        (recv_inWindow_at e hres s asOf hi w.asOfPos w.asOfLt hg hin T hT)

/-- … and the result is again such a receiver: on the out grid anchored at `hi`, nothing
    outside the window.  (The invariant of the accumulator column of `core.Group`.) -/
theorem subMerge_inv_lem {e : Ex} (hv : e.valid = true) (hp : e.noPtile = true) (hs : e.shiftOf = 0)
    {res otherRes : Int} {k : Nat} {asOf hi : Int} (w : SMWindow res otherRes k asOf hi)
    (s other : Sq) (p : Pt) (ho : SqOk otherRes other) (hwo : SqWF e other)
    (hg : RecvGrid e res hi s) (hin : InWindow e res asOf hi s) :
    RecvGrid e res hi (Sq.subMerge e e (.direct e) res otherRes s other p asOf hi 0) ∧
      InWindow e res asOf hi (Sq.subMerge e e (.direct e) res otherRes s other p asOf hi 0) := by
  have hgrid : RecvGrid e res hi (Sq.subMerge e e (.direct e) res otherRes s other p asOf hi 0) := by
    by_cases hhit : (other.truncate otherRes asOf hi).numPeriods = 0
    · rw [subMerge_miss e hs _ _ _ _ _ _ _ hhit]; exact hg
    · cases other with
      | none => exact absurd (numPeriods_truncate_none _ _ _) hhit
      | some ob => exact subMerge_hit_grid hv hp hs w s ob p ho hwo hg hhit
  refine ⟨hgrid, ?_⟩
  intro T hW
  by_cases hT : (hi - T) % res = 0
  · rw [sem_subMerge_lem hv hp hs w s other p ho hwo hg hin T hT, if_neg hW]
  · generalize Sq.subMerge e e (.direct e) res otherRes s other p asOf hi 0 = out at *
    cases out with
    | none => rfl
    | some b =>
      obtain ⟨g1, _, _⟩ := hgrid
      cases b with
      | mk bh bc =>
        rw [at_some]
        simp only at g1
        have : ¬ ((bh - T) % res = 0 ∧ T ≤ bh) := by
          intro ⟨hm, _⟩
          apply hT
          have : hi - T = (hi - bh) + (bh - T) := by omega
          rw [this]; exact emod_add_of g1 hm
        rw [if_neg this]

/-- The receiver IS truncated to the window when the source has a period inside it (and the
    window starts at least one out period after the zero time, so that the rounded bound is not
    mistaken for "no bound"). -/
theorem sem_subMerge_truncates_lem {e : Ex} (hv : e.valid = true) (hp : e.noPtile = true) (hs : e.shiftOf = 0)
    {res otherRes : Int} {k : Nat} {asOf hi : Int} (w : SMWindow res otherRes k asOf hi)
    (s other : Sq) (p : Pt) (ho : SqOk otherRes other) (hwo : SqWF e other)
    (hg : RecvGrid e res hi s) (hra : res ≤ asOf)
    (hhit : (other.truncate otherRes asOf hi).numPeriods ≠ 0) (T : Int) (hT : (hi - T) % res = 0) :
    (Sq.subMerge e e (.direct e) res otherRes s other p asOf hi 0).at e res T =
      if asOf < T ∧ T ≤ hi
      then mergeOnto e otherRes other (bucketTimes otherRes k asOf hi T) (s.at e res T)
      else e.empty := by
  have hkI : (0 : Int) < (k : Int) := by have := w.kPos; omega
  have hres : 0 < res := by rw [w.resEq]; exact Int.mul_pos hkI w.otherResPos
  have hap := w.asOfPos
  have hlt := w.asOfLt
  cases other with
  | none => exact absurd (numPeriods_truncate_none _ _ _) hhit
  | some ob =>
    apply subMerge_hit_at hv hp hs w s ob p ho hwo hg hhit T hT
    cases s with
    | none => simp [Sq.truncate, at_none]
    | some q =>
      obtain ⟨g1, g2, _⟩ := hg
      rw [recv_truncate_at e hres q asOf hi hap hlt g1 g2 T hT]
      obtain ⟨_, _, s3⟩ := roundUntilDown_spec (t := asOf) (hi := q.hi) hres (by omega) (by omega)
      have hA : ¬ roundUntilDown asOf res q.hi = 0 := by omega
      simp only [hA, false_or]

end Zeno
