/-
Helper lemmas for Props/C19Session.lean: when a step of the session machine sets a cookie.
Core Lean only.
-/
import ZenoModel.Model.AuthSession

namespace Zeno

/-- A data request sets a cookie only at the re-check of a timed-out session, when the
    policy's re-check guard fires; the cookie is marked verified iff the answer was "in org",
    and the request is served iff the answer was "in org". -/
theorem stepData_setCookie {pol : Policy} {o : WebOpts} {s : SessState} {p : String} {r : SReq}
    {c : Session} (h : (stepData pol o s p r).2.setCookie = some c) :
    pol.recheck.fires r.orgAns = true ∧ c.verified = (r.orgAns == .inOrg) ∧
    (stepData pol o s p r).2.outcome = (if r.orgAns == .inOrg then .served else .redirect) := by
  unfold stepData at h ⊢
  by_cases g1 : (!(webRouteGuarded p).getD true) = true
  · simp [g1, mkResp] at h
  · by_cases g2 : (!oauthSet o) = true
    · simp [g1, g2, mkResp] at h
    · by_cases g3 : (o.password != "" && r.header != "") = true
      · by_cases g4 : (r.header == o.password) = true <;> simp [g1, g2, g3, g4, mkResp] at h
      · cases hc : r.cookie with
        | none => simp [g1, g2, g3, hc, mkResp] at h
        | forged => simp [g1, g2, g3, hc, mkResp] at h
        | issued i =>
          cases hsi : s[i]? with
          | none => simp [g1, g2, g3, hc, hsi, mkResp] at h
          | some c0 =>
            by_cases hf : r.now < c0.expiry
            · simp [g1, g2, g3, hc, hsi, hf, mkResp] at h
            · by_cases hg : pol.recheck.fires r.orgAns = true
              · simp only [g1, g2, g3, hc, hsi, hf, hg, Bool.false_eq_true, if_false, if_true,
                  Option.some.injEq] at h ⊢
                subst h
                simp
              · simp [g1, g2, g3, hc, hsi, hf, hg] at h

/-- The callback sets a cookie only when the policy's callback guard fires; that response is
    the "logged in" redirect. -/
theorem stepCallback_setCookie {pol : Policy} {s : SessState} {r : SReq} {c : Session}
    (h : (stepCallback pol s r).2.setCookie = some c) :
    pol.callback.fires r.orgAns = true ∧ c.verified = (r.orgAns == .inOrg) ∧
    (stepCallback pol s r).2.outcome = .loggedIn := by
  unfold stepCallback at h ⊢
  by_cases g1 : (!r.stateOk) = true
  · simp [g1, mkResp] at h
  · cases ht : r.tokenAns.principal with
    | none => simp [g1, ht, mkResp] at h
    | some p =>
      by_cases hg : pol.callback.fires r.orgAns = true
      · simp only [g1, ht, hg, Bool.false_eq_true, if_false, if_true, Option.some.injEq] at h ⊢
        subst h
        simp
      · cases hr : r.orgAns.result <;> simp [g1, ht, hg, hr, mkResp] at h

/-- A safe guard fires on no answer but "in org". -/
theorem safe_guard_fires_only_in_org (g : Guard) (hg : g.safe = true) (a : OrgAnswer)
    (hf : g.fires a = true) : a = .inOrg := by
  cases g with
  | mk n i ni e =>
    simp only [Guard.safe, Bool.and_eq_true, Bool.not_eq_true'] at hg
    obtain ⟨⟨hn, hni⟩, he⟩ := hg
    cases a <;> simp_all [Guard.fires, OrgAnswer.result]

end Zeno
