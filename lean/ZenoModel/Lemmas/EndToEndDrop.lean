/-
End-to-end, part 4: accepted rows of keys WITHOUT a scan row may be dropped from the spec's bucket.

`sem_groupRows_spec` asks (`hcover`) for a scan row for every key that has an accepted row inside
the window.  The store refinement gives something that serves as well: for a key without a scan
row the scan reads `none`, hence (by `table_ingest_refines_spec`, which holds for EVERY key) the
accepted rows of each of its live periods accumulate to the EMPTY state.  Whole (key, period)
groups that accumulate to the empty state can be removed from a bucket without changing its
accumulation (`acc` is a commutative-monoid fold: `acc_perm`, `mrg_acc`, `mrg_empty_*`).
-/
import ZenoModel.Lemmas.SubMergeSemSpec2
set_option linter.unusedSimpArgs false
set_option linter.unusedVariables false
namespace Zeno

/-- `c` has the key and period of `b` (the predicate `keyPeriodPts` filters by) -/
def sameKP (b c : AccRow) : Bool := c.key == b.key && c.period == b.period

theorem sameKP_refl (b : AccRow) : sameKP b b = true := by simp [sameKP]

theorem sameKP_iff (b c : AccRow) : sameKP b c = true ↔ c.key = b.key ∧ c.period = b.period := by
  simp [sameKP]

theorem keyPeriodPts_eq_sameKP (A : List AccRow) (adj : AccRow → Pt) (a : AccRow) :
    keyPeriodPts A adj a.key a.period = (A.filter (sameKP a)).map adj := rfl

/-- split a list by a predicate, under `acc` -/
theorem acc_split (x : Ext) {e : Ex} (hv : e.valid = true) (hp : e.noPtile = true) (adj : AccRow → Pt)
    (L : List AccRow) (p : AccRow → Bool) :
    e.acc x (L.map adj) =
      e.mrg (e.acc x ((L.filter p).map adj)) (e.acc x ((L.filter (fun a => !p a)).map adj)) := by
  rw [mrg_acc x hv hp, ← List.map_append]
  exact acc_perm x hv hp (List.Perm.map adj (List.filter_append_perm p L).symm)

/-- a list all of whose (key, period) groups accumulate to the empty state accumulates to the
    empty state -/
theorem acc_groups_empty (x : Ext) {e : Ex} (hv : e.valid = true) (hp : e.noPtile = true) (adj : AccRow → Pt) :
    ∀ (n : Nat) (B : List AccRow), B.length ≤ n →
      (∀ b ∈ B, e.acc x ((B.filter (sameKP b)).map adj) = e.empty) → e.acc x (B.map adj) = e.empty := by
  intro n
  induction n with
  | zero =>
    intro B hl _
    have : B = [] := List.length_eq_zero_iff.mp (by omega)
    rw [this]; rfl
  | succ n ih =>
    intro B hl hB
    cases B with
    | nil => rfl
    | cons b B' =>
      have hb := hB b (by simp)
      rw [acc_split x hv hp adj (b :: B') (sameKP b), hb, mrg_empty_left hv hp (acc_wf x hv hp _)]
      apply ih
      · have hlt : ((b :: B').filter (fun a => !sameKP b a)).length < (b :: B').length :=
          List.length_filter_lt_length_iff_exists.mpr ⟨b, by simp, by simp [sameKP_refl]⟩
        omega
      · intro c hc
        have hc' := List.mem_filter.mp hc
        have hcb : sameKP b c = false := by simpa using hc'.2
        have := hB c hc'.1
        rw [List.filter_filter]
        have hcongr : (b :: B').filter (fun a => sameKP c a && !sameKP b a) = (b :: B').filter (sameKP c) := by
          apply List.filter_congr
          intro d _
          by_cases hd : sameKP c d = true
          · have h1 := (sameKP_iff c d).mp hd
            have : sameKP b d = false := by
              cases hbd : sameKP b d with
              | false => rfl
              | true =>
                have h2 := (sameKP_iff b d).mp hbd
                have : sameKP b c = true := (sameKP_iff b c).mpr ⟨by rw [← h1.1, h2.1], by rw [← h1.2, h2.2]⟩
                rw [this] at hcb; cases hcb
            simp [hd, this]
          · have : sameKP c d = false := by simpa using hd
            simp [this]
        rw [hcongr]; exact this

/-- removing from `L` the rows of "bad" keys, all of whose (key, period) groups accumulate to the
    empty state, does not change the accumulation -/
theorem acc_drop_empty_groups (x : Ext) {e : Ex} (hv : e.valid = true) (hp : e.noPtile = true)
    (adj : AccRow → Pt) (L : List AccRow) (good : AccRow → Bool)
    (hgk : ∀ a b : AccRow, a.key = b.key → good a = good b)
    (hempty : ∀ a ∈ L, good a = false → e.acc x ((L.filter (sameKP a)).map adj) = e.empty) :
    e.acc x (L.map adj) = e.acc x ((L.filter good).map adj) := by
  rw [acc_split x hv hp adj L good]
  have hbad : e.acc x ((L.filter (fun a => !good a)).map adj) = e.empty := by
    apply acc_groups_empty x hv hp adj _ _ (Nat.le_refl _)
    intro b hb
    have hb' := List.mem_filter.mp hb
    have hgb : good b = false := by simpa using hb'.2
    rw [List.filter_filter]
    have hcongr : L.filter (fun a => sameKP b a && !good a) = L.filter (sameKP b) := by
      apply List.filter_congr
      intro d _
      by_cases hd : sameKP b d = true
      · have := hgk d b ((sameKP_iff b d).mp hd).1
        simp [hd, this, hgb]
      · have : sameKP b d = false := by simpa using hd
        simp [this]
    rw [hcongr]
    exact hempty b hb'.1 hgb
  rw [hbad, mrg_empty_right hv hp (acc_wf x hv hp _)]

/-- THE BYPASS OF `hcover`: accepted rows of keys that fail `good`, whose (key, period) groups
    inside the window all accumulate to the empty state, can be dropped from the spec's bucket -/
theorem specBucket_drop_uncovered (x : Ext) {e : Ex} (hv : e.valid = true) (hp : e.noPtile = true)
    (q : Query) (A : List AccRow) (adj : AccRow → Pt) (lo hi P : Int) (k : Key) (T : Int)
    (good : AccRow → Bool) (hgk : ∀ a b : AccRow, a.key = b.key → good a = good b)
    (hempty : ∀ a ∈ A, lo < a.period ∧ a.period ≤ hi → good a = false →
      e.acc x (keyPeriodPts A adj a.key a.period) = e.empty) :
    e.acc x (specBucketPts q A adj lo hi P k T) =
      e.acc x (specBucketPts q (A.filter good) adj lo hi P k T) := by
  unfold specBucketPts
  have hcomm : ((A.filter good).filter (fun r => decide (lo < r.period ∧ r.period ≤ hi))).filter
        (fun r => (gSlice q r.key, hi - ((hi - r.period) / P) * P) == (k, T)) =
      (((A.filter (fun r => decide (lo < r.period ∧ r.period ≤ hi))).filter
        (fun r => (gSlice q r.key, hi - ((hi - r.period) / P) * P) == (k, T)))).filter good := by
    simp only [List.filter_filter]
    apply List.filter_congr
    intro a _
    cases good a <;> simp
  rw [hcomm]
  apply acc_drop_empty_groups x hv hp adj _ good hgk
  intro a ha hga
  rw [List.filter_filter] at ha
  have ha' := List.mem_filter.mp ha
  have hwin : lo < a.period ∧ a.period ≤ hi := by
    have := ha'.2; simp only [Bool.and_eq_true, decide_eq_true_eq] at this; exact this.2
  have := hempty a ha'.1 hwin hga
  rw [keyPeriodPts_eq_sameKP] at this
  rw [List.filter_filter, List.filter_filter]
  have hcongr : A.filter (fun d => sameKP a d &&
        (gSlice q d.key, hi - ((hi - d.period) / P) * P) == (k, T) && decide (lo < d.period ∧ d.period ≤ hi)) =
      A.filter (sameKP a) := by
    apply List.filter_congr
    intro d _
    by_cases hd : sameKP a d = true
    · obtain ⟨h1, h2⟩ := (sameKP_iff a d).mp hd
      rw [hd, h1, h2, Bool.true_and, ha'.2]
    · have : sameKP a d = false := by simpa using hd
      simp [this]
  rw [hcongr]; exact this

end Zeno
