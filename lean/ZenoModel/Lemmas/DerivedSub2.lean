/-
Derived selected expressions, part 9 (stage 2): the reduction of `SubMerge` with a general
sub-merger to `SubMerge` with the direct one on the mapped source.
-/
import ZenoModel.Lemmas.DerivedSub
set_option linter.unusedSimpArgs false
set_option linter.unusedVariables false
namespace Zeno

/-- everything `SubMerge` does after the two truncations, for ANY sub-merger (no shift, no stride) -/
def smBodyG (e : Ex) (sm : SM) (res otherRes : Int) (result : Sq) (otherAsOf : Int) (o0 : Seq) (p : Pt) (hi : Int) : Seq :=
  let r1 := smPrepend e res (roundUntilUp o0.hi res hi) result
  let r2 := smAppend e res otherAsOf r1
  ⟨r2.hi, subMergeLoop sm otherRes p (res.tdiv otherRes) ((r1.hi - o0.hi).tdiv otherRes) 0
      ((0 : Int).tdiv otherRes) r2.cells.length 0 o0.cells r2.cells⟩

theorem subMerge_gen_eq (e oe : Ex) (sm : SM) (hs : e.shiftOf = 0) (res otherRes : Int) (s other : Sq) (p : Pt)
    (asOf hi : Int) :
    Sq.subMerge e oe sm res otherRes s other p asOf hi 0 =
      match other.truncate otherRes asOf hi with
      | none => s
      | some o0 =>
        if o0.cells.length = 0 then s
        else some (smBodyG e sm res otherRes (s.truncate res asOf hi)
          (if other.asOf otherRes < asOf then asOf else other.asOf otherRes) o0 p hi) := by
  unfold Sq.subMerge
  simp only [hs, Int.neg_zero, Int.sub_zero]
  cases other.truncate otherRes asOf hi with
  | none => rfl
  | some o0 =>
    simp only
    split
    · rfl
    · simp only [gt_iff_lt, Int.lt_irrefl, if_false]
      cases hres : s.truncate res asOf hi with
      | none => rfl
      | some r =>
        simp only [Sq.until, smBodyG, smPrepend, gt_iff_lt]
        by_cases hl : r.cells.length = 0
        · simp only [hl, if_true]; rfl
        · simp only [hl, if_false]
          by_cases hp : 0 < (roundUntilUp o0.hi res hi - r.hi).tdiv res
          · simp only [hp, if_true]; rfl
          · simp only [hp, if_false]; rfl

theorem smPrepend_wf {e : Ex} (res nu : Int) (result : Sq) (hw : SqWF e result) :
    CellsWF e (smPrepend e res nu result).cells := by
  have hsingle : CellsWF e [e.empty] := by
    intro c hc; simp at hc; rw [hc]; exact wf_empty e
  cases result with
  | none => exact hsingle
  | some r =>
    simp only [smPrepend]
    split
    · exact hsingle
    · split
      · exact cellsWF_append (cellsWF_replicate e _) hw
      · exact hw

theorem smAppend_wf {e : Ex} (res otherAsOf : Int) (r1 : Seq) (hw : CellsWF e r1.cells) :
    CellsWF e (smAppend e res otherAsOf r1).cells := by
  unfold smAppend
  simp only
  split
  · exact cellsWF_append hw (cellsWF_replicate e _)
  · exact hw

theorem modify_congr_mem {α : Type} (l : List α) (i : Nat) (f f' : α → α) (h : ∀ a ∈ l, f a = f' a) :
    l.modify i f = l.modify i f' := by
  apply List.ext_getElem
  · simp
  · intro n h1 h2
    rw [List.getElem_modify, List.getElem_modify]
    split
    · exact h _ (List.getElem_mem _)
    · rfl

/-- the closure `sm`, state by state, merges the image `g o` of the source state -/
def ActsAs (e c : Ex) (sm : SM) (g : List Cell → List Cell) (otherRes : Int) (p : Pt) : Prop :=
  ∀ (d o : List Cell) (os : List (List Cell)), WF e d → WF c o → sm.apply d (o :: os) otherRes p = e.mrg d (g o)

/-- the loop with `sm` on the source = the loop with the direct sub-merger on the mapped source -/
theorem subMergeLoop_map {e c : Ex} (hv : e.valid = true) (hp : e.noPtile = true) (sm : SM)
    (g : List Cell → List Cell) (otherRes : Int) (p : Pt) (hsm : ActsAs e c sm g otherRes p)
    (hg : ∀ o, WF c o → WF e (g o)) (scale off ss ssp : Int) (n : Nat) :
    ∀ (os : List (List Cell)) (po : Nat) (result : List (List Cell)), CellsWF c os → CellsWF e result →
      subMergeLoop sm otherRes p scale off ss ssp n po os result =
        subMergeLoop (.direct e) otherRes p scale off ss ssp n po (os.map g) result := by
  intro os
  induction os with
  | nil => intro po result _ _; rfl
  | cons o os ih =>
    intro po result hos hw
    have ho : WF c o := hos o (by simp)
    have hos' : CellsWF c os := fun x hx => hos x (by simp [hx])
    have hmod : ∀ i, result.modify i (fun d => sm.apply d (o :: os) otherRes p) =
        result.modify i (fun d => (SM.direct e).apply d (g o :: os.map g) otherRes p) := by
      intro i
      apply modify_congr_mem
      intro d hd
      rw [hsm d o os (hw d hd) ho, apply_direct hv hp (hw d hd) (hg o ho)]
    have hwm : ∀ i, CellsWF e (result.modify i (fun d => (SM.direct e).apply d (g o :: os.map g) otherRes p)) := by
      intro i
      apply cellsWF_modify hw
      intro d hd
      rw [apply_direct hv hp hd (hg o ho)]
      exact mrg_wf hv hp hd (hg o ho)
    simp only [subMergeLoop, List.map_cons, hmod]
    split
    · rfl
    · apply ih _ _ hos'
      split
      · split
        · exact hw
        · exact hwm _
      · exact hw

end Zeno
