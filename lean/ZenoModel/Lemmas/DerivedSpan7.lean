/-
Derived selected expressions, part 36 (stage 3): under the store-side span hypothesis `ScanSpans`
(every accepted row's period is physically present in the scanned columns of its key's scan row) the
grouped columns physically hold every out period whose spec bucket is non-empty.
-/
import ZenoModel.Lemmas.DerivedSpan6
set_option linter.unusedSimpArgs false
set_option linter.unusedVariables false
namespace Zeno

/-- STORE-SIDE SPAN HYPOTHESIS (not proved here; decidable on examples): for every accepted,
    WHERE-passing row inside the window the scan holds a row for its key, and each scanned column of
    that row physically contains the row's period -/
def ScanSpans (x : Ext) (cfg : TableCfg) (ops : List StoreOp) (q : Query) (metas : List KeyMeta) (pl : Plan) : Prop :=
  ∀ a ∈ specRows q metas (acceptedRows cfg true (pointsOf ops)).1,
    gAsOfOf cfg (runStore x cfg ops).now pl < a.period ∧ a.period ≤ gUntilOf cfg (runStore x cfg ops).now pl →
    ∃ r ∈ e2eScan x cfg ops q metas, r.key = a.key ∧
      ∀ j ∈ List.range (includedFields cfg q).length, spanHas (r.cols.getD j none) cfg.res a.period = true

/-- every non-constant selected field has state (no bare field outside an aggregate) -/
def StatefulFields (q : Query) : Prop := ∀ f ∈ q.outFields, f.ex.isConstant = true ∨ f.ex.width ≠ 0

/-- a non-empty bucket has an accepted row -/
theorem bucket_row_of_nonempty (q : Query) (A : List AccRow) (adj : AccRow → Pt) (lo hi P : Int) (k : Key) (T : Int)
    (h : specBucketPts q A adj lo hi P k T ≠ []) :
    ∃ a ∈ A, (lo < a.period ∧ a.period ≤ hi) ∧ gSlice q a.key = k ∧ hi - ((hi - a.period) / P) * P = T :=
  (mem_specBuckets q A lo hi P k T).mp (specBuckets_of_nonempty q A adj lo hi P k T h)

theorem mem_bucketTimes_of_outPeriod {res otherRes : Int} {kk : Nat} {lo hi : Int} (w : SMWindow res otherRes kk lo hi)
    (T t : Int) (hT : (hi - T) % res = 0) (hper : t % otherRes = 0) (hw : lo < t ∧ t ≤ hi)
    (hout : hi - ((hi - t) / res) * res = T) : t ∈ bucketTimes otherRes kk lo hi T := by
  have hkI : (0 : Int) < (kk : Int) := by have := w.kPos; omega
  have hres : 0 < res := by rw [w.resEq]; exact Int.mul_pos hkI w.otherResPos
  obtain ⟨_, o2, o3⟩ := outPeriod_spec (hi := hi) (P := res) (t := t) hres
  have hout' : outPeriod hi res t = T := hout
  rw [hout'] at o2 o3
  have hTal : T % otherRes = 0 := by
    have h1 : (hi - T) % otherRes = 0 := by
      have := hT; rw [w.resEq] at this; exact emod_of_mul _ this
    have : T = hi - (hi - T) := by omega
    rw [this]; exact emod_sub_of w.hiAl h1
  rw [mem_bucketTimes w.otherResPos, ← w.resEq]
  exact ⟨⟨o2, o3, emod_sub_of hTal hper⟩, hw⟩

section
variable (x : Ext) {cfg : TableCfg} {ops : List StoreOp} {q : Query} {metas : List KeyMeta} {pl : Plan}
  (C : DerivedCtx x cfg ops q metas pl) (hall : ∀ f ∈ q.outFields, DerivedField x cfg ops q f)
  (SS : ScanSpans x cfg ops q metas pl)
include C hall SS

/-- a non-empty bucket: window, grid, and a member scan row all of whose scanned columns physically
    hold a native period of the bucket -/
theorem bucket_member_row (k : Key) (T : Int) (hB : e2eBucket x cfg ops q metas pl k T ≠ []) :
    (gAsOfOf cfg (runStore x cfg ops).now pl < T ∧ T ≤ gUntilOf cfg (runStore x cfg ops).now pl) ∧
    (gUntilOf cfg (runStore x cfg ops).now pl - T) % gResOf cfg pl = 0 ∧
    ∃ r ∈ groupMembers q (e2eScan x cfg ops q metas) k,
      ∃ t ∈ bucketTimes cfg.res (gResOf cfg pl / cfg.res).toNat (gAsOfOf cfg (runStore x cfg ops).now pl)
          (gUntilOf cfg (runStore x cfg ops).now pl) T,
        ∀ j, j < (includedFields cfg q).length → sqCovers (r.cols.getD j none) cfg.res t := by
  have w := planLocal_window cfg _ q pl C.base.plan C.base.wf.res_pos C.base.asOfPos
  obtain ⟨hW, hT⟩ := specBuckets_window C.base.resPos (specBuckets_of_nonempty q _ (specAdj metas) _ _ _ k T hB)
  obtain ⟨a, ha, hwin, hk, hout⟩ := bucket_row_of_nonempty q _ _ _ _ _ k T hB
  obtain ⟨r, hr, hrk, hsp⟩ := SS a ha hwin
  have hper : a.period % cfg.res = 0 := by
    have ha0 := ((mem_specRows q metas _ a).mp ha).1
    rw [acceptedRows_eq] at ha0
    exact accRowsFrom_period cfg C.base.wf.res_pos true _ 0 a ha0
  refine ⟨hW, hT, r, List.mem_filter.mpr ⟨hr, by rw [hrk]; simpa using hk⟩, a.period,
    mem_bucketTimes_of_outPeriod w T a.period hT hper hwin hout, ?_⟩
  intro j hj
  have hsj := hsp j (List.mem_range.mpr hj)
  have hjs : j < ((includedFields cfg q).map (·.ex)).length := by simpa using hj
  obtain ⟨hok, _⟩ := (scan_rowColsOk x C r hr).2 j _ (List.getElem?_eq_getElem hjs)
  cases hcol : r.cols.getD j none with
  | none => rw [hcol] at hsj; simp [spanHas] at hsj
  | some qq =>
    rw [hcol] at hsj hok
    exact ⟨qq, rfl, (spanHas_iff_covers C.base.wf.res_pos qq a.period (emod_sub_of hok.aligned hper)).mp hsj⟩

/-- the grouped column of a stateful field physically holds every out period with a non-empty bucket -/
theorem derived_span_of_bucket (g : Row) (hg : g ∈ e2eGroup x cfg ops q metas pl) (T : Int)
    (hB : e2eBucket x cfg ops q metas pl g.key T ≠ []) (i : Nat) (hi : i < g.cols.length)
    (hi' : i < q.outFields.length) (hw : (q.outFields[i]).ex.width ≠ 0) :
    spanHas (g.cols[i]) (gResOf cfg pl) T = true := by
  obtain ⟨hW, hT, r, hr, t, ht, hcov⟩ := bucket_member_row x C hall SS g.key T hB
  have hout : q.outFields[i]? = some (q.outFields[i]) := List.getElem?_eq_getElem hi'
  have df := hall _ (List.getElem_mem hi')
  have H := derivedCell_of_store x C i _ hout df
  obtain ⟨j, hj, hsm⟩ := colSM_of_hasClosure (hasClosure_of_resolved _ _ df.resolved hw)
  have hc := groupCell_covers H metas g.key T hT hW r hr j hj hsm t ht (hcov j (by simpa using hj))
  rw [derived_col_is_cell x C g hg i hi] at *
  exact spanHas_of_sqCovers C.base.resPos _ T _
    (by rw [← derived_col_is_cell x C g hg i hi]; exact derived_group_onGrid x C hall g hg _ (List.getElem_mem hi)) hT hc

end

end Zeno
