/-
End-to-end, stage 2, part 8: `runQuery` = `specQuery` as multisets of rows.
-/
import ZenoModel.Lemmas.EndToEndRead2
set_option linter.unusedSimpArgs false
set_option linter.unusedVariables false
namespace Zeno

/-- the grouped branch of `runQuery`, unfolded -/
theorem runQuery_grouped (x : Ext) (cfg : TableCfg) (st : Store) (q : Query) (metas : List KeyMeta) (pl : Plan)
    (hpl : planLocal cfg st.now q = .ok pl) (hne : (includedFields cfg q).isEmpty = false)
    (hng : pl.needsGroupBy = true) (hh : q.hasHaving = false) :
    runQuery x cfg st q metas true =
      .ok ((groupRows cfg st.now q pl (includedFields cfg q) metas
        (whereRows q metas (st.iterate cfg (includedFields cfg q) true).rows)).1.flatMap
          (flattenRow x q.outFields (gResOf cfg pl))) := by
  unfold runQuery
  rw [hpl]
  simp only [bind, Except.bind, hne, hng, hh, pure, Except.pure, Bool.false_eq_true, if_false, if_true]
  rfl

/-- a flattened row carries its grouped row's key, and comes from the loop body at its own time -/
theorem flattenRow_key_ts (x : Ext) (fields : List Field) (res : Int) (r : Row) (row : QRow)
    (h : row ∈ flattenRow x fields res r) : row.key = r.key ∧ flatAt x fields res r row.ts = some row := by
  rw [flattenRow_eq] at h
  cases hne : flatNonEmpty r with
  | nil => rw [hne] at h; simp at h
  | cons s0 rest =>
    rw [hne] at h
    simp only at h
    obtain ⟨i, _, hi⟩ := List.mem_filterMap.mp h
    obtain ⟨h1, h2⟩ := flatAt_key_ts x fields res r _ row hi
    exact ⟨h1, by rw [h2]; exact hi⟩

/-- `Flatten` emits no row twice for one grouped row -/
theorem flattenRow_nodup (x : Ext) (fields : List Field) (res : Int) (r : Row) (hres : 0 < res) :
    (flattenRow x fields res r).Nodup := by
  rw [flattenRow_eq]
  cases flatNonEmpty r with
  | nil => exact List.nodup_nil
  | cons s0 rest =>
    simp only
    rw [List.nodup_iff_pairwise_ne]
    refine List.Pairwise.filterMap _ ?_ (List.nodup_iff_pairwise_ne.mp List.nodup_range)
    intro i i' hne b hb b' hb' heq
    have h1 := (flatAt_key_ts x fields res r _ b hb).2
    have h2 := (flatAt_key_ts x fields res r _ b' hb').2
    rw [heq, h2] at h1
    have h3 : (Int.ofNat i' - Int.ofNat i) * res = 0 := by rw [Int.sub_mul]; omega
    rcases Int.mul_eq_zero.mp h3 with h4 | h4
    · apply hne; have : (i : Int) = (i' : Int) := by simp only [Int.ofNat_eq_natCast] at h4; omega
      exact Int.ofNat_inj.mp this
    · omega

/-- … and none twice overall -/
theorem e2e_flat_nodup (x : Ext) (rows : List Row) (hk : (rows.map (·.key)).Nodup) (fields : List Field) (res : Int)
    (hres : 0 < res) : (rows.flatMap (flattenRow x fields res)).Nodup := by
  rw [List.nodup_iff_pairwise_ne, List.pairwise_flatMap]
  refine ⟨fun g _ => List.nodup_iff_pairwise_ne.mp (flattenRow_nodup x fields res g hres), ?_⟩
  have hp : rows.Pairwise (fun a b => a.key ≠ b.key) := by
    rw [List.nodup_iff_pairwise_ne, List.pairwise_map] at hk; exact hk
  refine List.Pairwise.imp ?_ hp
  intro g1 g2 hne a ha b hb heq
  apply hne
  rw [← (flattenRow_key_ts x fields res g1 a ha).1, ← (flattenRow_key_ts x fields res g2 b hb).1, heq]

/-- `specOut` emits no row twice -/
theorem specOut_nodup (x : Ext) (q : Query) (metas : List KeyMeta) (A : List AccRow) (lo hi P : Int) :
    ((specBuckets q A lo hi P).filterMap (fun kT => specAt x q metas A lo hi P kT.1 kT.2)).Nodup := by
  rw [List.nodup_iff_pairwise_ne]
  refine List.Pairwise.filterMap _ ?_ (List.nodup_iff_pairwise_ne.mp (nodup_eraseDups _ _ (Nat.le_refl _)))
  intro kT kT' hne b hb b' hb' heq
  obtain ⟨h1, h2, _⟩ := specAt_some x q metas A lo hi P _ _ b hb
  obtain ⟨h1', h2', _⟩ := specAt_some x q metas A lo hi P _ _ b' hb'
  apply hne
  rw [heq] at h1 h2
  exact Prod.ext (h1.symm.trans h1') (h2.symm.trans h2')

end Zeno
