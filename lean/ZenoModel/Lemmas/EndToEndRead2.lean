/-
End-to-end, stage 2, part 7: the rows `runQuery` returns are the rows `specQuery` returns — same
members, neither list has a row twice, hence equal as multisets (`List.Perm`).
-/
import ZenoModel.Lemmas.EndToEndRead
set_option linter.unusedSimpArgs false
set_option linter.unusedVariables false
namespace Zeno

/-- the emission rule shared by `Flatten` and `specOut` -/
def rowOf (vs : List (Option Rat × Bool)) (ts : Int) (key : Key) : Option QRow :=
  if vs.any (fun p => p.1.isSome && !p.2) then some { ts := ts, key := key, vals := vs.map (fun p => p.1.getD 0) }
  else none

theorem flatAt_rowOf (x : Ext) (fields : List Field) (res : Int) (r : Row) (ts : Int) :
    flatAt x fields res r ts =
      rowOf ((fields.zip r.cols).map (fun (fc : Field × Sq) =>
        (Sq.valueAtTime x fc.2 fc.1.ex res ts, fc.1.ex.isConstant))) ts r.key := rfl

theorem specAt_rowOf (x : Ext) (q : Query) (metas : List KeyMeta) (A : List AccRow) (lo hi P : Int) (k : Key) (T : Int) :
    specAt x q metas A lo hi P k T =
      rowOf (q.outFields.map (fun f =>
        (f.ex.val x (f.ex.acc x (specBucketPts q A (specAdj metas) lo hi P k T)), f.ex.isConstant))) T k := rfl

theorem rowOf_none_vals (fs : List Field) (ts : Int) (key : Key) :
    rowOf (fs.map (fun f => ((none : Option Rat), f.ex.isConstant))) ts key = none := by
  unfold rowOf
  rw [if_neg]
  intro h
  obtain ⟨p, hp, hc⟩ := List.any_eq_true.mp h
  obtain ⟨f, _, rfl⟩ := List.mem_map.mp hp
  simp at hc

/-- FLATTEN = SPEC, bucket by bucket: at a grid time `T`, the loop body of `Flatten` on the grouped
    row with key `k` yields the row `specOut` builds for the bucket `(k, T)`; nothing outside the window -/
theorem e2e_flatAt (x : Ext) {cfg : TableCfg} {ops : List StoreOp} {q : Query} {metas : List KeyMeta} {pl : Plan}
    (C : E2ECtx x cfg ops q metas pl) (hall : ∀ f ∈ q.outFields, PlainField x cfg q metas f)
    (g : Row) (hg : g ∈ e2eGroup x cfg ops q metas pl) (T : Int)
    (hT : (gUntilOf cfg (runStore x cfg ops).now pl - T) % gResOf cfg pl = 0) :
    flatAt x q.outFields (gResOf cfg pl) g T =
      if gAsOfOf cfg (runStore x cfg ops).now pl < T ∧ T ≤ gUntilOf cfg (runStore x cfg ops).now pl
      then specAt x q metas (specRows q metas (acceptedRows cfg true (pointsOf ops)).1)
        (gAsOfOf cfg (runStore x cfg ops).now pl) (gUntilOf cfg (runStore x cfg ops).now pl) (gResOf cfg pl) g.key T
      else none := by
  rw [flatAt_rowOf, e2e_flat_vs x C hall g hg T hT]
  by_cases hw : gAsOfOf cfg (runStore x cfg ops).now pl < T ∧ T ≤ gUntilOf cfg (runStore x cfg ops).now pl
  · simp only [if_pos hw]
    rw [specAt_rowOf]
  · simp only [if_neg hw]
    exact rowOf_none_vals _ _ _

/-- a row of the flattened result comes from one grouped row at one grid time -/
theorem mem_e2e_flat (x : Ext) {cfg : TableCfg} {ops : List StoreOp} {q : Query} {metas : List KeyMeta} {pl : Plan}
    (C : E2ECtx x cfg ops q metas pl) (hall : ∀ f ∈ q.outFields, PlainField x cfg q metas f) (row : QRow) :
    row ∈ (e2eGroup x cfg ops q metas pl).flatMap (flattenRow x q.outFields (gResOf cfg pl)) ↔
      ∃ g ∈ e2eGroup x cfg ops q metas pl, ∃ T,
        (gUntilOf cfg (runStore x cfg ops).now pl - T) % gResOf cfg pl = 0 ∧
        flatAt x q.outFields (gResOf cfg pl) g T = some row := by
  rw [List.mem_flatMap]
  constructor
  · intro ⟨g, hg, hr⟩
    exact ⟨g, hg, (mem_flattenRow x _ _ _ g C.resPos (e2e_group_onGrid x C hall g hg) row).mp hr⟩
  · intro ⟨g, hg, hr⟩
    exact ⟨g, hg, (mem_flattenRow x _ _ _ g C.resPos (e2e_group_onGrid x C hall g hg) row).mpr hr⟩

theorem flatAt_key_ts (x : Ext) (fields : List Field) (res : Int) (r : Row) (ts : Int) (row : QRow)
    (h : flatAt x fields res r ts = some row) : row.key = r.key ∧ row.ts = ts := by
  rw [flatAt_rowOf] at h
  unfold rowOf at h
  split at h
  · injection h with h; rw [← h]; exact ⟨rfl, rfl⟩
  · cases h

end Zeno
