/-
Helper lemmas for C09 about the model functions of Model/Sort.lean that do not mention the
specification: the row-callback folds (`flatIterate` with `limitCb`/`offsetCb`/`collectCb`)
and the generic insertion sort (`insertBy`/`isortBy`) for an arbitrary `lt`.
Core Lean only.
-/
import ZenoModel.Model.Sort

namespace Zeno.SortLemmas
open Zeno

/-! ### callback folds -/

theorem flatIterate_collect (out xs : List FlatRow) :
    flatIterate collectCb out xs = out ++ xs := by
  induction xs generalizing out with
  | nil => simp [flatIterate]
  | cons r rs ih => simp [flatIterate, collectCb, ih]

/-- `Limit` in front of ANY downstream callback behaves like feeding that callback the first
    `lim - idx` rows. -/
theorem flatIterate_limitCb {σ : Type} (lim : Nat) (cb : OnRow σ) (idx : Nat) (s : σ)
    (xs : List FlatRow) :
    (flatIterate (limitCb lim cb) (idx, s) xs).2 = flatIterate cb s (xs.take (lim - idx)) := by
  induction xs generalizing idx s with
  | nil => simp [flatIterate]
  | cons r rs ih =>
    by_cases h : idx < lim
    · have e : lim - idx = (lim - (idx + 1)) + 1 := by omega
      rw [e, List.take_succ_cons]
      cases hcb : cb s r with
      | mk s' more =>
        cases more with
        | true => simp [flatIterate, limitCb, h, hcb, ih]
        | false => simp [flatIterate, limitCb, h, hcb]
    · have e : lim - idx = 0 := by omega
      simp [flatIterate, limitCb, h, e]

/-- `Offset` in front of ANY downstream callback behaves like feeding that callback the rows
    after the first `off - idx`. -/
theorem flatIterate_offsetCb {σ : Type} (off : Nat) (cb : OnRow σ) (idx : Nat) (s : σ)
    (xs : List FlatRow) :
    (flatIterate (offsetCb off cb) (idx, s) xs).2 = flatIterate cb s (xs.drop (off - idx)) := by
  induction xs generalizing idx s with
  | nil => simp [flatIterate]
  | cons r rs ih =>
    by_cases h : idx ≥ off
    · have e : off - idx = 0 := by omega
      have e' : off - (idx + 1) = 0 := by omega
      cases hcb : cb s r with
      | mk s' more =>
        cases more with
        | true =>
          have := ih (idx + 1) s'
          simp [e'] at this
          simp [flatIterate, offsetCb, h, hcb, e, this]
        | false => simp [flatIterate, offsetCb, h, hcb, e]
    · have e : off - idx = (off - (idx + 1)) + 1 := by omega
      rw [e, List.drop_succ_cons]
      simp [flatIterate, offsetCb, h, ih]

/-! ### insertion sort for an arbitrary `lt` -/

theorem insertBy_perm (lt : FlatRow → FlatRow → Bool) (x : FlatRow) (ys : List FlatRow) :
    (insertBy lt x ys).Perm (x :: ys) := by
  induction ys with
  | nil => simp [insertBy]
  | cons y ys ih =>
    simp only [insertBy]
    split
    · exact (List.Perm.cons y ih).trans (List.Perm.swap x y ys)
    · exact List.Perm.refl _

theorem isortBy_perm (lt : FlatRow → FlatRow → Bool) (xs : List FlatRow) :
    (isortBy lt xs).Perm xs := by
  induction xs with
  | nil => simp [isortBy]
  | cons x xs ih =>
    simp only [isortBy]
    exact (insertBy_perm lt x _).trans (List.Perm.cons x ih)

/-- "non-decreasing": no later element is strictly less than an earlier one -/
def SortedBy (lt : FlatRow → FlatRow → Bool) (l : List FlatRow) : Prop :=
  l.Pairwise (fun a b => lt b a = false)

/-- the two facts a comparison sort needs from `lt` on the rows at hand -/
structure WeakOn (lt : FlatRow → FlatRow → Bool) (P : FlatRow → Prop) : Prop where
  asymm : ∀ a b, P a → P b → lt a b = true → lt b a = false
  negTrans : ∀ a b c, P a → P b → P c → lt a b = false → lt b c = false → lt a c = false

theorem insertBy_sorted {lt : FlatRow → FlatRow → Bool} {P : FlatRow → Prop} (w : WeakOn lt P)
    (x : FlatRow) (hx : P x) (ys : List FlatRow) (hys : ∀ y ∈ ys, P y) (hs : SortedBy lt ys) :
    SortedBy lt (insertBy lt x ys) := by
  induction ys with
  | nil => simp [insertBy, SortedBy]
  | cons y ys ih =>
    have hy : P y := hys y (by simp)
    have hys' : ∀ z ∈ ys, P z := fun z hz => hys z (by simp [hz])
    have hs' : SortedBy lt ys := (List.pairwise_cons.mp hs).2
    have hyz : ∀ z ∈ ys, lt z y = false := (List.pairwise_cons.mp hs).1
    simp only [insertBy]
    by_cases h : lt y x = true
    · simp only [h, if_true]
      refine List.pairwise_cons.mpr ⟨?_, ih hys' hs'⟩
      intro z hz
      have hz' : z = x ∨ z ∈ ys := by
        have := (insertBy_perm lt x ys).mem_iff.mp hz
        simpa using this
      rcases hz' with rfl | hz'
      · exact w.asymm y z hy hx h
      · exact hyz z hz'
    · have h' : lt y x = false := by simpa using h
      simp only [h]
      refine List.pairwise_cons.mpr ⟨?_, hs⟩
      intro z hz
      rcases List.mem_cons.mp hz with rfl | hz'
      · exact h'
      · exact w.negTrans z y x (hys' z hz') hy hx (hyz z hz') h'

theorem isortBy_sorted {lt : FlatRow → FlatRow → Bool} {P : FlatRow → Prop} (w : WeakOn lt P)
    (xs : List FlatRow) (hxs : ∀ x ∈ xs, P x) : SortedBy lt (isortBy lt xs) := by
  induction xs with
  | nil => simp [isortBy, SortedBy]
  | cons x xs ih =>
    simp only [isortBy]
    have hxs' : ∀ z ∈ xs, P z := fun z hz => hxs z (by simp [hz])
    refine insertBy_sorted w x (hxs x (by simp)) _ ?_ (ih hxs')
    intro y hy
    exact hxs' y ((isortBy_perm lt xs).mem_iff.mp hy)

end Zeno.SortLemmas
