/-
SubMerge semantics, part 12 (stage 3): the raw points a grouped cell accumulates are, up to order,
exactly the points the raw-point spec `specQuery` puts into the bucket.
-/
import ZenoModel.Lemmas.SubMergeSemGroup4
import ZenoModel.Lemmas.SubMergeSemPerm
import ZenoModel.Model.QuerySpec
set_option linter.unusedSimpArgs false
namespace Zeno

/-- the accepted rows of one (group key, native period), in arrival order, as points -/
def keyPeriodPts (A : List AccRow) (adj : AccRow → Pt) (κ : Key) (t : Int) : List Pt :=
  (A.filter (fun a => a.key == κ && a.period == t)).map adj

/-- the spec's points of the bucket `(k, T)`: `mine`/`pts` of `specQuery` — the accepted rows
    inside the window whose projected key is `k` and whose out period is `T`, in arrival order -/
def specBucketPts (q : Query) (A : List AccRow) (adj : AccRow → Pt) (lo hi P : Int) (k : Key) (T : Int) : List Pt :=
  ((A.filter (fun r => decide (lo < r.period ∧ r.period ≤ hi))).filter
    (fun r => (gSlice q r.key, hi - ((hi - r.period) / P) * P) == (k, T))).map adj

theorem bucket_pred_iff (q : Query) {res otherRes : Int} {kk : Nat} {lo hi : Int}
    (w : SMWindow res otherRes kk lo hi) (rows : List Row) (k : Key) (T : Int) (hT : (hi - T) % res = 0)
    (a : AccRow) (hper : a.period % otherRes = 0)
    (hcover : lo < a.period ∧ a.period ≤ hi → ∃ r ∈ rows, r.key = a.key) :
    ((groupMembers q rows k).any (fun r => (bucketTimes otherRes kk lo hi T).any
        (fun t => a.key == r.key && a.period == t)) = true) ↔
      (((gSlice q a.key, hi - ((hi - a.period) / res) * res) == (k, T)) = true ∧
        (lo < a.period ∧ a.period ≤ hi)) := by
  have hkI : (0 : Int) < (kk : Int) := by have := w.kPos; omega
  have hres : 0 < res := by rw [w.resEq]; exact Int.mul_pos hkI w.otherResPos
  have hpair : ((gSlice q a.key, hi - ((hi - a.period) / res) * res) == (k, T)) = true ↔
      (gSlice q a.key = k ∧ hi - ((hi - a.period) / res) * res = T) := by
    rw [beq_iff_eq, Prod.mk.injEq]
  rw [hpair]
  constructor
  · intro h
    obtain ⟨r, hr, h2⟩ := List.any_eq_true.mp h
    obtain ⟨t, ht, h3⟩ := List.any_eq_true.mp h2
    rw [Bool.and_eq_true, beq_iff_eq, beq_iff_eq] at h3
    obtain ⟨hk, hp⟩ := h3
    have hr' := List.mem_filter.mp hr
    have hsl : gSlice q r.key = k := by simpa using hr'.2
    obtain ⟨⟨b1, b2, _⟩, b4, b5⟩ := (mem_bucketTimes w.otherResPos kk lo hi T t).mp ht
    rw [← w.resEq] at b1
    subst hp
    refine ⟨⟨by rw [hk]; exact hsl, ?_⟩, b4, b5⟩
    exact (outPeriod_unique hres hT b1 b2).symm
  · intro ⟨⟨hsl, hout⟩, hw⟩
    obtain ⟨r, hr, hk⟩ := hcover hw
    obtain ⟨_, o2, o3⟩ := outPeriod_spec (hi := hi) (P := res) (t := a.period) hres
    have hout' : outPeriod hi res a.period = T := hout
    rw [hout'] at o2 o3
    have hTal : T % otherRes = 0 := by
      have h1 : (hi - T) % otherRes = 0 := by
        have := hT; rw [w.resEq] at this; exact emod_of_mul _ this
      have : T = hi - (hi - T) := by omega
      rw [this]; exact emod_sub_of w.hiAl h1
    apply List.any_eq_true.mpr
    refine ⟨r, List.mem_filter.mpr ⟨hr, by rw [hk]; simpa using hsl⟩, ?_⟩
    apply List.any_eq_true.mpr
    refine ⟨a.period, ?_, by simp [hk]⟩
    rw [mem_bucketTimes w.otherResPos]
    rw [← w.resEq]
    exact ⟨⟨o2, o3, emod_sub_of hTal hper⟩, hw⟩

/-- the points a grouped cell accumulates (scan row by scan row, native period by native period)
    are a permutation of the spec's bucket -/
theorem memberPoints_perm_spec (q : Query) (A : List AccRow) (adj : AccRow → Pt) {res otherRes : Int} {kk : Nat}
    {lo hi : Int} (w : SMWindow res otherRes kk lo hi) (rows : List Row) (k : Key) (T : Int)
    (hT : (hi - T) % res = 0) (hper : ∀ a ∈ A, a.period % otherRes = 0)
    (hkeys : (rows.map (·.key)).Nodup)
    (hcover : ∀ a ∈ A, lo < a.period ∧ a.period ≤ hi → ∃ r ∈ rows, r.key = a.key) :
    (memberPoints (fun (r : Row) t => keyPeriodPts A adj r.key t) (groupMembers q rows k)
      (bucketTimes otherRes kk lo hi T)).Perm (specBucketPts q A adj lo hi res k T) := by
  have hnd_ts := nodup_bucketTimes w.otherResPos kk lo hi T
  have hnd_rows : rows.Nodup := nodup_of_nodup_map (·.key) rows hkeys
  have hnd_l : (groupMembers q rows k).Nodup := List.Pairwise.filter _ hnd_rows
  unfold memberPoints keyPeriodPts specBucketPts
  -- inner: per scan row, over the native periods of the bucket
  have inner : ∀ r ∈ groupMembers q rows k,
      ((bucketTimes otherRes kk lo hi T).map (fun t => (A.filter (fun a => a.key == r.key && a.period == t)).map adj)).flatten.Perm
        ((A.filter (fun a => (bucketTimes otherRes kk lo hi T).any (fun t => a.key == r.key && a.period == t))).map adj) := by
    intro r _
    have e1 : ((bucketTimes otherRes kk lo hi T).map
          (fun t => (A.filter (fun a => a.key == r.key && a.period == t)).map adj)).flatten =
        (((bucketTimes otherRes kk lo hi T).map (fun t => A.filter (fun a => a.key == r.key && a.period == t))).flatten).map adj := by
      rw [List.map_flatten, List.map_map]; rfl
    rw [e1]
    apply List.Perm.map
    apply flatten_filters_perm (fun (t : Int) (a : AccRow) => a.key == r.key && a.period == t) A _ hnd_ts
    intro a _ c _ c' _ h1 h2
    rw [Bool.and_eq_true, beq_iff_eq, beq_iff_eq] at h1 h2
    rw [← h1.2, ← h2.2]
  refine (flatten_map_perm _ _ _ inner).trans ?_
  -- outer: over the scan rows of the group
  have e2 : ((groupMembers q rows k).map (fun r =>
        (A.filter (fun a => (bucketTimes otherRes kk lo hi T).any (fun t => a.key == r.key && a.period == t))).map adj)).flatten =
      (((groupMembers q rows k).map (fun r =>
        A.filter (fun a => (bucketTimes otherRes kk lo hi T).any (fun t => a.key == r.key && a.period == t)))).flatten).map adj := by
    rw [List.map_flatten, List.map_map]; rfl
  rw [e2]
  apply List.Perm.map
  have outer := flatten_filters_perm
    (fun (r : Row) (a : AccRow) => (bucketTimes otherRes kk lo hi T).any (fun t => a.key == r.key && a.period == t))
    A (groupMembers q rows k) hnd_l (by
      intro a _ c hc c' hc' h1 h2
      obtain ⟨t, _, h1'⟩ := List.any_eq_true.mp h1
      obtain ⟨t', _, h2'⟩ := List.any_eq_true.mp h2
      rw [Bool.and_eq_true, beq_iff_eq, beq_iff_eq] at h1' h2'
      exact inj_of_nodup_map (·.key) rows hkeys c (List.mem_filter.mp hc).1 c' (List.mem_filter.mp hc').1
        (h1'.1.symm.trans h2'.1))
  refine outer.trans ?_
  rw [List.filter_filter]
  have hcongr : A.filter (fun a => (groupMembers q rows k).any (fun r =>
        (bucketTimes otherRes kk lo hi T).any (fun t => a.key == r.key && a.period == t))) =
      A.filter (fun a => ((gSlice q a.key, hi - ((hi - a.period) / res) * res) == (k, T)) &&
        decide (lo < a.period ∧ a.period ≤ hi)) := by
    apply List.filter_congr
    intro a ha
    rw [Bool.eq_iff_iff, bucket_pred_iff q w rows k T hT a (hper a ha) (hcover a ha), Bool.and_eq_true,
      decide_eq_true_eq]
  rw [hcongr]

end Zeno
