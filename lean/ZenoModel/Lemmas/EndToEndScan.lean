/-
End-to-end, part 3: what `core.Group` needs to know about the rows of a table scan
(`Store.iterate`) of a reachable store — one row per key (`hkeys` of `sem_groupRows_spec`), every
row as wide as the scanned field list, and column `i` of the row with key `κ` is `scanCol … κ i`,
the reading of the scan StoreProj characterises; that column is a well-formed sequence on the
table's period grid (`GroupCell.scan`).
-/
import ZenoModel.Lemmas.StoreProjSpec
set_option linter.unusedSimpArgs false
set_option linter.unusedVariables false
namespace Zeno

/-- what the end-to-end proof needs of the rows handed to `groupRows`: one row per key, every row
    has a column `j`, and that column is column `i` of the store's full scan for the row's key -/
structure ScanView (cfg : TableCfg) (st : Store) (i j : Nat) (rows : List Row) : Prop where
  keys : (rows.map (·.key)).Nodup
  width : ∀ r ∈ rows, j < r.cols.length
  col : ∀ r ∈ rows, r.cols.getD j none = scanCol cfg st true r.key i
  /-- a key without a row reads `none` in the full scan too -/
  cover : ∀ κ, (∀ r ∈ rows, r.key ≠ κ) → scanCol cfg st true κ i = none

theorem nodup_keys_of_pairwise {rows : List Row} (h : rows.Pairwise (fun a b => a.key ≠ b.key)) :
    (rows.map (·.key)).Nodup := by
  rw [List.nodup_iff_pairwise_ne, List.pairwise_map]; exact h

theorem pairwise_of_nodup_keys {rows : List Row} (h : (rows.map (·.key)).Nodup) :
    rows.Pairwise (fun a b => a.key ≠ b.key) := by
  rw [List.nodup_iff_pairwise_ne, List.pairwise_map] at h; exact h

/-- in a list with pairwise different keys, looking a member's key up finds that member -/
theorem find_self_of_pairwise : ∀ {rows : List Row}, rows.Pairwise (fun a b => a.key ≠ b.key) →
    ∀ r ∈ rows, rows.find? (fun m => m.key == r.key) = some r := by
  intro rows
  induction rows with
  | nil => intro _ r hr; simp at hr
  | cons a l ih =>
    intro hp r hr
    rw [List.pairwise_cons] at hp
    rw [List.mem_cons] at hr
    rcases hr with rfl | hr
    · simp
    · have hne : (a.key == r.key) = false := by
        have := hp.1 r hr
        simpa using this
      simp only [List.find?_cons, hne]
      exact ih hp.2 r hr

/-- the rows of a full scan carry pairwise different keys -/
theorem scan_keys_pairwise (cfg : TableCfg) (st : Store) (sinv : StoreInv cfg st) (includeMem : Bool) :
    (st.iterate cfg cfg.fields includeMem).rows.Pairwise (fun a b => a.key ≠ b.key) := by
  rw [iterate_rows]
  generalize hmem : (if includeMem then st.mem else []) = mem
  have hmu : mem.Pairwise (fun a b => a.key ≠ b.key) := by
    rw [← hmem]; split
    · exact sinv.memOk.uniq
    · exact List.Pairwise.nil
  rw [List.pairwise_append]
  refine ⟨?_, ?_, ?_⟩
  · refine List.Pairwise.filterMap _ ?_ sinv.fileOk.uniq
    intro a a' hne b hb b' hb'
    rw [iterFileRow_key cfg st _ _ a b hb, iterFileRow_key cfg st _ _ a' b' hb']
    exact hne
  · exact List.Pairwise.map _ (fun a b h => h) (List.Pairwise.filter _ hmu)
  · intro a ha b hb
    obtain ⟨r, hr, hra⟩ := List.mem_filterMap.mp ha
    obtain ⟨m, hm, rfl⟩ := List.mem_map.mp hb
    have hk := iterFileRow_key cfg st _ _ r a hra
    have hnot := (List.mem_filter.mp hm).2
    rw [hk]
    intro heq
    have : (st.file.getD []).any (fun r => r.key == m.key) = true :=
      List.any_eq_true.mpr ⟨r, hr, by simpa [iterMemRow] using heq⟩
    rw [this] at hnot
    exact absurd hnot (by simp)

/-- … and are as wide as the table -/
theorem scan_width (cfg : TableCfg) (hd : FieldsDistinct cfg.fields) (st : Store) (sinv : StoreInv cfg st)
    (hn : 0 < cfg.fields.length) (includeMem : Bool) :
    ∀ r ∈ (st.iterate cfg cfg.fields includeMem).rows, r.cols.length = cfg.fields.length := by
  intro r hr
  rw [iterate_rows, List.mem_append] at hr
  rcases hr with hr | hr
  · obtain ⟨fr, hfr, hw⟩ := List.mem_filterMap.mp hr
    have hff : st.fileFields = cfg.fields.map some := by
      rcases sinv.fileFields with h | h
      · rw [h] at hfr; simp at hfr
      · exact h
    obtain ⟨o1, o2, _⟩ := outCols_spec cfg hd st sinv.memFields hff
      (if includeMem then st.mem else []) (st.now - cfg.retention) fr (sinv.fileOk.len fr hfr) hn
    unfold iterFileRow at hw
    rw [o2, if_pos rfl] at hw
    injection hw with hw
    rw [← hw]; exact o1
  · obtain ⟨m, _, rfl⟩ := List.mem_map.mp hr
    unfold iterMemRow
    simp only
    rw [sinv.memFields]
    obtain ⟨g1, _⟩ := mergeMemCols_spec hd cfg.res (st.now - cfg.retention)
      (cfg.fields.map (fun _ => none)) m.cols (by simp)
    rw [g1]; simp

/-- the full memstore-inclusive scan of a reachable store is a `ScanView` of itself -/
theorem scanView_full (cfg : TableCfg) (hd : FieldsDistinct cfg.fields) (st : Store) (sinv : StoreInv cfg st)
    (i : Nat) (hi : i < cfg.fields.length) :
    ScanView cfg st i i (st.iterate cfg cfg.fields true).rows := by
  have hp := scan_keys_pairwise cfg st sinv true
  refine ⟨nodup_keys_of_pairwise hp, ?_, ?_, ?_⟩
  · intro r hr
    rw [scan_width cfg hd st sinv (by omega) true r hr]; exact hi
  · intro r hr
    unfold scanCol
    rw [find_self_of_pairwise hp r hr]
  · intro κ hκ
    unfold scanCol
    have : (st.iterate cfg cfg.fields true).rows.find? (fun r => r.key == κ) = none := by
      rw [List.find?_eq_none]
      intro r hr
      simpa using hκ r hr
    rw [this]

/-- the scan column of a store reached by a script is a well-formed sequence on the table's grid
    (it is the view of the column model, whose file and memstore series satisfy `ColInv`) -/
theorem scanCol_ok (x : Ext) (cfg : TableCfg) (wf : CfgWF cfg) (ops : List StoreOp) (hpos : StorePos ops)
    (key : Key) (i : Nat) (hi : i < cfg.fields.length)
    (hv : (cfg.fields[i]).ex.valid = true) (hp : (cfg.fields[i]).ex.noPtile = true) :
    SqOk cfg.res (scanCol cfg (runStore x cfg ops) true key i) ∧
      SqWF (cfg.fields[i]).ex (scanCol cfg (runStore x cfg ops) true key i) := by
  obtain ⟨sinv, pinv⟩ := run_proj x cfg wf key i hi ops hpos
  rw [view_proj cfg wf.distinct _ true key i hi _ sinv pinv]
  have he : (ccfgOf cfg i).e = (cfg.fields[i]).ex := by rw [ccfgOf_eq cfg i hi]
  have hv' : (ccfgOf cfg i).e.valid = true := by rw [he]; exact hv
  have hp' : (ccfgOf cfg i).e.noPtile = true := by rw [he]; exact hp
  have inv := colInv_run x (ccfgOf cfg i) hv' hp' wf.res_pos _ (opsPos_colOpsOf x cfg key ops (Store.init cfg) hpos)
  simp only [Col.view, if_true]
  rw [← he]
  exact merge_inv hv' hp' wf.res_pos _ _ inv.fileOk inv.memOk inv.fileWF inv.memWF _

/-- a sequence on the grid holds nothing at a time off the grid -/
theorem at_off_grid (e : Ex) {res : Int} (s : Sq) (hs : SqOk res s) (t : Int) (ht : t % res ≠ 0) :
    s.at e res t = e.empty := by
  cases s with
  | none => rfl
  | some q =>
    have ha : q.hi % res = 0 := hs.aligned
    unfold Sq.at
    simp only
    rw [if_neg]
    intro ⟨h1, _⟩
    apply ht
    have : t = q.hi - (q.hi - t) := by omega
    rw [this, Int.sub_emod, ha, h1]; simp

end Zeno
