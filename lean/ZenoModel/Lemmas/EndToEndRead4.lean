/-
End-to-end, stage 2, part 9: the rows of `runQuery` and of `specQuery` have the same members.
-/
import ZenoModel.Lemmas.EndToEndRead3
set_option linter.unusedSimpArgs false
set_option linter.unusedVariables false
namespace Zeno

/-- a bucket that yields a spec row has a grouped row for its key -/
theorem e2e_group_row_exists (x : Ext) {cfg : TableCfg} {ops : List StoreOp} {q : Query} {metas : List KeyMeta} {pl : Plan}
    (C : E2ECtx x cfg ops q metas pl) (hall : ∀ f ∈ q.outFields, PlainField x cfg q metas f)
    (k : Key) (T : Int) (row : QRow)
    (hw : gAsOfOf cfg (runStore x cfg ops).now pl < T ∧ T ≤ gUntilOf cfg (runStore x cfg ops).now pl)
    (hT : (gUntilOf cfg (runStore x cfg ops).now pl - T) % gResOf cfg pl = 0)
    (h : specAt x q metas (specRows q metas (acceptedRows cfg true (pointsOf ops)).1)
      (gAsOfOf cfg (runStore x cfg ops).now pl) (gUntilOf cfg (runStore x cfg ops).now pl) (gResOf cfg pl) k T = some row) :
    ∃ g ∈ e2eGroup x cfg ops q metas pl, g.key = k := by
  obtain ⟨_, _, f, hf, hs⟩ := specAt_some x q metas _ _ _ _ k T row h
  obtain ⟨i, hi, rfl⟩ := List.getElem_of_mem hf
  have hout : q.outFields[i]? = some (q.outFields[i]) := List.getElem?_eq_getElem hi
  have pf := hall _ hf
  have hv := e2e_cell_value x C i _ hout pf k T hT
  rw [if_pos hw] at hv
  by_cases hex : ∃ g ∈ e2eGroup x cfg ops q metas pl, g.key = k
  · exact hex
  · exfalso
    have habs : ∀ g ∈ e2eGroup x cfg ops q metas pl, g.key ≠ k := fun g hg hk => hex ⟨g, hg, hk⟩
    have := groupCell_absent cfg (runStore x cfg ops).now q pl (includedFields cfg q) metas (e2eScan x cfg ops q metas) k i habs
    rw [this, at_none, pf.noValueOnEmpty] at hv
    rw [← hv] at hs
    cases hs

/-- SAME MEMBERS -/
theorem e2e_mem_iff (x : Ext) {cfg : TableCfg} {ops : List StoreOp} {q : Query} {metas : List KeyMeta} {pl : Plan}
    (C : E2ECtx x cfg ops q metas pl) (hall : ∀ f ∈ q.outFields, PlainField x cfg q metas f) (row : QRow) :
    row ∈ (e2eGroup x cfg ops q metas pl).flatMap (flattenRow x q.outFields (gResOf cfg pl)) ↔
      row ∈ (specBuckets q (specRows q metas (acceptedRows cfg true (pointsOf ops)).1)
          (gAsOfOf cfg (runStore x cfg ops).now pl) (gUntilOf cfg (runStore x cfg ops).now pl) (gResOf cfg pl)).filterMap
        (fun kT => specAt x q metas (specRows q metas (acceptedRows cfg true (pointsOf ops)).1)
          (gAsOfOf cfg (runStore x cfg ops).now pl) (gUntilOf cfg (runStore x cfg ops).now pl) (gResOf cfg pl) kT.1 kT.2) := by
  rw [mem_e2e_flat x C hall row, List.mem_filterMap]
  constructor
  · intro ⟨g, hg, T, hT, hrow⟩
    rw [e2e_flatAt x C hall g hg T hT] at hrow
    split at hrow
    · refine ⟨(g.key, T), ?_, hrow⟩
      exact specAt_some_visited x q metas _ _ _ _ g.key T row (fun f hf => (hall f hf).noValueOnEmpty) hrow
    · cases hrow
  · intro ⟨kT, hb, hrow⟩
    obtain ⟨k, T⟩ := kT
    obtain ⟨hw, hT⟩ := specBuckets_window C.resPos hb
    obtain ⟨g, hg, rfl⟩ := e2e_group_row_exists x C hall k T row hw hT hrow
    refine ⟨g, hg, T, hT, ?_⟩
    rw [e2e_flatAt x C hall g hg T hT, if_pos hw]
    exact hrow

/-- STAGE 2: the rows `runQuery` returns for the store reached by a script are, as a multiset, the
    rows `specQuery` returns on the points of the script -/
theorem e2e_runQuery_perm (x : Ext) {cfg : TableCfg} {ops : List StoreOp} {q : Query} {metas : List KeyMeta} {pl : Plan}
    (C : E2ECtx x cfg ops q metas pl) (hall : ∀ f ∈ q.outFields, PlainField x cfg q metas f)
    (hne : q.outFields ≠ []) (hng : pl.needsGroupBy = true) (hh : q.hasHaving = false) :
    ∃ R S, runQuery x cfg (runStore x cfg ops) q metas true = .ok R ∧
      specQuery x cfg true (pointsOf ops) q metas = .ok S ∧ R.Perm S := by
  have hinc : (includedFields cfg q).isEmpty = false := by
    cases hq : q.outFields with
    | nil => exact absurd hq hne
    | cons f fs =>
      obtain ⟨j, inF, hin, _, _⟩ := (hall f (by rw [hq]; simp)).scanned.scanned
      cases hi : includedFields cfg q with
      | nil => rw [hi] at hin; simp at hin
      | cons a as => rfl
  have hclock : (acceptedRows cfg true (pointsOf ops)).2 = (runStore x cfg ops).now := by
    rw [acceptedRows_eq, runStore_now, nowAfter_eq_clockFrom]
  refine ⟨_, specOut x cfg q metas (acceptedRows cfg true (pointsOf ops)).1 (runStore x cfg ops).now pl,
    runQuery_grouped x cfg _ q metas pl C.plan hinc hng hh, ?_, ?_⟩
  · rw [specQuery_eq, hclock, C.plan]
  · rw [specOut_eq x cfg q metas _ _ pl hh]
    refine (List.perm_ext_iff_of_nodup ?_ (specOut_nodup x q metas _ _ _ _)).mpr (e2e_mem_iff x C hall)
    exact e2e_flat_nodup x _ (groupRows_keys cfg _ q pl _ metas _).1 _ _ C.resPos

end Zeno
