/-
End-to-end, part 6: the grouped cell over the scan of `runStore x cfg ops` is the accumulation of
the accepted raw rows of the script in the spec's bucket.
-/
import ZenoModel.Lemmas.EndToEndMain
set_option linter.unusedSimpArgs false
set_option linter.unusedVariables false
namespace Zeno

/-- "the key of `a` has a row among `rows`" -/
def hasRow (rows : List Row) (a : AccRow) : Bool := rows.any (fun r => r.key == a.key)

theorem hasRow_key (rows : List Row) (a b : AccRow) (h : a.key = b.key) : hasRow rows a = hasRow rows b := by
  unfold hasRow; rw [h]

theorem hasRow_true {rows : List Row} {a : AccRow} {r : Row} (hr : r ∈ rows) (hk : a.key = r.key) :
    hasRow rows a = true := by
  unfold hasRow
  exact List.any_eq_true.mpr ⟨r, hr, by simp [hk]⟩

theorem hasRow_false {rows : List Row} {a : AccRow} (h : hasRow rows a = false) : ∀ r ∈ rows, r.key ≠ a.key := by
  intro r hr hk
  rw [hasRow_true hr hk.symm] at h; cases h

/-- `hstore` of `sem_groupRows_spec`, for the accepted rows restricted to scanned keys -/
theorem e2e_hstore (x : Ext) (cfg : TableCfg) (wf : CfgWF cfg) (ops : List StoreOp) (hpos : StorePos ops)
    (q : Query) (metas : List KeyMeta) (pl : Plan)
    (hpl : planLocal cfg (runStore x cfg ops).now q = .ok pl)
    (hpos0 : 0 < gAsOfOf cfg (runStore x cfg ops).now pl)
    (inFields : List Field) (rows0 : List Row) (i j ti : Nat) (f : Field) (ft : FieldTie cfg q inFields i f j ti)
    (sv : ScanView cfg (runStore x cfg ops) ti j rows0) :
    ∀ r ∈ whereRows q metas rows0, ∀ t,
      gAsOfOf cfg (runStore x cfg ops).now pl < t ∧ t ≤ gUntilOf cfg (runStore x cfg ops).now pl →
      (r.cols.getD j none).at f.ex cfg.res t =
        f.ex.acc x (keyPeriodPts ((specRows q metas (acceptedRows cfg true (pointsOf ops)).1).filter
          (hasRow (whereRows q metas rows0))) (·.pt) r.key t) := by
  intro r hr t ht
  obtain ⟨hti, hex⟩ := ft.tableField
  obtain ⟨hr0, hrw⟩ := (mem_whereRows q metas rows0 r).mp hr
  rw [keyPeriodPts_filter_good _ _ _ r.key t (fun a ha => hasRow_true hr ha),
    keyPeriodPts_specRows q metas _ _ r.key t (fun hw => specWhere_of_runWhere metas r.key (hrw hw)),
    sv.col r hr0, ← hex]
  exact scanCol_at_live x cfg wf ops hpos r.key ti hti (by rw [hex]; exact ft.valid) (by rw [hex]; exact ft.noPtile)
    t (planLocal_window_live cfg _ q pl hpl wf.res_pos t ht.1) (by omega)

/-- the hypothesis of `specBucket_drop_uncovered`: an accepted, WHERE-passing row whose key has no
    scan row belongs to a (key, period) group that accumulates to the empty state -/
theorem e2e_uncovered_empty (x : Ext) (cfg : TableCfg) (wf : CfgWF cfg) (ops : List StoreOp) (hpos : StorePos ops)
    (q : Query) (metas : List KeyMeta) (pl : Plan)
    (hpl : planLocal cfg (runStore x cfg ops).now q = .ok pl)
    (hpos0 : 0 < gAsOfOf cfg (runStore x cfg ops).now pl)
    (inFields : List Field) (rows0 : List Row) (i j ti : Nat) (f : Field) (ft : FieldTie cfg q inFields i f j ti)
    (sv : ScanView cfg (runStore x cfg ops) ti j rows0)
    (hmetas : q.hasWhere = true → ∀ a ∈ (acceptedRows cfg true (pointsOf ops)).1, ∃ m ∈ metas, m.key = a.key) :
    ∀ a ∈ specRows q metas (acceptedRows cfg true (pointsOf ops)).1,
      gAsOfOf cfg (runStore x cfg ops).now pl < a.period ∧ a.period ≤ gUntilOf cfg (runStore x cfg ops).now pl →
      hasRow (whereRows q metas rows0) a = false →
      f.ex.acc x (keyPeriodPts (specRows q metas (acceptedRows cfg true (pointsOf ops)).1) (·.pt) a.key a.period) =
        f.ex.empty := by
  intro a ha hwin hbad
  obtain ⟨hti, hex⟩ := ft.tableField
  obtain ⟨ha0, haw⟩ := (mem_specRows q metas _ a).mp ha
  rw [keyPeriodPts_specRows q metas _ _ a.key a.period haw, ← hex,
    ← scanCol_at_live x cfg wf ops hpos a.key ti hti (by rw [hex]; exact ft.valid) (by rw [hex]; exact ft.noPtile)
      a.period (planLocal_window_live cfg _ q pl hpl wf.res_pos a.period hwin.1) (by omega)]
  have hnone : scanCol cfg (runStore x cfg ops) true a.key ti = none := by
    apply sv.cover
    intro r hr0 hk
    have hr : r ∈ whereRows q metas rows0 := by
      rw [mem_whereRows]
      refine ⟨hr0, fun hw => ?_⟩
      rw [hk]
      exact runWhere_of_specWhere metas a.key (hmetas hw a ha0) (haw hw)
    exact hasRow_false hbad r hr hk
  rw [hnone]; rfl

/-- END-TO-END, for the rows `runQuery` hands to `core.Group` (any scanned field list whose scan is
    a `ScanView` of the store's full scan) -/
theorem e2e_cell (x : Ext) (cfg : TableCfg) (wf : CfgWF cfg) (ops : List StoreOp) (hpos : StorePos ops)
    (q : Query) (metas : List KeyMeta) (pl : Plan)
    (hpl : planLocal cfg (runStore x cfg ops).now q = .ok pl) (hstride : pl.strideSlice = 0)
    (hpos0 : 0 < gAsOfOf cfg (runStore x cfg ops).now pl)
    (inFields : List Field) (rows0 : List Row) (i j ti : Nat) (f : Field) (ft : FieldTie cfg q inFields i f j ti)
    (sv : ScanView cfg (runStore x cfg ops) ti j rows0)
    (hmetas : q.hasWhere = true → ∀ a ∈ (acceptedRows cfg true (pointsOf ops)).1, ∃ m ∈ metas, m.key = a.key)
    (k : Key) (T : Int) (hT : (gUntilOf cfg (runStore x cfg ops).now pl - T) % gResOf cfg pl = 0) :
    (groupCell cfg (runStore x cfg ops).now q pl inFields metas (whereRows q metas rows0) k i).at f.ex (gResOf cfg pl) T =
      if gAsOfOf cfg (runStore x cfg ops).now pl < T ∧ T ≤ gUntilOf cfg (runStore x cfg ops).now pl
      then f.ex.acc x (specBucketPts q (specRows q metas (acceptedRows cfg true (pointsOf ops)).1) (·.pt)
        (gAsOfOf cfg (runStore x cfg ops).now pl) (gUntilOf cfg (runStore x cfg ops).now pl) (gResOf cfg pl) k T)
      else f.ex.empty := by
  have H := groupCell_of_store x cfg wf ops hpos q metas pl hpl hstride hpos0 inFields rows0 i j ti f ft sv
  by_cases hW : gAsOfOf cfg (runStore x cfg ops).now pl < T ∧ T ≤ gUntilOf cfg (runStore x cfg ops).now pl
  · rw [if_pos hW]
    rw [SubMergeSem.sem_groupRows_spec x H metas k T hT hW
      ((specRows q metas (acceptedRows cfg true (pointsOf ops)).1).filter (hasRow (whereRows q metas rows0))) (·.pt)
      ?hper ?hkeys ?hcover
      (e2e_hstore x cfg wf ops hpos q metas pl hpl hpos0 inFields rows0 i j ti f ft sv)]
    · exact (specBucket_drop_uncovered x ft.valid ft.noPtile q _ (·.pt) _ _ _ k T
        (hasRow (whereRows q metas rows0)) (hasRow_key _)
        (e2e_uncovered_empty x cfg wf ops hpos q metas pl hpl hpos0 inFields rows0 i j ti f ft sv hmetas)).symm
    case hper =>
      intro a ha
      have ha0 := ((mem_specRows q metas _ a).mp (List.mem_filter.mp ha).1).1
      rw [acceptedRows_eq] at ha0
      exact accRowsFrom_period cfg wf.res_pos true _ 0 a ha0
    case hkeys => exact List.Nodup.sublist (List.Sublist.map _ (whereRows_sublist q metas rows0)) sv.keys
    case hcover =>
      intro a ha _
      have hg := (List.mem_filter.mp ha).2
      obtain ⟨r, hr, hk⟩ := List.any_eq_true.mp hg
      exact ⟨r, hr, by simpa using hk⟩
  · rw [if_neg hW]
    exact SubMergeSem.groupRows_window_exact H metas k T hW

end Zeno
