/-
Derived selected expressions, part 5 (stage 1): the IF / BOUNDED / unary cases and `sem_apply`.
-/
import ZenoModel.Lemmas.DerivedApply2
set_option linter.unusedSimpArgs false
set_option linter.unusedVariables false
namespace Zeno

theorem matchIdx_any_true {n : Ex} {subs : List Ex} {i : Nat} (hm : n.matchIdx subs = some i) :
    subs.any (fun s => n.sameStr s) = true := by rw [any_eq_matchIdx, hm]; rfl

theorem matchIdx_any_false {n : Ex} {subs : List Ex} (hm : n.matchIdx subs = none) :
    subs.any (fun s => n.sameStr s) = false := by rw [any_eq_matchIdx, hm]; rfl

section
variable {subs : List Ex} {j : Nat} {cj : Ex} (hj : subs[j]? = some cj) (hf : FirstCol subs j) (p : Pt)
include hj hf

theorem semApply_ifE (c : Nat) (w : Ex) (hv : (Ex.ifE c w).valid = true) (hp : (Ex.ifE c w).noPtile = true)
    (ih : SemApply w subs j cj p) : SemApply (.ifE c w) subs j cj p := by
  cases hm : (Ex.ifE c w).matchIdx subs with
  | some i =>
    apply semApply_node_some hj hf p hv hp hm _ (fun st => by simp only [Ex.assemble, hm])
    simp only [Ex.subMergers, matchIdx_any_true hm, if_true]
    exact getD_map_sub subs _ j cj hj
  | none =>
    intro d o rest os r hd ho
    have hvw : w.valid = true := by simpa [Ex.valid] using hv
    have hpw : w.noPtile = true := by simpa [Ex.noPtile] using hp
    have hdw : WF w d := hd
    simp only [Ex.subMergers, matchIdx_any_false hm, Ex.assemble, hm, Bool.false_eq_true, if_false]
    rw [List.getD_eq_getElem?_getD, List.getElem?_map]
    have : ((w.subMergers subs)[j]?.map (fun sm => Option.map (SM.cond c) sm)).getD none =
        ((w.subMergers subs).getD j none).map (SM.cond c) := by
      rw [List.getD_eq_getElem?_getD]; cases (w.subMergers subs)[j]? <;> rfl
    rw [this, applyOpt_cond]
    by_cases hc : p.includes c = true
    · rw [if_pos hc, if_pos hc]; exact ih d o rest os r hdw ho
    · rw [if_neg hc, if_neg hc]
      show d ++ rest = w.mrg d w.empty ++ rest
      rw [mrg_empty_right hvw hpw hdw]

theorem semApply_bounded (w : Ex) (lo hi : Rat) (hv : (Ex.bounded w lo hi).valid = true)
    (hp : (Ex.bounded w lo hi).noPtile = true) (ih : SemApply w subs j cj p) :
    SemApply (.bounded w lo hi) subs j cj p := by
  cases hm : (Ex.bounded w lo hi).matchIdx subs with
  | some i =>
    apply semApply_node_some hj hf p hv hp hm _ (fun st => by simp only [Ex.assemble, hm])
    simp only [Ex.subMergers, matchIdx_any_true hm, if_true]
    exact getD_map_sub subs _ j cj hj
  | none =>
    intro d o rest os r hd ho
    have hdw : WF w d := hd
    simp only [Ex.subMergers, matchIdx_any_false hm, Ex.assemble, hm, Bool.false_eq_true, if_false]
    exact ih d o rest os r hdw ho

theorem semApply_unary (u : Nat) (w : Ex) (hv : (Ex.unary u w).valid = true)
    (hp : (Ex.unary u w).noPtile = true) (ih : SemApply w subs j cj p) :
    SemApply (.unary u w) subs j cj p := by
  cases hm : (Ex.unary u w).matchIdx subs with
  | some i =>
    apply semApply_node_some hj hf p hv hp hm _ (fun st => by simp only [Ex.assemble, hm])
    simp only [Ex.subMergers, matchIdx_any_true hm, if_true]
    exact getD_map_sub subs _ j cj hj
  | none =>
    intro d o rest os r hd ho
    have hdw : WF w d := hd
    simp only [Ex.subMergers, matchIdx_any_false hm, Ex.assemble, hm, Bool.false_eq_true, if_false]
    exact ih d o rest os r hdw ho

/-- STAGE 1, kept column: by induction on the expression -/
theorem semApply_all : ∀ (e : Ex), e.valid = true → e.noPtile = true → e.shiftFree = true →
    SemApply e subs j cj p := by
  intro e
  induction e with
  | field n =>
    intro hv hp _
    exact semApply_node_none hj hf p hv hp (by simp only [Ex.subMergers]; exact getD_map_sub subs _ j cj hj)
      (fun st => rfl)
  | const v =>
    intro hv hp _
    exact semApply_node_none hj hf p hv hp (by simp only [Ex.subMergers]; exact getD_map_sub subs _ j cj hj)
      (fun st => rfl)
  | agg k w _ => intro hv hp _; exact semApply_agg hj hf p k w hv hp
  | avg v w _ _ => intro hv hp _; exact semApply_avg hj hf p v w hv hp
  | bin op l r ihl ihr =>
    intro hv hp hs
    have hv' := hv; have hp' := hp
    simp only [Ex.valid, Bool.and_eq_true] at hv'
    simp only [Ex.noPtile, Bool.and_eq_true] at hp'
    simp only [Ex.shiftFree, Bool.and_eq_true] at hs
    exact semApply_bin hj hf p op l r hv hp (ihl hv'.1 hp'.1 hs.1) (ihr hv'.2 hp'.2 hs.2)
  | ifE c w ih =>
    intro hv hp hs
    exact semApply_ifE hj hf p c w hv hp
      (ih (by simpa [Ex.valid] using hv) (by simpa [Ex.noPtile] using hp) (by simpa [Ex.shiftFree] using hs))
  | bounded w lo hi ih =>
    intro hv hp hs
    exact semApply_bounded hj hf p w lo hi hv hp
      (ih (by simpa [Ex.valid] using hv) (by simpa [Ex.noPtile] using hp) (by simpa [Ex.shiftFree] using hs))
  | unary f w ih =>
    intro hv hp hs
    exact semApply_unary hj hf p f w hv hp
      (ih (by simpa [Ex.valid] using hv) (by simpa [Ex.noPtile] using hp) (by simpa [Ex.shiftFree] using hs))
  | shift w off _ => intro _ _ hs; simp [Ex.shiftFree] at hs
  | ptile id v pe n _ _ => intro _ hp; simp [Ex.noPtile] at hp

end

/-- a column `bytetree.New` drops fills no slot -/
theorem assemble_single_dropped (subs : List Ex) (j : Nat) (hnf : ¬ FirstCol subs j) (p : Pt) (o : List Cell) :
    ∀ e : Ex, e.assemble subs p (singleCol subs j o) = e.empty := by
  have node : ∀ (n : Ex) (X : List Cell), X = n.empty →
      (match n.matchIdx subs with | some i => singleCol subs j o i | none => X) = n.empty := by
    intro n X hX
    cases hm : n.matchIdx subs with
    | none => exact hX
    | some i =>
      obtain ⟨s, hs, hms, _⟩ := matchIdx_some hm
      have hij : i ≠ j := fun h => matchIdx_ne_of_not_first (n := n) hnf (by rw [hm, h])
      simp only [singleCol, if_neg hij]
      rw [List.getD_eq_getElem?_getD, hs]
      exact (sameStr_empty hms).symm
  intro e
  induction e with
  | field n => rfl
  | const v => rfl
  | agg k w _ => simp only [Ex.assemble]; exact node _ _ rfl
  | avg v w _ _ => simp only [Ex.assemble]; exact node _ _ rfl
  | bin op l r ihl ihr => simp only [Ex.assemble]; exact node _ _ (by rw [ihl, ihr]; rfl)
  | ifE c w ih => simp only [Ex.assemble]; exact node _ _ (by rw [ih]; simp [Ex.empty])
  | bounded w lo hi ih => simp only [Ex.assemble]; exact node _ _ (by rw [ih]; rfl)
  | unary f w ih => simp only [Ex.assemble]; exact node _ _ (by rw [ih]; rfl)
  | shift w off _ => rfl
  | ptile id v pe n _ _ => rfl

/-- STAGE 1.  The closure `core.Group` holds for selected expression `e` and scanned column `j`
    (`Expr.SubMergers` after `bytetree.New`'s de-duplication; `nil` = do nothing), applied to the
    state `d` of `e` (followed by anything) with the column's state `o`:
    `o` is merged into exactly the slots of `e` that resolve to column `j`. -/
theorem sem_apply_lem {e : Ex} (hv : e.valid = true) (hp : e.noPtile = true) (hs : e.shiftFree = true)
    (subs : List Ex) (j : Nat) (cj : Ex) (hj : subs[j]? = some cj) (p : Pt)
    (d o rest : List Cell) (os : List (List Cell)) (otherRes : Int) (hd : WF e d) (ho : WF cj o) :
    applyOpt (colSM e subs j) (d ++ rest) (o :: os) otherRes p =
      e.mrg d (e.assemble subs p (singleCol subs j o)) ++ rest := by
  rw [colSM_eq e subs j cj hj]
  by_cases hf : FirstCol subs j
  · rw [(dedup_test_iff subs j cj hj).mpr hf]
    exact semApply_all hj hf p e hv hp hs d o rest os otherRes hd ho
  · have : (subs.take j).any (fun e' => e'.sameStr cj) = true := by
      cases hc : (subs.take j).any (fun e' => e'.sameStr cj) with
      | true => rfl
      | false => exact absurd ((dedup_test_iff subs j cj hj).mp hc) hf
    rw [this, assemble_single_dropped subs j hf p o e, mrg_empty_right hv hp hd]
    rfl

end Zeno
