/-
End-to-end, stage 2, part 4: the rows `groupRows` returns — each as wide as the query's field list,
its columns are the cells `groupCell` reads, and a key without a row reads `none`.
-/
import ZenoModel.Lemmas.SubMergeSemGroup3
set_option linter.unusedSimpArgs false
set_option linter.unusedVariables false
namespace Zeno

theorem upsert_len {n : Nat} (out : List Row) (k : Key) (cols : List Sq) (h : ∀ o ∈ out, o.cols.length = n)
    (hc : cols.length = n) : ∀ o ∈ upsertRow out k cols, o.cols.length = n := by
  intro o ho
  unfold upsertRow at ho
  split at ho
  · obtain ⟨o', ho', rfl⟩ := List.mem_map.mp ho
    split
    · exact hc
    · exact h o' ho'
  · rw [List.mem_append] at ho
    rcases ho with ho | ho
    · exact h o ho
    · simp only [List.mem_singleton] at ho
      rw [ho]; exact hc

theorem colsOf_len {n : Nat} (init : List Sq) (out : List Row) (k : Key) (h : ∀ o ∈ out, o.cols.length = n)
    (hi : init.length = n) : (colsOf init out k).length = n := by
  unfold colsOf
  cases hf : out.find? (fun o => o.key == k) with
  | none => exact hi
  | some o => exact h o (List.mem_of_find?_eq_some hf)

theorem foldl_upsert_len {n : Nat} (init : List Sq) (hi : init.length = n) (slice : Key → Key)
    (upd : List Sq → Row → List Sq) (hupd : ∀ cur r, cur.length = n → (upd cur r).length = n) :
    ∀ (rows out : List Row), (∀ o ∈ out, o.cols.length = n) →
      ∀ o ∈ rows.foldl (fun out r => upsertRow out (slice r.key) (upd (colsOf init out (slice r.key)) r)) out,
        o.cols.length = n := by
  intro rows
  induction rows with
  | nil => intro out h; exact h
  | cons r rows ih =>
    intro out h
    simp only [List.foldl_cons]
    exact ih _ (upsert_len out _ _ h (hupd _ r (colsOf_len init out _ h hi)))

/-- every output row of `core.Group` has one column per selected field -/
theorem groupRows_width (cfg : TableCfg) (now : Int) (q : Query) (pl : Plan) (inFields : List Field)
    (metas : List KeyMeta) (rows : List Row) :
    ∀ g ∈ (groupRows cfg now q pl inFields metas rows).1, g.cols.length = q.outFields.length := by
  rw [groupRows_eq]
  exact foldl_upsert_len (q.outFields.map (fun _ => (none : Sq))) (by simp) (gSlice q)
    (groupUpd cfg now q pl inFields metas)
    (fun cur r hc => length_groupUpd cfg now q pl inFields metas cur r hc) rows [] (fun _ h => by simp at h)

/-- … and its column `i` is the cell `groupCell` reads for the row's key -/
theorem groupRows_col_is_cell (cfg : TableCfg) (now : Int) (q : Query) (pl : Plan) (inFields : List Field)
    (metas : List KeyMeta) (rows : List Row) (g : Row) (hg : g ∈ (groupRows cfg now q pl inFields metas rows).1)
    (i : Nat) : g.cols.getD i none = groupCell cfg now q pl inFields metas rows g.key i := by
  unfold groupCell
  rw [colsOf_mem _ _ (groupRows_keys cfg now q pl inFields metas rows).1 g hg]

/-- a key without an output row reads `none` -/
theorem groupCell_absent (cfg : TableCfg) (now : Int) (q : Query) (pl : Plan) (inFields : List Field)
    (metas : List KeyMeta) (rows : List Row) (k : Key) (i : Nat)
    (h : ∀ g ∈ (groupRows cfg now q pl inFields metas rows).1, g.key ≠ k) :
    groupCell cfg now q pl inFields metas rows k i = none := by
  unfold groupCell colsOf
  have : (groupRows cfg now q pl inFields metas rows).1.find? (fun o => o.key == k) = none := by
    rw [List.find?_eq_none]
    intro g hg
    simpa using h g hg
  rw [this]
  simp only [List.getD_eq_getElem?_getD, List.getElem?_map]
  cases q.outFields[i]? <;> rfl

end Zeno
