/-
Helper lemmas for C18, second part: which POINTS a stored value reflects.

`R c p` ("sequence value `c` reflects point `p`") is an arbitrary relation constrained only
by how the sequence operations treat it: `Keeps` (an update adds its point and keeps the
earlier ones; merging and writing to the file keep what either side reflects — the latter is
"the period has not expired") and `Only` (nothing else creates a reflection).  `Has st p`:
every field of p's row reflects `p` in state `st` (file side or memstore side);
`Clean st q`: nothing stored reflects `q`.  Core Lean only.
-/
import ZenoModel.Lemmas.Snapshot

set_option linter.unusedSimpArgs false
set_option linter.unusedVariables false

namespace Zeno.Snap

variable {C P : Type}

structure Keeps (cfg : Cfg C P) (R : C → P → Prop) : Prop where
  upd_self : ∀ f c p, R (cfg.upd f c p) p
  upd_keep : ∀ f c p q, R c q → R (cfg.upd f (some c) p) q
  merge_l : ∀ f a b q, R a q → ∃ c, cfg.merge f (some a) b = some c ∧ R c q
  merge_r : ∀ f a b q, R b q → ∃ c, cfg.merge f a (some b) = some c ∧ R c q
  wr_keep : ∀ (row : Row C) f c q, row.getD f none = some c → R c q →
    ∃ row' c', cfg.wr row = some row' ∧ row'.getD f none = some c' ∧ R c' q

structure Only (cfg : Cfg C P) (R : C → P → Prop) : Prop where
  upd_only : ∀ f c p q, R (cfg.upd f c p) q → q = p ∨ ∃ c0, c = some c0 ∧ R c0 q
  merge_only : ∀ f a b c q, cfg.merge f a b = some c → R c q →
    (∃ a0, a = some a0 ∧ R a0 q) ∨ (∃ b0, b = some b0 ∧ R b0 q)
  wr_only : ∀ (row row' : Row C) f c' q, cfg.wr row = some row' → row'.getD f none = some c' →
    R c' q → ∃ c, row.getD f none = some c ∧ R c q

/-- an optional value reflects `p` -/
def RO (R : C → P → Prop) (o : Option C) (p : P) : Prop := ∃ c, o = some c ∧ R c p

/-- field `f` of an optional row -/
def fld (r : Option (Row C)) (f : Nat) : Option C := (r.getD []).getD f none

theorem mergeRow_getD (cfg : Cfg C P) (fc mc : Option (Row C)) (f : Nat) (hf : f < cfg.nf) :
    (mergeRow cfg fc mc).getD f none = cfg.merge f (fld fc f) (fld mc f) := by
  simp [mergeRow, fld, List.getD_eq_getElem?_getD, List.getElem?_map, List.getElem?_range hf]

theorem mergeRow_getD_ge (cfg : Cfg C P) (fc mc : Option (Row C)) (f : Nat) (hf : cfg.nf ≤ f) :
    (mergeRow cfg fc mc).getD f none = none := by
  have : (mergeRow cfg fc mc).length = cfg.nf := by simp [mergeRow]
  rw [List.getD_eq_getElem?_getD, List.getElem?_eq_none (by omega)]
  rfl

/-- the memstore side of field `f` of key `k`, through the live tree's references -/
def memSide (st : State C) (k : Key) (f : Nat) : Option C :=
  match st.live.find? (fun n => n.key == k) with
  | some n => st.heap.deref ((st.heap.arr n.arr).getD f none)
  | none => none

theorem getD_map_deref (h : Heap C) (l : List (Option Nat)) (f : Nat) :
    (l.map h.deref).getD f none = h.deref (l.getD f none) := by
  simp only [List.getD_eq_getElem?_getD, List.getElem?_map]
  cases l[f]? <;> simp [Heap.deref]

theorem fld_memView (st : State C) (k : Key) (f : Nat) :
    fld (memViewOf st.heap st.live k) f = memSide st k f := by
  unfold fld memViewOf memSide
  cases st.live.find? (fun n => n.key == k) with
  | none => rfl
  | some n =>
    show ((st.heap.arr n.arr).map st.heap.deref).getD f none = _
    exact getD_map_deref _ _ _

theorem deref_none (h : Heap C) : h.deref none = none := rfl
theorem deref_some (h : Heap C) (b : Nat) : h.deref (some b) = h.buf b := rfl
theorem setElem_deref (h : Heap C) (a f : Nat) (e x : Option Nat) :
    (h.setElem a f e).deref x = h.deref x := rfl
theorem allocArr_deref (h : Heap C) (l : List (Option Nat)) (x : Option Nat) :
    (h.allocArr l).1.deref x = h.deref x := rfl
theorem writeBuf_deref (h : Heap C) (b : Nat) (c : C) (x : Nat) :
    (h.writeBuf b c).deref (some x) = if x = b then some c else h.buf x := rfl
theorem allocBuf_deref (h : Heap C) (c : Option C) (x : Nat) :
    (h.allocBuf c).1.deref (some x) = if x = h.nb then c else h.buf x := rfl

/-- every field of p's row reflects `p`, on the file side or on the memstore side -/
def Has (cfg : Cfg C P) (R : C → P → Prop) (st : State C) (p : P) : Prop :=
  ∀ f, f < cfg.nf →
    RO R (fld (st.file (cfg.keyOf p)) f) p ∨ RO R (memSide st (cfg.keyOf p) f) p

theorem getD_set_self {l : List (Option Nat)} {f : Nat} (e : Option Nat) (h : f < l.length) :
    (l.set f e).getD f none = e := by
  simp [List.getD_eq_getElem?_getD, List.getElem?_set, h]

theorem getD_set_ne {l : List (Option Nat)} {f g : Nat} (e : Option Nat) (h : g ≠ f) :
    (l.set g e).getD f none = l.getD f none := by
  simp [List.getD_eq_getElem?_getD, List.getElem?_set, h]

/-- a later field update (of any point, any key) keeps what the memstore side reflects -/
theorem memSide_mono (cfg : Cfg C P) (R : C → P → Prop) (kp : Keeps cfg R) (st : State C)
    (i : Inv cfg st) (q : P) (g : Nat) (k : Key) (f : Nat) (p : P)
    (h : RO R (memSide st k f) p) : RO R (memSide (ingestField cfg st q g) k f) p := by
  obtain ⟨c, hc, hR⟩ := h
  unfold memSide at hc
  cases hfk : st.live.find? (fun n => n.key == k) with
  | none => rw [hfk] at hc; cases hc
  | some n =>
    rw [hfk] at hc
    have hc : st.heap.deref ((st.heap.arr n.arr).getD f none) = some c := hc
    have hn : n ∈ st.live := List.mem_of_find?_eq_some hfk
    -- the slot of (k, f) holds a buffer `x` below the allocation counter, with content `c`
    obtain ⟨x, hx, hxc⟩ : ∃ x, (st.heap.arr n.arr).getD f none = some x ∧ st.heap.buf x = some c := by
      cases he : (st.heap.arr n.arr).getD f none with
      | none => rw [he] at hc; cases hc
      | some x => rw [he] at hc; exact ⟨x, rfl, hc⟩
    have hxlt : x < st.heap.nb := i.liveBuf n hn x (mem_of_getD_eq_some hx)
    have hflt : f < cfg.nf := by
      rcases Nat.lt_or_ge f cfg.nf with h | h
      · exact h
      · rw [List.getD_eq_getElem?_getD, List.getElem?_eq_none (by rw [i.liveLen n hn]; exact h)] at hx
        cases hx
    unfold ingestField
    dsimp only
    cases hfq : st.live.find? (fun n => n.key == cfg.keyOf q) with
    | some m =>
      have hm : m ∈ st.live := List.mem_of_find?_eq_some hfq
      dsimp only
      split
      · -- in place
        rename_i b heq _
        simp only [memSide, hfk, writeBuf_arr]
        rw [hx, writeBuf_deref]
        by_cases hxb : x = b
        · subst hxb
          rw [if_pos rfl, heq, deref_some, hxc]
          exact ⟨_, rfl, kp.upd_keep _ _ _ _ hR⟩
        · rw [if_neg hxb]
          exact ⟨c, hxc, hR⟩
      · -- re-allocated
        simp only [memSide, hfk, setElem_arr, allocBuf_arr, setElem_deref]
        by_cases ha : n.arr = m.arr
        · rw [if_pos ha]
          by_cases hg : g = f
          · subst hg
            rw [getD_set_self _ (by rw [i.liveLen m hm]; exact hflt), allocBuf_deref, if_pos rfl,
              ← ha, hx, deref_some, hxc]
            exact ⟨_, rfl, kp.upd_keep _ _ _ _ hR⟩
          · rw [getD_set_ne _ hg, ← ha, hx, allocBuf_deref, if_neg (by omega)]
            exact ⟨c, hxc, hR⟩
        · rw [if_neg ha, hx, allocBuf_deref, if_neg (by omega)]
          exact ⟨c, hxc, hR⟩
    | none =>
      dsimp only
      have hna := i.liveArr n hn
      have hne : n.arr ≠ st.heap.na := by omega
      simp only [memSide, List.find?_append, hfk, Option.some_or, allocArr_arr, allocBuf_arr,
        allocBuf_na, allocArr_deref, hne, ↓reduceIte]
      rw [hx, allocBuf_deref, if_neg (by omega)]
      exact ⟨c, hxc, hR⟩

theorem ingestField_file (cfg : Cfg C P) (st : State C) (q : P) (g : Nat) :
    (ingestField cfg st q g).file = st.file := by
  unfold ingestField
  dsimp only
  split
  · split <;> rfl
  · rfl

/-- the field update of `p` itself makes the memstore side of that field reflect `p` -/
theorem memSide_self (cfg : Cfg C P) (R : C → P → Prop) (kp : Keeps cfg R) (st : State C)
    (i : Inv cfg st) (p : P) (f : Nat) (hf : f < cfg.nf) :
    RO R (memSide (ingestField cfg st p f) (cfg.keyOf p) f) p := by
  unfold ingestField
  dsimp only
  cases hfq : st.live.find? (fun n => n.key == cfg.keyOf p) with
  | some m =>
    have hm : m ∈ st.live := List.mem_of_find?_eq_some hfq
    dsimp only
    split
    · rename_i b heq _
      simp only [memSide, hfq, writeBuf_arr]
      rw [heq, writeBuf_deref, if_pos rfl]
      exact ⟨_, rfl, kp.upd_self _ _ _⟩
    · simp only [memSide, hfq, setElem_arr, allocBuf_arr, setElem_deref, ↓reduceIte]
      rw [getD_set_self _ (by rw [i.liveLen m hm]; exact hf), allocBuf_deref, if_pos rfl]
      exact ⟨_, rfl, kp.upd_self _ _ _⟩
  | none =>
    dsimp only
    simp only [memSide, List.find?_append, hfq, Option.none_or, List.find?_cons, beq_self_eq_true,
      allocArr_arr, allocBuf_na, allocArr_deref, ↓reduceIte]
    rw [getD_set_self _ (by simp; exact hf), allocBuf_deref, if_pos rfl]
    exact ⟨_, rfl, kp.upd_self _ _ _⟩

theorem has_ingestField (cfg : Cfg C P) (R : C → P → Prop) (kp : Keeps cfg R) (st : State C)
    (i : Inv cfg st) (q : P) (g : Nat) (p : P) (h : Has cfg R st p) :
    Has cfg R (ingestField cfg st q g) p := by
  intro f hf
  rcases h f hf with h | h
  · left; rw [ingestField_file]; exact h
  · right; exact memSide_mono cfg R kp st i q g _ f p h

theorem has_ingestFields (cfg : Cfg C P) (R : C → P → Prop) (kp : Keeps cfg R) (q p : P) :
    ∀ (fs : List Nat) (st : State C), Inv cfg st → Has cfg R st p →
      Has cfg R (fs.foldl (fun s f => ingestField cfg s q f) st) p
  | [], st, _, h => h
  | g :: fs, st, i, h =>
    has_ingestFields cfg R kp q p fs _ (good_ingestField cfg st i q g).inv
      (has_ingestField cfg R kp st i q g p h)

theorem ro_ingestFields (cfg : Cfg C P) (R : C → P → Prop) (kp : Keeps cfg R) (q p : P) (k : Key)
    (f : Nat) : ∀ (fs : List Nat) (st : State C), Inv cfg st → RO R (memSide st k f) p →
      RO R (memSide (fs.foldl (fun s g => ingestField cfg s q g) st) k f) p
  | [], st, _, h => h
  | g :: fs, st, i, h =>
    ro_ingestFields cfg R kp q p k f fs _ (good_ingestField cfg st i q g).inv
      (memSide_mono cfg R kp st i q g k f p h)

/-- the whole insert of `p` (all fields, `node.doUpdate`) makes every field reflect `p` -/
theorem self_ingestFields (cfg : Cfg C P) (R : C → P → Prop) (kp : Keeps cfg R) (p : P) :
    ∀ (fs : List Nat) (st : State C), Inv cfg st → ∀ f ∈ fs, f < cfg.nf →
      RO R (memSide (fs.foldl (fun s g => ingestField cfg s p g) st) (cfg.keyOf p) f) p
  | [], st, _, f, hm, _ => by simp at hm
  | g :: fs, st, i, f, hm, hf => by
    have i1 := (good_ingestField cfg st i p g).inv
    simp only [List.foldl_cons]
    by_cases hg : f = g
    · subst hg
      exact ro_ingestFields cfg R kp p p _ f fs _ i1 (memSide_self cfg R kp st i p f hf)
    · have : f ∈ fs := by
        rcases List.mem_cons.mp hm with h | h
        · exact absurd h hg
        · exact h
      exact self_ingestFields cfg R kp p fs _ i1 f this hf

theorem has_ingest_self (cfg : Cfg C P) (R : C → P → Prop) (kp : Keeps cfg R) (st : State C)
    (i : Inv cfg st) (p : P) : Has cfg R (ingest cfg st p) p := by
  intro f hf
  right
  exact self_ingestFields cfg R kp p _ st i f (List.mem_range.mpr hf) hf

theorem has_flush (cfg : Cfg C P) (R : C → P → Prop) (kp : Keeps cfg R) (st : State C)
    (raw : Bool) (p : P) (h : Has cfg R st p) : Has cfg R (flush cfg st raw) p := by
  unfold flush
  split
  · exact h
  · intro f hf
    left
    simp only
    have h0 := h f hf
    rw [← fld_memView] at h0
    generalize st.file (cfg.keyOf p) = fc at h0 ⊢
    generalize memViewOf st.heap st.live (cfg.keyOf p) = mc at h0 ⊢
    have key : ∀ (fc mc : Option (Row C)), (RO R (fld fc f) p ∨ RO R (fld mc f) p) →
        RO R (fld (cfg.wr (mergeRow cfg fc mc)) f) p := by
      intro fc mc hh
      have hm : ∃ c, (mergeRow cfg fc mc).getD f none = some c ∧ R c p := by
        rw [mergeRow_getD cfg fc mc f hf]
        rcases hh with ⟨a, ha, hR⟩ | ⟨b, hb, hR⟩
        · rw [ha]; exact kp.merge_l f a _ p hR
        · rw [hb]; exact kp.merge_r f _ b p hR
      obtain ⟨c, hc, hR⟩ := hm
      obtain ⟨row', c', hw, hg, hR'⟩ := kp.wr_keep _ f c p hc hR
      exact ⟨c', by rw [hw]; exact hg, hR'⟩
    unfold flushRow
    split
    · -- neither side has the key: nothing could reflect `p`
      rcases h0 with ⟨c, hc, _⟩ | ⟨c, hc, _⟩ <;> simp [fld] at hc
    · rename_i r
      split
      · rcases h0 with h0 | ⟨c, hc, _⟩
        · exact h0
        · simp [fld] at hc
      · exact key _ _ h0
    · exact key _ _ h0

theorem has_scanStart (cfg : Cfg C P) (R : C → P → Prop) (st : State C) (i : Inv cfg st) (p : P)
    (h : Has cfg R st p) : Has cfg R (scanStart .deep st) p := by
  obtain ⟨c1, c2, c3, c4, c5, c6⟩ := copyNodes_deep_spec st.live st.heap
    (fun n hn => ⟨i.liveArr n hn, i.liveBuf n hn⟩)
  have hst : Stable st.heap (scanStart .deep st).heap st.live := by
    intro n hn
    simp only [scanStart]
    exact ⟨c4 _ (i.liveArr n hn), fun b hb => c3 b (i.liveBuf n hn b hb)⟩
  intro f hf
  have hl : (scanStart .deep st).live = st.live := by simp [scanStart]
  have hfile : (scanStart .deep st).file = st.file := by simp [scanStart]
  rcases h f hf with h | h
  · left; rw [hfile]; exact h
  · right
    rw [← fld_memView, hl, memViewOf_stable hst, fld_memView]
    exact h

/-- every field of p's row keeps reflecting `p`, whatever happens next -/
theorem has_step (cfg : Cfg C P) (R : C → P → Prop) (kp : Keeps cfg R) (st : State C)
    (i : Inv cfg st) (e : Ev P) (p : P) (h : Has cfg R st p) :
    Has cfg R (step cfg .deep st e).1 p := by
  cases e with
  | ingest q => exact has_ingestFields cfg R kp q p _ st i h
  | ingestField q g => exact has_ingestField cfg R kp st i q g p h
  | flush raw => exact has_flush cfg R kp st raw p h
  | scanStart => exact has_scanStart cfg R st i p h
  | deliver sid k =>
    simp only [step]
    split <;> exact h

theorem has_run (cfg : Cfg C P) (R : C → P → Prop) (kp : Keeps cfg R) (p : P) :
    ∀ (es : List (Ev P)) (st : State C), Inv cfg st → (Has cfg R st p ∨ Ev.ingest p ∈ es) →
      Has cfg R (run cfg .deep st es).1 p
  | [], st, _, h => by
    rcases h with h | h
    · exact h
    · simp at h
  | e :: es, st, i, h => by
    simp only [run]
    have i1 := (good_step cfg st i e).inv
    apply has_run cfg R kp p es _ i1
    rcases h with h | h
    · exact Or.inl (has_step cfg R kp st i e p h)
    · rcases List.mem_cons.mp h with h | h
      · subst h
        exact Or.inl (has_ingest_self cfg R kp st i p)
      · exact Or.inr h

/-- what `Has` means for the table as of `st`: p's row exists and every field reflects `p` -/
theorem has_view (cfg : Cfg C P) (R : C → P → Prop) (kp : Keeps cfg R) (st : State C) (p : P)
    (h : Has cfg R st p) (f : Nat) (hf : f < cfg.nf) :
    ∃ row c, view cfg st (cfg.keyOf p) = some row ∧ row.getD f none = some c ∧ R c p := by
  have h0 := h f hf
  rw [← fld_memView] at h0
  unfold view
  generalize st.file (cfg.keyOf p) = fc at h0 ⊢
  generalize memViewOf st.heap st.live (cfg.keyOf p) = mc at h0 ⊢
  have hm : ∃ c, (mergeRow cfg fc mc).getD f none = some c ∧ R c p := by
    rw [mergeRow_getD cfg fc mc f hf]
    rcases h0 with ⟨a, ha, hR⟩ | ⟨b, hb, hR⟩
    · rw [ha]; exact kp.merge_l f a _ p hR
    · rw [hb]; exact kp.merge_r f _ b p hR
  obtain ⟨c, hc, hR⟩ := hm
  unfold rowOf
  split
  · rcases h0 with ⟨c, hc, _⟩ | ⟨c, hc, _⟩ <;> simp [fld] at hc
  · exact ⟨_, c, rfl, hc, hR⟩

/-! ### nothing stored reflects a point that has not been processed -/

/-- the point an event applies (wholly or partly) -/
def Ev.point : Ev P → Option P
  | .ingest p => some p
  | .ingestField p _ => some p
  | _ => none

def Clean (R : C → P → Prop) (st : State C) (q : P) : Prop :=
  (∀ b c, st.heap.buf b = some c → ¬ R c q) ∧
  (∀ k row f c, st.file k = some row → row.getD f none = some c → ¬ R c q)

theorem clean_ingestField (cfg : Cfg C P) (R : C → P → Prop) (on : Only cfg R) (st : State C)
    (p q : P) (hne : q ≠ p) (g : Nat) (h : Clean R st q) : Clean R (ingestField cfg st p g) q := by
  refine ⟨?_, by rw [ingestField_file]; exact h.2⟩
  have hcur : ∀ (e : Option Nat), ¬ R (cfg.upd g (st.heap.deref e) p) q := by
    intro e hR
    rcases on.upd_only _ _ _ _ hR with h1 | ⟨c0, h1, h2⟩
    · exact hne h1
    · cases e with
      | none => cases h1
      | some x => exact h.1 x c0 h1 h2
  unfold ingestField
  dsimp only
  split
  · split
    · intro b c hb
      simp only [writeBuf_buf] at hb
      split at hb
      · cases hb
        exact hcur _
      · exact h.1 b c hb
    · intro b c hb
      simp only [setElem_buf, allocBuf_buf] at hb
      split at hb
      · cases hb
        exact hcur _
      · exact h.1 b c hb
  · intro b c hb
    simp only [allocArr_buf, allocBuf_buf] at hb
    split at hb
    · cases hb
      exact hcur none
    · exact h.1 b c hb

theorem clean_ingestFields (cfg : Cfg C P) (R : C → P → Prop) (on : Only cfg R) (p q : P)
    (hne : q ≠ p) : ∀ (fs : List Nat) (st : State C), Clean R st q →
      Clean R (fs.foldl (fun s g => ingestField cfg s p g) st) q
  | [], st, h => h
  | g :: fs, st, h => clean_ingestFields cfg R on p q hne fs _ (clean_ingestField cfg R on st p q hne g h)

theorem fld_memView_buf (h : Heap C) (nodes : List Node) (k : Key) (f : Nat) (c : C)
    (hc : fld (memViewOf h nodes k) f = some c) : ∃ b, h.buf b = some c := by
  unfold fld memViewOf at hc
  cases hfn : nodes.find? (fun n => n.key == k) with
  | none => rw [hfn] at hc; simp at hc
  | some n =>
    rw [hfn] at hc
    have hc : ((h.arr n.arr).map h.deref).getD f none = some c := hc
    rw [getD_map_deref] at hc
    cases he : (h.arr n.arr).getD f none with
    | none => rw [he] at hc; cases hc
    | some b => rw [he] at hc; exact ⟨b, hc⟩

/-- a merged row reflects only what its file side or its memstore side reflects -/
theorem clean_mergeRow (cfg : Cfg C P) (R : C → P → Prop) (on : Only cfg R) (h : Heap C)
    (nodes : List Node) (k : Key) (fc : Option (Row C)) (q : P)
    (hbuf : ∀ b c, h.buf b = some c → ¬ R c q)
    (hfile : ∀ row f c, fc = some row → row.getD f none = some c → ¬ R c q)
    (f : Nat) (c : C) (hc : (mergeRow cfg fc (memViewOf h nodes k)).getD f none = some c) :
    ¬ R c q := by
  intro hR
  rcases Nat.lt_or_ge f cfg.nf with hf | hf
  · rw [mergeRow_getD cfg _ _ f hf] at hc
    rcases on.merge_only _ _ _ _ _ hc hR with ⟨a0, ha, hRa⟩ | ⟨b0, hb, hRb⟩
    · cases fc with
      | none => simp [fld] at ha
      | some row => exact hfile row f a0 rfl (by simpa [fld] using ha) hRa
    · obtain ⟨b, hb'⟩ := fld_memView_buf h nodes k f b0 hb
      exact hbuf b b0 hb' hRb
  · rw [mergeRow_getD_ge cfg _ _ f hf] at hc
    cases hc

theorem clean_flush (cfg : Cfg C P) (R : C → P → Prop) (on : Only cfg R) (st : State C)
    (raw : Bool) (q : P) (h : Clean R st q) : Clean R (flush cfg st raw) q := by
  unfold flush
  split
  · exact h
  · refine ⟨h.1, ?_⟩
    intro k row f c hrow hc
    simp only at hrow
    have key : ∀ mc', mc' = memViewOf st.heap st.live k →
        cfg.wr (mergeRow cfg (st.file k) mc') = some row → ¬ R c q := by
      intro mc' hmc hw hR
      obtain ⟨c0, hc0, hR0⟩ := on.wr_only _ _ f c q hw hc hR
      subst hmc
      exact clean_mergeRow cfg R on st.heap st.live k (st.file k) q h.1
        (fun row f c hr hg => h.2 k row f c hr hg) f c0 hc0 hR0
    unfold flushRow at hrow
    split at hrow
    · cases hrow
    · rename_i r hfc hmc
      split at hrow
      · cases hrow
        exact h.2 k row f c hfc hc
      · rw [← hfc] at hrow
        exact key none hmc.symm hrow
    · rename_i fc mc _
      exact key _ rfl hrow

theorem copyElems_buf : ∀ (l : List (Option Nat)) (h : Heap C) (i : Nat) (c : C),
    (copyElems h l).1.buf i = some c → ∃ j, h.buf j = some c
  | [], h, i, c, hc => ⟨i, by simpa [copyElems] using hc⟩
  | none :: r, h, i, c, hc => by
    simp only [copyElems] at hc
    exact copyElems_buf r h i c hc
  | some b :: r, h, i, c, hc => by
    simp only [copyElems] at hc
    obtain ⟨j, hj⟩ := copyElems_buf r _ i c hc
    simp only [allocBuf_buf] at hj
    split at hj
    · exact ⟨b, hj⟩
    · exact ⟨j, hj⟩

theorem copyNodes_buf : ∀ (ns : List Node) (h : Heap C) (i : Nat) (c : C),
    (copyNodes .deep h ns).1.buf i = some c → ∃ j, h.buf j = some c
  | [], h, i, c, hc => ⟨i, by simpa [copyNodes] using hc⟩
  | n :: r, h, i, c, hc => by
    simp only [copyNodes] at hc
    obtain ⟨j, hj⟩ := copyNodes_buf r _ i c hc
    simp only [allocArr_buf] at hj
    exact copyElems_buf _ h j c hj

theorem clean_step (cfg : Cfg C P) (R : C → P → Prop) (on : Only cfg R) (st : State C)
    (e : Ev P) (q : P) (hne : e.point ≠ some q) (h : Clean R st q) :
    Clean R (step cfg .deep st e).1 q := by
  cases e with
  | ingest p =>
    exact clean_ingestFields cfg R on p q (fun hh => hne (by simp [Ev.point, hh])) _ st h
  | ingestField p g =>
    exact clean_ingestField cfg R on st p q (fun hh => hne (by simp [Ev.point, hh])) g h
  | flush raw => exact clean_flush cfg R on st raw q h
  | scanStart =>
    simp only [step, scanStart]
    refine ⟨fun b c hb => ?_, h.2⟩
    obtain ⟨j, hj⟩ := copyNodes_buf st.live st.heap b c hb
    exact h.1 j c hj
  | deliver sid k =>
    simp only [step]
    split <;> exact h

theorem clean_run (cfg : Cfg C P) (R : C → P → Prop) (on : Only cfg R) (q : P) :
    ∀ (es : List (Ev P)) (st : State C), (∀ e ∈ es, e.point ≠ some q) → Clean R st q →
      Clean R (run cfg .deep st es).1 q
  | [], st, _, h => h
  | e :: es, st, hne, h => by
    simp only [run]
    exact clean_run cfg R on q es _ (fun e' he' => hne e' (List.mem_cons_of_mem _ he'))
      (clean_step cfg R on st e q (hne e (by simp)) h)

theorem clean_init (R : C → P → Prop) (q : P) : Clean R ({} : State C) q := by
  constructor <;> simp

/-- the table as of a clean state reflects `q` nowhere -/
theorem clean_view (cfg : Cfg C P) (R : C → P → Prop) (on : Only cfg R) (st : State C) (q : P)
    (h : Clean R st q) (k : Key) (row : Row C) (hv : view cfg st k = some row) (f : Nat) (c : C)
    (hc : row.getD f none = some c) : ¬ R c q := by
  unfold view rowOf at hv
  split at hv
  · cases hv
  · cases hv
    exact clean_mergeRow cfg R on st.heap st.live k (st.file k) q h.1
      (fun row f c hr hg => h.2 k row f c hr hg) f c hc

end Zeno.Snap
