/-
SubMerge semantics, part 10: where the side conditions come from — `planLocal` establishes the
window/resolution conditions; `Expr.SubMergers` + `bytetree.New` give a one-hot direct
sub-merger for an aggregate that is a table field among pairwise distinct table fields.
-/
import ZenoModel.Lemmas.SubMergeSemGroup3
set_option linter.unusedSimpArgs false
namespace Zeno

theorem resolutionFor_aux (R cres S : Int) (T : Bool) (r ss : Int) (ch tr : Bool)
    (h : (if decide (R ≠ cres) = true ∧ R < cres then (Except.error QErr.resolutionTooFine : Except QErr (Int × Int × Bool × Bool))
      else if decide (R ≠ cres) = true ∧ R % cres ≠ 0 then Except.error QErr.resolutionNotMultiple
      else Except.ok (R, S, decide (R ≠ cres), T)) = Except.ok (r, ss, ch, tr)) :
    (if tr || ch then r else cres) = r ∧ r % cres = 0 ∧ cres ≤ r := by
  by_cases c1 : decide (R ≠ cres) = true ∧ R < cres
  · rw [if_pos c1] at h; cases h
  · rw [if_neg c1] at h
    by_cases c2 : decide (R ≠ cres) = true ∧ R % cres ≠ 0
    · rw [if_pos c2] at h; cases h
    · rw [if_neg c2] at h
      injection h with h
      injection h with hr h
      injection h with hss h
      injection h with hch htr
      subst hr
      by_cases hc : R = cres
      · subst hc
        exact ⟨by split <;> rfl, Int.emod_self, Int.le_refl _⟩
      · have hd : decide (R ≠ cres) = true := by simpa using hc
        rw [hd] at hch
        subst hch
        simp only [hd, true_and, Int.not_lt, ne_eq, Decidable.not_not] at c1 c2
        exact ⟨by simp, c2, c1⟩

theorem resolutionFor_ok (cfg : TableCfg) (q : Query) (w : Window) (r ss : Int) (ch tr : Bool)
    (h : resolutionFor cfg q w = .ok (r, ss, ch, tr)) :
    (if tr || ch then r else cfg.res) = r ∧ r % cfg.res = 0 ∧ cfg.res ≤ r := by
  unfold resolutionFor at h
  dsimp only at h
  by_cases c1 : q.stride > 0 ∧ q.stride % cfg.res ≠ 0
  · rw [if_pos c1] at h; cases h
  · rw [if_neg c1] at h
    exact resolutionFor_aux _ _ _ _ _ _ _ _ h

theorem planLocal_fields (cfg : TableCfg) (now : Int) (q : Query) (pl : Plan)
    (h : planLocal cfg now q = .ok pl) :
    ∃ r ss ch tr, resolutionFor cfg q (windowFor cfg now q) = .ok (r, ss, ch, tr) ∧
      pl.resolution = r ∧ pl.resolutionChanged = ch ∧ pl.resolutionTruncated = tr ∧
      pl.qAsOf = (windowFor cfg now q).qAsOf ∧ pl.qUntil = (windowFor cfg now q).qUntil ∧
      pl.strideSlice = ss := by
  unfold planLocal at h
  simp only at h
  split at h
  · cases h
  · split at h
    · cases h
    · rename_i r ss ch tr heq
      injection h with h
      subst h
      exact ⟨r, ss, ch, tr, heq, rfl, rfl, rfl, rfl, rfl, rfl⟩

/-- `planLocal` establishes the window/resolution side conditions of `sem_subMerge` for the
    parameters `groupRows` passes to `SubMerge` (only positivity of the window start is extra:
    the window must not reach back to the zero time) -/
theorem planLocal_window (cfg : TableCfg) (now : Int) (q : Query) (pl : Plan)
    (h : planLocal cfg now q = .ok pl) (hres : 0 < cfg.res) (hpos : 0 < gAsOfOf cfg now pl) :
    SMWindow (gResOf cfg pl) cfg.res (gResOf cfg pl / cfg.res).toNat (gAsOfOf cfg now pl) (gUntilOf cfg now pl) := by
  obtain ⟨r, ss, ch, tr, heq, f1, f2, f3, f4, f5, _⟩ := planLocal_fields cfg now q pl h
  obtain ⟨e1, e2, e3⟩ := resolutionFor_ok cfg q _ r ss ch tr heq
  have hg : gResOf cfg pl = r := by unfold gResOf; rw [f1, f2, f3]; exact e1
  have hqa : pl.qAsOf % cfg.res = 0 := by rw [f4]; exact roundUp_mod hres
  have hqu : pl.qUntil % cfg.res = 0 := by rw [f5]; exact roundUp_mod hres
  have hU : gUntilOf cfg now pl % cfg.res = 0 := by
    unfold gUntilOf; split
    · exact roundUp_mod hres
    · exact hqu
  have hA0 : (if pl.qAsOf = 0 then tableAsOf cfg now else pl.qAsOf) % cfg.res = 0 := by
    split
    · exact roundUp_mod hres
    · exact hqa
  have hx := ediv_mul_exact e2
  have hq0 : 0 < r / cfg.res := by
    have : 0 ≤ r / cfg.res := Int.ediv_nonneg (by omega) (Int.le_of_lt hres)
    rcases Int.lt_or_eq_of_le this with h1 | h1
    · exact h1
    · rw [← h1] at hx; omega
  rw [hg]
  refine ⟨hres, by omega, ?_, hpos, ?_, ?_, hU⟩
  · rw [Int.toNat_of_nonneg (by omega)]; exact hx.symm
  · unfold gAsOfOf; simp only [hg]; split <;> omega
  · unfold gAsOfOf; simp only [hg]
    generalize (if pl.qAsOf = 0 then tableAsOf cfg now else pl.qAsOf) = a0 at hA0 ⊢
    split
    · exact emod_sub_of hU e2
    · exact hA0

/-! ### the one-hot direct sub-merger of an aggregate table field -/

theorem getElem?_dedupInputs (ins : List Ex) (sms : List (Option SM)) (i : Nat) :
    (dedupInputs ins sms)[i]? = (sms[i]?).map (fun sm =>
      match ins[i]? with
      | some e => if (ins.take i).any (fun e' => e'.sameStr e) then none else sm
      | none => sm) := by
  unfold dedupInputs
  rw [List.getElem?_map, List.getElem?_zipIdx]
  cases sms[i]? with
  | none => rfl
  | some sm =>
    simp only [Option.map_some, Nat.zero_add]
    congr 1

theorem sameStr_refl (a : Ex) : a.sameStr a = true := by
  unfold Ex.sameStr; exact beq_self_eq_true _

/-- an aggregate that is itself a table field, among table fields with pairwise different printed
    forms, is sub-merged from exactly that field, directly -/
theorem oneHot_agg (ins : List Ex) (kd : AggKind) (wd : Ex) (j : Nat) (hj : ins[j]? = some (.agg kd wd))
    (hdist : ∀ (i i' : Nat) (a b : Ex), i ≠ i' → ins[i]? = some a → ins[i']? = some b → a.sameStr b = false) :
    OneHot (dedupInputs ins ((Ex.agg kd wd).subMergers ins)) j (.agg kd wd) := by
  have hsub : (Ex.agg kd wd).subMergers ins =
      ins.map (fun s => if (Ex.agg kd wd).sameStr s then some (.direct (.agg kd wd)) else none) := by
    simp [Ex.subMergers]
  constructor
  · rw [getElem?_dedupInputs, hsub, List.getElem?_map, hj]
    simp only [Option.map_some, sameStr_refl, if_true]
    have hany : (ins.take j).any (fun e' => e'.sameStr (.agg kd wd)) = false := by
      cases hc : (ins.take j).any (fun e' => e'.sameStr (.agg kd wd)) with
      | false => rfl
      | true =>
        exfalso
        obtain ⟨e', he', hs'⟩ := List.any_eq_true.mp hc
        obtain ⟨i, hi, hget⟩ := List.getElem_of_mem he'
        have hi' : i < j := by simp at hi; omega
        have hgi : ins[i]? = some e' := by
          have h1 : (ins.take j)[i]? = some e' := by rw [List.getElem?_eq_getElem hi, hget]
          rw [List.getElem?_take] at h1
          simpa [hi'] using h1
        have := hdist i j e' (Ex.agg kd wd) (by omega) hgi hj
        rw [this] at hs'; cases hs'
    rw [hany]
    rfl
  · intro i hi sm hget
    rw [getElem?_dedupInputs, hsub, List.getElem?_map] at hget
    cases hia : ins[i]? with
    | none => rw [hia] at hget; simp at hget
    | some a =>
      rw [hia] at hget
      have hns : (Ex.agg kd wd).sameStr a = false := hdist j i _ a (by omega) hj hia
      simp only [Option.map_some, hns, Bool.false_eq_true, if_false] at hget
      injection hget with hget
      rw [← hget]
      split <;> rfl

end Zeno
