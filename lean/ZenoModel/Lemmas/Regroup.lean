/-
Regrouping lemmas: n-way merge homomorphism, the out-period (bucket) function and the index
arithmetic of Sequence.SubMerge.
-/
import ZenoModel.Lemmas.ExprLaws
import ZenoModel.Lemmas.Time
namespace Zeno

/-- n-way homomorphism: merging the accumulations of any number of batches = accumulating all
    points of all batches into one state -/
theorem nway_merge (x : Ext) {e : Ex} (hv : e.valid = true) (hp : e.noPtile = true) :
    ∀ (pss : List (List Pt)),
      (pss.map (e.acc x)).foldl e.mrg e.empty = e.acc x pss.flatten := by
  intro pss
  have key : ∀ (pss : List (List Pt)) (pre : List Pt),
      (pss.map (e.acc x)).foldl e.mrg (e.acc x pre) = e.acc x (pre ++ pss.flatten) := by
    intro pss
    induction pss with
    | nil => intro pre; simp
    | cons ps r ih =>
      intro pre
      simp only [List.map_cons, List.foldl_cons, List.flatten_cons]
      have h1 := mrg_foldl x hv hp ps (acc_wf x hv hp pre) (wf_empty e)
      rw [mrg_empty_right hv hp (acc_wf x hv hp pre)] at h1
      have h2 : e.mrg (e.acc x pre) (e.acc x ps) = e.acc x (pre ++ ps) := by
        simpa [Ex.acc, List.foldl_append] using h1
      rw [h2, ih (pre ++ ps), List.append_assoc]
  have := key pss []
  simpa [Ex.acc] using this

/-- the out period of a native period end `t` on the grid of step `P` anchored at `hi` -/
def outPeriod (hi P t : Int) : Int := hi - ((hi - t) / P) * P

theorem outPeriod_spec {hi P t : Int} (h : 0 < P) :
    (hi - outPeriod hi P t) % P = 0 ∧ outPeriod hi P t - P < t ∧ t ≤ outPeriod hi P t := by
  unfold outPeriod
  have h1 := Int.emod_nonneg (hi - t) (Int.ne_of_gt h)
  have h2 := Int.emod_lt_of_pos (hi - t) h
  have h3 := Int.mul_ediv_add_emod (hi - t) P
  have hc : (hi - t) / P * P = P * ((hi - t) / P) := Int.mul_comm _ _
  refine ⟨?_, by omega, by omega⟩
  have : hi - (hi - (hi - t) / P * P) = P * ((hi - t) / P) := by omega
  rw [this]; exact Int.mul_emod_right _ _

/-- out periods are disjoint and each native period falls in exactly one: any grid point `T`
    (anchored at `hi`) whose period `(T − P, T]` contains `t` is `outPeriod hi P t` -/
theorem outPeriod_unique {hi P t T : Int} (h : 0 < P) (hg : (hi - T) % P = 0) (h1 : T - P < t) (h2 : t ≤ T) :
    T = outPeriod hi P t := by
  obtain ⟨g, a, b⟩ := outPeriod_spec (hi := hi) (P := P) (t := t) h
  generalize outPeriod hi P t = O at *
  have hm : (T - O) % P = 0 := by
    have : T - O = (hi - O) - (hi - T) := by omega
    rw [this, Int.sub_emod, g, hg]; simp
  have hx : T - O = P * ((T - O) / P) := by
    have := Int.mul_ediv_add_emod (T - O) P; omega
  by_cases hz : (T - O) / P = 0
  · rw [hz] at hx; omega
  · exfalso
    by_cases hpos : 0 < (T - O) / P
    · have : P * 1 ≤ P * ((T - O) / P) := Int.mul_le_mul_of_nonneg_left (by omega) (Int.le_of_lt h)
      omega
    · have : (T - O) / P ≤ -1 := by omega
      have : P * ((T - O) / P) ≤ P * (-1) := Int.mul_le_mul_of_nonneg_left this (Int.le_of_lt h)
      omega

/-- the index arithmetic of `Sequence.SubMerge`: source period `po` (ending at
    `otherUntil − po·otherRes`) is merged into result period `⌊(po + untilOffset)/scale⌋`, which
    is exactly the out period (step `scale·otherRes`, anchored at `resultUntil`) containing it -/
theorem subMerge_index {scale otherRes resultUntil otherUntil untilOffset : Int} (po : Nat)
    (hs : 0 < scale) (hr : 0 < otherRes) (hoff : resultUntil - otherUntil = untilOffset * otherRes) :
    resultUntil - (((po : Int) + untilOffset) / scale) * (scale * otherRes) =
      outPeriod resultUntil (scale * otherRes) (otherUntil - (po : Int) * otherRes) := by
  unfold outPeriod
  have hP : 0 < scale * otherRes := Int.mul_pos hs hr
  have e1 : resultUntil - (otherUntil - (po : Int) * otherRes) = ((po : Int) + untilOffset) * otherRes := by
    rw [Int.add_mul]; omega
  rw [e1]
  have e2 : ((po : Int) + untilOffset) * otherRes / (scale * otherRes) = ((po : Int) + untilOffset) / scale := by
    exact Int.mul_ediv_mul_of_pos_left _ _ hr
  rw [e2]

end Zeno
