/-
End-to-end (store script → grouped cell), part 1: the two raw-point vocabularies agree.

`tableRowsFor cfg key T 0 ops` (StoreProj: the rows period `T` of group `key` accumulates, read off
the store script) is `keyPeriodPts` (SubMergeSem: the accepted rows of one (key, period)) of
`acceptedRows cfg true (pointsOf ops)` (QuerySpec: the accepted rows of the table, in arrival
order), and the clock `acceptedRows` threads over the points is the store's clock — flushes do not
touch either.
-/
import ZenoModel.Lemmas.StoreProjSpec
import ZenoModel.Lemmas.SubMergeSemSpec2
set_option linter.unusedSimpArgs false
set_option linter.unusedVariables false
namespace Zeno

/-- the points of a store script, in order (its flushes erased) -/
def pointsOf : List StoreOp → List RawPoint
  | [] => []
  | .ingest p :: r => p :: pointsOf r
  | .flush _ :: r => pointsOf r

/-- the accepted rows one stored point stands for -/
def accRowsOf (cfg : TableCfg) (dup : Bool) (p : RawPoint) : List AccRow :=
  (pointRowsD dup p).map (fun vals =>
    ({ key := reslice cfg p.dims, period := roundUp p.ts cfg.res, pt := mkPt p vals } : AccRow))

/-- `acceptedRows`, first component, as a recursion from a given clock -/
def accRowsFrom (cfg : TableCfg) (dup : Bool) : Int → List RawPoint → List AccRow
  | _, [] => []
  | now, p :: ps =>
      (if ptStored cfg now p then accRowsOf cfg dup p else []) ++ accRowsFrom cfg dup (ptNow cfg now p) ps

/-- `acceptedRows`, second component: the clock after the points -/
def clockFrom (cfg : TableCfg) : Int → List RawPoint → Int
  | now, [] => now
  | now, p :: ps => clockFrom cfg (ptNow cfg now p) ps

/-- the step function of `acceptedRows` (a literal copy; `acceptedRows_foldl` is `rfl`) -/
def accStep (cfg : TableCfg) (dup : Bool) (acc : List AccRow × Int) (p : RawPoint) : List AccRow × Int :=
  let (rows, now) := acc
  if p.ts < now - cfg.retention then acc
  else if !p.whereOk then acc
  else
    let now := max now p.ts
    if p.panics then (rows, now)
    else
      let key := reslice cfg p.dims
      let period := roundUp p.ts cfg.res
      (rows ++ (pointRowsD dup p).map (fun vals => { key := key, period := period, pt := mkPt p vals }), now)

theorem acceptedRows_foldl (cfg : TableCfg) (dup : Bool) (ps : List RawPoint) :
    acceptedRows cfg dup ps = ps.foldl (accStep cfg dup) ([], 0) := rfl

theorem accStep_eq (cfg : TableCfg) (dup : Bool) (rows : List AccRow) (now : Int) (p : RawPoint) :
    accStep cfg dup (rows, now) p =
      (rows ++ (if ptStored cfg now p then accRowsOf cfg dup p else []), ptNow cfg now p) := by
  unfold accStep ptStored ptNow accRowsOf
  by_cases hold : p.ts < now - cfg.retention
  · simp [hold]
  by_cases hw : p.whereOk = false
  · simp [hold, hw]
  have hw' : p.whereOk = true := by simpa using hw
  by_cases hpan : p.panics = true
  · simp [hold, hw', hpan]
  have hpan' : p.panics = false := by simpa using hpan
  simp [hold, hw', hpan']

theorem accStep_foldl (cfg : TableCfg) (dup : Bool) (ps : List RawPoint) :
    ∀ (rows : List AccRow) (now : Int), ps.foldl (accStep cfg dup) (rows, now) =
      (rows ++ accRowsFrom cfg dup now ps, clockFrom cfg now ps) := by
  induction ps with
  | nil => intro rows now; simp [accRowsFrom, clockFrom]
  | cons p ps ih =>
    intro rows now
    rw [List.foldl_cons, accStep_eq, ih]
    simp [accRowsFrom, clockFrom, List.append_assoc]

/-- `acceptedRows` without its accumulator -/
theorem acceptedRows_eq (cfg : TableCfg) (dup : Bool) (ps : List RawPoint) :
    acceptedRows cfg dup ps = (accRowsFrom cfg dup 0 ps, clockFrom cfg 0 ps) := by
  rw [acceptedRows_foldl, accStep_foldl]; simp

/-- the clock of the store script is the clock `acceptedRows` reaches on its points: flushes do
    not move it -/
theorem nowAfter_eq_clockFrom (cfg : TableCfg) (ops : List StoreOp) :
    ∀ now, nowAfter cfg now ops = clockFrom cfg now (pointsOf ops) := by
  induction ops with
  | nil => intro now; rfl
  | cons op r ih =>
    intro now
    cases op with
    | ingest p => simp only [nowAfter, pointsOf, clockFrom, ih]
    | flush s => simp only [nowAfter, pointsOf, ih]

theorem pointsOf_eraseFlush (ops : List StoreOp) : pointsOf (eraseFlush ops) = pointsOf ops := by
  induction ops with
  | nil => rfl
  | cons op r ih => cases op <;> simp only [eraseFlush, pointsOf, ih]

/-! ### `keyPeriodPts` -/

theorem keyPeriodPts_append (A B : List AccRow) (adj : AccRow → Pt) (κ : Key) (t : Int) :
    keyPeriodPts (A ++ B) adj κ t = keyPeriodPts A adj κ t ++ keyPeriodPts B adj κ t := by
  simp [keyPeriodPts, List.filter_append]

theorem keyPeriodPts_nil (adj : AccRow → Pt) (κ : Key) (t : Int) : keyPeriodPts [] adj κ t = [] := rfl

/-- the rows of one point all carry the point's group key and period -/
theorem keyPeriodPts_accRowsOf (cfg : TableCfg) (dup : Bool) (p : RawPoint) (κ : Key) (t : Int) :
    keyPeriodPts (accRowsOf cfg dup p) (·.pt) κ t =
      if (reslice cfg p.dims == κ) && decide (roundUp p.ts cfg.res = t)
      then (pointRowsD dup p).map (mkPt p) else [] := by
  unfold keyPeriodPts accRowsOf
  generalize pointRowsD dup p = rows
  have hper : (roundUp p.ts cfg.res == t) = decide (roundUp p.ts cfg.res = t) := by
    by_cases h : roundUp p.ts cfg.res = t <;> simp [h]
  induction rows with
  | nil => simp
  | cons v rows ih =>
    simp only [List.map_cons, List.filter_cons, hper]
    by_cases hc : ((reslice cfg p.dims == κ) && decide (roundUp p.ts cfg.res = t)) = true
    · rw [if_pos hc] at ih ⊢
      rw [if_pos hc, List.map_cons, ih]
    · rw [if_neg hc] at ih ⊢
      rw [if_neg hc]; exact ih

/-- THE TIE: the table-level spec of StoreProj is the (key, period) slice of `acceptedRows` -/
theorem tableRowsFor_eq_keyPeriodPts (cfg : TableCfg) (key : Key) (T : Int) (ops : List StoreOp) :
    ∀ now, tableRowsFor cfg key T now ops =
      keyPeriodPts (accRowsFrom cfg true now (pointsOf ops)) (·.pt) key T := by
  induction ops with
  | nil => intro now; rfl
  | cons op r ih =>
    intro now
    cases op with
    | flush s => simp only [tableRowsFor, pointsOf]; exact ih now
    | ingest p =>
      simp only [tableRowsFor, pointsOf, accRowsFrom]
      rw [keyPeriodPts_append, ih]
      congr 1
      by_cases hs : ptStored cfg now p = true
      · rw [if_pos hs, keyPeriodPts_accRowsOf]
        simp only [hs, Bool.true_and]
        rfl
      · rw [if_neg hs, keyPeriodPts_nil]
        have : ptStored cfg now p = false := by simpa using hs
        simp [this]

/-- every accepted row's period lies on the table's period grid -/
theorem accRowsFrom_period (cfg : TableCfg) (hres : 0 < cfg.res) (dup : Bool) (ps : List RawPoint) :
    ∀ now, ∀ a ∈ accRowsFrom cfg dup now ps, a.period % cfg.res = 0 := by
  induction ps with
  | nil => intro now a ha; simp [accRowsFrom] at ha
  | cons p ps ih =>
    intro now a ha
    simp only [accRowsFrom, List.mem_append] at ha
    rcases ha with ha | ha
    · split at ha
      · unfold accRowsOf at ha
        obtain ⟨v, _, rfl⟩ := List.mem_map.mp ha
        exact roundUp_mod hres
      · simp at ha
    · exact ih _ a ha

end Zeno
