/-
C11 helper lemmas: unfolding `clusterRun`, ORDER BY / LIMIT as `topk` / slices.
-/
import ZenoModel.Lemmas.PlanTopK

namespace Zeno.PlanLemmas
open Zeno Zeno.Plan Zeno.SortLemmas

variable (x : Ext)

theorem flatten_map_eq_flatMap {α β : Type} (l : List α) (f : α → List β) :
    (l.map f).flatten = l.flatMap f := (List.flatMap_def ..).symm

theorem runTree_withOlo (t : QTree) (o : OLO) (s : Src) (rows : List PRow) :
    runTree x (withOlo t o) s rows = olo o (runTreePre x t s rows) := by
  cases t <;> rfl

theorem runTree_olo (t : QTree) (s : Src) (rows : List PRow) :
    runTree x t s rows = olo t.top.olo (runTreePre x t s rows) := by
  cases t <;> rfl

theorem clusterRun_pushdown (pk : List String) (parts : List (List PRow)) (t : QTree) (s : Src)
    (hp : pushdownAllowed pk t = true) :
    clusterRun x pk parts t s =
      olo t.top.olo (parts.flatMap (fun p => olo (partOlo t.top.olo) (runTreePre x t s p))) := by
  cases t with
  | table q =>
    simp only [clusterRun, hp, if_true, QTree.top]
    rfl
  | sub q inner =>
    simp only [clusterRun, hp, if_true, QTree.top]
    rfl

/-- ORDER BY + LIMIT [OFFSET] as a slice of the sorted rows -/
theorem olo_ordered (o : OLO) (hob : o.orderBy ≠ []) (hl : o.limit > 0) (l : List FlatRow) :
    olo o l = ((isortBy (less o.orderBy) l).drop o.offset).take o.limit := by
  have hlen : o.orderBy.length > 0 := List.length_pos_iff.mpr hob
  have hne : o.limit ≠ 0 := by omega
  simp [olo, addOrderLimitOffset, hlen, isort, Zeno.C09.limit_offset_slice, Zeno.SortSpec.slice, hne]

/-- what a partition returns for a pushed-down ORDER BY … LIMIT query: its first
    offset+limit rows -/
theorem olo_partOlo (o : OLO) (hob : o.orderBy ≠ []) (hl : o.limit > 0) (l : List FlatRow) :
    olo (partOlo o) l = topk (less o.orderBy) (o.offset + o.limit) l := by
  have hl' : (partOlo o).limit > 0 := by simp [partOlo, hl]; omega
  rw [olo_ordered (partOlo o) hob hl']
  simp [partOlo, hl, topk]

theorem drop_take_topk (lt : FlatRow → FlatRow → Bool) (off lim : Nat) (l : List FlatRow) :
    ((isortBy lt l).drop off).take lim = (topk lt (off + lim) l).drop off := by
  unfold topk
  rw [List.drop_take]
  congr 1
  omega

end Zeno.PlanLemmas

namespace Zeno.PlanLemmas
open Zeno Zeno.Plan Zeno.SortLemmas

variable (x : Ext)

/-- the spec evaluator does not depend on the order of its input rows (as a multiset) -/
theorem runPre_perm {q : Query} (hq : NPWF q) (s : Src) (cv : List String) {r₁ r₂ : List PRow}
    (p : r₁.Perm r₂) : (runPre x q s cv r₁).Perm (runPre x q s cv r₂) := by
  unfold runPre
  have pf : (r₁.filter (admits q s)).Perm (r₂.filter (admits q s)) := p.filter _
  have hids : (dedup ((r₁.filter (admits q s)).map (gid q s))).Perm
      (dedup ((r₂.filter (admits q s)).map (gid q s))) := by
    apply (List.perm_ext_iff_of_nodup (nodup_dedup _) (nodup_dedup _)).mpr
    intro g
    rw [mem_dedup, mem_dedup]
    exact (pf.map _).mem_iff
  refine List.Perm.trans ?_ (hids.filterMap _)
  apply List.Perm.of_eq
  apply filterMap_congr'
  intro g _
  apply mkRow_congr
  intro f hf
  obtain ⟨⟨b, hb, hbe⟩, _⟩ := xfields_spec q cv f hf
  have hok := hq.fieldsOK b hb
  rw [hbe] at hok
  exact acc_perm x hok.1 hok.2 (((pf.filter _).filter _).map _)

theorem cvOf_perm (q : Query) (s : Src) {r₁ r₂ : List PRow} (p : r₁.Perm r₂) :
    cvOf q s r₁ = cvOf q s r₂ := by
  unfold cvOf
  apply strSort_eq_of_mem
  · unfold ctabValues; split <;> simp [nodup_dedup]
  · unfold ctabValues; split <;> simp [nodup_dedup]
  · intro v
    unfold ctabValues
    split
    · simp
    · rw [mem_dedup, mem_dedup]
      exact ((p.filter _).map _).mem_iff

theorem run_perm {q : Query} (hq : NPWF q) (ho : emptyOlo q.olo) (s : Src) {r₁ r₂ : List PRow}
    (p : r₁.Perm r₂) : (run x q s r₁).Perm (run x q s r₂) := by
  unfold run
  rw [olo_empty ho, olo_empty ho, cvOf_perm q s p]
  exact runPre_perm x hq s _ p

/-- every SELECT of the chain meets the hypotheses of the non-pushdown equivalence and has
    no ORDER BY / LIMIT -/
def TreeNP : QTree → Prop
  | .table q => NPWF q ∧ emptyOlo q.olo
  | .sub q inner => NPWF q ∧ emptyOlo q.olo ∧ TreeNP inner

theorem TreeNP.top {t : QTree} (h : TreeNP t) : NPWF t.top ∧ emptyOlo t.top.olo := by
  cases t with
  | table q => exact h
  | sub q inner => exact ⟨h.1, h.2.1⟩

end Zeno.PlanLemmas
