/-
SubMerge semantics, part 7: the shape of `core.Group` (`groupRows`): an upsert per scan row
into the output row of the row's sliced key.  Generic facts, independent of what is merged.
-/
import ZenoModel.Model.Query
set_option linter.unusedSimpArgs false
namespace Zeno

/-- the columns of the output row with key `k` (`init` when there is none yet) -/
def colsOf (init : List Sq) (out : List Row) (k : Key) : List Sq :=
  match out.find? (fun o => o.key == k) with
  | some o => o.cols
  | none => init

/-- replace the columns of the row(s) with key `k`, or append a new row -/
def upsertRow (out : List Row) (k : Key) (cols : List Sq) : List Row :=
  if out.any (fun o => o.key == k) then out.map (fun o => if o.key == k then { o with cols := cols } else o)
  else out ++ [{ key := k, cols := cols }]

theorem colsOf_upsert (init : List Sq) (out : List Row) (k k' : Key) (cols : List Sq) :
    colsOf init (upsertRow out k cols) k' = if k = k' then cols else colsOf init out k' := by
  unfold colsOf upsertRow
  by_cases hany : out.any (fun o => o.key == k) = true
  · rw [if_pos hany, List.find?_map]
    have hcomp : ((fun o : Row => o.key == k') ∘ fun o : Row => if (o.key == k) = true then { o with cols := cols } else o)
        = fun o : Row => o.key == k' := by
      funext o
      simp only [Function.comp]
      split <;> rfl
    rw [hcomp]
    by_cases hk : k = k'
    · subst hk
      rw [if_pos rfl]
      obtain ⟨o, ho, hok⟩ := List.any_eq_true.mp hany
      cases hf : out.find? (fun o => o.key == k) with
      | none =>
        have := List.find?_eq_none.mp hf o ho
        exact absurd hok this
      | some o' =>
        have hk' := List.find?_some hf
        simp only [Option.map_some, hk', if_true]
    · rw [if_neg hk]
      cases hf : out.find? (fun o => o.key == k') with
      | none => rfl
      | some o' =>
        have hk' := List.find?_some hf
        have hne : ¬ (o'.key == k) = true := by
          intro h1
          rw [beq_iff_eq] at h1 hk'
          exact hk (h1.symm.trans hk')
        have hne' : (o'.key == k) = false := by cases h : (o'.key == k) <;> simp_all
        simp only [Option.map_some, hne', Bool.false_eq_true, if_false]
  · rw [if_neg hany, List.find?_append]
    have hnone : ∀ o ∈ out, ¬ (o.key == k) = true := by
      intro o ho hok
      exact hany (List.any_eq_true.mpr ⟨o, ho, hok⟩)
    by_cases hk : k = k'
    · subst hk
      rw [if_pos rfl, List.find?_eq_none.mpr hnone]
      simp
    · rw [if_neg hk]
      have : List.find? (fun o : Row => o.key == k') [{ key := k, cols := cols }] = none := by
        simp [hk]
      rw [this, Option.or_none]

theorem keys_upsert (out : List Row) (k : Key) (cols : List Sq) :
    (upsertRow out k cols).map (·.key) = if k ∈ out.map (·.key) then out.map (·.key) else out.map (·.key) ++ [k] := by
  unfold upsertRow
  have hiff : out.any (fun o => o.key == k) = true ↔ k ∈ out.map (·.key) := by
    rw [List.any_eq_true, List.mem_map]
    constructor
    · intro ⟨o, ho, hk⟩; exact ⟨o, ho, by simpa using hk⟩
    · intro ⟨o, ho, hk⟩; exact ⟨o, ho, by simpa using hk⟩
  by_cases hany : out.any (fun o => o.key == k) = true
  · rw [if_pos hany, if_pos (hiff.mp hany), List.map_map]
    apply List.map_congr_left
    intro o _
    simp only [Function.comp]
    split <;> rfl
  · rw [if_neg hany, if_neg (fun h => hany (hiff.mpr h))]
    simp

/-- a fold of upserts, read per key: the columns of key `k'` are the fold of the column update
    over exactly the rows whose sliced key is `k'`, in order -/
theorem colsOf_foldl (init : List Sq) (slice : Key → Key) (upd : List Sq → Row → List Sq) (k' : Key) :
    ∀ (rows : List Row) (out : List Row),
      colsOf init (rows.foldl (fun out r => upsertRow out (slice r.key) (upd (colsOf init out (slice r.key)) r)) out) k' =
        (rows.filter (fun r => slice r.key == k')).foldl upd (colsOf init out k') := by
  intro rows
  induction rows with
  | nil => intro out; rfl
  | cons r rows ih =>
    intro out
    simp only [List.foldl_cons, List.filter_cons]
    rw [ih, colsOf_upsert]
    by_cases hk : slice r.key = k'
    · have : (slice r.key == k') = true := by simpa using hk
      rw [if_pos hk, if_pos this, List.foldl_cons, hk]
    · have : ¬ (slice r.key == k') = true := by simpa using hk
      rw [if_neg hk, if_neg this]

/-- the keys of the output: no key twice, and exactly the sliced keys of the input rows -/
theorem keys_foldl (slice : Key → Key) (f : List Row → Row → List Sq) :
    ∀ (rows : List Row) (out : List Row), (out.map (·.key)).Nodup →
      ((rows.foldl (fun out r => upsertRow out (slice r.key) (f out r)) out).map (·.key)).Nodup ∧
      ∀ k, k ∈ (rows.foldl (fun out r => upsertRow out (slice r.key) (f out r)) out).map (·.key) ↔
        (k ∈ out.map (·.key) ∨ ∃ r ∈ rows, slice r.key = k) := by
  intro rows
  induction rows with
  | nil => intro out hnd; exact ⟨hnd, fun k => by simp⟩
  | cons r rows ih =>
    intro out hnd
    simp only [List.foldl_cons]
    have hk := keys_upsert out (slice r.key) (f out r)
    have hnd' : ((upsertRow out (slice r.key) (f out r)).map (·.key)).Nodup := by
      rw [hk]
      split
      · exact hnd
      · rename_i hnot
        rw [List.nodup_append]
        exact ⟨hnd, by simp, by intro a ha b hb; simp at hb; subst hb; intro heq; subst heq; exact hnot ha⟩
    obtain ⟨n1, n2⟩ := ih _ hnd'
    refine ⟨n1, fun k => ?_⟩
    rw [n2 k, hk]
    constructor
    · intro h
      cases h with
      | inl h1 =>
        split at h1
        · exact Or.inl h1
        · rw [List.mem_append] at h1
          cases h1 with
          | inl h2 => exact Or.inl h2
          | inr h2 => simp at h2; exact Or.inr ⟨r, by simp, h2.symm⟩
      | inr h1 =>
        obtain ⟨r', hr', hs⟩ := h1
        exact Or.inr ⟨r', by simp [hr'], hs⟩
    · intro h
      cases h with
      | inl h1 =>
        left
        split
        · exact h1
        · exact List.mem_append.mpr (Or.inl h1)
      | inr h1 =>
        obtain ⟨r', hr', hs⟩ := h1
        rw [List.mem_cons] at hr'
        cases hr' with
        | inl heq =>
          subst heq
          left
          split
          · rename_i hin; rw [← hs]; exact hin
          · rw [← hs]; simp
        | inr hmem => exact Or.inr ⟨r', hmem, hs⟩

end Zeno
