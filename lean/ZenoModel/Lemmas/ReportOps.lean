/-
Helper lemmas for C13, part 2: every stream operator satisfies `StepOK`, with the list
function it computes on a complete input.
-/
import ZenoModel.Lemmas.Report

namespace Zeno.Report

/-! ## limit -/

def limitF (n : Nat) : Nat → Row → List Row := fun idx r => if idx < n then [r] else []
def idxNx : Nat → Row → Nat := fun idx _ => idx + 1

theorem limit_spec_done (n : Nat) : ∀ (rows : List Row) (idx : Nat), n ≤ idx → specRun (limitF n) idxNx idx rows = []
  | [], _, _ => rfl
  | r :: rs, idx, h => by
    have : ¬ idx < n := Nat.not_lt.mpr h
    simp [specRun, limitF, this, idxNx, limit_spec_done n rs (idx + 1) (Nat.le_succ_of_le h)]

theorem limit_spec (n : Nat) : ∀ (rows : List Row) (idx : Nat), specRun (limitF n) idxNx idx rows = rows.take (n - idx)
  | [], _ => by simp [specRun]
  | r :: rs, idx => by
    by_cases h : idx < n
    · have e : n - idx = (n - (idx + 1)) + 1 := by omega
      simp [specRun, limitF, h, idxNx, limit_spec n rs (idx + 1), e]
    · have h' : n ≤ idx := Nat.le_of_not_lt h
      have e : n - idx = 0 := by omega
      rw [limit_spec_done n (r :: rs) idx h', e]; simp

theorem limitStep_ok (n : Nat) : StepOK (limitStep n) (fun _ => True) (limitF n) idxNx where
  pre_ok := by
    intro idx now r _
    by_cases h : idx < n
    · simp [limitStep, h, limitF, idxNx]
    · simp only [limitStep, h, if_false]
      refine Or.inr (Or.inr ?_)
      simp only [limitF, h, if_false, idxNx, true_and]
      intro rows
      exact limit_spec_done n rows (idx + 1) (by omega)
  post_ok := by intro x now rep; exact ⟨rfl, Or.inl rfl⟩

/-! ## offset -/

def offsetF (n : Nat) : Nat → Row → List Row := fun idx r => if n ≤ idx then [r] else []

theorem offset_spec (n : Nat) : ∀ (rows : List Row) (idx : Nat), specRun (offsetF n) idxNx idx rows = rows.drop (n - idx)
  | [], _ => by simp [specRun]
  | r :: rs, idx => by
    by_cases h : n ≤ idx
    · have e : n - idx = 0 := by omega
      have e' : n - (idx + 1) = 0 := by omega
      simp [specRun, offsetF, h, idxNx, offset_spec n rs (idx + 1), e, e']
    · have e : n - idx = (n - (idx + 1)) + 1 := by omega
      simp [specRun, offsetF, h, idxNx, offset_spec n rs (idx + 1), e]

theorem offsetStep_ok (g : Guard) (n : Nat) : StepOK (offsetStep g n) (fun _ => True) (offsetF n) idxNx where
  pre_ok := by
    intro idx now r _
    by_cases h : n ≤ idx
    · simp [offsetStep, h, offsetF, idxNx]
    · simp only [offsetStep, h, if_false]
      rcases g.proceed_cases now with hp | hp
      · exact Or.inr (Or.inl ⟨hp, by simp [offsetF, h], rfl, trivial⟩)
      · exact Or.inl (by rw [hp]; simp [Reply.fail])
  post_ok := by intro x now rep; exact ⟨rfl, Or.inl rfl⟩

/-! ## filters -/

def inclF (incl : Row → Incl) : Unit → Row → List Row := fun _ r =>
  match incl r with
  | .keep r' => [r']
  | _ => []
def unitNx : Unit → Row → Unit := fun _ _ => ()

/-- the rows a filter lets through -/
def Incl.toOption : Incl → Option Row
  | .keep r => some r
  | _ => none

theorem filter_spec (incl : Row → Incl) : ∀ (rows : List Row) (x : Unit),
    specRun (inclF incl) unitNx x rows = rows.filterMap (fun r => (incl r).toOption)
  | [], _ => rfl
  | r :: rs, x => by
    simp only [specRun, unitNx, filter_spec incl rs (), List.filterMap_cons, inclF]
    cases incl r <;> simp [Incl.toOption]

theorem filterStep_ok (g : Guard) (incl : Row → Incl) : StepOK (filterStep g incl) (fun _ => True) (inclF incl) unitNx where
  pre_ok := by
    intro x now r _
    simp only [filterStep, inclF]
    cases h : incl r with
    | err e => exact Or.inl (by simp [Reply.fail])
    | keep r' => simp
    | drop =>
      simp only
      rcases g.proceed_cases now with hp | hp
      · refine Or.inr (Or.inl ?_)
        simp [hp]
      · exact Or.inl (by rw [hp]; simp [Reply.fail])
  post_ok := by intro x now rep; exact ⟨rfl, Or.inl rfl⟩

/-! ## flatten / unflatten -/

theorem flatten_spec (fl : Row → List Row) : ∀ (rows : List Row) (x : Unit),
    specRun (fun _ r => fl r) unitNx x rows = rows.flatMap fl
  | [], _ => rfl
  | r :: rs, x => by simp [specRun, unitNx, flatten_spec fl rs ()]

theorem flattenStep_ok (g : Guard) (fl : Row → List Row) : StepOK (flattenStep g fl) (fun _ => True) (fun _ r => fl r) unitNx where
  pre_ok := by intro x now r _; simp [flattenStep, unitNx]
  post_ok := by
    intro x now rep
    refine ⟨rfl, ?_⟩
    simp only [flattenStep]
    by_cases hk : rep.ok = true
    · rw [if_pos hk]
      rcases g.proceed_cases now with hp | hp
      · left; rw [hp]; exact ((Reply.ok_iff rep).1 hk).symm
      · right; exact ⟨hk, by rw [hp]; simp [Reply.fail]⟩
    · rw [if_neg hk]; left; rfl

theorem map_spec (f : Row → Row) : ∀ (rows : List Row) (x : Unit),
    specRun (fun _ r => [f r]) unitNx x rows = rows.map f
  | [], _ => rfl
  | r :: rs, x => by simp [specRun, unitNx, map_spec f rs ()]

theorem unflattenStep_ok (f : Row → Row) : StepOK (unflattenStep f) (fun _ => True) (fun _ r => [f r]) unitNx where
  pre_ok := by intro x now r _; simp [unflattenStep, unitNx]
  post_ok := by intro x now rep; exact ⟨rfl, Or.inl rfl⟩

/-! ## row-store guard, memory check: identity on a complete input -/

theorem id_spec {τ : Type} (nx : τ → Row → τ) : ∀ (rows : List Row) (x : τ),
    specRun (fun _ r => [r]) nx x rows = rows
  | [], _ => rfl
  | r :: rs, x => by simp [specRun, id_spec nx rs]

theorem guardStep_ok (g : Guard) : StepOK (guardStep g) (fun _ => True) (fun _ r => [r]) unitNx where
  pre_ok := by intro x now r _; simp [guardStep, unitNx]
  post_ok := by
    intro x now rep
    exact ⟨rfl, g.proceedAfter_cases now rep⟩

/-- the recover boundary that reports is the identity: whatever comes up — the unwinding panic
    included — reaches the scan unchanged -/
theorem recoverStep_ok : StepOK (recoverStep true) (fun _ => True) (fun _ r => [r]) unitNx where
  pre_ok := by intro x now r _; simp [recoverStep, unitNx]
  post_ok := by intro x now rep; simp [recoverStep]

theorem oomStep_ok (oomAt : Option Nat) : StepOK (oomStep oomAt) (fun _ => True) (fun _ r => [r]) idxNx where
  pre_ok := by
    intro i now r _
    by_cases hc : oomHit oomAt i = true
    · simp only [oomStep, hc, if_true]
      exact Or.inl (by simp [Reply.fail])
    · simp only [oomStep, hc]
      simp [idxNx]
  post_ok := by intro x now rep; exact ⟨rfl, Or.inl rfl⟩

end Zeno.Report
