/-
Derived selected expressions, part 21 (end to end): the store half per scanned column.  For the scan
`runQuery` performs, every scanned column of every scan row is a stored sequence on the table grid
whose state at a live period is the column's accumulation of the accepted raw rows; a key without
a scan row only has empty states.
-/
import ZenoModel.Lemmas.DerivedSpec2
import ZenoModel.Lemmas.EndToEndIncl
set_option linter.unusedSimpArgs false
set_option linter.unusedVariables false
namespace Zeno

/-- every table field is accepted by `Validate()` and has no PERCENTILE -/
def TableExprsOk (cfg : TableCfg) : Prop := ∀ g ∈ cfg.fields, g.ex.valid = true ∧ g.ex.noPtile = true

/-- scanned column `j` is table column `ti` -/
theorem included_col (cfg : TableCfg) (q : Query) (j : Nat) (cj : Ex)
    (hj : ((includedFields cfg q).map (·.ex))[j]? = some cj) :
    ∃ ti, ∃ hti : ti < cfg.fields.length, (includedFields cfg q)[j]? = some (cfg.fields[ti]) ∧ (cfg.fields[ti]).ex = cj := by
  rw [List.getElem?_map] at hj
  cases hin : (includedFields cfg q)[j]? with
  | none => rw [hin] at hj; cases hj
  | some inF =>
    rw [hin] at hj
    simp only [Option.map_some, Option.some.injEq] at hj
    obtain ⟨ti, hti, he⟩ := includedFields_index cfg q j inF hin
    exact ⟨ti, hti, by rw [he], by rw [he]; exact hj⟩

/-- `hstore` for one scanned column -/
theorem col_hstore (x : Ext) (cfg : TableCfg) (wf : CfgWF cfg) (ops : List StoreOp) (hpos : StorePos ops)
    (q : Query) (metas : List KeyMeta) (pl : Plan)
    (hpl : planLocal cfg (runStore x cfg ops).now q = .ok pl)
    (hpos0 : 0 < gAsOfOf cfg (runStore x cfg ops).now pl)
    (rows0 : List Row) (j ti : Nat) (hti : ti < cfg.fields.length)
    (hv : (cfg.fields[ti]).ex.valid = true) (hp : (cfg.fields[ti]).ex.noPtile = true)
    (sv : ScanView cfg (runStore x cfg ops) ti j rows0) :
    ∀ r ∈ whereRows q metas rows0, ∀ t,
      gAsOfOf cfg (runStore x cfg ops).now pl < t ∧ t ≤ gUntilOf cfg (runStore x cfg ops).now pl →
      (r.cols.getD j none).at (cfg.fields[ti]).ex cfg.res t =
        (cfg.fields[ti]).ex.acc x (keyPeriodPts ((specRows q metas (acceptedRows cfg true (pointsOf ops)).1).filter
          (hasRow (whereRows q metas rows0))) (·.pt) r.key t) := by
  intro r hr t ht
  obtain ⟨hr0, hrw⟩ := (mem_whereRows q metas rows0 r).mp hr
  rw [keyPeriodPts_filter_good _ _ _ r.key t (fun a ha => hasRow_true hr ha),
    keyPeriodPts_specRows q metas _ _ r.key t (fun hw => specWhere_of_runWhere metas r.key (hrw hw)),
    sv.col r hr0]
  exact scanCol_at_live x cfg wf ops hpos r.key ti hti hv hp
    t (planLocal_window_live cfg _ q pl hpl wf.res_pos t ht.1) (by omega)

/-- an accepted, WHERE-passing row whose key has no scan row: its (key, period) group accumulates
    to the empty state in every scanned column -/
theorem col_uncovered_empty (x : Ext) (cfg : TableCfg) (wf : CfgWF cfg) (ops : List StoreOp) (hpos : StorePos ops)
    (q : Query) (metas : List KeyMeta) (pl : Plan)
    (hpl : planLocal cfg (runStore x cfg ops).now q = .ok pl)
    (hpos0 : 0 < gAsOfOf cfg (runStore x cfg ops).now pl)
    (rows0 : List Row) (j ti : Nat) (hti : ti < cfg.fields.length)
    (hv : (cfg.fields[ti]).ex.valid = true) (hp : (cfg.fields[ti]).ex.noPtile = true)
    (sv : ScanView cfg (runStore x cfg ops) ti j rows0)
    (hmetas : q.hasWhere = true → ∀ a ∈ (acceptedRows cfg true (pointsOf ops)).1, ∃ m ∈ metas, m.key = a.key) :
    ∀ a ∈ specRows q metas (acceptedRows cfg true (pointsOf ops)).1,
      gAsOfOf cfg (runStore x cfg ops).now pl < a.period ∧ a.period ≤ gUntilOf cfg (runStore x cfg ops).now pl →
      hasRow (whereRows q metas rows0) a = false →
      (cfg.fields[ti]).ex.acc x (keyPeriodPts (specRows q metas (acceptedRows cfg true (pointsOf ops)).1) (·.pt)
        a.key a.period) = (cfg.fields[ti]).ex.empty := by
  intro a ha hwin hbad
  obtain ⟨ha0, haw⟩ := (mem_specRows q metas _ a).mp ha
  rw [keyPeriodPts_specRows q metas _ _ a.key a.period haw,
    ← scanCol_at_live x cfg wf ops hpos a.key ti hti hv hp
      a.period (planLocal_window_live cfg _ q pl hpl wf.res_pos a.period hwin.1) (by omega)]
  have hnone : scanCol cfg (runStore x cfg ops) true a.key ti = none := by
    apply sv.cover
    intro r hr0 hk
    have hr : r ∈ whereRows q metas rows0 := by
      rw [mem_whereRows]
      refine ⟨hr0, fun hw => ?_⟩
      rw [hk]
      exact runWhere_of_specWhere metas a.key (hmetas hw a ha0) (haw hw)
    exact hasRow_false hbad r hr hk
  rw [hnone]; rfl

end Zeno
