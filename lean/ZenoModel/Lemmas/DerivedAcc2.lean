/-
Derived selected expressions, part 18 (stage 2): `assemble_acc`, by induction on the expression.
-/
import ZenoModel.Lemmas.DerivedAcc
set_option linter.unusedSimpArgs false
set_option linter.unusedVariables false
namespace Zeno

/-- the scanned columns do not read the key-level IF conditions `cs` (true for columns without IF,
    and for any column when `cs = []`) -/
def ColsIgnore (x : Ext) (subs : List Ex) (cs : List Nat) : Prop :=
  ∀ (i : Nat) (c : Ex), subs[i]? = some c → ∀ l : List Pt, c.acc x (l.map (addConds cs)) = c.acc x l

/-- the columns' accumulations of the points `ps` -/
def colAccs (x : Ext) (subs : List Ex) (ps : List Pt) : Nat → List Cell :=
  fun j => (subs.getD j (.const 0)).acc x ps

/-- the statement of `assemble_acc` for one expression -/
def AsmAcc (x : Ext) (subs : List Ex) (p : Pt) (ps : List Pt) (e : Ex) : Prop :=
  e.resolved subs = true → (∀ c ∈ e.openConds subs, ∀ pt ∈ ps, pt.includes c = false) →
    e.assemble subs p (colAccs x subs ps) = e.acc x (ps.map (addConds p.conds))

section
variable (x : Ext) {subs : List Ex} {p : Pt} {ps : List Pt} (hp0 : p.noMeta = false)
  (hirr : ColsIgnore x subs p.conds)
include hirr

theorem asmAcc_matched {n : Ex} {i : Nat} (hm : n.matchIdx subs = some i) (hr : (subs[i]? == some n) = true) :
    colAccs x subs ps i = n.acc x (ps.map (addConds p.conds)) := by
  have hs : subs[i]? = some n := by simpa using hr
  unfold colAccs
  rw [List.getD_eq_getElem?_getD, hs]
  exact (hirr i n hs ps).symm

theorem asmAcc_leaf (n : Ex)
    (hasm : ∀ st, n.assemble subs p st = match n.matchIdx subs with | some i => st i | none => n.empty)
    (hres : n.resolved subs = match n.matchIdx subs with | some i => subs[i]? == some n | none => false) :
    AsmAcc x subs p ps n := by
  intro hr _
  rw [hres] at hr
  rw [hasm]
  cases hm : n.matchIdx subs with
  | none => rw [hm] at hr; cases hr
  | some i => rw [hm] at hr; exact asmAcc_matched x hirr hm hr

theorem asmAcc_bin (op : BinOp) (l r : Ex) (hv : (Ex.bin op l r).valid = true) (hp : (Ex.bin op l r).noPtile = true)
    (ihl : AsmAcc x subs p ps l) (ihr : AsmAcc x subs p ps r) : AsmAcc x subs p ps (.bin op l r) := by
  intro hr hf
  simp only [Ex.valid, Bool.and_eq_true] at hv
  simp only [Ex.noPtile, Bool.and_eq_true] at hp
  cases hm : (Ex.bin op l r).matchIdx subs with
  | some i =>
    simp only [Ex.resolved, hm] at hr
    simp only [Ex.assemble, hm]
    exact asmAcc_matched x hirr hm hr
  | none =>
    simp only [Ex.resolved, hm, Bool.and_eq_true] at hr
    simp only [Ex.openConds, hm, List.mem_append] at hf
    simp only [Ex.assemble, hm]
    rw [ihl hr.1 (fun c hc => hf c (Or.inl hc)), ihr hr.2 (fun c hc => hf c (Or.inr hc)), acc_bin x hv.1 hp.1]

include hp0 in
theorem asmAcc_ifE (c : Nat) (w : Ex) (ih : AsmAcc x subs p ps w) : AsmAcc x subs p ps (.ifE c w) := by
  intro hr hf
  cases hm : (Ex.ifE c w).matchIdx subs with
  | some i =>
    simp only [Ex.resolved, hm] at hr
    simp only [Ex.assemble, hm]
    exact asmAcc_matched x hirr hm hr
  | none =>
    simp only [Ex.resolved, hm] at hr
    simp only [Ex.openConds, hm, List.mem_cons] at hf
    simp only [Ex.assemble, hm]
    have hpc : p.includes c = p.conds.contains c := by simp [Pt.includes, hp0]
    by_cases hc : p.includes c = true
    · rw [if_pos hc, ih hr (fun c' hc' => hf c' (Or.inr hc')), acc_ifE_all]
      intro pt hpt
      obtain ⟨pt0, _, rfl⟩ := List.mem_map.mp hpt
      rw [includes_addConds, ← hpc, hc, Bool.or_true]
    · rw [if_neg hc, acc_ifE_none]
      intro pt hpt
      obtain ⟨pt0, hpt0, rfl⟩ := List.mem_map.mp hpt
      rw [includes_addConds, ← hpc, hf c (Or.inl rfl) pt0 hpt0]
      simpa using hc

theorem asmAcc_bounded (w : Ex) (lo hi : Rat) (ih : AsmAcc x subs p ps w) :
    AsmAcc x subs p ps (.bounded w lo hi) := by
  intro hr hf
  cases hm : (Ex.bounded w lo hi).matchIdx subs with
  | some i =>
    simp only [Ex.resolved, hm] at hr
    simp only [Ex.assemble, hm]
    exact asmAcc_matched x hirr hm hr
  | none =>
    simp only [Ex.resolved, hm] at hr
    simp only [Ex.openConds, hm] at hf
    simp only [Ex.assemble, hm]
    rw [ih hr hf, acc_bounded]

theorem asmAcc_unary (u : Nat) (w : Ex) (ih : AsmAcc x subs p ps w) :
    AsmAcc x subs p ps (.unary u w) := by
  intro hr hf
  cases hm : (Ex.unary u w).matchIdx subs with
  | some i =>
    simp only [Ex.resolved, hm] at hr
    simp only [Ex.assemble, hm]
    exact asmAcc_matched x hirr hm hr
  | none =>
    simp only [Ex.resolved, hm] at hr
    simp only [Ex.openConds, hm] at hf
    simp only [Ex.assemble, hm]
    rw [ih hr hf, acc_unary]

include hp0 in
/-- THE ALGEBRAIC LEMMA: assembling the columns' accumulations of `ps` = accumulating `ps`, each
    point with the row's IF conditions appended, directly with `e` -/
theorem assemble_acc : ∀ (e : Ex), e.valid = true → e.noPtile = true → AsmAcc x subs p ps e := by
  intro e
  induction e with
  | field n => intro hv hp _ _; exact (acc_width0 x hv hp rfl _).symm
  | const v => intro hv hp _ _; exact (acc_width0 x hv hp rfl _).symm
  | agg k w _ => intro _ _; exact asmAcc_leaf x hirr _ (fun _ => by simp only [Ex.assemble]; rfl) (by simp only [Ex.resolved]; rfl)
  | avg v w _ _ => intro _ _; exact asmAcc_leaf x hirr _ (fun _ => by simp only [Ex.assemble]; rfl) (by simp only [Ex.resolved]; rfl)
  | bin op l r ihl ihr =>
    intro hv hp
    have hv' := hv; have hp' := hp
    simp only [Ex.valid, Bool.and_eq_true] at hv'
    simp only [Ex.noPtile, Bool.and_eq_true] at hp'
    exact asmAcc_bin x hirr op l r hv hp (ihl hv'.1 hp'.1) (ihr hv'.2 hp'.2)
  | ifE c w ih =>
    intro hv hp
    exact asmAcc_ifE x hp0 hirr c w (ih (by simpa [Ex.valid] using hv) (by simpa [Ex.noPtile] using hp))
  | bounded w lo hi ih =>
    intro hv hp
    exact asmAcc_bounded x hirr w lo hi (ih (by simpa [Ex.valid] using hv) (by simpa [Ex.noPtile] using hp))
  | unary f w ih =>
    intro hv hp
    exact asmAcc_unary x hirr f w (ih (by simpa [Ex.valid] using hv) (by simpa [Ex.noPtile] using hp))
  | shift w off _ => intro _ _ hr; simp [Ex.resolved] at hr
  | ptile id v pe n _ _ => intro _ hp; simp [Ex.noPtile] at hp

end

/-- columns without IF ignore any appended conditions -/
theorem colsIgnore_of_noIf (x : Ext) (subs : List Ex) (h : ∀ c ∈ subs, c.noIf = true) (cs : List Nat) :
    ColsIgnore x subs cs := by
  intro i c hc l
  have := acc_map_congr_conds x (h c (List.mem_of_getElem? hc)) (addConds cs) (fun pt : Pt => pt)
    (fun _ => ⟨rfl, rfl⟩) l
  simpa using this

/-- no appended conditions: nothing to ignore -/
theorem colsIgnore_nil (x : Ext) (subs : List Ex) : ColsIgnore x subs [] := by
  intro i c _ l
  have : l.map (addConds []) = l := by
    rw [List.map_congr_left (g := id)]
    · simp
    · intro pt _; simp [addConds]
  rw [this]

end Zeno
