/-
SubMerge semantics, part 4: the pointwise characterisation of `Sequence.SubMerge` (direct
sub-merger, no shift, no stride) in terms of the ORIGINAL operands and the query window.
-/
import ZenoModel.Lemmas.SubMergeSem
set_option linter.unusedSimpArgs false
namespace Zeno

/-- the source period ends of the out period ending at `T` — `T, T − otherRes, …,
    T − (k−1)·otherRes`, i.e. those in `(T − k·otherRes, T]`, newest first — that lie inside the
    window `(asOf, hi]` -/
def bucketTimes (otherRes : Int) (k : Nat) (asOf hi T : Int) : List Int :=
  ((List.range k).map (fun (j : Nat) => T - (j : Int) * otherRes)).filter
    (fun t => decide (asOf < t ∧ t ≤ hi))

/-- merge the source's states of the periods `ts` onto `acc`, in that order -/
def mergeOnto (e : Ex) (otherRes : Int) (other : Sq) (ts : List Int) (acc : List Cell) : List Cell :=
  ts.foldl (fun a t => e.mrg a (other.at e otherRes t)) acc

/-- the side conditions on resolutions and window (all established by `planLocal`/`groupRows`) -/
structure SMWindow (res otherRes : Int) (k : Nat) (asOf hi : Int) : Prop where
  otherResPos : 0 < otherRes
  kPos : 0 < k
  resEq : res = (k : Int) * otherRes
  asOfPos : 0 < asOf
  asOfLt : asOf < hi
  asOfAl : asOf % otherRes = 0
  hiAl : hi % otherRes = 0

/-- the receiver is empty or lies on the out grid anchored at `hi`, in positive time, with
    well-formed states -/
def RecvGrid (e : Ex) (res hi : Int) : Sq → Prop
  | none => True
  | some q => (hi - q.hi) % res = 0 ∧ 0 < q.hi ∧ CellsWF e q.cells

/-- nothing outside the window -/
def InWindow (e : Ex) (res asOf hi : Int) (s : Sq) : Prop :=
  ∀ T, ¬ (asOf < T ∧ T ≤ hi) → s.at e res T = e.empty

theorem sq_at_wf {e : Ex} {s : Sq} (h : SqWF e s) (res t : Int) : WF e (s.at e res t) := by
  cases s with
  | none => exact wf_empty e
  | some q => exact at_wf h res t

theorem recvGrid_wf {e : Ex} {res hi : Int} {s : Sq} (h : RecvGrid e res hi s) : SqWF e s := by
  cases s with
  | none => trivial
  | some q => exact h.2.2

theorem foldl_mrg_filter {e : Ex} (hv : e.valid = true) (hp : e.noPtile = true) (W : Int → Bool)
    (g : Int → List Cell) : ∀ (l : List Int) (acc : List Cell), WF e acc → (∀ t, WF e (g t)) →
    l.foldl (fun a t => e.mrg a (if W t then g t else e.empty)) acc =
      (l.filter W).foldl (fun a t => e.mrg a (g t)) acc := by
  intro l
  induction l with
  | nil => intro acc _ _; rfl
  | cons t l ih =>
    intro acc hw hg
    simp only [List.foldl_cons, List.filter_cons]
    by_cases hW : W t = true
    · simp only [hW, if_true, List.foldl_cons]
      exact ih _ (mrg_wf hv hp hw (hg t)) hg
    · have hW' : W t = false := by cases h : W t <;> simp_all
      simp only [hW', Bool.false_eq_true, if_false]
      rw [mrg_empty_right hv hp hw]
      exact ih _ hw hg

/-- the source restricted to the window: `Truncate` with both bounds on the source's grid -/
theorem truncate_window (e : Ex) {r : Int} (h : 0 < r) (ob : Seq) (hob : SeqOk r ob) (asOf hi : Int)
    (ha : 0 < asOf) (hlt : asOf < hi) (haa : asOf % r = 0) (hha : hi % r = 0) (t : Int) :
    (Sq.truncate (some ob) r asOf hi).at e r t =
      if asOf < t ∧ t ≤ hi then Sq.at (some ob) e r t else e.empty := by
  have hq : ob.hi ≠ 0 := by have := hob.pos; omega
  rw [sem_truncate e h ob asOf hi t,
    roundUntilDown_aligned h (by omega) hq (emod_sub_of hob.aligned haa),
    roundUntilDown_aligned h (by omega) hq (emod_sub_of hob.aligned hha)]
  have h1 : ¬ asOf = 0 := by omega
  have h2 : ¬ hi = 0 := by omega
  simp only [h1, h2, false_or]

/-- the receiver restricted to the window, on out-grid points: the bucket that `asOf` cuts is
    kept (the bound is rounded DOWN on the receiver's grid) -/
theorem recv_truncate_at (e : Ex) {res : Int} (h : 0 < res) (q : Seq) (asOf hi : Int)
    (ha : 0 < asOf) (hlt : asOf < hi) (hg : (hi - q.hi) % res = 0) (hq : 0 < q.hi) (T : Int)
    (hT : (hi - T) % res = 0) :
    (Sq.truncate (some q) res asOf hi).at e res T =
      if (roundUntilDown asOf res q.hi = 0 ∨ asOf < T) ∧ T ≤ hi then Sq.at (some q) e res T else e.empty := by
  have hg' : (q.hi - hi) % res = 0 := by
    have : q.hi - hi = -(hi - q.hi) := by omega
    rw [this]; exact Int.emod_eq_zero_of_dvd (Int.dvd_neg.mpr (Int.dvd_of_emod_eq_zero hg))
  obtain ⟨s1, s2, s3⟩ := roundUntilDown_spec (t := asOf) (hi := q.hi) h (by omega) (by omega)
  rw [sem_truncate e h q asOf hi T, roundUntilDown_aligned h (by omega) (by omega) hg']
  generalize roundUntilDown asOf res q.hi = A at *
  have h2 : ¬ hi = 0 := by omega
  simp only [h2, false_or]
  by_cases hA : A = 0
  · simp only [hA, true_or]
  · simp only [hA, false_or]
    have hiff : A < T ↔ asOf < T := by
      constructor
      · intro hAT
        have hm : (T - A) % res = 0 := by
          have : T - A = (q.hi - A) - ((q.hi - hi) + (hi - T)) := by omega
          rw [this]; exact emod_sub_of s1 (emod_add_of hg' hT)
        have := grid_gap h hm (by omega)
        omega
      · intro haT; omega
    simp only [hiff]

/-- the bucket of an out period outside the window has no source period inside the window -/
theorem bucket_outside {res otherRes : Int} {k : Nat} {asOf hi : Int} (w : SMWindow res otherRes k asOf hi)
    (T : Int) (hT : (hi - T) % res = 0) (hout : ¬ (asOf < T ∧ T ≤ hi)) (j : Nat) (hj : j < k) :
    ¬ (asOf < T - (j : Int) * otherRes ∧ T - (j : Int) * otherRes ≤ hi) := by
  have hkI : (0 : Int) < (k : Int) := by have := w.kPos; omega
  have hres : 0 < res := by rw [w.resEq]; exact Int.mul_pos hkI w.otherResPos
  have h1 : (j : Int) * otherRes < res := by
    rw [w.resEq]; exact Int.mul_lt_mul_of_pos_right (by omega) w.otherResPos
  have h2 : 0 ≤ (j : Int) * otherRes := Int.mul_nonneg (by omega) (Int.le_of_lt w.otherResPos)
  intro ⟨a, b⟩
  by_cases hc : T ≤ hi
  · exact hout ⟨by omega, hc⟩
  · have hm : (T - hi) % res = 0 := by
      have : T - hi = -(hi - T) := by omega
      rw [this]; exact Int.emod_eq_zero_of_dvd (Int.dvd_neg.mpr (Int.dvd_of_emod_eq_zero hT))
    have := grid_gap hres hm (by omega)
    omega

/-- range-`k` fold with a window guard = fold over the bucket's source periods inside the window -/
theorem fold_bucket {e : Ex} (hv : e.valid = true) (hp : e.noPtile = true) (otherRes : Int) (k : Nat)
    (asOf hi T : Int) (other : Sq) (hwo : SqWF e other) (acc : List Cell) (hw : WF e acc) :
    (List.range k).foldl (fun a (j : Nat) => e.mrg a
        (if asOf < T - (j : Int) * otherRes ∧ T - (j : Int) * otherRes ≤ hi
          then other.at e otherRes (T - (j : Int) * otherRes) else e.empty)) acc =
      mergeOnto e otherRes other (bucketTimes otherRes k asOf hi T) acc := by
  unfold mergeOnto bucketTimes
  rw [← foldl_mrg_filter hv hp (fun t => decide (asOf < t ∧ t ≤ hi)) (fun t => other.at e otherRes t) _ _ hw
    (fun t => sq_at_wf hwo otherRes t), List.foldl_map]
  refine foldl_mrg_congr e _ _ _ _ ?_
  intro j _
  by_cases hc : asOf < T - (j : Int) * otherRes ∧ T - (j : Int) * otherRes ≤ hi
  · simp only [hc, and_self, if_true, decide_true]
  · simp only [hc, if_false, decide_false]
    simp

/-- EXACTLY the source periods of the bucket `(T − k·otherRes, T]` that lie inside the window
    `(asOf, hi]` -/
theorem mem_bucketTimes {otherRes : Int} (h : 0 < otherRes) (k : Nat) (asOf hi T t : Int) :
    t ∈ bucketTimes otherRes k asOf hi T ↔
      (T - (k : Int) * otherRes < t ∧ t ≤ T ∧ (T - t) % otherRes = 0) ∧ asOf < t ∧ t ≤ hi := by
  unfold bucketTimes
  rw [List.mem_filter, List.mem_map]
  simp only [decide_eq_true_eq]
  constructor
  · intro ⟨⟨j, hj, hjt⟩, hw⟩
    have hjk : j < k := List.mem_range.mp hj
    have h1 : (j : Int) * otherRes < (k : Int) * otherRes := Int.mul_lt_mul_of_pos_right (by omega) h
    have h2 : 0 ≤ (j : Int) * otherRes := Int.mul_nonneg (by omega) (Int.le_of_lt h)
    refine ⟨⟨by omega, by omega, ?_⟩, hw⟩
    have : T - t = (j : Int) * otherRes := by omega
    rw [this]; exact Int.mul_emod_left _ _
  · intro ⟨⟨h1, h2, h3⟩, hw⟩
    refine ⟨⟨((T - t) / otherRes).toNat, ?_, ?_⟩, hw⟩
    · rw [List.mem_range]
      have hx : (T - t) / otherRes * otherRes = T - t := by
        have := Int.mul_ediv_add_emod (T - t) otherRes
        rw [Int.mul_comm]; omega
      have hq : 0 ≤ (T - t) / otherRes := Int.ediv_nonneg (by omega) (Int.le_of_lt h)
      have : (T - t) / otherRes < (k : Int) := by
        rw [Int.ediv_lt_iff_lt_mul h]; omega
      omega
    · have hx : (T - t) / otherRes * otherRes = T - t := by
        have := Int.mul_ediv_add_emod (T - t) otherRes
        rw [Int.mul_comm]; omega
      have hq : 0 ≤ (T - t) / otherRes := Int.ediv_nonneg (by omega) (Int.le_of_lt h)
      rw [Int.toNat_of_nonneg hq, hx]; omega

/-- … each of them once -/
theorem nodup_bucketTimes {otherRes : Int} (h : 0 < otherRes) (k : Nat) (asOf hi T : Int) :
    (bucketTimes otherRes k asOf hi T).Nodup := by
  unfold bucketTimes
  apply List.Pairwise.filter
  apply List.Pairwise.map _ _ List.pairwise_lt_range
  intro a b hab
  have : (a : Int) * otherRes < (b : Int) * otherRes := Int.mul_lt_mul_of_pos_right (by omega) h
  show T - (a : Int) * otherRes ≠ T - (b : Int) * otherRes
  omega

end Zeno
