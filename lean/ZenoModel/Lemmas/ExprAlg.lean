/-
Structure ("consumes exactly its own cells") and algebra of update / merge for
valid, PERCENTILE-free expressions.
-/
import ZenoModel.Lemmas.Expr

namespace Zeno
open Gen

theorem map_kind_singleton {cs : List Cell} {k : CK} (h : cs.map Cell.kind = [k]) :
    ∃ c, cs = [c] ∧ c.kind = k := by
  match cs, h with
  | [c], h => exact ⟨c, rfl, by simpa using h⟩

/-- a well-formed state of an aggregate is a single aggregate cell -/
theorem wf_agg_inv {k : AggKind} {w : Ex} (hw : w.isLeafArg = true) {cs : List Cell}
    (h : WF (.agg k w) cs) : ∃ v, cs = [.agg v] := by
  unfold WF at h
  simp only [Ex.shape, leafArg_shape hw] at h
  obtain ⟨c, rfl, hc⟩ := map_kind_singleton h
  cases c with
  | agg v => exact ⟨v, rfl⟩
  | avg v => simp [Cell.kind] at hc
  | hist v => simp [Cell.kind] at hc

theorem wf_avg_inv {v w : Ex} (hv : v.isLeafArg = true) {cs : List Cell}
    (h : WF (.avg v w) cs) : ∃ c, cs = [.avg c] := by
  unfold WF at h
  simp only [Ex.shape, leafArg_shape hv] at h
  obtain ⟨c, rfl, hc⟩ := map_kind_singleton h
  cases c with
  | avg v => exact ⟨v, rfl⟩
  | agg v => simp [Cell.kind] at hc
  | hist v => simp [Cell.kind] at hc

/-! ### get -/

theorem get_append (x : Ext) : ∀ {e : Ex}, e.valid = true → e.noPtile = true →
    ∀ {c1 : List Cell}, WF e c1 → ∃ V S, ∀ rest, e.get x (c1 ++ rest) = (V, S, rest) := by
  intro e
  induction e with
  | field n =>
      intro _ _ c1 hw
      have : c1 = [] := wf_nil_of_shape_nil rfl hw
      subst this
      exact ⟨0, false, fun rest => by simp [Ex.get]⟩
  | const v =>
      intro _ _ c1 hw
      have : c1 = [] := wf_nil_of_shape_nil rfl hw
      subst this
      exact ⟨v, true, fun rest => by simp [Ex.get]⟩
  | agg k w _ =>
      intro hv _ c1 hw
      have hl : w.isLeafArg = true := by simpa [Ex.valid] using hv
      obtain ⟨v, rfl⟩ := wf_agg_inv hl hw
      cases v with
      | none => exact ⟨0, false, fun rest => by simp [Ex.get, leafArg_width hl]⟩
      | some v => exact ⟨v, true, fun rest => by simp [Ex.get, leafArg_width hl]⟩
  | avg v w _ _ =>
      intro hv _ c1 hw
      have hl : v.isLeafArg = true := by simp [Ex.valid] at hv; exact hv.1
      obtain ⟨c, rfl⟩ := wf_avg_inv hl hw
      cases c with
      | none => exact ⟨0, false, fun rest => by simp [Ex.get, leafArg_width hl]⟩
      | some ct => exact ⟨calcAvg ct.1 ct.2, true, fun rest => by simp [Ex.get, leafArg_width hl]⟩
  | bin op l r ihl ihr =>
      intro hv hp c1 hw
      simp [Ex.valid] at hv
      simp [Ex.noPtile] at hp
      obtain ⟨cl, cr, rfl, hwl, hwr⟩ := wf_split hw
      obtain ⟨Vl, Sl, hl⟩ := ihl hv.1 hp.1 hwl
      obtain ⟨Vr, Sr, hr⟩ := ihr hv.2 hp.2 hwr
      refine ⟨if !Sl && !Sr then 0 else binCalc op Vl Vr, if !Sl && !Sr then false else true, fun rest => ?_⟩
      simp only [Ex.get, List.append_assoc, hl, hr]
      split <;> simp_all
  | ifE c w ih =>
      intro hv hp c1 hw
      simpa [Ex.get] using ih (by simpa [Ex.valid] using hv) (by simpa [Ex.noPtile] using hp) hw
  | bounded w lo hi ih =>
      intro hv hp c1 hw
      obtain ⟨V, S, h⟩ := ih (by simpa [Ex.valid] using hv) (by simpa [Ex.noPtile] using hp) hw
      refine ⟨if !S || !(bounded_test lo hi V) then 0 else V, if !S || !(bounded_test lo hi V) then false else S, fun rest => ?_⟩
      simp only [Ex.get, h]
      split <;> simp_all
  | shift w off ih =>
      intro hv hp c1 hw
      simpa [Ex.get] using ih (by simpa [Ex.valid] using hv) (by simpa [Ex.noPtile] using hp) hw
  | unary f w ih =>
      intro hv hp c1 hw
      obtain ⟨V, S, h⟩ := ih (by simpa [Ex.valid] using hv) (by simpa [Ex.noPtile] using hp) hw
      exact ⟨if S then x.unaryFn f V else V, S, fun rest => by simp [Ex.get, h]⟩
  | ptile _ _ _ _ _ _ => intro _ hp; simp [Ex.noPtile] at hp

/-! ### update -/

theorem update_append (x : Ext) (p : Pt) : ∀ {e : Ex}, e.valid = true → e.noPtile = true →
    ∀ {c1 : List Cell}, WF e c1 →
    ∃ A V U, WF e A ∧ ∀ rest, e.update x (c1 ++ rest) p = (A, rest, V, U) := by
  intro e
  induction e with
  | field n =>
      intro _ _ c1 hw
      have : c1 = [] := wf_nil_of_shape_nil rfl hw
      subst this
      cases hg : p.get n with
      | none => exact ⟨[], 0, false, hw, fun rest => by simp [Ex.update, hg]⟩
      | some v => exact ⟨[], v, true, hw, fun rest => by simp [Ex.update, hg]⟩
  | const v =>
      intro _ _ c1 hw
      have : c1 = [] := wf_nil_of_shape_nil rfl hw
      subst this
      exact ⟨[], v, false, hw, fun rest => by simp [Ex.update]⟩
  | agg k w _ =>
      intro hv _ c1 hw
      have hl : w.isLeafArg = true := by simpa [Ex.valid] using hv
      obtain ⟨v, rfl⟩ := wf_agg_inv hl hw
      cases hu : w.argUpd x p with
      | false =>
          refine ⟨[.agg v], (match v with | some v => v | none => 0), false, hw, fun rest => ?_⟩
          cases v <;> simp [Ex.update, leafArg_update x hl, hu]
      | true =>
          cases v with
          | none =>
              refine ⟨[.agg (some (aggUpdate k false 0 (w.argVal x p)))], aggUpdate k false 0 (w.argVal x p), true, ?_, fun rest => ?_⟩
              · simp [WF, Ex.shape, leafArg_shape hl, Cell.kind]
              · simp [Ex.update, leafArg_update x hl, hu]
          | some v =>
              refine ⟨[.agg (some (aggUpdate k true v (w.argVal x p)))], aggUpdate k true v (w.argVal x p), true, ?_, fun rest => ?_⟩
              · simp [WF, Ex.shape, leafArg_shape hl, Cell.kind]
              · simp [Ex.update, leafArg_update x hl, hu]
  | avg v w _ _ =>
      intro hv _ c1 hw
      simp [Ex.valid] at hv
      have hl := hv.1
      have hw0 : w.width = 0 := hv.2
      obtain ⟨c, rfl⟩ := wf_avg_inv hl hw
      cases hu : v.argUpd x p with
      | false =>
          refine ⟨[.avg c], (match c with | some ct => calcAvg ct.1 ct.2 | none => calcAvg 0 0), false, hw, fun rest => ?_⟩
          cases c <;> simp [Ex.update, leafArg_update x hl, width0_update x hw0, hu] <;> rfl
      | true =>
          cases c with
          | none =>
              refine ⟨[.avg (some (0 + w.argVal x p, 0 + v.argVal x p * w.argVal x p))], calcAvg (0 + w.argVal x p) (0 + v.argVal x p * w.argVal x p), true, ?_, fun rest => ?_⟩
              · simp [WF, Ex.shape, leafArg_shape hl, Cell.kind]
              · simp [Ex.update, leafArg_update x hl, width0_update x hw0, hu]
          | some ct =>
              refine ⟨[.avg (some (ct.1 + w.argVal x p, ct.2 + v.argVal x p * w.argVal x p))], calcAvg (ct.1 + w.argVal x p) (ct.2 + v.argVal x p * w.argVal x p), true, ?_, fun rest => ?_⟩
              · simp [WF, Ex.shape, leafArg_shape hl, Cell.kind]
              · simp [Ex.update, leafArg_update x hl, width0_update x hw0, hu]
  | bin op l r ihl ihr =>
      intro hv hp c1 hw
      simp [Ex.valid] at hv
      simp [Ex.noPtile] at hp
      obtain ⟨cl, cr, rfl, hwl, hwr⟩ := wf_split hw
      obtain ⟨Al, Vl, Ul, hal, hl⟩ := ihl hv.1 hp.1 hwl
      obtain ⟨Ar, Vr, Ur, har, hr⟩ := ihr hv.2 hp.2 hwr
      refine ⟨Al ++ Ar, binCalc op Vl Vr, Ul || Ur, ?_, fun rest => ?_⟩
      · unfold WF at *; simp [Ex.shape, hal, har]
      · simp [Ex.update, List.append_assoc, hl, hr]
  | ifE c w ih =>
      intro hv hp c1 hw
      have hv' : w.valid = true := by simpa [Ex.valid] using hv
      have hp' : w.noPtile = true := by simpa [Ex.noPtile] using hp
      have hw' : WF w c1 := hw
      cases hi : p.includes c with
      | true =>
          obtain ⟨A, V, U, ha, h⟩ := ih hv' hp' hw'
          exact ⟨A, V, U, ha, fun rest => by simp [Ex.update, hi, h]⟩
      | false =>
          obtain ⟨V, S, h⟩ := get_append x hv' hp' hw'
          refine ⟨c1, V, false, hw, fun rest => ?_⟩
          simp [Ex.update, hi, h, ← hw'.length]
  | bounded w lo hi ih =>
      intro hv hp c1 hw
      obtain ⟨A, V, U, ha, h⟩ := ih (by simpa [Ex.valid] using hv) (by simpa [Ex.noPtile] using hp) hw
      refine ⟨A, if !(bounded_test lo hi V) then 0 else V, if !(bounded_test lo hi V) then false else U, ha, fun rest => ?_⟩
      simp only [Ex.update, h]
      split <;> simp_all
  | shift w off ih =>
      intro hv hp c1 hw
      obtain ⟨A, V, U, ha, h⟩ := ih (by simpa [Ex.valid] using hv) (by simpa [Ex.noPtile] using hp) hw
      exact ⟨A, V, U, ha, fun rest => by simp [Ex.update, h]⟩
  | unary f w ih =>
      intro hv hp c1 hw
      obtain ⟨A, V, U, ha, h⟩ := ih (by simpa [Ex.valid] using hv) (by simpa [Ex.noPtile] using hp) hw
      exact ⟨A, V, U, ha, fun rest => by simp [Ex.update, h]⟩
  | ptile _ _ _ _ _ _ => intro _ hp; simp [Ex.noPtile] at hp

/-! ### merge -/

theorem merge_append : ∀ {e : Ex}, e.valid = true → e.noPtile = true →
    ∀ {x1 y1 : List Cell}, WF e x1 → WF e y1 →
    ∃ A, WF e A ∧ ∀ xr yr, e.merge (x1 ++ xr) (y1 ++ yr) = (A, xr, yr) := by
  intro e
  induction e with
  | field n =>
      intro _ _ x1 y1 hx hy
      have : x1 = [] := wf_nil_of_shape_nil rfl hx
      have : y1 = [] := wf_nil_of_shape_nil rfl hy
      subst_vars
      exact ⟨[], hx, fun xr yr => by simp [Ex.merge]⟩
  | const v =>
      intro _ _ x1 y1 hx hy
      have : x1 = [] := wf_nil_of_shape_nil rfl hx
      have : y1 = [] := wf_nil_of_shape_nil rfl hy
      subst_vars
      exact ⟨[], hx, fun xr yr => by simp [Ex.merge]⟩
  | agg k w _ =>
      intro hv _ x1 y1 hx hy
      have hl : w.isLeafArg = true := by simpa [Ex.valid] using hv
      obtain ⟨a, rfl⟩ := wf_agg_inv hl hx
      obtain ⟨b, rfl⟩ := wf_agg_inv hl hy
      refine ⟨[.agg (mergeOpt (aggMerge k true) a b)], ?_, fun xr yr => ?_⟩
      · simp [WF, Ex.shape, leafArg_shape hl, Cell.kind]
      · simp [Ex.merge]
  | avg v w _ _ =>
      intro hv _ x1 y1 hx hy
      simp [Ex.valid] at hv
      obtain ⟨a, rfl⟩ := wf_avg_inv hv.1 hx
      obtain ⟨b, rfl⟩ := wf_avg_inv hv.1 hy
      refine ⟨[.avg (mergeOpt (fun a b => (a.1 + b.1, a.2 + b.2)) a b)], ?_, fun xr yr => ?_⟩
      · simp [WF, Ex.shape, leafArg_shape hv.1, Cell.kind]
      · simp [Ex.merge]
  | bin op l r ihl ihr =>
      intro hv hp x1 y1 hx hy
      simp [Ex.valid] at hv
      simp [Ex.noPtile] at hp
      obtain ⟨xl, xr', rfl, hxl, hxr⟩ := wf_split hx
      obtain ⟨yl, yr', rfl, hyl, hyr⟩ := wf_split hy
      obtain ⟨Al, hal, hl⟩ := ihl hv.1 hp.1 hxl hyl
      obtain ⟨Ar, har, hr⟩ := ihr hv.2 hp.2 hxr hyr
      refine ⟨Al ++ Ar, ?_, fun xr yr => ?_⟩
      · unfold WF at *; simp [Ex.shape, hal, har]
      · simp [Ex.merge, List.append_assoc, hl, hr]
  | ifE c w ih =>
      intro hv hp x1 y1 hx hy
      obtain ⟨A, ha, h⟩ := ih (by simpa [Ex.valid] using hv) (by simpa [Ex.noPtile] using hp) hx hy
      exact ⟨A, ha, fun xr yr => by simp [Ex.merge, h]⟩
  | bounded w lo hi ih =>
      intro hv hp x1 y1 hx hy
      obtain ⟨A, ha, h⟩ := ih (by simpa [Ex.valid] using hv) (by simpa [Ex.noPtile] using hp) hx hy
      exact ⟨A, ha, fun xr yr => by simp [Ex.merge, h]⟩
  | shift w off ih =>
      intro hv hp x1 y1 hx hy
      obtain ⟨A, ha, h⟩ := ih (by simpa [Ex.valid] using hv) (by simpa [Ex.noPtile] using hp) hx hy
      exact ⟨A, ha, fun xr yr => by simp [Ex.merge, h]⟩
  | unary f w ih =>
      intro hv hp x1 y1 hx hy
      obtain ⟨A, ha, h⟩ := ih (by simpa [Ex.valid] using hv) (by simpa [Ex.noPtile] using hp) hx hy
      exact ⟨A, ha, fun xr yr => by simp [Ex.merge, h]⟩
  | ptile _ _ _ _ _ _ => intro _ hp; simp [Ex.noPtile] at hp

/-! ### consequences in terms of the whole-state wrappers `upd` / `mrg` -/

variable (x : Ext)

theorem update_eq {e : Ex} (hv : e.valid = true) (hp : e.noPtile = true) {c1 : List Cell}
    (hw : WF e c1) (p : Pt) (rest : List Cell) :
    e.update x (c1 ++ rest) p =
      (e.upd x c1 p, rest, (e.update x c1 p).2.2.1, (e.update x c1 p).2.2.2) := by
  obtain ⟨A, V, U, _, h⟩ := update_append x p hv hp hw
  have h0 := h []
  rw [List.append_nil] at h0
  simp [Ex.upd, h rest, h0]

theorem upd_wf {e : Ex} (hv : e.valid = true) (hp : e.noPtile = true) {c1 : List Cell}
    (hw : WF e c1) (p : Pt) : WF e (e.upd x c1 p) := by
  obtain ⟨A, V, U, ha, h⟩ := update_append x p hv hp hw
  have h0 := h []
  rw [List.append_nil] at h0
  simpa [Ex.upd, h0] using ha

theorem merge_eq {e : Ex} (hv : e.valid = true) (hp : e.noPtile = true) {x1 y1 : List Cell}
    (hx : WF e x1) (hy : WF e y1) (xr yr : List Cell) :
    e.merge (x1 ++ xr) (y1 ++ yr) = (e.mrg x1 y1, xr, yr) := by
  obtain ⟨A, _, h⟩ := merge_append hv hp hx hy
  have h0 := h [] []
  simp only [List.append_nil] at h0
  simp [Ex.mrg, h xr yr, h0]

theorem mrg_wf {e : Ex} (hv : e.valid = true) (hp : e.noPtile = true) {x1 y1 : List Cell}
    (hx : WF e x1) (hy : WF e y1) : WF e (e.mrg x1 y1) := by
  obtain ⟨A, ha, h⟩ := merge_append hv hp hx hy
  have h0 := h [] []
  simp only [List.append_nil] at h0
  simpa [Ex.mrg, h0] using ha

theorem upd_bin {op : BinOp} {l r : Ex} (hvl : l.valid = true) (hpl : l.noPtile = true)
    {cl cr : List Cell} (hl : WF l cl) (p : Pt) :
    (Ex.bin op l r).upd x (cl ++ cr) p = l.upd x cl p ++ r.upd x cr p := by
  simp [Ex.upd, Ex.update, update_eq x hvl hpl hl p cr]

theorem mrg_bin {op : BinOp} {l r : Ex} (hvl : l.valid = true) (hpl : l.noPtile = true)
    {xl xr yl yr : List Cell} (hx : WF l xl) (hy : WF l yl) :
    (Ex.bin op l r).mrg (xl ++ xr) (yl ++ yr) = l.mrg xl yl ++ r.mrg xr yr := by
  simp [Ex.mrg, Ex.merge, merge_eq hvl hpl hx hy xr yr]

end Zeno
