/-
Store ↔ column projection, part 2: the invariants (`StoreInv` on reachable stores, `ProjInv`
between a store and the column of one (key, field index)) and their preservation by
`Store.ingest`.
-/
import ZenoModel.Lemmas.StoreProjList
import ZenoModel.Lemmas.Time
set_option linter.unusedSimpArgs false
set_option linter.unusedVariables false
namespace Zeno

/-- well-formed table configuration: no two fields print alike, positive resolution,
    non-negative retention -/
structure CfgWF (cfg : TableCfg) : Prop where
  distinct : FieldsDistinct cfg.fields
  res_pos : 0 < cfg.res
  ret_nonneg : 0 ≤ cfg.retention

instance (cfg : TableCfg) : Decidable (CfgWF cfg) :=
  decidable_of_iff (FieldsDistinct cfg.fields ∧ 0 < cfg.res ∧ 0 ≤ cfg.retention)
    ⟨fun ⟨a, b, c⟩ => ⟨a, b, c⟩, fun ⟨a, b, c⟩ => ⟨a, b, c⟩⟩

/-- every point of the script is stamped after Go's zero time -/
def StorePos : List StoreOp → Prop
  | [] => True
  | .ingest p :: r => 0 < p.ts ∧ StorePos r
  | .flush _ :: r => StorePos r

instance : (ops : List StoreOp) → Decidable (StorePos ops)
  | [] => isTrue trivial
  | .ingest p :: r => by
      unfold StorePos
      exact @instDecidableAnd _ _ _ (instDecidableStorePos r)
  | .flush _ :: r => by unfold StorePos; exact instDecidableStorePos r

/-- column `i` of the row with key `key` (`none` when there is no such row) -/
def rowCol (rows : List Row) (key : Key) (i : Nat) : Sq :=
  match rows.find? (fun r => r.key == key) with
  | some r => r.cols.getD i none
  | none => none

structure RowsOk (n : Nat) (rows : List Row) : Prop where
  uniq : rows.Pairwise (fun a b => a.key ≠ b.key)
  len : ∀ r ∈ rows, r.cols.length = n

def MemSome (rows : List Row) : Prop := ∀ r ∈ rows, ∀ c ∈ r.cols, c ≠ none

/-- structural invariant of every store reachable from `Store.init cfg` -/
structure StoreInv (cfg : TableCfg) (st : Store) : Prop where
  memFields : st.memFields = cfg.fields
  fileFields : st.file = none ∨ st.fileFields = cfg.fields.map some
  memOk : RowsOk cfg.fields.length st.mem
  fileOk : RowsOk cfg.fields.length (st.file.getD [])
  memSome : MemSome st.mem

/-- the column configuration of field `i` -/
def ccfgOf (cfg : TableCfg) (i : Nat) : ColCfg :=
  { e := (cfg.fields.getD i default).ex, res := cfg.res, retention := cfg.retention }

/-- the one-column state `c` is the store `st` seen at (key, field `i`) -/
structure ProjInv (st : Store) (key : Key) (i : Nat) (c : Col) : Prop where
  now : c.now = st.now
  mem : c.mem = rowCol st.mem key i
  file : c.file = rowCol (st.file.getD []) key i

theorem rowsOk_nil (n : Nat) : RowsOk n [] := ⟨List.Pairwise.nil, fun _ h => by simp at h⟩

theorem storeInv_init (cfg : TableCfg) : StoreInv cfg (Store.init cfg) :=
  ⟨rfl, Or.inl rfl, rowsOk_nil _, rowsOk_nil _, fun _ h => by simp [Store.init] at h⟩

theorem projInv_init (cfg : TableCfg) (key : Key) (i : Nat) : ProjInv (Store.init cfg) key i {} :=
  ⟨rfl, rfl, rfl⟩

/-! ### rows by key -/

theorem find_map_key (f : Row → Row) (hf : ∀ r, (f r).key = r.key) (l : List Row) (key : Key) :
    (l.map f).find? (fun r => r.key == key) = (l.find? (fun r => r.key == key)).map f := by
  rw [List.find?_map]
  congr 1
  congr 1
  funext r
  simp [Function.comp, hf]

theorem rowCol_none_of_not_any {rows : List Row} {key : Key}
    (h : rows.any (fun r => r.key == key) = false) (i : Nat) : rowCol rows key i = none := by
  unfold rowCol
  have : rows.find? (fun r => r.key == key) = none := by
    rw [List.find?_eq_none]
    intro r hr
    have := (List.any_eq_false.mp h) r hr
    simpa using this
  rw [this]

theorem getD_zip_map (fields : List Field) (cols : List Sq) (g : Field × Sq → Sq) (i : Nat)
    (hi : i < fields.length) (hc : i < cols.length) :
    ((fields.zip cols).map g).getD i none = g (fields.getD i default, cols.getD i none) := by
  have hz : i < (fields.zip cols).length := by simp; omega
  simp [List.getD_eq_getElem?_getD, List.getElem?_map, List.getElem?_eq_getElem hz,
    List.getElem?_eq_getElem hi, List.getElem?_eq_getElem hc]

/-! ### `Sq.updateValue` stores something as soon as the timestamp is positive -/

theorem updateValue0_ne_none (x : Ext) (e : Ex) {res : Int} (h : 0 < res) (s : Sq) (ts : Int)
    (hts : 0 < ts) (p : Pt) : Sq.updateValue x e res s ts p 0 ≠ none := by
  have hr1 := roundUp_ge (t := ts) h
  unfold Sq.updateValue
  generalize roundUp ts res = ts' at *
  have h0 : ∀ u, roundUntilUp 0 res u = 0 := fun u => by simp [roundUntilUp]
  simp only [h0]
  have hgt : ts' > 0 := by omega
  rw [if_neg (by simpa using hgt)]
  cases s with
  | none => simp
  | some q =>
    simp only
    split
    · simp
    · split <;> simp

/-! ### `memUpdate` -/

def updCols (x : Ext) (cfg : TableCfg) (fields : List Field) (ts : Int) (pt : Pt) (cols : List Sq) : List Sq :=
  (fields.zip cols).map (fun (f, c) => Sq.updateValue x f.ex cfg.res c ts pt 0)

theorem memUpdate_eq (x : Ext) (cfg : TableCfg) (fields : List Field) (mem : List Row) (key : Key)
    (ts : Int) (pt : Pt) :
    memUpdate x cfg fields mem key ts pt =
      if mem.any (fun r => r.key == key) then
        mem.map (fun r => if r.key == key then { r with cols := updCols x cfg fields ts pt r.cols } else r)
      else mem ++ [{ key := key, cols := updCols x cfg fields ts pt (fields.map (fun _ => none)) }] := rfl

theorem updCols_length (x : Ext) (cfg : TableCfg) (fields : List Field) (ts : Int) (pt : Pt)
    (cols : List Sq) (h : cols.length = fields.length) :
    (updCols x cfg fields ts pt cols).length = fields.length := by
  simp [updCols, h]

theorem updCols_getD (x : Ext) (cfg : TableCfg) (fields : List Field) (ts : Int) (pt : Pt)
    (cols : List Sq) (h : cols.length = fields.length) (i : Nat) (hi : i < fields.length) :
    (updCols x cfg fields ts pt cols).getD i none =
      Sq.updateValue x (fields.getD i default).ex cfg.res (cols.getD i none) ts pt 0 := by
  unfold updCols
  rw [getD_zip_map _ _ _ _ hi (by omega)]

theorem updCols_some (x : Ext) (cfg : TableCfg) (hres : 0 < cfg.res) (fields : List Field) (ts : Int)
    (hts : 0 < ts) (pt : Pt) (cols : List Sq) : ∀ c ∈ updCols x cfg fields ts pt cols, c ≠ none := by
  intro c hc
  simp only [updCols, List.mem_map] at hc
  obtain ⟨⟨f, c0⟩, _, rfl⟩ := hc
  exact updateValue0_ne_none x f.ex hres c0 ts hts pt

theorem memUpdate_rowsOk (x : Ext) (cfg : TableCfg) (fields : List Field) (mem : List Row) (key : Key)
    (ts : Int) (pt : Pt) (h : RowsOk fields.length mem) :
    RowsOk fields.length (memUpdate x cfg fields mem key ts pt) := by
  rw [memUpdate_eq]
  split
  · refine ⟨?_, ?_⟩
    · rw [List.pairwise_map]
      refine h.uniq.imp ?_
      intro a b hab
      by_cases ha : (a.key == key) = true <;> by_cases hb : (b.key == key) = true <;> simp [ha, hb, hab]
    · intro r hr
      rw [List.mem_map] at hr
      obtain ⟨r0, hr0, rfl⟩ := hr
      split
      · exact updCols_length x cfg fields ts pt _ (h.len r0 hr0)
      · exact h.len r0 hr0
  · rename_i hany
    have hany' : ∀ r ∈ mem, r.key ≠ key := by
      intro r hr hk
      apply hany
      rw [List.any_eq_true]
      exact ⟨r, hr, by simp [hk]⟩
    refine ⟨?_, ?_⟩
    · rw [List.pairwise_append]
      refine ⟨h.uniq, List.pairwise_singleton _ _, ?_⟩
      intro a ha b hb
      simp only [List.mem_singleton] at hb
      subst hb
      exact hany' a ha
    · intro r hr
      rw [List.mem_append] at hr
      cases hr with
      | inl hr => exact h.len r hr
      | inr hr =>
        simp only [List.mem_singleton] at hr
        subst hr
        exact updCols_length x cfg fields ts pt _ (by simp)

theorem memUpdate_memSome (x : Ext) (cfg : TableCfg) (hres : 0 < cfg.res) (fields : List Field)
    (mem : List Row) (key : Key) (ts : Int) (hts : 0 < ts) (pt : Pt) (h : MemSome mem) :
    MemSome (memUpdate x cfg fields mem key ts pt) := by
  rw [memUpdate_eq]
  split
  · intro r hr
    rw [List.mem_map] at hr
    obtain ⟨r0, hr0, rfl⟩ := hr
    split
    · exact updCols_some x cfg hres fields ts hts pt _
    · exact h r0 hr0
  · intro r hr
    rw [List.mem_append] at hr
    cases hr with
    | inl hr => exact h r hr
    | inr hr =>
      simp only [List.mem_singleton] at hr
      subst hr
      exact updCols_some x cfg hres fields ts hts pt _

/-- the updated key's column is `Sq.updateValue` of what it was (`none` for a new row) -/
theorem memUpdate_rowCol_same (x : Ext) (cfg : TableCfg) (fields : List Field) (mem : List Row)
    (key : Key) (ts : Int) (pt : Pt) (h : RowsOk fields.length mem) (i : Nat) (hi : i < fields.length) :
    rowCol (memUpdate x cfg fields mem key ts pt) key i =
      Sq.updateValue x (fields.getD i default).ex cfg.res (rowCol mem key i) ts pt 0 := by
  rw [memUpdate_eq]
  split
  · unfold rowCol
    rw [find_map_key _ (by intro r; split <;> rfl)]
    cases hf : mem.find? (fun r => r.key == key) with
    | none => exfalso; rename_i hany; rw [List.find?_eq_none] at hf
              rw [List.any_eq_true] at hany
              obtain ⟨r, hr, hk⟩ := hany
              exact hf r hr hk
    | some r =>
      have hk := List.find?_some hf
      have hm := List.mem_of_find?_eq_some hf
      simp only [Option.map_some, hk, if_true]
      exact updCols_getD x cfg fields ts pt r.cols (h.len r hm) i hi
  · rename_i hany
    have hany' : mem.any (fun r => r.key == key) = false := by simpa using hany
    rw [rowCol_none_of_not_any hany']
    unfold rowCol
    rw [List.find?_append]
    have : mem.find? (fun r => r.key == key) = none := by
      rw [List.find?_eq_none]
      intro r hr
      have := (List.any_eq_false.mp hany') r hr
      simpa using this
    rw [this]
    simp only [Option.none_or, List.find?_cons, beq_self_eq_true]
    rw [updCols_getD x cfg fields ts pt _ (by simp) i hi]
    congr 1
    simp [List.getD_eq_getElem?_getD, List.getElem?_map]
    cases fields[i]? <;> simp

/-- rows of other keys are left alone -/
theorem memUpdate_rowCol_other (x : Ext) (cfg : TableCfg) (fields : List Field) (mem : List Row)
    (key key' : Key) (hne : key' ≠ key) (ts : Int) (pt : Pt) (i : Nat) :
    rowCol (memUpdate x cfg fields mem key' ts pt) key i = rowCol mem key i := by
  rw [memUpdate_eq]
  split
  · unfold rowCol
    rw [find_map_key _ (by intro r; split <;> rfl)]
    cases hf : mem.find? (fun r => r.key == key) with
    | none => rfl
    | some r =>
      have hk := List.find?_some hf
      have hk' : r.key = key := by simpa using hk
      have : (r.key == key') = false := by
        simp only [beq_eq_false_iff_ne, ne_eq]
        rw [hk']; exact fun h => hne h.symm
      have this' : ¬ r.key = key' := by simpa using this
      simp [this, this']
  · unfold rowCol
    rw [List.find?_append]
    have hnk : (key' == key) = false := by simpa using hne
    cases hf : mem.find? (fun r => r.key == key) with
    | none => simp [List.find?_cons, hnk]
    | some r => simp

end Zeno
