/-
The order of Go type names used by `compare` (core/compare.go, after /repo 8a9a760) for values
of different dynamic types: `strings.Compare(reflect.TypeOf(a).String(), reflect.TypeOf(b).String())`.
`DimVal.ord` is the position of a value's type name in the byte-wise order of all type names
(nil first); `typeName_lt_iff` / `typeName_eq_iff` reduce comparisons of type names to `ord`.
-/
import ZenoModel.Model.Sort

namespace Zeno.SortLemmas
open Zeno

def kidx : IntKind → Nat
  | .int => 5 | .i16 => 6 | .i32 => 7 | .i64 => 8 | .i8 => 9
  | .uint => 12 | .u16 => 13 | .u32 => 14 | .u64 => 15 | .byte => 16

/-- nil first, then the position of the type name in the byte-wise order of all type names -/
def ord : DimVal → Nat
  | .nil => 0
  | .other _ => 1 | .bool _ => 2 | .float s _ => if s then 3 else 4
  | .int k _ => kidx k | .str _ => 10 | .time _ => 11

/-- all type names, in byte-wise order (index = `ord`) -/
def typeNames : List String := ["<nil>", "[]uint8", "bool", "float32", "float64", "int", "int16", "int32", "int64",
  "int8", "string", "time.Time", "uint", "uint16", "uint32", "uint64", "uint8"]

theorem typeNames_lt : ∀ i j : Fin 17, 0 < i.val → 0 < j.val → (typeNames[i] < typeNames[j] ↔ i.val < j.val) := by
  decide

theorem typeNames_eq : ∀ i j : Fin 17, (typeNames[i] = typeNames[j] ↔ i.val = j.val) := by decide

theorem kidx_range (k : IntKind) : (5 ≤ kidx k ∧ kidx k ≤ 9) ∨ (12 ≤ kidx k ∧ kidx k ≤ 16) := by
  cases k <;> simp [kidx]

theorem ord_lt (a : DimVal) : ord a < 17 := by
  cases a with
  | int k v => have := kidx_range k; simp only [ord]; omega
  | float s v => cases s <;> simp [ord]
  | _ => simp [ord]

theorem typeName_eq (a : DimVal) : a.typeName = typeNames[ord a]'(ord_lt a) := by
  cases a with
  | int k v => cases k <;> rfl
  | float s v => cases s <;> rfl
  | _ => rfl

theorem ord_pos {a : DimVal} (h : a ≠ .nil) : 0 < ord a := by
  cases a with
  | nil => exact absurd rfl h
  | int k v => have := kidx_range k; simp only [ord]; omega
  | float s v => cases s <;> simp [ord]
  | _ => simp [ord]

theorem typeName_lt_iff {a b : DimVal} (ha : a ≠ .nil) (hb : b ≠ .nil) :
    a.typeName < b.typeName ↔ ord a < ord b := by
  rw [typeName_eq a, typeName_eq b]
  exact typeNames_lt ⟨ord a, ord_lt a⟩ ⟨ord b, ord_lt b⟩ (ord_pos ha) (ord_pos hb)

theorem typeName_eq_iff (a b : DimVal) : a.typeName = b.typeName ↔ ord a = ord b := by
  rw [typeName_eq a, typeName_eq b]
  exact typeNames_eq ⟨ord a, ord_lt a⟩ ⟨ord b, ord_lt b⟩

end Zeno.SortLemmas
