/-
Lemmas about M-TIME: what the rounding functions of encoding/time.go compute.
All for a positive resolution.
-/
import ZenoModel.Model.Time

namespace Zeno

theorem goRound_eq {t res : Int} (h : 0 < res) :
    goRound t res = if t % res + t % res < res then t - t % res else t + (res - t % res) := by
  unfold goRound
  rw [if_neg (by omega)]

/-- closed form of RoundTimeUp -/
theorem roundUp_eq {t res : Int} (h : 0 < res) :
    roundUp t res = if t % res = 0 then t else t - t % res + res := by
  unfold roundUp
  rw [goRound_eq h]
  have h1 := Int.emod_nonneg t (Int.ne_of_gt h)
  have h2 := Int.emod_lt_of_pos t h
  simp only
  split <;> split <;> split <;> omega

/-- closed form of RoundTimeDown -/
theorem roundDown_eq {t res : Int} (h : 0 < res) : roundDown t res = t - t % res := by
  unfold roundDown
  rw [goRound_eq h]
  have h1 := Int.emod_nonneg t (Int.ne_of_gt h)
  have h2 := Int.emod_lt_of_pos t h
  simp only
  split <;> split <;> omega

theorem roundUp_mod {t res : Int} (h : 0 < res) : roundUp t res % res = 0 := by
  rw [roundUp_eq h]
  split
  · assumption
  · have : t - t % res + res = res * (t / res + 1) := by
      have := Int.mul_ediv_add_emod t res
      rw [Int.mul_add]; omega
    rw [this]; exact Int.mul_emod_right _ _

/-- `roundUp t res` is the least multiple of `res` that is `≥ t` … -/
theorem roundUp_ge {t res : Int} (h : 0 < res) : t ≤ roundUp t res := by
  rw [roundUp_eq h]
  have h2 := Int.emod_lt_of_pos t h
  split <;> omega

theorem roundUp_lt {t res : Int} (h : 0 < res) : roundUp t res < t + res := by
  rw [roundUp_eq h]
  have h1 := Int.emod_nonneg t (Int.ne_of_gt h)
  split <;> omega

/-- … least: any multiple of `res` at or after `t` is at or after `roundUp t res`. -/
theorem roundUp_least {t res m : Int} (h : 0 < res) (hm : m % res = 0) (hge : t ≤ m) :
    roundUp t res ≤ m := by
  have hlt := roundUp_lt (t := t) h
  have hmod := roundUp_mod (t := t) h
  -- two multiples of res less than res apart
  have h1 : (m - roundUp t res) % res = 0 := by
    rw [Int.sub_emod, hm, hmod]; simp
  have h2 := Int.emod_emod_of_dvd
  by_cases hc : roundUp t res ≤ m
  · exact hc
  · exfalso
    have hpos : 0 < roundUp t res - m := by omega
    have hlt' : roundUp t res - m < res := by omega
    have : (roundUp t res - m) % res = 0 := by
      rw [Int.sub_emod, hm, hmod]; simp
    rw [Int.emod_eq_of_lt (by omega) hlt'] at this
    omega

/-- a point with timestamp `t` belongs to exactly one period `(T - res, T]`, the one with
    `T = roundUp t res` -/
theorem period_unique {t res T : Int} (h : 0 < res) (hT : T % res = 0) :
    (T - res < t ∧ t ≤ T) ↔ T = roundUp t res := by
  constructor
  · intro ⟨h1, h2⟩
    have hle := roundUp_least h hT h2
    have hge := roundUp_ge (t := t) h
    have hmod := roundUp_mod (t := t) h
    by_cases hc : T = roundUp t res
    · exact hc
    · exfalso
      have hpos : 0 < T - roundUp t res := by omega
      have hlt' : T - roundUp t res < res := by omega
      have : (T - roundUp t res) % res = 0 := by
        rw [Int.sub_emod, hT, hmod]; simp
      rw [Int.emod_eq_of_lt (by omega) hlt'] at this
      omega
  · intro hEq
    subst hEq
    exact ⟨by have := roundUp_lt (t := t) h; omega, roundUp_ge h⟩

theorem roundUp_idem {t res : Int} (h : 0 < res) : roundUp (roundUp t res) res = roundUp t res := by
  have hm := roundUp_mod (t := t) h
  rw [roundUp_eq h (t := roundUp t res)]
  simp [hm]

theorem roundUp_mono {a b res : Int} (h : 0 < res) (hab : a ≤ b) : roundUp a res ≤ roundUp b res :=
  roundUp_least h (roundUp_mod h) (Int.le_trans hab (roundUp_ge h))

theorem roundDown_mod {t res : Int} (h : 0 < res) : roundDown t res % res = 0 := by
  rw [roundDown_eq h]
  have : t - t % res = res * (t / res) := by have := Int.mul_ediv_add_emod t res; omega
  rw [this]; exact Int.mul_emod_right _ _

theorem roundDown_le {t res : Int} (h : 0 < res) : roundDown t res ≤ t := by
  rw [roundDown_eq h]; have := Int.emod_nonneg t (Int.ne_of_gt h); omega

theorem roundDown_gt {t res : Int} (h : 0 < res) : t - res < roundDown t res := by
  rw [roundDown_eq h]; have := Int.emod_lt_of_pos t h; omega

/-! ### rounding relative to a sequence's `until` -/

/-- `roundUntilUp t res hi` (for non-zero `t`, `hi`) is on `hi`'s grid, `≥ t` and `< t + res`. -/
theorem roundUntilUp_spec {t res hi : Int} (h : 0 < res) (ht : t ≠ 0) (hh : hi ≠ 0) :
    (hi - roundUntilUp t res hi) % res = 0 ∧ t ≤ roundUntilUp t res hi ∧ roundUntilUp t res hi < t + res := by
  unfold roundUntilUp
  simp only [ht, hh, if_false]
  have h1 := Int.emod_nonneg (hi - t) (Int.ne_of_gt h)
  have h2 := Int.emod_lt_of_pos (hi - t) h
  have h3 := Int.mul_ediv_add_emod (hi - t) res
  refine ⟨?_, ?_, ?_⟩
  · have : hi - (hi - (hi - t) / res * res) = res * ((hi - t) / res) := by
      rw [Int.mul_comm]; omega
    rw [this]; exact Int.mul_emod_right _ _
  · have : (hi - t) / res * res = res * ((hi - t) / res) := Int.mul_comm _ _
    omega
  · have : (hi - t) / res * res = res * ((hi - t) / res) := Int.mul_comm _ _
    omega

theorem cdiv_spec {x r : Int} (h : 0 < r) : (cdiv x r - 1) * r < x ∧ x ≤ cdiv x r * r := by
  unfold cdiv
  have h1 := Int.emod_nonneg (-x) (Int.ne_of_gt h)
  have h2 := Int.emod_lt_of_pos (-x) h
  have h3 := Int.mul_ediv_add_emod (-x) r
  have e1 : (-(-x / r) - 1) * r = -(r * (-x / r)) - r := by
    rw [Int.sub_mul, Int.neg_mul, Int.mul_comm]; omega
  have e2 : -(-x / r) * r = -(r * (-x / r)) := by rw [Int.neg_mul, Int.mul_comm]
  rw [e1, e2]
  omega

/-- `roundUntilDown t res hi` (for non-zero `t`, `hi`) is on `hi`'s grid, `≤ t` and `> t - res`. -/
theorem roundUntilDown_spec {t res hi : Int} (h : 0 < res) (ht : t ≠ 0) (hh : hi ≠ 0) :
    (hi - roundUntilDown t res hi) % res = 0 ∧ roundUntilDown t res hi ≤ t ∧ t - res < roundUntilDown t res hi := by
  unfold roundUntilDown
  simp only [ht, hh, if_false]
  have ⟨c1, c2⟩ := cdiv_spec (x := hi - t) h
  refine ⟨?_, by omega, by rw [Int.sub_mul] at c1; omega⟩
  have : hi - (hi - cdiv (hi - t) res * res) = res * cdiv (hi - t) res := by
    rw [Int.mul_comm]; omega
  rw [this]; exact Int.mul_emod_right _ _

end Zeno
