/-
Helper lemmas for C20 (Model/Codec.lean): a round trip through the wire format returns
the object with `DeAggregated` cleared, and clearing that flag is invisible to the observers.
Core Lean only.
-/
import ZenoModel.Model.Codec

namespace Zeno

/-- A wire map that decodes field by field also decodes as a generic value. -/
theorem decVal_of_decMap {w : Wire} {m : WMap} (h : decMap w = some m) : decVal w = some .other := by
  cases w <;> simp_all [decMap, decVal]
  split at h <;> simp_all

/-- The body of an encoded object decodes field by field (needed for the embedded `ptile`). -/
theorem decVal_plain_of_ptile {w : GEx} {v : WVal} (hp : w.isPtile = true)
    (h : decVal (enc w) = some v) : decVal (enc w).plain = some .other := by
  cases w <;> simp [GEx.isPtile] at hp
  simp only [enc, Wire.plain] at h ⊢
  generalize Wire.mcons "Value" _ _ = body at h ⊢
  simp only [decVal] at h
  cases hm : decMap body with
  | none => simp [hm, decBuild] at h
  | some m => exact decVal_of_decMap hm

theorem clearDeAgg_isPtile (g : GEx) : g.clearDeAgg.isPtile = g.isPtile := by
  cases g <;> simp [GEx.clearDeAgg, GEx.isPtile]

set_option maxRecDepth 4096 in
/-- Round trip, on the level of `DecodeInterface`. -/
theorem decVal_enc (g : GEx) (h : g.linked = true) : decVal (enc g) = some (.ex g.clearDeAgg) := by
  induction g with
  | field n => simp [enc, decVal, decMap, decBuild, WMap.str, List.lookup, GEx.clearDeAgg]
  | const v => simp [enc, decVal, decMap, decBuild, WMap.num, List.lookup, GEx.clearDeAgg]
  | bounded w lo hi ih =>
      simp only [GEx.linked] at h
      simp [enc, decVal, decTup, decBuild, GEx.clearDeAgg, ih h]
  | agg name w u m ih =>
      simp only [GEx.linked, Bool.and_eq_true, decide_eq_true_eq] at h
      simp [enc, decVal, decMap, decBuild, WMap.str, WMap.ex, List.lookup, GEx.clearDeAgg, ih h.2, h.1]
  | ifE c w width ih =>
      simp only [GEx.linked] at h
      simp [enc, decVal, decMap, decBuild, WMap.cond, WMap.ex, WMap.nat, List.lookup, GEx.clearDeAgg, ih h]
  | avg v w ihv ihw =>
      simp only [GEx.linked, Bool.and_eq_true] at h
      simp [enc, decVal, decMap, decBuild, WMap.ex, List.lookup, GEx.clearDeAgg, ihv h.1, ihw h.2]
  | bin op l r da cf ihl ihr =>
      simp only [GEx.linked, Bool.and_eq_true, decide_eq_true_eq] at h
      simp [enc, decVal, decMap, decBuild, WMap.str, WMap.ex, List.lookup, GEx.clearDeAgg, ihl h.1.2, ihr h.2, h.1.1]
  | shift w off width ih =>
      simp only [GEx.linked] at h
      simp [enc, decVal, decMap, decBuild, WMap.int, WMap.ex, WMap.nat, List.lookup, GEx.clearDeAgg, ih h]
  | unary name fn w width ih =>
      simp only [GEx.linked, Bool.and_eq_true, decide_eq_true_eq] at h
      simp [enc, decVal, decMap, decBuild, WMap.str, WMap.ex, WMap.nat, List.lookup, GEx.clearDeAgg, ih h.2, h.1]
  | ptile v p mn mx pr hdr width ihv ihp =>
      simp only [GEx.linked, Bool.and_eq_true] at h
      simp [enc, decVal, decMap, decBuild, WMap.int, WMap.ex, WMap.nat, List.lookup, GEx.clearDeAgg, ihv h.1, ihp h.2]
  | ptileOpt emb w p ihe ihw ihp =>
      simp only [GEx.linked, Bool.and_eq_true, decide_eq_true_eq] at h
      obtain ⟨⟨⟨⟨hew, hpt⟩, hle⟩, hlw⟩, hlp⟩ := h
      subst hew
      have hplain := decVal_plain_of_ptile hpt (ihe hle)
      simp [enc, decVal, decMap, decBuild, WMap.ex, List.lookup, GEx.clearDeAgg, ihe hle, ihp hlp, hplain,
        clearDeAgg_isPtile, hpt]

theorem dec_enc_linked (g : GEx) (h : g.linked = true) : dec (enc g) = some g.clearDeAgg := by
  simp [dec, decVal_enc g h]

/-! Clearing `DeAggregated` is invisible to every observer except `Validate`. -/

theorem toks_clearDeAgg (x : Fmt) (g : GEx) : g.clearDeAgg.toks x = g.toks x := by
  induction g <;> simp only [GEx.clearDeAgg, GEx.toks, *]

theorem str_clearDeAgg (x : Fmt) (g : GEx) : g.clearDeAgg.str x = g.str x := by
  simp only [GEx.str, toks_clearDeAgg]

theorem encodedWidth_clearDeAgg (g : GEx) : g.clearDeAgg.encodedWidth = g.encodedWidth := by
  induction g <;> simp_all [GEx.clearDeAgg, GEx.encodedWidth]

theorem toEx_clearDeAgg (cfg : Int → Int → Int → Int → Nat) (b : Bool) (g : GEx) :
    g.clearDeAgg.toEx cfg b = g.toEx cfg b := by
  cases b <;> induction g <;> simp_all [GEx.clearDeAgg, GEx.toEx]

theorem linked_clearDeAgg (g : GEx) (h : g.linked = true) : g.clearDeAgg.linked = true := by
  induction g <;> simp_all [GEx.clearDeAgg, GEx.linked, clearDeAgg_isPtile]

theorem clearDeAgg_idem (g : GEx) : g.clearDeAgg.clearDeAgg = g.clearDeAgg := by
  induction g <;> simp_all [GEx.clearDeAgg]

theorem obsEq_clearDeAgg (g : GEx) : ObsEq g.clearDeAgg g :=
  ⟨fun x => str_clearDeAgg x g, encodedWidth_clearDeAgg g, fun cfg b => toEx_clearDeAgg cfg b g⟩

/-! Sender-side buffer ownership. -/

/-- With freshly allocated outputs the heap only grows: the old heap is a prefix of the new
    one, the new buffers hold the encodings in order, the ids count up. -/
theorem sendAll_fresh (heap : List Wire) (gs : List GEx) :
    sendAll .fresh heap gs = (heap ++ gs.map enc, (List.range gs.length).map (· + heap.length)) := by
  induction gs generalizing heap with
  | nil => simp [sendAll]
  | cons g gs ih =>
      simp only [sendAll, marshalInto, ih, List.map_cons, List.length_cons, List.length_append,
        List.length_nil, List.append_assoc, List.cons_append, List.nil_append]
      refine Prod.ext rfl ?_
      simp only [List.range_succ_eq_map, List.map_cons, List.map_map, Nat.zero_add, List.cons.injEq, true_and]
      apply List.map_congr_left
      intro a _
      simp only [Function.comp]
      omega

/-- Buffers handed out earlier are never written again: whatever is marshalled later, every
    buffer of the old heap still reads the same. -/
theorem sendAll_fresh_stable (heap : List Wire) (gs : List GEx) (i : Nat) (h : i < heap.length) :
    (sendAll .fresh heap gs).1[i]? = heap[i]? := by
  rw [sendAll_fresh]
  simp [List.getElem?_append_left h]

theorem delivered_fresh (gs : List GEx) : delivered .fresh gs = gs.map (fun g => some (enc g)) := by
  simp only [delivered, sendAll_fresh, List.length_nil, Nat.add_zero, List.nil_append, List.map_map]
  apply List.ext_getElem?
  intro i
  simp only [List.getElem?_map]
  by_cases h : i < gs.length
  · simp [h]
  · simp [List.getElem?_eq_none (by simpa using Nat.le_of_not_lt h : (List.range gs.length).length ≤ i),
      List.getElem?_eq_none (Nat.le_of_not_lt h)]

/-! Messages: empty versus absent. -/

theorem throughWire_plain {α : Type} (isEmpty : α → Bool) (zero v : α) :
    throughWire {} isEmpty zero v = v := by
  simp [throughWire]

/-- With no `omitempty` / `-` anywhere a RemoteQueryResult comes back exactly, nil-ness of
    every slice, ByteMap and pointer included. -/
theorem RQR.roundTrip_plain (m : RQR) : m.roundTrip {} = m := by
  cases m
  simp [RQR.roundTrip, throughWire]

/-- The kind the leader infers is the kind the follower sent, provided the leader reads
    `Error` before it leaves its loop on `EndOfResults`, and the tags of the discriminating
    fields do not drop them: `Fields` and `Key` neither `omitempty` nor `-` (an empty field
    list / a key with zero dims must stay non-nil), `Row`, `EndOfResults` and `Error` not `-`
    (`omitempty` on a pointer, bool or string only drops nil / false / "", which decode as
    nil / false / "" anyway).  Holds for EVERY message the follower sends: empty-key rows,
    and final messages that carry an error. -/
theorem leaderKind_roundTrip (t : RQRTags)
    (hf : t.fields.omitEmpty = false ∧ t.fields.skip = false)
    (hk : t.key.omitEmpty = false ∧ t.key.skip = false)
    (hr : t.row.skip = false) (he : t.endOfResults.skip = false) (hx : t.error.skip = false)
    (s : Sent) (unflat : Bool)
    (hq : match s with | .unflatRow _ _ => unflat = true | .flatRow _ => unflat = false | _ => True) :
    leaderKind true s.first unflat (s.msg.roundTrip t) = s.kind := by
  cases s with
  | endOfResults st e =>
      by_cases hE : e = "" <;>
        simp_all [leaderKind, Sent.first, Sent.msg, Sent.kind, RQR.roundTrip, throughWire, emptyOpt]
  | _ => simp_all [leaderKind, Sent.first, Sent.msg, Sent.kind, RQR.roundTrip, throughWire, emptyOpt]

end Zeno
