/-
Helper lemmas for C13, part 4: the coalescing fan-out of doProcessIterations, seen from
our iteration.
-/
import ZenoModel.Lemmas.ReportLeaves

namespace Zeno.Report

/-- offering the row to the other iteration never touches our state -/
theorem visitCo_frame {σ : Type} (mode : Coalesce) (c : CoIter) (f : Fan σ) (now : Nat) (r : Row) (more : Bool) :
    match visitCo mode c f now r more with
    | .abort f1 _ _ => f1.ours = f.ours ∧ f1.oursAlive = f.oursAlive ∧ f1.oursErr = f.oursErr ∧ mode = .abortAll
    | .next f1 _ more1 => f1.ours = f.ours ∧ f1.oursAlive = f.oursAlive ∧ f1.oursErr = f.oursErr ∧ (more = true → more1 = true) := by
  unfold visitCo
  generalize c.sink.onRow f.co now r = res
  obtain ⟨n1, d1, rep0⟩ := res
  by_cases ha : f.coAlive = true
  · simp only [ha, Bool.not_true, Bool.false_eq_true, if_false]
    cases mode with
    | abortAll =>
      simp only
      cases rep0.err with
      | some e => simp
      | none =>
        simp only
        by_cases hm : rep0.more = true <;> simp [hm]
    | perIteration =>
      simp only
      generalize (!((Guard.mk c.deadline).proceedAfter (now + d1) rep0).more || ((Guard.mk c.deadline).proceedAfter (now + d1) rep0).err.isSome) = b
      cases b <;> simp
  · simp [ha]

/-- offering the row to our iteration, `abortAll` -/
theorem visitOurs_abort {σ : Type} (g : Guard) (s : Sink σ) (f : Fan σ) (now : Nat) (r : Row) (more : Bool) :
    (f.oursAlive = false → visitOurs .abortAll g s f now r more = .next f 0 more) ∧
    (f.oursAlive = true → ∃ st1 d1 rep0, s.onRow f.ours now r = (st1, d1, rep0) ∧
      match visitOurs .abortAll g s f now r more with
      | .abort f1 _ e => rep0.err = some e ∧ f1.ours = st1
      | .next f1 _ more1 => rep0.err = none ∧ f1.ours = st1 ∧ f1.oursAlive = rep0.more ∧ (rep0.more = true → more1 = true)) := by
  constructor
  · intro ha; simp [visitOurs, ha]
  · intro ha
    unfold visitOurs
    generalize hr : s.onRow f.ours now r = res
    obtain ⟨st1, d1, rep0⟩ := res
    refine ⟨st1, d1, rep0, rfl, ?_⟩
    simp only [ha, Bool.not_true, Bool.false_eq_true, if_false]
    cases he : rep0.err with
    | some e => simp
    | none =>
      simp only
      by_cases hm : rep0.more = true <;> simp [hm]

/-- one call of combinedOnValue, `abortAll`, seen from our iteration -/
theorem fanout_abort_step {σ : Type} (g : Guard) (s : Sink σ) (c : CoIter) (F : Fan σ) (now : Nat) (r : Row)
    (F' : Fan σ) (d : Nat) (rep : Reply) (h : (fanout .abortAll g s c).onRow F now r = (F', d, rep)) :
    (F.oursAlive = false → F'.ours = F.ours ∧ F'.oursAlive = false) ∧
    (F.oursAlive = true → rep.err ≠ none ∨ ∃ now1 d1 rep_o, s.onRow F.ours now1 r = (F'.ours, d1, rep_o) ∧
        rep_o.err = none ∧ F'.oursAlive = rep_o.more ∧ (rep_o.more = true → rep.more = true)) := by
  simp only [fanout] at h
  by_cases hfirst : c.first = true
  · simp only [hfirst, if_true] at h
    have hco := visitCo_frame .abortAll c F now r false
    generalize visitCo .abortAll c F now r false = v1 at h hco
    cases v1 with
    | abort f1 d1 e =>
      simp only [Prod.mk.injEq] at h
      obtain ⟨rfl, _, rfl⟩ := h
      obtain ⟨h1, h2, _, _⟩ := hco
      exact ⟨fun ha => ⟨h1, by rw [h2, ha]⟩, fun _ => Or.inl (by simp [Reply.fail])⟩
    | next f1 d1 more1 =>
      obtain ⟨h1, h2, _, _⟩ := hco
      simp only at h
      have ho := visitOurs_abort g s f1 (now + d1) r more1
      generalize visitOurs .abortAll g s f1 (now + d1) r more1 = v2 at h ho
      constructor
      · intro ha
        have := ho.1 (by rw [h2, ha])
        subst this
        simp only [Prod.mk.injEq] at h
        obtain ⟨rfl, _, _⟩ := h
        exact ⟨h1, by rw [h2, ha]⟩
      · intro ha
        obtain ⟨st1, d2, rep0, hr, hv⟩ := ho.2 (by rw [h2, ha])
        cases v2 with
        | abort f2 d2' e =>
          simp only [Prod.mk.injEq] at h
          obtain ⟨_, _, rfl⟩ := h
          exact Or.inl (by simp [Reply.fail])
        | next f2 d2' more2 =>
          simp only [Prod.mk.injEq] at h
          obtain ⟨rfl, _, rfl⟩ := h
          obtain ⟨he, hs, hal, hm⟩ := hv
          rw [h1] at hr
          exact Or.inr ⟨now + d1, d2, rep0, by rw [hs]; exact hr, he, hal, hm⟩
  · simp only [hfirst, Bool.false_eq_true, if_false] at h
    have ho := visitOurs_abort g s F now r false
    generalize visitOurs .abortAll g s F now r false = v1 at h ho
    constructor
    · intro ha
      have := ho.1 ha
      subst this
      simp only at h
      have hco := visitCo_frame .abortAll c F (now + 0) r false
      generalize visitCo .abortAll c F (now + 0) r false = v2 at h hco
      cases v2 with
      | abort f2 d2 e =>
        simp only [Prod.mk.injEq] at h
        obtain ⟨rfl, _, _⟩ := h
        exact ⟨hco.1, by rw [hco.2.1, ha]⟩
      | next f2 d2 more2 =>
        simp only [Prod.mk.injEq] at h
        obtain ⟨rfl, _, _⟩ := h
        exact ⟨hco.1, by rw [hco.2.1, ha]⟩
    · intro ha
      obtain ⟨st1, d1, rep0, hr, hv⟩ := ho.2 ha
      cases v1 with
      | abort f1 d1' e =>
        simp only [Prod.mk.injEq] at h
        obtain ⟨_, _, rfl⟩ := h
        exact Or.inl (by simp [Reply.fail])
      | next f1 d1' more1 =>
        obtain ⟨he, hs, hal, hm⟩ := hv
        simp only at h
        have hco := visitCo_frame .abortAll c f1 (now + d1') r more1
        generalize visitCo .abortAll c f1 (now + d1') r more1 = v2 at h hco
        cases v2 with
        | abort f2 d2 e =>
          simp only [Prod.mk.injEq] at h
          obtain ⟨_, _, rfl⟩ := h
          exact Or.inl (by simp [Reply.fail])
        | next f2 d2 more2 =>
          simp only [Prod.mk.injEq] at h
          obtain ⟨rfl, _, rfl⟩ := h
          obtain ⟨c1, c2, _, c4⟩ := hco
          exact Or.inr ⟨now, d1, rep0, by rw [c1, hs]; exact hr, he, by rw [c2, hal], fun hmm => c4 (hm hmm)⟩

/-- a whole feeding of combinedOnValue, `abortAll`, seen from our iteration -/
theorem fanout_abort_fed {σ : Type} (g : Guard) (s : Sink σ) (c : CoIter) :
    ∀ (rows : List Row) (F F' : Fan σ) (rep : Reply),
      Fed (fanout .abortAll g s c) F rows F' rep → rep.err = none →
      (F.oursAlive = false → F'.ours = F.ours ∧ F'.oursAlive = false) ∧
      (F.oursAlive = true → ∃ m rep_o, Fed s F.ours (rows.take m) F'.ours rep_o ∧ rep_o.err = none ∧
          (rep_o.more = true → rows.length ≤ m) ∧ F'.oursAlive = rep_o.more ∧
          (rep.more = false → F'.oursAlive = false)) := by
  intro rows F F' rep h
  induction h with
  | nil st =>
    intro _
    exact ⟨fun ha => ⟨rfl, ha⟩, fun ha => ⟨0, Reply.proceed, Fed.nil _, rfl, (fun _ => Nat.le_refl _), ha, (fun hm => by simp [Reply.proceed] at hm)⟩⟩
  | @last st now r st' d rep hr hk =>
    intro he
    obtain ⟨hd, ha⟩ := fanout_abort_step g s c st now r st' d rep hr
    refine ⟨hd, fun hal => ?_⟩
    rcases ha hal with hbad | ⟨now1, d1, rep_o, hro, heo, hal', hmo⟩
    · exact absurd he hbad
    · have hmf : rep.more = false := Reply.ok_false_noerr hk he
      have hom : rep_o.more = false := by
        cases hq : rep_o.more with
        | false => rfl
        | true => rw [hmo hq] at hmf; cases hmf
      have hok : rep_o.ok = false := by simp [Reply.ok, hom]
      exact ⟨1, rep_o, by simpa using Fed.last hro hok, heo, (fun hq => by rw [hom] at hq; cases hq),
        hal', (fun _ => by rw [hal', hom])⟩
  | @cons st now r st1 d1 rep1 rs st' rep hr hk _ ih =>
    intro he
    obtain ⟨ihd, iha⟩ := ih he
    obtain ⟨hd, ha⟩ := fanout_abort_step g s c st now r st1 d1 rep1 hr
    have he1 : rep1.err = none := by rw [(Reply.ok_iff rep1).1 hk]; rfl
    constructor
    · intro hal
      obtain ⟨a, b⟩ := hd hal
      obtain ⟨a', b'⟩ := ihd b
      exact ⟨by rw [a', a], b'⟩
    · intro hal
      rcases ha hal with hbad | ⟨now1, dd, rep_o, hro, heo, hal', hmo⟩
      · exact absurd he1 hbad
      · by_cases hq : rep_o.more = true
        · -- still alive: continue
          have hok : rep_o.ok = true := by simp [Reply.ok, hq, heo]
          obtain ⟨m, rep_o', hf, heo', hc, hal'', hw⟩ := iha (by rw [hal', hq])
          exact ⟨m + 1, rep_o', by simpa using Fed.cons hro hok hf, heo', (fun hh => by simpa using hc hh), hal'', hw⟩
        · have hq' : rep_o.more = false := by simpa using hq
          have hok : rep_o.ok = false := by simp [Reply.ok, hq']
          obtain ⟨a', b'⟩ := ihd (by rw [hal', hq'])
          refine ⟨1, rep_o, ?_, heo, (fun hh => by rw [hq'] at hh; cases hh), (by rw [b', hq']), (fun _ => b')⟩
          rw [a']; simpa using Fed.last hro hok

theorem fanout_abort_polite {σ : Type} (g : Guard) (s : Sink σ) (c : CoIter) (F F' : Fan σ) (l : List Row)
    (hal : F.oursAlive = true) (h : Polite (fanout .abortAll g s c) F l F') : Polite s F.ours l F'.ours := by
  obtain ⟨m, rep, hf, he, hc⟩ := h
  obtain ⟨_, ha⟩ := fanout_abort_fed g s c _ F F' rep hf he
  obtain ⟨k, rep_o, hfo, heo, hco, hal', hw⟩ := ha hal
  refine ⟨min k m, rep_o, by rw [List.take_take] at hfo; exact hfo, heo, fun hq => ?_⟩
  have h1 := hco hq
  have h2 : rep.more = true := by
    cases hr : rep.more with
    | true => rfl
    | false => have := hw hr; rw [hal', hq] at this; cases this
  have h3 := hc h2
  rw [List.length_take] at h1
  omega

/-! ## perIteration (after the C17 fix for D8) -/

theorem visitOurs_per {σ : Type} (g : Guard) (s : Sink σ) (f : Fan σ) (now : Nat) (r : Row) (more : Bool) :
    (f.oursAlive = false → visitOurs .perIteration g s f now r more = .next f 0 more) ∧
    (f.oursAlive = true → ∃ st1 d1 rep0, s.onRow f.ours now r = (st1, d1, rep0) ∧
      ∃ f1 more1, visitOurs .perIteration g s f now r more = .next f1 d1 more1 ∧ f1.ours = st1 ∧
        ((g.proceedAfter (now + d1) rep0).ok = true → f1.oursAlive = true ∧ f1.oursErr = f.oursErr ∧ more1 = true) ∧
        ((g.proceedAfter (now + d1) rep0).ok = false → f1.oursAlive = false ∧ f1.oursErr = (g.proceedAfter (now + d1) rep0).err)) := by
  constructor
  · intro ha; simp [visitOurs, ha]
  · intro ha
    unfold visitOurs
    generalize hr : s.onRow f.ours now r = res
    obtain ⟨st1, d1, rep0⟩ := res
    refine ⟨st1, d1, rep0, rfl, ?_⟩
    simp only [ha, Bool.not_true, Bool.false_eq_true, if_false]
    generalize g.proceedAfter (now + d1) rep0 = rep
    cases rep with
    | mk m e => cases m <;> cases e <;> simp [Reply.ok]

theorem fanout_per_step {σ : Type} (g : Guard) (s : Sink σ) (c : CoIter) (F : Fan σ) (now : Nat) (r : Row)
    (F' : Fan σ) (d : Nat) (rep : Reply) (h : (fanout .perIteration g s c).onRow F now r = (F', d, rep)) :
    rep.err = none ∧
    (F.oursAlive = false → F'.ours = F.ours ∧ F'.oursAlive = false ∧ F'.oursErr = F.oursErr) ∧
    (F.oursAlive = true → ∃ now1 d1 rep0, s.onRow F.ours now1 r = (F'.ours, d1, rep0) ∧
        ((g.proceedAfter (now1 + d1) rep0).ok = true → F'.oursAlive = true ∧ F'.oursErr = F.oursErr ∧ rep.more = true) ∧
        ((g.proceedAfter (now1 + d1) rep0).ok = false → F'.oursAlive = false ∧ F'.oursErr = (g.proceedAfter (now1 + d1) rep0).err)) := by
  simp only [fanout] at h
  by_cases hfirst : c.first = true
  · simp only [hfirst, if_true] at h
    have hco := visitCo_frame .perIteration c F now r false
    generalize visitCo .perIteration c F now r false = v1 at h hco
    cases v1 with
    | abort f1 d1 e => exact absurd hco.2.2.2 (by simp)
    | next f1 d1 more1 =>
      obtain ⟨h1, h2, h3, _⟩ := hco
      simp only at h
      have ho := visitOurs_per g s f1 (now + d1) r more1
      by_cases hal : F.oursAlive = true
      · obtain ⟨st1, d2, rep0, hr, f2, more2, hv, hs, hok, hno⟩ := ho.2 (by rw [h2, hal])
        rw [hv] at h
        simp only [Prod.mk.injEq] at h
        obtain ⟨rfl, _, rfl⟩ := h
        refine ⟨rfl, (fun hf => by rw [hal] at hf; cases hf), (fun _ => ⟨now + d1, d2, rep0, by rw [hs, ← h1]; exact hr, ?_, ?_⟩)⟩
        · intro hq; obtain ⟨a, b, c'⟩ := hok hq; exact ⟨a, by rw [b, h3], c'⟩
        · intro hq; exact hno hq
      · have hal' : F.oursAlive = false := by simpa using hal
        rw [ho.1 (by rw [h2, hal'])] at h
        simp only [Prod.mk.injEq] at h
        obtain ⟨rfl, _, rfl⟩ := h
        exact ⟨rfl, (fun _ => ⟨h1, by rw [h2, hal'], h3⟩), (fun hf => by rw [hal'] at hf; cases hf)⟩
  · simp only [hfirst, Bool.false_eq_true, if_false] at h
    have ho := visitOurs_per g s F now r false
    by_cases hal : F.oursAlive = true
    · obtain ⟨st1, d1, rep0, hr, f1, more1, hv, hs, hok, hno⟩ := ho.2 hal
      rw [hv] at h
      simp only at h
      have hco := visitCo_frame .perIteration c f1 (now + d1) r more1
      generalize visitCo .perIteration c f1 (now + d1) r more1 = v2 at h hco
      cases v2 with
      | abort f2 d2 e => exact absurd hco.2.2.2 (by simp)
      | next f2 d2 more2 =>
        obtain ⟨c1, c2, c3, c4⟩ := hco
        simp only [Prod.mk.injEq] at h
        obtain ⟨rfl, _, rfl⟩ := h
        refine ⟨rfl, (fun hf => by rw [hal] at hf; cases hf), (fun _ => ⟨now, d1, rep0, by rw [c1, hs]; exact hr, ?_, ?_⟩)⟩
        · intro hq; obtain ⟨a, b, c'⟩ := hok hq; exact ⟨by rw [c2, a], by rw [c3, b], c4 c'⟩
        · intro hq; obtain ⟨a, b⟩ := hno hq; exact ⟨by rw [c2, a], by rw [c3, b]⟩
    · have hal' : F.oursAlive = false := by simpa using hal
      rw [ho.1 hal'] at h
      simp only at h
      have hco := visitCo_frame .perIteration c F (now + 0) r false
      generalize visitCo .perIteration c F (now + 0) r false = v2 at h hco
      cases v2 with
      | abort f2 d2 e => exact absurd hco.2.2.2 (by simp)
      | next f2 d2 more2 =>
        obtain ⟨c1, c2, c3, _⟩ := hco
        simp only [Prod.mk.injEq] at h
        obtain ⟨rfl, _, rfl⟩ := h
        exact ⟨rfl, (fun _ => ⟨c1, by rw [c2, hal'], c3⟩), (fun hf => by rw [hal'] at hf; cases hf)⟩

theorem fanout_per_fed {σ : Type} (g : Guard) (s : Sink σ) (c : CoIter) :
    ∀ (rows : List Row) (F F' : Fan σ) (rep : Reply),
      Fed (fanout .perIteration g s c) F rows F' rep →
      (F.oursAlive = false → F'.ours = F.ours ∧ F'.oursAlive = false ∧ F'.oursErr = F.oursErr) ∧
      (F.oursAlive = true → F.oursErr = none → ∃ m rep0, Fed s F.ours (rows.take m) F'.ours rep0 ∧
          (F'.oursAlive = true → rep0.ok = true ∧ rows.length ≤ m ∧ rep.more = true ∧ F'.oursErr = none) ∧
          (F'.oursAlive = false → F'.oursErr = none → rep0.err = none ∧ rep0.more = false)) := by
  intro rows F F' rep h
  induction h with
  | nil st =>
    exact ⟨fun ha => ⟨rfl, ha, rfl⟩, fun ha he => ⟨0, Reply.proceed, Fed.nil _,
      (fun _ => ⟨rfl, Nat.le_refl _, rfl, he⟩), (fun hd => by rw [ha] at hd; cases hd)⟩⟩
  | @last st now r st' d rep hr hk =>
    obtain ⟨he, hd, ha⟩ := fanout_per_step g s c st now r st' d rep hr
    refine ⟨hd, fun hal herr => ?_⟩
    obtain ⟨now1, d1, rep0, hro, hok, hno⟩ := ha hal
    have hmf : rep.more = false := Reply.ok_false_noerr hk he
    have hq : (g.proceedAfter (now1 + d1) rep0).ok = false := by
      cases hq : (g.proceedAfter (now1 + d1) rep0).ok with
      | false => rfl
      | true => rw [(hok hq).2.2] at hmf; cases hmf
    obtain ⟨hdead, herr'⟩ := hno hq
    by_cases hk0 : rep0.ok = true
    · -- our guard turned the reply into an error
      have hne : (g.proceedAfter (now1 + d1) rep0).err ≠ none := by
        rcases g.proceedAfter_cases (now1 + d1) rep0 with h | ⟨_, h⟩
        · rw [h] at hq; rw [hk0] at hq; cases hq
        · exact h
      exact ⟨1, Reply.proceed, by simpa using Fed.cons hro hk0 (Fed.nil _),
        (fun hl => by rw [hdead] at hl; cases hl), (fun _ hn => by rw [herr'] at hn; exact absurd hn hne)⟩
    · have hk0' : rep0.ok = false := by simpa using hk0
      have heq : g.proceedAfter (now1 + d1) rep0 = rep0 := by
        rcases g.proceedAfter_cases (now1 + d1) rep0 with h | ⟨h, _⟩
        · exact h
        · rw [hk0'] at h; cases h
      refine ⟨1, rep0, by simpa using Fed.last hro hk0', (fun hl => by rw [hdead] at hl; cases hl), ?_⟩
      intro _ hn
      rw [herr', heq] at hn
      exact ⟨hn, Reply.ok_false_noerr hk0' hn⟩
  | @cons st now r st1 d1 rep1 rs st' rep hr hk _ ih =>
    obtain ⟨ihd, iha⟩ := ih
    obtain ⟨he, hd, ha⟩ := fanout_per_step g s c st now r st1 d1 rep1 hr
    constructor
    · intro hal
      obtain ⟨a, b, c'⟩ := hd hal
      obtain ⟨a', b', c''⟩ := ihd b
      exact ⟨by rw [a', a], b', by rw [c'', c']⟩
    · intro hal herr
      obtain ⟨now1, dd, rep0, hro, hok, hno⟩ := ha hal
      by_cases hq : (g.proceedAfter (now1 + dd) rep0).ok = true
      · obtain ⟨a, b, _⟩ := hok hq
        have hk0 : rep0.ok = true := by
          rcases g.proceedAfter_cases (now1 + dd) rep0 with h | ⟨h, _⟩
          · rw [h] at hq; exact hq
          · exact h
        obtain ⟨m, rep0', hf, hA, hD⟩ := iha a (by rw [b, herr])
        exact ⟨m + 1, rep0', by simpa using Fed.cons hro hk0 hf,
          (fun hl => by obtain ⟨x, y, z, w⟩ := hA hl; exact ⟨x, by simpa using y, z, w⟩), hD⟩
      · have hq' : (g.proceedAfter (now1 + dd) rep0).ok = false := by simpa using hq
        obtain ⟨hdead, herr'⟩ := hno hq'
        obtain ⟨a', b', c''⟩ := ihd hdead
        by_cases hk0 : rep0.ok = true
        · have hne : (g.proceedAfter (now1 + dd) rep0).err ≠ none := by
            rcases g.proceedAfter_cases (now1 + dd) rep0 with h | ⟨_, h⟩
            · rw [h] at hq'; rw [hk0] at hq'; cases hq'
            · exact h
          refine ⟨1, Reply.proceed, ?_, (fun hl => by rw [b'] at hl; cases hl), (fun _ hn => by rw [c'', herr'] at hn; exact absurd hn hne)⟩
          rw [a']; simpa using Fed.cons hro hk0 (Fed.nil _)
        · have hk0' : rep0.ok = false := by simpa using hk0
          have heq : g.proceedAfter (now1 + dd) rep0 = rep0 := by
            rcases g.proceedAfter_cases (now1 + dd) rep0 with h | ⟨h, _⟩
            · exact h
            · rw [hk0'] at h; cases h
          refine ⟨1, rep0, ?_, (fun hl => by rw [b'] at hl; cases hl), ?_⟩
          · rw [a']; simpa using Fed.last hro hk0'
          · intro _ hn
            rw [c'', herr', heq] at hn
            exact ⟨hn, Reply.ok_false_noerr hk0' hn⟩

end Zeno.Report
