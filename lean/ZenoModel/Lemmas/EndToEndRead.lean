/-
End-to-end, stage 2, part 6: what `core.Flatten` reads from a grouped row at a grid time is the row
`specOut` builds for that bucket — for queries whose selected fields are all scanned table fields
that have NO value on the empty state (plain aggregates; otherwise: known finding empty-bucket-row).
-/
import ZenoModel.Lemmas.EndToEndIncl
import ZenoModel.Lemmas.EndToEndFlat2
import ZenoModel.Lemmas.EndToEndGroup
import ZenoModel.Lemmas.EndToEndSpecOut
set_option linter.unusedSimpArgs false
set_option linter.unusedVariables false
namespace Zeno

/-- a selected field of the read-out theorem: a scanned table field that is not constant, has no
    value without data, and does not read the per-key IF conditions of the query -/
structure PlainField (x : Ext) (cfg : TableCfg) (q : Query) (metas : List KeyMeta) (f : Field) : Prop where
  scanned : ScannedField cfg q f
  nonConst : f.ex.isConstant = false
  noValueOnEmpty : f.ex.val x f.ex.empty = none
  condsIrrelevant : ∀ l : List AccRow, f.ex.acc x (l.map (specAdj metas)) = f.ex.acc x (l.map (·.pt))

/-- the grouped rows `runQuery` flattens -/
def e2eGroup (x : Ext) (cfg : TableCfg) (ops : List StoreOp) (q : Query) (metas : List KeyMeta) (pl : Plan) : List Row :=
  (groupRows cfg (runStore x cfg ops).now q pl (includedFields cfg q) metas (e2eScan x cfg ops q metas)).1

/-- the value `Flatten` reads from a grouped row, cell by cell -/
theorem e2e_cell_value (x : Ext) {cfg : TableCfg} {ops : List StoreOp} {q : Query} {metas : List KeyMeta} {pl : Plan}
    (C : E2ECtx x cfg ops q metas pl) (i : Nat) (f : Field) (hout : q.outFields[i]? = some f)
    (pf : PlainField x cfg q metas f) (k : Key) (T : Int)
    (hT : (gUntilOf cfg (runStore x cfg ops).now pl - T) % gResOf cfg pl = 0) :
    f.ex.val x ((groupCell cfg (runStore x cfg ops).now q pl (includedFields cfg q) metas (e2eScan x cfg ops q metas) k i).at
        f.ex (gResOf cfg pl) T) =
      if gAsOfOf cfg (runStore x cfg ops).now pl < T ∧ T ≤ gUntilOf cfg (runStore x cfg ops).now pl
      then f.ex.val x (f.ex.acc x (specBucketPts q (specRows q metas (acceptedRows cfg true (pointsOf ops)).1)
        (specAdj metas) (gAsOfOf cfg (runStore x cfg ops).now pl) (gUntilOf cfg (runStore x cfg ops).now pl)
        (gResOf cfg pl) k T))
      else none := by
  rw [e2e_cell_included x C i f hout pf.scanned k T hT]
  split
  · unfold specBucketPts
    rw [pf.condsIrrelevant]
  · exact pf.noValueOnEmpty

/-- every column of a grouped row lies on the out grid anchored at the window's end -/
theorem e2e_group_onGrid (x : Ext) {cfg : TableCfg} {ops : List StoreOp} {q : Query} {metas : List KeyMeta} {pl : Plan}
    (C : E2ECtx x cfg ops q metas pl) (hall : ∀ f ∈ q.outFields, PlainField x cfg q metas f) :
    ∀ g ∈ e2eGroup x cfg ops q metas pl, ∀ c ∈ g.cols,
      OnGrid (gResOf cfg pl) (gUntilOf cfg (runStore x cfg ops).now pl) c := by
  intro g hg c hc
  obtain ⟨i, hi, rfl⟩ := List.getElem_of_mem hc
  have hw := groupRows_width cfg _ q pl _ metas _ g hg
  have hi' : i < q.outFields.length := by omega
  have hout : q.outFields[i]? = some (q.outFields[i]) := List.getElem?_eq_getElem hi'
  have pf := hall _ (List.getElem_mem hi')
  obtain ⟨j, ti, ft, sv, H⟩ := groupCell_included x C i _ hout pf.scanned
  obtain ⟨inF, hin, hex⟩ := H.inField
  have hinv := (groupRows_cell_inv cfg _ q pl _ metas _ H.noStride H.window i _ H.outField H.valid H.noPtile
    H.noShift j inF hin hex H.oneHot H.scan g.key).1
  have hcell : g.cols[i] = groupCell cfg (runStore x cfg ops).now q pl (includedFields cfg q) metas
      (e2eScan x cfg ops q metas) g.key i := by
    rw [← groupRows_col_is_cell cfg _ q pl _ metas _ g hg i, List.getD_eq_getElem?_getD,
      List.getElem?_eq_getElem hi]; rfl
  rw [hcell]
  unfold groupCell
  generalize (colsOf _ _ g.key).getD i none = s at hinv
  cases s with
  | none => trivial
  | some s => exact ⟨hinv.1, by have := hinv.2.1; omega⟩

theorem zip_map_eq_map {α β γ : Type} (fs : List α) (cs : List β) (F : α × β → γ) (G : α → γ)
    (hl : cs.length = fs.length)
    (h : ∀ i (h1 : i < fs.length) (h2 : i < cs.length), F (fs[i], cs[i]) = G fs[i]) :
    (fs.zip cs).map F = fs.map G := by
  apply List.ext_getElem
  · simp [hl]
  · intro i h1 h2
    simp only [List.getElem_map, List.getElem_zip]
    exact h i (by simpa using h2) (by simp at h1; omega)

/-- what the loop body of `Flatten` sees in a grouped row at a grid time -/
theorem e2e_flat_vs (x : Ext) {cfg : TableCfg} {ops : List StoreOp} {q : Query} {metas : List KeyMeta} {pl : Plan}
    (C : E2ECtx x cfg ops q metas pl) (hall : ∀ f ∈ q.outFields, PlainField x cfg q metas f)
    (g : Row) (hg : g ∈ e2eGroup x cfg ops q metas pl) (T : Int)
    (hT : (gUntilOf cfg (runStore x cfg ops).now pl - T) % gResOf cfg pl = 0) :
    (q.outFields.zip g.cols).map (fun (fc : Field × Sq) =>
        (Sq.valueAtTime x fc.2 fc.1.ex (gResOf cfg pl) T, fc.1.ex.isConstant)) =
      q.outFields.map (fun f =>
        (if gAsOfOf cfg (runStore x cfg ops).now pl < T ∧ T ≤ gUntilOf cfg (runStore x cfg ops).now pl
          then f.ex.val x (f.ex.acc x (specBucketPts q (specRows q metas (acceptedRows cfg true (pointsOf ops)).1)
            (specAdj metas) (gAsOfOf cfg (runStore x cfg ops).now pl) (gUntilOf cfg (runStore x cfg ops).now pl)
            (gResOf cfg pl) g.key T))
          else none, f.ex.isConstant)) := by
  have hw := groupRows_width cfg _ q pl _ metas _ g hg
  apply zip_map_eq_map _ _ _ _ hw
  intro i h1 h2
  have hout : q.outFields[i]? = some (q.outFields[i]) := List.getElem?_eq_getElem h1
  have pf := hall _ (List.getElem_mem h1)
  have hgrid := e2e_group_onGrid x C hall g hg (g.cols[i]) (List.getElem_mem h2)
  have hcell : g.cols[i] = groupCell cfg (runStore x cfg ops).now q pl (includedFields cfg q) metas
      (e2eScan x cfg ops q metas) g.key i := by
    rw [← groupRows_col_is_cell cfg _ q pl _ metas _ g hg i, List.getD_eq_getElem?_getD,
      List.getElem?_eq_getElem h2]; rfl
  simp only
  rw [valueAtTime_eq_val_at x _ pf.nonConst pf.noValueOnEmpty C.resPos _ hgrid T hT, hcell,
    e2e_cell_value x C i _ hout pf g.key T hT]

end Zeno
