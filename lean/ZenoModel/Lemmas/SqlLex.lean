/-
Helper lemmas for C16 (lexer agreement): the pre-scan's sub-scanners compute what the
tokenizer's do, hence one round of the pre-scan is one `Tokenizer.Scan`; every token consumes
input, hence fuel > length is never exhausted.
-/
import ZenoModel.Model.SqlLex

namespace Zeno.Sql.Lex

theorem preString_eq (d : Char) : ∀ s, preString d s = tokString d s
  | [] => rfl
  | c :: r => by
      unfold preString preStringWith tokString
      simp only [Bool.true_or, Bool.and_true]
      split
      · match r with
        | [] => rfl
        | c2 :: r2 =>
            simp only
            split
            · exact preString_eq d r2
            · rfl
      · split
        · match r with
          | [] => rfl
          | _ :: r2 => exact preString_eq d r2
        · exact preString_eq d r
termination_by s => s.length

theorem preLine_eq : ∀ s, preLine s = tokLine s
  | [] => rfl
  | c :: r => by unfold preLine tokLine; split; rfl; exact preLine_eq r

theorem preBlock_eq : ∀ s, preBlock s = tokBlock s
  | [] => rfl
  | [c] => by simp [preBlock, tokBlock]
  | c :: d :: r2 => by
      unfold preBlock tokBlock
      simp only
      by_cases hc : c == '*'
      · by_cases hd : d == '/'
        · simp [hc, hd]
        · simp only [hc, hd, Bool.and_false, Bool.false_eq_true, if_false, if_true]
          exact preBlock_eq (d :: r2)
      · simp only [hc, Bool.false_and, Bool.false_eq_true, if_false]
        exact preBlock_eq (d :: r2)

theorem preLiteral_eq (s : Str) : preLiteral s = tokLiteral s := rfl

theorem preNumTail_true (s : Str) : preNumTail true s = tokExponent s := by
  unfold preNumTail tokExponent
  cases s <;> simp

theorem preNumTail_false (s : Str) : preNumTail false s = tokFraction s := by
  unfold preNumTail tokFraction tokExponent
  match s with
  | [] => simp
  | c :: r =>
      by_cases h : c == '.'
      · simp [h]
      · simp [h]

theorem ite_false_swap {α : Type} (b : Bool) (x y : α) :
    (if b = false then x else y) = (if b = true then y else x) := by cases b <;> rfl

theorem preNumber_eq (b : Bool) (s : Str) : preNumber b s = tokNumber b s := by
  unfold preNumber tokNumber
  simp only [preNumTail_true, preNumTail_false, Bool.not_eq_true', ite_false_swap]

/-- one round of the pre-scan is one call of `Tokenizer.Scan` -/
theorem preScan_eq (first : Bool) (s : Str) : preScan first s = tokScan first s := by
  unfold preScan preScanWith tokScan
  simp only [preNumber_eq, preLine_eq, preBlock_eq, preLiteral_eq, preString_eq]

theorem preAll_eq : ∀ (n : Nat) (first : Bool) (s : Str), preAll n first s = tokAll n first s
  | 0, _, _ => rfl
  | n + 1, first, s => by
      unfold preAll preAllWith tokAll
      have h := preScan_eq first s
      unfold preScan at h
      rw [h]
      split <;> first | rfl | exact preAll_eq n false _

/-! ## Progress: every token consumes input -/

theorem dw_le (p : Char → Bool) (l : Str) : (l.dropWhile p).length ≤ l.length := by
  induction l with
  | nil => simp
  | cons a t ih => simp only [List.dropWhile_cons]; split <;> simp <;> omega

theorem mantissa_le (b : Nat) (s : Str) : (mantissa b s).length ≤ s.length := dw_le _ s

theorem digit_val (c : Char) (h : isDigit c = true) : digitVal c < 10 := by
  unfold isDigit at h
  unfold digitVal
  simp only [h, if_true]
  simp only [Bool.and_eq_true, decide_eq_true_eq] at h
  have h2 : c.toNat ≤ '9'.toNat := h.2
  have : '9'.toNat = 57 := rfl
  have : '0'.toNat = 48 := rfl
  omega

theorem tokExponent_le (s : Str) : (tokExponent s).length ≤ s.length := by
  unfold tokExponent
  split
  · rename_i c r
    split
    · split
      · rename_i d r2
        have h1 := mantissa_le 10 r2
        have h2 := mantissa_le 10 (d :: r2)
        split <;> simp only [List.length_cons] at * <;> omega
      · have h1 := mantissa_le 10 ([] : Str)
        simp only [List.length_cons] at *; omega
    · exact Nat.le_refl _
  · exact Nat.le_refl _

theorem tokFraction_le (s : Str) : (tokFraction s).length ≤ s.length := by
  unfold tokFraction
  split
  · rename_i c r
    split
    · have h1 := tokExponent_le (mantissa 10 r)
      have h2 := mantissa_le 10 r
      simp only [List.length_cons]; omega
    · exact tokExponent_le _
  · exact tokExponent_le _

theorem tokString_le (delim : Char) : ∀ (n : Nat) (s r' : Str), s.length ≤ n → tokString delim s = some r' → r'.length ≤ s.length := by
  intro n
  induction n with
  | zero =>
    intro s r' hn h
    cases s with
    | nil => simp [tokString] at h
    | cons => simp at hn
  | succ n ih =>
    intro s r' hn h
    cases s with
    | nil => simp [tokString] at h
    | cons c r =>
      unfold tokString at h
      simp only [List.length_cons] at hn ⊢
      split at h
      · split at h
        · rename_i c2 r2
          split at h
          · have := ih r2 r' (by simp only [List.length_cons] at hn; omega) h
            simp only [List.length_cons]; omega
          · cases h; omega
        · cases h; omega
      · split at h
        · split at h
          · cases h
          · rename_i x r2
            have := ih r2 r' (by simp only [List.length_cons] at hn; omega) h
            simp only [List.length_cons]; omega
        · have := ih r r' (by omega) h
          omega

theorem tokLine_le : ∀ s : Str, (tokLine s).length ≤ s.length
  | [] => by simp [tokLine]
  | c :: r => by
    unfold tokLine
    have := tokLine_le r
    split <;> simp only [List.length_cons] <;> omega

theorem tokBlock_le : ∀ (s r' : Str), tokBlock s = some r' → r'.length ≤ s.length
  | [], r', h => by simp [tokBlock] at h
  | c :: r, r', h => by
    unfold tokBlock at h
    have ih := tokBlock_le r r'
    simp only [List.length_cons]
    split at h
    · split at h
      · split at h
        · cases h; simp only [List.length_cons]; omega
        · have := ih h; omega
      · have := ih h; omega
    · have := ih h; omega

theorem untilBacktick_le : ∀ (s r' : Str), untilBacktick s = some r' → r'.length ≤ s.length
  | [], r', h => by simp [untilBacktick] at h
  | c :: r, r', h => by
    unfold untilBacktick at h
    have ih := untilBacktick_le r r'
    simp only [List.length_cons]
    split at h
    · cases h; omega
    · have := ih h; omega

theorem tokLiteral_le (s r' : Str) (h : tokLiteral s = some r') : r'.length ≤ s.length := by
  unfold tokLiteral at h
  split at h
  · cases h
  · have := untilBacktick_le _ _ h
    simp only [List.length_cons]; omega

theorem skipStart_le (f : Bool) (s : Str) : (skipStart f s).length ≤ s.length := by
  unfold skipStart
  split
  · rename_i c r
    split
    · have := dw_le isBlank r
      simp only [List.length_cons]; omega
    · exact dw_le _ _
  · exact dw_le _ _

theorem tokNumber_true_le (s r' : Str) (h : tokNumber true s = some r') : r'.length ≤ s.length := by
  unfold tokNumber at h
  simp only [if_true] at h
  cases h
  have h1 := tokExponent_le (mantissa 10 s)
  have h2 := mantissa_le 10 s
  omega

theorem pick3 (hex tf sd : Bool) (a b c r' : Str)
    (h : (if hex = true then some a else if tf = true then some b else if sd = true then none else some c) = some r') :
    r' = a ∨ r' = b ∨ r' = c := by
  cases hex <;> cases tf <;> cases sd <;> simp at h <;> simp [h]

theorem octal_le (b : Bool) (r : Str) :
    (if b = true then mantissa 10 (mantissa 8 r) else mantissa 8 r).length ≤ r.length := by
  have h8 := mantissa_le 8 r
  have h10 := mantissa_le 10 (mantissa 8 r)
  cases b <;> simp <;> omega

theorem tokNumber_digit_lt (c : Char) (r r' : Str) (hd : isDigit c = true)
    (h : tokNumber false (c :: r) = some r') : r'.length ≤ r.length := by
  unfold tokNumber at h
  simp only [Bool.false_eq_true, if_false] at h
  by_cases hc : (c == '0') = true
  · rw [if_pos hc] at h
    rcases pick3 _ _ _ _ _ _ _ h with rfl | rfl | rfl
    · have := mantissa_le 16 (r.drop 1)
      have : (r.drop 1).length ≤ r.length := by simp
      omega
    · exact Nat.le_trans (tokFraction_le _) (octal_le _ r)
    · exact octal_le _ r
  · rw [if_neg hc] at h
    cases h
    have hm : mantissa 10 (c :: r) = mantissa 10 r := by
      unfold mantissa
      simp [digit_val c hd]
    rw [hm]
    have := tokFraction_le (mantissa 10 r)
    have := mantissa_le 10 r
    omega

theorem tokScan_lt (f : Bool) (s r' : Str) (h : tokScan f s = .next r') : r'.length < s.length := by
  unfold tokScan at h
  have hs := skipStart_le f s
  split at h
  · cases h
  · rename_i c r heq
    rw [heq] at hs
    simp only [List.length_cons] at hs
    suffices r'.length ≤ r.length by omega
    by_cases h1 : isLetter c = true
    · rw [if_pos h1] at h; cases h; exact dw_le _ _
    rw [if_neg h1] at h
    by_cases h2 : isDigit c = true
    · rw [if_pos h2] at h
      unfold ofOpt at h
      split at h
      · rename_i x hx
        cases h
        exact tokNumber_digit_lt c r _ h2 hx
      · cases h
    rw [if_neg h2] at h
    by_cases h3 : (c == ':') = true
    · rw [if_pos h3] at h
      have hb : ∀ t : Str, (bindRest t).length ≤ t.length := fun t => dw_le _ t
      cases r with
      | nil => simp at h
      | cons d t =>
        simp only at h
        by_cases hd : (d == ':') = true
        · simp only [hd, if_true] at h
          split at h
          · split at h
            · cases h
              rename_i l t _
              have := hb (l :: t)
              simp only [List.length_cons] at this ⊢
              omega
            · cases h
          · cases h
        · simp only [hd, Bool.false_eq_true, if_false] at h
          split at h
          · cases h; exact hb _
          · cases h
    rw [if_neg h3] at h
    by_cases h4 : isSingle c = true
    · rw [if_pos h4] at h; cases h; omega
    rw [if_neg h4] at h
    by_cases h5 : (c == '.') = true
    · rw [if_pos h5] at h
      split at h
      · split at h
        · unfold ofOpt at h
          split at h
          · rename_i x hx; cases h; exact tokNumber_true_le _ _ hx
          · cases h
        · cases h; omega
      · cases h; omega
    rw [if_neg h5] at h
    by_cases h6 : (c == '/') = true
    · rw [if_pos h6] at h
      split at h
      · rename_i d t
        have := tokLine_le t
        split at h
        · cases h
          simp only [List.length_cons]; omega
        · split at h
          · unfold ofOpt at h
            split at h
            · rename_i x hx; cases h
              have := tokBlock_le _ _ hx
              simp only [List.length_cons]; omega
            · cases h
          · cases h; omega
      · cases h; omega
    rw [if_neg h6] at h
    by_cases h7 : (c == '-') = true
    · rw [if_pos h7] at h
      split at h
      · rename_i d t
        have := tokLine_le t
        split at h
        · cases h
          simp only [List.length_cons]; omega
        · cases h; omega
      · cases h; omega
    rw [if_neg h7] at h
    by_cases h8 : (c == '<') = true
    · rw [if_pos h8] at h
      split at h
      · split at h
        · cases h; simp only [List.length_cons]; omega
        · split at h
          · split at h
            · split at h <;> cases h <;> simp only [List.length_cons] <;> omega
            · cases h; simp only [List.length_cons]; omega
          · cases h; omega
      · cases h; omega
    rw [if_neg h8] at h
    by_cases h9 : (c == '>') = true
    · rw [if_pos h9] at h
      split at h
      · split at h <;> cases h <;> simp only [List.length_cons] <;> omega
      · cases h; omega
    rw [if_neg h9] at h
    by_cases h10 : (c == '!') = true
    · rw [if_pos h10] at h
      split at h
      · split at h
        · cases h; simp only [List.length_cons]; omega
        · cases h
      · cases h
    rw [if_neg h10] at h
    by_cases h11 : (c == '\'' || c == '"') = true
    · rw [if_pos h11] at h
      unfold ofOpt at h
      split at h
      · rename_i x hx; cases h
        exact tokString_le c _ r _ (Nat.le_refl _) hx
      · cases h
    rw [if_neg h11] at h
    by_cases h12 : (c == '`') = true
    · rw [if_pos h12] at h
      unfold ofOpt at h
      split at h
      · rename_i x hx; cases h
        exact tokLiteral_le _ _ hx
      · cases h
    rw [if_neg h12] at h
    cases h

theorem tokAll_fuel : ∀ (n : Nat) (f : Bool) (s : Str), s.length < n → ∃ b, tokAll n f s = some b := by
  intro n
  induction n with
  | zero => intro f s h; omega
  | succ n ih =>
    intro f s h
    unfold tokAll
    cases hs : tokScan f s with
    | eof => exact ⟨true, rfl⟩
    | lexError => exact ⟨true, rfl⟩
    | loops => exact ⟨false, rfl⟩
    | next r =>
      have := tokScan_lt f s r hs
      exact ih false r (by omega)

/-- with fuel > length the iteration always ends with a verdict (tokenizer) -/
theorem preAll_fuel (n : Nat) (f : Bool) (s : Str) (h : s.length < n) : ∃ b, preAll n f s = some b := by
  rw [preAll_eq]; exact tokAll_fuel n f s h

end Zeno.Sql.Lex
