/-
JSON codec shared by all driver engines (core + Lean.Data.Json only).
Rationals travel as strings "n" or "n/d"; times as strings of unix nanoseconds
(or "zero" for Go's zero time.Time); the model uses ns since year 1.
-/
import Lean.Data.Json
import ZenoModel.Model.Seq

namespace Zeno.Drv
open Lean

abbrev R := Except String

/-- seconds between 0001-01-01 and 1970-01-01 -/
def unixOffsetNs : Int := 62135596800 * 1000000000

def parseInt (s : String) : R Int :=
  match s.toInt? with
  | some i => pure i
  | none => throw s!"bad int {s}"

def parseRat (s : String) : R Rat :=
  match s.splitOn "/" with
  | [n] => do let n ← parseInt n; pure (n : Rat)
  | [n, d] => do
      let n ← parseInt n
      let d ← parseInt d
      if d = 0 then throw "zero denominator" else pure ((n : Rat) / (d : Rat))
  | _ => throw s!"bad rat {s}"

def ratStr (r : Rat) : String :=
  if r.den = 1 then toString r.num else s!"{r.num}/{r.den}"

def obj (j : Json) (k : String) : R Json := j.getObjVal? k
def str (j : Json) (k : String) : R String := do (← obj j k).getStr?
def nat (j : Json) (k : String) : R Nat := do (← obj j k).getNat?
def arr (j : Json) (k : String) : R (Array Json) := do (← obj j k).getArr?
def boolD (j : Json) (k : String) (d : Bool) : Bool :=
  match j.getObjVal? k with
  | .ok v => (v.getBool?.toOption).getD d
  | .error _ => d
def rat (j : Json) (k : String) : R Rat := do parseRat (← str j k)
def int (j : Json) (k : String) : R Int := do parseInt (← str j k)

/-- a time field: "zero" or unix ns -/
def parseTime (s : String) : R Time :=
  if s == "zero" then pure 0 else do pure ((← parseInt s) + unixOffsetNs)
def time (j : Json) (k : String) : R Time := do parseTime (← str j k)
def timeStr (t : Time) : String := if t = 0 then "zero" else toString (t - unixOffsetNs)

def aggKind : String → R AggKind
  | "SUM" => pure .sum | "MIN" => pure .min | "MAX" => pure .max | "COUNT" => pure .count
  | s => throw s!"unknown aggregate {s}"

def binOp : String → R BinOp
  | "+" => pure .add | "-" => pure .sub | "*" => pure .mul | "/" => pure .div
  | "<" => pure .lt | "<=" => pure .le | "=" => pure .eq | "<>" => pure .ne
  | ">=" => pure .ge | ">" => pure .gt | "AND" => pure .and | "OR" => pure .or
  | s => throw s!"unknown op {s}"

partial def parseEx (j : Json) : R Ex := do
  match (← str j "k") with
  | "field" => pure (.field (← str j "n"))
  | "const" => pure (.const (← rat j "v"))
  | "agg" => pure (.agg (← aggKind (← str j "a")) (← parseEx (← obj j "w")))
  | "avg" => pure (.avg (← parseEx (← obj j "v")) (← parseEx (← obj j "w")))
  | "bin" => pure (.bin (← binOp (← str j "op")) (← parseEx (← obj j "l")) (← parseEx (← obj j "r")))
  | "if" => pure (.ifE (← nat j "c") (← parseEx (← obj j "w")))
  | "bounded" => pure (.bounded (← parseEx (← obj j "w")) (← rat j "lo") (← rat j "hi"))
  | "shift" => pure (.shift (← parseEx (← obj j "w")) (← int j "off"))
  | "unary" => pure (.unary (← nat j "f") (← parseEx (← obj j "w")))
  | "ptile" => pure (.ptile (← nat j "id") (← parseEx (← obj j "v")) (← parseEx (← obj j "p")) (← nat j "n"))
  | k => throw s!"unknown expr kind {k}"

def parseCell (j : Json) : R Cell := do
  if let .ok v := j.getObjVal? "a" then
    if v.isNull then return .agg none
    return .agg (some (← parseRat (← v.getStr?)))
  if let .ok v := j.getObjVal? "v" then
    if v.isNull then return .avg none
    let a ← v.getArr?
    if a.size ≠ 2 then throw "avg cell needs [count,total]"
    return .avg (some (← parseRat (← a[0]!.getStr?), ← parseRat (← a[1]!.getStr?)))
  if let .ok v := j.getObjVal? "h" then
    if v.isNull then return .hist none
    let a ← v.getArr?
    return .hist (some (← a.toList.mapM (·.getNat?)))
  throw "bad cell"

def cellJson : Cell → Json
  | .agg none => Json.mkObj [("a", Json.null)]
  | .agg (some v) => Json.mkObj [("a", Json.str (ratStr v))]
  | .avg none => Json.mkObj [("v", Json.null)]
  | .avg (some (c, t)) => Json.mkObj [("v", Json.arr #[Json.str (ratStr c), Json.str (ratStr t)])]
  | .hist none => Json.mkObj [("h", Json.null)]
  | .hist (some h) => Json.mkObj [("h", Json.arr (h.map (fun (n : Nat) => Json.num (Int.ofNat n))).toArray)]

def parseCells (j : Json) : R (List Cell) := do (← j.getArr?).toList.mapM parseCell
def cellsJson (cs : List Cell) : Json := Json.arr (cs.map cellJson).toArray

def parsePt (j : Json) : R Pt := do
  let vals ← match j.getObjVal? "vals" with
    | .ok (Json.obj kvs) => kvs.toList.mapM (fun (k, v) => do pure (k, ← parseRat (← v.getStr?)))
    | _ => pure []
  let conds ← match j.getObjVal? "conds" with
    | .ok v => do (← v.getArr?).toList.mapM (·.getNat?)
    | _ => pure []
  let bucket ← match j.getObjVal? "bucket" with
    | .ok (Json.obj kvs) => kvs.toList.mapM (fun (k, v) => do
        match k.toNat? with
        | some id => pure (id, ← v.getNat?)
        | none => throw "bad bucket id")
    | _ => pure []
  pure { vals := vals, conds := conds, noMeta := boolD j "nometa" false, bucket := bucket }

def parseSq (j : Json) : R Sq := do
  if j.isNull then return none
  let hi ← time j "hi"
  let cells ← (← arr j "cells").toList.mapM parseCells
  return some ⟨hi, cells⟩

def sqJson : Sq → Json
  | none => Json.null
  | some s => Json.mkObj [("hi", Json.str (timeStr s.hi)), ("cells", Json.arr (s.cells.map cellsJson).toArray)]

def optRatJson : Option Rat → Json
  | none => Json.null
  | some v => Json.str (ratStr v)

/-- dummy externals: unary functions and quantiles are never compared through the model -/
def dummyExt : Ext := { unaryFn := fun _ v => v, quant := fun _ _ => 0 }

end Zeno.Drv
