import ZenoModel.Driver.StoreEngine
import ZenoModel.Model.Alter

/-
Driver engine "alter": a script of ingest / flush / alter / reopen / iterate steps against
one table (JSON of StoreEngine plus `alter` and `reopen` with a field list and a WHERE id).
Per step it also evaluates the executable simulation check between the store model and the
one-column model (`stepMismatches`), and per alter it lists the fields the property calls
"added" (name+expression not in the previous definition) whose column is not empty right
after the alter in the model (the model is of the code, printed-identity collisions included).
At the end: the property's reference semantics (`ASpec`) of the whole history.
-/
namespace Zeno.Drv
open Lean

def parseWhere (j : Json) : Option Nat :=
  match j.getObjVal? "where" with
  | .ok v => v.getNat?.toOption
  | .error _ => none

def parseFields (j : Json) : R (List Field) := do
  (← arr j "fields").toList.mapM parseField

/-- is the column of field `f` empty in every row of a memstore-inclusive scan -/
def colEmpty (a : AStore) (f : Field) : Bool :=
  (a.scan [f] true).all (fun r => match r.cols.getD 0 none with
    | none => true
    | some q => q.cells.all (fun c => c == f.ex.empty))

def alterEngine (j : Json) : R Json := do
  let cfg ← parseCfg (← obj j "cfg")
  let w0 := parseWhere j
  let pre := boolD j "prefix" false     -- model the code as found (before repair D14a: `alterPre`)
  let ops ← arr j "ops"
  let mut a := AStore.init cfg w0
  let mut outs : Array Json := #[]
  let mut aops : Array AOp := #[]
  let mut mism : Array Json := #[]
  let mut i := 0
  -- the definition the user applied last (an alter the code ignores does not change `a.cfg.fields`)
  let mut intended := cfg.fields
  for op in ops do
    let kind ← str op "op"
    let aop? : Option AOp ← match kind with
      | "ingest" => do pure (some (AOp.ingest (← parseRawPoint (← obj op "p"))))
      | "flush" => pure (some AOp.flush)
      | "alter" => do pure (some (AOp.alter (← parseFields op) (parseWhere op)))
      | "reopen" => do pure (some (AOp.reopen (← parseFields op) (parseWhere op)))
      | "iterate" => pure none
      | o => throw s!"alter: unknown op {o}"
    match aop? with
    | some aop =>
        aops := aops.push aop
        if !pre then
          for (k, n) in stepMismatches dummyExt a aop do
            mism := mism.push (Json.mkObj [("op", Json.num (Int.ofNat i)), ("key", keyJson k), ("field", Json.str n)])
        let a' := if pre then a.stepPre dummyExt aop else a.step dummyExt aop
        match aop with
        | .ingest p =>
            let ok := (a.ingest dummyExt p).2
            -- the harness passes the WHERE bit it evaluated with the table's WHERE at that time
            let whereAgrees := boolD (← obj op "p") "where" (a.whereOk p) == a.whereOk p
            outs := outs.push (Json.mkObj [("accepted", Json.bool ok), ("whereAgrees", Json.bool whereAgrees)])
        | .flush =>
            let shared := a.st.flush a.cfg false
            let same := fun (p q : Option (List Row)) => match p, q with
              | none, none => true
              | some p, some q => p.length == q.length && (p.zip q).all (fun (r, s) => r.key == s.key && r.cols == s.cols)
              | _, _ => false
            if !(same shared.file a'.st.file && shared.mem.isEmpty == a'.st.mem.isEmpty &&
                shared.flushCount == a'.st.flushCount) then
              mism := mism.push (Json.mkObj [("op", Json.num (Int.ofNat i)), ("what", Json.str "Store.flush vs Store.flushBody")])
            outs := outs.push (Json.mkObj [("flushed", Json.bool (!a.st.mem.isEmpty)),
              ("flushCount", Json.num (Int.ofNat a'.st.flushCount))])
        | .alter fs _ =>
            let added := fs.filter (fun f => !(intended.any (fun g => g == f)))
            intended := fs
            -- the harness observes after the forced-flush round trip that follows every alter
            let stale := added.filter (fun f => !(colEmpty a'.flush f))
            outs := outs.push (Json.mkObj [
              ("ignored", Json.bool (fieldsSame fs a.cfg.fields)),
              ("memEmpty", Json.bool a.st.mem.isEmpty),
              ("added", Json.arr (added.map (fun f => Json.str f.name)).toArray),
              ("stale", Json.arr (stale.map (fun f => Json.str f.name)).toArray)])
        | .reopen fs _ =>
            intended := fs
            outs := outs.push (Json.mkObj [("fileFields", Json.arr (a'.st.fileFields.map (fun f =>
              match f with | some f => Json.str f.name | none => Json.null)).toArray)])
        a := a'
    | none =>
        let names ← match op.getObjVal? "fields" with
          | .ok (Json.arr n) => do pure (some (← n.toList.mapM (·.getStr?)))
          | _ => pure none
        let outFields := match names with
          | none => a.cfg.fields
          | some ns => ns.filterMap (fun n => a.cfg.fields.find? (fun f => f.name == n))
        let mem := boolD op "mem" true
        let rows := a.scan outFields mem
        -- file rows that map none of the requested columns (the situation of D15/D17)
        let skipped := ((a.st.file.getD []).length + (if mem then (a.st.mem.filter (fun m =>
          !((a.st.file.getD []).any (fun r => r.key == m.key)))).length else 0)) - rows.length
        -- cross-check with the shared definition of Model/Store.lean
        let shared := (a.st.iterate a.cfg outFields mem).rows
        let agree := shared.length == rows.length &&
          (shared.zip rows).all (fun (p, q) => p.key == q.key && p.cols == q.cols)
        if !agree then
          mism := mism.push (Json.mkObj [("op", Json.num (Int.ofNat i)), ("what", Json.str "Store.iterate vs Store.iterateC")])
        outs := outs.push (Json.mkObj [("rows", Json.arr (rows.map rowJson).toArray), ("skipped", Json.num (Int.ofNat skipped))])
    i := i + 1
  let sp := ASpec.run dummyExt cfg w0 aops.toList
  let srows := sp.rows.map (fun r => Json.mkObj [("key", keyJson r.key), ("period", Json.str (timeStr r.period)),
    ("cells", Json.arr (r.cells.map cellsJson).toArray)])
  pure (Json.mkObj [("outs", Json.arr outs), ("now", Json.str (timeStr a.st.now)),
    ("fields", Json.arr (a.cfg.fields.map (fun f => Json.str f.name)).toArray),
    ("stepMismatch", Json.arr mism),
    ("spec", Json.mkObj [("rows", Json.arr srows.toArray), ("now", Json.str (timeStr sp.now)),
      ("hwm", Json.str (timeStr sp.hwm)),
      ("fields", Json.arr (sp.fields.map (fun f => Json.str f.name)).toArray)])])

end Zeno.Drv
