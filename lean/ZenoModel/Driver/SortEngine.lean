/-
Driver engine `sort` (C09): `orderedRows.Less`, ORDER BY, LIMIT/OFFSET of Model/Sort.lean.

Values:  {"t":"nil"} | {"t":"bool","v":true} | {"t":"int","k":"u16","v":"5"} |
         {"t":"float","k":"f64","v":"3/2"} | {"t":"str","v":"x"} | {"t":"time","v":"<ns>"} |
         {"t":"other","v":0}
Rows:    {"ts":"<unix ns>","key":[["dim",value],…],"fields":[["name","rat"],…]}
Keys:    [{"f":"_time","d":false},…]
Ops:     less  {a,b,keys}            → {less, panic, pre_fix}
         sort  {rows,keys}           → {rows, panic}      (model's stable insertion sort)
         slice {rows,limit,offset}   → {rows}
         query {rows,keys,limit,offset} → {rows}         (addOrderLimitOffset with the model sort)
-/
import ZenoModel.Driver.Codec
import ZenoModel.Model.Sort

namespace Zeno.Drv
open Lean

def intKind : String → R IntKind
  | "byte" => pure .byte | "u16" => pure .u16 | "u32" => pure .u32 | "u64" => pure .u64
  | "uint" => pure .uint | "i8" => pure .i8 | "i16" => pure .i16 | "i32" => pure .i32
  | "i64" => pure .i64 | "int" => pure .int
  | s => throw s!"unknown int kind {s}"

def intKindStr : IntKind → String
  | .byte => "byte" | .u16 => "u16" | .u32 => "u32" | .u64 => "u64" | .uint => "uint"
  | .i8 => "i8" | .i16 => "i16" | .i32 => "i32" | .i64 => "i64" | .int => "int"

def parseDimVal (j : Json) : R DimVal := do
  match (← str j "t") with
  | "nil" => pure .nil
  | "bool" => pure (.bool (← (← obj j "v").getBool?))
  | "int" => pure (.int (← intKind (← str j "k")) (← int j "v"))
  | "float" =>
      let k ← str j "k"
      if k == "f32" then pure (.float true (← rat j "v"))
      else if k == "f64" then pure (.float false (← rat j "v"))
      else throw s!"unknown float kind {k}"
  | "str" => pure (.str (← str j "v"))
  | "time" => pure (.time (← int j "v"))
  | "other" => pure (.other (← nat j "v"))
  | t => throw s!"unknown value type {t}"

def dimValJson : DimVal → Json
  | .nil => Json.mkObj [("t", Json.str "nil")]
  | .bool b => Json.mkObj [("t", Json.str "bool"), ("v", Json.bool b)]
  | .int k v => Json.mkObj [("t", Json.str "int"), ("k", Json.str (intKindStr k)), ("v", Json.str (toString v))]
  | .float s v => Json.mkObj [("t", Json.str "float"), ("k", Json.str (if s then "f32" else "f64")), ("v", Json.str (ratStr v))]
  | .str s => Json.mkObj [("t", Json.str "str"), ("v", Json.str s)]
  | .time ns => Json.mkObj [("t", Json.str "time"), ("v", Json.str (toString ns))]
  | .other n => Json.mkObj [("t", Json.str "other"), ("v", Json.num (Int.ofNat n))]

def parsePair {α : Type} (f : Json → R α) (j : Json) : R (String × α) := do
  let a ← j.getArr?
  if a.size ≠ 2 then throw "pair expected"
  pure (← a[0]!.getStr?, ← f a[1]!)

def parseFlatRow (j : Json) : R FlatRow := do
  let ts ← int j "ts"
  let key ← (← arr j "key").toList.mapM (parsePair parseDimVal)
  let fields ← (← arr j "fields").toList.mapM (parsePair (fun v => do parseRat (← v.getStr?)))
  pure { ts := ts, key := key, fields := fields }

def flatRowJson (r : FlatRow) : Json :=
  Json.mkObj [
    ("ts", Json.str (toString r.ts)),
    ("key", Json.arr (r.key.map (fun (k, v) => Json.arr #[Json.str k, dimValJson v])).toArray),
    ("fields", Json.arr (r.fields.map (fun (k, v) => Json.arr #[Json.str k, Json.str (ratStr v)])).toArray)]

def parseOrderBy (j : Json) : R OrderBy := do
  pure { field := ← str j "f", desc := boolD j "d" false }

def parseRows (j : Json) (k : String) : R (List FlatRow) := do
  (← arr j k).toList.mapM parseFlatRow
def parseKeys (j : Json) : R (List OrderBy) := do
  (← arr j "keys").toList.mapM parseOrderBy
def rowsJson (rs : List FlatRow) : Json := Json.arr (rs.map flatRowJson).toArray

def sortEngine (j : Json) : R Json := do
  let op ← str j "op"
  match op with
  | "less" =>
      let a ← parseFlatRow (← obj j "a")
      let b ← parseFlatRow (← obj j "b")
      let ks ← parseKeys j
      pure (Json.mkObj [
        ("less", Json.bool (less ks a b)),
        ("panic", Json.bool (lessP ks a b).isNone),
        ("pre_fix", Json.bool (lessBuggy ks a b))])
  | "sort" =>
      let rows ← parseRows j "rows"
      let ks ← parseKeys j
      let panic := rows.any (fun a => rows.any (fun b => (lessP ks a b).isNone))
      pure (Json.mkObj [("rows", rowsJson (isort ks rows)), ("panic", Json.bool panic)])
  | "slice" =>
      let rows ← parseRows j "rows"
      pure (Json.mkObj [("rows", rowsJson (limitOffset (← nat j "limit") (← nat j "offset") rows))])
  | "query" =>
      let rows ← parseRows j "rows"
      let ks ← parseKeys j
      let q : OLO := { orderBy := ks, limit := ← nat j "limit", offset := ← nat j "offset" }
      pure (Json.mkObj [("rows", rowsJson (addOrderLimitOffset isort q rows))])
  | _ => throw s!"sort: unknown op {op}"

end Zeno.Drv
