import ZenoModel.Driver.Codec
import ZenoModel.Model.Store
import ZenoModel.Model.Spec
import ZenoModel.Model.StoreColumn

namespace Zeno.Drv
open Lean

def parseField (j : Json) : R Field := do
  pure { name := ← str j "name", ex := ← parseEx (← obj j "e") }

def parseKey (j : Json) : R Key := do
  match j with
  | Json.obj kvs =>
      let l ← kvs.toList.mapM (fun (k, v) => do pure (k, ← v.getStr?))
      pure (l.mergeSort (fun a b => a.1 ≤ b.1))
  | _ => pure []

def keyJson (k : Key) : Json := Json.mkObj (k.map (fun (a, b) => (a, Json.str b)))

def parseCfg (j : Json) : R TableCfg := do
  let fields ← (← arr j "fields").toList.mapM parseField
  let groupBy ← match j.getObjVal? "groupBy" with
    | .ok (Json.arr a) => do pure (some (← a.toList.mapM (·.getStr?)))
    | _ => pure none
  pure { fields := fields, res := ← int j "res", retention := ← int j "retention", groupBy := groupBy }

def parseRawPoint (j : Json) : R RawPoint := do
  let vals ← match j.getObjVal? "vals" with
    | .ok (Json.obj kvs) => kvs.toList.mapM (fun (k, v) => do
        let a ← v.getArr?
        pure (k, ← a.toList.mapM (fun x => do parseRat (← x.getStr?))))
    | _ => pure []
  let conds ← match j.getObjVal? "conds" with
    | .ok v => do (← v.getArr?).toList.mapM (·.getNat?)
    | _ => pure []
  pure { ts := ← time j "ts", dims := ← parseKey (← obj j "dims"), whereOk := boolD j "where" true,
         vals := vals, conds := conds, panics := boolD j "panics" false }

def rowJson (r : Row) : Json :=
  Json.mkObj [("key", keyJson r.key), ("cols", Json.arr (r.cols.map sqJson).toArray)]

/-- engine `store`: a script of ingest / flush / iterate steps against one table -/
def storeEngine (j : Json) : R Json := do
  let cfg ← parseCfg (← obj j "cfg")
  let ops ← arr j "ops"
  let mut st := Store.init cfg
  let mut outs : Array Json := #[]
  let mut sops : Array StoreOp := #[]
  for op in ops do
    match (← str op "op") with
    | "ingest" =>
        let p ← parseRawPoint (← obj op "p")
        sops := sops.push (.ingest p)
        let (st', ok) := st.ingest dummyExt cfg p
        st := st'
        outs := outs.push (Json.mkObj [("accepted", Json.bool ok)])
    | "flush" =>
        sops := sops.push (.flush (boolD op "sorted" false))
        st := st.flush cfg (boolD op "sorted" false)
        outs := outs.push (Json.mkObj [("flushCount", Json.num (Int.ofNat st.flushCount))])
    | "iterate" =>
        let names ← match op.getObjVal? "fields" with
          | .ok (Json.arr a) => do pure (some (← a.toList.mapM (·.getStr?)))
          | _ => pure none
        let outFields := match names with
          | none => cfg.fields
          | some ns => ns.filterMap (fun n => cfg.fields.find? (fun f => f.name == n))
        let r := st.iterate cfg outFields (boolD op "mem" true)
        outs := outs.push (Json.mkObj [("rows", Json.arr (r.rows.map rowJson).toArray), ("stopped", Json.bool r.stopped)])
    | o => throw s!"store: unknown op {o}"
  -- executable tie between the store model and the one-column model (Model/StoreColumn.lean)
  let mm := projectionMismatches dummyExt cfg sops.toList true ++ projectionMismatches dummyExt cfg sops.toList false
  pure (Json.mkObj [("outs", Json.arr outs), ("now", Json.str (timeStr st.now)),
    ("projMismatch", Json.arr (mm.map (fun (k, i) => Json.mkObj [("key", keyJson k), ("field", Json.num (Int.ofNat i))])).toArray)])

/-- engine `spec`: the raw-point reference semantics of one table -/
def specEngine (j : Json) : R Json := do
  let cfg ← parseCfg (← obj j "cfg")
  let ps ← (← arr j "points").toList.mapM parseRawPoint
  let s := specTableD dummyExt cfg (boolD j "dup" false) ps
  let rows := s.rows.map (fun r => Json.mkObj [("key", keyJson r.key), ("period", Json.str (timeStr r.period)),
    ("cells", Json.arr (r.cells.map cellsJson).toArray)])
  pure (Json.mkObj [("rows", Json.arr rows.toArray), ("now", Json.str (timeStr s.now))])

end Zeno.Drv
