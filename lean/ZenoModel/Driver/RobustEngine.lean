/-
Driver engine `robust` (C16): op `parse` — AST summary ↦ possible outcome classes of
sql.Parse / sql.TableFor / Fields.Get; op `insert` — payload class sequence ↦ which payloads
are rejected, skipped, ingested, and the table content afterwards; op `lex` — the bytes of a
query text ↦ the fate of sqlparser's tokenizer (ends | loops) and the pre-scan's verdict.
-/
import ZenoModel.Driver.Codec
import ZenoModel.Model.SqlDispatch
import ZenoModel.Model.SqlLex

namespace Zeno.Drv
open Lean Zeno.Sql

def litOf (j : Json) : R Lit := do
  let ns ← match j.getObjVal? "durNs" with
    | .ok v => do parseInt (← v.getStr?)
    | .error _ => pure 0
  pure { durOk := boolD j "durOk" false, durNs := ns, fOk := boolD j "fOk" false,
         fWhole := boolD j "fWhole" false, iWhole := boolD j "iWhole" false, under := boolD j "under" false }

mutual
  partial def exOf (j : Json) : R Sql.Ex := do
    match (← str j "k") with
    | "col" => pure (.col (← str j "n"))
    | "num" => pure (.num (boolD j "a" false) (boolD j "f" false))
    | "str" => pure .str
    | "func" => pure (.func (← str j "n") (← argsOf (← arr j "args")))
    | "cmp" => pure (.cmp (← str j "op") (← exOf (← obj j "l")) (← exOf (← obj j "r")))
    | "bin" => pure (.bin (← str j "op") (← exOf (← obj j "l")) (← exOf (← obj j "r")))
    | "tuple" => do
        let xs ← (← arr j "xs").toList.mapM exOf
        pure (.tuple (Exs.ofList xs))
    | "and" => pure (.and (← exOf (← obj j "l")) (← exOf (← obj j "r")))
    | "or" => pure (.or (← exOf (← obj j "l")) (← exOf (← obj j "r")))
    | "not" => pure (.not (← exOf (← obj j "e")))
    | "paren" => pure (.paren (← exOf (← obj j "e")))
    | "nullcheck" => pure (.nullCheck (← exOf (← obj j "e")))
    | "subq" => pure (.subq (← stmtOf (← obj j "s")))
    | "other" => pure .other
    | k => throw s!"unknown expression kind {k}"

  partial def argOf (j : Json) : R Sql.Arg := do
    match (← str j "k") with
    | "star" => pure .star
    | "ns" => do
        let lit ← match j.getObjVal? "lit" with
          | .ok l => litOf l
          | .error _ => pure {}
        pure (.ns (← exOf (← obj j "e")) (← str j "as") lit)
    | k => throw s!"unknown select expression kind {k}"

  partial def argsOf (a : Array Json) : R Sql.Args := do
    pure (Args.ofList (← a.toList.mapM argOf))

  partial def fromOf (j : Json) : R Sql.From := do
    match (← str j "k") with
    | "none" => pure .none
    | "table" => pure .table
    | "subqBad" => pure .subqBad
    | "subq" => pure (.subq (← stmtOf (← obj j "s")))
    | "other" => pure .other
    | k => throw s!"unknown from kind {k}"

  partial def stmtOf (j : Json) : R Sql.Stmt := do
    match (← str j "k") with
    | "select" => do
        let s ← obj j "sel"
        let wj := (s.getObjVal? "where").toOption.getD Json.null
        let hasWhere := !wj.isNull
        let wher : Sql.Ex ← if hasWhere then exOf wj else pure Sql.Ex.other
        pure (.select (.mk (← argsOf (← arr s "exprs")) (boolD s "fieldsOk" false) (← argsOf (← arr s "fields"))
          (← fromOf (← obj s "from")) hasWhere wher (boolD s "timeOk" false) (← argsOf (← arr s "groupBy"))
          (boolD s "limitOk" false)))
    | "union" => pure .union
    | "insert" => pure .insert
    | "update" => pure .update
    | "delete" => pure .delete
    | "set" => pure .set
    | "ddl" => pure .ddl
    | "other" => pure .other
    | k => throw s!"unknown statement kind {k}"
end

def classesJson {α} (r : Res α) : Json := Json.arr (r.classes.map Json.str).toArray

def valKindOf (j : Json) : R Ins.ValKind := do
  match (← str j "k") with
  | "num" => pure .num
  | "arrF" => pure (.arrF (← nat j "n"))
  | "arrI" => pure (.arrI (← nat j "n"))
  | "other" => pure .other
  | k => throw s!"unknown value kind {k}"

def payloadOf (j : Json) : R Ins.Payload := do
  let vals ← match j.getObjVal? "vals" with
    | .ok v => do (← v.getArr?).toList.mapM valKindOf
    | .error _ => pure []
  pure { streamKnown := boolD j "streamKnown" true, follower := boolD j "follower" false,
         dimsValid := boolD j "dimsValid" true, valsValid := boolD j "valsValid" true,
         fresh := boolD j "fresh" true, vals := vals }

def ackStr : Ins.Ack → String
  | .accepted => "accepted" | .rejected => "rejected" | .callerPanic => "panic"

def fateJson : Ins.Fate → Json
  | .ingested n => Json.mkObj [("fate", "ingested"), ("n", Json.num (Int.ofNat n))]
  | .skipped => Json.mkObj [("fate", "skipped")]
  | .crash => Json.mkObj [("fate", "crash")]

/-- engine `robust` -/
def robustEngine (j : Json) : R Json := do
  match (← str j "op") with
  | "parse" =>
      let s ← stmtOf (← obj j "stmt")
      let known ← match j.getObjVal? "known" with
        | .ok k => do (← k.getArr?).toList.mapM (fun e => do
            let a ← e.getArr?
            if a.size ≠ 2 then throw "known: [name, isPercentile] expected"
            pure ((← a[0]!.getStr?), (a[1]!.getBool?.toOption).getD false))
        | .error _ => pure []
      let cfg := if boolD j "orig" false then Cfg.orig else Cfg.fixed
      let pr := parseStmt cfg s
      -- Fields.Get is only reached when Parse returned a query
      let fr : Res Unit := if pr.val.isSome then fieldsOf cfg known s else ⟨none, false, false⟩
      pure (Json.mkObj [
        ("wf", Json.bool s.wf),
        ("parse", classesJson pr),
        ("tablefor", classesJson (tableFor cfg s)),
        ("fields", classesJson fr),
        ("origPanics", Json.bool ((parseStmt Cfg.orig s).pan || (tableFor Cfg.orig s).pan ||
          (fieldsOf Cfg.orig known s).pan))])
  | "insert" =>
      let wl := boolD j "whitelist" false
      let cfg : Ins.ICfg := if boolD j "orig" false then ⟨false, true, wl⟩ else Ins.ICfg.fixed wl
      let steps ← (← arr j "steps").toList.mapM payloadOf
      let outs := steps.map (fun p =>
        let ack := Ins.insertRaw cfg p
        Json.mkObj ([("ack", Json.str (ackStr ack))] ++
          (if ack == .accepted then [("then", fateJson (Ins.tableInsert cfg p))] else [])))
      let fin := Ins.run cfg Ins.St.init steps
      pure (Json.mkObj [
        ("steps", Json.arr outs.toArray),
        ("rows", Json.arr (fin.rows.map (fun (n : Nat) => Json.num (Int.ofNat n))).toArray),
        ("points", Json.num (Int.ofNat (fin.rows.foldl (· + ·) 0))),
        ("offset", Json.num (Int.ofNat fin.offset)),
        ("dead", Json.bool fin.dead)])
  | "crosshift" =>
      -- one CROSSHIFT(value, cutoff, interval): what the statement-order program does with the two durations
      let cutoff ← int j "cutoff"
      let interval ← int j "interval"
      let (name, n) : String × Nat := match Cross.crosshift maxCrosshiftFields Cross.canonical cutoff interval with
        | .error => ("error", 0)
        | .fields n => ("fields", n)
        | .diverges => ("diverges", 0)
        | .wraps => ("wraps", 0)
        | .divZero => ("divZero", 0)
      pure (Json.mkObj [("outcome", Json.str name), ("n", Json.num (Int.ofNat n))])
  | "lex" =>
      -- the two lexers of sql.Parse on one text (bytes 0..255), fuel = length + 1 (never exhausted: lexer_fuel_suffices)
      let bytes ← (← arr j "bytes").toList.mapM (fun b => b.getNat?)
      let s : Lex.Str := bytes.map Char.ofNat
      let verdict (o : Option Bool) (yes no : String) : String :=
        match o with | some true => yes | some false => no | none => "fuel"
      pure (Json.mkObj [
        ("tok", Json.str (verdict (Lex.tokAll (s.length + 1) true s) "ends" "loops")),
        ("pre", Json.str (verdict (Lex.preAll (s.length + 1) true s) "accepts" "rejects"))])
  | op => throw s!"robust: unknown op {op}"

end Zeno.Drv
