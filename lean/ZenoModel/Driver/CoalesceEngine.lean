/-
Driver engine `coalesce` (C17): `doProcessIterations` of Model/Coalesce.lean.

Op `batch`:
  {"engine":"coalesce","op":"batch",
   "table":{"disk":[trow…],"fresh":[trow…],"failAt":{"n":2,"code":5}?},
   "its":[{"fields":["a (SUM(a))",…],"mem":true,"deadline":0?,
           "consumer":{"kind":"collect"|"stopAt"|"errAt","k":3,"code":7,"skipBlank":true}}…]}
  trow = {"key":"…","cols":[["a (SUM(a))",12],["b (SUM(b))",null]],"mem":false}
  (values are opaque content ids, null = nil sequence; "deadline":d = the iteration's guard
   reports a timeout from the check after scan row d on, absent = no deadline)
→ {"union":[…],"mem":bool,
   "results":[{"recv":[{"key":…,"vals":[…]}…],"err":null|"deadline"|"consumer:7"|"source:5","state":n}…],
   "pre_fix":[…same shape: the code as found (D3/D8/D15)…]}
-/
import ZenoModel.Driver.Codec
import ZenoModel.Model.Coalesce

namespace Zeno.Drv
open Lean Zeno.Coalesce

def coOptNat (j : Json) : R (Option Nat) :=
  if j.isNull then pure none else do pure (some (← j.getNat?))

def coParseTRow (j : Json) : R TRow := do
  let cols ← (← arr j "cols").toList.mapM (fun c => do
    let a ← c.getArr?
    if a.size ≠ 2 then throw "col = [field, value]"
    pure (← a[0]!.getStr?, ← coOptNat a[1]!))
  pure { key := ← str j "key", cols := cols, mem := boolD j "mem" false }

def coParseTable (j : Json) : R Table := do
  let disk ← (← arr j "disk").toList.mapM coParseTRow
  let fresh ← (← arr j "fresh").toList.mapM coParseTRow
  let failAt ← match j.getObjVal? "failAt" with
    | .ok f => if f.isNull then pure none else do pure (some (← nat f "n", Err.source (← nat f "code")))
    | .error _ => pure none
  pure { disk := disk, fresh := fresh, failAt := failAt }

def coParseConsumer (j : Json) : R (Nat → String → List Val → Nat × Bool × Option Err) := do
  let base ← match (← str j "kind") with
    | "collect" => pure collect
    | "stopAt" => do pure (stopAt (← nat j "k"))
    | "errAt" => do pure (errAt (← nat j "k") (← nat j "code"))
    | k => throw s!"unknown consumer {k}"
  pure (if boolD j "skipBlank" false then ignoringBlank base else base)

def coParseIter (j : Json) : R (Iter Nat) := do
  let fields ← (← arr j "fields").toList.mapM (·.getStr?)
  let deadline ← match j.getObjVal? "deadline" with
    | .ok d => coOptNat d
    | .error _ => pure none
  pure { fields := fields, includeMem := boolD j "mem" true, deadline := deadline,
         onValue := ← coParseConsumer (← obj j "consumer"), init := 0 }

def coValJson : Val → Json
  | none => Json.null
  | some n => Json.num (Int.ofNat n)

def coErrJson : Option Err → Json
  | none => Json.null
  | some .deadline => Json.str "deadline"
  | some (.consumer c) => Json.str s!"consumer:{c}"
  | some (.source c) => Json.str s!"source:{c}"

def coResultJson (r : ItResult Nat) : Json :=
  Json.mkObj [
    ("recv", Json.arr (r.recv.map (fun (k, vs) =>
      Json.mkObj [("key", Json.str k), ("vals", Json.arr (vs.map coValJson).toArray)])).toArray),
    ("err", coErrJson r.err),
    ("state", Json.num (Int.ofNat r.st))]

def coalesceEngine (j : Json) : R Json := do
  let op ← str j "op"
  match op with
  | "batch" =>
      let t ← coParseTable (← obj j "table")
      let its ← (← arr j "its").toList.mapM coParseIter
      if its.isEmpty then throw "empty batch"
      let res := doProcessIterations t.scan its
      let pre := doProcessIterationsBuggy t.scanBuggy its
      pure (Json.mkObj [
        ("union", Json.arr ((unionFields its []).map Json.str).toArray),
        ("mem", Json.bool (orMem its)),
        ("results", Json.arr (res.map coResultJson).toArray),
        ("pre_fix", Json.arr (pre.map coResultJson).toArray)])
  | _ => throw s!"coalesce: unknown op {op}"

end Zeno.Drv
